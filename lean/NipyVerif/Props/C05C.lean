/-
C05 (extension) — property theorems: rank (`matrix_rank` / full-rank domain / refusal of
rank-deficient designs), AR(p) whitening as a filter, `yule_walker`, `ar_bias_correct`,
the `axis=` option of the labs engines, agreement of all implementations on every shared
observable, and the scatter of the per-bin AR(1) results of the fMRI GLM.
-/
import NipyVerif.Lemmas.C05B
import NipyVerif.Props.C05B

namespace NipyVerif.C05
open Finset Matrix

/-! ## rank: the property's domain and what the model does outside it -/

/-- the certified rank is the rank (Mathlib's `Matrix.rank` over ℚ): the exact value
    `matrix_rank` approximates with an SVD and a tolerance. -/
theorem rankCert_sound {n p : Nat} (X : Mat n p) (r : Nat) (h : rankCert X = some r) :
    (toM X).rank = r := rankCertOf_sound X _ r h

/-- a successful fit certifies that the whitened design has full column rank: on every input the
    model accepts, `df_model = matrix_rank(design) = p` (this discharges the former hypothesis
    "matrix_rank of a design whose Gram matrix has a certified inverse is its column count"). -/
theorem fit_implies_full_rank {n p v : Nat} (wX : Mat n p) (wY : Mat n v) (f : Fit n p v)
    (h : fitW wX wY = some f) : (toM wX).rank = p := by
  obtain ⟨G, _, s⟩ := fitW_spec h
  exact rank_of_gram_inv wX G s.inv

/-- conversely a rank-deficient design is outside the model's domain: the fit is refused
    (`error:singular`), whatever the data.  (The implementation goes on with `pinv`: minimum-norm
    coefficients, `df_model = rank`, but `dispersion = SSE/(n - p)` with the column count — the
    property quantifies over full-rank designs only.) -/
theorem rank_deficient_refused {n p v : Nat} (wX : Mat n p) (wY : Mat n v)
    (h : (toM wX).rank < p) : fitW wX wY = none := by
  cases hf : fitW wX wY with
  | none => rfl
  | some f => exact absurd (fit_implies_full_rank wX wY f hf) (Nat.ne_of_lt h)

/-- the same for the four model classes and for the labs `ols` engine. -/
theorem rank_deficient_refused_all {n p v : Nat} (w : Whitener n) (X : Mat n p) (Y : Mat n v)
    (h : (toM (w.apply X)).rank < p) : fit w X Y = none := by
  rw [fit_eq]; exact rank_deficient_refused _ _ h

/-! ## AR(p) whitening -/

/-- `ARModel.whiten` (the loop over the lags, as written) is the order-`p` filter
    `x_t − Σ_{i<p, i+1≤t} ρ_i x_{t−i−1}` for every order `p` and every `ρ`. -/
theorem whitenAR_eq_filter {n k : Nat} (rho : List Rat) (X : Mat n k) : whitenAR rho X = arFilter rho X := by
  funext t j
  rw [arFilter_lag]
  unfold whitenAR
  rw [arLoop_filter X rho 0 X t j]
  simp only [Nat.zero_add]

/-- the whitening is linear: `W(aA + bB) = a·W(A) + b·W(B)`. -/
theorem ar_whiten_linear {n k : Nat} (rho : List Rat) (A B : Mat n k) (a b : Rat) :
    whitenAR rho (fun t j => a * A t j + b * B t j)
      = fun t j => a * whitenAR rho A t j + b * whitenAR rho B t j := by
  unfold whitenAR
  rw [arLoop_add (fun t j => a * A t j) (fun t j => b * B t j) rho 0
        (fun t j => a * A t j) (fun t j => b * B t j),
      arLoop_smul a A rho 0 A, arLoop_smul b B rho 0 B]

/-- the whitening is invertible for *every* coefficient vector (inside or outside the stationarity
    region): it is a unit lower-triangular filter, so two series with the same whitened version are
    equal — no information is lost, the whitened least-squares problem is equivalent to the
    generalised one. -/
theorem whitenAR_injective {n k : Nat} (rho : List Rat) (X X' : Mat n k)
    (h : whitenAR rho X = whitenAR rho X') : X = X' := by
  rw [whitenAR_eq_filter, whitenAR_eq_filter] at h
  have key : ∀ m : Nat, ∀ t : Fin n, t.1 < m → ∀ j, X t j = X' t j := by
    intro m
    induction m with
    | zero => intro t ht; omega
    | succ m ih =>
        intro t ht j
        have e := congrFun (congrFun h t) j
        rw [arFilter_lag, arFilter_lag] at e
        have hl : ∀ d, lagRow X t (d + 1) j = lagRow X' t (d + 1) j := by
          intro d
          unfold lagRow
          by_cases hd : d + 1 ≤ t.1
          · simp only [dif_pos hd]
            exact ih ⟨t.1 - (d + 1), by omega⟩ (by simp only; omega) j
          · simp only [dif_neg hd]
        simp only [hl] at e
        linarith
  funext t j
  exact key (t.1 + 1) t (Nat.lt_succ_self _) j

/-- **AR(p) regression is generalised least squares** with the banded, unit lower-triangular
    whitening matrix `W = arMat ρ` (`W[t,t] = 1`, `W[t,t−i−1] = −ρ_i`): `ARModel(X, ρ)` and
    `GLSModel` with `cholsigmainv = W` are the same fit, for every order and every `ρ`. -/
theorem ar_eq_gls {n p v : Nat} (rho : List Rat) (X : Mat n p) (Y : Mat n v) :
    fit (.ar rho) X Y = fit (.gls (arMat rho n)) X Y := by
  simp only [fit_eq, Whitener.apply, whitenGLS, arMat_mul, whitenAR_eq_filter]

/-- the whitening matrix is unit lower triangular (hence invertible, determinant one). -/
theorem arMat_unit_lower (rho : List Rat) (n : Nat) (t u : Fin n) :
    (arMat rho n t t = 1) ∧ (t.1 < u.1 → arMat rho n t u = 0) := by
  constructor
  · simp [arMat]
  · intro h
    have h1 : ¬ u.1 = t.1 := by omega
    have h2 : ¬ (u.1 < t.1 ∧ t.1 - u.1 ≤ rho.length) := by omega
    unfold arMat
    rw [if_neg h1, if_neg h2]

/-- AR(1): the classical `x_t − ρ x_{t−1}` -/
theorem whitenAR_order1 {n k : Nat} (ρ : Rat) (X : Mat n k) (t : Fin n) (j : Fin k) :
    whitenAR [ρ] X t j = X t j - ρ * lagRow X t 1 j := by
  rw [whitenAR_eq_filter, arFilter_lag]; simp

/-- AR(2) and AR(3) in closed form -/
theorem whitenAR_order23 {n k : Nat} (r1 r2 r3 : Rat) (X : Mat n k) (t : Fin n) (j : Fin k) :
    whitenAR [r1, r2] X t j = X t j - (r1 * lagRow X t 1 j + r2 * lagRow X t 2 j) ∧
    whitenAR [r1, r2, r3] X t j
      = X t j - (r1 * lagRow X t 1 j + r2 * lagRow X t 2 j + r3 * lagRow X t 3 j) := by
  constructor
  · rw [whitenAR_eq_filter, arFilter_lag]
    simp [List.range_succ]
  · rw [whitenAR_eq_filter, arFilter_lag]
    simp [List.range_succ]; ring

/-! ## `yule_walker` -/

/-- the returned coefficients solve the Yule–Walker equations `R ρ = r[1:]` with the Toeplitz
    matrix of the estimated autocovariances, and `σ² = r₀ − Σ r_k ρ_k`. -/
theorem yule_walker_solves {n o : Nat} (x : Vec n) (ub : Bool) (df : Option Nat) (yw : YW o)
    (h : yuleWalker x o ub df = some yw) :
    let r := fun k => ywR x ub (ywN df n) k
    (∀ a : Fin o, ∑ b : Fin o, toepR (o := o) r a b * yw.rho b = r (a.1 + 1)) ∧
      yw.sigmasq = r 0 - ∑ a : Fin o, r (a.1 + 1) * yw.rho a ∧
      mmul yw.Rinv (toepR (o := o) r) = idm o := by
  intro r
  simp only [yuleWalker] at h
  split at h
  · exact absurd h (by simp)
  · have hr : ∀ k, k < o + 1 → ((Array.range (o + 1)).map fun k => ywR x ub (ywN df n) k).getD k 0 = r k := by
      intro k hk
      simp [Array.getD, hk, r]
    -- inside the Toeplitz matrix and the right-hand side every lag is ≤ o
    have hT : toepR (o := o) (fun k => ((Array.range (o + 1)).map fun k => ywR x ub (ywN df n) k).getD k 0)
        = toepR (o := o) r := by
      funext a b
      simp only [toepR]
      apply hr; split <;> omega
    rw [hT] at h
    split at h
    · exact absurd h (by simp)
    · rename_i Ri hRi
      simp only [ofArr1_toArr1, Option.some.injEq] at h
      have hinv := inv?_spec hRi
      have hinv' := mmul_comm_of_inv hinv
      have hrhs : ∀ c : Fin o, ((Array.range (o + 1)).map fun k => ywR x ub (ywN df n) k).getD (c.1 + 1) 0
          = r (c.1 + 1) := fun c => hr _ (by omega)
      have h0 : ((Array.range (o + 1)).map fun k => ywR x ub (ywN df n) k).getD 0 0 = r 0 := hr 0 (by omega)
      subst h
      refine ⟨?_, ?_, hinv⟩
      · intro a
        simp only [mvec, fsum_eq, hrhs]
        -- R (Ri r') = (R Ri) r' = r'
        have e : ∑ b, toepR (o := o) r a b * ∑ c, Ri b c * r (c.1 + 1)
            = ∑ c, (∑ b, toepR (o := o) r a b * Ri b c) * r (c.1 + 1) := by
          simp only [Finset.mul_sum, Finset.sum_mul]
          rw [Finset.sum_comm]
          apply Finset.sum_congr rfl; intro c _
          apply Finset.sum_congr rfl; intro b _; ring
        rw [e]
        have hI : ∀ c, ∑ b, toepR (o := o) r a b * Ri b c = if a = c then 1 else 0 := by
          intro c
          have := congrFun (congrFun hinv' a) c
          simpa [mmul, fsum_eq, idm] using this
        simp only [hI, ite_mul, one_mul, zero_mul, Finset.sum_ite_eq, Finset.mem_univ, if_true]
      · simp only [fsum_eq, hrhs, h0, mvec]

/-- the estimate does not depend on the level of the series (it is centred first). -/
theorem yule_walker_shift_invariant {n o : Nat} (x : Vec n) (c : Rat) (ub : Bool) (df : Option Nat) :
    yuleWalker (fun t => x t + c) o ub df = yuleWalker x o ub df := by
  unfold yuleWalker
  simp only [ywR_shift]

/-! ## `ar_bias_correct` -/

/-- the bias-corrected AR coefficients are computed voxel by voxel … -/
theorem ar_bias_correct_voxelwise {n v v' o : Nat} (invM : Mat (o + 1) (o + 1)) (r : Mat n v)
    (σ : Fin v' → Fin v) (a : Fin o) (j : Fin v') :
    arBiasCorrect invM (fun t k => r t (σ k)) a j = arBiasCorrect invM r a (σ j) := rfl

/-- … and do not depend on the scale of the residuals. -/
theorem ar_bias_correct_scale_invariant {n v o : Nat} (invM : Mat (o + 1) (o + 1)) (r : Mat n v)
    (c : Rat) (hc : c ≠ 0) (a : Fin o) (j : Fin v) :
    arBiasCorrect invM (fun t k => c * r t k) a j = arBiasCorrect invM r a j := by
  have hl : ∀ i, lagSum (fun t k => c * r t k) i j = c * c * lagSum r i j := by
    intro i
    simp only [lagSum, lagSum1, fsum_eq, Finset.mul_sum]
    apply Finset.sum_congr rfl; intro t _
    split
    · ring
    · simp
  have hs : ∀ (row : Fin (o + 1)),
      (fsum fun b : Fin (o + 1) => invM row b * lagSum (fun t k => c * r t k) b.1 j)
        = c * c * fsum fun b : Fin (o + 1) => invM row b * lagSum r b.1 j := by
    intro row
    simp only [fsum_eq, hl, Finset.mul_sum]
    apply Finset.sum_congr rfl; intro b _; ring
  simp only [arBiasCorrect, hs]
  have hcc : 0 < c * c := mul_self_pos.mpr hc
  set D := fsum fun b : Fin (o + 1) => invM ⟨0, by omega⟩ b * lagSum r b.1 j with hD
  by_cases hpos : 0 < D
  · have : 0 < c * c * D := mul_pos hcc hpos
    rw [posRecipr_pos this, posRecipr_pos hpos]
    field_simp
  · have hle : D ≤ 0 := not_lt.mp hpos
    have : c * c * D ≤ 0 := mul_nonpos_of_nonneg_of_nonpos (le_of_lt hcc) hle
    rw [posRecipr_nonpos this, posRecipr_nonpos hle]; ring

/-! ## labs engines: every `axis`, both engines -/

/-- the table-driven (executable) form of the axis handling is the per-fibre map -/
theorem fibreTab_get {n p a b : Nat} (F : Vec n → Vec p) (fib : Fin a → Fin b → Vec n)
    (i : Fin a) (j : Fin b) (k : Fin p) : tabGet (fibreTab F fib) i.1 j.1 k.1 = F (fib i j) k := by
  simp [tabGet, fibreTab, toArr1, Array.getD]

/-- one fibre through the `ols` engine is the labs `ols` fit of that fibre as a one-voxel block:
    `beta` in the first `p` slots, `s2` in the last. -/
theorem labsFibre_eq_labsOls {n p : Nat} (X : Mat n p) (G : Mat p p)
    (hG : inv? (mmul (tr X) X) = some G) (y : Vec n) :
    ∃ l, labsOls X (colOf y) = some l ∧
      (∀ k : Fin p, labsFibre X (mmul G (tr X)) y ⟨k.1, by omega⟩ = l.beta k 0) ∧
      labsFibre X (mmul G (tr X)) y ⟨p, by omega⟩ = l.s2 0 := by
  unfold labsOls
  simp only [ofArr2_toArr2, ofArr1_toArr1, hG]
  refine ⟨_, rfl, ?_, ?_⟩
  · intro k
    simp only [labsFibre, ofArr1_toArr1, k.2, dif_pos, mvec, mmul, colOf]
  · simp only [labsFibre, ofArr1_toArr1, lt_irrefl, dif_neg, not_false_eq_true, msub, mmul, colOf, vdot, mvec,
      fsum_eq]

/-- **all axis values**: fitting a 3-D block along axis 0, 1 or 2 gives, at every position of the two
    remaining axes, the result of the fibre through that position — the three layouts of the same
    fibres give the same numbers, for any per-fibre engine `F` (ols or Kalman). -/
theorem labs_axis_fibrewise {n p a b : Nat} (F : Vec n → Vec p) (Y : Arr3 n a b) (k : Fin p) (i : Fin a) (j : Fin b) :
    along0 F Y k i j = F (fun t => Y t i j) k ∧
    along1 F (fun i t j => Y t i j) i k j = along0 F Y k i j ∧
    along2 F (fun i j t => Y t i j) i j k = along0 F Y k i j := ⟨rfl, rfl, rfl⟩

/-! ## all implementations, all shared observables -/

/-- observables every engine reports: coefficients, normalised covariance, residual variance,
    degrees of freedom -/
structure EngineObs (p v : Nat) where
  beta : Mat p v
  nvbeta : Mat p p
  s2 : Vec v
  dof : Rat

def obsModels {n p v : Nat} (f : Fit n p v) : EngineObs p v :=
  { beta := f.beta, nvbeta := f.cov, s2 := f.dispersion, dof := ((f.dfResid : Int) : Rat) }

def obsLabs {p v : Nat} (l : LabsFit p v) : EngineObs p v :=
  { beta := l.beta, nvbeta := l.nvbeta, s2 := l.s2, dof := l.dof }

/-- **the models package, the fMRI GLM class and the labs `ols` engine agree on every shared
    observable** — `beta`, `nvbeta`/`normalized_cov_beta`, `s2`/`dispersion`/`MSE`, `dof`, and every
    t contrast (effect, variance) and F statistic built from them — and the labs Kalman engine has
    the same `dof`, coefficients and covariance solving the `1e-7`-regularised normal equations of
    the same problem (`kalman_is_ridge`), and `s2 = ssd/n` (the recorded finding). -/
theorem implementations_agree_all {n p v : Nat} (X : Mat n p) (Y : Mat n v) (l : LabsFit p v)
    (h : labsOls X Y = some l) :
    ∃ f, fit .ols X Y = some f ∧ obsLabs l = obsModels f ∧
      glmOls X Y = some (f.beta, f.dispersion) ∧
      (∀ c : Vec p, labsTEffect l c = tEffect f c ∧ labsTVar l c = tVar f c) ∧
      (kalmanOls X Y).2.2 = l.dof ∧
      (∀ j : Fin v, ∀ i, ∑ k, ((if i = k then 1 / kfInitVar else 0) + ∑ t, X t i * X t k)
          * (kalmanOls X Y).1 k j = ∑ t, Y t j * X t i) := by
  obtain ⟨f, hfit, hglm, hb, hc, hs, hd, hcon⟩ := implementations_agree X Y l h
  refine ⟨f, hfit, ?_, hglm, hcon, ?_, ?_⟩
  · simp only [obsLabs, obsModels, hb, hc, hs, hd]
  · obtain ⟨f', hf', _, _, _, hdof⟩ := labsOls_spec h
    unfold labsOls at h
    simp only [ofArr2_toArr2, ofArr1_toArr1] at h
    split at h
    · exact absurd h (by simp)
    · simp only [Option.some.injEq] at h
      rw [← h]; rfl
  · intro j i
    have := (kalman_is_ridge X (fun t => Y t j)).1 i
    simpa [kalmanOls, Array.getD] using this

/-! ## fMRI GLM, `model='ar1'`: the scatter of the per-bin results back to the voxels -/

/-- position of a voxel inside its bin: the `posIn`-th element of the group of its label is the
    voxel itself (`beta[:, labels_ == l] = results_[l].theta` writes column `posIn j` to voxel `j`). -/
theorem group_get_posIn {v : Nat} (lab : Fin v → Int) (j : Fin v)
    (h : posIn lab j < (group lab (lab j)).length) :
    (group lab (lab j)).get ⟨posIn lab j, h⟩ = j := by
  -- general fact about filters of a strictly increasing list, stated with `[·]?`
  have key : ∀ (L : List (Fin v)), L.Pairwise (· < ·) → j ∈ L →
      (L.filter fun j' => decide (lab j' = lab j))[
        (L.filter fun j' => decide (lab j' = lab j ∧ j'.1 < j.1)).length]? = some j := by
    intro L
    induction L with
    | nil => intro _ hm; exact absurd hm (by simp)
    | cons x xs ih =>
        intro hp hm
        rw [List.pairwise_cons] at hp
        by_cases hx : x = j
        · subst hx
          -- nothing in the list is < x (x is its first, smallest element)
          have hnone : (List.filter (fun j' => decide (lab j' = lab x ∧ j'.1 < x.1)) (x :: xs)) = [] := by
            rw [List.filter_eq_nil_iff]
            intro y hy
            rcases List.mem_cons.mp hy with rfl | hy
            · simp
            · have hlt : x.1 < y.1 := Fin.lt_def.mp (hp.1 y hy)
              simp only [decide_eq_true_eq, not_and, not_lt]
              intro _; omega
          rw [hnone, List.filter_cons_of_pos (by simp)]
          simp
        · have hm' : j ∈ xs := by
            rcases List.mem_cons.mp hm with h | h
            · exact absurd h.symm hx
            · exact h
          have hlt : x.1 < j.1 := Fin.lt_def.mp (hp.1 j hm')
          by_cases hl : lab x = lab j
          · rw [List.filter_cons_of_pos (by simpa using hl),
                List.filter_cons_of_pos (by simpa using ⟨hl, hlt⟩)]
            simp only [List.length_cons, List.getElem?_cons_succ]
            exact ih hp.2 hm'
          · rw [List.filter_cons_of_neg (by simpa using hl),
                List.filter_cons_of_neg (by simp [hl])]
            exact ih hp.2 hm'
  have hpw : (List.finRange v).Pairwise (· < ·) := List.pairwise_lt_finRange v
  have hk := key (List.finRange v) hpw (List.mem_finRange j)
  have hk' : (group lab (lab j))[posIn lab j]? = some j := hk
  rw [List.getElem?_eq_some_iff] at hk'
  obtain ⟨_, hg⟩ := hk'
  rw [List.get_eq_getElem]; exact hg

/-- **`get_beta` / `get_mse` / `contrast` after `fit(model='ar1')`**: what a voxel receives from the
    scatter of its bin's results is exactly its own column of the AR fit of the whole block with the
    coefficient of its own label — a voxel's estimates depend on its own data and label only.
    (Completes `glm_ar1_group_fit`, which stopped at group membership.) -/
theorem glm_ar1_scatter {n p v : Nat} (steps : Nat) (X : Mat n p) (Y : Mat n v) (lab : Fin v → Int)
    (j : Fin v) (f : Fit n p v)
    (h : fit (.ar [((lab j : Int) : Rat) / (steps : Rat)]) X Y = some f) :
    ∃ m g k, glmVox steps X Y lab j = some ⟨m, g, k⟩ ∧
      (∀ a, g.beta a k = f.beta a j) ∧ mse g k = mse f j ∧
      (∀ c : Vec p, tEffect g c k = tEffect f c j ∧ tVar g c k = tVar f c j) := by
  obtain ⟨g, hg, hb, hm⟩ := glm_ar1_group_fit steps X Y lab (lab j) f h
  have hmem : j ∈ group lab (lab j) := by
    simp [group]
  have hlen : posIn lab j < (group lab (lab j)).length := by
    -- the elements of the group before j are strictly fewer than the group
    unfold posIn group
    have hsub : (List.filter (fun j' => decide (lab j' = lab j ∧ j'.1 < j.1)) (List.finRange v)).length
        < (List.filter (fun j' => decide (lab j' = lab j)) (List.finRange v)).length := by
      have hs : List.Sublist
          (List.filter (fun j' => decide (lab j' = lab j ∧ j'.1 < j.1)) (List.finRange v))
          (List.filter (fun j' => decide (lab j' = lab j)) (List.finRange v)) := by
        have : (fun j' => decide (lab j' = lab j ∧ j'.1 < j.1))
            = fun j' => (decide (j'.1 < j.1) && decide (lab j' = lab j)) := by
          funext j'; simp [Bool.and_comm]
        rw [this, ← List.filter_filter]
        exact List.filter_sublist
      rcases Nat.lt_or_ge
          (List.filter (fun j' => decide (lab j' = lab j ∧ j'.1 < j.1)) (List.finRange v)).length
          (List.filter (fun j' => decide (lab j' = lab j)) (List.finRange v)).length with hlt | hge
      · exact hlt
      · have heq := hs.eq_of_length_le hge
        have hj : j ∈ List.filter (fun j' => decide (lab j' = lab j)) (List.finRange v) := by simp
        rw [← heq] at hj
        simp at hj
    exact hsub
  have hget := group_get_posIn lab j hlen
  refine ⟨_, g, ⟨posIn lab j, hlen⟩, ?_, ?_, ?_, ?_⟩
  · unfold glmVox
    rw [hg]
    simp only [dif_pos hlen]
  · intro a; rw [hb]; simp only; rw [hget]
  · rw [hm]; simp only; rw [hget]
  · intro c
    have hbe : ∀ a, g.beta a ⟨posIn lab j, hlen⟩ = f.beta a j := by
      intro a; rw [hb]; simp only; rw [hget]
    obtain ⟨g', hg', hb', _, hd', hc', _⟩ :=
      voxelwise (.ar [((lab j : Int) : Rat) / (steps : Rat)]) X Y (fun k => (group lab (lab j)).get k) f h
    have hgg : g' = g := by
      have : groupFit steps X Y lab (lab j) = some g' := hg'
      rw [hg] at this; exact (Option.some.inj this).symm
    subst hgg
    constructor
    · simp only [tEffect, hbe]
    · simp only [tVar, hc', hd', hget]

/-! ## sums of squares under rescaling of the data -/

/-- "positive rescaling of the data beyond the obvious factor": scaling the data by `a ≠ 0` scales
    `SSE`, `SST`, `SSR`, `MSE`, `MSR`, `MST` by `a²` and leaves `R2`, `R2_adj` and `F_overall`
    unchanged. -/
theorem stats_scale_invariant {n p v : Nat} (w : Whitener n) (X : Mat n p) (Y : Mat n v) (a : Rat)
    (ha : a ≠ 0) (f : Fit n p v) (h : fit w X Y = some f) (dm : Int) :
    ∃ f', fit w X (fun i k => a * Y i k) = some f' ∧ ∀ j,
      let st' := stats (w.apply (fun i k => a * Y i k)) f' dm
      let st := stats (w.apply Y) f dm
      st'.sse j = a * a * st.sse j ∧ st'.sst j = a * a * st.sst j ∧ st'.ssr j = a * a * st.ssr j ∧
      st'.mse j = a * a * st.mse j ∧ st'.msr j = a * a * st.msr j ∧ st'.mst j = a * a * st.mst j ∧
      st'.r2 j = st.r2 j ∧ st'.r2adj j = st.r2adj j ∧ st'.fOverall j = st.fOverall j := by
  obtain ⟨f', hf', _, hr, _, _, _⟩ := scale_equivariant w X Y a f h
  rw [fit_eq] at h hf'
  have s := (fitW_spec h).choose_spec.2
  have s' := (fitW_spec hf').choose_spec.2
  have hsse : ∀ j, f'.sse j = a * a * f.sse j := by
    intro j
    rw [s'.sse, s.sse, hr]
    simp only [fsum_eq, Finset.mul_sum]
    apply Finset.sum_congr rfl; intro i _; ring
  have hmean : ∀ j, colMean (w.apply (fun i k => a * Y i k)) j = a * colMean (w.apply Y) j := by
    intro j
    rw [apply_smul]
    simp only [colMean, fsum_eq, ← Finset.mul_sum]; ring
  have hsst : ∀ j, sst (w.apply (fun i k => a * Y i k)) j = a * a * sst (w.apply Y) j := by
    intro j
    simp only [sst, hmean]
    rw [apply_smul]
    simp only [fsum_eq, Finset.mul_sum]
    apply Finset.sum_congr rfl; intro i _; ring
  have haa : a * a ≠ 0 := mul_ne_zero ha ha
  refine ⟨f', by rw [fit_eq]; exact hf', fun j => ?_⟩
  simp only [stats, ofArr1_toArr1, hsse, hsst]
  refine ⟨trivial, trivial, by ring, by ring, by ring, by ring, ?_, ?_, ?_⟩
  · rw [mul_div_mul_left _ _ haa]
  · rw [mul_div_mul_left _ _ haa]
  · have : (a * a * sst (w.apply Y) j - a * a * f.sse j) = a * a * (sst (w.apply Y) j - f.sse j) := by ring
    rw [this, mul_div_assoc, mul_div_assoc (a * a) (f.sse j), mul_div_mul_left _ _ haa]

/-! ## `data_scaling` -/

/-- "positive rescaling of the data": the percent-of-baseline scaling of `FMRILinearModel.fit`
    removes any non-zero scale factor of a voxel's series altogether. -/
theorem data_scaling_scale_invariant {n v : Nat} (Y : Mat n v) (a : Rat) (ha : a ≠ 0) (i : Fin n) (j : Fin v)
    (hm : colMean Y j ≠ 0) :
    (dataScaling (fun i j => a * Y i j)).1 i j = (dataScaling Y).1 i j := by
  simp only [dataScaling, ofArr1_toArr1]
  have : colMean (fun i j => a * Y i j) j = a * colMean Y j := by
    simp only [colMean, fsum_eq, ← Finset.mul_sum]; ring
  rw [this]
  congr 2
  field_simp

/-! ## `numpy.linalg.pinv` of a full-rank design -/

/-- the model's `calc_beta = (XᵀX)⁻¹Xᵀ` satisfies the four Penrose equations: it *is* the
    Moore–Penrose pseudo-inverse of the whitened design (what `numpy.linalg.pinv` approximates),
    and a left inverse. -/
theorem pinv_is_moore_penrose {n p v : Nat} (wX : Mat n p) (wY : Mat n v) (f : Fit n p v)
    (h : fitW wX wY = some f) :
    mmul f.pinv wX = idm p ∧ mmul (mmul wX f.pinv) wX = wX ∧ mmul (mmul f.pinv wX) f.pinv = f.pinv ∧
      tr (mmul wX f.pinv) = mmul wX f.pinv ∧ tr (mmul f.pinv wX) = mmul f.pinv wX := by
  obtain ⟨G, _, s⟩ := fitW_spec h
  have hPX : mmul f.pinv wX = idm p := by rw [s.pinv, mmul_assoc]; exact s.inv
  have hG : toM G * ((toM wX)ᵀ * toM wX) = 1 := by
    have := congrArg toM s.inv
    simpa [mmul_toM, tr_toM, idm_toM] using this
  have hGsym : (toM G)ᵀ = toM G := by
    -- G is the inverse of a symmetric matrix
    have hsym : ((toM wX)ᵀ * toM wX)ᵀ = (toM wX)ᵀ * toM wX := by simp [Matrix.transpose_mul]
    have h1 : ((toM wX)ᵀ * toM wX) * toM G = 1 := mul_eq_one_comm.mp hG
    have h2 : (toM G)ᵀ * ((toM wX)ᵀ * toM wX) = 1 := by
      have := congrArg Matrix.transpose h1
      simpa [Matrix.transpose_mul, hsym] using this
    calc (toM G)ᵀ = (toM G)ᵀ * (((toM wX)ᵀ * toM wX) * toM G) := by rw [h1, Matrix.mul_one]
      _ = ((toM G)ᵀ * ((toM wX)ᵀ * toM wX)) * toM G := by simp only [Matrix.mul_assoc]
      _ = toM G := by rw [h2, Matrix.one_mul]
  refine ⟨hPX, ?_, ?_, ?_, ?_⟩
  · rw [mmul_assoc, hPX, mmul_idm]
  · rw [hPX, idm_mmul]
  · apply toM_inj
    rw [tr_toM, s.pinv]
    simp only [mmul_toM, tr_toM, Matrix.transpose_mul, Matrix.transpose_transpose, hGsym, Matrix.mul_assoc]
  · rw [hPX]; funext i j; simp only [tr, idm]; by_cases hij : i = j
    · simp [hij]
    · have : ¬ j = i := fun e => hij e.symm
      simp [hij, this]

/-- … and the pseudo-inverse is unique: any `Q` satisfying the Penrose equations for the whitened
    design equals `calc_beta`.  So the only thing assumed about `numpy.linalg.pinv` is that it
    returns (a rounding of) the Moore–Penrose inverse. -/
theorem pinv_unique {n p v : Nat} (wX : Mat n p) (wY : Mat n v) (f : Fit n p v)
    (h : fitW wX wY = some f) (Q : Mat p n)
    (h1 : mmul (mmul wX Q) wX = wX) (h2 : mmul (mmul Q wX) Q = Q)
    (h3 : tr (mmul wX Q) = mmul wX Q) (_h4 : tr (mmul Q wX) = mmul Q wX) : Q = f.pinv := by
  obtain ⟨hPX, hXPX, _, hXP, _⟩ := pinv_is_moore_penrose wX wY f h
  -- Q X = 1 because P X = 1 and X Q X = X
  have hQX : mmul Q wX = idm p := by
    calc mmul Q wX = mmul (mmul f.pinv wX) (mmul Q wX) := by rw [hPX, idm_mmul]
      _ = mmul f.pinv (mmul (mmul wX Q) wX) := by simp only [mmul_assoc]
      _ = idm p := by rw [h1, hPX]
  apply toM_inj
  have e1 : toM wX * toM Q * toM wX = toM wX := by
    have := congrArg toM h1; simpa [mmul_toM] using this
  have e3 : (toM wX * toM Q)ᵀ = toM wX * toM Q := by
    have := congrArg toM h3; simpa [mmul_toM, tr_toM] using this
  have e3' : (toM wX * toM f.pinv)ᵀ = toM wX * toM f.pinv := by
    have := congrArg toM hXP; simpa [mmul_toM, tr_toM] using this
  have eQX : toM Q * toM wX = 1 := by rw [← mmul_toM, hQX, idm_toM]
  have ePX : toM f.pinv * toM wX = 1 := by rw [← mmul_toM, hPX, idm_toM]
  have eXPX : toM wX * toM f.pinv * toM wX = toM wX := by
    have := congrArg toM hXPX; simpa [mmul_toM] using this
  have e2 : toM Q * toM wX * toM Q = toM Q := by
    have := congrArg toM h2; simpa [mmul_toM] using this
  -- X Q = X P: both are symmetric idempotent with X Q X = X = X P X
  have hXQP : toM wX * toM Q = toM wX * toM f.pinv := by
    calc toM wX * toM Q = (toM wX * toM Q)ᵀ := e3.symm
      _ = ((toM wX * toM f.pinv * toM wX) * toM Q)ᵀ := by rw [eXPX]
      _ = ((toM wX * toM f.pinv) * (toM wX * toM Q))ᵀ := by simp only [Matrix.mul_assoc]
      _ = (toM wX * toM Q)ᵀ * (toM wX * toM f.pinv)ᵀ := by rw [Matrix.transpose_mul]
      _ = (toM wX * toM Q) * (toM wX * toM f.pinv) := by rw [e3, e3']
      _ = (toM wX * toM Q * toM wX) * toM f.pinv := by simp only [Matrix.mul_assoc]
      _ = toM wX * toM f.pinv := by rw [e1]
  calc toM Q = toM Q * toM wX * toM Q := e2.symm
    _ = toM Q * (toM wX * toM Q) := by simp only [Matrix.mul_assoc]
    _ = toM Q * (toM wX * toM f.pinv) := by rw [hXQP]
    _ = (toM Q * toM wX) * toM f.pinv := by simp only [Matrix.mul_assoc]
    _ = toM f.pinv := by rw [eQX, Matrix.one_mul]

/-! ## Non-vacuity -/

example : rankCert exX = some 2 := by decide +kernel
-- a rank-deficient design (second column twice the first): certified rank 1, fit refused
example : rankCert (fun (i : Fin 3) (j : Fin 2) => ((i.1 : Rat) + 1) * ((j.1 : Rat) + 1)) = some 1 := by
  decide +kernel
example : (fitW (fun (i : Fin 3) (j : Fin 2) => ((i.1 : Rat) + 1) * ((j.1 : Rat) + 1)) exY).isNone = true := by
  decide +kernel
-- Yule–Walker on a short series succeeds (order 1 and 2)
example : (yuleWalker (fun t : Fin 5 => (([1, 2, 0, 3, 1] : List Rat).getD t.1 0)) 1 true none).isSome = true := by
  decide +kernel
example : (yuleWalker (fun t : Fin 6 => (([1, 2, 0, 3, 1, 4] : List Rat).getD t.1 0)) 2 false (some 4)).isSome = true := by
  decide +kernel
-- the AR(1) refit hypothesis of `glm_ar1_scatter` is satisfiable
example : (fit (.ar [((3 : Int) : Rat) / ((10 : Nat) : Rat)]) exX exY).isSome = true := by decide +kernel

end NipyVerif.C05
