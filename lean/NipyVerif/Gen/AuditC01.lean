import NipyVerif.Props.C01
import NipyVerif.Props.C01B
import NipyVerif.Props.C01C
import NipyVerif.Props.C01D
#print axioms NipyVerif.C01.compose_apply
#print axioms NipyVerif.C01.composeChain_apply
#print axioms NipyVerif.C01.compose_refuses
#print axioms NipyVerif.C01.inverse_apply_left
#print axioms NipyVerif.C01.inverse_apply_right
#print axioms NipyVerif.C01.product_apply_blocks
#print axioms NipyVerif.C01.reorderedDomain_apply
#print axioms NipyVerif.C01.reorderedDomain_named
#print axioms NipyVerif.C01.reorderedRange_named
#print axioms NipyVerif.C01.reorder_accepts_only_permutations
#print axioms NipyVerif.C01.reverse_is_permutation
#print axioms NipyVerif.C01.renamedDomain_apply
#print axioms NipyVerif.C01.renamedRange_apply
#print axioms NipyVerif.C01.rename_relabels
#print axioms NipyVerif.C01.ccompose_apply
#print axioms NipyVerif.C01.ccompose_refuses
#print axioms NipyVerif.C01.ccompose_inverse
#print axioms NipyVerif.C01.cinverse_exchanges
#print axioms NipyVerif.C01.cproduct_apply_blocks
#print axioms NipyVerif.C01.shifted_domain_origin_apply
#print axioms NipyVerif.C01.shifted_range_origin_apply
#print axioms NipyVerif.C01.bcastInto_exact
#print axioms NipyVerif.C01.append_keeps_rest
#print axioms NipyVerif.C01.drop_refuses
#print axioms NipyVerif.C01.step_sound
#print axioms NipyVerif.C01.prog_sound
#print axioms NipyVerif.C01.prog_sound_apply
#print axioms NipyVerif.C01.product_apply_blocks_nary
#print axioms NipyVerif.C01.drop_keeps_rest
#print axioms NipyVerif.C01.drop_keeps_rest_onesided
#print axioms NipyVerif.C01.append_then_drop_id
#print axioms NipyVerif.C01.equivalent_sound
#print axioms NipyVerif.C01.from_start_step_apply
#print axioms NipyVerif.C01.identity_apply
#print axioms NipyVerif.C01.canCast_preorder
#print axioms NipyVerif.C01.safe_dtype_upper
#print axioms NipyVerif.C01.mkAff_dtype
#print axioms NipyVerif.C01.call_gate
#print axioms NipyVerif.C01.cstep_sound
#print axioms NipyVerif.C01.cprog_sound
#print axioms NipyVerif.C01.mkGeneral_wf
