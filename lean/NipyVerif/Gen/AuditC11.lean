import NipyVerif.Props.C11
#print axioms NipyVerif.C11.sp_certificate_sound
