import NipyVerif.Props.C07
import NipyVerif.Props.C07Grid
import NipyVerif.Props.C07Csv
import NipyVerif.Props.C07Par
import NipyVerif.Props.C07Names
import NipyVerif.Props.C07Source
import NipyVerif.Props.C07Drift
#print axioms NipyVerif.C07.sampleCondition_eq
#print axioms NipyVerif.C07.sample_superposition
#print axioms NipyVerif.C07.sample_sum_of_single_events
#print axioms NipyVerif.C07.sample_amplitude
#print axioms NipyVerif.C07.single_event_block
#print axioms NipyVerif.C07.onset_le_offset
#print axioms NipyVerif.C07.sample_causal
#print axioms NipyVerif.C07.conv_causal
#print axioms NipyVerif.C07.conv_linear
#print axioms NipyVerif.C07.conv_shift
#print axioms NipyVerif.C07.prefix_shift
#print axioms NipyVerif.C07.searchsorted_uniform_shift
#print axioms NipyVerif.C07.projOut_orthogonal
#print axioms NipyVerif.C07.orthogonalize_pairwise
#print axioms NipyVerif.C07.names_match_kernels
#print axioms NipyVerif.C07.dmtx_column_count
#print axioms NipyVerif.C07.dmtx_constant_last
#print axioms NipyVerif.C07.tr_of_uniform_run
#print axioms NipyVerif.C07.hr_grid_step
#print axioms NipyVerif.C07.hr_grid_length
#print axioms NipyVerif.C07.hr_grid_contains_frametimes
#print axioms NipyVerif.C07.n_pre_whole
#print axioms NipyVerif.C07.hr_grid_covers_min_onset
#print axioms NipyVerif.C07.resample_at_node
#print axioms NipyVerif.C07.compute_regressor_rows
#print axioms NipyVerif.C07.regressor_shift_whole_scans
#print axioms NipyVerif.C07.compute_regressor_shift
#print axioms NipyVerif.C07.regressor_rows_causal
#print axioms NipyVerif.C07.zero_duration_offset
#print axioms NipyVerif.C07.fir_event_row
#print axioms NipyVerif.C07.fir_rows_from_frametimes
#print axioms NipyVerif.C07.fir_event_unique_row
#print axioms NipyVerif.C07.csv_parse_format
#print axioms NipyVerif.C07.csv_names_roundtrip
#print axioms NipyVerif.C07.csv_names_roundtrip_no_doublequote
#print axioms NipyVerif.C07.csv_space_rows_roundtrip
#print axioms NipyVerif.C07.load_write_conditions
#print axioms NipyVerif.C07.read_session_ignores_other_sessions
#print axioms NipyVerif.C07.unique_names_sorted
#print axioms NipyVerif.C07.unique_names_nodup
#print axioms NipyVerif.C07.mem_unique_names
#print axioms NipyVerif.C07.fir_names_injective
#print axioms NipyVerif.C07.derivative_ne_dispersion
#print axioms NipyVerif.C07.regressor_names_nodup
#print axioms NipyVerif.C07.drift_names_nodup
#print axioms NipyVerif.C07.default_reg_names_nodup
#print axioms NipyVerif.C07.default_reg_names_disjoint_drift
#print axioms NipyVerif.C07.cond_columns_nodup_iff
#print axioms NipyVerif.C07.dmtx_names_nodup_iff
#print axioms NipyVerif.C07.dmtx_names_nodup_default
#print axioms NipyVerif.C07.names_unique_flag
#print axioms NipyVerif.C07.make_dmtx_columns_unique_iff
#print axioms NipyVerif.C07.regressor_names_from_source
#print axioms NipyVerif.C07.suffix_table_complete
#print axioms NipyVerif.C07.name_formats_as_modelled
#print axioms NipyVerif.C07.grid_source_as_modelled
#print axioms NipyVerif.C07.drift_source_as_modelled
#print axioms NipyVerif.C07.cosine_source_as_modelled
#print axioms NipyVerif.C07.cosine_drift_orthogonal_to_constant
#print axioms NipyVerif.C07.cosine_drift_orthonormal
#print axioms NipyVerif.C07.cosine_drift_gram
#print axioms NipyVerif.C07.cosine_order_le
