import NipyVerif.Props.C07
#print axioms NipyVerif.C07.sampleCondition_eq
#print axioms NipyVerif.C07.sample_superposition
#print axioms NipyVerif.C07.sample_sum_of_single_events
#print axioms NipyVerif.C07.sample_amplitude
#print axioms NipyVerif.C07.single_event_block
#print axioms NipyVerif.C07.onset_le_offset
#print axioms NipyVerif.C07.sample_causal
#print axioms NipyVerif.C07.conv_causal
#print axioms NipyVerif.C07.conv_linear
#print axioms NipyVerif.C07.conv_shift
#print axioms NipyVerif.C07.prefix_shift
#print axioms NipyVerif.C07.searchsorted_uniform_shift
#print axioms NipyVerif.C07.projOut_orthogonal
#print axioms NipyVerif.C07.orthogonalize_pairwise
#print axioms NipyVerif.C07.names_match_kernels
#print axioms NipyVerif.C07.dmtx_column_count
#print axioms NipyVerif.C07.dmtx_constant_last
