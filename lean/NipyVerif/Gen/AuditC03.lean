import NipyVerif.Props.C03
#print axioms NipyVerif.C03.refuses_space_coupled
#print axioms NipyVerif.C03.refuses_nonspace_coupled
#print axioms NipyVerif.C03.accept_implies_decoupled
#print axioms NipyVerif.C03.refuses_without_xyz_names
#print axioms NipyVerif.C03.refuses_unrecognised_world
#print axioms NipyVerif.C03.refuses_too_many_dims
#print axioms NipyVerif.C03.refuses_seven_dims_without_time
#print axioms NipyVerif.C03.refuses_contradictory_time
#print axioms NipyVerif.C03.refuses_toffset_without_output
#print axioms NipyVerif.C03.roundtrip_no_time
#print axioms NipyVerif.C03.roundtrip_time
#print axioms NipyVerif.C03.roundtrip_3d
#print axioms NipyVerif.C03.loaded_affine_keeps_xyz
#print axioms NipyVerif.C03.findTL_name_mem
#print axioms NipyVerif.C03.find_time_like_canonical_name
