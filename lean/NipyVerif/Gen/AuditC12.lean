import NipyVerif.Props.C12
#print axioms NipyVerif.C12.foldMax_isGreatest
