import NipyVerif.Props.C05
