import NipyVerif.Props.C16
#print axioms NipyVerif.C16.blas_rowmajor_gemm
