import NipyVerif.Props.C20
#print axioms NipyVerif.C20.ravel_lt_prod
#print axioms NipyVerif.C20.ravel_injective
#print axioms NipyVerif.C20.viewOffset_bounds
#print axioms NipyVerif.C20.viewOffset_cstrides
#print axioms NipyVerif.C20.corner_in_bounds
#print axioms NipyVerif.C20.guardedNeighbour_in_bounds
