import NipyVerif.Props.C20
#print axioms NipyVerif.C20.ravel_lt_prod
#print axioms NipyVerif.C20.ravel_injective
#print axioms NipyVerif.C20.viewOffset_bounds
#print axioms NipyVerif.C20.viewOffset_cstrides
#print axioms NipyVerif.C20.corner_in_bounds
#print axioms NipyVerif.C20.guardedNeighbour_in_bounds
#print axioms NipyVerif.C20.joint_histogram_neighbours_in_bounds
#print axioms NipyVerif.C20.joint_histogram_writes_in_bounds
#print axioms NipyVerif.C20.mrf_neighbour_in_bounds
#print axioms NipyVerif.C20.cubic_spline_mirror_in_bounds
