import NipyVerif.Props.C09
#print axioms NipyVerif.C09.floorC_eq_floor
#print axioms NipyVerif.C09.weights_trilinear
#print axioms NipyVerif.C09.weights_sum_one
