/- Helper lemmas for the C19 extension theorems (Props/C19B, Props/C19C). -/
import NipyVerif.Lemmas.C19B

namespace NipyVerif.C19
open Src

theorem map_getD_of_lt {α β : Type} (f : α → β) (l : List α) (v : Nat) (hv : v < l.length) (d : β) (d' : α) :
    (l.map f).getD v d = f (l.getD v d') := by
  simp [List.getD_eq_getElem?_getD, List.getElem?_map, List.getElem?_eq_getElem hv]

theorem boolsToRat_getD_ne (b : List Bool) (v : Nat) : ((boolsToRat b).getD v 0 ≠ 0) ↔ b.getD v false = true := by
  unfold boolsToRat
  rw [List.getD_eq_getElem?_getD, List.getD_eq_getElem?_getD, List.getElem?_map]
  cases b[v]? with
  | none => simp
  | some x => cases x <;> simp

/-- the vector `label_count` after `label_count[0] = 0` -/
def ccCounts (labels : List Nat) (nb : Nat) : List Rat :=
  (bincount labels (nb + 1)).zipIdx.map (fun ci => if ci.2 = 0 then (0 : Rat) else (ci.1 : Rat))

theorem ccCounts_length (labels : List Nat) (nb : Nat) : (ccCounts labels nb).length = nb + 1 := by
  simp [ccCounts, bincount]

theorem ccCounts_getD (labels : List Nat) (nb k : Nat) (hk : k ≤ nb) :
    (ccCounts labels nb).getD k 0 = if k = 0 then 0 else (labels.count k : Rat) := by
  unfold ccCounts bincount
  rw [List.getD_eq_getElem?_getD, List.getElem?_map, List.getElem?_zipIdx, List.getElem?_map,
    List.getElem?_range (by omega)]
  simp

theorem takeDrop_getD (s : List Rat) (p len k : Nat) (hk : k < len) :
    ((s.drop p).take len).getD k 0 = s.getD (p + k) 0 := by
  simp [List.getD_eq_getElem?_getD, List.getElem?_take, hk, List.getElem?_drop]

theorem zipWith_sub_getD (a b : List Rat) (k : Nat) (ha : k < a.length) (hb : k < b.length) :
    (List.zipWith (· - ·) a b).getD k 0 = a.getD k 0 - b.getD k 0 := by
  simp [List.getD_eq_getElem?_getD, List.getElem?_zipWith, List.getElem?_eq_getElem ha,
    List.getElem?_eq_getElem hb]

/-- the window of the threshold search is well inside the sorted values when the search succeeds -/
theorem hist_window (s : List Rat) (lo hi : Nat)
    (hc : ¬ (((s.drop (lo + 1)).take (hi - lo)).length ≠ ((s.drop lo).take (hi - lo)).length
            ∨ (s.drop (lo + 1)).take (hi - lo) = [])) :
    lo < hi ∧ hi + 1 ≤ s.length ∧ ((s.drop (lo + 1)).take (hi - lo)).length = hi - lo ∧
      ((s.drop lo).take (hi - lo)).length = hi - lo := by
  rw [not_or, not_not, ← List.length_eq_zero_iff.not] at hc
  simp only [List.length_take, List.length_drop] at hc ⊢
  omega

theorem zipWith_sub_map_affine (a b : Rat) (x y : List Rat) :
    List.zipWith (· - ·) (x.map (fun z => a * z + b)) (y.map (fun z => a * z + b))
      = (List.zipWith (· - ·) x y).map (fun z => a * z + 0) := by
  induction x generalizing y with
  | nil => simp
  | cons x0 xs ih =>
      cases y with
      | nil => simp
      | cons y0 ys =>
          simp only [List.map_cons, List.zipWith_cons_cons, ih ys]
          congr 1; ring

/-- the threshold search commutes with a positive affine intensity map -/
theorem hist_threshold_affine (a b : Rat) (ha : 0 < a) (s : List Rat) (m M : Rat) :
    histThreshold (s.map (fun x => a * x + b)) m M = (histThreshold s m M).map (fun t => a * t + b) := by
  unfold histThreshold
  simp only [List.length_map]
  set lo := (m * ((s.length : Nat) : Rat)).floor.toNat
  set hi := (M * ((s.length : Nat) : Rat)).floor.toNat
  rw [← List.map_drop, ← List.map_drop, ← List.map_take, ← List.map_take]
  simp only [List.length_map, List.map_eq_nil_iff]
  split_ifs with hc
  · rfl
  · obtain ⟨hlh, hlen, hla, hlb⟩ := hist_window s lo hi hc
    rw [zipWith_sub_map_affine, argmax_affine a ha 0]
    set delta := List.zipWith (· - ·) ((s.drop (lo + 1)).take (hi - lo)) ((s.drop lo).take (hi - lo)) with hd
    have hdl : delta.length = hi - lo := by simp [hd, List.length_zipWith, hla, hlb]
    have hne : delta ≠ [] := by
      intro h0; rw [h0] at hdl; simp at hdl; omega
    obtain ⟨hia, _, _⟩ := argmax_spec delta hne
    rw [hdl] at hia
    rw [map_getD_of_lt _ _ _ (by omega) 0 0, map_getD_of_lt _ _ _ (by omega) 0 0]
    simp only [Except.map]
    congr 1; ring

theorem mergeSort_map_affine (a b : Rat) (ha : 0 < a) (l : List Rat) :
    (l.map (fun x => a * x + b)).mergeSort (fun x y => decide (x ≤ y))
      = (l.mergeSort (fun x y => decide (x ≤ y))).map (fun x => a * x + b) := by
  symm
  apply List.map_mergeSort
  intro x _ y _
  congr 1
  apply propext
  constructor
  · intro h; nlinarith
  · intro h; nlinarith

theorem interp_at_integer_slice (times : List Rat) (tr : Rat) (z : Nat) (hz : z < times.length) :
    interpSliceTimes (z : Rat) times tr = times.getD z 0 := by
  unfold interpSliceTimes
  have hfl : ((z : Rat)).floor = (z : Int) := by
    rw [← Rat.floor_intCast (z : Int)]; congr 1
  have hmod : ((z : Int)) % ((times.length : Nat) : Int) = (z : Int) :=
    Int.emod_eq_of_lt (by omega) (by exact_mod_cast hz)
  simp only [hfl, hmod, Int.toNat_natCast, Int.cast_natCast, sub_self, sub_zero, one_mul, zero_mul, add_zero]
  rw [List.getD_eq_getElem?_getD, List.getElem?_append_left hz, ← List.getD_eq_getElem?_getD]

theorem decodeFrom_div (ls : List Nat) (d n : Nat) : decodeFrom ls d n = decodeFrom ls 1 (n / d) := by
  induction ls generalizing d n with
  | nil => rfl
  | cons l ls ih =>
      simp only [decodeFrom, Nat.div_one]
      rw [ih (d * l) n, ih (1 * l) (n / d), Nat.div_div_eq_div_mul, Nat.one_mul]

theorem decode_cons (l : Nat) (ls : List Nat) (n : Nat) :
    decode (l :: ls) n = (n % l) :: decode ls (n / l) := by
  unfold decode
  simp only [decodeFrom, Nat.div_one, Nat.one_mul]
  rw [decodeFrom_div]

/-- the position number of an index combination (first axis fastest) -/
def encode : List Nat → List Nat → Nat
  | l :: ls, x :: xs => x + l * encode ls xs
  | _, _ => 0

theorem decode_digits (lens : List Nat) (hpos : ∀ l ∈ lens, 0 < l) (n : Nat) :
    List.Forall₂ (· < ·) (decode lens n) lens := by
  induction lens generalizing n with
  | nil => simp [decode, decodeFrom]
  | cons l ls ih =>
      rw [decode_cons]
      exact List.Forall₂.cons (Nat.mod_lt _ (hpos l List.mem_cons_self))
        (ih (fun x hx => hpos x (List.mem_cons_of_mem _ hx)) _)

theorem encode_decode (lens : List Nat) (n : Nat) (hn : n < prod lens) : encode lens (decode lens n) = n := by
  induction lens generalizing n with
  | nil => simp [prod] at hn; simp [decode, decodeFrom, encode, hn]
  | cons l ls ih =>
      rw [decode_cons, encode]
      rw [prod_cons] at hn
      have hl : 0 < l := by
        rcases Nat.eq_zero_or_pos l with h | h
        · rw [h] at hn; simp at hn
        · exact h
      rw [ih (n / l) (Nat.div_lt_of_lt_mul hn)]
      exact Nat.mod_add_div n l

theorem decode_encode (lens xs : List Nat) (h : List.Forall₂ (· < ·) xs lens) :
    encode lens xs < prod lens ∧ decode lens (encode lens xs) = xs := by
  induction h with
  | nil => simp [encode, prod, decode, decodeFrom]
  | @cons x l xs ls hx _ ih =>
      rw [encode, prod_cons, decode_cons]
      refine ⟨?_, ?_⟩
      · calc x + l * encode ls xs < l + l * encode ls xs := by omega
          _ = l * (encode ls xs + 1) := by ring
          _ ≤ l * prod ls := Nat.mul_le_mul_left _ ih.1
      · rw [Nat.add_mul_mod_self_left, Nat.mod_eq_of_lt hx, Nat.add_mul_div_left _ _ (by omega),
          Nat.div_eq_of_lt hx, Nat.zero_add, ih.2]

theorem writeData_getD (data : List (List Rat)) (idx : List Nat) (out : List (List Rat))
    (hidx : ∀ i ∈ idx, i < out.length) (j : Nat) :
    (writeData out (dataGenAt data idx)).length = out.length ∧
    (writeData out (dataGenAt data idx)).getD j []
      = if j ∈ idx then data.getD j [] else out.getD j [] := by
  induction idx generalizing out with
  | nil => simp [writeData, dataGenAt]
  | cons i rest ih =>
      have hi : i < out.length := hidx i List.mem_cons_self
      have := ih (out.set i (data.getD i [])) (fun k hk => by
        rw [List.length_set]; exact hidx k (List.mem_cons_of_mem _ hk))
      unfold writeData dataGenAt at this ⊢
      simp only [List.map_cons, List.foldl_cons]
      refine ⟨by rw [this.1, List.length_set], ?_⟩
      rw [this.2]
      by_cases hj : j ∈ rest
      · simp [hj]
      · rw [if_neg hj]
        by_cases hij : j = i
        · subst hij
          simp [List.getD_eq_getElem?_getD, List.getElem?_set, hi]
        · have : ¬ j ∈ i :: rest := by simp [hij, hj]
          rw [if_neg this]
          simp [List.getD_eq_getElem?_getD, List.getElem?_set, Ne.symm hij]

/-- a volume has `S` slices of `V` voxels -/
def Shaped (S V : Nat) (a : Vol) : Prop := a.length = S ∧ ∀ r ∈ a, r.length = V

instance (S V : Nat) (a : Vol) : Decidable (Shaped S V a) := by unfold Shaped; infer_instance

theorem vadd_shaped {S V : Nat} {a b : Vol} (ha : Shaped S V a) (hb : Shaped S V b) : Shaped S V (vadd a b) := by
  refine ⟨by simp [vadd, ha.1, hb.1], ?_⟩
  intro r hr
  unfold vadd at hr
  obtain ⟨i, hi, rfl⟩ := List.getElem_of_mem hr
  simp only [List.length_zipWith] at hi
  simp only [List.getElem_zipWith, List.length_zipWith]
  rw [ha.2 _ (List.getElem_mem _), hb.2 _ (List.getElem_mem _)]; simp

theorem vadd_entry {S V : Nat} {a b : Vol} (ha : Shaped S V a) (hb : Shaped S V b) (s v : Nat)
    (hs : s < S) (hv : v < V) :
    ((vadd a b).getD s []).getD v 0 = (a.getD s []).getD v 0 + (b.getD s []).getD v 0 := by
  have hsa : s < a.length := by rw [ha.1]; exact hs
  have hsb : s < b.length := by rw [hb.1]; exact hs
  have hva : v < (a[s]).length := by rw [ha.2 _ (List.getElem_mem _)]; exact hv
  have hvb : v < (b[s]).length := by rw [hb.2 _ (List.getElem_mem _)]; exact hv
  simp [vadd, List.getD_eq_getElem?_getD, List.getElem?_zipWith, List.getElem?_eq_getElem hsa,
    List.getElem?_eq_getElem hsb, List.getElem?_eq_getElem hva, List.getElem?_eq_getElem hvb]

theorem foldl_vadd_entry {S V : Nat} (ds : List Vol) (acc : Vol) (hacc : Shaped S V acc)
    (hds : ∀ d ∈ ds, Shaped S V d) (s v : Nat) (hs : s < S) (hv : v < V) :
    Shaped S V (ds.foldl vadd acc) ∧
    ((ds.foldl vadd acc).getD s []).getD v 0
      = (acc.getD s []).getD v 0 + (ds.map (fun d => (d.getD s []).getD v 0)).sum := by
  induction ds generalizing acc with
  | nil => simp [hacc]
  | cons d ds ih =>
      have hd := hds d List.mem_cons_self
      have := ih (vadd acc d) (vadd_shaped hacc hd) (fun x hx => hds x (List.mem_cons_of_mem _ hx))
      refine ⟨this.1, ?_⟩
      simp only [List.foldl_cons, List.map_cons, List.sum_cons]
      rw [this.2, vadd_entry hacc hd s v hs hv]; ring

theorem zeroVol_shaped (S V : Nat) : Shaped S V (zeroVol S V) := by
  refine ⟨by simp [zeroVol], ?_⟩
  intro r hr
  simp only [zeroVol, List.mem_replicate] at hr
  rw [hr.2]; simp

theorem zeroVol_entry (S V s v : Nat) : ((zeroVol S V).getD s []).getD v 0 = 0 := by
  unfold zeroVol
  simp only [List.getD_eq_getElem?_getD, List.getElem?_replicate]
  split
  · simp only [Option.getD_some, List.getElem?_replicate]; split <;> rfl
  · rfl

end NipyVerif.C19
