/- C10: the list-of-rows matrices of `Model.Common` as Mathlib matrices (for the contrast theorems). -/
import NipyVerif.Model.Common
import Mathlib.Data.Matrix.Mul
import Mathlib.Algebra.BigOperators.Fin
import Mathlib.Tactic.Ring

namespace NipyVerif.C10
open Finset

/-- entry `(i, j)` of a list-of-rows matrix (0 outside) -/
def E (m : List (List Rat)) (i j : Nat) : Rat := (m.getD i []).getD j 0

/-- an `r × c` list-of-rows matrix -/
structure Rect (m : List (List Rat)) (r c : Nat) : Prop where
  rows : m.length = r
  cols : ∀ row ∈ m, row.length = c

theorem dot_eq_sum (a b : List Rat) (n : Nat) (ha : a.length = n) (hb : b.length = n) :
    dot a b = ∑ k ∈ range n, a.getD k 0 * b.getD k 0 := by
  induction a generalizing b n with
  | nil =>
      simp at ha; subst ha
      simp [dot]
  | cons x a ih =>
      cases b with
      | nil => simp at hb; subst hb; simp at ha
      | cons y b =>
          cases n with
          | zero => simp at ha
          | succ n =>
              have ha' : a.length = n := by simpa using ha
              have hb' : b.length = n := by simpa using hb
              have := ih b n ha' hb'
              simp only [dot, List.zipWith_cons_cons, List.sum_cons] at this ⊢
              rw [this, sum_range_succ']
              simp; ring

theorem Rect.row_length {m : List (List Rat)} {r c : Nat} (h : Rect m r c) {i : Nat} (hi : i < r) :
    (m.getD i []).length = c := by
  have hi' : i < m.length := by rw [h.rows]; exact hi
  rw [List.getD_eq_getElem?_getD, List.getElem?_eq_getElem hi']
  exact h.cols _ (List.getElem_mem hi')

theorem transpose_of_rect {b : List (List Rat)} {m c : Nat} (hB : Rect b m c) (hm : 0 < m) :
    transpose b = (List.range c).map (fun j => b.map (fun row => row.getD j 0)) := by
  cases b with
  | nil => have := hB.rows; simp at this; omega
  | cons r0 rest =>
      have : r0.length = c := hB.cols r0 (by simp)
      simp [transpose, this]

theorem rect_transpose {b : List (List Rat)} {m c : Nat} (hB : Rect b m c) (hm : 0 < m) :
    Rect (transpose b) c m := by
  rw [transpose_of_rect hB hm]
  refine ⟨by simp, ?_⟩
  intro row hrow
  simp only [List.mem_map, List.mem_range] at hrow
  obtain ⟨j, _, rfl⟩ := hrow
  simp [hB.rows]

theorem E_transpose {b : List (List Rat)} {m c : Nat} (hB : Rect b m c) (hm : 0 < m) (i j : Nat)
    (hi : i < c) (hj : j < m) : E (transpose b) i j = E b j i := by
  rw [transpose_of_rect hB hm]
  have hj' : j < b.length := by rw [hB.rows]; exact hj
  simp [E, List.getD_eq_getElem?_getD, hi, hj']

theorem rect_matMul {a b : List (List Rat)} {r m c : Nat} (hA : Rect a r m) (hB : Rect b m c)
    (hm : 0 < m) : Rect (matMul a b) r c := by
  refine ⟨by simp [matMul, hA.rows], ?_⟩
  intro row hrow
  simp only [matMul, List.mem_map] at hrow
  obtain ⟨ra, _, rfl⟩ := hrow
  simp [(rect_transpose hB hm).rows]

theorem E_matMul {a b : List (List Rat)} {r m c : Nat} (hA : Rect a r m) (hB : Rect b m c)
    (hm : 0 < m) (i j : Nat) (hi : i < r) (hj : j < c) :
    E (matMul a b) i j = ∑ k ∈ range m, E a i k * E b k j := by
  have hi' : i < a.length := by rw [hA.rows]; exact hi
  have hrow : (a.getD i []).length = m := hA.row_length hi
  unfold E
  simp only [matMul, transpose_of_rect hB hm, List.getD_eq_getElem?_getD, List.getElem?_map,
    List.getElem?_eq_getElem hi', Option.map_some, Option.getD_some, List.getElem?_range hj]
  rw [dot_eq_sum _ _ m (by simpa [List.getD_eq_getElem?_getD, List.getElem?_eq_getElem hi'] using hrow)
    (by simp [hB.rows])]
  apply sum_congr rfl
  intro k hk
  have hk' : k < b.length := by rw [hB.rows]; exact mem_range.mp hk
  simp [List.getD_eq_getElem?_getD, hk']

/-- the Mathlib matrix of a list-of-rows matrix -/
def toM (r c : Nat) (m : List (List Rat)) : Matrix (Fin r) (Fin c) ℚ := fun i j => E m i j

theorem toM_matMul {a b : List (List Rat)} {r m c : Nat} (hA : Rect a r m) (hB : Rect b m c)
    (hm : 0 < m) : toM r c (matMul a b) = toM r m a * toM m c b := by
  funext i j
  simp only [toM, Matrix.mul_apply]
  rw [E_matMul hA hB hm i j i.isLt j.isLt]
  exact (Fin.sum_univ_eq_sum_range (fun k => E a i k * E b k j) m).symm

theorem toM_transpose {b : List (List Rat)} {m c : Nat} (hB : Rect b m c) (hm : 0 < m) :
    toM c m (transpose b) = (toM m c b).transpose := by
  funext i j
  simp only [toM, Matrix.transpose_apply]
  exact E_transpose hB hm i j i.isLt j.isLt

theorem toM_inj {a b : List (List Rat)} {r c : Nat} (hA : Rect a r c) (hB : Rect b r c)
    (h : toM r c a = toM r c b) : a = b := by
  apply List.ext_getElem
  · rw [hA.rows, hB.rows]
  · intro i h1 h2
    have hi : i < r := by rw [← hA.rows]; exact h1
    apply List.ext_getElem
    · rw [hA.cols _ (List.getElem_mem h1), hB.cols _ (List.getElem_mem h2)]
    · intro j h3 h4
      have hj : j < c := by rw [← hA.cols _ (List.getElem_mem h1)]; exact h3
      have := congrFun (congrFun h ⟨i, hi⟩) ⟨j, hj⟩
      simpa [toM, E, List.getD_eq_getElem?_getD, h1, h2, h3, h4] using this

theorem E_identity (n i j : Nat) (hi : i < n) (hj : j < n) :
    E (identity n) i j = if i = j then 1 else 0 := by
  simp [E, identity, List.getD_eq_getElem?_getD, hi, hj]

theorem rect_identity (n : Nat) : Rect (identity n) n n := by
  refine ⟨by simp [identity], ?_⟩
  intro row hrow
  simp only [identity, List.mem_map] at hrow
  obtain ⟨i, _, rfl⟩ := hrow
  simp

theorem toM_identity (n : Nat) : toM n n (identity n) = 1 := by
  funext i j
  simp only [toM, E_identity n i j i.isLt j.isLt, Matrix.one_apply, Fin.ext_iff]

end NipyVerif.C10
