/- Helper lemmas for C17, part S: sorting, medians, deviations, sums over lists. -/
import NipyVerif.Model.C17S
import NipyVerif.Lemmas.C17

namespace NipyVerif.C17

/-! ### insertion sorts: permutation + sortedness, hence uniqueness -/

theorem insertLe_perm (v : Rat) (l : List Rat) : (insertLe v l).Perm (v :: l) := by
  induction l with
  | nil => simp [insertLe]
  | cons h t ih =>
      simp only [insertLe]
      split
      · exact List.Perm.refl _
      · exact (List.Perm.cons h ih).trans (List.Perm.swap v h t)

theorem sortLe_foldl_perm (l acc : List Rat) :
    (l.foldl (fun acc v => insertLe v acc) acc).Perm (acc ++ l) := by
  induction l generalizing acc with
  | nil => simp
  | cons a as ih =>
      simp only [List.foldl_cons]
      refine (ih _).trans ?_
      have : (insertLe a acc ++ as).Perm ((a :: acc) ++ as) := List.Perm.append_right _ (insertLe_perm a acc)
      refine this.trans ?_
      simp only [List.cons_append]
      exact List.perm_middle.symm

theorem sortLe_perm (l : List Rat) : (sortLe l).Perm l := by
  have := sortLe_foldl_perm l []
  simpa [sortLe] using this

theorem insertLe_sorted (v : Rat) (l : List Rat) (h : l.Pairwise (· ≤ ·)) :
    (insertLe v l).Pairwise (· ≤ ·) := by
  induction l with
  | nil => simp [insertLe]
  | cons a t ih =>
      simp only [insertLe]
      split
      · rename_i hlt
        rw [List.pairwise_cons]
        refine ⟨?_, h⟩
        intro b hb
        rcases List.mem_cons.mp hb with rfl | hb
        · exact le_of_lt hlt
        · exact le_trans (le_of_lt hlt) (List.rel_of_pairwise_cons h hb)
      · rename_i hge
        rw [List.pairwise_cons]
        refine ⟨?_, ih h.tail⟩
        intro b hb
        have hb' := (insertLe_perm v t).subset hb
        rcases List.mem_cons.mp hb' with rfl | hb'
        · exact not_lt.mp hge
        · exact List.rel_of_pairwise_cons h hb'

theorem sortLe_sorted (l : List Rat) : (sortLe l).Pairwise (· ≤ ·) := by
  unfold sortLe
  have gen : ∀ acc : List Rat, acc.Pairwise (· ≤ ·) →
      (l.foldl (fun acc v => insertLe v acc) acc).Pairwise (· ≤ ·) := by
    induction l with
    | nil => intro acc h; exact h
    | cons a as ih => intro acc h; exact ih _ (insertLe_sorted a acc h)
  exact gen [] List.Pairwise.nil

/-- a sorted permutation is unique -/
theorem sorted_perm_unique {s t : List Rat} (hs : s.Pairwise (· ≤ ·)) (ht : t.Pairwise (· ≤ ·))
    (hp : s.Perm t) : s = t :=
  List.Perm.eq_of_pairwise (le := (· ≤ ·)) (fun _ _ _ _ h1 h2 => le_antisymm h1 h2) hs ht hp

theorem sortLe_length (l : List Rat) : (sortLe l).length = l.length := (sortLe_perm l).length_eq

theorem sortLe_map_mono (f : Rat → Rat) (hf : ∀ a b, a ≤ b → f a ≤ f b) (l : List Rat) :
    sortLe (l.map f) = (sortLe l).map f := by
  apply sorted_perm_unique (sortLe_sorted _)
  · exact (sortLe_sorted l).map f (fun _ _ h => hf _ _ h)
  · exact (sortLe_perm _).trans ((sortLe_perm l).map f).symm

theorem sortLe_map_anti (f : Rat → Rat) (hf : ∀ a b, a ≤ b → f b ≤ f a) (l : List Rat) :
    sortLe (l.map f) = ((sortLe l).map f).reverse := by
  apply sorted_perm_unique (sortLe_sorted _)
  · rw [List.pairwise_reverse]
    exact (sortLe_sorted l).map f (fun _ _ h => hf _ _ h)
  · exact (sortLe_perm _).trans (((sortLe_perm l).map f).symm.trans (List.reverse_perm _).symm)

/-! ### the median -/

theorem getD_map_lt (f : Rat → Rat) (s : List Rat) (i : Nat) (h : i < s.length) :
    (s.map f).getD i 0 = f (s.getD i 0) := by
  simp [List.getD_eq_getElem?_getD, h]

theorem getD_reverse_lt (s : List Rat) (i : Nat) (h : i < s.length) :
    s.reverse.getD i 0 = s.getD (s.length - 1 - i) 0 := by
  have h2 : s.length - 1 - i < s.length := by omega
  simp [List.getD_eq_getElem?_getD, List.getElem?_reverse h, h2]

theorem median_map_mono (f : Rat → Rat) (hf : ∀ a b, a ≤ b → f a ≤ f b)
    (hlin : ∀ a b, f ((a + b) / 2) = (f a + f b) / 2) (x : List Rat) (hne : x ≠ []) :
    median (x.map f) = f (median x) := by
  unfold median
  simp only [sortLe_map_mono f hf, List.length_map]
  have hn : 0 < (sortLe x).length := by
    rw [sortLe_length]; exact List.length_pos_iff.mpr hne
  split
  · rw [getD_map_lt _ _ _ (by omega)]
  · rw [getD_map_lt _ _ _ (by omega), getD_map_lt _ _ _ (by omega), hlin]

theorem median_shift (x : List Rat) (b : Rat) (hne : x ≠ []) :
    median (x.map (· - b)) = median x - b :=
  median_map_mono (· - b) (fun _ _ h => by linarith) (fun a c => by ring) x hne

theorem median_neg (x : List Rat) : median (x.map (fun v => -v)) = -median x := by
  unfold median
  rw [sortLe_map_anti (fun v => -v) (fun _ _ h => by linarith)]
  simp only [List.length_reverse, List.length_map]
  generalize hs : sortLe x = s
  by_cases hn : s.length = 0
  · have : s = [] := List.length_eq_zero_iff.mp hn
    subst this; simp
  · have hpos : 0 < s.length := Nat.pos_of_ne_zero hn
    have hl : (s.map (fun v : Rat => -v)).length = s.length := List.length_map _
    split
    · rename_i hodd
      rw [getD_reverse_lt _ _ (by rw [hl]; omega), hl, getD_map_lt _ _ _ (by omega)]
      have : s.length - 1 - s.length / 2 = s.length / 2 := by omega
      rw [this]
    · rename_i heven
      rw [getD_reverse_lt _ _ (by rw [hl]; omega), getD_reverse_lt _ _ (by rw [hl]; omega), hl,
        getD_map_lt _ _ _ (by omega), getD_map_lt _ _ _ (by omega)]
      have e1 : s.length - 1 - (s.length / 2 - 1) = s.length / 2 := by omega
      have e2 : s.length - 1 - s.length / 2 = s.length / 2 - 1 := by omega
      rw [e1, e2]; ring

/-! ### absolute values, deviations -/

theorem rabs_nonneg (a : Rat) : 0 ≤ rabs a := by
  unfold rabs; split <;> linarith

theorem sad_neg (x : List Rat) (c : Rat) : sad (x.map (fun v => -v)) (-c) = sad x c := by
  unfold sad
  rw [List.map_map]
  congr 1
  apply List.map_congr_left
  intro a _
  have : -a - -c = -(a - c) := by ring
  simp only [Function.comp, this, rabs_neg]

theorem sad_shift (x : List Rat) (c b : Rat) : sad (x.map (· - b)) (c - b) = sad x c := by
  unfold sad
  rw [List.map_map]
  congr 1
  apply List.map_congr_left
  intro a _
  have : a - b - (c - b) = a - c := by ring
  simp only [Function.comp, this]

theorem absdev_neg (x : List Rat) (c : Rat) :
    (x.map (fun v => -v)).map (fun v => rabs (v - -c)) = x.map (fun v => rabs (v - c)) := by
  rw [List.map_map]
  apply List.map_congr_left
  intro a _
  have : -a - -c = -(a - c) := by ring
  simp only [Function.comp, this, rabs_neg]

theorem absdev_shift (x : List Rat) (c b : Rat) :
    (x.map (· - b)).map (fun v => rabs (v - (c - b))) = x.map (fun v => rabs (v - c)) := by
  rw [List.map_map]
  apply List.map_congr_left
  intro a _
  have : a - b - (c - b) = a - c := by ring
  simp only [Function.comp, this]

theorem sum_nonneg_of_forall (l : List Rat) (h : ∀ a ∈ l, 0 ≤ a) : 0 ≤ l.sum := by
  induction l with
  | nil => simp
  | cons a t ih =>
      simp only [List.sum_cons]
      have := h a List.mem_cons_self
      have := ih (fun b hb => h b (List.mem_cons_of_mem _ hb))
      linarith

theorem sad_nonneg (x : List Rat) (c : Rat) : 0 ≤ sad x c := by
  unfold sad
  apply sum_nonneg_of_forall
  intro a ha
  obtain ⟨v, _, rfl⟩ := List.mem_map.mp ha
  exact rabs_nonneg _

theorem rmax_ge_left (a b : Rat) : a ≤ rmax a b := by
  unfold rmax; split
  · exact le_refl _
  · rename_i h; exact not_lt.mp h

theorem rmax_ge_right (a b : Rat) : b ≤ rmax a b := by
  unfold rmax; split
  · rename_i h; exact le_of_lt h
  · exact le_refl _

/-- the median of a non-empty list lies between two of its elements, hence is non-negative when
    all elements are -/
theorem median_nonneg (x : List Rat) (h : ∀ a ∈ x, 0 ≤ a) : 0 ≤ median x := by
  have hs : ∀ i, 0 ≤ (sortLe x).getD i 0 := by
    intro i
    rw [List.getD_eq_getElem?_getD]
    cases hi : (sortLe x)[i]? with
    | none => simp
    | some v =>
        have : v ∈ sortLe x := List.mem_of_getElem? hi
        simpa using h v ((sortLe_perm x).subset this)
  unfold median
  simp only
  split
  · exact hs _
  · have := hs ((sortLe x).length / 2 - 1)
    have := hs ((sortLe x).length / 2)
    linarith

/-! ### means and sums of squares -/

theorem sum_map_sub_const (x : List Rat) (b : Rat) : (x.map (· - b)).sum = x.sum - x.length * b := by
  induction x with
  | nil => simp
  | cons a t ih => simp only [List.map_cons, List.sum_cons, List.length_cons, ih]; push_cast; ring

theorem mean_shift (x : List Rat) (b : Rat) (hne : x ≠ []) : mean (x.map (· - b)) = mean x - b := by
  unfold mean
  rw [sum_map_sub_const, List.length_map]
  have hn : ((x.length : Nat) : Rat) ≠ 0 := by
    have := List.length_pos_iff.mpr hne
    exact_mod_cast (Nat.pos_iff_ne_zero.mp this)
  field_simp

theorem sum_sq_shift (x : List Rat) (b : Rat) :
    ((x.map (· - b)).map (fun v => v * v)).sum =
      (x.map (fun v => v * v)).sum - 2 * b * x.sum + x.length * (b * b) := by
  induction x with
  | nil => simp
  | cons a t ih => simp only [List.map_cons, List.sum_cons, List.length_cons, ih]; push_cast; ring

theorem ssd_shift (x : List Rat) (b : Rat) (hne : x ≠ []) : ssd (x.map (· - b)) = ssd x := by
  unfold ssd
  rw [mean_shift x b hne, sum_sq_shift, List.length_map]
  have hn : ((x.length : Nat) : Rat) ≠ 0 := by
    have := List.length_pos_iff.mpr hne
    exact_mod_cast (Nat.pos_iff_ne_zero.mp this)
  have hm : x.sum = x.length * mean x := by unfold mean; field_simp
  rw [hm]; ring

/-- `fff_vector_ssd(x, &m, 0)` (`Σ x² - n m²`) is the sum of squared deviations from the mean -/
theorem ssd_eq_sum_sq_dev (x : List Rat) (hne : x ≠ []) :
    ssd x = (x.map (fun v => (v - mean x) * (v - mean x))).sum := by
  have hn : ((x.length : Nat) : Rat) ≠ 0 := by
    have := List.length_pos_iff.mpr hne
    exact_mod_cast (Nat.pos_iff_ne_zero.mp this)
  have hm : x.sum = x.length * mean x := by unfold mean; field_simp
  rw [sum_sq_dev, hm]; unfold ssd; ring

/-! ### sign counts -/

theorem sum_sgn_eq_counts (x : List Rat) (b : Rat) :
    (x.map (fun v => sgn (v - b))).sum =
      ((x.countP (fun v => decide (b < v)) : Nat) : Rat) - ((x.countP (fun v => decide (v < b)) : Nat) : Rat) := by
  induction x with
  | nil => simp
  | cons a t ih =>
      simp only [List.map_cons, List.sum_cons, List.countP_cons, ih]
      unfold sgn
      rcases lt_trichotomy a b with h | h | h
      · have h1 : ¬ b < a := by linarith
        have h2 : ¬ (0 : Rat) < a - b := by linarith
        have h3 : a - b < 0 := by linarith
        simp [h, h1, h2, h3]; ring
      · subst h; simp
      · have h1 : ¬ a < b := by linarith
        have h2 : (0 : Rat) < a - b := by linarith
        simp [h, h1, h2]; ring

/-! ### double sums (two-sample Wilcoxon) -/

theorem sum_map_div_const (l : List Rat) (c : Rat) : (l.map (· / c)).sum = l.sum / c := by
  induction l with
  | nil => simp
  | cons a t ih => simp only [List.map_cons, List.sum_cons, ih]; ring

theorem sum_map_add (l : List Rat) (f g : Rat → Rat) :
    (l.map (fun a => f a + g a)).sum = (l.map f).sum + (l.map g).sum := by
  induction l with
  | nil => simp
  | cons a t ih => simp only [List.map_cons, List.sum_cons, ih]; ring

theorem double_sum_swap (x1 x2 : List Rat) (f : Rat → Rat → Rat) :
    (x1.map (fun a => (x2.map (fun b => f a b)).sum)).sum =
      (x2.map (fun b => (x1.map (fun a => f a b)).sum)).sum := by
  induction x1 with
  | nil => simp
  | cons a t ih =>
      simp only [List.map_cons, List.sum_cons, ih]
      rw [← sum_map_add]

/-! ### uniform blocks: indexing a `flatMap` -/

theorem flatMap_getElem?_uniform {α β} (l : List α) (f : α → List β) (b : Nat)
    (h : ∀ a ∈ l, (f a).length = b) (k j : Nat) (hk : k < l.length) (hj : j < b) :
    (l.flatMap f)[k * b + j]? = (f l[k])[j]? := by
  induction l generalizing k with
  | nil => simp at hk
  | cons a t ih =>
      simp only [List.flatMap_cons]
      have ha : (f a).length = b := h a List.mem_cons_self
      cases k with
      | zero =>
          simp only [Nat.zero_mul, Nat.zero_add, List.getElem_cons_zero]
          rw [List.getElem?_append_left (by omega)]
      | succ k =>
          have : (k + 1) * b + j = (f a).length + (k * b + j) := by rw [ha]; ring
          rw [this, List.getElem?_append_right (by omega), Nat.add_sub_cancel_left]
          simp only [List.getElem_cons_succ]
          exact ih (fun c hc => h c (List.mem_cons_of_mem _ hc)) k (by simpa using hk)

theorem flatMap_length_uniform {α β} (l : List α) (f : α → List β) (b : Nat)
    (h : ∀ a ∈ l, (f a).length = b) : (l.flatMap f).length = l.length * b := by
  induction l with
  | nil => simp
  | cons a t ih =>
      simp only [List.flatMap_cons, List.length_append, List.length_cons,
        h a List.mem_cons_self, ih (fun c hc => h c (List.mem_cons_of_mem _ hc))]
      ring

end NipyVerif.C17
