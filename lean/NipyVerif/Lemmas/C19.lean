/- Helper lemmas for C19 (permutation lists, running sums over lists, argmax, mixed radix). -/
import NipyVerif.Model.C19
import Mathlib.Data.List.Basic
import Mathlib.Data.List.Perm.Basic
import Mathlib.Data.List.Nodup
import Mathlib.Data.List.Range
import Mathlib.Algebra.BigOperators.Group.List.Basic
import Mathlib.Algebra.Order.Field.Rat
import Mathlib.Algebra.Order.Field.Basic
import Mathlib.Tactic.Ring
import Mathlib.Tactic.Linarith
import Mathlib.Tactic.FieldSimp
import Mathlib.Tactic.Positivity
import Mathlib.Data.Matrix.Mul

namespace NipyVerif.C19

/-! ### lists that are permutations of `range n` -/

theorem perm_range_of {l : List Nat} {n : Nat} (hn : l.Nodup) (hlt : ∀ x ∈ l, x < n)
    (hlen : l.length = n) : l.Perm (List.range n) := by
  apply List.Subperm.perm_of_length_le
  · apply List.subperm_of_subset hn
    intro x hx; exact List.mem_range.2 (hlt x hx)
  · simp [hlen]

theorem evens_length (n : Nat) : (evens n).length = (n + 1) / 2 := by simp [evens]
theorem odds_length (n : Nat) : (odds n).length = n / 2 := by simp [odds]

theorem mem_evens {n x : Nat} : x ∈ evens n ↔ x < n ∧ x % 2 = 0 := by
  simp only [evens, List.mem_map, List.mem_range]
  constructor
  · rintro ⟨k, hk, rfl⟩; omega
  · rintro ⟨h1, h2⟩; exact ⟨x / 2, by omega, by omega⟩

theorem mem_odds {n x : Nat} : x ∈ odds n ↔ x < n ∧ x % 2 = 1 := by
  simp only [odds, List.mem_map, List.mem_range]
  constructor
  · rintro ⟨k, hk, rfl⟩; omega
  · rintro ⟨h1, h2⟩; exact ⟨x / 2, by omega, by omega⟩

theorem evens_nodup (n : Nat) : (evens n).Nodup :=
  List.Nodup.map (fun a b (h : 2 * a = 2 * b) => by omega) List.nodup_range

theorem odds_nodup (n : Nat) : (odds n).Nodup :=
  List.Nodup.map (fun a b (h : 2 * a + 1 = 2 * b + 1) => by omega) List.nodup_range

theorem eo_perm (n : Nat) : (evens n ++ odds n).Perm (List.range n) := by
  apply perm_range_of
  · rw [List.nodup_append]
    refine ⟨evens_nodup n, odds_nodup n, ?_⟩
    intro a ha b hb
    have := (mem_evens.1 ha).2; have := (mem_odds.1 hb).2; omega
  · intro x hx
    rcases List.mem_append.1 hx with h | h
    · exact (mem_evens.1 h).1
    · exact (mem_odds.1 h).1
  · simp [evens_length, odds_length]; omega

theorem oe_perm (n : Nat) : (odds n ++ evens n).Perm (List.range n) :=
  List.perm_append_comm.trans (eo_perm n)

theorem invPerm_perm {l : List Nat} {n : Nat} (h : l.Perm (List.range n)) :
    (invPerm l).Perm (List.range n) := by
  have hlen : l.length = n := by simpa using h.length_eq
  have hmem : ∀ x, x ∈ l ↔ x < n := fun x => by rw [h.mem_iff, List.mem_range]
  unfold invPerm
  rw [hlen]
  apply perm_range_of
  · apply List.Nodup.map_on _ List.nodup_range
    intro x hx y _ hxy
    exact (List.idxOf_inj ((hmem x).2 (List.mem_range.1 hx))).1 hxy
  · intro x hx
    obtain ⟨v, hv, rfl⟩ := List.mem_map.1 hx
    rw [← hlen]
    exact List.idxOf_lt_length_of_mem ((hmem v).2 (List.mem_range.1 hv))
  · simp

/-- the slice sitting at position `k` of `l` gets slot `k` -/
theorem invPerm_getD_getElem {l : List Nat} (hn : l.Nodup) (k : Nat) (hk : k < l.length)
    (hlt : l[k] < l.length) : (invPerm l).getD l[k] 0 = k := by
  unfold invPerm
  rw [List.getD_eq_getElem?_getD, List.getElem?_map, List.getElem?_range hlt]
  simp [hn.idxOf_getElem k hk]

theorem getD_reverse {l : List Nat} {i : Nat} (hi : i < l.length) :
    l.reverse.getD (l.length - 1 - i) 0 = l.getD i 0 := by
  rw [List.getD_eq_getElem?_getD, List.getD_eq_getElem?_getD, List.getElem?_reverse (by omega)]
  congr 2; omega

theorem normAxis_lt {n : Nat} {a : Int} {ax : Nat} (h : normAxis n a = some ax) : ax < n := by
  unfold normAxis at h
  split at h
  · cases h; omega
  · split at h
    · cases h; omega
    · cases h

/-! ### sums -/

theorem sum_map_mul_div (l : List Nat) (f : Nat → Rat) (c s : Rat) :
    (l.map (fun i => f i * c / s)).sum = (l.map f).sum * c / s := by
  induction l with
  | nil => simp
  | cons a l ih => simp only [List.map_cons, List.sum_cons, ih]; ring

theorem map_getD_range (d : List Rat) :
    (List.range d.length).map (fun i => d.getD i 0) = d := by
  apply List.ext_getElem
  · simp
  · intro i h1 h2
    simp [List.getD_eq_getElem?_getD, List.getElem?_eq_getElem h2]

theorem projVox_zero_getD (ux : Mat) (y : List Rat) (i : Nat) :
    (projVox ux (y, 0)).getD i 0 = 0 := by
  simp only [projVox, List.getD_eq_getElem?_getD, List.getElem?_map]
  cases ux[i]? <;> simp

theorem covEntry_flatten (L : List (List (List Rat))) (i j : Nat) :
    (L.map (fun ps => covEntry ps i j)).sum = covEntry L.flatten i j := by
  induction L with
  | nil => simp [covEntry]
  | cons a L ih =>
      simp only [List.map_cons, List.sum_cons, ih, List.flatten_cons]
      simp [covEntry, List.sum_append]

/-! ### argmax -/

theorem argmaxFrom_scale (a : Rat) (ha : 0 < a) (b : Rat) (xs : List Rat) (i best : Nat) (bv : Rat) :
    argmaxFrom (xs.map (fun x => a * x + b)) i best (a * bv + b) = argmaxFrom xs i best bv := by
  induction xs generalizing i best bv with
  | nil => rfl
  | cons x xs ih =>
      simp only [List.map_cons, argmaxFrom]
      have : (a * bv + b < a * x + b) ↔ (bv < x) := by
        constructor
        · intro h; nlinarith
        · intro h; nlinarith
      by_cases h : bv < x
      · rw [if_pos h, if_pos (this.2 h)]; exact ih _ _ _
      · rw [if_neg h, if_neg (fun h' => h (this.1 h'))]; exact ih _ _ _

theorem argmax_affine (a : Rat) (ha : 0 < a) (b : Rat) (l : List Rat) :
    argmax (l.map (fun x => a * x + b)) = argmax l := by
  cases l with
  | nil => rfl
  | cons x xs => simp only [List.map_cons, argmax]; exact argmaxFrom_scale a ha b xs 1 0 x

/-! ### running voxelwise sums -/

theorem zipWith_add_getD (a m : List Rat) (n v : Nat) (hv : v < n) (ha : a.length = n)
    (hm : m.length = n) :
    (List.zipWith (· + ·) a m).getD v 0 = a.getD v 0 + m.getD v 0 := by
  simp only [List.getD_eq_getElem?_getD, List.getElem?_zipWith]
  rw [List.getElem?_eq_getElem (by omega : v < a.length), List.getElem?_eq_getElem (by omega : v < m.length)]
  simp

theorem foldl_zipWith_add_getD (ms : List (List Rat)) (acc : List Rat) (n v : Nat) (hv : v < n)
    (hacc : acc.length = n) (hms : ∀ m ∈ ms, m.length = n) :
    (ms.foldl (fun a k => List.zipWith (· + ·) a k) acc).getD v 0
      = acc.getD v 0 + (ms.map (fun m => m.getD v 0)).sum := by
  induction ms generalizing acc with
  | nil => simp
  | cons m ms ih =>
      have hm : m.length = n := hms m (List.mem_cons_self)
      simp only [List.foldl_cons, List.map_cons, List.sum_cons]
      rw [ih _ (by simp [hacc, hm]) (fun k hk => hms k (List.mem_cons_of_mem _ hk)),
        zipWith_add_getD acc m n v hv hacc hm]
      ring

theorem sum_getD_eq_count (ms : List (List Rat)) (v : Nat)
    (h01 : ∀ m ∈ ms, m.getD v 0 = 0 ∨ m.getD v 0 = 1) :
    (ms.map (fun m => m.getD v 0)).sum = ((ms.filter (fun m => m.getD v 0 = 1)).length : Rat) := by
  induction ms with
  | nil => simp
  | cons m ms ih =>
      have ih' := ih (fun k hk => h01 k (List.mem_cons_of_mem _ hk))
      rcases h01 m List.mem_cons_self with h | h
      · rw [List.map_cons, List.sum_cons, List.filter_cons, ih', h]; norm_num
      · rw [List.map_cons, List.sum_cons, List.filter_cons, ih', h]; norm_num; ring

theorem evens_getElem? (n j : Nat) (h : j < (n + 1) / 2) : (evens n)[j]? = some (2 * j) := by
  simp [evens, List.getElem?_range h]

theorem odds_getElem? (n j : Nat) (h : j < n / 2) : (odds n)[j]? = some (2 * j + 1) := by
  simp [odds, List.getElem?_range h]

theorem eo_getElem (n k : Nat) (hk : k < (evens n ++ odds n).length) :
    (evens n ++ odds n)[k] = if k < (n + 1) / 2 then 2 * k else 2 * (k - (n + 1) / 2) + 1 := by
  rw [List.getElem_append]
  simp only [evens_length]
  split <;> simp [evens, odds]

theorem oe_getElem (n k : Nat) (hk : k < (odds n ++ evens n).length) :
    (odds n ++ evens n)[k] = if k < n / 2 then 2 * k + 1 else 2 * (k - n / 2) := by
  rw [List.getElem_append]
  simp only [odds_length]
  split <;> simp [evens, odds]

theorem slot_eo (n k : Nat) (hk : k < n) :
    (invPerm (evens n ++ odds n)).getD
      (if k < (n + 1) / 2 then 2 * k else 2 * (k - (n + 1) / 2) + 1) 0 = k := by
  have hlen : (evens n ++ odds n).length = n := by simpa using (eo_perm n).length_eq
  have hk' : k < (evens n ++ odds n).length := by omega
  rw [← eo_getElem n k hk']
  apply invPerm_getD_getElem ((eo_perm n).nodup_iff.2 List.nodup_range) k hk'
  rw [hlen]
  exact List.mem_range.1 ((eo_perm n).mem_iff.1 (List.getElem_mem hk'))

theorem slot_oe (n k : Nat) (hk : k < n) :
    (invPerm (odds n ++ evens n)).getD
      (if k < n / 2 then 2 * k + 1 else 2 * (k - n / 2)) 0 = k := by
  have hlen : (odds n ++ evens n).length = n := by simpa using (oe_perm n).length_eq
  have hk' : k < (odds n ++ evens n).length := by omega
  rw [← oe_getElem n k hk']
  apply invPerm_getD_getElem ((oe_perm n).nodup_iff.2 List.nodup_range) k hk'
  rw [hlen]
  exact List.mem_range.1 ((oe_perm n).mem_iff.1 (List.getElem_mem hk'))


theorem orderDesc_perm (d : List Rat) : (orderDesc d).Perm (List.range d.length) :=
  List.mergeSort_perm _ _




theorem nodup_eraseDups_aux : ∀ (n : Nat) (l : List Rat), l.length ≤ n → l.eraseDups.Nodup
  | _, [], _ => by simp
  | 0, _ :: _, h => by simp at h
  | n + 1, a :: as, h => by
      rw [List.eraseDups_cons, List.nodup_cons]
      constructor
      · intro hmem
        have := (List.mem_filter.1 (List.mem_eraseDups.1 hmem)).2
        simp at this
      · apply nodup_eraseDups_aux n
        have := List.length_filter_le (fun b => !b == a) as
        simp only [List.length_cons] at h
        omega

theorem unique_nodup (l : List Rat) : (unique l).Nodup := nodup_eraseDups_aux _ _ (le_refl _)

theorem mem_unique (l : List Rat) (x : Rat) : x ∈ unique l ↔ x ∈ l := by
  unfold unique
  rw [List.mem_eraseDups, List.mem_mergeSort]

theorem count_decide_eq (u : List Rat) (d : Rat) :
    (u.map (fun x => decide (d = x))).count true = u.count d := by
  induction u with
  | nil => rfl
  | cons a u ih =>
      rw [List.map_cons, List.count_cons, List.count_cons, ih]
      by_cases h : d = a
      · simp [h]
      · have h' : ¬ a = d := fun e => h e.symm
        simp [h, h']


end NipyVerif.C19
