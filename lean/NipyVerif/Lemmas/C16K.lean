/-
C16 — helper lemmas for `Props/C16K.lean` (the model is what the C text says now).
-/
import NipyVerif.Model.C16K
import NipyVerif.Lemmas.C16S
import Mathlib.Tactic.Ring

namespace NipyVerif.C16

open Kern

theorem truncC_of_nonneg (q : Rat) (h : 0 ≤ q) : truncC q = ⌊q⌋ := by
  show truncInt q = ⌊q⌋
  exact truncInt_of_nonneg q h

theorem foldl_add_eq (x : List Rat) (a : Rat) : x.foldl (fun (s : Rat) (v : Rat) => s + v) a = a + x.sum := by
  induction x generalizing a with
  | nil => simp
  | cons h t ih => simp only [List.foldl_cons, List.sum_cons, ih]; ring

theorem ssd_foldl (x : List Rat) (a b : Rat) :
    x.foldl (fun (st : Rat × Rat) (v : Rat) => (Fff.ssd_step_sum st.1 v, Fff.ssd_step_ssd st.2 v)) (a, b) =
      (a + x.sum, b + (x.map (fun v => v * v)).sum) := by
  induction x generalizing a b with
  | nil => simp
  | cons h t ih =>
      rw [List.foldl_cons, ih]
      simp only [List.sum_cons, List.map_cons, Fff.ssd_step_sum, Fff.ssd_step_ssd, Fff.FFF_SQR]
      congr 1 <;> ring

theorem sum_sq_dev (x : List Rat) (a : Rat) :
    (x.map (fun v => (v - a) ^ 2)).sum =
      (x.map (fun v => v * v)).sum - 2 * a * x.sum + ((x.length : Nat) : Rat) * a ^ 2 := by
  induction x with
  | nil => simp
  | cons h t ih => simp only [List.map_cons, List.sum_cons, List.length_cons, ih]; push_cast; ring

theorem fffAbs_eq_abs (a : Rat) : Fff.FFF_ABS a = |a| := by
  unfold Fff.FFF_ABS
  split_ifs with h
  · exact (abs_of_pos h).symm
  · exact (abs_of_nonpos (not_lt.mp h)).symm

end NipyVerif.C16
