/- Helper lemmas for C11 (paths, heap, relaxation invariants, adjacency sums). -/
import NipyVerif.Model.C11
import Mathlib.Tactic.Ring
import Mathlib.Tactic.Linarith
import Mathlib.Algebra.Order.Field.Rat
import Mathlib.Algebra.BigOperators.Group.List.Basic
import Mathlib.Algebra.BigOperators.Ring.List
import Mathlib.Tactic.FieldSimp

namespace NipyVerif.C11

/-- `Path g s v l`: there is a directed walk from `s` to `v` of total weight `l` -/
inductive Path (g : Graph) : Nat → Nat → Rat → Prop
  | nil (s : Nat) : Path g s s 0
  | snoc {s u v : Nat} {l w : Rat} : Path g s u l → (u, v, w) ∈ g.edges → Path g s v (l + w)

/-- `b` is the length of a walk from some seed to `v` -/
def Ach (g : Graph) (seeds : List Nat) (v : Nat) (b : Rat) : Prop := ∃ s ∈ seeds, Path g s v b

theorem getD_set_some {α} (l : List (Option α)) (i j : Nat) (x : Option α) (b : α)
    (h : (l.set i x).getD j none = some b) : (i = j ∧ x = some b) ∨ l.getD j none = some b := by
  simp only [List.getD_eq_getElem?_getD, List.getElem?_set] at h ⊢
  split at h
  · next hij =>
      split at h
      · left; exact ⟨hij, by simpa using h⟩
      · simp at h
  · right; exact h

/-! ### heap -/

theorem heapMin_mem : ∀ (h : Heap) (m : Rat × Nat), heapMin h = some m → m ∈ h
  | [], m, hm => by simp [heapMin] at hm
  | x :: xs, m, hm => by
      simp only [heapMin] at hm
      cases hx : heapMin xs with
      | none => rw [hx] at hm; simp at hm; simp [hm]
      | some m' =>
          rw [hx] at hm
          simp only at hm
          split at hm
          · cases hm; exact List.mem_cons_of_mem _ (heapMin_mem xs _ hx)
          · cases hm; simp

theorem popMin_spec (h h' : Heap) (m : Rat × Nat) (hp : popMin h = some (m, h')) :
    m ∈ h ∧ ∀ x ∈ h', x ∈ h := by
  unfold popMin at hp
  cases hm : heapMin h with
  | none => rw [hm] at hp; simp at hp
  | some m' =>
      rw [hm] at hp
      simp only [Option.some.injEq, Prod.mk.injEq] at hp
      obtain ⟨rfl, rfl⟩ := hp
      exact ⟨heapMin_mem h _ hm, fun x hx => List.mem_of_mem_erase hx⟩

theorem popActive_spec (active : List Bool) : ∀ (f : Nat) (h h' : Heap) (m : Rat × Nat),
    popActive active f h = some (m, h') → m ∈ h ∧ ∀ x ∈ h', x ∈ h
  | 0, h, h', m, hp => by simp [popActive] at hp
  | f + 1, h, h', m, hp => by
      simp only [popActive] at hp
      cases hq : popMin h with
      | none => rw [hq] at hp; simp at hp
      | some q =>
          obtain ⟨m1, h1⟩ := q
          rw [hq] at hp
          simp only at hp
          obtain ⟨hm1, hsub⟩ := popMin_spec h h1 m1 hq
          split at hp
          · simp only [Option.some.injEq, Prod.mk.injEq] at hp
            obtain ⟨rfl, rfl⟩ := hp
            exact ⟨hm1, hsub⟩
          · obtain ⟨hm, hs⟩ := popActive_spec active f h1 h' m hp
            exact ⟨hsub _ hm, fun x hx => hsub _ (hs x hx)⟩

/-! ### relaxation invariant: every stored distance and every heap key is achieved by a walk -/

def Inv (g : Graph) (seeds : List Nat) (st : St) : Prop :=
  (∀ v b, st.dist.getD v none = some b → Ach g seeds v b) ∧ (∀ p ∈ st.heap, Ach g seeds p.2 p.1)

theorem relax1_inv (g : Graph) (seeds : List Nat) (ref : List (Option Rat)) (vec : Bool) (dwin : Rat)
    (lw : Option Nat) (st : St) (e : Nat × Rat) (hst : Inv g seeds st)
    (he : Ach g seeds e.1 (dwin + e.2)) : Inv g seeds (relax1 ref vec dwin lw st e) := by
  unfold relax1
  simp only
  generalize (if vec = true then ref.getD e.1 none else st.dist.getD e.1 none) = cmp
  by_cases hc : optLt (dwin + e.2) cmp = true
  · rw [if_pos hc]
    refine ⟨fun v b hv => ?_, fun p hp => ?_⟩
    · by_cases hb : optLt (dwin + e.2) (st.dist.getD e.1 none) = true
      · simp only [hb, if_true] at hv
        rcases getD_set_some _ _ _ _ _ hv with ⟨rfl, hb'⟩ | h
        · cases hb'; exact he
        · exact hst.1 v b h
      · simp only [hb] at hv
        exact hst.1 v b hv
    · simp only [List.mem_cons] at hp
      rcases hp with rfl | hp
      · exact he
      · exact hst.2 p hp
  · rw [if_neg hc]; exact hst

theorem foldl_relax_inv (g : Graph) (seeds : List Nat) (ref : List (Option Rat)) (vec : Bool) (dwin : Rat)
    (lw : Option Nat) : ∀ (es : List (Nat × Rat)) (st : St), Inv g seeds st →
    (∀ e ∈ es, Ach g seeds e.1 (dwin + e.2)) → Inv g seeds (es.foldl (relax1 ref vec dwin lw) st)
  | [], st, hst, _ => hst
  | e :: es, st, hst, hes => by
      simp only [List.foldl_cons]
      exact foldl_relax_inv g seeds ref vec dwin lw es _
        (relax1_inv g seeds ref vec dwin lw st e hst (hes e (by simp)))
        (fun e' he' => hes e' (List.mem_cons_of_mem _ he'))

theorem mem_outEdges (g : Graph) (win : Nat) (e : Nat × Rat) (h : e ∈ outEdges g win) :
    (win, e.1, e.2) ∈ g.edges := by
  simp only [outEdges, List.mem_map, List.mem_filter, beq_iff_eq] at h
  obtain ⟨⟨a, b, w⟩, ⟨hm, rfl⟩, rfl⟩ := h
  exact hm

theorem step_inv (g : Graph) (seeds : List Nat) (vec : Bool) (st st' : St) (hst : Inv g seeds st)
    (h : step g vec st = some st') : Inv g seeds st' := by
  unfold step at h
  cases hp : popActive st.active (st.heap.length + 1) st.heap with
  | none => rw [hp] at h; simp at h
  | some q =>
      obtain ⟨m, h'⟩ := q
      rw [hp] at h
      simp only [Option.some.injEq] at h
      obtain ⟨hm, hsub⟩ := popActive_spec _ _ _ _ _ hp
      have hach : Ach g seeds m.2 m.1 := hst.2 m hm
      rw [← h]
      apply foldl_relax_inv
      · exact ⟨hst.1, fun p hp => hst.2 p (hsub p hp)⟩
      · intro e he
        obtain ⟨s, hs, hpath⟩ := hach
        exact ⟨s, hs, Path.snoc hpath (mem_outEdges g m.2 e he)⟩

theorem iter_inv (g : Graph) (seeds : List Nat) (vec : Bool) : ∀ (n : Nat) (st : St),
    Inv g seeds st → Inv g seeds (iter g vec n st)
  | 0, _, hst => hst
  | n + 1, st, hst => by
      simp only [iter]
      cases hs : step g vec st with
      | none => exact hst
      | some st' => exact iter_inv g seeds vec n st' (step_inv g seeds vec st st' hst hs)

theorem setAllFrom_zero (seeds : List Nat) (f : Nat → Option Rat) (hf : ∀ i, f i = some 0) :
    ∀ (ss : List Nat) (i : Nat) (l : List (Option Rat)), (∀ s ∈ ss, s ∈ seeds) →
    (∀ v b, l.getD v none = some b → v ∈ seeds ∧ b = 0) →
    ∀ v b, (setAllFrom f ss i l).getD v none = some b → v ∈ seeds ∧ b = 0
  | [], _, l, _, hl => hl
  | s :: ss, i, l, hss, hl => by
      simp only [setAllFrom]
      apply setAllFrom_zero seeds f hf ss (i + 1) _ (fun x hx => hss x (List.mem_cons_of_mem _ hx))
      intro v b hv
      rcases getD_set_some _ _ _ _ _ hv with ⟨rfl, hb⟩ | h
      · rw [hf] at hb; cases hb; exact ⟨hss _ (by simp), rfl⟩
      · exact hl v b h

theorem init_inv (g : Graph) (seeds : List Nat) : Inv g seeds (initSt g seeds) := by
  refine ⟨fun v b hv => ?_, fun p hp => ?_⟩
  · have := setAllFrom_zero seeds (fun _ => some 0) (fun _ => rfl) seeds 0 (List.replicate g.V none)
      (fun s hs => hs) (fun v b h => by
        simp only [List.getD_eq_getElem?_getD, List.getElem?_replicate] at h
        split at h <;> simp at h) v b hv
    obtain ⟨hs, rfl⟩ := this
    exact ⟨v, hs, Path.nil v⟩
  · simp only [initSt, List.mem_map] at hp
    obtain ⟨s, hs, rfl⟩ := hp
    exact ⟨s, hs, Path.nil s⟩

/-- `Conn g u v`: `u` and `v` are joined by a chain of edges, followed in either direction -/
inductive Conn (g : Graph) : Nat → Nat → Prop
  | refl (u : Nat) : Conn g u u
  | step {u v x : Nat} {w : Rat} : Conn g u v → ((v, x, w) ∈ g.edges ∨ (x, v, w) ∈ g.edges) → Conn g u x

/-! ### adjacency sums -/

theorem adjL_nil (i j : Nat) : adjL [] i j = 0 := by simp [adjL]

theorem adjL_cons (e : Edge) (es : List Edge) (i j : Nat) :
    adjL (e :: es) i j = (if e.1 = i ∧ e.2.1 = j then e.2.2 else 0) + adjL es i j := by
  simp [adjL]

theorem adjL_append (a b : List Edge) (i j : Nat) : adjL (a ++ b) i j = adjL a i j + adjL b i j := by
  simp [adjL]

theorem adjL_flatMap {α} (l : List α) (f : α → List Edge) (i j : Nat) :
    adjL (l.flatMap f) i j = (l.map (fun x => adjL (f x) i j)).sum := by
  induction l with
  | nil => simp [adjL]
  | cons a l ih => simp [List.flatMap_cons, adjL_append, ih]

theorem sum_ite_range (f : Nat → Rat) (i : Nat) : ∀ V : Nat,
    ((List.range V).map (fun k => if k = i then f k else 0)).sum = if i < V then f i else 0
  | 0 => by simp
  | V + 1 => by
      rw [List.range_succ, List.map_append, List.sum_append, sum_ite_range f i V]
      simp only [List.map_cons, List.map_nil, List.sum_cons, List.sum_nil, add_zero]
      by_cases h1 : i < V
      · have : ¬ V = i := by omega
        simp [h1, this]; omega
      · by_cases h2 : V = i
        · subst h2; simp
        · have : ¬ i < V + 1 := by omega
          simp [h1, h2, this]

/-- one row of a matrix-to-graph conversion -/
theorem adjL_row (sel : Nat → Option Edge) (val : Nat → Rat) (i' i j : Nat)
    (hs : ∀ j', sel j' = none ∨ sel j' = some (i', j', val j')) : ∀ l : List Nat,
    adjL (l.filterMap sel) i j =
      (l.map (fun j' => if j' = j then (if i' = i ∧ sel j' ≠ none then val j' else 0) else 0)).sum
  | [] => by simp [adjL]
  | a :: l => by
      rw [List.filterMap_cons]
      rcases hs a with h | h
      · rw [h]; simp only [List.map_cons, List.sum_cons]
        rw [adjL_row sel val i' i j hs l]; simp [h]
      · rw [h]; simp only [List.map_cons, List.sum_cons]
        rw [adjL_cons, adjL_row sel val i' i j hs l]
        simp only [h]
        by_cases h1 : a = j <;> by_cases h2 : i' = i <;> simp [h1, h2]

/-- adjacency of a graph read off a matrix: entry `(i, j)` is `val i j` where an edge is emitted -/
theorem adjL_matrix (V : Nat) (sel : Nat → Nat → Option Edge) (val : Nat → Nat → Rat)
    (hs : ∀ i' j', sel i' j' = none ∨ sel i' j' = some (i', j', val i' j')) (i j : Nat)
    (hi : i < V) (hj : j < V) :
    adjL ((List.range V).flatMap (fun i' => (List.range V).filterMap (sel i'))) i j =
      if sel i j = none then 0 else val i j := by
  rw [adjL_flatMap]
  have : ∀ i', adjL ((List.range V).filterMap (sel i')) i j =
      if i' = i then (if sel i j = none then 0 else val i j) else 0 := by
    intro i'
    rw [adjL_row (sel i') (val i') i' i j (hs i') (List.range V), sum_ite_range _ j V]
    by_cases h : i' = i
    · subst h; simp [hj]
    · simp [h, hj]
  simp only [this]
  rw [sum_ite_range (fun _ => if sel i j = none then 0 else val i j) i V]
  simp [hi]

theorem adjL_zero_of_not_hasEdge (es : List Edge) (i j : Nat) (h : hasEdge es i j = false) :
    adjL es i j = 0 := by
  induction es with
  | nil => simp [adjL]
  | cons e es ih =>
      simp only [hasEdge, List.any_cons, Bool.or_eq_false_iff, Bool.and_eq_false_iff] at h
      rw [adjL_cons, ih (by simpa [hasEdge] using h.2)]
      have : ¬ (e.1 = i ∧ e.2.1 = j) := by
        rintro ⟨h1, h2⟩
        rcases h.1 with h' | h' <;> simp [h1, h2] at h'
      simp [this]

theorem fromDense_adj' (V : Nat) (M : Nat → Nat → Rat) (i j : Nat) (hi : i < V) (hj : j < V) :
    (fromDense V M).adj i j = M i j := by
  unfold Graph.adj fromDense
  simp only
  rw [adjL_matrix V (fun i' j' => if M i' j' = 0 then none else some (i', j', M i' j')) M
    (fun i' j' => by by_cases h : M i' j' = 0 <;> simp [h]) i j hi hj]
  by_cases h : M i j = 0 <;> simp [h]

theorem fromSupport_adj' (V : Nat) (es : List Edge) (M : Nat → Nat → Rat) (i j : Nat)
    (hi : i < V) (hj : j < V) :
    (fromSupport V es M).adj i j = if hasEdge es i j then M i j else 0 := by
  unfold Graph.adj fromSupport
  simp only
  rw [adjL_matrix V (fun i' j' => if hasEdge es i' j' then some (i', j', M i' j') else none) M
    (fun i' j' => by by_cases h : hasEdge es i' j' = true <;> simp [h]) i j hi hj]
  by_cases h : hasEdge es i j = true <;> simp [h]

/-! ### kruskal -/

theorem kruskalLoop_subset : ∀ (es : List Edge) (n : Nat) (lab : List Nat) (acc : List Edge) (x : Edge),
    x ∈ kruskalLoop es n lab acc → x ∈ acc ∨ x ∈ es ∨ (x.2.1, x.1, x.2.2) ∈ es
  | [], _, _, acc, x, h => by simp [kruskalLoop] at h; exact Or.inl h
  | e :: es, n, lab, acc, x, h => by
      simp only [kruskalLoop] at h
      split at h
      · exact Or.inl h
      · split at h
        · rcases kruskalLoop_subset es n lab acc x h with h | h | h
          · exact Or.inl h
          · exact Or.inr (Or.inl (List.mem_cons_of_mem _ h))
          · exact Or.inr (Or.inr (List.mem_cons_of_mem _ h))
        · rcases kruskalLoop_subset es _ _ _ x h with h | h | h
          · simp only [List.mem_append, List.mem_cons, List.not_mem_nil, or_false] at h
            rcases h with h | rfl | rfl
            · exact Or.inl h
            · exact Or.inr (Or.inl (by simp))
            · exact Or.inr (Or.inr (by simp))
          · exact Or.inr (Or.inl (List.mem_cons_of_mem _ h))
          · exact Or.inr (Or.inr (List.mem_cons_of_mem _ h))

end NipyVerif.C11
