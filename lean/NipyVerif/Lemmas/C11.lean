/- Helper lemmas for C11 (paths, heap, relaxation invariants, adjacency sums). -/
import NipyVerif.Model.C11
import Mathlib.Tactic.Ring
import Mathlib.Tactic.Linarith
import Mathlib.Algebra.Order.Field.Rat

namespace NipyVerif.C11

/-- `Path g s v l`: there is a directed walk from `s` to `v` of total weight `l` -/
inductive Path (g : Graph) : Nat → Nat → Rat → Prop
  | nil (s : Nat) : Path g s s 0
  | snoc {s u v : Nat} {l w : Rat} : Path g s u l → (u, v, w) ∈ g.edges → Path g s v (l + w)

end NipyVerif.C11
