/- Helper lemmas for C13 part K. -/
import NipyVerif.Model.C13K
import NipyVerif.Lemmas.C13B
import Mathlib.Data.Nat.Factorial.Basic

namespace NipyVerif.C13

theorem traceMul_inverse (d : Nat) (c b : Nat → Nat → Rat) (h : IsInvTo d c b) : traceMul d c b = d := by
  unfold traceMul
  rw [sumTo_congr (g := fun _ => 1) (fun i hi => by rw [h i hi i hi]; simp), sumTo_const]; ring

theorem insertAt_perm (v i : Nat) (l : List Nat) : (insertAt v i l).Perm (v :: l) := by
  unfold insertAt
  have := @List.perm_middle _ v (l.take i) (l.drop i)
  rw [List.take_append_drop] at this
  exact this

/-- every row of `generate_perm(k)` (exhaustive branch) is a permutation of `0..k-1` -/
theorem genPerm_rows_perm : ∀ (k : Nat), ∀ r ∈ genPerm k, r.Perm (List.range k) := by
  intro k
  induction k with
  | zero => intro r hr; simp [genPerm] at hr; subst hr; simp
  | succ k ih =>
      intro r hr
      simp only [genPerm, List.mem_flatMap, List.mem_map, List.mem_range] at hr
      obtain ⟨i, _, r0, hr0, rfl⟩ := hr
      have h1 := insertAt_perm k i r0
      have h2 : (k :: r0).Perm (k :: List.range k) := List.Perm.cons k (ih r0 hr0)
      have h3 : (k :: List.range k).Perm (List.range (k + 1)) := by
        rw [List.range_succ]
        exact (List.perm_append_singleton k (List.range k)).symm
      exact h1.trans (h2.trans h3)

theorem genPerm_row_length (k : Nat) (r : List Nat) (hr : r ∈ genPerm k) : r.length = k := by
  have := (genPerm_rows_perm k r hr).length_eq
  simpa using this

theorem genPerm_row_lt (k : Nat) (r : List Nat) (hr : r ∈ genPerm k) : ∀ v ∈ r, v < k := by
  intro v hv
  have := (genPerm_rows_perm k r hr).subset hv
  simpa using this

theorem insertAt_getElem? (v i : Nat) (l : List Nat) (hi : i ≤ l.length) : (insertAt v i l)[i]? = some v := by
  unfold insertAt
  rw [List.getElem?_append_right (by simp [Nat.min_eq_left hi])]
  simp [Nat.min_eq_left hi]

theorem insertAt_getElem?_ne (v i j : Nat) (l : List Nat) (hj : j ≤ l.length) (hij : i ≠ j)
    (hi : i ≤ l.length) : ∃ w ∈ l, (insertAt v j l)[i]? = some w := by
  unfold insertAt
  rcases Nat.lt_or_gt_of_ne hij with h | h
  · -- i < j : inside take
    have hlt : i < l.length := by omega
    refine ⟨l[i], List.getElem_mem hlt, ?_⟩
    rw [List.getElem?_append_left (by simp; omega)]
    simp [h, hlt]
  · -- i > j
    have hlen : (l.take j).length = j := by simp [Nat.min_eq_left hj]
    rw [List.getElem?_append_right (by omega), hlen]
    have : i - j = (i - j - 1) + 1 := by omega
    rw [this, List.getElem?_cons_succ, List.getElem?_drop]
    have hlt : j + (i - j - 1) < l.length := by omega
    exact ⟨l[j + (i - j - 1)], List.getElem_mem hlt, by simp [hlt]⟩

theorem insertAt_inj (v i : Nat) (l l' : List Nat) (hl : i ≤ l.length) (hl' : i ≤ l'.length)
    (h : insertAt v i l = insertAt v i l') : l = l' := by
  unfold insertAt at h
  have hlen : (l.take i).length = (l'.take i).length := by simp [Nat.min_eq_left hl, Nat.min_eq_left hl']
  obtain ⟨h1, h2⟩ := List.append_inj h hlen
  have h3 : l.drop i = l'.drop i := by injection h2
  rw [← List.take_append_drop i l, ← List.take_append_drop i l', h1, h3]

end NipyVerif.C13
