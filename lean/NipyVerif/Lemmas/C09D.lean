/-
C09 — helper lemmas for the data-preparation model (`clamp`, `_slicer`) of
`NipyVerif.Model.C09`.
-/
import NipyVerif.Lemmas.C09
import Mathlib.Order.Monotone.Basic

namespace NipyVerif.C09

/-! ### `x.min()` / `x.max()` as folds -/

theorem foldl_min_le_init (l : List Rat) (a : Rat) : l.foldl min a ≤ a := by
  induction l generalizing a with
  | nil => exact le_refl _
  | cons b r ih => exact le_trans (ih (min a b)) (min_le_left a b)

theorem foldl_min_le_mem (l : List Rat) (a : Rat) : ∀ x ∈ l, l.foldl min a ≤ x := by
  induction l generalizing a with
  | nil => intro x hx; cases hx
  | cons b r ih =>
      intro x hx
      rcases List.mem_cons.mp hx with rfl | hx
      · exact le_trans (foldl_min_le_init r (min a x)) (min_le_right a x)
      · exact ih (min a b) x hx

theorem init_le_foldl_max (l : List Rat) (a : Rat) : a ≤ l.foldl max a := by
  induction l generalizing a with
  | nil => exact le_refl _
  | cons b r ih => exact le_trans (le_max_left a b) (ih (max a b))

theorem mem_le_foldl_max (l : List Rat) (a : Rat) : ∀ x ∈ l, x ≤ l.foldl max a := by
  induction l generalizing a with
  | nil => intro x hx; cases hx
  | cons b r ih =>
      intro x hx
      rcases List.mem_cons.mp hx with rfl | hx
      · exact le_trans (le_max_right a x) (init_le_foldl_max r (max a x))
      · exact ih (max a b) x hx

theorem lmin_le (l : List Rat) : ∀ x ∈ l, lmin l ≤ x := foldl_min_le_mem l _
theorem le_lmax (l : List Rat) : ∀ x ∈ l, x ≤ lmax l := mem_le_foldl_max l _

/-! ### `np.round` (half to even) -/

theorem roundHalfEven_near (a : Rat) :
    ((roundHalfEven a : Int) : Rat) - 1 / 2 ≤ a ∧ a ≤ ((roundHalfEven a : Int) : Rat) + 1 / 2 := by
  have h0 : ((a.floor : Int) : Rat) ≤ a := by rw [rat_floor_eq]; exact Int.floor_le a
  have h1 : a < ((a.floor : Int) : Rat) + 1 := by rw [rat_floor_eq]; exact Int.lt_floor_add_one a
  unfold roundHalfEven
  simp only
  split
  · constructor <;> linarith
  · split
    · constructor <;> push_cast <;> linarith
    · have hd : a - ((a.floor : Int) : Rat) = 1 / 2 := by
        rename_i h2 h3
        exact le_antisymm (not_lt.mp h3) (not_lt.mp h2)
      split
      · constructor <;> linarith
      · constructor <;> push_cast <;> linarith

/-- exact half-way cases aside, the result is the unique nearest integer; in all cases it is
    within one half, which makes the rounding monotone -/
theorem roundHalfEven_mono : Monotone roundHalfEven := by
  intro a b hab
  by_contra hc
  have hlt : roundHalfEven b + 1 ≤ roundHalfEven a := by omega
  have hq : ((roundHalfEven b : Int) : Rat) + 1 ≤ ((roundHalfEven a : Int) : Rat) := by exact_mod_cast hlt
  obtain ⟨a1, _⟩ := roundHalfEven_near a
  obtain ⟨_, b2⟩ := roundHalfEven_near b
  -- a ≥ ra − 1/2 ≥ rb + 1/2 ≥ b ≥ a : so a = b, but then the roundings agree
  have hab' : a = b := le_antisymm hab (by linarith)
  subst hab'
  omega

theorem roundHalfEven_int (n : Int) : roundHalfEven (n : Rat) = n := by
  unfold roundHalfEven
  have hf : ((n : Rat)).floor = n := by rw [rat_floor_eq]; exact Int.floor_intCast n
  simp [hf]

theorem rat_floor_mono : Monotone (fun a : Rat => a.floor) := by
  intro a b h
  simp only [rat_floor_eq]
  exact Int.floor_le_floor h

/-! ### scatter of the clamped values back into the mask; ceiling division -/

theorem fill_length : ∀ (ms : List Bool) (ys : List Int), (clamp.fill ms ys).length = ms.length := by
  intro ms
  induction ms with
  | nil => intro ys; rfl
  | cons m r ih =>
      intro ys
      cases m <;> cases ys <;> simp [clamp.fill, ih]

theorem fill_masked : ∀ (ms : List Bool) (ys : List Int) (i : Nat), ms[i]? = some false →
    (clamp.fill ms ys)[i]? = some (-1) := by
  intro ms
  induction ms with
  | nil => intro ys i h; simp at h
  | cons m r ih =>
      intro ys i h
      cases i with
      | zero =>
          simp only [List.getElem?_cons_zero, Option.some.injEq] at h
          subst h
          cases ys <;> simp [clamp.fill]
      | succ i =>
          simp only [List.getElem?_cons_succ] at h
          cases m <;> cases ys <;> simp [clamp.fill, ih _ _ h]

theorem fill_mem : ∀ (ms : List Bool) (ys : List Int), ∀ y ∈ clamp.fill ms ys, y = -1 ∨ y ∈ ys := by
  intro ms
  induction ms with
  | nil => intro ys y h; simp [clamp.fill] at h
  | cons m r ih =>
      intro ys y h
      cases m <;> cases ys with
      | nil =>
          simp only [clamp.fill, List.mem_cons] at h
          rcases h with rfl | h
          · exact Or.inl rfl
          · exact ih _ y h
      | cons z zs =>
          simp only [clamp.fill, List.mem_cons] at h
          rcases h with rfl | h
          · first | exact Or.inl rfl | exact Or.inr (List.mem_cons_self ..)
          · rcases ih _ y h with h' | h'
            · exact Or.inl h'
            · first
              | exact Or.inr h'
              | exact Or.inr (List.mem_cons_of_mem _ h')

theorem ceil_div_lt (t N s : Nat) (hs : 0 < s) : t < (N + s - 1) / s ↔ t * s < N := by
  rw [Nat.lt_iff_add_one_le, Nat.le_div_iff_mul_le hs]
  have : (t + 1) * s = t * s + s := by ring
  rw [this]
  omega

end NipyVerif.C09
