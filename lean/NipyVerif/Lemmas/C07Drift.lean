/-
C07 — cosine drift (`_cosine_drift`, DCT-II): the trigonometric lemmas behind the orthonormality of the
drift columns.  Real analysis over Mathlib's `Real.cos`; numpy's `cos` / `sqrt` are the only parameters
between these statements and the arrays the code returns (compared numerically by the check).
-/
import Mathlib.Analysis.SpecialFunctions.Trigonometric.Basic
import Mathlib.Algebra.BigOperators.Group.Finset.Basic

open Finset Real

namespace NipyVerif.C07


/-- telescoping: `2 sin(θ/2) · Σ_{t<n} cos((t+½)θ) = sin(nθ)` -/
theorem two_sin_half_mul_sum_cos (θ : ℝ) (n : ℕ) :
    2 * sin (θ / 2) * ∑ t ∈ range n, cos (((t : ℝ) + 1 / 2) * θ) = sin (n * θ) := by
  induction n with
  | zero => simp
  | succ n ih =>
    rw [sum_range_succ, mul_add, ih]
    have h : 2 * sin (θ / 2) * cos (((n : ℝ) + 1 / 2) * θ) = sin (((n : ℝ) + 1) * θ) - sin (n * θ) := by
      rw [sin_sub_sin]
      have e1 : (((n : ℝ) + 1) * θ - n * θ) / 2 = θ / 2 := by ring
      have e2 : (((n : ℝ) + 1) * θ + n * θ) / 2 = ((n : ℝ) + 1 / 2) * θ := by ring
      rw [e1, e2]
    push_cast
    linarith

/-- `Σ_{t<n} cos((t+½)·πm/n) = 0` for `0 < m < 2n` -/
theorem sum_cos_half_shift_eq_zero (n m : ℕ) (hm : 0 < m) (hmn : m < 2 * n) :
    ∑ t ∈ range n, cos (((t : ℝ) + 1 / 2) * (π * m / n)) = 0 := by
  have hn : 0 < n := by omega
  have hnR : (0 : ℝ) < n := by exact_mod_cast hn
  have hmR : (0 : ℝ) < m := by exact_mod_cast hm
  have hmnR : (m : ℝ) < 2 * n := by exact_mod_cast hmn
  have key := two_sin_half_mul_sum_cos (π * m / n) n
  have hs : sin ((n : ℝ) * (π * m / n)) = 0 := by
    have : (n : ℝ) * (π * m / n) = m * π := by field_simp
    rw [this]; exact sin_nat_mul_pi m
  rw [hs] at key
  have hpos : 0 < sin (π * m / n / 2) := by
    apply sin_pos_of_pos_of_lt_pi
    · positivity
    · have : π * m / n / 2 = π * (m / (2 * n)) := by field_simp
      rw [this]
      have h1 : (m : ℝ) / (2 * n) < 1 := by rw [div_lt_one (by positivity)]; exact hmnR
      calc π * (m / (2 * n)) < π * 1 := by apply mul_lt_mul_of_pos_left h1 pi_pos
        _ = π := by ring
  have : 2 * sin (π * m / n / 2) ≠ 0 := by positivity
  rcases mul_eq_zero.1 key with h | h
  · exact absurd h this
  · exact h


/-- column `k` of the cosine drift block as `_cosine_drift` evaluates it:
    `nfct * np.cos((np.pi / len_tim) * (n_times + .5) * k)` with `nfct = np.sqrt(2.0 / len_tim)` -/
noncomputable def cosDriftCol (n k t : ℕ) : ℝ :=
  Real.sqrt (2 / n) * cos ((π / n) * ((t : ℝ) + 1 / 2) * k)

theorem cosDriftCol_arg (n k t : ℕ) :
    (π / n) * ((t : ℝ) + 1 / 2) * k = ((t : ℝ) + 1 / 2) * (π * k / n) := by ring


/-- product of two cosine columns before normalisation -/
theorem sum_cos_mul_cos (n k l : ℕ) (hk : 0 < k) (hl : 0 < l) (hkn : k < n) (hln : l < n) :
    ∑ t ∈ range n, cos (((t : ℝ) + 1 / 2) * (π * k / n)) * cos (((t : ℝ) + 1 / 2) * (π * l / n)) =
      if k = l then (n : ℝ) / 2 else 0 := by
  have hn : 0 < n := by omega
  have hnR : (n : ℝ) ≠ 0 := by exact_mod_cast hn.ne'
  -- cos a cos b = (cos (a - b) + cos (a + b)) / 2
  have hprod : ∀ a b : ℝ, cos a * cos b = (cos (a - b) + cos (a + b)) * 2⁻¹ := by
    intro a b; rw [cos_sub, cos_add]; ring
  simp_rw [hprod]
  rw [← Finset.sum_mul, sum_add_distrib]
  -- the sum over k + l vanishes
  have hplus : ∑ t ∈ range n, cos (((t : ℝ) + 1 / 2) * (π * k / n) + ((t : ℝ) + 1 / 2) * (π * l / n)) = 0 := by
    have := sum_cos_half_shift_eq_zero n (k + l) (by omega) (by omega)
    rw [← this]
    apply sum_congr rfl; intro t _
    congr 1; push_cast; ring
  rw [hplus, add_zero]
  by_cases h : k = l
  · subst h
    simp only [sub_self, cos_zero, sum_const, card_range, nsmul_eq_mul, mul_one, if_true]
    ring
  · rw [if_neg h]
    -- cos is even: use |k - l|
    rcases lt_or_gt_of_ne h with hlt | hgt
    · have := sum_cos_half_shift_eq_zero n (l - k) (by omega) (by omega)
      have e : ∑ t ∈ range n, cos (((t : ℝ) + 1 / 2) * (π * k / n) - ((t : ℝ) + 1 / 2) * (π * l / n)) =
          ∑ t ∈ range n, cos (((t : ℝ) + 1 / 2) * (π * ((l - k : ℕ) : ℝ) / n)) := by
        apply sum_congr rfl; intro t _
        rw [← cos_neg]; congr 1
        rw [Nat.cast_sub hlt.le]; ring
      rw [e, this, zero_mul]
    · have := sum_cos_half_shift_eq_zero n (k - l) (by omega) (by omega)
      have e : ∑ t ∈ range n, cos (((t : ℝ) + 1 / 2) * (π * k / n) - ((t : ℝ) + 1 / 2) * (π * l / n)) =
          ∑ t ∈ range n, cos (((t : ℝ) + 1 / 2) * (π * ((k - l : ℕ) : ℝ) / n)) := by
        apply sum_congr rfl; intro t _
        congr 1
        rw [Nat.cast_sub hgt.le]; ring
      rw [e, this, zero_mul]
end NipyVerif.C07
