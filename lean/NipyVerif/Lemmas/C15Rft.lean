/- Helper lemmas for rft.py (C15): coefficient lists as Mathlib polynomials. -/
import NipyVerif.Model.C15Rft
import NipyVerif.Lemmas.C15
import Mathlib.Algebra.Polynomial.Derivative
import Mathlib.RingTheory.Polynomial.Hermite.Basic
import Mathlib.Algebra.BigOperators.Intervals
import Mathlib.Tactic.Ring
import Mathlib.Tactic.Linarith
import Mathlib.Tactic.FieldSimp
import Mathlib.Tactic.LinearCombination
open Polynomial
namespace NipyVerif.C15

/-- the polynomial a coefficient list (lowest degree first) stands for -/
noncomputable def toPoly : Poly → ℚ[X]
  | [] => 0
  | a :: p => C a + X * toPoly p

theorem toPoly_eval (p : Poly) (x : ℚ) : (toPoly p).eval x = peval p x := by
  induction p with
  | nil => simp [toPoly, peval_nil]
  | cons a p ih => simp [toPoly, peval_cons, ih]

theorem toPoly_padd' (p q : Poly) : toPoly (padd' p q) = toPoly p + toPoly q := by
  induction p generalizing q with
  | nil => simp [padd', toPoly]
  | cons a p ih =>
      cases q with
      | nil => simp [padd', toPoly]
      | cons b q => simp only [padd', toPoly, ih, C_add]; ring

theorem toPoly_pscale (c : ℚ) (p : Poly) : toPoly (pscale c p) = C c * toPoly p := by
  induction p with
  | nil => simp [pscale, toPoly]
  | cons a p ih =>
      have : pscale c (a :: p) = (c * a) :: pscale c p := rfl
      rw [this, toPoly, toPoly, ih, C_mul]; ring

theorem toPoly_pmulX (p : Poly) : toPoly (pmulX p) = X * toPoly p := by
  simp [pmulX, toPoly]

theorem toPoly_pmul (p q : Poly) : toPoly (pmul p q) = toPoly p * toPoly q := by
  induction p with
  | nil => simp [pmul, toPoly]
  | cons a p ih => simp only [pmul, toPoly_padd', toPoly_pscale, toPoly_pmulX, toPoly, ih]; ring

theorem toPoly_pderivFrom (n : ℕ) (p : Poly) :
    toPoly (pderivFrom n p) = C (n : ℚ) * toPoly p + X * derivative (toPoly p) := by
  induction p generalizing n with
  | nil => simp [pderivFrom, toPoly]
  | cons a p ih =>
      simp only [pderivFrom, toPoly, ih, derivative_add, derivative_C, derivative_mul, derivative_X, C_mul]
      push_cast
      simp only [C_add, C_1]
      ring

theorem toPoly_pderiv (p : Poly) : toPoly (pderiv p) = derivative (toPoly p) := by
  cases p with
  | nil => simp [pderiv, toPoly]
  | cons a p =>
      simp only [pderiv, toPoly_pderivFrom, toPoly, derivative_add, derivative_C, derivative_mul, derivative_X]
      simp

/-- `He_n` of the model as a Mathlib polynomial -/
noncomputable def H (n : ℕ) : ℚ[X] := toPoly (hermite n)

theorem H_zero : H 0 = 1 := by simp [H, hermite, toPoly]

theorem H_succ (n : ℕ) : H (n + 1) = X * H n - derivative (H n) := by
  simp only [H, hermite, toPoly_padd', toPoly_pmulX, toPoly_pscale, toPoly_pderiv]
  simp; ring

/-- Appell property `He_{n+1}' = (n+1) He_n` -/
theorem H_deriv (n : ℕ) : derivative (H (n + 1)) = C ((n : ℚ) + 1) * H n := by
  induction n with
  | zero => simp [H_succ, H_zero]
  | succ n ih =>
      rw [H_succ (n + 1), derivative_sub, derivative_mul, derivative_X, ih, derivative_mul, derivative_C]
      have e : X * H n - derivative (H n) = H (n + 1) := (H_succ n).symm
      push_cast
      simp only [C_add, C_1, zero_mul, zero_add, one_mul]
      linear_combination (C (n : ℚ) + 1) * e

/-- coefficients of the Hermite expansion of `X^N`: `X^N = Σ_j hinv N j · He_{N-2j}` -/
def hinv : ℕ → ℕ → ℚ
  | 0, 0 => 1
  | 0, _ + 1 => 0
  | N + 1, 0 => hinv N 0
  | N + 1, j + 1 => hinv N (j + 1) + hinv N j * ((N - 2 * j : ℕ) : ℚ)

theorem X_mul_H (m : ℕ) : X * H m = H (m + 1) + C (m : ℚ) * H (m - 1) := by
  cases m with
  | zero => simp [H_succ, H_zero]
  | succ n =>
      have h : H (n + 2) = X * H (n + 1) - C ((n : ℚ) + 1) * H n := by rw [H_succ (n + 1), H_deriv]
      simp only [Nat.add_sub_cancel]
      push_cast
      rw [h]; ring

theorem hinv_zero_of_lt (N j : ℕ) (h : N < 2 * j) : hinv N j = 0 := by
  induction N generalizing j with
  | zero => cases j with
      | zero => omega
      | succ j => rfl
  | succ N ih =>
      cases j with
      | zero => omega
      | succ j =>
          have e : hinv (N + 1) (j + 1) = hinv N (j + 1) + hinv N j * ((N - 2 * j : ℕ) : ℚ) := rfl
          rw [e, ih (j + 1) (by omega)]
          by_cases h2 : N < 2 * j
          · rw [ih j h2]; simp
          · have : N - 2 * j = 0 := by omega
            rw [this]; simp


/-- `ECcone.quasi` for `dfd = inf` accumulates with `padd'` -/
theorem toPoly_foldl_padd' (l : List Poly) (acc : Poly) :
    toPoly (l.foldl padd' acc) = toPoly acc + (l.map toPoly).sum := by
  induction l generalizing acc with
  | nil => simp
  | cons a l ih => simp only [List.foldl_cons, ih, toPoly_padd', List.map_cons, List.sum_cons]; ring

end NipyVerif.C15
