/- Helper lemmas for the table builders (C15): `np.cumprod` as used by `strides_from`. -/
import NipyVerif.Model.C15Tab
import NipyVerif.Lemmas.C15Lips
import Mathlib.Algebra.BigOperators.Group.List.Basic

namespace NipyVerif.C15

theorem cumprod_cons_eq (a : Nat) (l : List Nat) :
    cumprod (a :: l) = (List.range (l.length + 1)).map (fun i => a * (l.take i).prod) := by
  induction l generalizing a with
  | nil => simp [cumprod]
  | cons b l ih =>
      have e : cumprod (a :: b :: l) = a :: (cumprod (b :: l)).map (a * ·) := rfl
      rw [e, ih b]
      conv_rhs => rw [List.length_cons, List.range_succ_eq_map]
      simp only [List.map_cons, List.map_map, List.take_zero, List.prod_nil, Nat.mul_one,
        Function.comp_def, List.take_succ_cons, List.prod_cons, Nat.mul_assoc]

theorem cumprod_concat (l : List Nat) (x : Nat) : cumprod (l ++ [x]) = cumprod l ++ [l.prod * x] := by
  induction l with
  | nil => simp [cumprod]
  | cons a l ih =>
      have e1 : cumprod ((a :: l) ++ [x]) = a :: (cumprod (l ++ [x])).map (a * ·) := rfl
      have e2 : cumprod (a :: l) = a :: (cumprod l).map (a * ·) := rfl
      rw [e1, e2, ih]
      simp [Nat.mul_assoc]

/-- strides of a C-ordered array by recursion on the extents after the first -/
def stridesC (it : Nat) : List Nat → List Nat
  | [] => [it]
  | h :: t => (it * (h :: t).prod) :: stridesC it t

theorem cumprod_reverse (it : Nat) (t : List Nat) : (cumprod (it :: t.reverse)).reverse = stridesC it t := by
  induction t with
  | nil => simp [cumprod, stridesC]
  | cons h t ih =>
      have e : it :: (h :: t).reverse = (it :: t.reverse) ++ [h] := by simp
      rw [e, cumprod_concat, List.reverse_append, ih]
      simp [stridesC, Nat.mul_assoc, Nat.mul_comm h]

theorem stridesC_eq (it : Nat) (t : List Nat) :
    stridesC it t = (List.range (t.length + 1)).map (fun i => it * (t.drop i).prod) := by
  induction t with
  | nil => simp [stridesC]
  | cons h t ih =>
      rw [stridesC, ih, List.length_cons, List.range_succ_eq_map (n := t.length + 1)]
      simp [Function.comp_def]

end NipyVerif.C15
