/- C11 (wave 3) — first part of the refinement `mst` ⊑ abstract Borůvka rounds: `np.argmin` as modelled
   (`argminR`) and the proposal loop `mstLinks`: the link a component ends up with is a lightest edge leaving it. -/
import NipyVerif.Lemmas.C11Bor2

namespace NipyVerif.C11

theorem argminR_fold (l : List Rat) : ∀ (b : Nat) (m : Rat) (i : Nat) (pre : List Rat), pre.length = i + 1 → b ≤ i →
    pre.getD b 0 = m → (∀ k, k ≤ i → m ≤ pre.getD k 0) →
    let r := (l.foldl (fun (acc : Nat × Rat × Nat) y =>
          let i := acc.2.2 + 1
          if y < acc.2.1 then (i, y, i) else (acc.1, acc.2.1, i)) (b, m, i)).1
    r < (pre ++ l).length ∧ (∀ k, k < (pre ++ l).length → (pre ++ l).getD r 0 ≤ (pre ++ l).getD k 0) := by
  induction l with
  | nil =>
      intro b m i pre hlen hb hm hmin
      simp only [List.foldl_nil, List.append_nil]
      refine ⟨by omega, ?_⟩
      intro k hk; rw [hm]; exact hmin k (by omega)
  | cons y l ih =>
      intro b m i pre hlen hb hm hmin
      simp only [List.foldl_cons]
      have happ : pre ++ y :: l = (pre ++ [y]) ++ l := by simp
      have hget : ∀ k, k ≤ i → (pre ++ [y]).getD k 0 = pre.getD k 0 := by
        intro k hk
        rw [List.getD_eq_getElem?_getD, List.getD_eq_getElem?_getD, List.getElem?_append_left (by omega)]
      have hgety : (pre ++ [y]).getD (i + 1) 0 = y := by
        rw [List.getD_eq_getElem?_getD, List.getElem?_append_right (by omega)]
        simp [hlen]
      rw [happ]
      by_cases hy : y < m
      · simp only [hy, if_true]
        apply ih (i + 1) y (i + 1) (pre ++ [y]) (by simp [hlen]) (le_refl _) hgety
        intro k hk
        rcases Nat.lt_or_ge k (i + 1) with h | h
        · rw [hget k (by omega)]; have := hmin k (by omega); linarith
        · have : k = i + 1 := by omega
          rw [this, hgety]
      · simp only [hy, if_false]
        apply ih b m (i + 1) (pre ++ [y]) (by simp [hlen]) (by omega) (by rw [hget b hb]; exact hm)
        intro k hk
        rcases Nat.lt_or_ge k (i + 1) with h | h
        · rw [hget k (by omega)]; exact hmin k (by omega)
        · have : k = i + 1 := by omega
          rw [this, hgety]; exact not_lt.mp hy

/-- `np.argmin` as modelled: an index of a smallest entry -/
theorem argminR_spec (l : List Rat) (hne : l ≠ []) :
    argminR l < l.length ∧ (∀ k, k < l.length → l.getD (argminR l) 0 ≤ l.getD k 0) := by
  cases l with
  | nil => exact absurd rfl hne
  | cons x xs =>
      have := argminR_fold xs 0 x 0 [x] rfl (le_refl _) rfl
        (by intro k hk; have : k = 0 := by omega
            subst this; simp)
      simpa [argminR] using this

theorem getD_set_self_rat {α} (l : List α) (i : Nat) (x d : α) (h : i < l.length) : (l.set i x).getD i d = x := by
  simp [List.getD_eq_getElem?_getD, List.getElem?_set, h]

theorem getD_set_ne_rat {α} (l : List α) (i j : Nat) (x d : α) (h : i ≠ j) : (l.set i x).getD j d = l.getD j d := by
  simp [List.getD_eq_getElem?_getD, List.getElem?_set, h]

/-- state of the proposal loop after the vertices `< m` -/
structure LInv3 (n : Nat) (sq : List (List Rat)) (maxd : Rat) (label : List Nat) (nbcc m : Nat)
    (st : List Rat × List (Option (Nat × Nat))) : Prop where
  len1 : st.1.length = nbcc
  len2 : st.2.length = nbcc
  none_max : ∀ j, j < nbcc → st.2.getD j none = none → st.1.getD j 0 = maxd
  some_ok : ∀ j a b, j < nbcc → st.2.getD j none = some (a, b) →
      a < m ∧ b < n ∧ label.getD a 0 = j ∧ label.getD b 0 ≠ j ∧ st.1.getD j 0 = getM sq a b ∧ st.1.getD j 0 < maxd
  low : ∀ j x y, j < nbcc → x < m → y < n → label.getD x 0 = j → label.getD y 0 ≠ j → st.1.getD j 0 ≤ getM sq x y
  le_max : ∀ j, j < nbcc → st.1.getD j 0 ≤ maxd

/-- one iteration of `for n1 in range(n)` -/
def linkStep (n : Nat) (sq : List (List Rat)) (maxd : Rat) (label : List Nat)
    (st : List Rat × List (Option (Nat × Nat))) (n1 : Nat) : List Rat × List (Option (Nat × Nat)) :=
  let j := label.getD n1 0
  let nd := (List.range n).map (fun c => if label.getD c 0 = j then maxd else getM sq n1 c)
  let n2 := argminR nd
  if nd.getD n2 0 < st.1.getD j 0 then (st.1.set j (nd.getD n2 0), st.2.set j (some (n1, n2))) else st

theorem linkStep_inv (n : Nat) (sq : List (List Rat)) (maxd : Rat) (label : List Nat) (nbcc m : Nat)
    (hn : 0 < n) (hm : m < n) (hlab : ∀ v, v < n → label.getD v 0 < nbcc)
    (st : List Rat × List (Option (Nat × Nat))) (h : LInv3 n sq maxd label nbcc m st) :
    LInv3 n sq maxd label nbcc (m + 1) (linkStep n sq maxd label st m) := by
  set j0 := label.getD m 0 with hj0
  have hj0lt : j0 < nbcc := hlab m hm
  set nd := (List.range n).map (fun c => if label.getD c 0 = j0 then maxd else getM sq m c) with hnd
  have hndlen : nd.length = n := by simp [hnd]
  have hndne : nd ≠ [] := by intro h0; rw [h0] at hndlen; simp at hndlen; omega
  obtain ⟨hn2lt, hn2min⟩ := argminR_spec nd hndne
  rw [hndlen] at hn2lt hn2min
  have hndget : ∀ c, c < n → nd.getD c 0 = if label.getD c 0 = j0 then maxd else getM sq m c := by
    intro c hc
    rw [List.getD_eq_getElem?_getD, hnd, List.getElem?_map, List.getElem?_range hc]
    rfl
  unfold linkStep
  simp only
  rw [← hj0, ← hnd]
  by_cases hlt : nd.getD (argminR nd) 0 < st.1.getD j0 0
  · rw [if_pos hlt]
    have hvlt : nd.getD (argminR nd) 0 < maxd := lt_of_lt_of_le hlt (h.le_max j0 hj0lt)
    have hn2lab : label.getD (argminR nd) 0 ≠ j0 := by
      intro heq
      rw [hndget _ hn2lt, if_pos heq] at hvlt
      exact lt_irrefl _ hvlt
    have hv : nd.getD (argminR nd) 0 = getM sq m (argminR nd) := by
      rw [hndget _ hn2lt, if_neg hn2lab]
    refine ⟨by simp [h.len1], by simp [h.len2], ?_, ?_, ?_, ?_⟩
    · intro j hj hnone
      by_cases hjj : j0 = j
      · subst hjj
        rw [getD_set_self_rat _ _ _ _ (by rw [h.len2]; exact hj)] at hnone
        cases hnone
      · rw [getD_set_ne_rat _ _ _ _ _ hjj] at hnone ⊢
        exact h.none_max j hj hnone
    · intro j a b hj hsome
      by_cases hjj : j0 = j
      · subst hjj
        rw [getD_set_self_rat _ _ _ _ (by rw [h.len2]; exact hj)] at hsome
        rw [getD_set_self_rat _ _ _ _ (by rw [h.len1]; exact hj)]
        simp only [Option.some.injEq, Prod.mk.injEq] at hsome
        obtain ⟨rfl, rfl⟩ := hsome
        exact ⟨by omega, hn2lt, hj0.symm, hn2lab, hv, hvlt⟩
      · rw [getD_set_ne_rat _ _ _ _ _ hjj] at hsome ⊢
        obtain ⟨h1, h2, h3, h4, h5, h6⟩ := h.some_ok j a b hj hsome
        exact ⟨by omega, h2, h3, h4, h5, h6⟩
    · intro j x y hj hx hy hlx hly
      by_cases hjj : j0 = j
      · subst hjj
        rw [getD_set_self_rat _ _ _ _ (by rw [h.len1]; exact hj)]
        rcases Nat.lt_or_ge x m with hxm | hxm
        · exact le_trans (le_of_lt hlt) (h.low j0 x y hj hxm hy hlx hly)
        · have : x = m := by omega
          subst this
          have := hn2min y hy
          rw [hndget y hy, if_neg hly] at this
          exact this
      · rw [getD_set_ne_rat _ _ _ _ _ hjj]
        rcases Nat.lt_or_ge x m with hxm | hxm
        · exact h.low j x y hj hxm hy hlx hly
        · have : x = m := by omega
          subst this
          exact absurd hlx (by rw [← hj0]; exact hjj)
    · intro j hj
      by_cases hjj : j0 = j
      · subst hjj
        rw [getD_set_self_rat _ _ _ _ (by rw [h.len1]; exact hj)]
        exact le_of_lt hvlt
      · rw [getD_set_ne_rat _ _ _ _ _ hjj]
        exact h.le_max j hj
  · rw [if_neg hlt]
    refine ⟨h.len1, h.len2, h.none_max, ?_, ?_, h.le_max⟩
    · intro j a b hj hsome
      obtain ⟨h1, h2, h3, h4, h5, h6⟩ := h.some_ok j a b hj hsome
      exact ⟨by omega, h2, h3, h4, h5, h6⟩
    · intro j x y hj hx hy hlx hly
      rcases Nat.lt_or_ge x m with hxm | hxm
      · exact h.low j x y hj hxm hy hlx hly
      · have : x = m := by omega
        subst this
        have h1 := hn2min y hy
        have hjj : j = j0 := by rw [← hlx]
        subst hjj
        rw [hndget y hy, if_neg hly] at h1
        exact le_trans (not_lt.mp hlt) h1

theorem mstLinks_eq (n : Nat) (sq : List (List Rat)) (maxd : Rat) (label : List Nat) (nbcc : Nat) :
    mstLinks n sq maxd label nbcc =
      ((List.range n).foldl (linkStep n sq maxd label) (List.replicate nbcc maxd, List.replicate nbcc none)).2 := rfl

theorem linkFold_inv (n : Nat) (sq : List (List Rat)) (maxd : Rat) (label : List Nat) (nbcc : Nat)
    (hn : 0 < n) (hlab : ∀ v, v < n → label.getD v 0 < nbcc) : ∀ m, m ≤ n →
    LInv3 n sq maxd label nbcc m
      ((List.range m).foldl (linkStep n sq maxd label) (List.replicate nbcc maxd, List.replicate nbcc none))
  | 0, _ => by
      simp only [List.range_zero, List.foldl_nil]
      refine ⟨by simp, by simp, ?_, ?_, ?_, ?_⟩
      · intro j hj _
        simp [List.getD_eq_getElem?_getD, List.getElem?_replicate, hj]
      · intro j a b hj hsome
        simp [List.getD_eq_getElem?_getD, List.getElem?_replicate, hj] at hsome
      · intro j x y _ hx; omega
      · intro j hj
        simp [List.getD_eq_getElem?_getD, List.getElem?_replicate, hj]
  | m + 1, hm => by
      rw [List.range_succ, List.foldl_append]
      simp only [List.foldl_cons, List.foldl_nil]
      exact linkStep_inv n sq maxd label nbcc m hn (by omega) hlab _ (linkFold_inv n sq maxd label nbcc hn hlab m (by omega))

/-- **`mstLinks` proposes lightest leaving edges**: the link `(a, b)` a component `j` is left with joins a
    vertex of `j` to a vertex outside `j` and no edge from `j` to the outside is shorter; a component left
    without a link has no outside vertex closer than `maxdist` -/
theorem mstLinks_lightest (n : Nat) (sq : List (List Rat)) (maxd : Rat) (label : List Nat) (nbcc : Nat)
    (hn : 0 < n) (hlab : ∀ v, v < n → label.getD v 0 < nbcc) (j : Nat) (hj : j < nbcc) :
    (∀ a b, (mstLinks n sq maxd label nbcc).getD j none = some (a, b) →
        a < n ∧ b < n ∧ label.getD a 0 = j ∧ label.getD b 0 ≠ j ∧ getM sq a b < maxd ∧
        ∀ x y, x < n → y < n → label.getD x 0 = j → label.getD y 0 ≠ j → getM sq a b ≤ getM sq x y) ∧
    ((mstLinks n sq maxd label nbcc).getD j none = none →
        ∀ x y, x < n → y < n → label.getD x 0 = j → label.getD y 0 ≠ j → maxd ≤ getM sq x y) := by
  have h := linkFold_inv n sq maxd label nbcc hn hlab n (le_refl _)
  rw [mstLinks_eq]
  constructor
  · intro a b hsome
    obtain ⟨h1, h2, h3, h4, h5, h6⟩ := h.some_ok j a b hj hsome
    refine ⟨h1, h2, h3, h4, by rw [← h5]; exact h6, ?_⟩
    intro x y hx hy hlx hly
    rw [← h5]
    exact h.low j x y hj hx hy hlx hly
  · intro hnone x y hx hy hlx hly
    rw [← h.none_max j hj hnone]
    exact h.low j x y hj hx hy hlx hly

end NipyVerif.C11
