/- Helper lemmas for C17, part P: counting facts behind the permutation-test p-values. -/
import NipyVerif.Model.C17P
import NipyVerif.Lemmas.C17S

namespace NipyVerif.C17

/-! ### fractions of a list -/

theorem frac_le_one {α} (l : List α) (p : α → Bool) : ((l.filter p).length : Rat) / l.length ≤ 1 := by
  by_cases h : l.length = 0
  · simp [List.length_eq_zero_iff.mp h]
  · have hpos : (0 : Rat) < l.length := by exact_mod_cast Nat.pos_of_ne_zero h
    rw [div_le_one hpos]
    exact_mod_cast List.length_filter_le _ _

theorem frac_pos {α} (l : List α) (p : α → Bool) (a : α) (ha : a ∈ l) (hp : p a = true) :
    0 < ((l.filter p).length : Rat) / l.length := by
  have hpos : (0 : Rat) < l.length := by exact_mod_cast List.length_pos_of_mem ha
  have hnum : 0 < (l.filter p).length := List.length_pos_of_mem (List.mem_filter.mpr ⟨ha, hp⟩)
  exact div_pos (by exact_mod_cast hnum) hpos

/-! ### maxima and minima of rows -/

theorem foldl_max_ge_init (t : List Rat) (a : Rat) :
    a ≤ t.foldl (fun acc v => if acc < v then v else acc) a := by
  induction t generalizing a with
  | nil => exact le_refl _
  | cons b t ih =>
      simp only [List.foldl_cons]
      split
      · rename_i h; exact le_trans (le_of_lt h) (ih b)
      · exact ih a

theorem foldl_max_ge_mem (t : List Rat) (a v : Rat) (hv : v ∈ t) :
    v ≤ t.foldl (fun acc v => if acc < v then v else acc) a := by
  induction t generalizing a with
  | nil => simp at hv
  | cons b t ih =>
      simp only [List.foldl_cons]
      rcases List.mem_cons.mp hv with rfl | hv
      · split
        · exact foldl_max_ge_init t v
        · rename_i h; exact le_trans (not_lt.mp h) (foldl_max_ge_init t a)
      · exact ih _ hv

theorem le_maxList (row : List Rat) (v : Rat) (hv : v ∈ row) : v ≤ maxList row := by
  cases row with
  | nil => simp at hv
  | cons a t =>
      simp only [maxList]
      rcases List.mem_cons.mp hv with rfl | hv
      · exact foldl_max_ge_init t v
      · exact foldl_max_ge_mem t a v hv

theorem foldl_min_le_init (t : List Rat) (a : Rat) :
    t.foldl (fun acc v => if v < acc then v else acc) a ≤ a := by
  induction t generalizing a with
  | nil => exact le_refl _
  | cons b t ih =>
      simp only [List.foldl_cons]
      split
      · rename_i h; exact le_trans (ih b) (le_of_lt h)
      · exact ih a

theorem foldl_min_le_mem (t : List Rat) (a v : Rat) (hv : v ∈ t) :
    t.foldl (fun acc v => if v < acc then v else acc) a ≤ v := by
  induction t generalizing a with
  | nil => simp at hv
  | cons b t ih =>
      simp only [List.foldl_cons]
      rcases List.mem_cons.mp hv with rfl | hv
      · split
        · exact foldl_min_le_init t v
        · rename_i h; exact le_trans (foldl_min_le_init t a) (not_lt.mp h)
      · exact ih _ hv

theorem minList_le (row : List Rat) (v : Rat) (hv : v ∈ row) : minList row ≤ v := by
  cases row with
  | nil => simp at hv
  | cons a t =>
      simp only [minList]
      rcases List.mem_cons.mp hv with rfl | hv
      · exact foldl_min_le_init t v
      · exact foldl_min_le_mem t a v hv

theorem getD_mem_of_lt (row : List Rat) (j : Nat) (h : j < row.length) : row.getD j 0 ∈ row := by
  rw [List.getD_eq_getElem?_getD, List.getElem?_eq_getElem h]
  exact List.getElem_mem h

/-! ### `pvalue` as a function of the sample -/

theorem pvalue_le_one' (draws : List Rat) (t : Rat) : pvalue draws t ≤ 1 := by
  unfold pvalue
  have : (0 : Rat) ≤ (searchsorted draws t : Rat) / draws.length :=
    div_nonneg (Nat.cast_nonneg _) (Nat.cast_nonneg _)
  linarith

theorem pvalue_pos' (draws : List Rat) (t : Rat) (h : ∃ d ∈ draws, t ≤ d) : 0 < pvalue draws t := by
  obtain ⟨d, hd, hle⟩ := h
  unfold pvalue
  have hlt : searchsorted draws t < draws.length := by
    unfold searchsorted
    rw [List.length_filter_lt_length_iff_exists]
    exact ⟨d, hd, by simpa using hle⟩
  have hpos : (0 : Rat) < draws.length := by exact_mod_cast List.length_pos_of_mem hd
  have : (searchsorted draws t : Rat) / draws.length < 1 := by
    rw [div_lt_one hpos]; exact_mod_cast hlt
  linarith

theorem pvalue_nonneg (draws : List Rat) (t : Rat) : 0 ≤ pvalue draws t := by
  unfold pvalue
  have : (searchsorted draws t : Rat) / draws.length ≤ 1 := frac_le_one draws _
  linarith

/-- `pvalue` only counts: the draws below `t` -/
theorem pvalue_eq (draws : List Rat) (t : Rat) :
    pvalue draws t = 1 - ((draws.filter (fun d => decide (d < t))).length : Rat) / draws.length := rfl

/-! ### sorted samples -/

theorem sorted_getD_le (l : List Rat) (hs : l.Pairwise (· ≤ ·)) (i j : Nat) (hij : i ≤ j) (hj : j < l.length) :
    l.getD i 0 ≤ l.getD j 0 := by
  have hi : i < l.length := by omega
  rw [List.getD_eq_getElem?_getD, List.getD_eq_getElem?_getD, List.getElem?_eq_getElem hi,
    List.getElem?_eq_getElem hj]
  simp only [Option.getD_some]
  rcases Nat.lt_or_eq_of_le hij with h | h
  · exact (List.pairwise_iff_getElem.mp hs) i j hi hj h
  · subst h; exact le_refl _

/-- if the first `k` entries satisfy `p`, at least `k` entries do -/
theorem filter_length_ge_of_prefix (l : List Rat) (p : Rat → Bool) (k : Nat) (hk : k ≤ l.length)
    (h : ∀ i, i < k → p (l.getD i 0) = true) : k ≤ (l.filter p).length := by
  have e : l = l.take k ++ l.drop k := (List.take_append_drop k l).symm
  have hall : (l.take k).filter p = l.take k := by
    rw [List.filter_eq_self]
    intro a ha
    obtain ⟨i, hi, rfl⟩ := List.getElem_of_mem ha
    have hik : i < k := by
      have := List.length_take_le k l; rw [List.length_take] at hi; omega
    have := h i hik
    rw [List.getD_eq_getElem?_getD, List.getElem?_eq_getElem (by omega)] at this
    simpa [List.getElem_take] using this
  rw [e, List.filter_append, List.length_append, hall, List.length_take]
  omega

end NipyVerif.C17
