/-
Helper lemmas for C12 part F: steepest ascent has no cycles (pigeonhole on a strict order),
first-index property of `argmax`, the bifurcation sweep assigns labels, diffusion algebra.
-/
import NipyVerif.Model.C12F
import NipyVerif.Props.C12
import NipyVerif.Lemmas.C12B
import Batteries.Data.List.Perm
import Mathlib.Data.List.Nodup
import Mathlib.Algebra.BigOperators.Group.List.Basic
import Mathlib.Algebra.BigOperators.Ring.List
import Mathlib.Tactic.Ring

namespace NipyVerif.C12

/-! ### pigeonhole -/

theorem nodup_lt_length_le {l : List Nat} {V : Nat} (hn : l.Nodup) (hl : ∀ x ∈ l, x < V) :
    l.length ≤ V := by
  have := (List.subperm_of_subset hn (fun x hx => List.mem_range.2 (hl x hx))).length_le
  simpa using this

/-- A self-map of `0..V-1` that moves every non-fixed point strictly up in some strict order
    reaches a fixed point within `V` steps. -/
theorem iterate_fixed_of_strict {V : Nat} (f : Nat → Nat) (lt : Nat → Nat → Prop)
    (hirr : ∀ a, ¬ lt a a) (htr : ∀ a b c, lt a b → lt b c → lt a c)
    (hr : ∀ x < V, f x < V) (hlt : ∀ x < V, f x ≠ x → lt x (f x)) (v : Nat) (hv : v < V) :
    f (f^[V] v) = f^[V] v := by
  by_contra hne
  have hin : ∀ k, f^[k] v < V := by
    intro k; induction k with
    | zero => exact hv
    | succ k ih => rw [Function.iterate_succ_apply']; exact hr _ ih
  have hnf : ∀ k ≤ V, f (f^[k] v) ≠ f^[k] v := by
    intro k hk hfix
    apply hne
    have h2 : f^[V] v = f^[k] v := by
      have h1 := Function.iterate_fixed hfix (V - k)
      rw [← Function.iterate_add_apply, Nat.sub_add_cancel hk] at h1
      exact h1
    rw [h2]; exact hfix
  have hstep : ∀ k ≤ V, lt (f^[k] v) (f^[k + 1] v) := by
    intro k hk
    rw [Function.iterate_succ_apply']
    exact hlt _ (hin k) (hnf k hk)
  have hlt' : ∀ d i, i + d + 1 ≤ V + 1 → lt (f^[i] v) (f^[i + d + 1] v) := by
    intro d
    induction d with
    | zero => intro i hi; exact hstep i (by omega)
    | succ d ih =>
      intro i hi
      exact htr _ _ _ (ih i (by omega)) (hstep (i + d + 1) (by omega))
  have hnd : ((List.range (V + 1)).map (fun k => f^[k] v)).Nodup := by
    apply List.Nodup.map_on _ List.nodup_range
    intro a ha b hb hab
    have ha := List.mem_range.1 ha
    have hb := List.mem_range.1 hb
    by_contra hne'
    rcases Nat.lt_or_gt_of_ne hne' with h | h
    · have := hlt' (b - a - 1) a (by omega)
      rw [show a + (b - a - 1) + 1 = b by omega, hab] at this
      exact hirr _ this
    · have := hlt' (a - b - 1) b (by omega)
      rw [show b + (a - b - 1) + 1 = a by omega, hab] at this
      exact hirr _ this
  have := nodup_lt_length_le hnd (by
    intro x hx
    obtain ⟨k, _, rfl⟩ := List.mem_map.1 hx
    exact hin k)
  simp at this

/-! ### `argmax` returns the first index of the maximum -/

theorem argmax_fold_strict (f : Nat → Rat) (r : List Nat) (j : Nat) :
    let b := r.foldl (fun b x => if f x > f b then x else b) j
    b = j ∨ f j < f b := by
  induction r generalizing j with
  | nil => simp
  | cons a t ih =>
    simp only [List.foldl_cons]
    by_cases h : f a > f j
    · simp only [h, if_true]
      rcases ih a with h1 | h1
      · right; rw [h1]; exact h
      · right; exact lt_trans h h1
    · simp only [h, if_false]
      exact ih j

theorem argmax_fold_first (f : Nat → Rat) (r : List Nat) (j : Nat)
    (hs : (j :: r).Pairwise (· < ·)) :
    let b := r.foldl (fun b x => if f x > f b then x else b) j
    ∀ x ∈ j :: r, f x = f b → b ≤ x := by
  induction r generalizing j with
  | nil => intro b x hx _; simp at hx; subst hx; exact Nat.le_refl _
  | cons a t ih =>
    simp only [List.foldl_cons]
    obtain ⟨hj, hat⟩ := List.pairwise_cons.1 hs
    by_cases h : f a > f j
    · simp only [h, if_true]
      intro x hx hfx
      rcases List.mem_cons.1 hx with rfl | hx
      · -- x = j cannot carry the maximum
        obtain ⟨_, h2, _⟩ := argmax_fold_spec f t a
        exact absurd (lt_of_lt_of_le h h2) (by rw [hfx]; exact lt_irrefl _)
      · exact ih a hat x hx hfx
    · simp only [h, if_false]
      have hjt : (j :: t).Pairwise (· < ·) :=
        List.pairwise_cons.2 ⟨fun x hx => hj x (List.mem_cons_of_mem _ hx), (List.pairwise_cons.1 hat).2⟩
      intro x hx hfx
      rcases List.mem_cons.1 hx with rfl | hx
      · exact ih x hjt x List.mem_cons_self hfx
      · rcases List.mem_cons.1 hx with rfl | hx
        · -- x = a has the value of the result; the result did not move away from j
          rcases argmax_fold_strict f t j with h1 | h1
          · rw [h1]; exact Nat.le_of_lt (hj x List.mem_cons_self)
          · exact absurd (lt_of_lt_of_le h1 (by rw [← hfx]; exact not_lt.1 h)) (lt_irrefl _)
        · exact ih j hjt x (List.mem_cons_of_mem _ hx) hfx

theorem closedRow_sorted (g : Graph) (i : Nat) : (closedRow g i).Pairwise (· < ·) := by
  unfold closedRow
  exact List.Pairwise.sublist List.filter_sublist List.pairwise_lt_range

/-- steepest ascent moves strictly up in (value, then smaller index) -/
theorem highestNeighbor_strict (g : Graph) (col : List Rat) (i : Nat) (hi : i < g.V)
    (hne : highestNeighbor g col i ≠ i) :
    at_ col i < at_ col (highestNeighbor g col i) ∨
      (at_ col i = at_ col (highestNeighbor g col i) ∧ highestNeighbor g col i < i) := by
  have hmem : i ∈ closedRow g i := mem_closedRow.2 ⟨hi, Or.inl rfl⟩
  have hle := (highestNeighbor_spec g col i hi).2 i hmem
  rcases lt_or_eq_of_le hle with h | h
  · exact Or.inl h
  · right
    refine ⟨h, ?_⟩
    have hs := closedRow_sorted g i
    unfold highestNeighbor at hne h ⊢
    cases hrow : closedRow g i with
    | nil => rw [hrow] at hmem; cases hmem
    | cons a r =>
      rw [hrow] at hs hmem
      simp only [hrow, argmaxRow, Option.getD_some] at hne h ⊢
      have := argmax_fold_first (at_ col) r a hs i hmem h
      omega

/-- the strict order steepest ascent climbs -/
def ascLt (col : List Rat) (a b : Nat) : Prop :=
  at_ col a < at_ col b ∨ (at_ col a = at_ col b ∧ b < a)

theorem ascLt_irrefl (col : List Rat) (a : Nat) : ¬ ascLt col a a := by
  rintro (h | ⟨_, h⟩)
  · exact lt_irrefl _ h
  · exact Nat.lt_irrefl _ h

theorem ascLt_trans (col : List Rat) (a b c : Nat) : ascLt col a b → ascLt col b c → ascLt col a c := by
  rintro (h1 | ⟨h1, h1'⟩) (h2 | ⟨h2, h2'⟩)
  · exact Or.inl (lt_trans h1 h2)
  · exact Or.inl (by rw [← h2]; exact h1)
  · exact Or.inl (by rw [h1]; exact h2)
  · exact Or.inr ⟨by rw [h1, h2], by omega⟩

theorem highestNeighbor_lt (g : Graph) (col : List Rat) (i : Nat) (hi : i < g.V) :
    highestNeighbor g col i < g.V :=
  (mem_closedRow.1 (highestNeighbor_spec g col i hi).1).1

theorem basinRoot_eq_iterate (g : Graph) (col : List Rat) (v : Nat) :
    basinRoot g col v = (highestNeighbor g col)^[g.V] v := iter_eq_iterate _ _ _

theorem iterate_highestNeighbor_lt (g : Graph) (col : List Rat) (k v : Nat) (hv : v < g.V) :
    (highestNeighbor g col)^[k] v < g.V := by
  induction k with
  | zero => exact hv
  | succ k ih => rw [Function.iterate_succ_apply']; exact highestNeighbor_lt g col _ ih

/-- along the ascent the value never decreases, and where it stays equal the index does not grow -/
theorem ascent_monotone (g : Graph) (col : List Rat) (k v : Nat) (hv : v < g.V) :
    at_ col v ≤ at_ col ((highestNeighbor g col)^[k] v) ∧
      (at_ col v = at_ col ((highestNeighbor g col)^[k] v) → (highestNeighbor g col)^[k] v ≤ v) := by
  induction k with
  | zero => exact ⟨le_refl _, fun _ => Nat.le_refl _⟩
  | succ k ih =>
    rw [Function.iterate_succ_apply']
    set w := (highestNeighbor g col)^[k] v with hw
    have hwV : w < g.V := iterate_highestNeighbor_lt g col k v hv
    by_cases hfix : highestNeighbor g col w = w
    · rw [hfix]; exact ih
    · rcases highestNeighbor_strict g col w hwV hfix with h | ⟨h1, h2⟩
      · refine ⟨le_trans ih.1 (le_of_lt h), fun heq => ?_⟩
        exact absurd (lt_of_le_of_lt ih.1 h) (by rw [heq]; exact lt_irrefl _)
      · refine ⟨by rw [← h1]; exact ih.1, fun heq => ?_⟩
        have := ih.2 (by rw [h1]; exact heq)
        omega

/-! ### the bifurcation sweep labels the vertices it visits -/

theorem bifStep_llabel (rows : Nat → List Nat) (st : BifSt) (i : Nat) :
    ∃ n : Nat, (bifStep rows st i).llabel = upd st.llabel i (n : Int) := by
  unfold bifStep
  dsimp only
  split
  · exact ⟨st.q, rfl⟩
  · split
    · rename_i r _
      exact ⟨r, rfl⟩
    · exact ⟨st.q, rfl⟩

theorem bifSweep_labelled (rows : Nat → List Nat) (order : List Nat) (st : BifSt) (done : List Nat)
    (h : ∀ j ∈ done, 0 ≤ st.llabel j) :
    ∀ j ∈ done ++ order, 0 ≤ (order.foldl (bifStep rows) st).llabel j := by
  induction order generalizing st done with
  | nil => simpa using h
  | cons a t ih =>
    intro j hj
    rw [List.foldl_cons]
    apply ih (bifStep rows st a) (done ++ [a])
    · intro k hk
      obtain ⟨n, hn⟩ := bifStep_llabel rows st a
      rw [hn]
      unfold upd
      split
      · exact Int.natCast_nonneg n
      · rcases List.mem_append.1 hk with hk | hk
        · exact h k hk
        · simp at hk; contradiction
    · simpa using hj

/-! ### diffusion -/

/-- the weighted adjacency applied to a total field -/
def adjF (g : Graph) (f : Nat → Rat) : Nat → Rat :=
  fun i => ((g.edges.filter (fun e => e.src == i)).map (fun e => e.w * f e.dst)).sum

theorem applyAdj_eq (g : Graph) (col : List Rat) :
    applyAdj g col = (List.range g.V).map (adjF g (at_ col)) := rfl

theorem adjF_congr {g : Graph} (hv : g.Valid) {f f' : Nat → Rat} (H : ∀ j < g.V, f j = f' j) (i : Nat) :
    adjF g f i = adjF g f' i := by
  unfold adjF
  congr 1
  apply List.map_congr_left
  intro e he
  rw [H _ (hv e (List.mem_filter.1 he).1).2]

theorem sum_map_lin {α} (l : List α) (w x y : α → Rat) (a b : Rat) :
    (l.map (fun e => w e * (a * x e + b * y e))).sum =
      a * (l.map (fun e => w e * x e)).sum + b * (l.map (fun e => w e * y e)).sum := by
  induction l with
  | nil => simp
  | cons e t ih => simp only [List.map_cons, List.sum_cons, ih]; ring

theorem adjF_linear (g : Graph) (a b : Rat) (x y : Nat → Rat) (i : Nat) :
    adjF g (fun j => a * x j + b * y j) i = a * adjF g x i + b * adjF g y i := by
  unfold adjF
  exact sum_map_lin _ (fun (e : Edge) => e.w) (fun (e : Edge) => x e.dst) (fun (e : Edge) => y e.dst) a b

theorem sum_range_ite (V d : Nat) (hd : d < V) (c : Nat → Rat) :
    ((List.range V).map (fun j => if d = j then c j else 0)).sum = c d := by
  induction V with
  | zero => omega
  | succ V ih =>
    rw [List.range_succ, List.map_append, List.sum_append]
    simp only [List.map_cons, List.map_nil, List.sum_cons, List.sum_nil, add_zero]
    by_cases h : d = V
    · subst h
      have : ((List.range d).map (fun j => if d = j then c j else 0)).sum = 0 := by
        apply List.sum_eq_zero
        intro x hx
        obtain ⟨j, hj, rfl⟩ := List.mem_map.1 hx
        have := List.mem_range.1 hj
        rw [if_neg (by omega)]
      rw [this]; simp
    · rw [ih (by omega), if_neg h]; simp

/-- the sparse product is the dense matrix-vector product with `adjW` (parallel edges summed) -/
theorem adjF_eq_matrix (g : Graph) (hv : g.Valid) (f : Nat → Rat) (i : Nat) :
    adjF g f i = ((List.range g.V).map (fun j => adjW g i j * f j)).sum := by
  unfold adjF adjW
  have key : ∀ L : List Edge, (∀ e ∈ L, e.dst < g.V) →
      (L.map (fun e => e.w * f e.dst)).sum =
        ((List.range g.V).map (fun j => ((L.filter (fun e => e.dst == j)).map (·.w)).sum * f j)).sum := by
    intro L
    induction L with
    | nil => intro _; simp
    | cons e t ih =>
      intro hL
      have hd := hL e List.mem_cons_self
      rw [List.map_cons, List.sum_cons, ih (fun x hx => hL x (List.mem_cons_of_mem _ hx)),
        ← sum_range_ite g.V e.dst hd (fun j => e.w * f j), ← List.sum_map_add]
      congr 1
      apply List.map_congr_left
      intro j _
      by_cases h : e.dst = j
      · simp [List.filter_cons, h]; ring
      · simp [List.filter_cons, h]
  rw [key _ (fun e he => (hv e (List.mem_filter.1 he).1).2)]
  congr 1
  apply List.map_congr_left
  intro j _
  rw [List.filter_filter]
  congr 3
  apply List.filter_congr
  intro e _
  rw [Bool.and_comm]

/-! ### in-place operators of a Field as maps on total fields -/

def opFnD (g : Graph) : FieldOp → (Nat → Rat) → Nat → Rat
  | .dilation n _ => (dilF g)^[n]
  | .erosion n => (eroF g)^[n]
  | .opening n => fun f => (dilF g)^[n] ((eroF g)^[n] f)
  | .closing n => fun f => (eroF g)^[n] ((dilF g)^[n] f)
  | .diffusion n => (adjF g)^[n]
  | _ => id

def isInPlace : FieldOp → Bool
  | .dilation _ _ | .erosion _ | .opening _ | .closing _ | .diffusion _ => true
  | _ => false

/-- agreement on the vertices is all an operator looks at -/
def Local (V : Nat) (φ : (Nat → Rat) → Nat → Rat) : Prop :=
  ∀ f f' : Nat → Rat, (∀ j < V, f j = f' j) → ∀ i < V, φ f i = φ f' i

theorem local_iterate {V : Nat} {φ : (Nat → Rat) → Nat → Rat} (h : Local V φ) (n : Nat) : Local V (φ^[n]) :=
  fun f f' H => iterate_congr h n f f' H

theorem local_comp {V : Nat} {φ ψ : (Nat → Rat) → Nat → Rat} (h1 : Local V φ) (h2 : Local V ψ) :
    Local V (fun f => φ (ψ f)) :=
  fun f f' H => h1 _ _ (h2 f f' H)

theorem local_dilF (g : Graph) : Local g.V (dilF g) := fun _ _ H _ hi => dilF_congr H hi
theorem local_eroF (g : Graph) : Local g.V (eroF g) := fun _ _ H _ hi => eroF_congr H hi
theorem local_adjF (g : Graph) (hv : g.Valid) : Local g.V (adjF g) := fun _ _ H i _ => adjF_congr hv H i

theorem local_opFnD (g : Graph) (hv : g.Valid) (op : FieldOp) : Local g.V (opFnD g op) := by
  cases op <;> simp only [opFnD]
  case dilation n _ => exact local_iterate (local_dilF g) n
  case erosion n => exact local_iterate (local_eroF g) n
  case opening n => exact local_comp (local_iterate (local_dilF g) n) (local_iterate (local_eroF g) n)
  case closing n => exact local_comp (local_iterate (local_eroF g) n) (local_iterate (local_dilF g) n)
  case diffusion n => exact local_iterate (local_adjF g hv) n
  all_goals exact fun f f' H i hi => H i hi

theorem diffuse_eq (g : Graph) (hv : g.Valid) (n : Nat) (col : List Rat) (hl : col.length = g.V) :
    diffuse g n col = (List.range g.V).map ((adjF g)^[n] (at_ col)) := by
  unfold diffuse
  rw [iter_eq_iterate]
  exact iterate_list_eq _ _ (applyAdj_eq g) (local_adjF g hv) n col hl

theorem dilate_eq (g : Graph) (hv : g.Valid) (n : Nat) (fast : Bool) (col : List Rat) (hl : col.length = g.V) :
    dilate g n fast col = some ((List.range g.V).map ((dilF g)^[n] (at_ col))) := by
  unfold dilate
  cases fast
  · simp only [Bool.false_eq_true, if_false]; exact slowDilate_eq g n col hl
  · simp only [if_true]; rw [fastDilate_eq g hv n col hl]

/-- every in-place method, on one column: the list it leaves is the operator applied to the column -/
theorem colOp_spec (g : Graph) (hv : g.Valid) (is64 : Bool) (op : FieldOp) (hop : isInPlace op = true)
    (col : List Rat) (hl : col.length = g.V) :
    ∃ F, colOp g is64 op = some F ∧ F col = some ((List.range g.V).map (opFnD g op (at_ col))) := by
  have hat : ∀ (h : Nat → Rat), ∀ j < g.V, at_ ((List.range g.V).map h) j = h j :=
    fun h j hj => at_map_range h hj
  cases op <;> simp only [isInPlace] at hop <;> simp only [colOp, opFnD]
  all_goals try (exact absurd hop (by decide))
  case dilation n fast => exact ⟨_, rfl, dilate_eq g hv n (fast && is64) col hl⟩
  case erosion n => exact ⟨_, rfl, erode_eq g n col hl⟩
  case opening n =>
    refine ⟨_, rfl, ?_⟩
    rw [erode_eq g n col hl, Option.bind_some, dilate_eq g hv n is64 _ (by simp)]
    congr 1
    apply List.map_congr_left
    intro i hi
    exact local_iterate (local_dilF g) n _ _ (hat _) i (List.mem_range.1 hi)
  case closing n =>
    refine ⟨_, rfl, ?_⟩
    rw [dilate_eq g hv n is64 col hl, Option.bind_some, erode_eq g n _ (by simp)]
    congr 1
    apply List.map_congr_left
    intro i hi
    exact local_iterate (local_eroF g) n _ _ (hat _) i (List.mem_range.1 hi)
  case diffusion n => exact ⟨_, rfl, by rw [diffuse_eq g hv n col hl]⟩

/-! ### graph edits inside a history -/

def isGraphEdit : FieldOp → Bool
  | .setEdges _ | .setWeights _ => true
  | _ => false

theorem mem_zipWith_elim {α β γ : Type} (f : α → β → γ) :
    ∀ (l₁ : List α) (l₂ : List β) (c : γ), c ∈ List.zipWith f l₁ l₂ → ∃ a ∈ l₁, ∃ b ∈ l₂, f a b = c := by
  intro l₁
  induction l₁ with
  | nil => intro l₂ c h; simp at h
  | cons x t ih =>
    intro l₂ c h
    cases l₂ with
    | nil => simp at h
    | cons y t' =>
      rw [List.zipWith_cons_cons, List.mem_cons] at h
      rcases h with rfl | h
      · exact ⟨x, List.mem_cons_self, y, List.mem_cons_self, rfl⟩
      · obtain ⟨a, ha, b, hb, hab⟩ := ih t' c h
        exact ⟨a, List.mem_cons_of_mem _ ha, b, List.mem_cons_of_mem _ hb, hab⟩

theorem graphAfter_V (g : Graph) (op : FieldOp) : (graphAfter g op).V = g.V := by
  cases op <;> simp only [graphAfter]
  case setEdges es => split <;> rfl
  case setWeights ws => split <;> rfl

theorem graphAfter_valid (g : Graph) (hv : g.Valid) (op : FieldOp) : (graphAfter g op).Valid := by
  cases op <;> simp only [graphAfter] <;> try exact hv
  case setEdges es =>
    split
    · rename_i hok
      simp only [edgesOk, Bool.and_eq_true, decide_eq_true_eq, List.all_eq_true] at hok
      intro e he
      simp only at he
      obtain ⟨a, ha, b, _, rfl⟩ := mem_zipWith_elim _ _ _ _ he
      have := hok.2 a ha
      simpa using this
    · exact hv
  case setWeights ws =>
    split
    · intro e he
      simp only at he
      obtain ⟨a, ha, b, _, rfl⟩ := mem_zipWith_elim _ _ _ _ he
      exact hv a ha
    · exact hv

theorem graphAfter_inPlace (g : Graph) (op : FieldOp) (h : isInPlace op = true) : graphAfter g op = g := by
  cases op <;> simp only [isInPlace] at h <;> first | rfl | exact absurd h (by decide)

/-- the field operator a history amounts to, the graph being edited along the way -/
def histFrom (g : Graph) : List FieldOp → (Nat → Rat) → Nat → Rat
  | [], f => f
  | op :: t, f => histFrom (graphAfter g op) t (opFnD g op f)

/-- the graph a history ends with -/
def graphFrom (g : Graph) (ops : List FieldOp) : Graph := ops.foldl graphAfter g

/-- the dtype flag a history ends with -/
def flagFrom (b : Bool) (ops : List FieldOp) : Bool := ops.foldl is64After b

theorem local_histFrom (ops : List FieldOp) : ∀ (g : Graph), g.Valid → Local g.V (histFrom g ops) := by
  induction ops with
  | nil => intro g _ f f' H i hi; exact H i hi
  | cons op t ih =>
    intro g hv f f' H
    have h1 := ih (graphAfter g op) (graphAfter_valid g hv op)
    rw [graphAfter_V] at h1
    exact h1 _ _ (local_opFnD g hv op f f' H)

/-! ### local maxima: the dilation loop marks exactly the local maxima -/

/-- `i` dominates its closed neighbourhood -/
def IsLocMax (g : Graph) (col : List Rat) (i : Nat) : Prop :=
  ∀ j ∈ closedRow g i, at_ col j ≤ at_ col i

theorem dilF_eq_self_iff (g : Graph) (f : Nat → Rat) (i : Nat) :
    dilF g f i = f i ↔ ∀ j ∈ closedRow g i, f j ≤ f i := by
  constructor
  · intro h j hj
    have := ((dilF_le_iff g f i (f i)).1 (le_of_eq h)).2 j hj
    exact this
  · intro h
    exact le_antisymm ((dilF_le_iff g f i (f i)).2 ⟨le_refl _, h⟩) (foldMax_ge_init _ _)

theorem dilF_mono (g : Graph) {f f' : Nat → Rat} (H : ∀ j < g.V, f j ≤ f' j) (i : Nat) (hi : i < g.V) :
    dilF g f i ≤ dilF g f' i := by
  rw [dilF_le_iff]
  refine ⟨le_trans (H i hi) (foldMax_ge_init _ _), fun j hj => ?_⟩
  exact le_trans (H j (mem_closedRow.1 hj).1) (foldMax_ge_mem _ _ _ (List.mem_map_of_mem hj))

theorem getD_map_range {α} (V : Nat) (h : Nat → α) (d : α) {i : Nat} (hi : i < V) :
    ((List.range V).map h).getD i d = h i := by
  simp [List.getD_eq_getElem?_getD, hi]

theorem lmaxLoop_spec (g : Graph) (hv : g.Valid) (init : List Rat) (hl : init.length = g.V) :
    ∀ (fuel k : Nat) (cur : List Rat) (ld : List Nat),
      g.V ≤ fuel + k → cur.length = g.V →
      (∀ i < g.V, at_ init i ≤ at_ cur i) →
      (1 ≤ k → ∀ i < g.V, dilF g (at_ init) i ≤ at_ cur i) →
      (k = 0 → cur = init) →
      (∀ i < g.V, IsLocMax g init i → 1 ≤ ld.getD i 0) →
      (1 ≤ k → ∀ i < g.V, ¬ IsLocMax g init i → ld.getD i 0 = 0) →
      ∀ i < g.V, (0 < (lmaxLoop g init fuel k cur ld).getD i 0 ↔ IsLocMax g init i) := by
  intro fuel
  induction fuel with
  | zero =>
    intro k cur ld hfk _ _ _ _ hmax hnon i hi
    have hk : 1 ≤ k := by omega
    simp only [lmaxLoop]
    constructor
    · intro hpos
      by_contra hn
      rw [hnon hk i hi hn] at hpos; omega
    · intro hm; have := hmax i hi hm; omega
  | succ fuel ih =>
    intro k cur ld hfk hcl hge hdil h0 hmax hnon
    have hnxt : fastDilate g 1 cur = (List.range g.V).map (dilF g (at_ cur)) := by
      rw [fastDilate_eq g hv 1 cur hcl]; rfl
    have hnx : ∀ i < g.V, at_ (fastDilate g 1 cur) i = dilF g (at_ cur) i := by
      intro i hi; rw [hnxt]; exact at_map_range _ hi
    -- a vertex that is not a local maximum of the initial field is below its dilation
    have hstrict : ∀ i < g.V, ¬ IsLocMax g init i → at_ init i < dilF g (at_ init) i := by
      intro i _ hn
      rcases lt_or_eq_of_le (foldMax_ge_init (at_ init i) ((closedRow g i).map (at_ init))) with h | h
      · exact h
      · exact absurd ((dilF_eq_self_iff g (at_ init) i).1 h.symm) hn
    have hmaxeq : ∀ i < g.V, IsLocMax g init i → dilF g (at_ init) i = at_ init i :=
      fun i _ hm => (dilF_eq_self_iff g (at_ init) i).2 hm
    rw [lmaxLoop]
    set nxt := fastDilate g 1 cur with hnxtdef
    set nonMax := (List.range g.V).map (fun i => decide (at_ nxt i > at_ cur i)) with hnm
    set ld1 := (List.range g.V).map
      (fun i => if nonMax.getD i false then min k (ld.getD i 0) else ld.getD i 0) with hld1
    have hnmi : ∀ i < g.V, nonMax.getD i false = decide (at_ nxt i > at_ cur i) :=
      fun i hi => getD_map_range g.V _ false hi
    have hld1i : ∀ i < g.V, ld1.getD i 0 =
        if nonMax.getD i false then min k (ld.getD i 0) else ld.getD i 0 :=
      fun i hi => getD_map_range g.V _ 0 hi
    -- when k = 0 the non-maxima are exactly the vertices that are not local maxima
    have hk0 : k = 0 → ∀ i < g.V, (nonMax.getD i false = true ↔ ¬ IsLocMax g init i) := by
      intro hk i hi
      rw [hnmi i hi, hnx i hi, h0 hk]
      simp only [decide_eq_true_eq, gt_iff_lt]
      constructor
      · intro hlt hm; rw [hmaxeq i hi hm] at hlt; exact lt_irrefl _ hlt
      · exact hstrict i hi
    split
    · -- the dilation changed nothing: last iteration
      rename_i hall
      have hall' : ∀ i < g.V, nonMax.getD i false = false := by
        intro i hi
        have := (List.all_eq_true.1 hall) (nonMax.getD i false) (by
          rw [hnm, getD_map_range g.V _ false hi]
          exact List.mem_map.2 ⟨i, List.mem_range.2 hi, rfl⟩)
        simpa using this
      intro i hi
      rw [getD_map_range g.V _ 0 hi]
      constructor
      · intro hpos
        by_contra hn
        have hne : ¬ (at_ nxt i == at_ init i) = true := by
          rw [beq_iff_eq, hnx i hi]
          intro heq
          have h1 := hstrict i hi hn
          have h2 := dilF_mono g hge i hi
          rw [heq] at h2
          exact lt_irrefl _ (lt_of_lt_of_le h1 h2)
        rw [if_neg hne, hld1i i hi, hall' i hi] at hpos
        simp only [Bool.false_eq_true, if_false] at hpos
        rcases Nat.eq_zero_or_pos k with hk | hk
        · have := (hk0 hk i hi).2 hn
          rw [hall' i hi] at this; cases this
        · rw [hnon hk i hi hn] at hpos; omega
      · intro hm
        split
        · omega
        · rw [hld1i i hi, hall' i hi]
          simp only [Bool.false_eq_true, if_false]
          have := hmax i hi hm; omega
    · -- another iteration
      apply ih (k + 1) nxt ld1 (by omega) (by rw [hnxt]; simp)
      · intro i hi
        rw [hnx i hi]
        exact le_trans (hge i hi) (foldMax_ge_init _ _)
      · intro _ i hi
        rw [hnx i hi]
        exact dilF_mono g hge i hi
      · intro h; omega
      · intro i hi hm
        rw [hld1i i hi]
        split
        · rename_i hnmt
          rcases Nat.eq_zero_or_pos k with hk | hk
          · exact absurd hm ((hk0 hk i hi).1 hnmt)
          · have := hmax i hi hm
            exact Nat.le_min.2 ⟨hk, this⟩
        · exact hmax i hi hm
      · intro _ i hi hn
        rw [hld1i i hi]
        rcases Nat.eq_zero_or_pos k with hk | hk
        · rw [(hk0 hk i hi).2 hn, hk]; simp
        · rw [hnon hk i hi hn]; simp

theorem subgraph_valid (g : Graph) (hv : g.Valid) (valid : Nat → Bool) : (subgraph g valid).Valid := by
  intro e he
  simp only [subgraph, List.mem_map, List.mem_filter, Bool.and_eq_true] at he ⊢
  obtain ⟨e0, ⟨he0, h1, h2⟩, rfl⟩ := he
  exact ⟨renumb_lt valid (hv e0 he0).1 h1, renumb_lt valid (hv e0 he0).2 h2⟩

end NipyVerif.C12
