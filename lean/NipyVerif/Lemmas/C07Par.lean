/- Lemmas for the paradigm CSV round trip of C07. -/
import NipyVerif.Model.C07Par
import Mathlib.Data.List.Basic
import Mathlib.Tactic.Ring
import Mathlib.Tactic.Linarith

namespace NipyVerif.C07

theorem range_map_getD {α : Type} (l : List α) (d : α) :
    (List.range l.length).map (fun i => l.getD i d) = l := by
  apply List.ext_getElem
  · simp
  · intro i h1 h2
    simp [List.getD, List.getElem?_eq_getElem h2]

theorem pick_all_true {α : Type} (l : List α) (m : List Bool) (hm : m = List.replicate l.length true) :
    pick m l = l := by
  subst hm
  induction l with
  | nil => simp [pick]
  | cons x xs ih => simp [List.replicate_succ, pick, ih]

theorem pick_map {α β : Type} (m : List Bool) (l : List α) (f : α → β) :
    pick m (l.map f) = (pick m l).map f := by
  induction m generalizing l with
  | nil => simp [pick]
  | cons b bs ih =>
      cases l with
      | nil => cases b <;> simp [pick]
      | cons x xs => cases b <;> simp [pick, ih]

theorem all_zero_eq_map (du : List Rat) (on : List Rat) (hl : du.length = on.length)
    (hz : du.all (· == 0) = true) : du = on.map (fun _ => (0 : Rat)) := by
  induction du generalizing on with
  | nil =>
      cases on with
      | nil => rfl
      | cons _ _ => simp at hl
  | cons d ds ih =>
      cases on with
      | nil => simp at hl
      | cons o os =>
          simp only [List.all_cons, Bool.and_eq_true, beq_iff_eq] at hz
          simp only [List.map_cons, List.cons.injEq]
          exact ⟨hz.1, ih os (by simpa using hl) hz.2⟩

theorem replicate_eq_map {α : Type} (on : List α) (v : Rat) :
    List.replicate on.length v = on.map (fun _ => v) := by
  induction on with
  | nil => rfl
  | cons x xs ih => rw [List.length_cons, List.replicate_succ, ih, List.map_cons]

/-- durations as `_convolve_regressors` sees them -/
def durOf (p : Paradigm) : List Rat :=
  if p.isBlock then p.dur.getD [] else p.onset.map (fun _ => 0)

/-- amplitudes as `_convolve_regressors` sees them -/
def ampOf (p : Paradigm) : List Rat :=
  match p.amp with
  | some a => a
  | none => p.onset.map (fun _ => 1)

theorem condEvents_spec (p : Paradigm) (c : String) (hd : p.isBlock = true → p.dur.isSome) :
    condEvents p c = .ok (zip3 (pick (p.conId.map (fun x => x == c)) p.onset)
      (pick (p.conId.map (fun x => x == c)) (durOf p))
      (pick (p.conId.map (fun x => x == c)) (ampOf p))) := by
  unfold condEvents durOf ampOf
  cases hb : p.isBlock with
  | true =>
      obtain ⟨d, hd'⟩ := Option.isSome_iff_exists.mp (hd hb)
      cases ha : p.amp with
      | none => simp only [hd', if_true, Option.getD_some, pick_map]
      | some a => simp only [hd', if_true, Option.getD_some]
  | false =>
      cases ha : p.amp with
      | none => simp only [Bool.false_eq_true, if_false, pick_map]
      | some a => simp only [Bool.false_eq_true, if_false, pick_map]

/-- the conditions only depend on ids, onsets and the effective durations and amplitudes -/
theorem conditions_congr (p q : Paradigm) (hp : p.isBlock = true → p.dur.isSome)
    (hq : q.isBlock = true → q.dur.isSome) (h1 : q.conId = p.conId) (h2 : q.onset = p.onset)
    (h3 : durOf q = durOf p) (h4 : ampOf q = ampOf p) : conditions q = conditions p := by
  unfold conditions
  rw [h1]
  congr 1
  funext c
  rw [condEvents_spec p c hp, condEvents_spec q c hq, h1, h2, h3, h4]

/-! ### several sessions in one file -/

theorem pick_append {α : Type} (m₁ m₂ : List Bool) (l₁ l₂ : List α) (h : m₁.length = l₁.length) :
    pick (m₁ ++ m₂) (l₁ ++ l₂) = pick m₁ l₁ ++ pick m₂ l₂ := by
  induction m₁ generalizing l₁ with
  | nil =>
      cases l₁ with
      | nil => simp [pick]
      | cons _ _ => simp at h
  | cons b bs ih =>
      cases l₁ with
      | nil => simp at h
      | cons x xs =>
          have h' : bs.length = xs.length := by simpa using h
          cases b <;> simp [pick, ih xs h']

theorem pick_all_false {α : Type} (m : List Bool) (l : List α) (hm : ∀ b ∈ m, b = false) :
    pick m l = [] := by
  induction m generalizing l with
  | nil => simp [pick]
  | cons b bs ih =>
      have hb : b = false := hm b (by simp)
      subst hb
      cases l with
      | nil => simp [pick]
      | cons x xs => simp [pick, ih xs (fun b' hb' => hm b' (by simp [hb']))]

/-- every row has `k` columns, with the duration / amplitude the loader reads for that many -/
def UniformRows (k : Nat) (rows : List CsvRow) : Prop :=
  ∀ r ∈ rows, r.ncols = k ∧ (r.dur.isSome = decide (k > 3)) ∧ (r.amp.isSome = decide (k > 4))

theorem filterMap_length_uniform (rows : List CsvRow) (f : CsvRow → Option Rat) (b : Bool)
    (h : ∀ r ∈ rows, (f r).isSome = b) :
    (rows.filterMap f).length = if b then rows.length else 0 := by
  induction rows with
  | nil => cases b <;> simp
  | cons r rs ih =>
      have hr := h r (by simp)
      have ih' := ih (fun r' hr' => h r' (by simp [hr']))
      cases b with
      | true =>
          obtain ⟨v, hv⟩ := Option.isSome_iff_exists.mp hr
          simp [hv, ih'] at *
      | false =>
          have : f r = none := by simpa using hr
          simp [this] at *
          exact ih'

/-- a paradigm as the constructors accept it, with at least one event -/
structure Paradigm.WF (p : Paradigm) : Prop where
  nonempty : 0 < p.conId.length
  onsetLen : p.onset.length = p.conId.length
  durLen : p.isBlock = true → ∃ d, p.dur = some d ∧ d.length = p.conId.length
  ampLen : ∀ a, p.amp = some a → a.length = p.conId.length

/-- the rows written for one paradigm -/
theorem writeRows_facts (p : Paradigm) (hp : p.WF) (s : String) :
    (writeRows p s).map (·.cid) = p.conId ∧
    (writeRows p s).map (·.onset) = p.onset ∧
    (writeRows p s).filterMap (·.dur) = durOf p ∧
    (writeRows p s).filterMap (·.amp) = (p.amp.getD []) ∧
    (writeRows p s).map (fun r => r.sess == s) = List.replicate p.conId.length true ∧
    (writeRows p s).length = p.conId.length ∧
    (∀ r ∈ writeRows p s, r.ncols = if p.amp.isSome then 5 else 4) := by
  have hdur : (durOf p).length = p.conId.length := by
    unfold durOf
    cases hb : p.isBlock with
    | true => obtain ⟨d, h1, h2⟩ := hp.durLen hb; simp [h1, h2]
    | false => simp [hp.onsetLen]
  have hdu : (if p.isBlock then p.dur.getD [] else List.replicate p.conId.length 0) = durOf p := by
    unfold durOf
    cases hb : p.isBlock with
    | true => simp
    | false => simp only [Bool.false_eq_true, if_false]; rw [← hp.onsetLen, replicate_eq_map]
  unfold writeRows
  simp only [hdu]
  refine ⟨?_, ?_, ?_, ?_, ?_, by simp, ?_⟩
  · rw [List.map_map]; exact range_map_getD p.conId ""
  · rw [List.map_map, ← hp.onsetLen]; exact range_map_getD p.onset 0
  · rw [List.filterMap_map, ← hdur]
    have : ((fun r : CsvRow => r.dur) ∘ fun i => (⟨s, p.conId.getD i "", p.onset.getD i 0,
        some ((durOf p).getD i 0), p.amp.map (fun a => a.getD i 0), if p.amp.isSome then 5 else 4⟩ : CsvRow))
        = fun i => some ((durOf p).getD i 0) := rfl
    rw [this, List.filterMap_eq_map']
    exact range_map_getD (durOf p) 0
  · rw [List.filterMap_map]
    cases ha : p.amp with
    | none => simp
    | some a =>
        have hl := hp.ampLen a ha
        have : ((fun r : CsvRow => r.amp) ∘ fun i => (⟨s, p.conId.getD i "", p.onset.getD i 0,
            some ((durOf p).getD i 0), (some a).map (fun a => a.getD i 0),
            if (some a).isSome then 5 else 4⟩ : CsvRow)) = fun i => some (a.getD i 0) := rfl
        rw [this, List.filterMap_eq_map', ← hl]
        simpa using range_map_getD a 0
  · rw [List.map_map]
    apply List.ext_getElem
    · simp
    · intro i h1 h2; simp
  · intro r hr
    obtain ⟨i, _, rfl⟩ := List.mem_map.mp hr
    rfl

end NipyVerif.C07
