/-
C14 (wave 3) — helper lemmas for `_inertia_`, `merge_simple_branches` and `_label` on dendrograms.
-/
import NipyVerif.Lemmas.C14
import NipyVerif.Lemmas.C14Cut
import NipyVerif.Model.C14W
import Mathlib.Data.List.Perm.Basic
import Mathlib.Data.List.Flatten

namespace NipyVerif.C14
open List

/-! ### `_inertia_` -/

theorem sumTo_list_swap (p : Nat) (L : List Vec) (g : Vec → Nat → Rat) :
    sumTo p (fun d => (L.map (fun x => g x d)).sum) = (L.map (fun x => sumTo p (g x))).sum := by
  induction L with
  | nil => simp [sumTo_zero]
  | cons x L ih =>
      simp only [List.map_cons, List.sum_cons]
      rw [sumTo_add, ih]

theorem inertiaVar_mul_length (p : Nat) (L : List Vec) (hL : L ≠ []) :
    inertiaVar p L * (L.length : Rat) = ssq p L (meanv L) := by
  have hn : (L.length : Rat) ≠ 0 := by
    have : L.length ≠ 0 := by simpa using hL
    exact_mod_cast this
  unfold inertiaVar ssq sqDist
  rw [← sumTo_list_swap p L (fun x d => (x d - meanv L d) ^ 2), mul_comm, ← sumTo_smul]
  apply sumTo_congr
  intro d _
  field_simp

/-! ### children -/

theorem kidsOf_eq_childrenOf (par : List Nat) (f : Nat) : kidsOf par f = childrenOf par f := by
  unfold kidsOf childrenOf parFn
  apply List.filter_congr
  intro c _
  rw [Bool.eq_iff_iff]
  simp

theorem childrenOf_pairwise (par : List Nat) (k : Nat) : (childrenOf par k).Pairwise (· < ·) :=
  (List.pairwise_lt_range (n := par.length)).filter _

theorem Dendro.child_lt {n : Nat} {par : List Nat} (hD : Dendro n par) {c k : Nat}
    (h : c ∈ childrenOf par k) : c < k ∧ c < par.length ∧ parFn par c = k ∧ k < par.length := by
  rw [mem_childrenOf] at h
  obtain ⟨hcV, hne, hp⟩ := h
  rcases hD.up c hcV with h | h
  · exact absurd (h.symm.trans hp) hne
  · exact ⟨by omega, hcV, hp, by omega⟩

theorem Dendro.childrenOf_item {n : Nat} {par : List Nat} (hD : Dendro n par) {v : Nat} (hv : v < n) :
    childrenOf par v = [] := by
  rw [List.eq_nil_iff_forall_not_mem]
  intro c hc
  rw [mem_childrenOf] at hc
  exact hD.no_child_of_item hv hc.2.1 hc.2.2

theorem Dendro.childrenOf_ge_len {n : Nat} {par : List Nat} (hD : Dendro n par) {k : Nat}
    (hk : par.length ≤ k) : childrenOf par k = [] := by
  rw [List.eq_nil_iff_forall_not_mem]
  intro c hc
  have := (hD.child_lt hc).2.2.2
  omega

theorem Dendro.childrenOf_pair {n : Nat} {par : List Nat} (hD : Dendro n par) {k : Nat}
    (hk : n ≤ k) (hkV : k < par.length) : ∃ a b, childrenOf par k = [a, b] ∧ a < b := by
  have h2 := hD.two k hk hkV
  obtain ⟨a, b, hab⟩ := List.length_eq_two.mp h2
  have hp := childrenOf_pairwise par k
  rw [hab] at hp
  exact ⟨a, b, hab, by simpa using hp⟩

/-! ### `merge_simple_branches` -/

theorem map_getD_range (par : List Nat) : (List.range par.length).map (fun v => par.getD v v) = par := by
  apply List.ext_getElem
  · simp
  · intro i h1 h2
    simp [List.getD_eq_getElem?_getD, h2]

theorem subforestParents_all (par : List Nat) (valid : Nat → Bool)
    (_hpar : ∀ v, v < par.length → par.getD v v < par.length) (h : ∀ v, valid v = true) :
    subforestParents par valid = par := by
  unfold subforestParents
  have hf : ∀ m, (List.range m).filter valid = List.range m :=
    fun m => List.filter_eq_self.mpr (fun v _ => h v)
  simp only [hf, List.length_range, h, if_true]
  exact map_getD_range par

theorem msb_dendro {n : Nat} {par : List Nat} (hD : Dendro n par) : mergeSimpleBranches par = par := by
  unfold mergeSimpleBranches
  apply subforestParents_all
  · intro v hv
    rcases hD.up v hv with h | h
    · unfold parFn at h; rw [h]; exact hv
    · exact h.2
  · intro k
    rw [kidsOf_eq_childrenOf]
    by_cases hkV : k < par.length
    · by_cases hk : k < n
      · rw [hD.childrenOf_item hk]; rfl
      · rw [hD.two k (Nat.le_of_not_lt hk) hkV]; rfl
    · rw [hD.childrenOf_ge_len (Nat.le_of_not_lt hkV)]; rfl

/-! ### `_label_` -/

theorem Dendro.below_item {n : Nat} {par : List Nat} (hD : Dendro n par) {v f : Nat} (hf : f < n)
    (h : Below par v f) : v = f := by
  rcases Relation.ReflTransGen.cases_tail h with h | ⟨c, _, hp, hne⟩
  · exact h.symm
  · exact absurd hp (hD.no_child_of_item hf hne)

theorem below_of_ne {par : List Nat} {a b : Nat} (h : Below par a b) (hne : a ≠ b) :
    Below par (parFn par a) b := by
  rcases Relation.ReflTransGen.cases_head h with h | ⟨c, ⟨hp, _⟩, hcb⟩
  · exact absurd h hne
  · rw [hp]; exact hcb

/-- the subtrees of two different children of a node are disjoint -/
theorem Dendro.children_disjoint {n : Nat} {par : List Nat} (hD : Dendro n par) {a b f v : Nat}
    (ha : a ∈ childrenOf par f) (hb : b ∈ childrenOf par f) (hab : a ≠ b)
    (hva : Below par v a) (hvb : Below par v b) : False := by
  obtain ⟨haf, _, hpa, _⟩ := hD.child_lt ha
  obtain ⟨hbf, _, hpb, _⟩ := hD.child_lt hb
  rcases below_chain hva hvb with h | h
  · have := hD.below_le (below_of_ne h hab)
    rw [hpa] at this; omega
  · have := hD.below_le (below_of_ne h (Ne.symm hab))
    rw [hpb] at this; omega

theorem below_iff_children {par : List Nat} {v f : Nat} :
    Below par v f ↔ v = f ∨ ∃ c, c ∈ childrenOf par f ∧ Below par v c := by
  constructor
  · intro h
    rcases Relation.ReflTransGen.cases_tail h with h | ⟨c, hvc, hp, hne⟩
    · exact Or.inl h.symm
    · refine Or.inr ⟨c, ?_, hvc⟩
      rw [mem_childrenOf]
      exact ⟨step_lt_len (by rw [hp]; exact fun e => hne e.symm), hne, hp⟩
  · rintro (h | ⟨c, hc, hvc⟩)
    · rw [h]; exact Relation.ReflTransGen.refl
    · rw [mem_childrenOf] at hc
      exact hvc.tail ⟨hc.2.2, hc.2.1⟩

theorem inorder_succ (par : List Nat) (isRoot : Bool) (fuel f : Nat) :
    inorder par isRoot (fuel + 1) f =
      match kidsOf par f with
      | [] => if isRoot then none else some [f]
      | [a, b] =>
          if isRoot && decide (f < a) then none else
          match inorder par false fuel a, inorder par false fuel b with
          | some l, some r => some (l ++ f :: r)
          | _, _ => none
      | _ => none := rfl

theorem inorder_split {n : Nat} {par : List Nat} (hD : Dendro n par) :
    ∀ f fuel, n ≤ f → f < par.length → f < fuel →
    (∀ g fuel', g < f → g < par.length → g < fuel' →
      ∃ l, inorder par false fuel' g = some l ∧ l.Nodup ∧ ∀ v, v ∈ l ↔ Below par v g) →
    ∃ a b la lb, kidsOf par f = [a, b] ∧ a < b ∧
      inorder par false fuel f = some (la ++ f :: lb) ∧
      (∀ v, v ∈ la ↔ Below par v a) ∧ (∀ v, v ∈ lb ↔ Below par v b) ∧ la.Nodup ∧ lb.Nodup := by
  intro f fuel hn hf hfuel ih
  obtain ⟨fuel', rfl⟩ := Nat.exists_eq_succ_of_ne_zero (by omega : fuel ≠ 0)
  obtain ⟨a, b, hab, hlt⟩ := hD.childrenOf_pair hn hf
  have ha : a ∈ childrenOf par f := by rw [hab]; simp
  have hb : b ∈ childrenOf par f := by rw [hab]; simp
  obtain ⟨haf, haV, _, _⟩ := hD.child_lt ha
  obtain ⟨hbf, hbV, _, _⟩ := hD.child_lt hb
  obtain ⟨la, hla, hnda, hma⟩ := ih a fuel' haf haV (by omega)
  obtain ⟨lb, hlb, hndb, hmb⟩ := ih b fuel' hbf hbV (by omega)
  refine ⟨a, b, la, lb, by rw [kidsOf_eq_childrenOf, hab], hlt, ?_, hma, hmb, hnda, hndb⟩
  rw [inorder_succ, kidsOf_eq_childrenOf, hab]
  simp only [Bool.false_and, Bool.false_eq_true, if_false, hla, hlb]

theorem inorder_spec {n : Nat} {par : List Nat} (hD : Dendro n par) :
    ∀ f fuel, f < par.length → f < fuel →
    ∃ l, inorder par false fuel f = some l ∧ l.Nodup ∧ ∀ v, v ∈ l ↔ Below par v f := by
  intro f
  induction f using Nat.strong_induction_on with
  | _ f ih =>
    intro fuel hf hfuel
    by_cases hfn : f < n
    · obtain ⟨fuel', rfl⟩ := Nat.exists_eq_succ_of_ne_zero (by omega : fuel ≠ 0)
      refine ⟨[f], ?_, by simp, ?_⟩
      · rw [inorder_succ, kidsOf_eq_childrenOf, hD.childrenOf_item hfn]; rfl
      · intro v
        simp only [List.mem_singleton]
        exact ⟨fun h => h ▸ Relation.ReflTransGen.refl, fun h => hD.below_item hfn h⟩
    · have hn : n ≤ f := Nat.le_of_not_lt hfn
      obtain ⟨a, b, la, lb, hk, hlt, hres, hma, hmb, hnda, hndb⟩ :=
        inorder_split hD f fuel hn hf hfuel (fun g fuel' hg hgV hgf => ih g hg fuel' hgV hgf)
      rw [kidsOf_eq_childrenOf] at hk
      have ha : a ∈ childrenOf par f := by rw [hk]; simp
      have hb : b ∈ childrenOf par f := by rw [hk]; simp
      obtain ⟨haf, _, _, _⟩ := hD.child_lt ha
      obtain ⟨hbf, _, _, _⟩ := hD.child_lt hb
      refine ⟨la ++ f :: lb, hres, ?_, ?_⟩
      · rw [List.nodup_append]
        refine ⟨hnda, ?_, ?_⟩
        · rw [List.nodup_cons]
          refine ⟨fun h => ?_, hndb⟩
          have := hD.below_le ((hmb f).mp h); omega
        · intro x hx y hy
          rcases List.mem_cons.mp hy with rfl | hy
          · intro e; subst e
            have := hD.below_le ((hma x).mp hx); omega
          · intro e; subst e
            exact hD.children_disjoint ha hb (by omega) ((hma x).mp hx) ((hmb x).mp hy)
      · intro v
        rw [List.mem_append, List.mem_cons, below_iff_children, hk]
        simp only [List.mem_cons, List.not_mem_nil, or_false, hma, hmb]
        constructor
        · rintro (h | h | h)
          · exact Or.inr ⟨a, Or.inl rfl, h⟩
          · exact Or.inl h
          · exact Or.inr ⟨b, Or.inr rfl, h⟩
        · rintro (h | ⟨c, rfl | rfl, h⟩)
          · exact Or.inr (Or.inl h)
          · exact Or.inl h
          · exact Or.inr (Or.inr h)

theorem inorder_split_dendro {n : Nat} {par : List Nat} (hD : Dendro n par) (f fuel : Nat)
    (hn : n ≤ f) (hf : f < par.length) (hfuel : f < fuel) :
    ∃ a b la lb, kidsOf par f = [a, b] ∧ a < b ∧
      inorder par false fuel f = some (la ++ f :: lb) ∧
      (∀ v, v ∈ la ↔ Below par v a) ∧ (∀ v, v ∈ lb ↔ Below par v b) := by
  obtain ⟨a, b, la, lb, h1, h2, h3, h4, h5, _, _⟩ :=
    inorder_split hD f fuel hn hf hfuel (fun g fuel' _ hgV hgf => inorder_spec hD g fuel' hgV hgf)
  exact ⟨a, b, la, lb, h1, h2, h3, h4, h5⟩

/-! ### `_label`: the roots in turn -/

/-- the step of the fold in `labelOrder` -/
def labelStep (par : List Nat) (acc : Option (List Nat)) (r : Nat) : Option (List Nat) :=
  match acc, inorder par true (par.length + 1) r with
  | some l, some t => some (l ++ t)
  | _, _ => none

theorem labelOrder_eq (par : List Nat) :
    labelOrder par = ((List.range par.length).filter (fun v => par.getD v v == v)).foldl
      (labelStep par) (some []) := rfl

theorem foldl_labelStep_none (par : List Nat) (R : List Nat) : R.foldl (labelStep par) none = none := by
  induction R with
  | nil => rfl
  | cons x R ih => simpa [labelStep] using ih

theorem foldl_labelStep_refused (par : List Nat) (R : List Nat) (r : Nat) (hr : r ∈ R)
    (hnone : inorder par true (par.length + 1) r = none) (acc : Option (List Nat)) :
    R.foldl (labelStep par) acc = none := by
  induction R generalizing acc with
  | nil => cases hr
  | cons x R ih =>
      rw [List.foldl_cons]
      rcases List.mem_cons.mp hr with rfl | hr
      · have : labelStep par acc r = none := by
          unfold labelStep; rw [hnone]; cases acc <;> rfl
        rw [this]; exact foldl_labelStep_none par R
      · exact ih hr _

theorem foldl_labelStep_some (par : List Nat) (R : List Nat) (g : Nat → List Nat)
    (hg : ∀ r ∈ R, inorder par true (par.length + 1) r = some (g r)) (acc : List Nat) :
    R.foldl (labelStep par) (some acc) = some (acc ++ R.flatMap g) := by
  induction R generalizing acc with
  | nil => simp
  | cons x R ih =>
      rw [List.foldl_cons]
      have : labelStep par (some acc) x = some (acc ++ g x) := by
        unfold labelStep; rw [hg x (by simp)]
      rw [this, ih (fun r hr => hg r (List.mem_cons_of_mem _ hr)), List.flatMap_cons, List.append_assoc]

theorem Dendro.exists_root_above {n : Nat} {par : List Nat} (hD : Dendro n par) :
    ∀ m v, v < par.length → par.length - v ≤ m →
      ∃ r, r < par.length ∧ parFn par r = r ∧ Below par v r := by
  intro m
  induction m with
  | zero => intro v hv h; omega
  | succ m ih =>
      intro v hv h
      rcases hD.up v hv with hr | hr
      · exact ⟨v, hv, hr, Relation.ReflTransGen.refl⟩
      · obtain ⟨r, hrV, hrr, hb⟩ := ih (parFn par v) hr.2 (by omega)
        exact ⟨r, hrV, hrr, (below_step (by omega)).trans hb⟩

theorem below_root {par : List Nat} {r x : Nat} (hr : parFn par r = r) (h : Below par r x) : x = r := by
  rcases Relation.ReflTransGen.cases_head h with h | ⟨c, ⟨hp, hne⟩, _⟩
  · exact h.symm
  · exact absurd (hp.symm.trans hr).symm hne

theorem inorder_root_eq {n : Nat} {par : List Nat} (hD : Dendro n par) {r : Nat} (hn : n ≤ r)
    (hr : r < par.length) (fuel : Nat) :
    inorder par true (fuel + 1) r = inorder par false (fuel + 1) r := by
  obtain ⟨a, b, hab, _⟩ := hD.childrenOf_pair hn hr
  have ha : a ∈ childrenOf par r := by rw [hab]; simp
  obtain ⟨har, _, _, _⟩ := hD.child_lt ha
  rw [inorder_succ, inorder_succ, kidsOf_eq_childrenOf, hab]
  have : decide (r < a) = false := by simp; omega
  simp [this]

theorem labelOrder_spec {n : Nat} {par : List Nat} (hD : Dendro n par)
    (hroot : ∀ v, v < n → parFn par v ≠ v) :
    ∃ ord, labelOrder par = some ord ∧ ord.Perm (List.range par.length) := by
  set R := (List.range par.length).filter (fun v => par.getD v v == v) with hR
  have hRmem : ∀ r, r ∈ R ↔ r < par.length ∧ parFn par r = r := by
    intro r; simp [hR, parFn]
  -- what each root contributes
  have hspec : ∀ r ∈ R, ∃ l, inorder par true (par.length + 1) r = some l ∧ l.Nodup ∧
      ∀ v, v ∈ l ↔ Below par v r := by
    intro r hr
    obtain ⟨hrV, hrr⟩ := (hRmem r).mp hr
    have hn : n ≤ r := by
      by_contra h
      exact hroot r (Nat.lt_of_not_le h) hrr
    rw [inorder_root_eq hD hn hrV]
    exact inorder_spec hD r (par.length + 1) hrV (by omega)
  let g : Nat → List Nat := fun r => (inorder par true (par.length + 1) r).getD []
  have hg : ∀ r ∈ R, inorder par true (par.length + 1) r = some (g r) := by
    intro r hr
    obtain ⟨l, hl, _, _⟩ := hspec r hr
    simp [g, hl]
  have hgspec : ∀ r ∈ R, (g r).Nodup ∧ ∀ v, v ∈ g r ↔ Below par v r := by
    intro r hr
    obtain ⟨l, hl, hnd, hm⟩ := hspec r hr
    have : g r = l := by simp [g, hl]
    rw [this]; exact ⟨hnd, hm⟩
  refine ⟨R.flatMap g, ?_, ?_⟩
  · rw [labelOrder_eq, foldl_labelStep_some par R g hg []]; simp
  · apply (List.perm_ext_iff_of_nodup ?_ (List.nodup_range)).mpr
    · intro v
      rw [List.mem_flatMap, List.mem_range]
      constructor
      · rintro ⟨r, hr, hv⟩
        have hb := ((hgspec r hr).2 v).mp hv
        have := hD.below_le hb
        have := ((hRmem r).mp hr).1
        omega
      · intro hv
        obtain ⟨r, hrV, hrr, hb⟩ := hD.exists_root_above (par.length) v hv (by omega)
        exact ⟨r, (hRmem r).mpr ⟨hrV, hrr⟩, ((hgspec r ((hRmem r).mpr ⟨hrV, hrr⟩)).2 v).mpr hb⟩
    · rw [List.nodup_flatMap]
      refine ⟨fun r hr => (hgspec r hr).1, ?_⟩
      have hRnd : R.Nodup := (List.nodup_range).filter _
      refine (List.Nodup.pairwise_of_forall_ne hRnd ?_)
      intro r hr r' hr' hne v hv hv'
      have hb := ((hgspec r hr).2 v).mp hv
      have hb' := ((hgspec r' hr').2 v).mp hv'
      rcases below_chain hb hb' with h | h
      · exact hne (below_root ((hRmem r).mp hr).2 h).symm
      · exact hne (below_root ((hRmem r').mp hr').2 h)

theorem labelOf_none {n : Nat} {par : List Nat} (hD : Dendro n par) (v : Nat) (hv : v < n)
    (hroot : parFn par v = v) : labelOf par = none := by
  have hvV : v < par.length := lt_of_lt_of_le hv hD.n_le
  have hmem : v ∈ (List.range par.length).filter (fun v => par.getD v v == v) := by
    rw [List.mem_filter, List.mem_range]
    exact ⟨hvV, beq_iff_eq.mpr hroot⟩
  have hnone : inorder par true (par.length + 1) v = none := by
    rw [inorder_succ, kidsOf_eq_childrenOf, hD.childrenOf_item hv]; rfl
  unfold labelOf
  rw [labelOrder_eq, foldl_labelStep_refused par _ v hmem hnone]
  rfl

end NipyVerif.C14
