/-
C01 — lemmas about the second model file: equality / `equivalent`, class constructors, dtype lattice.
-/
import NipyVerif.Model.C01B
import NipyVerif.Lemmas.C01B

namespace NipyVerif.C01
open Finset

/-! ### `==` and `equivalent` -/

theorem rabs_zero : rabs 0 = 0 := by simp [rabs]

theorem rabs_nonneg (q : Rat) : 0 ≤ rabs q := by
  unfold rabs
  split_ifs with h
  · linarith
  · linarith

theorem closeTo_self (x : Rat) : closeTo x x = true := by
  unfold closeTo
  simp only [sub_self, rabs_zero, decide_eq_true_eq]
  have := rabs_nonneg x
  positivity

theorem bget_eq {m : Mat} {r c i j : Nat} (hs : shapeOK m r c = true) (hr : 0 < r) (hi : i < r) (hj : j < c) :
    m.bget i j = m.get i j := by
  unfold shapeOK at hs
  simp only [Bool.and_eq_true, beq_iff_eq, List.all_eq_true] at hs
  have hrows : m.rows = r := hs.1
  have hcols : m.cols = c := by
    unfold Mat.cols
    cases m with
    | nil => simp at hs; omega
    | cons a t => simpa using hs.2 a (by simp)
  unfold Mat.bget
  rw [hrows, hcols]
  split_ifs with h1 h2 h2
  · have : i = 0 := by omega
    have : j = 0 := by omega
    subst_vars; rfl
  · have : i = 0 := by omega
    subst_vars; rfl
  · have : j = 0 := by omega
    subst_vars; rfl
  · rfl

theorem shapeOK_dims {m : Mat} {r c : Nat} (hs : shapeOK m r c = true) (hr : 0 < r) :
    m.rows = r ∧ m.cols = c := by
  unfold shapeOK at hs
  simp only [Bool.and_eq_true, beq_iff_eq, List.all_eq_true] at hs
  refine ⟨hs.1, ?_⟩
  unfold Mat.cols
  cases m with
  | nil => simp at hs; omega
  | cons a t => simpa using hs.2 a (by simp)

/-- what `matAll2` gives for two matrices of the same (declared) shape -/
theorem matAll2_same_shape {a b : Mat} {r c : Nat} {p : Rat → Rat → Bool} {v : Bool}
    (ha : shapeOK a r c = true) (hb : shapeOK b r c = true) (hr : 0 < r)
    (h : matAll2 a b p = .ok v) :
    v = true ↔ ∀ i j, i < r → j < c → p (a.get i j) (b.get i j) = true := by
  obtain ⟨ar, ac⟩ := shapeOK_dims ha hr
  obtain ⟨br, bc⟩ := shapeOK_dims hb hr
  unfold matAll2 at h
  rw [ar, ac, br, bc] at h
  simp only [bcastDim, if_true, Except.ok.injEq] at h
  rw [← h]
  simp only [List.all_eq_true, List.mem_range]
  constructor
  · intro hall i j hi hj
    have := hall i hi j hj
    rwa [bget_eq ha hr hi hj, bget_eq hb hr hi hj] at this
  · intro hall i hi j hj
    rw [bget_eq ha hr hi hj, bget_eq hb hr hi hj]
    exact hall i j hi hj

theorem csSimilar_names {a b : CoordSys} (h : csSimilar a b = true) : a.names = b.names := by
  unfold csSimilar at h
  simp only [Bool.and_eq_true, decide_eq_true_eq] at h
  exact h.1

theorem csEq_names {a b : CoordSys} (h : csEq a b = true) : a.names = b.names := by
  unfold csEq at h
  simp only [Bool.and_eq_true] at h
  exact csSimilar_names h.1

/-- `A == B` returning `True` means: same coordinate names on both sides and every entry close
    (within `np.allclose`'s window); entries that are equal are of course close -/
theorem affEq_true {A B : Aff} (hsa : shapeOK A.aff (A.nout + 1) (A.nin + 1) = true)
    (hsb : shapeOK B.aff (B.nout + 1) (B.nin + 1) = true) (h : affEq A B = .ok true) :
    A.dom.names = B.dom.names ∧ A.rng.names = B.rng.names ∧
    (A.nin = B.nin → A.nout = B.nout →
      ∀ i j, i ≤ B.nout → j ≤ B.nin → closeTo (A.aff.get i j) (B.aff.get i j) = true) := by
  unfold affEq at h
  cases hm : matAll2 A.aff B.aff (fun x y => x == y) with
  | error e => rw [hm] at h; cases h
  | ok same =>
      rw [hm] at h
      simp only at h
      have key : (csEq A.dom B.dom && csEq A.rng B.rng) = true →
          A.dom.names = B.dom.names ∧ A.rng.names = B.rng.names := by
        intro hc
        simp only [Bool.and_eq_true] at hc
        exact ⟨csEq_names hc.1, csEq_names hc.2⟩
      by_cases hs : same = true
      · rw [if_pos hs] at h
        simp only [Except.ok.injEq] at h
        obtain ⟨n1, n2⟩ := key h
        refine ⟨n1, n2, fun e1 e2 i j hi hj => ?_⟩
        rw [e1, e2] at hsa
        have := (matAll2_same_shape hsa hsb (Nat.succ_pos _) hm).mp hs i j (by omega) (by omega)
        simp only [beq_iff_eq] at this
        rw [this]
        exact closeTo_self _
      · rw [if_neg hs] at h
        split_ifs at h with hobj
        cases hc : matClose A.aff B.aff with
        | error e => rw [hc] at h; cases h
        | ok cl =>
            rw [hc] at h
            cases cl with
            | false => simp at h
            | true =>
                simp only [Except.ok.injEq] at h
                obtain ⟨n1, n2⟩ := key h
                refine ⟨n1, n2, fun e1 e2 i j hi hj => ?_⟩
                rw [e1, e2] at hsa
                exact (matAll2_same_shape hsa hsb (Nat.succ_pos _) hc).mp rfl i j (by omega) (by omega)

/-- reading a list along a permutation of its indices permutes it -/
theorem perm_map_getD {α} {n : Nat} {ord : List Nat} (l : List α) (d : α) (hl : l.length = n)
    (hp : ord.Perm (List.range n)) : (ord.map fun k => l.getD k d).Perm l := by
  have := hp.map (fun k => l.getD k d)
  rw [← hl, map_getD_range] at this
  exact this

/-! ### constructed maps are well shaped -/

/-- the matrix has `nout + 1` rows of `nin + 1` entries -/
def Aff.wellShaped (A : Aff) : Prop := shapeOK A.aff (A.nout + 1) (A.nin + 1) = true

theorem mkAff_shape {d r : CoordSys} {m : Mat} {dt : DType} {A : Aff} (h : mkAff d r m dt = .ok A) :
    A.wellShaped := by
  obtain ⟨_, _, m3, _, _, m6, _⟩ := mkAff_ok h
  obtain ⟨m4, m5⟩ := mkAff_nin h
  unfold Aff.wellShaped
  rw [m3, m4, m5]
  exact m6

theorem composeStep_shape {cur cm c : Aff} (h : composeStep cur cm = .ok c) : c.wellShaped := by
  unfold composeStep at h
  split_ifs at h
  exact mkAff_shape h

theorem composeFrom_shape (l : List Aff) : ∀ (cur C : Aff), composeFrom cur l = .ok C →
    cur.wellShaped → C.wellShaped := by
  induction l with
  | nil =>
      intro cur C h hc
      simp only [composeFrom, Except.ok.injEq] at h
      subst h
      exact hc
  | cons cm rest ih =>
      intro cur C h _
      simp only [composeFrom] at h
      cases hs : composeStep cur cm with
      | error e => rw [hs] at h; cases h
      | ok c =>
          rw [hs] at h
          exact ih c C h (composeStep_shape hs)

theorem composeList_shape {l : List Aff} {C : Aff} (h : composeList l = .ok C) : C.wellShaped := by
  unfold composeList at h
  cases hr : l.reverse with
  | nil => rw [hr] at h; cases h
  | cons last rest =>
      rw [hr] at h
      simp only at h
      cases hi : mkAff last.dom last.dom (idMat (last.nin + 1)) last.dtype with
      | error e => rw [hi] at h; cases h
      | ok i0 =>
          rw [hi] at h
          exact composeFrom_shape _ _ _ h (mkAff_shape hi)

theorem reorderedRange_shape {A B : Aff} {o : Order} (h : reorderedRange A o = .ok B) : B.wellShaped := by
  unfold reorderedRange at h
  cases hcs : reorderCS A.rng o with
  | error e => rw [hcs] at h; cases h
  | ok p =>
      obtain ⟨ord, ncs⟩ := p
      rw [hcs] at h
      simp only at h
      split_ifs at h with hid
      · exact mkAff_shape h
      · cases hm : mkAff A.rng ncs (transposeMat (A.nout + 1) (permMat A.nout ord)) A.rng.dtype with
        | error e => rw [hm] at h; cases h
        | ok Pm =>
            rw [hm] at h
            exact composeList_shape h

/-! ### class constructors -/

theorem rows_mkMat (r c : Nat) (f : Nat → Nat → Rat) : (mkMat r c f).rows = r := by
  simp [Mat.rows, mkMat]

theorem cols_mkMat_sq (n : Nat) (f : Nat → Nat → Rat) : (mkMat n n f).cols = n := by
  cases n with
  | zero => simp [Mat.cols, mkMat]
  | succ k => simp [Mat.cols, mkMat, List.range_succ_eq_map]

/-- `from_start_step`: the diagonal map `yᵢ = stepᵢ·xᵢ + vᵢ`, where `v` is the start vector *after*
    its assignment into the dtype of `np.diag(step)` -/
theorem fromStartStep_apply' {inn outn : List String} {start step : List Rat} {sdt : DType}
    {dn rn : String} {B : Aff} (h : fromStartStep inn outn start step sdt dn rn = .ok B) :
    ∃ v, bcastInto inn.length sdt start = .ok v ∧ step.length = inn.length ∧
      B.dom.names = inn ∧ B.rng.names = outn ∧ B.dom.name = dn ∧ B.rng.name = rn ∧ B.bottomExact ∧
      ∀ x, B.apply x = (List.range inn.length).map fun i => step.getD i 0 * x.getD i 0 + v.getD i 0 := by
  unfold fromStartStep at h
  split_ifs at h with hlen
  simp only [not_not] at hlen
  unfold fromParamsMV fromMatvec at h
  simp only [diagMat, rows_mkMat, cols_mkMat_sq] at h
  cases hv : bcastInto step.length sdt start with
  | error e => rw [hv] at h; cases h
  | ok v =>
      rw [hv] at h
      simp only at h
      unfold fromParams at h
      split_ifs at h with hshape
      simp only [Bool.not_eq_false] at hshape
      obtain ⟨e1, e2⟩ := shapeOK_mkMat _ (Nat.succ_pos _) hshape
      have hn : step.length = inn.length := by omega
      cases hd : mkCS inn dn .f8 with
      | error e => rw [hd] at h; cases h
      | ok d =>
          rw [hd] at h
          simp only at h
          cases hr : mkCS outn rn .f8 with
          | error e => rw [hr] at h; cases h
          | ok r =>
              rw [hr] at h
              simp only at h
              obtain ⟨rfl, _⟩ := mkCS_ok hd
              obtain ⟨rfl, _⟩ := mkCS_ok hr
              obtain ⟨m1, m2, m3, _⟩ := mkAff_ok h
              obtain ⟨m4, m5⟩ := mkAff_nin h
              simp only at m4 m5
              have hent : ∀ i j, i ≤ inn.length → j ≤ inn.length → B.aff.get i j =
                  if i = inn.length then (if j = inn.length then 1 else 0)
                  else if j = inn.length then v.getD i 0
                  else if i = j then step.getD i 0 else 0 := by
                intro i j hi hj
                rw [m3, get_mkMat _ (by omega) (by omega), hn]
                by_cases a : i = inn.length
                · rw [if_pos a, if_pos a]
                · by_cases b : j = inn.length
                  · rw [if_neg a, if_pos b, if_neg a, if_pos b]
                  · rw [if_neg a, if_neg b, if_neg a, if_neg b, get_mkMat _ (by omega) (by omega)]
              refine ⟨v, by rw [← hn]; exact hv, hn, by simp [m1], by simp [m2], by simp [m1], by simp [m2],
                ⟨?_, ?_⟩, fun x => ?_⟩
              · intro j hj
                rw [m4] at hj
                rw [m5, hlen, hent _ j le_rfl (by omega), if_pos rfl, if_neg (by omega)]
              · rw [m5, m4, hlen, hent _ _ le_rfl le_rfl, if_pos rfl, if_pos rfl]
              · apply list_eq_of_getD (by rw [apply_length, m5, hlen]; simp)
                intro i hi
                simp only [List.length_map, List.length_range] at hi
                rw [getD_map_range _ hi, apply_getD B x (by rw [m5, hlen]; exact hi), m4,
                  hent i _ (by omega) le_rfl, if_neg (by omega), if_pos rfl, sumTo_eq_sum,
                  Finset.sum_eq_single i]
                · rw [hent i i (by omega) (by omega), if_neg (by omega), if_neg (by omega), if_pos rfl]
                · intro b hb hne
                  have := Finset.mem_range.mp hb
                  rw [hent i b (by omega) (by omega), if_neg (by omega), if_neg (by omega),
                    if_neg (Ne.symm hne), zero_mul]
                · intro hni
                  exact absurd (Finset.mem_range.mpr hi) hni

/-! ### enumeration of the dtypes -/

def DType.all : List DType :=
  [.b1, .i1, .i2, .i4, .i8, .u1, .u2, .u4, .u8, .f2, .f4, .f8, .c8, .c16, .obj, .txt]

theorem DType.mem_all (d : DType) : d ∈ DType.all := by
  cases d <;> simp [DType.all]


end NipyVerif.C01
