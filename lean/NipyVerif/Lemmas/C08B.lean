/- Helper lemmas for the second part of C08: rotations and quaternions (every rotation matrix has a
   rational quaternion; the `mat2quat` matrix `K` is `(4 p pᵀ / |p|² − I) / 3`), the
   half-angle form of Rodrigues' formula, polyaffine combinations, slices. -/
import NipyVerif.Lemmas.C08
import NipyVerif.Model.C08B
import Mathlib.Tactic.NormNum

namespace NipyVerif.C08

macro "q4_simp" : tactic =>
  `(tactic| simp only [Q4.neg, Q4.smul, Q4.sdiv, Q4.sub, Q4.dot, Q4.normSq, Q4.vec, Q4.toMat, Q4.zero, kApply])

/-! ### facts about proper rotations -/

theorem M3.smul_one_one : M3.smul 1 M3.one = M3.one := by
  apply M3.ext <;> m3_simp <;> ring

/-- for a proper rotation the transpose is the adjugate (cofactor identities) -/
theorem M3.transpose_eq_adj (R : M3) (hR : R.IsRotation) : R.transpose = R.adj := by
  have h1 := M3.mul_adj R
  rw [hR.2, M3.smul_one_one] at h1
  calc R.transpose = R.transpose.mul M3.one := (M3.mul_one _).symm
    _ = R.transpose.mul (R.mul R.adj) := by rw [h1]
    _ = (R.transpose.mul R).mul R.adj := (M3.mul_assoc _ _ _).symm
    _ = R.adj := by rw [hR.1, M3.one_mul]

theorem M3.mul_transpose_self (R : M3) (hR : R.IsRotation) : R.mul R.transpose = M3.one := by
  rw [M3.transpose_eq_adj R hR, M3.mul_adj, hR.2, M3.smul_one_one]

set_option hygiene false in
/-- the 27 scalar identities of a proper rotation: `gᵢⱼ` (`RᵀR = I`), `hᵢⱼ` (`RRᵀ = I`),
    `cᵢⱼ` (`adj R = Rᵀ`) -/
macro "rot_scalars " h:ident : tactic =>
  `(tactic| (
    have G := ($h).1
    have H := M3.mul_transpose_self _ $h
    have C := (M3.transpose_eq_adj _ $h).symm
    have g11 := congrArg M3.a11 G; have g12 := congrArg M3.a12 G; have g13 := congrArg M3.a13 G
    have g21 := congrArg M3.a21 G; have g22 := congrArg M3.a22 G; have g23 := congrArg M3.a23 G
    have g31 := congrArg M3.a31 G; have g32 := congrArg M3.a32 G; have g33 := congrArg M3.a33 G
    have h11 := congrArg M3.a11 H; have h12 := congrArg M3.a12 H; have h13 := congrArg M3.a13 H
    have h21 := congrArg M3.a21 H; have h22 := congrArg M3.a22 H; have h23 := congrArg M3.a23 H
    have h31 := congrArg M3.a31 H; have h32 := congrArg M3.a32 H; have h33 := congrArg M3.a33 H
    have c11 := congrArg M3.a11 C; have c12 := congrArg M3.a12 C; have c13 := congrArg M3.a13 C
    have c21 := congrArg M3.a21 C; have c22 := congrArg M3.a22 C; have c23 := congrArg M3.a23 C
    have c31 := congrArg M3.a31 C; have c32 := congrArg M3.a32 C; have c33 := congrArg M3.a33 C
    simp only [M3.mul, M3.transpose, M3.one, M3.adj] at g11 g12 g13 g21 g22 g23 g31 g32 g33 h11 h12 h13 h21 h22 h23 h31 h32 h33 c11 c12 c13 c21 c22 c23 c31 c32 c33
    clear G H C))

/-- candidate quaternion 0 of a rotation matrix (column of `3K + I`) -/
def quatCand0 (R : M3) : Q4 := ⟨1 + R.a11 + R.a22 + R.a33, R.a32 - R.a23, R.a13 - R.a31, R.a21 - R.a12⟩
def quatLead0 (R : M3) : Rat := 1 + R.a11 + R.a22 + R.a33
theorem quatCand0_normSq (R : M3) (hR : R.IsRotation) : (quatCand0 R).normSq = 4 * quatLead0 R := by
  rot_scalars hR
  simp only [quatCand0, quatLead0, Q4.normSq, Q4.dot]
  linear_combination (1) * g11 + (1) * g22 + (1) * g33 + (2) * c11 + (2) * c22 + (2) * c33
theorem quatCand0_toMat (R : M3) (hR : R.IsRotation) : (quatCand0 R).toMat = M3.smul (4 * quatLead0 R) R := by
  rot_scalars hR
  simp only [quatCand0, quatLead0, Q4.toMat, M3.smul]
  apply M3.ext <;> simp only []
  · linear_combination (-1) * g11 + (1) * g22 + (1) * g33 + (-2) * h11 + (2) * c11 + (-2) * c22 + (-2) * c33
  · linear_combination (-2) * g12 + (-2) * h12 + (2) * c12 + (2) * c21
  · linear_combination (-2) * g13 + (-2) * h13 + (2) * c13 + (2) * c31
  · linear_combination (-2) * g12 + (-2) * h12 + (2) * c12 + (2) * c21
  · linear_combination (1) * g11 + (-1) * g22 + (1) * g33 + (-2) * h22 + (-2) * c11 + (2) * c22 + (-2) * c33
  · linear_combination (-2) * g23 + (-2) * h23 + (2) * c23 + (2) * c32
  · linear_combination (-2) * g13 + (-2) * h13 + (2) * c13 + (2) * c31
  · linear_combination (-2) * g23 + (-2) * h23 + (2) * c23 + (2) * c32
  · linear_combination (-1) * g11 + (-1) * g22 + (-3) * g33 + (2) * h11 + (2) * h22 + (-2) * c11 + (-2) * c22 + (2) * c33

/-- candidate quaternion 1 of a rotation matrix (column of `3K + I`) -/
def quatCand1 (R : M3) : Q4 := ⟨R.a32 - R.a23, 1 + R.a11 - R.a22 - R.a33, R.a12 + R.a21, R.a13 + R.a31⟩
def quatLead1 (R : M3) : Rat := 1 + R.a11 - R.a22 - R.a33
theorem quatCand1_normSq (R : M3) (hR : R.IsRotation) : (quatCand1 R).normSq = 4 * quatLead1 R := by
  rot_scalars hR
  simp only [quatCand1, quatLead1, Q4.normSq, Q4.dot]
  linear_combination (1) * g11 + (1) * g22 + (1) * g33 + (2) * c11 + (-2) * c22 + (-2) * c33
theorem quatCand1_toMat (R : M3) (hR : R.IsRotation) : (quatCand1 R).toMat = M3.smul (4 * quatLead1 R) R := by
  rot_scalars hR
  simp only [quatCand1, quatLead1, Q4.toMat, M3.smul]
  apply M3.ext <;> simp only []
  · linear_combination (-1) * g11 + (1) * g22 + (1) * g33 + (-2) * h11 + (2) * c11 + (2) * c22 + (2) * c33
  · linear_combination (-2) * g12 + (2) * h12 + (-2) * c12 + (2) * c21
  · linear_combination (-2) * g13 + (2) * h13 + (-2) * c13 + (2) * c31
  · linear_combination (2) * g12 + (-2) * h12 + (2) * c12 + (-2) * c21
  · linear_combination (-1) * g11 + (1) * g22 + (-1) * g33 + (2) * h22 + (2) * c11 + (2) * c22 + (-2) * c33
  · linear_combination (2) * g23 + (2) * h23 + (2) * c23 + (2) * c32
  · linear_combination (2) * g13 + (-2) * h13 + (2) * c13 + (-2) * c31
  · linear_combination (2) * g23 + (2) * h23 + (2) * c23 + (2) * c32
  · linear_combination (1) * g11 + (1) * g22 + (3) * g33 + (-2) * h11 + (-2) * h22 + (2) * c11 + (-2) * c22 + (2) * c33

/-- candidate quaternion 2 of a rotation matrix (column of `3K + I`) -/
def quatCand2 (R : M3) : Q4 := ⟨R.a13 - R.a31, R.a12 + R.a21, 1 - R.a11 + R.a22 - R.a33, R.a23 + R.a32⟩
def quatLead2 (R : M3) : Rat := 1 - R.a11 + R.a22 - R.a33
theorem quatCand2_normSq (R : M3) (hR : R.IsRotation) : (quatCand2 R).normSq = 4 * quatLead2 R := by
  rot_scalars hR
  simp only [quatCand2, quatLead2, Q4.normSq, Q4.dot]
  linear_combination (1) * g11 + (1) * g22 + (1) * g33 + (-2) * c11 + (2) * c22 + (-2) * c33
theorem quatCand2_toMat (R : M3) (hR : R.IsRotation) : (quatCand2 R).toMat = M3.smul (4 * quatLead2 R) R := by
  rot_scalars hR
  simp only [quatCand2, quatLead2, Q4.toMat, M3.smul]
  apply M3.ext <;> simp only []
  · linear_combination (1) * g11 + (-1) * g22 + (-1) * g33 + (2) * h11 + (2) * c11 + (2) * c22 + (-2) * c33
  · linear_combination (2) * g12 + (-2) * h12 + (-2) * c12 + (2) * c21
  · linear_combination (2) * g13 + (2) * h13 + (2) * c13 + (2) * c31
  · linear_combination (-2) * g12 + (2) * h12 + (2) * c12 + (-2) * c21
  · linear_combination (1) * g11 + (-1) * g22 + (1) * g33 + (-2) * h22 + (2) * c11 + (2) * c22 + (2) * c33
  · linear_combination (-2) * g23 + (2) * h23 + (-2) * c23 + (2) * c32
  · linear_combination (2) * g13 + (2) * h13 + (2) * c13 + (2) * c31
  · linear_combination (2) * g23 + (-2) * h23 + (2) * c23 + (-2) * c32
  · linear_combination (1) * g11 + (1) * g22 + (3) * g33 + (-2) * h11 + (-2) * h22 + (-2) * c11 + (2) * c22 + (2) * c33

/-- candidate quaternion 3 of a rotation matrix (column of `3K + I`) -/
def quatCand3 (R : M3) : Q4 := ⟨R.a21 - R.a12, R.a13 + R.a31, R.a23 + R.a32, 1 - R.a11 - R.a22 + R.a33⟩
def quatLead3 (R : M3) : Rat := 1 - R.a11 - R.a22 + R.a33
theorem quatCand3_normSq (R : M3) (hR : R.IsRotation) : (quatCand3 R).normSq = 4 * quatLead3 R := by
  rot_scalars hR
  simp only [quatCand3, quatLead3, Q4.normSq, Q4.dot]
  linear_combination (1) * g11 + (1) * g22 + (1) * g33 + (-2) * c11 + (-2) * c22 + (2) * c33
theorem quatCand3_toMat (R : M3) (hR : R.IsRotation) : (quatCand3 R).toMat = M3.smul (4 * quatLead3 R) R := by
  rot_scalars hR
  simp only [quatCand3, quatLead3, Q4.toMat, M3.smul]
  apply M3.ext <;> simp only []
  · linear_combination (1) * g11 + (-1) * g22 + (-1) * g33 + (2) * h11 + (2) * c11 + (-2) * c22 + (2) * c33
  · linear_combination (2) * g12 + (2) * h12 + (2) * c12 + (2) * c21
  · linear_combination (2) * g13 + (-2) * h13 + (-2) * c13 + (2) * c31
  · linear_combination (2) * g12 + (2) * h12 + (2) * c12 + (2) * c21
  · linear_combination (-1) * g11 + (1) * g22 + (-1) * g33 + (2) * h22 + (-2) * c11 + (2) * c22 + (2) * c33
  · linear_combination (2) * g23 + (-2) * h23 + (-2) * c23 + (2) * c32
  · linear_combination (-2) * g13 + (2) * h13 + (2) * c13 + (-2) * c31
  · linear_combination (-2) * g23 + (2) * h23 + (2) * c23 + (-2) * c32
  · linear_combination (-1) * g11 + (-1) * g22 + (-3) * g33 + (2) * h11 + (2) * h22 + (2) * c11 + (2) * c22 + (2) * c33

/-! ### quaternion algebra -/

namespace Q4

theorem normSq_nonneg (q : Q4) : 0 ≤ q.normSq := by
  simp only [normSq, dot]
  have h1 := mul_self_nonneg q.w; have h2 := mul_self_nonneg q.x
  have h3 := mul_self_nonneg q.y; have h4 := mul_self_nonneg q.z
  linarith

theorem eq_zero_of_normSq (q : Q4) (h : q.normSq = 0) : q = zero := by
  simp only [normSq, dot] at h
  have h1 := mul_self_nonneg q.w; have h2 := mul_self_nonneg q.x
  have h3 := mul_self_nonneg q.y; have h4 := mul_self_nonneg q.z
  have hw : q.w * q.w = 0 := by linarith
  have hx : q.x * q.x = 0 := by linarith
  have hy : q.y * q.y = 0 := by linarith
  have hz : q.z * q.z = 0 := by linarith
  apply Q4.ext <;> simp only [zero]
  · exact mul_self_eq_zero.mp hw
  · exact mul_self_eq_zero.mp hx
  · exact mul_self_eq_zero.mp hy
  · exact mul_self_eq_zero.mp hz

theorem normSq_pos (q : Q4) (h : q ≠ zero) : 0 < q.normSq :=
  lt_of_le_of_ne (normSq_nonneg q) (fun h0 => h (eq_zero_of_normSq q h0.symm))

theorem toMat_neg (q : Q4) : q.neg.toMat = q.toMat := by
  apply M3.ext <;> q4_simp <;> ring

theorem normSq_neg (q : Q4) : q.neg.normSq = q.normSq := by q4_simp; ring

theorem toMat_smul (c : Rat) (q : Q4) : (smul c q).toMat = M3.smul (c * c) q.toMat := by
  apply M3.ext <;> q4_simp <;> m3_simp <;> ring

theorem normSq_smul (c : Rat) (q : Q4) : (smul c q).normSq = c * c * q.normSq := by q4_simp; ring

theorem sdiv_eq_smul (q : Q4) (c : Rat) : q.sdiv c = smul (1 / c) q := by
  apply Q4.ext <;> q4_simp <;> ring

end Q4

/-- `K` is linear in the matrix -/
theorem kApply_smul (c : Rat) (R : M3) (q : Q4) : kApply (M3.smul c R) q = Q4.smul c (kApply R q) := by
  apply Q4.ext <;> q4_simp <;> m3_simp <;> ring

/-- Bar-Itzhack: for the (homogeneous) matrix of a quaternion `p`, `3K + |p|² I = 4 p pᵀ` -/
theorem kApply_toMat (p q : Q4) :
    Q4.smul 3 (kApply p.toMat q) = (Q4.smul (4 * p.dot q) p).sub (Q4.smul p.normSq q) := by
  apply Q4.ext <;> q4_simp <;> ring

/-- every proper rotation matrix with rational entries has a non-zero rational quaternion -/
theorem rot_quat_exists (R : M3) (hR : R.IsRotation) :
    ∃ p : Q4, 0 < p.normSq ∧ p.toMat = M3.smul p.normSq R := by
  have hsum : quatLead0 R + quatLead1 R + quatLead2 R + quatLead3 R = 4 := by
    simp only [quatLead0, quatLead1, quatLead2, quatLead3]; ring
  have key : ∀ (p : Q4) (l : Rat), p.normSq = 4 * l → p.toMat = M3.smul (4 * l) R → l ≠ 0 →
      ∃ p : Q4, 0 < p.normSq ∧ p.toMat = M3.smul p.normSq R := by
    intro p l hn hm hl
    refine ⟨p, ?_, by rw [hn]; exact hm⟩
    have := Q4.normSq_nonneg p
    rcases lt_or_eq_of_le this with h | h
    · exact h
    · exfalso; apply hl; linarith
  by_cases h0 : quatLead0 R = 0
  · by_cases h1 : quatLead1 R = 0
    · by_cases h2 : quatLead2 R = 0
      · have h3 : quatLead3 R ≠ 0 := by intro h3; rw [h0, h1, h2, h3] at hsum; norm_num at hsum
        exact key _ _ (quatCand3_normSq R hR) (quatCand3_toMat R hR) h3
      · exact key _ _ (quatCand2_normSq R hR) (quatCand2_toMat R hR) h2
    · exact key _ _ (quatCand1_normSq R hR) (quatCand1_toMat R hR) h1
  · exact key _ _ (quatCand0_normSq R hR) (quatCand0_toMat R hR) h0

/-- the quaternion of a rotation is a fixed vector of `K` -/
theorem kApply_quat (R : M3) (p : Q4) (hN : 0 < p.normSq) (hp : p.toMat = M3.smul p.normSq R) :
    kApply R p = p := by
  have h := kApply_toMat p p
  rw [hp, kApply_smul] at h
  have hN' : p.normSq ≠ 0 := ne_of_gt hN
  have e : p.dot p = p.normSq := rfl
  have hw := congrArg Q4.w h; have hx := congrArg Q4.x h
  have hy := congrArg Q4.y h; have hz := congrArg Q4.z h
  simp only [Q4.smul, Q4.sub, e] at hw hx hy hz
  apply Q4.ext
  · have : p.normSq * ((kApply R p).w - p.w) = 0 := by linear_combination (1 / 3 : Rat) * hw
    rcases mul_eq_zero.mp this with h0 | h0
    · exact absurd h0 hN'
    · linarith
  · have : p.normSq * ((kApply R p).x - p.x) = 0 := by linear_combination (1 / 3 : Rat) * hx
    rcases mul_eq_zero.mp this with h0 | h0
    · exact absurd h0 hN'
    · linarith
  · have : p.normSq * ((kApply R p).y - p.y) = 0 := by linear_combination (1 / 3 : Rat) * hy
    rcases mul_eq_zero.mp this with h0 | h0
    · exact absurd h0 hN'
    · linarith
  · have : p.normSq * ((kApply R p).z - p.z) = 0 := by linear_combination (1 / 3 : Rat) * hz
    rcases mul_eq_zero.mp this with h0 | h0
    · exact absurd h0 hN'
    · linarith

/-- an eigenvector of `K(R)` for an eigenvalue other than `−1/3` is a quaternion of the rotation `R` -/
theorem eig_is_quat (R : M3) (hR : R.IsRotation) (q : Q4) (lam : Rat)
    (heig : kApply R q = Q4.smul lam q) (hlam : 3 * lam + 1 ≠ 0) :
    q.toMat = M3.smul q.normSq R := by
  obtain ⟨p, hN, hp⟩ := rot_quat_exists R hR
  have hN' : p.normSq ≠ 0 := ne_of_gt hN
  have h := kApply_toMat p q
  rw [hp, kApply_smul, heig] at h
  -- q = κ p
  set κ : Rat := 4 * p.dot q / (p.normSq * (3 * lam + 1)) with hκ
  have hden : p.normSq * (3 * lam + 1) ≠ 0 := mul_ne_zero hN' hlam
  have hq : q = Q4.smul κ p := by
    have hw := congrArg Q4.w h; have hx := congrArg Q4.x h
    have hy := congrArg Q4.y h; have hz := congrArg Q4.z h
    simp only [Q4.smul, Q4.sub] at hw hx hy hz
    apply Q4.ext <;> simp only [Q4.smul, hκ] <;> field_simp
    · linear_combination hw
    · linear_combination hx
    · linear_combination hy
    · linear_combination hz
  rw [hq, Q4.toMat_smul, Q4.normSq_smul, hp]
  apply M3.ext <;> m3_simp <;> ring

/-- the largest eigenvalue of `K(R)` is at least 1 (the quaternion is an eigenvector for 1) -/
theorem top_eig_ge_one (R : M3) (hR : R.IsRotation) (lam : Rat)
    (hmax : ∀ (v : Q4) (μ : Rat), v ≠ Q4.zero → kApply R v = Q4.smul μ v → μ ≤ lam) : 1 ≤ lam := by
  obtain ⟨p, hN, hp⟩ := rot_quat_exists R hR
  have hp0 : p ≠ Q4.zero := by
    intro h0; rw [h0] at hN; simp [Q4.normSq, Q4.dot, Q4.zero] at hN
  apply hmax p 1 hp0
  rw [kApply_quat R p hN hp]
  apply Q4.ext <;> simp [Q4.smul]


/-! ### certificates of the leaves of `rotation_mat2vec` -/

/-- exact certificates of the external numerics of one `rotation_mat2vec(R)` call: the
    eigen-pair returned by `eigh` / `argmax` (`K q = λ q`, `λ` maximal), the two rounded sums
    and the two square roots -/
structure Mat2VecCert (R : M3) (e : QExt) : Prop where
  eig : kApply R e.q = Q4.smul e.lam e.q
  nonzero : e.q ≠ Q4.zero
  top : ∀ (v : Q4) (μ : Rat), v ≠ Q4.zero → kApply R v = Q4.smul μ v → μ ≤ e.lam
  nq : e.nq = (mat2quat e).normSq
  sN : e.nq ≠ 1 → e.sN * e.sN = e.nq ∧ 0 < e.sN
  len2 : e.len2 = (quatNormalized e).vec.dot (quatNormalized e).vec
  sL : e.sL * e.sL = e.len2 ∧ 0 ≤ e.sL

/-- certificate of `acos`: `(ch, sh)` are the cosine and sine of the returned angle `e.ac ∈ [0, π]` -/
structure AcosCert (e : QExt) (ch sh : Rat) : Prop where
  cos : ch = clamp1 (quatNormalized e).w
  circle : ch * ch + sh * sh = 1
  sin_nonneg : 0 ≤ sh
  ac_nonneg : 0 ≤ e.ac

theorem clamp1_id (w : Rat) (h0 : -1 ≤ w) (h1 : w ≤ 1) : clamp1 w = w := by
  unfold clamp1
  simp only [h1, if_true]
  split_ifs with h
  · rfl
  · exact absurd h0 (by simpa using h)

theorem mat2quat_toMat (e : QExt) : (mat2quat e).toMat = e.q.toMat := by
  unfold mat2quat; split_ifs
  · exact Q4.toMat_neg _
  · rfl

theorem mat2quat_normSq (e : QExt) : (mat2quat e).normSq = e.q.normSq := by
  unfold mat2quat; split_ifs
  · exact Q4.normSq_neg _
  · rfl

theorem mat2quat_w_nonneg (e : QExt) : 0 ≤ (mat2quat e).w := by
  unfold mat2quat; split_ifs with h
  · simp only [Q4.neg]; linarith
  · linarith [not_lt.mp h]

/-- what `mat2quat` + normalisation produce under the certificates: a unit quaternion of `R`
    with non-negative `w` -/
theorem quatNormalized_spec (R : M3) (hR : R.IsRotation) (e : QExt) (C : Mat2VecCert R e) :
    (quatNormalized e).normSq = 1 ∧ (quatNormalized e).toMat = R ∧ 0 ≤ (quatNormalized e).w := by
  have hlam : 3 * e.lam + 1 ≠ 0 := by
    have := top_eig_ge_one R hR e.lam C.top
    intro h; linarith
  have hq := eig_is_quat R hR e.q e.lam C.eig hlam
  have hpos : 0 < e.q.normSq := Q4.normSq_pos _ C.nonzero
  have hnq : e.nq = e.q.normSq := by rw [C.nq, mat2quat_normSq]
  have hm : (mat2quat e).toMat = M3.smul e.nq R := by rw [mat2quat_toMat, hq, hnq]
  unfold quatNormalized
  by_cases h1 : e.nq = 1
  · simp only [h1, if_true]
    refine ⟨by rw [← C.nq, h1], ?_, mat2quat_w_nonneg e⟩
    rw [hm, h1]
    apply M3.ext <;> m3_simp <;> ring
  · simp only [h1, if_false]
    obtain ⟨hs, hs0⟩ := C.sN h1
    have hs' : e.sN ≠ 0 := ne_of_gt hs0
    refine ⟨?_, ?_, ?_⟩
    · rw [Q4.sdiv_eq_smul, Q4.normSq_smul, ← C.nq, ← hs]; field_simp
    · rw [Q4.sdiv_eq_smul, Q4.toMat_smul, hm, ← hs]
      apply M3.ext <;> m3_simp <;> field_simp
    · simp only [Q4.sdiv]
      exact div_nonneg (mat2quat_w_nonneg e) (le_of_lt hs0)

/-- Rodrigues' formula in half-angle form is the quaternion-to-matrix map: unit axis `n`,
    `sin θ = 2 L w`, `cos θ = w² − L²` for the unit quaternion `(w, L n)` -/
theorem rodrigues_half_axis (n : V3) (w L : Rat) (hn : n.dot n = 1) (hunit : w * w + L * L = 1) :
    rodrigues n (2 * L * w) (w * w - L * L) = (⟨w, L * n.x, L * n.y, L * n.z⟩ : Q4).toMat := by
  simp only [V3.dot] at hn
  unfold rodrigues
  apply M3.ext <;> q4_simp <;> m3_simp
  · linear_combination (-(n.x * n.x)) * hunit + (-(1 - w * w)) * hn
  · linear_combination (-(n.x * n.y)) * hunit
  · linear_combination (-(n.x * n.z)) * hunit
  · linear_combination (-(n.x * n.y)) * hunit
  · linear_combination (-(n.y * n.y)) * hunit + (-(1 - w * w)) * hn
  · linear_combination (-(n.y * n.z)) * hunit
  · linear_combination (-(n.x * n.z)) * hunit
  · linear_combination (-(n.y * n.z)) * hunit
  · linear_combination (-(n.z * n.z)) * hunit + (-(1 - w * w)) * hn

theorem sdiv_dot_self (v : V3) (L : Rat) (hL : L ≠ 0) (hL2 : L * L = v.dot v) :
    (v.sdiv L).dot (v.sdiv L) = 1 := by
  simp only [V3.dot, V3.sdiv] at hL2 ⊢
  field_simp
  linear_combination -hL2

/-- the same with the axis written `v / L`, `L = |v|`, as `quat2axangle` returns it -/
theorem rodrigues_half (v : V3) (w L : Rat) (hL : L ≠ 0) (hL2 : L * L = v.dot v)
    (hunit : w * w + v.dot v = 1) :
    rodrigues (v.sdiv L) (2 * L * w) (w * w - L * L) = (⟨w, v.x, v.y, v.z⟩ : Q4).toMat := by
  rw [rodrigues_half_axis (v.sdiv L) w L (sdiv_dot_self v L hL hL2) (by rw [hL2]; exact hunit)]
  simp only [V3.sdiv]
  congr 1 <;> field_simp

theorem identityThresh_sq_pos : 0 < identityThresh * identityThresh := by
  unfold identityThresh floatEps; positivity

/-- facts available in the `axis` branch of `quat2axangle` under the certificates -/
theorem axis_branch_facts (R : M3) (hR : R.IsRotation) (e : QExt) (C : Mat2VecCert R e)
    (hb : qBranch e = .axis) (ch sh : Rat) (A : AcosCert e ch sh) :
    0 < e.sL ∧ ch = (quatNormalized e).w ∧ sh = e.sL ∧
      (quatNormalized e).w * (quatNormalized e).w + (quatNormalized e).vec.dot (quatNormalized e).vec = 1 := by
  obtain ⟨hn, _, hw⟩ := quatNormalized_spec R hR e C
  have hunit : (quatNormalized e).w * (quatNormalized e).w
      + (quatNormalized e).vec.dot (quatNormalized e).vec = 1 := by
    simpa [Q4.normSq, Q4.dot, Q4.vec, V3.dot, add_assoc] using hn
  have hlen : identityThresh * identityThresh ≤ e.len2 := by
    unfold qBranch at hb
    split_ifs at hb with h1 h2
    exact not_lt.mp h2
  have hlen_pos : 0 < e.len2 := lt_of_lt_of_le identityThresh_sq_pos hlen
  have hsL : 0 < e.sL := by
    rcases lt_or_eq_of_le C.sL.2 with h | h
    · exact h
    · exfalso; have := C.sL.1; rw [← h] at this; linarith
  have hvv : 0 ≤ (quatNormalized e).vec.dot (quatNormalized e).vec := by rw [← C.len2]; exact le_of_lt hlen_pos
  have hw1 : (quatNormalized e).w ≤ 1 := by nlinarith
  have hch : ch = (quatNormalized e).w := by rw [A.cos, clamp1_id _ (by linarith) hw1]
  refine ⟨hsL, hch, ?_, hunit⟩
  have : sh * sh = e.sL * e.sL := by rw [C.sL.1, C.len2]; rw [hch] at A; linarith [A.circle]
  have h2 : (sh - e.sL) * (sh + e.sL) = 0 := by linear_combination this
  rcases mul_eq_zero.mp h2 with h | h
  · linarith
  · have := A.sin_nonneg; linarith


/-- all certificates of one matrix → vector → matrix round trip: the leaves of
    `rotation_mat2vec(R)` (axis branch), the half angle, and the consistent evaluation `g` of
    `‖r‖`, `sin`, `cos` that `rotation_vec2mat` makes on the returned vector (Rodrigues branch) -/
structure RoundTripCert (R : M3) (e : QExt) (g : Trig) (ch sh : Rat) : Prop where
  leaves : Mat2VecCert R e
  axis : qBranch e = .axis
  acos : AcosCert e ch sh
  norm : g.theta * g.theta = (rotationMat2Vec e).dot (rotationMat2Vec e)
  sin2 : g.s = 2 * sh * ch
  cos2 : g.c = ch * ch - sh * sh
  small : smallAngle < g.theta
  big : g.theta ≤ maxAngle

theorem rotationVec2Mat_zero (g : Trig) (hg : g.theta = 0) : rotationVec2Mat V3.zero g = M3.one := by
  unfold rotationVec2Mat
  have h1 : ¬ g.theta > maxAngle := by rw [hg]; unfold maxAngle Gen.C08.maxAngle; norm_num
  have h2 : ¬ g.theta > smallAngle := by rw [hg]; exact not_lt.mpr (le_of_lt smallAngle_pos)
  rw [if_neg h1, if_neg h2, hg]
  unfold taylorRot
  apply M3.ext <;> m3_simp <;> norm_num

theorem M3.det_sdiv (a : M3) (c : Rat) (hc : c ≠ 0) : (a.sdiv c).det = a.det / c ^ 3 := by
  m3_simp; field_simp

theorem M3.neg_sdiv (a : M3) (c : Rat) : a.neg.sdiv c = (a.sdiv c).neg := by
  apply M3.ext <;> m3_simp <;> ring

theorem M3.diag_one_mul (a : M3) : (M3.diag ⟨1, 1, 1⟩).mul a = a := by
  apply M3.ext <;> m3_simp <;> ring

theorem M3.mul_diag_one (a : M3) : a.mul (M3.diag ⟨1, 1, 1⟩) = a := by
  apply M3.ext <;> m3_simp <;> ring

theorem M3.mul_diag_smul (a : M3) (c : Rat) : a.mul ((M3.diag ⟨c, c, c⟩).mul M3.one) = M3.smul c a := by
  apply M3.ext <;> m3_simp <;> ring


/-- the spectrum of `K(R)` for a proper rotation: `1` (the quaternion) and `−1/3` -/
theorem kApply_eigenvalues (R : M3) (hR : R.IsRotation) (v : Q4) (μ : Rat) (hv : v ≠ Q4.zero)
    (h : kApply R v = Q4.smul μ v) : μ = 1 ∨ μ = -1 / 3 := by
  by_cases hμ : 3 * μ + 1 = 0
  · right; linarith
  · left
    obtain ⟨p, hN, hp⟩ := rot_quat_exists R hR
    have hvq := eig_is_quat R hR v μ h hμ
    have hNv : 0 < v.normSq := Q4.normSq_pos v hv
    have hfix := kApply_quat R v hNv hvq
    rw [hfix] at h
    -- v = μ v with v ≠ 0
    have hw := congrArg Q4.w h; have hx := congrArg Q4.x h
    have hy := congrArg Q4.y h; have hz := congrArg Q4.z h
    simp only [Q4.smul] at hw hx hy hz
    by_contra hne
    have hne' : 1 - μ ≠ 0 := fun h0 => hne (by linarith)
    apply hv
    apply Q4.ext <;> simp only [Q4.zero]
    · have : (1 - μ) * v.w = 0 := by linarith
      exact (mul_eq_zero.mp this).resolve_left hne'
    · have : (1 - μ) * v.x = 0 := by linarith
      exact (mul_eq_zero.mp this).resolve_left hne'
    · have : (1 - μ) * v.y = 0 := by linarith
      exact (mul_eq_zero.mp this).resolve_left hne'
    · have : (1 - μ) * v.z = 0 := by linarith
      exact (mul_eq_zero.mp this).resolve_left hne'

/-! ### weighted combinations (polyaffine) -/

/-- `Σ λᵢ vᵢ` -/
def combo : List (Rat × V3) → V3
  | [] => V3.zero
  | (c, v) :: r => (V3.smul c v).add (combo r)

theorem wsum_apply (l : List (Rat × Aff)) (y : V3) :
    (wsum l).apply y = combo (l.map (fun wa => (wa.1, wa.2.apply y))) := by
  induction l with
  | nil => simp only [wsum, List.map_nil, combo]; apply V3.ext <;> m3_simp <;> ring
  | cons h t ih =>
      obtain ⟨w, a⟩ := h
      simp only [List.map_cons, combo, ← ih, wsum]
      apply V3.ext <;> m3_simp <;> ring

theorem combo_sdiv (l : List (Rat × V3)) (W : Rat) :
    (combo l).sdiv W = combo (l.map (fun cv => (cv.1 / W, cv.2))) := by
  induction l with
  | nil => simp only [combo, List.map_nil]; apply V3.ext <;> simp [V3.sdiv, V3.zero]
  | cons h t ih =>
      obtain ⟨c, v⟩ := h
      simp only [List.map_cons, combo, ← ih]
      apply V3.ext <;> m3_simp <;> ring

theorem dot_combo_le (a : V3) (M : Rat) (l : List (Rat × V3)) (hc : ∀ cv ∈ l, 0 ≤ cv.1)
    (hv : ∀ cv ∈ l, a.dot cv.2 ≤ M) : a.dot (combo l) ≤ (l.map (·.1)).sum * M := by
  induction l with
  | nil => simp [combo, V3.dot, V3.zero]
  | cons h t ih =>
      obtain ⟨c, v⟩ := h
      have h1 := ih (fun cv hcv => hc cv (List.mem_cons_of_mem _ hcv))
        (fun cv hcv => hv cv (List.mem_cons_of_mem _ hcv))
      have hc0 : 0 ≤ c := hc (c, v) (List.mem_cons_self ..)
      have hv0 : a.dot v ≤ M := hv (c, v) (List.mem_cons_self ..)
      have : a.dot (combo ((c, v) :: t)) = c * a.dot v + a.dot (combo t) := by
        simp only [combo, V3.dot, V3.add, V3.smul]; ring
      rw [this]
      simp only [List.map_cons, List.sum_cons]
      nlinarith

theorem sum_div (l : List Rat) (W : Rat) : (l.map (· / W)).sum = l.sum / W := by
  induction l with
  | nil => simp
  | cons h t ih => simp only [List.map_cons, List.sum_cons, ih]; ring


/-! ### concrete objects for the non-vacuity examples -/

/-- rotation about `z` by the angle with `(cos, sin) = (7/25, 24/25)`; half angle `(4/5, 3/5)` -/
def exRot : M3 := ⟨7 / 25, -24 / 25, 0, 24 / 25, 7 / 25, 0, 0, 0, 1⟩
/-- its certified leaves (`1` stands in for the transcendental `acos(4/5)`) -/
def exLeaves : QExt := ⟨⟨4 / 5, 0, 0, 3 / 5⟩, 1, 1, 1, 9 / 25, 3 / 5, 1⟩
def exTrig : Trig := ⟨2, 24 / 25, 7 / 25⟩
def exAff : Aff := ⟨exRot.mul ((M3.diag ⟨2, 3, 4⟩).mul exRot), ⟨1, -2, 3⟩⟩
def exF44 : F44Ext := ⟨exRot, ⟨2, 3, 4⟩, exRot, 0, ⟨0, 0, 0⟩, exLeaves, exLeaves⟩
def exExt : Ext := ⟨exTrig, ⟨2, 3, 4⟩, exTrig⟩

end NipyVerif.C08
