/-
Helper lemmas for C12 part G (forest leftovers): the height of a node above the leaves, and the
sweeps of `depth_from_leaves` reaching it within `V - 1` rounds.
-/
import NipyVerif.Props.C12B
import NipyVerif.Lemmas.C12F
import NipyVerif.Lemmas.C12R

namespace NipyVerif.C12

/-! ### maxima of lists of naturals -/

theorem foldl_max_ge_init (l : List Nat) (a : Nat) : a ≤ l.foldl max a := by
  induction l generalizing a with
  | nil => exact Nat.le_refl _
  | cons x t ih => exact Nat.le_trans (Nat.le_max_left a x) (ih _)

theorem foldl_max_ge_mem (l : List Nat) (a : Nat) : ∀ x ∈ l, x ≤ l.foldl max a := by
  induction l generalizing a with
  | nil => intro x hx; cases hx
  | cons y t ih =>
    intro x hx
    rw [List.foldl_cons]
    rcases List.mem_cons.1 hx with rfl | hx
    · exact Nat.le_trans (Nat.le_max_right a x) (foldl_max_ge_init t _)
    · exact ih _ x hx

theorem foldl_max_mem (l : List Nat) (a : Nat) : l.foldl max a = a ∨ l.foldl max a ∈ l := by
  induction l generalizing a with
  | nil => exact Or.inl rfl
  | cons y t ih =>
    rw [List.foldl_cons]
    rcases ih (max a y) with h | h
    · rw [h]
      rcases Nat.le_total a y with h' | h'
      · right; rw [Nat.max_eq_right h']; exact List.mem_cons_self
      · left; exact Nat.max_eq_left h'
    · right; exact List.mem_cons_of_mem _ h

/-! ### height above the leaves -/

/-- height with fuel: `0` without children, else one more than the highest child -/
def hgt (V : Nat) (p : Nat → Nat) : Nat → Nat → Nat
  | 0, _ => 0
  | f + 1, v => ((children V p v).map (fun c => hgt V p f c + 1)).foldl max 0

theorem hgt_le_fuel (V : Nat) (p : Nat → Nat) (f v : Nat) : hgt V p f v ≤ f := by
  induction f generalizing v with
  | zero => exact Nat.le_refl _
  | succ f ih =>
    rw [hgt]
    rcases foldl_max_mem ((children V p v).map (fun c => hgt V p f c + 1)) 0 with h | h
    · rw [h]; exact Nat.zero_le _
    · obtain ⟨c, _, hc⟩ := List.mem_map.1 h
      rw [← hc]; exact Nat.succ_le_succ (ih c)

/-- once the fuel exceeds the value, more fuel changes nothing -/
theorem hgt_stable (V : Nat) (p : Nat → Nat) (f v : Nat) (h : hgt V p f v < f) :
    hgt V p (f + 1) v = hgt V p f v := by
  induction f generalizing v with
  | zero => omega
  | succ f ih =>
    have hc : ∀ c ∈ children V p v, hgt V p (f + 1) c = hgt V p f c := by
      intro c hc
      apply ih
      have := foldl_max_ge_mem ((children V p v).map (fun c => hgt V p f c + 1)) 0 (hgt V p f c + 1)
        (List.mem_map_of_mem hc)
      rw [hgt] at h
      omega
    rw [hgt, hgt]
    congr 1
    apply List.map_congr_left
    intro c hcm
    rw [hc c hcm]

/-- a height is witnessed by a chain of proper parent steps ending in the node -/
theorem hgt_witness (V : Nat) (p : Nat → Nat) (f v : Nat) (hv : v < V) :
    ∃ u < V, p^[hgt V p f v] u = v ∧ ∀ j < hgt V p f v, p^[j + 1] u ≠ p^[j] u := by
  induction f generalizing v with
  | zero => exact ⟨v, hv, rfl, fun j hj => by simp [hgt] at hj⟩
  | succ f ih =>
    rcases foldl_max_mem ((children V p v).map (fun c => hgt V p f c + 1)) 0 with h | h
    · refine ⟨v, hv, ?_, ?_⟩
      · rw [hgt, h]; rfl
      · intro j hj; rw [hgt, h] at hj; omega
    · obtain ⟨c, hc, hcv⟩ := List.mem_map.1 h
      obtain ⟨hcV, hpc, hne⟩ := (children_parents_consistent V p v c).1 hc
      obtain ⟨u, hu, hchain, hprop⟩ := ih c hcV
      rw [hgt, ← hcv]
      refine ⟨u, hu, ?_, ?_⟩
      · rw [Function.iterate_succ_apply', hchain, hpc]
      · intro j hj
        rcases Nat.lt_succ_iff_lt_or_eq.1 hj with hj' | rfl
        · exact hprop j hj'
        · rw [Function.iterate_succ_apply', hchain, hpc]; exact fun e => hne e.symm

/-- in a forest a chain of proper parent steps visits distinct nodes: at most `V - 1` steps -/
theorem proper_chain_le (V : Nat) (p : Nat → Nat) (hr : InRange V p) (hc : check V p = true)
    (u : Nat) (hu : u < V) (k : Nat) (hprop : ∀ j < k, p^[j + 1] u ≠ p^[j] u) : k + 1 ≤ V := by
  have hin : ∀ j, p^[j] u < V := by
    intro j; induction j with
    | zero => exact hu
    | succ j ih => rw [Function.iterate_succ_apply']; exact hr _ ih
  have hnd : ((List.range (k + 1)).map (fun j => p^[j] u)).Nodup := by
    apply List.Nodup.map_on _ List.nodup_range
    intro a ha b hb hab
    have ha := List.mem_range.1 ha
    have hb := List.mem_range.1 hb
    by_contra hne
    -- a repeated node lies on a cycle, hence is a root, hence the step after it is not proper
    have key : ∀ a b, a < b → b < k + 1 → p^[a] u = p^[b] u → False := by
      intro a b hab' hb' heq
      have hper : p^[b - a] (p^[a] u) = p^[a] u := by
        rw [← Function.iterate_add_apply, Nat.sub_add_cancel (Nat.le_of_lt hab')]; exact heq.symm
      have hroot := forest_no_cycle V p hr hc (p^[a] u) (hin a) (b - a) (by omega) hper
      exact hprop a (by omega) (by rw [Function.iterate_succ_apply']; exact hroot)
    rcases Nat.lt_or_gt_of_ne hne with h | h
    · exact key a b h hb hab
    · exact key b a h ha hab.symm
  have := nodup_lt_length_le hnd (by
    intro x hx
    obtain ⟨j, _, rfl⟩ := List.mem_map.1 hx
    exact hin j)
  simpa using this

/-- the height of a node: `hgt` with fuel `V` -/
def height (V : Nat) (p : Nat → Nat) (v : Nat) : Nat := hgt V p V v

theorem height_lt (V : Nat) (p : Nat → Nat) (hr : InRange V p) (hc : check V p = true) (f v : Nat)
    (hv : v < V) : hgt V p f v + 1 ≤ V := by
  obtain ⟨u, hu, _, hprop⟩ := hgt_witness V p f v hv
  exact proper_chain_le V p hr hc u hu _ hprop

/-- the defining equation of the height in a forest -/
theorem height_eq (V : Nat) (p : Nat → Nat) (hr : InRange V p) (hc : check V p = true) (v : Nat)
    (hv : v < V) :
    height V p v = ((children V p v).map (fun c => height V p c + 1)).foldl max 0 := by
  have h1 := height_lt V p hr hc V v hv
  have := hgt_stable V p V v (by omega)
  unfold height
  rw [← this, hgt]

theorem height_leaf (V : Nat) (p : Nat → Nat) (hr : InRange V p) (hc : check V p = true) (v : Nat)
    (hv : v < V) (hl : isLeaf V p v = true) : height V p v = 0 := by
  rw [height_eq V p hr hc v hv, (isLeaf_iff_no_children V p v).1 hl]; rfl

theorem height_parent (V : Nat) (p : Nat → Nat) (hr : InRange V p) (hc : check V p = true) (i : Nat)
    (hi : i < V) (hne : p i ≠ i) : height V p i + 1 ≤ height V p (p i) := by
  rw [height_eq V p hr hc (p i) (hr i hi)]
  apply foldl_max_ge_mem
  exact List.mem_map.2 ⟨i, (children_parents_consistent V p (p i) i).2 ⟨hi, rfl, fun e => hne e.symm⟩, rfl⟩

theorem height_nonleaf (V : Nat) (p : Nat → Nat) (hr : InRange V p) (hc : check V p = true) (v : Nat)
    (hv : v < V) (hl : isLeaf V p v = false) :
    ∃ c, c < V ∧ p c = v ∧ c ≠ v ∧ height V p v = height V p c + 1 := by
  have hne : children V p v ≠ [] := by
    intro e
    rw [(isLeaf_iff_no_children V p v).2 e] at hl; cases hl
  rcases foldl_max_mem ((children V p v).map (fun c => height V p c + 1)) 0 with h | h
  · -- the maximum cannot be 0 when there is a child
    obtain ⟨c, hcm⟩ := List.exists_mem_of_ne_nil _ hne
    have := foldl_max_ge_mem ((children V p v).map (fun c => height V p c + 1)) 0 (height V p c + 1)
      (List.mem_map_of_mem hcm)
    omega
  · obtain ⟨c, hcm, hcv⟩ := List.mem_map.1 h
    obtain ⟨h1, h2, h3⟩ := (children_parents_consistent V p v c).1 hcm
    exact ⟨c, h1, h2, h3, by rw [height_eq V p hr hc v hv, hcv]⟩

/-! ### the sweeps reach the heights -/

/-- after a step that passes `c`, the parent of `c` is at least one above `c` -/
theorem foldl_sweepStep_parent_ge (p : Nat → Nat) (l : List Nat) (d : Nat → Int) (c : Nat)
    (hc : c ∈ l) (hne : p c ≠ c) : d c + 1 ≤ (l.foldl (sweepStep p) d) (p c) := by
  induction l generalizing d with
  | nil => cases hc
  | cons a t ih =>
    rw [List.foldl_cons]
    rcases List.mem_cons.1 hc with rfl | hc
    · refine le_trans ?_ (foldl_sweepStep_ge p t _ _)
      simp only [sweepStep, hne, ne_eq, not_false_eq_true, if_true, upd]
      exact le_max_left _ _
    · exact le_trans (by have := sweepStep_ge p d a c; omega) (ih _ hc)

/-- the sweep never goes above the heights -/
theorem foldl_sweepStep_le_height (V : Nat) (p : Nat → Nat) (hr : InRange V p) (hc : check V p = true)
    (l : List Nat) (hl : ∀ i ∈ l, i < V) (d : Nat → Int) (hd : ∀ v < V, d v ≤ (height V p v : Int)) :
    ∀ v < V, (l.foldl (sweepStep p) d) v ≤ (height V p v : Int) := by
  induction l generalizing d with
  | nil => exact hd
  | cons a t ih =>
    rw [List.foldl_cons]
    apply ih (fun i hi => hl i (List.mem_cons_of_mem _ hi))
    intro v hv
    have ha := hl a List.mem_cons_self
    unfold sweepStep upd
    split
    · rename_i hne
      show (if v = p a then max (d a + 1) (d (p a)) else d v) ≤ _
      split
      · rename_i hvp
        subst hvp
        have h1 := height_parent V p hr hc a ha hne
        have h2 := hd a ha
        have h3 := hd (p a) hv
        exact max_le (by omega) h3
      · exact hd v hv
    · exact hd v hv

/-- what `k` full sweeps guarantee: nothing above the heights, heights `≤ k` reached -/
structure DepthInv (V : Nat) (p : Nat → Nat) (k : Nat) (dl : List Int) : Prop where
  len : dl.length = V
  le : ∀ v < V, lget dl v ≤ (height V p v : Int)
  eq : ∀ v < V, height V p v ≤ k → lget dl v = (height V p v : Int)

theorem lget_sweepL (V : Nat) (p : Nat → Nat) (dl : List Int) {v : Nat} (hv : v < V) :
    lget (sweepL V p dl) v = sweep V p (lget dl) v := by
  simp [lget, sweepL, List.getD_eq_getElem?_getD, hv]

theorem depthInv_init (V : Nat) (p : Nat → Nat) (hr : InRange V p) (hc : check V p = true) :
    DepthInv V p 0 (depthInit V p) := by
  have hget : ∀ v < V, lget (depthInit V p) v = if isLeaf V p v then 0 else -1 := by
    intro v hv
    simp [lget, depthInit, List.getD_eq_getElem?_getD, hv]
  refine ⟨by simp [depthInit], fun v hv => ?_, fun v hv hk => ?_⟩
  · rw [hget v hv]
    split
    · rename_i hl; rw [height_leaf V p hr hc v hv hl]; rfl
    · omega
  · rw [hget v hv]
    by_cases hl : isLeaf V p v = true
    · rw [if_pos hl, height_leaf V p hr hc v hv hl]; rfl
    · obtain ⟨c, _, _, _, hh⟩ := height_nonleaf V p hr hc v hv (by simpa using hl)
      omega

theorem depthInv_step (V : Nat) (p : Nat → Nat) (hr : InRange V p) (hc : check V p = true) (k : Nat)
    (dl : List Int) (inv : DepthInv V p k dl) : DepthInv V p (k + 1) (sweepL V p dl) := by
  have hle : ∀ v < V, sweep V p (lget dl) v ≤ (height V p v : Int) :=
    foldl_sweepStep_le_height V p hr hc _ (fun i hi => List.mem_range.1 hi) _ inv.le
  refine ⟨by simp [sweepL], fun v hv => by rw [lget_sweepL V p dl hv]; exact hle v hv, fun v hv hk => ?_⟩
  rw [lget_sweepL V p dl hv]
  apply le_antisymm (hle v hv)
  have hge : lget dl v ≤ sweep V p (lget dl) v := foldl_sweepStep_ge p _ _ v
  by_cases hk' : height V p v ≤ k
  · rw [← inv.eq v hv hk']; exact hge
  · -- height k + 1: a child of height k has its value already, and the sweep passes it
    have hl : isLeaf V p v = false := by
      by_contra hl'
      have := height_leaf V p hr hc v hv (by simpa using hl')
      omega
    obtain ⟨c, hcV, hpc, hcv, hh⟩ := height_nonleaf V p hr hc v hv hl
    have hcval := inv.eq c hcV (by omega)
    have := foldl_sweepStep_parent_ge p (List.range V) (lget dl) c (List.mem_range.2 hcV)
      (by rw [hpc]; exact fun e => hcv e.symm)
    rw [hpc, hcval] at this
    show (height V p v : Int) ≤ sweep V p (lget dl) v
    unfold sweep
    omega

/-- an array that has all heights is the list of heights … -/
theorem depthInv_full (V : Nat) (p : Nat → Nat) (k : Nat) (dl : List Int) (inv : DepthInv V p k dl)
    (hk : ∀ v < V, height V p v ≤ k) : dl = (List.range V).map (fun v => (height V p v : Int)) := by
  apply List.ext_getElem
  · simp [inv.len]
  · intro i h1 h2
    have hi : i < V := by rw [← inv.len]; exact h1
    have := inv.eq i hi (hk i hi)
    simp only [lget, List.getD_eq_getElem?_getD, List.getElem?_eq_getElem h1, Option.getD_some] at this
    simp [this]

/-- a fixed point that is below the heights and has the low ones has them all -/
theorem depthInv_of_fixed (V : Nat) (p : Nat → Nat) (hr : InRange V p) (hc : check V p = true) (k : Nat)
    (dl : List Int) (inv : DepthInv V p k dl) (hfix : sweepL V p dl = dl) (m : Nat) :
    DepthInv V p (k + m) dl := by
  induction m with
  | zero => exact inv
  | succ m ih =>
    have := depthInv_step V p hr hc (k + m) dl ih
    rw [hfix] at this
    exact this

theorem depthLoop_heights (V : Nat) (p : Nat → Nat) (hr : InRange V p) (hc : check V p = true) :
    ∀ (n k : Nat) (dl : List Int), DepthInv V p k dl → V ≤ n + k + 1 →
      depthLoop V p n dl = (List.range V).map (fun v => (height V p v : Int)) := by
  have hall : ∀ m, V ≤ m + 1 → ∀ v < V, height V p v ≤ m := by
    intro m hm v hv
    have := height_lt V p hr hc V v hv
    unfold height; omega
  intro n
  induction n with
  | zero =>
    intro k dl inv hk
    exact depthInv_full V p k dl inv (hall k (by omega))
  | succ n ih =>
    intro k dl inv hk
    rw [depthLoop]
    by_cases hfix : (sweepL V p dl == dl) = true
    · have hfix' : sweepL V p dl = dl := by simpa using hfix
      simp only [hfix, if_true]
      rw [hfix']
      have := depthInv_of_fixed V p hr hc k dl inv hfix' V
      exact depthInv_full V p (k + V) dl this (hall (k + V) (by omega))
    · simp only [hfix, Bool.false_eq_true, if_false]
      exact ih (k + 1) _ (depthInv_step V p hr hc k dl inv) (by omega)

/-! ### `subforest` -/

theorem foldl_max_le (l : List Nat) (b : Nat) (h : ∀ x ∈ l, x ≤ b) : l.foldl max 0 ≤ b := by
  rcases foldl_max_mem l 0 with h' | h'
  · rw [h']; exact Nat.zero_le _
  · exact h _ h'

/-- entry `renumb v` of the parent array `subforest` builds, for a retained vertex `v` -/
theorem subforestParents_getD (V : Nat) (p : Nat → Nat) (valid : Nat → Bool) {v : Nat} (hv : v < V)
    (hval : valid v = true) (d : Nat) :
    (subforestParents V p valid).getD (renumb valid v) d =
      renumb valid (if valid (p v) then p v else v) := by
  have hlt : renumb valid v < (retained V valid).length := by
    rw [retained_length]; exact renumb_lt valid hv hval
  have h := retained_getD_renumb valid V hv hval
  rw [List.getD_eq_getElem?_getD, List.getElem?_eq_getElem hlt, Option.getD_some] at h
  show (List.map _ (retained V valid)).getD (renumb valid v) d = _
  rw [List.getD_eq_getElem?_getD, List.getElem?_map, List.getElem?_eq_getElem hlt, Option.map_some,
    Option.getD_some, h]

theorem subforestParents_length (V : Nat) (p : Nat → Nat) (valid : Nat → Bool) :
    (subforestParents V p valid).length = renumb valid V := by
  simp [subforestParents, renumb_eq_length]

/-! ### component labels -/

theorem mem_foldl_dedup (l acc : List Nat) (x : Nat) :
    x ∈ l.foldl (fun acc x => if acc.contains x then acc else acc ++ [x]) acc ↔ x ∈ acc ∨ x ∈ l := by
  induction l generalizing acc with
  | nil => simp
  | cons a t ih =>
    rw [List.foldl_cons, ih]
    by_cases h : acc.contains a = true
    · have ha : a ∈ acc := by simpa using h
      simp only [h, if_true, List.mem_cons]
      constructor
      · rintro (h1 | h1)
        · exact Or.inl h1
        · exact Or.inr (Or.inr h1)
      · rintro (h1 | rfl | h1)
        · exact Or.inl h1
        · exact Or.inl ha
        · exact Or.inr h1
    · simp only [h, Bool.false_eq_true, if_false, List.mem_append, List.mem_cons, List.not_mem_nil, or_false]
      constructor
      · rintro ((h1 | rfl) | h1)
        · exact Or.inl h1
        · exact Or.inr (Or.inl rfl)
        · exact Or.inr (Or.inr h1)
      · rintro (h1 | rfl | h1)
        · exact Or.inl (Or.inl h1)
        · exact Or.inl (Or.inr rfl)
        · exact Or.inr h1

theorem mem_dedupNat (l : List Nat) (x : Nat) : x ∈ dedupNat l ↔ x ∈ l := by
  unfold dedupNat
  rw [mem_foldl_dedup]; simp

end NipyVerif.C12
