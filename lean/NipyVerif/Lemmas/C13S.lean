/- Helper lemmas for C13 part S (make_edges, vm_step, histories, ownership). -/
import NipyVerif.Model.C13S
import NipyVerif.Lemmas.C13

namespace NipyVerif.C13
open Finset

/-! grid enumeration -/

theorem mem_allVoxels (g : Grid) (v : Nat × Nat × Nat) : v ∈ allVoxels g ↔ inGrid g v := by
  obtain ⟨x, y, z⟩ := v
  unfold allVoxels inGrid
  simp only [List.mem_flatMap, List.mem_map, List.mem_range, Prod.mk.injEq]
  constructor
  · rintro ⟨a, ha, b, hb, c, hc, rfl, rfl, rfl⟩
    exact ⟨ha, hb, hc⟩
  · rintro ⟨hx, hy, hz⟩
    exact ⟨x, hx, y, hy, z, hz, rfl, rfl, rfl⟩

theorem flatPos_cast (g : Grid) (w : Nat × Nat × Nat) :
    flatPos g (w.1 : Int) (w.2.1 : Int) (w.2.2 : Int) = ((voxIdx g w * g.K : Nat) : Int) := by
  unfold flatPos voxIdx; push_cast; ring

theorem posOk_of_inGrid (g : Grid) (w : Nat × Nat × Nat) (hw : inGrid g w) :
    posOk g (flatPos g (w.1 : Int) (w.2.1 : Int) (w.2.2 : Int)) = true := by
  rw [flatPos_cast]
  have := voxIdx_lt g w hw
  unfold posOk posMax
  simp only [Bool.and_eq_true, decide_eq_true_eq]
  omega

/-- the flat position of an in-grid geometric neighbour is its voxel index -/
theorem ngbPos_of_ngbVoxel (g : Grid) (v w : Nat × Nat × Nat) (o : Int × Int × Int)
    (h : ngbVoxel g v o = some w) :
    ngbPos g v o = ((voxIdx g w * g.K : Nat) : Int) ∧ inGrid g w := by
  unfold ngbVoxel at h
  simp only at h
  split_ifs at h with hc
  obtain ⟨h1, h2, h3, h4, h5, h6⟩ := hc
  have hw : w = (((v.1 : Int) + o.1).toNat, ((v.2.1 : Int) + o.2.1).toNat, ((v.2.2 : Int) + o.2.2).toNat) :=
    (Option.some.inj h).symm
  have e1 : ((w.1 : Nat) : Int) = (v.1 : Int) + o.1 := by rw [hw]; exact Int.toNat_of_nonneg h1
  have e2 : ((w.2.1 : Nat) : Int) = (v.2.1 : Int) + o.2.1 := by rw [hw]; exact Int.toNat_of_nonneg h3
  have e3 : ((w.2.2 : Nat) : Int) = (v.2.2 : Int) + o.2.2 := by rw [hw]; exact Int.toNat_of_nonneg h5
  refine ⟨?_, ?_⟩
  · unfold ngbPos
    rw [← e1, ← e2, ← e3]
    exact flatPos_cast g w
  · unfold inGrid
    refine ⟨?_, ?_, ?_⟩ <;> omega

theorem ngbVoxel_of_interior (g : Grid) (v : Nat × Nat × Nat) (o : Int × Int × Int) (hv : interior g v)
    (ho : -1 ≤ o.1 ∧ o.1 ≤ 1 ∧ -1 ≤ o.2.1 ∧ o.2.1 ≤ 1 ∧ -1 ≤ o.2.2 ∧ o.2.2 ≤ 1) :
    ∃ w, ngbVoxel g v o = some w := by
  unfold ngbVoxel interior at *
  simp only
  rw [if_pos (by omega)]
  exact ⟨_, rfl⟩

/-! edges -/

theorem edgesAt_length_le (g : Grid) (idx : Array Int) (ngb : List (Int × Int × Int)) (v : Nat × Nat × Nat) :
    (edgesAt g idx ngb v).length ≤ if 0 ≤ idxAt g idx v then ngb.length else 0 := by
  unfold edgesAt
  split_ifs with h1 h2 h2
  · omega
  · simp
  · exact List.length_filterMap_le _ _
  · omega

theorem edges_length_le (g : Grid) (idx : Array Int) (ngb : List (Int × Int × Int))
    (l : List (Nat × Nat × Nat)) :
    (l.flatMap (edgesAt g idx ngb)).length ≤ ngb.length * (l.filter (fun v => decide (0 ≤ idxAt g idx v))).length := by
  induction l with
  | nil => simp
  | cons v l ih =>
      simp only [List.flatMap_cons, List.length_append, List.filter_cons]
      have h := edgesAt_length_le g idx ngb v
      by_cases hv : 0 ≤ idxAt g idx v
      · simp only [hv, decide_true, if_true, List.length_cons] at h ⊢
        rw [Nat.mul_succ]; omega
      · simp only [hv, decide_false, if_false] at h ⊢
        simp only [Bool.false_eq_true, if_false]
        omega

theorem mem_edgeTo (g : Grid) (idx : Array Int) (v : Nat × Nat × Nat) (o : Int × Int × Int) (e : Int × Int) :
    edgeTo g idx v o = some e ↔
      posOk g (ngbPos g v o) = true ∧ 0 ≤ idx.getD (ngbPos g v o).toNat (-1) ∧
        e = (idxAt g idx v, idx.getD (ngbPos g v o).toNat (-1)) := by
  unfold edgeTo
  simp only
  split_ifs with h1 h2
  · simp only [false_iff]
    rintro ⟨_, h, _⟩; omega
  · simp only [Option.some.injEq]
    constructor
    · intro h; exact ⟨h1, by omega, h.symm⟩
    · rintro ⟨_, _, h⟩; exact h.symm
  · simp only [false_iff]
    rintro ⟨h, _⟩; exact h1 h

/-! `vm_step` -/

theorem vmZ_eq (tiny : Rat) (n : Nat) (p : Nat → Rat) (h : tiny ≤ sumTo n p) : vmZ tiny n p = sumTo n p :=
  max_eq_left h

/-! histories -/

theorem segStep_size (g : Grid) (tiny : Rat) (U : Array Rat) (ngb) (ppm : Array Rat) (op : SegOp) :
    (segStep g tiny U ngb ppm op).size = ppm.size := by
  cases op with
  | ve pts => exact veStep_size g tiny U ngb pts ppm
  | vm => rfl

theorem segRun_size (g : Grid) (tiny : Rat) (U : Array Rat) (ngb) (ops : List SegOp) :
    ∀ ppm : Array Rat, (segRun g tiny U ngb ppm ops).size = ppm.size := by
  induction ops with
  | nil => intro ppm; rfl
  | cons op rest ih => intro ppm; simp only [segRun]; rw [ih, segStep_size]

theorem segRun_append (g : Grid) (tiny : Rat) (U : Array Rat) (ngb) (a b : List SegOp) :
    ∀ ppm : Array Rat, segRun g tiny U ngb ppm (a ++ b) = segRun g tiny U ngb (segRun g tiny U ngb ppm a) b := by
  induction a with
  | nil => intro ppm; rfl
  | cons op rest ih => intro ppm; simp only [List.cons_append, segRun]; exact ih _

theorem segRun_vm_only (g : Grid) (tiny : Rat) (U : Array Rat) (ngb) (ops : List SegOp)
    (h : ∀ op ∈ ops, op = SegOp.vm) : ∀ ppm : Array Rat, segRun g tiny U ngb ppm ops = ppm := by
  induction ops with
  | nil => intro ppm; rfl
  | cons op rest ih =>
      intro ppm
      have : op = SegOp.vm := h op (List.mem_cons_self ..)
      subst this
      simp only [segRun, segStep]
      exact ih (fun o ho => h o (List.mem_cons_of_mem _ ho)) ppm

end NipyVerif.C13
