/-
C09 — helper lemmas for the joint-histogram model (`NipyVerif.Model.C09`).
-/
import NipyVerif.Model.C09
import Mathlib.Tactic.Ring
import Mathlib.Tactic.Linarith
import Mathlib.Tactic.Positivity
import Mathlib.Algebra.Order.Floor.Ring
import Mathlib.Data.Rat.Floor

namespace NipyVerif.C09

theorem rat_floor_eq (a : Rat) : a.floor = ⌊a⌋ := rfl

/-- truncation toward zero, characterised -/
theorem truncC_nonneg {a : Rat} (h : 0 ≤ a) : truncC a = ⌊a⌋ := by
  simp [truncC, h, rat_floor_eq]

theorem truncC_neg {a : Rat} (h : a < 0) : truncC a = -⌊-a⌋ := by
  simp [truncC, not_le.mpr h, rat_floor_eq]

theorem floorC_eq (a : Rat) : floorC a = ⌊a⌋ := by
  unfold floorC
  by_cases h : a > 0
  · simp [h, truncC_nonneg h.le]
  · simp only [h, if_false]
    have h0 : a ≤ 0 := not_lt.mp h
    rcases eq_or_lt_of_le h0 with h1 | h1
    · subst h1
      have : Rat.floor 0 = 0 := by decide
      simp [truncC, this]
    · rw [truncC_neg h1]
      -- `-⌊-a⌋ = ⌈a⌉`
      have hc : -⌊-a⌋ = ⌈a⌉ := by rw [Int.floor_neg]; ring
      rw [hc]
      by_cases hi : ((⌈a⌉ : Int) : Rat) - a ≠ 0
      · rw [if_pos hi]
        have h2 : a < ⌈a⌉ := lt_of_le_of_ne (Int.le_ceil a) (fun e => hi (by rw [← e]; ring))
        have h3 : (⌈a⌉ : Rat) < a + 1 := Int.ceil_lt_add_one a
        symm
        rw [Int.floor_eq_iff]
        push_cast
        constructor <;> linarith
      · rw [if_neg hi]
        have h2 : ((⌈a⌉ : Int) : Rat) = a := by
          have := not_not.mp hi; linarith
        rw [← h2]; simp


/-! ### weights of a real voxel -/

theorem nIdx_sub_mem (t : Rat) : 0 < ((nIdx t : Int) : Rat) - t ∧ ((nIdx t : Int) : Rat) - t ≤ 1 := by
  unfold nIdx; rw [floorC_eq]; push_cast
  constructor
  · have := Int.lt_floor_add_one t; linarith
  · have := Int.floor_le t; linarith

theorem weights_nonneg' {wx wy wz : Rat} (hx : 0 ≤ wx ∧ wx ≤ 1) (hy : 0 ≤ wy ∧ wy ≤ 1)
    (hz : 0 ≤ wz ∧ wz ≤ 1) : ∀ w ∈ weights wx wy wz, 0 ≤ w := by
  have e : weights wx wy wz =
      [wx * wy * wz, wx * wy * (1 - wz), wx * (1 - wy) * wz, wx * (1 - wy) * (1 - wz),
       (1 - wx) * wy * wz, (1 - wx) * wy * (1 - wz), (1 - wx) * (1 - wy) * wz,
       (1 - wx) * (1 - wy) * (1 - wz)] := by
    simp only [weights, List.cons.injEq, and_true]
    and_intros <;> first | trivial | ring
  rw [e]
  have a1 : 0 ≤ 1 - wx := by linarith [hx.2]
  have a2 : 0 ≤ 1 - wy := by linarith [hy.2]
  have a3 : 0 ≤ 1 - wz := by linarith [hz.2]
  intro w hw
  simp only [List.mem_cons, List.not_mem_nil, or_false] at hw
  rcases hw with rfl | rfl | rfl | rfl | rfl | rfl | rfl | rfl <;>
    exact mul_nonneg (mul_nonneg (by first | exact hx.1 | exact a1) (by first | exact hy.1 | exact a2))
      (by first | exact hz.1 | exact a3)

theorem neighbours_weights (V : Vol) (v : Vox) :
    (neighbours V v).map (·.2) =
      weights ((nIdx v.tx : Int) - v.tx) ((nIdx v.ty : Int) - v.ty) ((nIdx v.tz : Int) - v.tz) := by
  unfold neighbours
  rw [List.map_snd_zip]
  simp [offsets, weights]

theorem neighbours_nonneg (V : Vol) (v : Vox) : ∀ p ∈ neighbours V v, 0 ≤ p.2 := by
  intro p hp
  have : p.2 ∈ (neighbours V v).map (·.2) := List.mem_map_of_mem hp
  rw [neighbours_weights] at this
  exact weights_nonneg' ⟨(nIdx_sub_mem _).1.le, (nIdx_sub_mem _).2⟩ ⟨(nIdx_sub_mem _).1.le, (nIdx_sub_mem _).2⟩
    ⟨(nIdx_sub_mem _).1.le, (nIdx_sub_mem _).2⟩ _ this

theorem appended_mem {V : Vol} {v : Vox} {p : Int × Rat} (h : p ∈ appended V v) :
    0 ≤ p.1 ∧ 0 ≤ p.2 ∧ ∃ q, p.1 = V.get q := by
  unfold appended at h
  rw [List.mem_filter, List.mem_map] at h
  obtain ⟨⟨a, ha, rfl⟩, h2⟩ := h
  exact ⟨by simpa using h2, neighbours_nonneg V v a ha, a.1, rfl⟩

/-- the sum over the kept items of a list with non-negative weights is at most the whole sum -/
theorem sum_filter_le (l : List (Int × Rat)) (f : Int × Rat → Bool) (h : ∀ p ∈ l, 0 ≤ p.2) :
    ((l.filter f).map (·.2)).sum ≤ (l.map (·.2)).sum := by
  induction l with
  | nil => simp
  | cons a t ih =>
      have ht := ih (fun p hp => h p (List.mem_cons_of_mem _ hp))
      have ha := h a List.mem_cons_self
      by_cases hf : f a = true
      · simp only [List.filter_cons, hf, if_true, List.map_cons, List.sum_cons]; linarith
      · simp only [List.filter_cons, hf, List.map_cons, List.sum_cons]; simp; linarith

theorem sumW_appended_le_one (V : Vol) (v : Vox) : sumW (appended V v) ≤ 1 := by
  unfold sumW appended
  refine le_trans (sum_filter_le _ _ ?_) ?_
  · intro p hp
    rw [List.mem_map] at hp
    obtain ⟨a, ha, rfl⟩ := hp
    exact neighbours_nonneg V v a ha
  · rw [List.map_map]
    have : ((fun (p : Int × Rat) => p.2) ∘ fun (p : Nat × Rat) => (V.get p.1, p.2)) = (·.2) := rfl
    rw [this, neighbours_weights]
    simp only [weights, List.sum_cons, List.sum_nil]
    apply le_of_eq; ring

theorem sumW_nonneg_of {nb : List (Int × Rat)} (h : ∀ p ∈ nb, 0 ≤ p.2) : 0 ≤ sumW nb := by
  unfold sumW
  apply List.sum_nonneg
  intro x hx
  rw [List.mem_map] at hx
  obtain ⟨p, hp, rfl⟩ := hx
  exact h p hp

/-! ### random pick -/

theorem pick_valid (nb : List (Int × Rat)) : ∀ (acc draw : Rat), acc ≤ draw → draw < acc + sumW nb →
    ∃ j w, pick nb acc draw = some j ∧ (j, w) ∈ nb ∧ 0 < w := by
  induction nb with
  | nil => intro acc draw h1 h2; simp [sumW] at h2; linarith
  | cons p r ih =>
      intro acc draw h1 h2
      have hs : sumW (p :: r) = p.2 + sumW r := by simp [sumW]
      by_cases hc : acc + p.2 > draw
      · refine ⟨p.1, p.2, ?_, ?_, ?_⟩
        · simp [pick, hc]
        · simp
        · linarith
      · obtain ⟨j, w, e, m, hw⟩ := ih (acc + p.2) draw (not_lt.mp hc) (by rw [hs] at h2; linarith)
        exact ⟨j, w, by simp [pick, hc, e], List.mem_cons_of_mem _ m, hw⟩

/-! ### weighted mean stays in the intensity range -/

theorem wmean_bounds (nb : List (Int × Rat)) (c : Rat) (h : ∀ p ∈ nb, 0 ≤ p.2 ∧ 0 ≤ (p.1 : Rat) ∧ (p.1 : Rat) ≤ c) :
    0 ≤ wmean nb ∧ wmean nb ≤ c * sumW nb := by
  induction nb with
  | nil => simp [wmean, sumW]
  | cons p r ih =>
      obtain ⟨i1, i2⟩ := ih (fun q hq => h q (List.mem_cons_of_mem _ hq))
      obtain ⟨a, b, d⟩ := h p List.mem_cons_self
      have e1 : wmean (p :: r) = p.2 * (p.1 : Rat) + wmean r := by simp [wmean]
      have e2 : sumW (p :: r) = p.2 + sumW r := by simp [sumW]
      rw [e1, e2]
      constructor
      · have := mul_nonneg a b; linarith
      · have := mul_le_mul_of_nonneg_left d a; nlinarith

theorem uround_bounds {x : Rat} {c : Int} (h0 : 0 ≤ x) (h1 : x ≤ c) : 0 ≤ uround x ∧ uround x ≤ c := by
  unfold uround
  rw [truncC_nonneg (by linarith)]
  constructor
  · apply Int.floor_nonneg.mpr; linarith
  · have : ⌊x + 1 / 2⌋ < c + 1 := by
      rw [Int.floor_lt]; push_cast; linarith
    omega

/-! ### total mass of a histogram -/

theorem histAt_cons (d : Dep) (ds : List Dep) (k : Nat) :
    histAt (d :: ds) k = (if d.1 = (k : Int) then d.2 else 0) + histAt ds k := by
  unfold histAt mass
  by_cases h : d.1 = (k : Int) <;> simp [h]

theorem sum_range_indicator (n : Nat) (a : Int) (w : Rat) (h0 : 0 ≤ a) (h1 : a < n) :
    ((List.range n).map (fun (k : Nat) => if a = (k : Int) then w else 0)).sum = w := by
  induction n with
  | zero => omega
  | succ m ih =>
      rw [List.range_succ, List.map_append, List.sum_append]
      by_cases hm : a = (m : Int)
      · have hz : ((List.range m).map (fun (k : Nat) => if a = (k : Int) then w else 0)).sum = 0 := by
          apply List.sum_eq_zero
          intro x hx
          rw [List.mem_map] at hx
          obtain ⟨k, hk, rfl⟩ := hx
          have : k < m := List.mem_range.mp hk
          rw [if_neg]; omega
        rw [hz]; simp [hm]
      · have : a < (m : Int) := by push_cast at h1; omega
        rw [ih this]; simp [hm]

theorem hist_sum (n : Nat) (ds : List Dep) (h : ∀ d ∈ ds, 0 ≤ d.1 ∧ d.1 < (n : Int)) :
    (hist n ds).sum = mass ds := by
  induction ds with
  | nil =>
      have : (hist n []).sum = 0 := by
        apply List.sum_eq_zero
        intro x hx
        unfold hist at hx
        rw [List.mem_map] at hx
        obtain ⟨k, _, rfl⟩ := hx
        simp [histAt, mass]
      rw [this]; simp [mass]
  | cons d t ih =>
      have hd := h d List.mem_cons_self
      have e : hist n (d :: t) = (List.range n).map (fun (k : Nat) => (if d.1 = (k : Int) then d.2 else 0) + histAt t k) := by
        unfold hist; apply List.map_congr_left; intro k _; exact histAt_cons d t k
      rw [e, List.sum_map_add, sum_range_indicator n d.1 d.2 hd.1 hd.2]
      have := ih (fun q hq => h q (List.mem_cons_of_mem _ hq))
      unfold hist at this
      rw [this]; simp [mass]


/-! ### bounds of the neighbour indices, integer coordinates -/

theorem nIdx_range {t : Rat} {d : Nat} (h0 : -1 < t) (h1 : t < d) : 0 ≤ nIdx t ∧ nIdx t ≤ d := by
  unfold nIdx; rw [floorC_eq]
  have a : -1 ≤ ⌊t⌋ := by rw [Int.le_floor]; push_cast; linarith
  have b : ⌊t⌋ < d := by rw [Int.floor_lt]; exact_mod_cast h1
  omega


theorem zero_weights_filter (l : List (Int × Rat)) (f : Int × Rat → Bool) (h : ∀ p ∈ l, p.2 = 0) :
    sumW (l.filter f) = 0 ∧ wmean (l.filter f) = 0 := by
  induction l with
  | nil => simp [sumW, wmean]
  | cons a t ih =>
      obtain ⟨i1, i2⟩ := ih (fun p hp => h p (List.mem_cons_of_mem _ hp))
      have ha := h a List.mem_cons_self
      by_cases hf : f a = true
      · simp only [List.filter_cons, hf, if_true]
        simp only [sumW, wmean, List.map_cons, List.sum_cons] at *
        rw [i1, i2, ha]; simp
      · simp only [List.filter_cons, hf]
        exact ⟨i1, i2⟩


theorem neighbours_integer (V : Vol) (i : Int) (x y z : Nat) :
    neighbours V ⟨i, x, y, z⟩ =
      let q := (x + 1) * V.u4 + (y + 1) * V.u2 + (z + 1)
      [(q, 1), (q + 1, 0), (q + V.u2, 0), (q + (V.u2 + 1), 0), (q + V.u4, 0), (q + (V.u4 + 1), 0),
       (q + (V.u4 + V.u2), 0), (q + (V.u4 + V.u2 + 1), 0)] := by
  have hn : ∀ n : Nat, nIdx (n : Rat) = (n : Int) + 1 := by
    intro n; unfold nIdx; rw [floorC_eq]; simp
  have hoff : (offOf V ⟨i, x, y, z⟩).toNat = (x + 1) * V.u4 + (y + 1) * V.u2 + (z + 1) := by
    unfold offOf; simp only [hn]; norm_cast
  unfold neighbours
  rw [hoff]
  simp [offsets, weights, hn]


theorem appended_integer (V : Vol) (i j : Int) (x y z : Nat) (hj : 0 ≤ j)
    (hv : V.get ((x + 1) * V.u4 + (y + 1) * V.u2 + (z + 1)) = j) :
    ∃ rest, appended V ⟨i, x, y, z⟩ = (j, 1) :: rest ∧ sumW rest = 0 ∧ wmean rest = 0 := by
  unfold appended
  rw [neighbours_integer]
  simp only [List.map_cons, List.map_nil, hv]
  rw [List.filter_cons_of_pos (by simpa using hj)]
  exact ⟨_, rfl, zero_weights_filter _ _ (by
    intro p hp
    simp only [List.mem_cons, List.not_mem_nil, or_false] at hp
    rcases hp with rfl | rfl | rfl | rfl | rfl | rfl | rfl <;> rfl)⟩


end NipyVerif.C09
