/-
C09 — helper lemmas for the joint-histogram model (`NipyVerif.Model.C09`).
-/
import NipyVerif.Model.C09
import Mathlib.Tactic.Ring
import Mathlib.Tactic.Linarith
import Mathlib.Tactic.Positivity
import Mathlib.Algebra.Order.Floor.Ring
import Mathlib.Data.Rat.Floor

namespace NipyVerif.C09

theorem rat_floor_eq (a : Rat) : a.floor = ⌊a⌋ := rfl

/-- truncation toward zero, characterised -/
theorem truncC_nonneg {a : Rat} (h : 0 ≤ a) : truncC a = ⌊a⌋ := by
  simp [truncC, h, rat_floor_eq]

theorem truncC_neg {a : Rat} (h : a < 0) : truncC a = -⌊-a⌋ := by
  simp [truncC, not_le.mpr h, rat_floor_eq]

theorem floorC_eq (a : Rat) : floorC a = ⌊a⌋ := by
  unfold floorC
  by_cases h : a > 0
  · simp [h, truncC_nonneg h.le]
  · simp only [h, if_false]
    have h0 : a ≤ 0 := not_lt.mp h
    rcases eq_or_lt_of_le h0 with h1 | h1
    · subst h1
      have : Rat.floor 0 = 0 := by decide
      simp [truncC, this]
    · rw [truncC_neg h1]
      -- `-⌊-a⌋ = ⌈a⌉`
      have hc : -⌊-a⌋ = ⌈a⌉ := by rw [Int.floor_neg]; ring
      rw [hc]
      by_cases hi : ((⌈a⌉ : Int) : Rat) - a ≠ 0
      · rw [if_pos hi]
        have h2 : a < ⌈a⌉ := lt_of_le_of_ne (Int.le_ceil a) (fun e => hi (by rw [← e]; ring))
        have h3 : (⌈a⌉ : Rat) < a + 1 := Int.ceil_lt_add_one a
        symm
        rw [Int.floor_eq_iff]
        push_cast
        constructor <;> linarith
      · rw [if_neg hi]
        have h2 : ((⌈a⌉ : Int) : Rat) = a := by
          have := not_not.mp hi; linarith
        rw [← h2]; simp

end NipyVerif.C09
