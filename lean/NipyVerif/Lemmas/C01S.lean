/-
C01 — lemmas tying the regenerated source expressions (`Gen/C01Source.lean`) to the model.
-/
import NipyVerif.Gen.C01Source
import NipyVerif.Lemmas.C01C

namespace NipyVerif.C01
open Np

theorem mkMat_congr {r c : Nat} {f g : Nat → Nat → Rat}
    (h : ∀ i j, i < r → j < c → f i j = g i j) : mkMat r c f = mkMat r c g := by
  unfold mkMat
  apply List.map_congr_left
  intro i hi
  apply List.map_congr_left
  intro j hj
  exact h i j (List.mem_range.mp hi) (List.mem_range.mp hj)

theorem all_congr' {α} {l : List α} {p q : α → Bool} (h : ∀ x ∈ l, p x = q x) :
    l.all p = l.all q := by
  induction l with
  | nil => rfl
  | cons a t ih =>
      simp only [List.all_cons]
      rw [h a (by simp), ih (fun x hx => h x (by simp [hx]))]

/-! ### the loop of `_product_affines` -/

/-- the loop of `_product_affines` run with the regenerated statements: for each factor
    `A, b = to_matvec(affine.affine)`, `M[i:i+nout, j:j+nin] = A`, `M[i:i+nout, -1] = b`,
    `i += nout`, `j += nin` -/
def srcProductLoop : List Aff → FM → Nat → Nat → FM
  | [], M, _, _ => M
  | A :: rest, M, i, j =>
      srcProductLoop rest
        (Src.productCol (Src.productBlock M i j A.nout A.nin
            (Src.productSplit (ofMat (A.nout + 1) (A.nin + 1) A.aff)).1) i A.nout
          (Src.productSplit (ofMat (A.nout + 1) (A.nin + 1) A.aff)).2)
        (Src.productNextI i A.nout) (Src.productNextJ j A.nin)

theorem productStep_f (A : Aff) (M : FM) (i j N K : Nat) (hr : M.r = N + 1) (hc : M.c = K + 1)
    (hi : i + A.nout ≤ N) (hj : j + A.nin ≤ K) (r c : Nat) :
    (Src.productCol (Src.productBlock M i j A.nout A.nin
        (Src.productSplit (ofMat (A.nout + 1) (A.nin + 1) A.aff)).1) i A.nout
      (Src.productSplit (ofMat (A.nout + 1) (A.nin + 1) A.aff)).2).f r c =
      if i ≤ r ∧ r < i + A.nout then
        (if c = K then A.aff.get (r - i) A.nin
         else if j ≤ c ∧ c < j + A.nin then A.aff.get (r - i) (c - j) else M.f r c)
      else M.f r c := by
  have e1 : min (N + 1) i = i := by omega
  have e2 : min (N + 1) (i + A.nout) = i + A.nout := by omega
  have e3 : min (K + 1) j = j := by omega
  have e4 : min (K + 1) (j + A.nin) = j + A.nin := by omega
  simp only [Src.productCol, Src.productBlock, Src.productSplit, setCol, setBlock, mvA, mvB, ofMat,
    Sel.mem, Sel.lo, Sel.hi, Ix.res, hr, hc, e1, e2, e3, e4, Nat.add_sub_cancel]
  by_cases h1 : i ≤ r ∧ r < i + A.nout
  · by_cases h2 : c = K
    · simp [h1, h2]
    · by_cases h3 : j ≤ c ∧ c < j + A.nin
      · simp [h1, h2, h3]
      · have : ¬ (j ≤ c ∧ c < j + A.nin) := h3
        simp only [h1, h2, if_true]
        simp [this]
  · have h1' : ¬ (i ≤ r ∧ r < i + A.nout) := h1
    simp only [Bool.and_eq_true, decide_eq_true_eq, h1', false_and, if_false]

theorem srcProductLoop_spec (rest : List Aff) : ∀ (M : FM) (i j N K : Nat),
    M.r = N + 1 → M.c = K + 1 →
    i + sumNat (rest.map Aff.nout) = N → j + sumNat (rest.map Aff.nin) = K →
    (∀ r c, i ≤ r → r < N → j ≤ c → c < K → M.f r c = 0) →
    (srcProductLoop rest M i j).r = N + 1 ∧ (srcProductLoop rest M i j).c = K + 1 ∧
    ∀ r c, (srcProductLoop rest M i j).f r c =
      if i ≤ r ∧ r < N then
        (if c = K then prodOff rest (r - i)
         else if j ≤ c ∧ c < K then prodLin rest (r - i) (c - j) else M.f r c)
      else M.f r c := by
  induction rest with
  | nil =>
      intro M i j N K hr hc hi hj _
      simp only [List.map_nil, sumNat, List.foldr_nil, Nat.add_zero] at hi hj
      refine ⟨hr, hc, fun r c => ?_⟩
      have : ¬ (i ≤ r ∧ r < N) := by omega
      simp [srcProductLoop, this]
  | cons A rest ih =>
      intro M i j N K hr hc hi hj hz
      have si : sumNat ((A :: rest).map Aff.nout) = A.nout + sumNat (rest.map Aff.nout) := by
        simp [sumNat]
      have sj : sumNat ((A :: rest).map Aff.nin) = A.nin + sumNat (rest.map Aff.nin) := by
        simp [sumNat]
      rw [si] at hi
      rw [sj] at hj
      have hstep := productStep_f A M i j N K hr hc (by omega) (by omega)
      unfold srcProductLoop
      unfold Src.productNextI Src.productNextJ
      have hr2 : (Src.productCol (Src.productBlock M i j A.nout A.nin
          (Src.productSplit (ofMat (A.nout + 1) (A.nin + 1) A.aff)).1) i A.nout
          (Src.productSplit (ofMat (A.nout + 1) (A.nin + 1) A.aff)).2).r = N + 1 := by
        simp [Src.productCol, Src.productBlock, setCol, setBlock, hr]
      have hc2 : (Src.productCol (Src.productBlock M i j A.nout A.nin
          (Src.productSplit (ofMat (A.nout + 1) (A.nin + 1) A.aff)).1) i A.nout
          (Src.productSplit (ofMat (A.nout + 1) (A.nin + 1) A.aff)).2).c = K + 1 := by
        simp [Src.productCol, Src.productBlock, setCol, setBlock, hc]
      obtain ⟨g1, g2, g3⟩ := ih _ (i + A.nout) (j + A.nin) N K hr2 hc2 (by omega) (by omega)
        (by
          intro r c h1 h2 h3 h4
          rw [hstep r c]
          have : ¬ (i ≤ r ∧ r < i + A.nout) := by omega
          rw [if_neg this]
          exact hz r c (by omega) h2 (by omega) h4)
      refine ⟨g1, g2, fun r c => ?_⟩
      rw [g3 r c, hstep r c]
      by_cases hA : i ≤ r ∧ r < i + A.nout
      · -- a row of this factor
        have n1 : ¬ (i + A.nout ≤ r ∧ r < N) := by omega
        have n2 : i ≤ r ∧ r < N := by omega
        have n3 : r - i < A.nout := by omega
        rw [if_neg n1, if_pos hA, if_pos n2]
        by_cases hc1 : c = K
        · rw [if_pos hc1, if_pos hc1]
          simp [prodOff, n3]
        · rw [if_neg hc1, if_neg hc1]
          by_cases hc2 : j ≤ c ∧ c < j + A.nin
          · have : j ≤ c ∧ c < K := by omega
            rw [if_pos hc2, if_pos this]
            have : c - j < A.nin := by omega
            simp [prodLin, n3, this]
          · rw [if_neg hc2]
            by_cases hc3 : j ≤ c ∧ c < K
            · rw [if_pos hc3]
              have : ¬ (c - j < A.nin) := by omega
              simp only [prodLin, n3, if_true, this, if_false]
              exact hz r c (by omega) (by omega) (by omega) (by omega)
            · rw [if_neg hc3]
      · rw [if_neg hA]
        by_cases hB : i + A.nout ≤ r ∧ r < N
        · have n2 : i ≤ r ∧ r < N := by omega
          have n3 : ¬ (r - i < A.nout) := by omega
          have n4 : r - (i + A.nout) = r - i - A.nout := by omega
          rw [if_pos hB, if_pos n2]
          by_cases hc1 : c = K
          · rw [if_pos hc1, if_pos hc1]
            simp [prodOff, n3, n4]
          · rw [if_neg hc1, if_neg hc1]
            by_cases hc2 : j + A.nin ≤ c ∧ c < K
            · have h5 : j ≤ c ∧ c < K := by omega
              have h6 : ¬ (c - j < A.nin) := by omega
              have h7 : c - (j + A.nin) = c - j - A.nin := by omega
              rw [if_pos hc2, if_pos h5]
              simp [prodLin, n3, h6, n4, h7]
            · rw [if_neg hc2]
              by_cases hc3 : j ≤ c ∧ c < K
              · rw [if_pos hc3]
                have h6 : c - j < A.nin := by omega
                simp only [prodLin, n3, if_false, h6, if_true]
                exact hz r c (by omega) (by omega) (by omega) (by omega)
              · rw [if_neg hc3]
        · have n2 : ¬ (i ≤ r ∧ r < N) := by omega
          rw [if_neg hB, if_neg n2]

theorem srcProductLoop_eq (l : List Aff) :
    (srcProductLoop l
      (Src.productCorner (Src.productZeros (sumNat (l.map Aff.nout)) (sumNat (l.map Aff.nin)))) 0 0).toMat
      = prodMat l := by
  set N := sumNat (l.map Aff.nout) with hN
  set K := sumNat (l.map Aff.nin) with hK
  have hf : ∀ r c, (Src.productCorner (Src.productZeros N K)).f r c = if r = N ∧ c = K then 1 else 0 := by
    intro r c
    simp [Src.productCorner, Src.productZeros, setCell, zeros, Ix.res]
  obtain ⟨g1, g2, g3⟩ := srcProductLoop_spec l (Src.productCorner (Src.productZeros N K)) 0 0 N K
    (by simp [Src.productCorner, Src.productZeros, setCell, zeros])
    (by simp [Src.productCorner, Src.productZeros, setCell, zeros])
    (by omega) (by omega)
    (by
      intro r c _ h2 _ _
      rw [hf]
      have : ¬ (r = N ∧ c = K) := by omega
      rw [if_neg this])
  unfold FM.toMat prodMat
  rw [g1, g2]
  simp only [← hN, ← hK]
  apply mkMat_congr
  intro r c hr hc
  rw [g3 r c, hf]
  by_cases h1 : r = N
  · have : ¬ (0 ≤ r ∧ r < N) := by omega
    rw [if_neg this, if_pos h1]
    by_cases h2 : c = K
    · simp [h1, h2]
    · simp [h2]
  · have : 0 ≤ r ∧ r < N := by omega
    rw [if_pos this, if_neg h1]
    by_cases h2 : c = K
    · rw [if_pos h2, if_pos h2, Nat.sub_zero]
    · have : 0 ≤ c ∧ c < K := by omega
      rw [if_neg h2, if_neg h2, if_pos this, Nat.sub_zero, Nat.sub_zero]

/-! ### shifts, bottom row, constructors -/

theorem shiftMat_eq_src (n : Nat) (d : List Rat) :
    shiftMat n d = (Src.shiftDomSet (Src.shiftDomInit n) (vec d)).toMat := by
  unfold shiftMat FM.toMat
  simp only [Src.shiftDomSet, Src.shiftDomInit, setCol, Np.identity, Sel.mem, Sel.lo, Sel.hi, Ix.res, vec,
    Nat.add_sub_cancel, Nat.sub_zero]
  apply mkMat_congr
  intro i j hi hj
  have e : min (n + 1) n = n := by omega
  rw [e]
  by_cases h1 : i < n
  · by_cases h2 : j = n
    · have : i ≠ j := by omega
      simp [h1, h2, this]
      omega
    · simp [h1, h2]
  · have : i = n := by omega
    by_cases h2 : j = n
    · simp [this, h2]
    · have h3 : n ≠ j := fun h => h2 h.symm
      simp [this, h2, h3]

theorem shiftMat_neg_eq_src (n : Nat) (d : List Rat) :
    shiftMat n (d.map fun q => -q) = (Src.shiftRngSet (Src.shiftRngInit n) (vec d)).toMat := by
  have hv : vneg (vec d) = vec (d.map fun q => -q) := by
    funext i
    simp only [vneg, vec, List.getD_eq_getElem?_getD, List.getElem?_map]
    cases d[i]? <;> simp
  rw [shiftMat_eq_src]
  unfold Src.shiftRngSet Src.shiftDomSet Src.shiftRngInit Src.shiftDomInit
  rw [hv]

theorem bottomRow_getD (nin j : Nat) (hj : j < nin + 1) :
    (Src.initBottomRow nin).getD j 0 = if j = nin then 1 else 0 := by
  unfold Src.initBottomRow
  by_cases h : j < nin
  · have : j ≠ nin := by omega
    simp [List.getD_eq_getElem?_getD, List.getElem?_append_left, h, this]
  · have : j = nin := by omega
    subst this
    simp [List.getD_eq_getElem?_getD, List.getElem?_append_right]

theorem bottomOK_eq_src (m : Mat) (nin nout : Nat) :
    bottomOK m nin nout =
      !(Src.initBottomBad (ofMat (nout + 1) (nin + 1) m) (Src.initBottomRow nin)) := by
  unfold bottomOK Src.initBottomBad allclose
  rw [Bool.not_not]
  have hl : (Src.initBottomRow nin).length = nin + 1 := by simp [Src.initBottomRow]
  rw [hl]
  apply all_congr'
  intro j hj
  have hj' : j < nin + 1 := List.mem_range.mp hj
  rw [bottomRow_getD nin j hj']
  have : (row (ofMat (nout + 1) (nin + 1) m) (.neg 1)).getD j 0 = m.get nout j := by
    unfold row ofMat
    simp only [Ix.res, Nat.add_sub_cancel]
    rw [getD_map_range _ hj']
  rw [this]

theorem fromStartStep_eq_src (start step : List Rat) (hl : start.length = step.length) :
    fromMatvec (diagMat step) .f8 start = .ok (Src.fromStartStepParams step (vec start)).toMat := by
  unfold fromMatvec
  have hr : (diagMat step).rows = step.length := rows_mkMat _ _ _
  have hc : (diagMat step).cols = step.length := cols_mkMat_sq _ _
  have hb : bcastInto step.length .f8 start = .ok start := by
    unfold bcastInto
    have : DType.f8.isInt = false := by decide
    simp [hl, this]
  simp only [hr, hc, hb]
  congr 1
  unfold Src.fromStartStepParams Src.fromParamsTuple Np.fromMatvec Np.diag FM.toMat
  apply mkMat_congr
  intro i j hi hj
  simp only [vec]
  by_cases h1 : i = step.length
  · simp [h1]
  · by_cases h2 : j = step.length
    · simp [h1, h2]
    · simp only [h1, h2, if_false]
      unfold diagMat
      rw [get_mkMat _ (by omega) (by omega)]

/-! ### `_fix0`, `orth_axes` -/

/-- `_fix0` assembled from the regenerated statements -/
def srcFix0 (aff : FM) : FM :=
  if Src.fix0NoFix (Src.fix0Zrs (Src.fix0Zeros aff)) (Src.fix0Zcs (Src.fix0Zeros aff)) then aff
  else Src.fix0Set aff (Src.fix0Zrs (Src.fix0Zeros aff)) (Src.fix0Zcs (Src.fix0Zeros aff))

theorem srcFix0_eq (m : Mat) (nout nin i j : Nat) (hi : i ≤ nout) (hj : j ≤ nin) :
    (srcFix0 (ofMat (nout + 1) (nin + 1) m)).f i j = (fix0 m nout nin).get i j := by
  have e1 : min (nout + 1) nout = nout := by omega
  have e2 : min (nin + 1) nin = nin := by omega
  have hzr : Src.fix0Zrs (Src.fix0Zeros (ofMat (nout + 1) (nin + 1) m)) =
      (List.range nout).filter fun i => (List.range nin).all fun j => m.get i j == 0 := by
    simp [Src.fix0Zrs, Src.fix0Zeros, whereAllAxis1, eq0, sub, ofMat, Sel.lo, Sel.hi, Ix.res, e1, e2]
  have hzc : Src.fix0Zcs (Src.fix0Zeros (ofMat (nout + 1) (nin + 1) m)) =
      (List.range nin).filter fun j => (List.range nout).all fun i => m.get i j == 0 := by
    simp [Src.fix0Zcs, Src.fix0Zeros, whereAllAxis0, eq0, sub, ofMat, Sel.lo, Sel.hi, Ix.res, e1, e2]
  unfold srcFix0 fix0
  rw [hzr, hzc]
  generalize ((List.range nout).filter fun i => (List.range nin).all fun j => m.get i j == 0) = zr
  generalize ((List.range nin).filter fun j => (List.range nout).all fun i => m.get i j == 0) = zc
  rcases zr with _ | ⟨r, _ | ⟨r2, tr⟩⟩ <;> rcases zc with _ | ⟨c, _ | ⟨c2, tc⟩⟩ <;>
    simp [Src.fix0NoFix, Src.fix0Set, setCell, ofMat, Ix.res, get_mkMat _ (Nat.lt_succ_of_le hi) (Nat.lt_succ_of_le hj)]

/-- `orth_axes` assembled from the regenerated statements -/
def srcOrth (affine : FM) (in_ax out_ax : Nat) (allow_zero : Bool) (tol : Rat) : Bool :=
  if Src.orthEarly allow_zero (Src.orthNzs (Src.orthSplit affine).1 tol) out_ax in_ax then false
  else Src.orthReturn (Src.orthClear (Src.orthNzs (Src.orthSplit affine).1 tol) out_ax in_ax) out_ax in_ax

theorem orthAxes_eq_src (m : Mat) (nout nin inAx outAx : Nat) (az : Bool) :
    orthAxes m nout nin inAx outAx az
      = srcOrth (ofMat (nout + 1) (nin + 1) m) inAx outAx az ((1 : Rat) / 100000) := by
  unfold orthAxes srcOrth Src.orthEarly Src.orthReturn Src.orthClear Src.orthNzs Src.orthSplit
  simp only [absGt, mvA, ofMat, bclear, allRowFalse, allColFalse, Nat.add_sub_cancel]
  have hA : ((List.range nin).all fun j =>
        j == inAx || !(decide ((1 : Rat) / 100000 < rabs (m.get outAx j)))) =
      ((List.range nin).all fun j =>
        !(if outAx = outAx ∧ j = inAx then false else decide ((1 : Rat) / 100000 < rabs (m.get outAx j)))) := by
    apply all_congr'
    intro j _
    by_cases h : j = inAx <;> simp [h]
  have hB : ((List.range nout).all fun i =>
        i == outAx || !(decide ((1 : Rat) / 100000 < rabs (m.get i inAx)))) =
      ((List.range nout).all fun i =>
        !(if i = outAx ∧ inAx = inAx then false else decide ((1 : Rat) / 100000 < rabs (m.get i inAx)))) := by
    apply all_congr'
    intro i _
    by_cases h : i = outAx <;> simp [h]
  rw [hA, hB]
  simp

/-! ### `__call__` -/

theorem callOut_eq (A : Aff) (pts : List (List Rat)) (k i : Nat) (hi : i < A.nout) :
    (Src.callOut ⟨pts.length, A.nin, fun r c => (pts.getD r []).getD c 0⟩
        (Src.callSplit (ofMat (A.nout + 1) (A.nin + 1) A.aff)).1
        (Src.callSplit (ofMat (A.nout + 1) (A.nin + 1) A.aff)).2).f k i
      = (A.apply (pts.getD k [])).getD i 0 := by
  rw [apply_getD A _ hi]
  simp only [Src.callOut, Src.callSplit, addRow, dot, T, mvA, mvB, ofMat, Nat.add_sub_cancel]
  congr 1
  apply sumTo_congr
  intro j _
  rw [mul_comm]

end NipyVerif.C01
