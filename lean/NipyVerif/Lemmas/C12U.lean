/-
Helper lemmas for C12 part U: the sweep of `threshold_bifurcations` is a union-find over the
vertices processed so far.  Connectivity inside a vertex set, what adding one vertex does to it,
`np.unique`, the case analysis of one sweep step and the invariant the sweep keeps.
-/
import NipyVerif.Model.C12F
import NipyVerif.Lemmas.C12F
import Mathlib.Logic.Relation

namespace NipyVerif.C12

/-! ### connectivity inside a set of vertices -/

/-- neighbour rows of an undirected graph -/
def SymmRows (rows : Nat → List Nat) : Prop := ∀ i j, j ∈ rows i → i ∈ rows j

/-- one edge of the subgraph induced by `S` -/
def StepIn (rows : Nat → List Nat) (S : Nat → Prop) (a b : Nat) : Prop := S a ∧ S b ∧ b ∈ rows a

/-- `u` and `v` are joined by a path all of whose vertices lie in `S` -/
def Conn (rows : Nat → List Nat) (S : Nat → Prop) : Nat → Nat → Prop :=
  Relation.ReflTransGen (StepIn rows S)

theorem Conn.refl' {rows : Nat → List Nat} {S : Nat → Prop} (u : Nat) : Conn rows S u u :=
  Relation.ReflTransGen.refl

theorem Conn.trans' {rows : Nat → List Nat} {S : Nat → Prop} {u v w : Nat}
    (h1 : Conn rows S u v) (h2 : Conn rows S v w) : Conn rows S u w :=
  Relation.ReflTransGen.trans h1 h2

theorem Conn.symm' {rows : Nat → List Nat} {S : Nat → Prop} (hs : SymmRows rows) {u v : Nat}
    (h : Conn rows S u v) : Conn rows S v u := by
  induction h with
  | refl => exact Relation.ReflTransGen.refl
  | tail _ hbc ih =>
    exact Relation.ReflTransGen.head ⟨hbc.2.1, hbc.1, hs _ _ hbc.2.2⟩ ih

theorem Conn.mono' {rows : Nat → List Nat} {S S' : Nat → Prop} (hsub : ∀ x, S x → S' x) {u v : Nat}
    (h : Conn rows S u v) : Conn rows S' u v := by
  induction h with
  | refl => exact Relation.ReflTransGen.refl
  | tail _ hbc ih => exact Relation.ReflTransGen.tail ih ⟨hsub _ hbc.1, hsub _ hbc.2.1, hbc.2.2⟩

/-- both ends of a non-trivial path lie in the set -/
theorem Conn.mem_right {rows : Nat → List Nat} {S : Nat → Prop} {u v : Nat} (h : Conn rows S u v)
    (hu : S u) : S v := by
  induction h with
  | refl => exact hu
  | tail _ hbc _ => exact hbc.2.1

/-- `x` touches the new vertex `i`: it is `i`, or it is joined inside `S` to a neighbour of `i` -/
def Touch (rows : Nat → List Nat) (S : Nat → Prop) (i x : Nat) : Prop :=
  x = i ∨ (S x ∧ ∃ a, S a ∧ a ∈ rows i ∧ Conn rows S x a)

/-- **Adding one vertex**: in `S ∪ {i}` two vertices are joined iff they were joined in `S` or both
    touch `i`. -/
theorem conn_insert_iff {rows : Nat → List Nat} (hs : SymmRows rows) (S : Nat → Prop) (i : Nat)
    (hi : ¬ S i) (x y : Nat) (hx : S x ∨ x = i) :
    Conn rows (fun z => S z ∨ z = i) x y ↔
      (S x ∧ S y ∧ Conn rows S x y) ∨ (Touch rows S i x ∧ Touch rows S i y) := by
  constructor
  · intro h
    induction h with
    | refl =>
      rcases hx with hx | hx
      · exact Or.inl ⟨hx, hx, Conn.refl' _⟩
      · exact Or.inr ⟨Or.inl hx, Or.inl hx⟩
    | @tail b c _ hbc ih =>
      obtain ⟨hb, hc, hcb⟩ := hbc
      -- the last edge b — c
      rcases hb with hbS | hbi <;> rcases hc with hcS | hci
      · -- an edge of S
        have hstep : StepIn rows S b c := ⟨hbS, hcS, hcb⟩
        rcases ih with ⟨hxS, _, hxb⟩ | ⟨hTx, hTb⟩
        · exact Or.inl ⟨hxS, hcS, Relation.ReflTransGen.tail hxb hstep⟩
        · refine Or.inr ⟨hTx, ?_⟩
          rcases hTb with hbi | ⟨_, a, haS, hai, hba⟩
          · exact absurd (hbi ▸ hbS) hi
          · refine Or.inr ⟨hcS, a, haS, hai, ?_⟩
            exact Relation.ReflTransGen.head ⟨hcS, hbS, hs _ _ hcb⟩ hba
      · -- b in S, c = i: b is a neighbour of i
        subst hci
        have hbN : b ∈ rows c := hs _ _ hcb
        have hTb : Touch rows S c b := Or.inr ⟨hbS, b, hbS, hbN, Conn.refl' _⟩
        rcases ih with ⟨hxS, _, hxb⟩ | ⟨hTx, _⟩
        · exact Or.inr ⟨Or.inr ⟨hxS, b, hbS, hbN, hxb⟩, Or.inl rfl⟩
        · exact Or.inr ⟨hTx, Or.inl rfl⟩
      · -- b = i, c in S: c is a neighbour of i
        subst hbi
        have hTc : Touch rows S b c := Or.inr ⟨hcS, c, hcS, hcb, Conn.refl' _⟩
        rcases ih with ⟨_, hbS, _⟩ | ⟨hTx, _⟩
        · exact absurd hbS hi
        · exact Or.inr ⟨hTx, hTc⟩
      · -- a self loop at i
        subst hci
        rcases ih with ⟨_, hbS, _⟩ | ⟨hTx, _⟩
        · exact absurd (hbi ▸ hbS) hi
        · exact Or.inr ⟨hTx, Or.inl rfl⟩
  · have hmono : ∀ {u v}, Conn rows S u v → Conn rows (fun z => S z ∨ z = i) u v :=
      fun h => Conn.mono' (fun _ hz => Or.inl hz) h
    -- from a touching vertex to i
    have hto : ∀ z, Touch rows S i z → Conn rows (fun z => S z ∨ z = i) z i := by
      intro z hz
      rcases hz with rfl | ⟨_, a, haS, hai, hza⟩
      · exact Conn.refl' _
      · exact Relation.ReflTransGen.tail (hmono hza) ⟨Or.inl haS, Or.inr rfl, hs _ _ hai⟩
    rintro (⟨_, _, h⟩ | ⟨hTx, hTy⟩)
    · exact hmono h
    · exact Conn.trans' (hto x hTx) (Conn.symm' hs (hto y hTy))

/-! ### `np.unique` -/

/-- drop equal neighbours (the `foldr` inside `sortedUnique`) -/
def dedupAdj (l : List Nat) : List Nat :=
  l.foldr (fun x acc => match acc with
    | [] => [x]
    | y :: _ => if x == y then acc else x :: acc) []

theorem dedupAdj_cons (a : Nat) (t : List Nat) :
    dedupAdj (a :: t) = match dedupAdj t with
      | [] => [a]
      | y :: r => if a == y then y :: r else a :: y :: r := by
  show (match dedupAdj t with
    | [] => [a]
    | y :: _ => if a == y then dedupAdj t else a :: dedupAdj t) = _
  cases dedupAdj t <;> rfl

theorem mem_dedupAdj (l : List Nat) (x : Nat) : x ∈ dedupAdj l ↔ x ∈ l := by
  induction l with
  | nil => simp [dedupAdj]
  | cons a t ih =>
    rw [dedupAdj_cons]
    cases h : dedupAdj t with
    | nil =>
      rw [h] at ih
      have ht : x ∉ t := fun hx => by have := ih.2 hx; cases this
      simp [ht]
    | cons y r =>
      rw [h] at ih
      simp only
      by_cases hay : a = y
      · subst hay
        simp only [beq_self_eq_true, if_true, List.mem_cons]
        constructor
        · intro hx; exact Or.inr (ih.1 (List.mem_cons.2 hx))
        · rintro (rfl | hx)
          · exact Or.inl rfl
          · exact List.mem_cons.1 (ih.2 hx)
      · have : (a == y) = false := by simpa using hay
        simp only [this, Bool.false_eq_true, if_false, List.mem_cons]
        constructor
        · rintro (rfl | hx)
          · exact Or.inl rfl
          · exact Or.inr (ih.1 (List.mem_cons.2 hx))
        · rintro (rfl | hx)
          · exact Or.inl rfl
          · exact Or.inr (List.mem_cons.1 (ih.2 hx))

theorem dedupAdj_pairwise (l : List Nat) (h : l.Pairwise (· ≤ ·)) : (dedupAdj l).Pairwise (· < ·) := by
  induction l with
  | nil => simp [dedupAdj]
  | cons a t ih =>
    obtain ⟨hat, ht⟩ := List.pairwise_cons.1 h
    have ih := ih ht
    rw [dedupAdj_cons]
    cases hd : dedupAdj t with
    | nil => simp
    | cons y r =>
      rw [hd] at ih
      simp only
      by_cases hay : a = y
      · subst hay; simpa using ih
      · have : (a == y) = false := by simpa using hay
        simp only [this, Bool.false_eq_true, if_false]
        refine List.pairwise_cons.2 ⟨?_, ih⟩
        intro z hz
        have hyt : y ∈ t := (mem_dedupAdj t y).1 (by rw [hd]; exact List.mem_cons_self)
        have hay' : a < y := lt_of_le_of_ne (hat y hyt) hay
        rcases List.mem_cons.1 hz with rfl | hz
        · exact hay'
        · exact lt_trans hay' ((List.pairwise_cons.1 ih).1 z hz)

theorem sortedUnique_eq (l : List Nat) :
    sortedUnique l = dedupAdj (l.mergeSort (fun a b => a ≤ b)) := rfl

theorem mem_sortedUnique (l : List Nat) (x : Nat) : x ∈ sortedUnique l ↔ x ∈ l := by
  rw [sortedUnique_eq, mem_dedupAdj, List.mem_mergeSort]

theorem sortedUnique_sorted (l : List Nat) : (sortedUnique l).Pairwise (· < ·) := by
  rw [sortedUnique_eq]
  apply dedupAdj_pairwise
  have hp := List.pairwise_mergeSort (le := fun (a b : Nat) => decide (a ≤ b))
    (by intro a b c; simp only [decide_eq_true_eq]; omega)
    (by intro a b; simp only [Bool.or_eq_true, decide_eq_true_eq]; omega) l
  exact hp.imp (by intro a b hab; simpa using hab)

theorem sortedUnique_nodup (l : List Nat) : (sortedUnique l).Nodup :=
  (sortedUnique_sorted l).imp (fun h => Nat.ne_of_lt h)

/-! ### one step of the sweep, case by case -/

/-- region index carried by a vertex -/
def labOf (st : BifSt) (v : Nat) : Nat := (st.llabel v).toNat

/-- `a` is a neighbour of `i` that the sweep has already labelled -/
def ProcNbr (rows : Nat → List Nat) (st : BifSt) (i a : Nat) : Prop := a ∈ rows i ∧ -1 < st.llabel a

/-- `nlabel` of the step at `i`: `unique(root[unique(llabel[rows[i]]) without -1])` -/
def nlabelOf (rows : Nat → List Nat) (st : BifSt) (i : Nat) : List Nat :=
  sortedUnique ((sortedUnique ((((rows i).map st.llabel).filter (fun l => decide (-1 < l))).map
    Int.toNat)).map st.root)

theorem mem_nlabelOf (rows : Nat → List Nat) (st : BifSt) (i r : Nat) :
    r ∈ nlabelOf rows st i ↔ ∃ a, ProcNbr rows st i a ∧ st.root (labOf st a) = r := by
  simp only [nlabelOf, mem_sortedUnique, List.mem_map, List.mem_filter, decide_eq_true_eq, ProcNbr, labOf]
  constructor
  · rintro ⟨c, ⟨l, ⟨⟨a, ha, rfl⟩, hl⟩, rfl⟩, rfl⟩
    exact ⟨a, ⟨ha, hl⟩, rfl⟩
  · rintro ⟨a, ⟨ha, hl⟩, rfl⟩
    exact ⟨_, ⟨_, ⟨⟨a, ha, rfl⟩, hl⟩, rfl⟩, rfl⟩

theorem nlabelOf_nodup (rows : Nat → List Nat) (st : BifSt) (i : Nat) : (nlabelOf rows st i).Nodup :=
  sortedUnique_nodup _

/-- `root` after a saddle: `root[nlabel] = q; for j in nlabel: root[root == j] = q` -/
def saddleRoot (st : BifSt) (nl : List Nat) : Nat → Nat :=
  nl.foldl (fun (rt : Nat → Nat) j => fun k => if rt k == j then st.q else rt k)
    (fun k => if nl.contains k then st.q else st.root k)

theorem foldRoot_eq (q : Nat) (L : List Nat) (hq : q ∉ L) (rt : Nat → Nat) (k : Nat) :
    (L.foldl (fun (rt : Nat → Nat) j => fun k => if rt k == j then q else rt k) rt) k =
      if rt k ∈ L then q else rt k := by
  induction L generalizing rt with
  | nil => simp
  | cons j t ih =>
    rw [List.foldl_cons, ih (fun h => hq (List.mem_cons_of_mem _ h))]
    have hqj : q ≠ j := fun h => hq (h ▸ List.mem_cons_self)
    by_cases hk : rt k = j
    · have hqt : q ∉ t := fun h => hq (List.mem_cons_of_mem _ h)
      simp [hk, hqt]
    · have : (rt k == j) = false := by simpa using hk
      simp only [this, Bool.false_eq_true, if_false, List.mem_cons, hk, false_or]

/-- the bookkeeping of a saddle sends every region whose root is merged to the new region, and
    leaves the other roots alone -/
theorem saddleRoot_eq (st : BifSt) (nl : List Nat) (hq : st.q ∉ nl) (hfix : ∀ k ∈ nl, st.root k = k)
    (k : Nat) : saddleRoot st nl k = if st.root k ∈ nl then st.q else st.root k := by
  unfold saddleRoot
  rw [foldRoot_eq st.q nl hq]
  by_cases hk : k ∈ nl
  · have h2 : st.root k ∈ nl := by rw [hfix k hk]; exact hk
    simp [hk, h2, hq]
  · simp [hk]

theorem no_procNbr_iff (rows : Nat → List Nat) (st : BifSt) (i : Nat) :
    (((rows i).map st.llabel).filter (fun l => decide (-1 < l))).isEmpty = true ↔
      ∀ a, ¬ ProcNbr rows st i a := by
  rw [List.isEmpty_iff, List.filter_eq_nil_iff]
  simp only [List.mem_map, decide_eq_true_eq, forall_exists_index, and_imp, forall_apply_eq_imp_iff₂,
    ProcNbr, not_and]

/-- a vertex without labelled neighbour opens a new region -/
theorem bifStep_new (rows : Nat → List Nat) (st : BifSt) (i : Nat) (h : ∀ a, ¬ ProcNbr rows st i a) :
    bifStep rows st i = ⟨upd st.llabel i (st.q : Int), st.parent, st.root, st.q + 1⟩ := by
  unfold bifStep
  dsimp only
  rw [if_pos ((no_procNbr_iff rows st i).2 h)]

/-- all labelled neighbours under one root: a regular point, it joins that root -/
theorem bifStep_regular (rows : Nat → List Nat) (st : BifSt) (i r : Nat)
    (hex : ∃ a, ProcNbr rows st i a) (h : nlabelOf rows st i = [r]) :
    bifStep rows st i = ⟨upd st.llabel i (r : Int), st.parent, st.root, st.q⟩ := by
  have hne : ¬ (((rows i).map st.llabel).filter (fun l => decide (-1 < l))).isEmpty = true := by
    rw [no_procNbr_iff]; intro hall; obtain ⟨a, ha⟩ := hex; exact hall a ha
  unfold bifStep
  dsimp only
  rw [if_neg hne]
  unfold nlabelOf at h
  rw [h]

/-- labelled neighbours under several roots: a saddle, a new region becomes their parent -/
theorem bifStep_saddle (rows : Nat → List Nat) (st : BifSt) (i : Nat)
    (hex : ∃ a, ProcNbr rows st i a) (h : ∀ r, nlabelOf rows st i ≠ [r]) :
    bifStep rows st i = ⟨upd st.llabel i (st.q : Int),
      fun k => if (nlabelOf rows st i).contains k then st.q else st.parent k,
      saddleRoot st (nlabelOf rows st i), st.q + 1⟩ := by
  have hne : ¬ (((rows i).map st.llabel).filter (fun l => decide (-1 < l))).isEmpty = true := by
    rw [no_procNbr_iff]; intro hall; obtain ⟨a, ha⟩ := hex; exact hall a ha
  unfold bifStep
  dsimp only
  rw [if_neg hne]
  split
  · rename_i r hr
    exact absurd hr (h r)
  · rfl

/-! ### the invariant of the sweep -/

/-- What holds after the sweep has processed the vertices `done` (in that order):
    `llabel`/`root`/`parent` are a union-find structure over the regions `0..q-1` whose classes are
    the connected components of the subgraph induced by `done`. -/
structure BifInv (rows : Nat → List Nat) (done : List Nat) (st : BifSt) : Prop where
  /-- vertices not reached yet carry `-1` -/
  unl : ∀ v, v ∉ done → st.llabel v = -1
  /-- processed vertices carry a region index -/
  lab : ∀ v ∈ done, 0 ≤ st.llabel v ∧ labOf st v < st.q
  /-- unused indices are untouched -/
  out : ∀ c, st.q ≤ c → st.root c = c ∧ st.parent c = c
  rootlt : ∀ c < st.q, st.root c < st.q
  rootidem : ∀ c, st.root (st.root c) = st.root c
  /-- a parent is a later region -/
  par : ∀ c < st.q, st.parent c = c ∨ (c < st.parent c ∧ st.parent c < st.q)
  rootpar : ∀ c, st.root (st.parent c) = st.root c
  rootfix : ∀ c, st.root c = c ↔ st.parent c = c
  /-- every region is the label of some vertex -/
  occ : ∀ c < st.q, ∃ v ∈ done, st.llabel v = (c : Int)
  /-- same root ⇔ connected through processed vertices -/
  conn : ∀ u ∈ done, ∀ v ∈ done,
    st.root (labOf st u) = st.root (labOf st v) ↔ Conn rows (· ∈ done) u v

theorem bifInv_init (rows : Nat → List Nat) : BifInv rows [] bifInit where
  unl := fun _ _ => rfl
  lab := fun _ h => by cases h
  out := fun _ _ => ⟨rfl, rfl⟩
  rootlt := fun c h => by simp [bifInit] at h
  rootidem := fun _ => rfl
  par := fun c h => by simp [bifInit] at h
  rootpar := fun _ => rfl
  rootfix := fun _ => Iff.rfl
  occ := fun c h => by simp [bifInit] at h
  conn := fun _ h => by cases h

theorem procNbr_iff {rows : Nat → List Nat} {done : List Nat} {st : BifSt} (inv : BifInv rows done st)
    (i a : Nat) : ProcNbr rows st i a ↔ a ∈ rows i ∧ a ∈ done := by
  unfold ProcNbr
  constructor
  · rintro ⟨h1, h2⟩
    refine ⟨h1, ?_⟩
    by_contra hn
    rw [inv.unl a hn] at h2
    exact absurd h2 (by decide)
  · rintro ⟨h1, h2⟩
    exact ⟨h1, by have := (inv.lab a h2).1; omega⟩

/-- the union-find step, uniformly for the three cases: the roots in `M` (those of the labelled
    neighbours of `i`) are sent to `t`, and `i` is labelled `t` -/
theorem conn_step {rows : Nat → List Nat} (hs : SymmRows rows) {done : List Nat} {st : BifSt}
    (inv : BifInv rows done st) {i : Nat} (hi : i ∉ done) (M : Nat → Prop) (t : Nat) (root' : Nat → Nat)
    (hM : ∀ r, M r ↔ ∃ a, ProcNbr rows st i a ∧ st.root (labOf st a) = r)
    (hT : ∀ x ∈ done, st.root (labOf st x) = t → M t)
    (hr1 : ∀ k, M (st.root k) → root' k = t)
    (hr2 : ∀ k, ¬ M (st.root k) → root' k = st.root k)
    (hrt : root' t = t) :
    ∀ u ∈ done ++ [i], ∀ v ∈ done ++ [i],
      (root' (if u = i then t else labOf st u) = root' (if v = i then t else labOf st v) ↔
        Conn rows (· ∈ done ++ [i]) u v) := by
  have hS : (fun z => z ∈ done ++ [i]) = (fun z => z ∈ done ∨ z = i) := by
    funext z; simp
  -- touching `i` = having one's root among the merged ones
  have hTouch : ∀ x ∈ done, (Touch rows (· ∈ done) i x ↔ M (st.root (labOf st x))) := by
    intro x hx
    constructor
    · rintro (rfl | ⟨_, a, haS, hai, hxa⟩)
      · exact absurd hx hi
      · rw [hM]
        exact ⟨a, (procNbr_iff inv i a).2 ⟨hai, haS⟩, ((inv.conn x hx a haS).2 hxa).symm⟩
    · intro hm
      obtain ⟨a, ha, hra⟩ := (hM _).1 hm
      obtain ⟨hai, haS⟩ := (procNbr_iff inv i a).1 ha
      exact Or.inr ⟨hx, a, haS, hai, (inv.conn x hx a haS).1 hra.symm⟩
  have hTi : Touch rows (· ∈ done) i i := Or.inl rfl
  intro u hu v hv
  rw [hS, conn_insert_iff hs (· ∈ done) i hi u v (by simpa using hu)]
  have hu' : u ∈ done ∨ u = i := by simpa using hu
  have hv' : v ∈ done ∨ v = i := by simpa using hv
  rcases hu' with hu' | rfl <;> rcases hv' with hv' | rfl
  · have hui : u ≠ i := fun h => hi (h ▸ hu')
    have hvi : v ≠ i := fun h => hi (h ▸ hv')
    rw [if_neg hui, if_neg hvi]
    by_cases hmu : M (st.root (labOf st u)) <;> by_cases hmv : M (st.root (labOf st v))
    · rw [hr1 _ hmu, hr1 _ hmv]
      exact ⟨fun _ => Or.inr ⟨(hTouch u hu').2 hmu, (hTouch v hv').2 hmv⟩, fun _ => rfl⟩
    · rw [hr1 _ hmu, hr2 _ hmv]
      constructor
      · intro h
        exact absurd (h ▸ hT v hv' h.symm) hmv
      · rintro (⟨_, _, h⟩ | ⟨_, h⟩)
        · exact absurd ((inv.conn u hu' v hv').2 h ▸ hmu) hmv
        · exact absurd ((hTouch v hv').1 h) hmv
    · rw [hr2 _ hmu, hr1 _ hmv]
      constructor
      · intro h
        exact absurd (h.symm ▸ hT u hu' h) hmu
      · rintro (⟨_, _, h⟩ | ⟨h, _⟩)
        · exact absurd ((inv.conn u hu' v hv').2 h ▸ hmv) hmu
        · exact absurd ((hTouch u hu').1 h) hmu
    · rw [hr2 _ hmu, hr2 _ hmv, inv.conn u hu' v hv']
      constructor
      · intro h; exact Or.inl ⟨hu', hv', h⟩
      · rintro (⟨_, _, h⟩ | ⟨h, _⟩)
        · exact h
        · exact absurd ((hTouch u hu').1 h) hmu
  · -- u processed, v = i
    have hui : u ≠ v := fun h => hi (h ▸ hu')
    rw [if_neg hui, if_pos rfl, hrt]
    by_cases hmu : M (st.root (labOf st u))
    · rw [hr1 _ hmu]
      exact ⟨fun _ => Or.inr ⟨(hTouch u hu').2 hmu, hTi⟩, fun _ => rfl⟩
    · rw [hr2 _ hmu]
      constructor
      · intro h
        exact absurd (h.symm ▸ hT u hu' h) hmu
      · rintro (⟨_, h, _⟩ | ⟨h, _⟩)
        · exact absurd h hi
        · exact absurd ((hTouch u hu').1 h) hmu
  · -- u = i, v processed
    have hvi : v ≠ u := fun h => hi (h ▸ hv')
    rw [if_pos rfl, if_neg hvi, hrt]
    by_cases hmv : M (st.root (labOf st v))
    · rw [hr1 _ hmv]
      exact ⟨fun _ => Or.inr ⟨hTi, (hTouch v hv').2 hmv⟩, fun _ => rfl⟩
    · rw [hr2 _ hmv]
      constructor
      · intro h
        exact absurd (h ▸ hT v hv' h.symm) hmv
      · rintro (⟨h, _, _⟩ | ⟨_, h⟩)
        · exact absurd h hi
        · exact absurd ((hTouch v hv').1 h) hmv
  · rw [if_pos rfl]
    exact ⟨fun _ => Or.inr ⟨hTi, hTi⟩, fun _ => rfl⟩

theorem labOf_upd (st : BifSt) (i t : Nat) (p r : Nat → Nat) (q u : Nat) :
    labOf ⟨upd st.llabel i (t : Int), p, r, q⟩ u = if u = i then t else labOf st u := by
  unfold labOf upd
  dsimp only
  split <;> simp

theorem mem_snoc {done : List Nat} {i v : Nat} : v ∈ done ++ [i] ↔ v ∈ done ∨ v = i := by simp

/-- facts about `nlabel` under the invariant: its members are current roots below `q` -/
theorem nlabel_facts {rows : Nat → List Nat} {done : List Nat} {st : BifSt} (inv : BifInv rows done st)
    (i r : Nat) (hr : r ∈ nlabelOf rows st i) : r < st.q ∧ st.root r = r ∧ st.parent r = r := by
  obtain ⟨a, ha, rfl⟩ := (mem_nlabelOf rows st i r).1 hr
  have had := ((procNbr_iff inv i a).1 ha).2
  have h1 := inv.rootlt _ (inv.lab a had).2
  have h2 := inv.rootidem (labOf st a)
  exact ⟨h1, h2, (inv.rootfix _).1 h2⟩

theorem bifInv_new {rows : Nat → List Nat} (hs : SymmRows rows) {done : List Nat} {st : BifSt}
    (inv : BifInv rows done st) {i : Nat} (hi : i ∉ done) (hno : ∀ a, ¬ ProcNbr rows st i a) :
    BifInv rows (done ++ [i]) ⟨upd st.llabel i (st.q : Int), st.parent, st.root, st.q + 1⟩ where
  unl := by
    intro v hv
    have : v ∉ done ∧ v ≠ i := by simpa [not_or] using hv
    show upd st.llabel i _ v = -1
    unfold upd; rw [if_neg this.2]; exact inv.unl v this.1
  lab := by
    intro v hv
    rw [labOf_upd]
    show 0 ≤ upd st.llabel i _ v ∧ _ < st.q + 1
    unfold upd
    rcases mem_snoc.1 hv with h | rfl
    · have hvi : v ≠ i := fun e => hi (e ▸ h)
      rw [if_neg hvi, if_neg hvi]
      exact ⟨(inv.lab v h).1, Nat.lt_succ_of_lt (inv.lab v h).2⟩
    · rw [if_pos rfl, if_pos rfl]
      exact ⟨Int.natCast_nonneg _, Nat.lt_succ_self _⟩
  out := fun c hc => inv.out c (Nat.le_of_succ_le hc)
  rootlt := by
    intro c hc
    show st.root c < st.q + 1
    rcases Nat.lt_succ_iff_lt_or_eq.1 hc with h | rfl
    · exact Nat.lt_succ_of_lt (inv.rootlt c h)
    · rw [(inv.out _ (Nat.le_refl _)).1]; exact Nat.lt_succ_self _
  rootidem := inv.rootidem
  par := by
    intro c hc
    show st.parent c = c ∨ (c < st.parent c ∧ st.parent c < st.q + 1)
    rcases Nat.lt_succ_iff_lt_or_eq.1 hc with h | rfl
    · rcases inv.par c h with h1 | ⟨h1, h2⟩
      · exact Or.inl h1
      · exact Or.inr ⟨h1, Nat.lt_succ_of_lt h2⟩
    · exact Or.inl (inv.out _ (Nat.le_refl _)).2
  rootpar := inv.rootpar
  rootfix := inv.rootfix
  occ := by
    intro c hc
    show ∃ v ∈ done ++ [i], upd st.llabel i _ v = (c : Int)
    rcases Nat.lt_succ_iff_lt_or_eq.1 hc with h | rfl
    · obtain ⟨v, hv, hl⟩ := inv.occ c h
      have hvi : v ≠ i := fun e => hi (e ▸ hv)
      exact ⟨v, mem_snoc.2 (Or.inl hv), by unfold upd; rw [if_neg hvi]; exact hl⟩
    · exact ⟨i, mem_snoc.2 (Or.inr rfl), by unfold upd; rw [if_pos rfl]⟩
  conn := by
    intro u hu v hv
    rw [labOf_upd, labOf_upd]
    exact conn_step hs inv hi (fun _ => False) st.q st.root
      (fun r => ⟨False.elim, fun ⟨a, ha, _⟩ => hno a ha⟩)
      (fun x hx h => absurd h (Nat.ne_of_lt (inv.rootlt _ (inv.lab x hx).2)))
      (fun _ h => h.elim) (fun _ _ => rfl) (inv.out _ (Nat.le_refl _)).1 u hu v hv

theorem bifInv_regular {rows : Nat → List Nat} (hs : SymmRows rows) {done : List Nat} {st : BifSt}
    (inv : BifInv rows done st) {i : Nat} (hi : i ∉ done) (r : Nat) (hr : nlabelOf rows st i = [r]) :
    BifInv rows (done ++ [i]) ⟨upd st.llabel i (r : Int), st.parent, st.root, st.q⟩ := by
  obtain ⟨hrq, hrr, _⟩ := nlabel_facts inv i r (by rw [hr]; exact List.mem_cons_self)
  exact {
    unl := by
      intro v hv
      have : v ∉ done ∧ v ≠ i := by simpa [not_or] using hv
      show upd st.llabel i _ v = -1
      unfold upd; rw [if_neg this.2]; exact inv.unl v this.1
    lab := by
      intro v hv
      rw [labOf_upd]
      show 0 ≤ upd st.llabel i _ v ∧ _ < st.q
      unfold upd
      rcases mem_snoc.1 hv with h | rfl
      · have hvi : v ≠ i := fun e => hi (e ▸ h)
        rw [if_neg hvi, if_neg hvi]
        exact inv.lab v h
      · rw [if_pos rfl, if_pos rfl]
        exact ⟨Int.natCast_nonneg _, hrq⟩
    out := inv.out
    rootlt := inv.rootlt
    rootidem := inv.rootidem
    par := inv.par
    rootpar := inv.rootpar
    rootfix := inv.rootfix
    occ := by
      intro c hc
      show ∃ v ∈ done ++ [i], upd st.llabel i _ v = (c : Int)
      obtain ⟨v, hv, hl⟩ := inv.occ c hc
      have hvi : v ≠ i := fun e => hi (e ▸ hv)
      exact ⟨v, mem_snoc.2 (Or.inl hv), by unfold upd; rw [if_neg hvi]; exact hl⟩
    conn := by
      intro u hu v hv
      rw [labOf_upd, labOf_upd]
      refine conn_step hs inv hi (fun x => x = r) r st.root ?_ (fun _ _ _ => rfl)
        (fun _ h => h) (fun _ _ => rfl) hrr u hu v hv
      intro r'
      rw [← mem_nlabelOf, hr, List.mem_singleton] }

theorem bifInv_saddle {rows : Nat → List Nat} (hs : SymmRows rows) {done : List Nat} {st : BifSt}
    (inv : BifInv rows done st) {i : Nat} (hi : i ∉ done) :
    BifInv rows (done ++ [i]) ⟨upd st.llabel i (st.q : Int),
      fun k => if (nlabelOf rows st i).contains k then st.q else st.parent k,
      saddleRoot st (nlabelOf rows st i), st.q + 1⟩ := by
  set nl := nlabelOf rows st i with hnl
  have hfacts : ∀ r ∈ nl, r < st.q ∧ st.root r = r ∧ st.parent r = r := fun r hr => nlabel_facts inv i r hr
  have hq : st.q ∉ nl := fun h => Nat.lt_irrefl _ (hfacts _ h).1
  have hroot : ∀ k, saddleRoot st nl k = if st.root k ∈ nl then st.q else st.root k :=
    saddleRoot_eq st nl hq (fun k hk => (hfacts k hk).2.1)
  have hpar : ∀ k, (if nl.contains k then st.q else st.parent k) = if k ∈ nl then st.q else st.parent k := by
    intro k; simp
  have hrootq : st.root st.q = st.q := (inv.out _ (Nat.le_refl _)).1
  exact {
    unl := by
      intro v hv
      have : v ∉ done ∧ v ≠ i := by simpa [not_or] using hv
      show upd st.llabel i _ v = -1
      unfold upd; rw [if_neg this.2]; exact inv.unl v this.1
    lab := by
      intro v hv
      rw [labOf_upd]
      show 0 ≤ upd st.llabel i _ v ∧ _ < st.q + 1
      unfold upd
      rcases mem_snoc.1 hv with h | rfl
      · have hvi : v ≠ i := fun e => hi (e ▸ h)
        rw [if_neg hvi, if_neg hvi]
        exact ⟨(inv.lab v h).1, Nat.lt_succ_of_lt (inv.lab v h).2⟩
      · rw [if_pos rfl, if_pos rfl]
        exact ⟨Int.natCast_nonneg _, Nat.lt_succ_self _⟩
    out := by
      intro c hc
      show saddleRoot st nl c = c ∧ (if nl.contains c then st.q else st.parent c) = c
      have hc' : st.q ≤ c := Nat.le_of_succ_le hc
      have hcn : c ∉ nl := fun h => absurd (hfacts c h).1 (by omega)
      rw [hroot, hpar, (inv.out c hc').1, if_neg hcn, if_neg hcn]
      exact ⟨rfl, (inv.out c hc').2⟩
    rootlt := by
      intro c hc
      show saddleRoot st nl c < st.q + 1
      rw [hroot]
      split
      · exact Nat.lt_succ_self _
      · rcases Nat.lt_succ_iff_lt_or_eq.1 hc with h | rfl
        · exact Nat.lt_succ_of_lt (inv.rootlt c h)
        · rw [hrootq]; exact Nat.lt_succ_self _
    rootidem := by
      intro c
      show saddleRoot st nl (saddleRoot st nl c) = saddleRoot st nl c
      rw [hroot c]
      by_cases h : st.root c ∈ nl
      · rw [if_pos h, hroot, hrootq, if_neg hq]
      · rw [if_neg h, hroot, inv.rootidem, if_neg h]
    par := by
      intro c hc
      show (if nl.contains c then st.q else st.parent c) = c ∨
        (c < (if nl.contains c then st.q else st.parent c) ∧ (if nl.contains c then st.q else st.parent c) < st.q + 1)
      rw [hpar]
      by_cases h : c ∈ nl
      · rw [if_pos h]
        exact Or.inr ⟨(hfacts c h).1, Nat.lt_succ_self _⟩
      · rw [if_neg h]
        rcases Nat.lt_succ_iff_lt_or_eq.1 hc with h' | rfl
        · rcases inv.par c h' with h1 | ⟨h1, h2⟩
          · exact Or.inl h1
          · exact Or.inr ⟨h1, Nat.lt_succ_of_lt h2⟩
        · exact Or.inl (inv.out _ (Nat.le_refl _)).2
    rootpar := by
      intro c
      show saddleRoot st nl (if nl.contains c then st.q else st.parent c) = saddleRoot st nl c
      rw [hpar, hroot c]
      by_cases h : c ∈ nl
      · rw [if_pos h, hroot, hrootq, if_neg hq, (hfacts c h).2.1, if_pos h]
      · rw [if_neg h, hroot, inv.rootpar]
    rootfix := by
      intro c
      show saddleRoot st nl c = c ↔ (if nl.contains c then st.q else st.parent c) = c
      rw [hpar, hroot]
      by_cases h : c ∈ nl
      · have hlt := (hfacts c h).1
        rw [if_pos h, (hfacts c h).2.1, if_pos h]
      · rw [if_neg h]
        by_cases h2 : st.root c ∈ nl
        · rw [if_pos h2]
          constructor
          · intro e
            rw [← e, hrootq] at h2
            exact absurd h2 hq
          · intro e
            rw [(inv.rootfix c).2 e] at h2
            exact absurd h2 h
        · rw [if_neg h2]
          exact inv.rootfix c
    occ := by
      intro c hc
      show ∃ v ∈ done ++ [i], upd st.llabel i _ v = (c : Int)
      rcases Nat.lt_succ_iff_lt_or_eq.1 hc with h | rfl
      · obtain ⟨v, hv, hl⟩ := inv.occ c h
        have hvi : v ≠ i := fun e => hi (e ▸ hv)
        exact ⟨v, mem_snoc.2 (Or.inl hv), by unfold upd; rw [if_neg hvi]; exact hl⟩
      · exact ⟨i, mem_snoc.2 (Or.inr rfl), by unfold upd; rw [if_pos rfl]⟩
    conn := by
      intro u hu v hv
      rw [labOf_upd, labOf_upd]
      refine conn_step hs inv hi (fun x => x ∈ nl) st.q (saddleRoot st nl) ?_
        (fun x hx h => absurd h (Nat.ne_of_lt (inv.rootlt _ (inv.lab x hx).2)))
        (fun k h => by rw [hroot, if_pos h]) (fun k h => by rw [hroot, if_neg h])
        (by rw [hroot, hrootq, if_neg hq]) u hu v hv
      intro r'
      exact mem_nlabelOf rows st i r' }

/-- **the sweep keeps the invariant** -/
theorem bifInv_step {rows : Nat → List Nat} (hs : SymmRows rows) {done : List Nat} {st : BifSt}
    (inv : BifInv rows done st) {i : Nat} (hi : i ∉ done) :
    BifInv rows (done ++ [i]) (bifStep rows st i) := by
  by_cases hex : ∃ a, ProcNbr rows st i a
  · by_cases hreg : ∃ r, nlabelOf rows st i = [r]
    · obtain ⟨r, hr⟩ := hreg
      rw [bifStep_regular rows st i r hex hr]
      exact bifInv_regular hs inv hi r hr
    · rw [bifStep_saddle rows st i hex (fun r h => hreg ⟨r, h⟩)]
      exact bifInv_saddle hs inv hi
  · rw [bifStep_new rows st i (fun a ha => hex ⟨a, ha⟩)]
    exact bifInv_new hs inv hi (fun a ha => hex ⟨a, ha⟩)

theorem bifInv_foldl {rows : Nat → List Nat} (hs : SymmRows rows) (order : List Nat) :
    ∀ (done : List Nat) (st : BifSt), BifInv rows done st → (done ++ order).Nodup →
      BifInv rows (done ++ order) (order.foldl (bifStep rows) st) := by
  induction order with
  | nil => intro done st inv _; simpa using inv
  | cons a t ih =>
    intro done st inv hnd
    have ha : a ∉ done := by
      intro h
      have := List.nodup_append.1 hnd
      exact this.2.2 a h a List.mem_cons_self rfl
    have := ih (done ++ [a]) (bifStep rows st a) (bifInv_step hs inv ha) (by simpa using hnd)
    simpa using this

/-- the invariant holds after sweeping any duplicate-free list of vertices -/
theorem bifInv_sweep {rows : Nat → List Nat} (hs : SymmRows rows) (order : List Nat) (hnd : order.Nodup) :
    BifInv rows order (bifSweep rows order) := by
  have := bifInv_foldl hs order [] bifInit (bifInv_init rows) (by simpa using hnd)
  simpa [bifSweep] using this

/-! ### `root` is the top of the `parent` chain -/

theorem parent_chain {rows : Nat → List Nat} {done : List Nat} {st : BifSt} (inv : BifInv rows done st)
    (c : Nat) (hc : c < st.q) (k : Nat) :
    st.parent^[k] c < st.q ∧
      (st.parent (st.parent^[k] c) = st.parent^[k] c ∨ c + k ≤ st.parent^[k] c) := by
  induction k with
  | zero => exact ⟨hc, Or.inr (Nat.le_refl _)⟩
  | succ k ih =>
    obtain ⟨hlt, hor⟩ := ih
    rw [Function.iterate_succ_apply']
    rcases inv.par _ hlt with h | ⟨h1, h2⟩
    · rw [h]; exact ⟨hlt, Or.inl h⟩
    · refine ⟨h2, Or.inr ?_⟩
      rcases hor with h | h
      · rw [h] at h1; exact absurd h1 (Nat.lt_irrefl _)
      · omega

/-- `q` parent steps from any region end in a region that is its own parent … -/
theorem parent_iterate_fixed {rows : Nat → List Nat} {done : List Nat} {st : BifSt}
    (inv : BifInv rows done st) (c : Nat) :
    st.parent (st.parent^[st.q] c) = st.parent^[st.q] c := by
  by_cases hc : c < st.q
  · obtain ⟨hlt, hor⟩ := parent_chain inv c hc st.q
    rcases hor with h | h
    · exact h
    · omega
  · have hfix : st.parent c = c := (inv.out c (Nat.le_of_not_lt hc)).2
    rw [Function.iterate_fixed hfix]; exact hfix

/-- … and that region is `root c` -/
theorem root_eq_top {rows : Nat → List Nat} {done : List Nat} {st : BifSt} (inv : BifInv rows done st)
    (c : Nat) : st.root c = st.parent^[st.q] c := by
  have h1 : ∀ k, st.root (st.parent^[k] c) = st.root c := by
    intro k
    induction k with
    | zero => rfl
    | succ k ih => rw [Function.iterate_succ_apply', inv.rootpar, ih]
  rw [← h1 st.q]
  exact (inv.rootfix _).2 (parent_iterate_fixed inv c)

/-! ### what later steps keep -/

theorem bifStep_q (rows : Nat → List Nat) (st : BifSt) (i : Nat) :
    (bifStep rows st i).q = st.q ∨ (bifStep rows st i).q = st.q + 1 := by
  by_cases hex : ∃ a, ProcNbr rows st i a
  · by_cases hreg : ∃ r, nlabelOf rows st i = [r]
    · obtain ⟨r, hr⟩ := hreg
      rw [bifStep_regular rows st i r hex hr]; exact Or.inl rfl
    · rw [bifStep_saddle rows st i hex (fun r h => hreg ⟨r, h⟩)]; exact Or.inr rfl
  · rw [bifStep_new rows st i (fun a ha => hex ⟨a, ha⟩)]; exact Or.inr rfl

theorem bifStep_llabel_other (rows : Nat → List Nat) (st : BifSt) (i v : Nat) (h : v ≠ i) :
    (bifStep rows st i).llabel v = st.llabel v := by
  obtain ⟨n, hn⟩ := bifStep_llabel rows st i
  rw [hn]; unfold upd; rw [if_neg h]

theorem foldl_llabel_other (rows : Nat → List Nat) (suf : List Nat) (st : BifSt) (v : Nat)
    (h : v ∉ suf) : (suf.foldl (bifStep rows) st).llabel v = st.llabel v := by
  induction suf generalizing st with
  | nil => rfl
  | cons a t ih =>
    rw [List.foldl_cons, ih _ (fun h' => h (List.mem_cons_of_mem _ h'))]
    exact bifStep_llabel_other rows st a v (fun e => h (e ▸ List.mem_cons_self))

/-- one step only gives parents to regions that had none, and the parent it gives is the new region -/
theorem bifStep_parent_truncate {rows : Nat → List Nat} {done : List Nat} {st : BifSt}
    (inv : BifInv rows done st) (i c : Nat) (hc : c < st.q) :
    st.parent c = if (bifStep rows st i).parent c < st.q then (bifStep rows st i).parent c else c := by
  have hsame : st.parent c = if st.parent c < st.q then st.parent c else c := by
    rcases inv.par c hc with h | ⟨_, h⟩
    · rw [h, if_pos hc]
    · rw [if_pos h]
  by_cases hex : ∃ a, ProcNbr rows st i a
  · by_cases hreg : ∃ r, nlabelOf rows st i = [r]
    · obtain ⟨r, hr⟩ := hreg
      rw [bifStep_regular rows st i r hex hr]; exact hsame
    · rw [bifStep_saddle rows st i hex (fun r h => hreg ⟨r, h⟩)]
      show st.parent c = if (if (nlabelOf rows st i).contains c then st.q else st.parent c) < st.q then
        (if (nlabelOf rows st i).contains c then st.q else st.parent c) else c
      by_cases hcn : c ∈ nlabelOf rows st i
      · have : (nlabelOf rows st i).contains c = true := by simpa using hcn
        rw [this, if_pos rfl, if_neg (Nat.lt_irrefl _)]
        exact (nlabel_facts inv i c hcn).2.2
      · have : (nlabelOf rows st i).contains c = false := by simpa using hcn
        rw [this]
        exact hsame
  · rw [bifStep_new rows st i (fun a ha => hex ⟨a, ha⟩)]; exact hsame

/-- **The hierarchy at an earlier moment is the final hierarchy cut at the regions born by then**:
    continuing the sweep never relabels a vertex, only appends regions, and only gives parents
    (among the appended regions) to regions that were roots. -/
theorem sweep_continue {rows : Nat → List Nat} (hs : SymmRows rows) (suf : List Nat) :
    ∀ (done : List Nat) (st : BifSt), BifInv rows done st → (done ++ suf).Nodup →
      st.q ≤ (suf.foldl (bifStep rows) st).q ∧
      ∀ c < st.q, st.parent c =
        if (suf.foldl (bifStep rows) st).parent c < st.q then (suf.foldl (bifStep rows) st).parent c else c := by
  induction suf with
  | nil =>
    intro done st inv _
    refine ⟨Nat.le_refl _, fun c hc => ?_⟩
    rcases inv.par c hc with h | ⟨_, h⟩
    · rw [List.foldl_nil, h, if_pos hc]
    · rw [List.foldl_nil, if_pos h]
  | cons a t ih =>
    intro done st inv hnd
    have ha : a ∉ done := by
      intro h
      exact (List.nodup_append.1 hnd).2.2 a h a List.mem_cons_self rfl
    have inv' := bifInv_step hs inv ha
    obtain ⟨hq', hpar'⟩ := ih (done ++ [a]) (bifStep rows st a) inv' (by simpa using hnd)
    have hq1 : st.q ≤ (bifStep rows st a).q := by
      rcases bifStep_q rows st a with h | h <;> omega
    rw [List.foldl_cons]
    refine ⟨Nat.le_trans hq1 hq', fun c hc => ?_⟩
    have h1 := bifStep_parent_truncate inv a c hc
    have h2 := hpar' c (Nat.lt_of_lt_of_le hc hq1)
    set fp := (t.foldl (bifStep rows) (bifStep rows st a)).parent c with hfp
    by_cases hA : fp < st.q
    · rw [if_pos hA]
      rw [if_pos (Nat.lt_of_lt_of_le hA hq1)] at h2
      rw [h1, h2, if_pos hA]
    · rw [if_neg hA]
      by_cases hB : fp < (bifStep rows st a).q
      · rw [if_pos hB] at h2
        rw [h1, h2, if_neg hA]
      · rw [if_neg hB] at h2
        rw [h1, h2, if_pos hc]

theorem bifSweep_append (rows : Nat → List Nat) (pre suf : List Nat) :
    bifSweep rows (pre ++ suf) = suf.foldl (bifStep rows) (bifSweep rows pre) := by
  simp [bifSweep, List.foldl_append]

/-! ### when a region is created -/

theorem two_of_not_singleton {l : List Nat} (hnd : l.Nodup) (hne : l ≠ []) (h1 : ∀ r, l ≠ [r]) :
    ∃ x ∈ l, ∃ y ∈ l, x ≠ y := by
  match l, hnd, hne, h1 with
  | [], _, hne, _ => exact absurd rfl hne
  | [r], _, _, h1 => exact absurd rfl (h1 r)
  | x :: y :: t, hnd, _, _ =>
    refine ⟨x, List.mem_cons_self, y, List.mem_cons_of_mem _ List.mem_cons_self, ?_⟩
    intro e
    have := (List.nodup_cons.1 hnd).1
    exact this (e ▸ List.mem_cons_self)

/-- a step opens a new region exactly at a vertex none of whose neighbours is processed (a local
    maximum with respect to the processed set) or whose processed neighbours lie in at least two
    different components (a saddle) -/
theorem new_region_iff {rows : Nat → List Nat} {done : List Nat} {st : BifSt}
    (inv : BifInv rows done st) (i : Nat) :
    ((bifStep rows st i).q = st.q + 1 ↔
      (∀ a ∈ rows i, a ∉ done) ∨
        ∃ a b, a ∈ rows i ∧ a ∈ done ∧ b ∈ rows i ∧ b ∈ done ∧ ¬ Conn rows (· ∈ done) a b) ∧
    ((bifStep rows st i).q ≠ st.q + 1 → (bifStep rows st i).q = st.q ∧
      ∃ a, a ∈ rows i ∧ a ∈ done ∧ (bifStep rows st i).llabel i = (st.root (labOf st a) : Int)) := by
  by_cases hex : ∃ a, ProcNbr rows st i a
  · obtain ⟨a0, ha0⟩ := hex
    obtain ⟨ha0r, ha0d⟩ := (procNbr_iff inv i a0).1 ha0
    by_cases hreg : ∃ r, nlabelOf rows st i = [r]
    · obtain ⟨r, hr⟩ := hreg
      rw [bifStep_regular rows st i r ⟨a0, ha0⟩ hr]
      have hall : ∀ a, a ∈ rows i → a ∈ done → st.root (labOf st a) = r := by
        intro a h1 h2
        have : st.root (labOf st a) ∈ nlabelOf rows st i :=
          (mem_nlabelOf rows st i _).2 ⟨a, (procNbr_iff inv i a).2 ⟨h1, h2⟩, rfl⟩
        rw [hr] at this; simpa using this
      refine ⟨⟨fun h => absurd h (by show st.q ≠ st.q + 1; omega), ?_⟩, fun _ => ⟨rfl, a0, ha0r, ha0d, ?_⟩⟩
      · rintro (h | ⟨a, b, h1, h2, h3, h4, h5⟩)
        · exact absurd ha0d (h a0 ha0r)
        · exact absurd ((inv.conn a h2 b h4).1 (by rw [hall a h1 h2, hall b h3 h4])) h5
      · show upd st.llabel i (r : Int) i = _
        unfold upd; rw [if_pos rfl, hall a0 ha0r ha0d]
    · rw [bifStep_saddle rows st i ⟨a0, ha0⟩ (fun r h => hreg ⟨r, h⟩)]
      refine ⟨⟨fun _ => Or.inr ?_, fun _ => rfl⟩, fun h => absurd rfl h⟩
      have hne : nlabelOf rows st i ≠ [] := by
        intro e
        have : st.root (labOf st a0) ∈ nlabelOf rows st i := (mem_nlabelOf rows st i _).2 ⟨a0, ha0, rfl⟩
        rw [e] at this; cases this
      obtain ⟨x, hx, y, hy, hxy⟩ := two_of_not_singleton (nlabelOf_nodup rows st i) hne
        (fun r h => hreg ⟨r, h⟩)
      obtain ⟨a, ha, hra⟩ := (mem_nlabelOf rows st i x).1 hx
      obtain ⟨b, hb, hrb⟩ := (mem_nlabelOf rows st i y).1 hy
      obtain ⟨ha1, ha2⟩ := (procNbr_iff inv i a).1 ha
      obtain ⟨hb1, hb2⟩ := (procNbr_iff inv i b).1 hb
      refine ⟨a, b, ha1, ha2, hb1, hb2, fun hc => hxy ?_⟩
      rw [← hra, ← hrb]; exact (inv.conn a ha2 b hb2).2 hc
  · have hno : ∀ a, ¬ ProcNbr rows st i a := fun a ha => hex ⟨a, ha⟩
    rw [bifStep_new rows st i hno]
    refine ⟨⟨fun _ => Or.inl ?_, fun _ => rfl⟩, fun h => absurd rfl h⟩
    intro a ha had
    exact hno a ((procNbr_iff inv i a).2 ⟨ha, had⟩)

/-! ### a descending order lists every superlevel set first -/

theorem pairwise_of_adjacent (val : Nat → Rat) (l : List Nat)
    (h : ∀ i, i + 1 < l.length → val (l.getD (i + 1) 0) ≤ val (l.getD i 0)) :
    l.Pairwise (fun a b => val b ≤ val a) := by
  induction l with
  | nil => exact List.Pairwise.nil
  | cons a t ih =>
    have iht := ih (fun i hi => by
      have := h (i + 1) (by simpa using hi)
      simpa using this)
    refine List.pairwise_cons.2 ⟨?_, iht⟩
    intro b hb
    cases t with
    | nil => cases hb
    | cons c t' =>
      have hca : val c ≤ val a := by
        have := h 0 (by simp)
        simpa using this
      rcases List.mem_cons.1 hb with rfl | hb
      · exact hca
      · exact le_trans ((List.pairwise_cons.1 iht).1 b hb) hca

/-- in a descending list the vertices at or above a level come first: `takeWhile` collects exactly
    them, `dropWhile` leaves only vertices below the level -/
theorem split_at_level (val : Nat → Rat) (t : Rat) (l : List Nat)
    (h : l.Pairwise (fun a b => val b ≤ val a)) :
    (∀ v ∈ l.takeWhile (fun v => decide (t ≤ val v)), t ≤ val v) ∧
      (∀ v ∈ l.dropWhile (fun v => decide (t ≤ val v)), val v < t) := by
  induction l with
  | nil => simp
  | cons a l' ih =>
    obtain ⟨ha, hl'⟩ := List.pairwise_cons.1 h
    by_cases hat : t ≤ val a
    · obtain ⟨h1, h2⟩ := ih hl'
      simp only [List.takeWhile_cons, List.dropWhile_cons, hat, decide_true, if_true]
      refine ⟨?_, h2⟩
      intro v hv
      rcases List.mem_cons.1 hv with rfl | hv
      · exact hat
      · exact h1 v hv
    · simp only [List.takeWhile_cons, List.dropWhile_cons, hat, decide_false, Bool.false_eq_true, if_false]
      refine ⟨by simp, ?_⟩
      intro v hv
      rcases List.mem_cons.1 hv with rfl | hv
      · exact not_le.1 hat
      · exact lt_of_le_of_lt (ha v hv) (not_le.1 hat)

theorem validDescOrder_unfold {n : Nat} {val : Nat → Rat} {order : List Nat}
    (h : validDescOrder n val order = true) :
    order.length = n ∧ (∀ v < n, order.count v = 1) ∧ order.Pairwise (fun a b => val b ≤ val a) := by
  simp only [validDescOrder, Bool.and_eq_true, decide_eq_true_eq, List.all_eq_true, List.mem_range,
    beq_iff_eq] at h
  obtain ⟨⟨hlen, hcount⟩, hadj⟩ := h
  refine ⟨hlen, hcount, pairwise_of_adjacent val order (fun i hi => hadj i (by omega))⟩

/-- a valid descending order is a duplicate-free list of exactly the vertices `0..n-1` -/
theorem validDescOrder_perm {n : Nat} {val : Nat → Rat} {order : List Nat}
    (h : validDescOrder n val order = true) : order.Nodup ∧ ∀ v, v ∈ order ↔ v < n := by
  obtain ⟨hlen, hcount, _⟩ := validDescOrder_unfold h
  have hvo : validOrder n (fun _ => 0) order = true := by
    simp only [validOrder, Bool.and_eq_true, decide_eq_true_eq, List.all_eq_true, List.mem_range,
      beq_iff_eq]
    exact ⟨⟨hlen, hcount⟩, fun _ _ => le_refl _⟩
  have hlt := validOrder_entries_lt hvo
  have hnd : order.Nodup := by
    rw [List.nodup_iff_count]
    intro a
    by_cases ha : a < n
    · rw [hcount a ha]
    · have : a ∉ order := fun hm => ha (hlt a hm)
      rw [List.count_eq_zero_of_not_mem this]; omega
  refine ⟨hnd, fun v => ⟨hlt v, fun hv => ?_⟩⟩
  exact List.count_pos_iff.1 (by rw [hcount v hv]; exact Nat.one_pos)

end NipyVerif.C12
