/- Helper lemmas for C15: literal per-voxel tables, grid sums, the explicit
   per-voxel Euler polynomial, polynomial evaluation. -/
import NipyVerif.Model.C15
import Mathlib.Tactic.Ring
import Mathlib.Tactic.Linarith
import Mathlib.Tactic.NormNum
import Mathlib.Tactic.FieldSimp
import Mathlib.Tactic.LinearCombination
import Mathlib.Algebra.Order.Field.Rat

namespace NipyVerif.C15

/-! ### the tables the code derives, as literals (kernel evaluation of the
modelled `complex` / `cube_with_strides_center` / `join_complexes` / set
difference on the maximal simplices regenerated from utils.py) -/

theorem table_3_2 : table 3 2 =
    [[(0, 0, 0), (0, 1, 0)], [(0, 0, 0), (1, 0, 1)], [(0, 0, 0), (0, 0, 1)], [(0, 0, 0), (0, 1, 1)],
     [(0, 0, 0), (1, 0, 0)], [(0, 0, 0), (1, 1, 0)], [(0, 0, 0), (1, 1, 1)]] := by decide +kernel

theorem table_3_3 : table 3 3 =
    [[(0, 0, 0), (0, 1, 0), (1, 1, 0)], [(0, 0, 0), (0, 1, 0), (0, 1, 1)], [(0, 0, 0), (0, 1, 0), (1, 1, 1)],
     [(0, 0, 0), (0, 0, 1), (1, 0, 1)], [(0, 0, 0), (1, 0, 0), (1, 0, 1)], [(0, 0, 0), (1, 0, 1), (1, 1, 1)],
     [(0, 0, 0), (0, 0, 1), (0, 1, 1)], [(0, 0, 0), (0, 0, 1), (1, 1, 1)], [(0, 0, 0), (0, 1, 1), (1, 1, 1)],
     [(0, 0, 0), (1, 0, 0), (1, 1, 0)], [(0, 0, 0), (1, 0, 0), (1, 1, 1)], [(0, 0, 0), (1, 1, 0), (1, 1, 1)]] := by
  decide +kernel

theorem table_3_4 : table 3 4 =
    [[(0, 0, 0), (0, 1, 0), (1, 1, 0), (1, 1, 1)], [(0, 0, 0), (0, 1, 0), (0, 1, 1), (1, 1, 1)],
     [(0, 0, 0), (0, 0, 1), (1, 0, 1), (1, 1, 1)], [(0, 0, 0), (1, 0, 0), (1, 0, 1), (1, 1, 1)],
     [(0, 0, 0), (0, 0, 1), (0, 1, 1), (1, 1, 1)], [(0, 0, 0), (1, 0, 0), (1, 1, 0), (1, 1, 1)]] := by
  decide +kernel

theorem table_2_2 : table 2 2 = [[(0, 0, 0), (1, 0, 0)], [(0, 0, 0), (0, 1, 0)], [(0, 0, 0), (1, 1, 0)]] := by
  decide +kernel

theorem table_2_3 : table 2 3 = [[(0, 0, 0), (1, 0, 0), (1, 1, 0)], [(0, 0, 0), (0, 1, 0), (1, 1, 0)]] := by
  decide +kernel

theorem table_2_4 : table 2 4 = [] := by decide +kernel
theorem table_1_2 : table 1 2 = [[(0, 0, 0), (1, 0, 0)]] := by decide +kernel
theorem table_1_3 : table 1 3 = [] := by decide +kernel
theorem table_1_4 : table 1 4 = [] := by decide +kernel

/-! ### the Kuhn complex, defined without reference to the code's tables -/

/-- corners of the unit `d`-cube in lexicographic order -/
def cubePts (d : Nat) : List Pt :=
  sortPts ((List.range (2 ^ d)).map cornerPt)

def ple (a b : Pt) : Bool := a.1 ≤ b.1 && a.2.1 ≤ b.2.1 && a.2.2 ≤ b.2.2

/-- strictly increasing for the componentwise order -/
def isChain : List Pt → Bool
  | [] => true
  | [_] => true
  | a :: b :: l => ple a b && a != b && isChain (b :: l)

/-- `k`-vertex simplices of the Kuhn (lattice) triangulation of the unit
    `d`-cube whose lowest vertex is the origin corner: chains
    `0 < a₁ < … < a_{k-1}` of cube corners. -/
def kuhnChains (d k : Nat) : List (List Pt) :=
  (subsLen k (cubePts d)).filter (fun s => s.head? == some (0, 0, 0) && isChain s)

theorem mem_iff_of_all {α} [BEq α] [LawfulBEq α] (l1 l2 : List α)
    (h : (l1.all (l2.contains ·) && l2.all (l1.contains ·)) = true) : ∀ s, s ∈ l1 ↔ s ∈ l2 := by
  simp only [Bool.and_eq_true, List.all_eq_true, List.contains_iff_mem] at h
  intro s; exact ⟨h.1 s, h.2 s⟩

/-! ### sums over the grid -/

theorem sumN_congr {n : Nat} {f g : Nat → Int} (h : ∀ i, i < n → f i = g i) : sumN n f = sumN n g := by
  induction n with
  | zero => rfl
  | succ n ih =>
      simp only [sumN]
      rw [ih (fun i hi => h i (by omega)), h n (by omega)]

theorem sumN_eq_zero {n : Nat} {f : Nat → Int} (h : ∀ i, i < n → f i = 0) : sumN n f = 0 := by
  induction n with
  | zero => rfl
  | succ n ih => simp only [sumN]; rw [ih (fun i hi => h i (by omega)), h n (by omega)]; rfl

theorem sumN_add (n : Nat) (f g : Nat → Int) : sumN n (fun i => f i + g i) = sumN n f + sumN n g := by
  induction n with
  | zero => rfl
  | succ n ih => simp only [sumN, ih]; ring

theorem sumN_mul_left (n : Nat) (c : Int) (f : Nat → Int) : sumN n (fun i => c * f i) = c * sumN n f := by
  induction n with
  | zero => simp [sumN]
  | succ n ih => simp only [sumN, ih]; ring

theorem sumN_mul_right (n : Nat) (c : Int) (f : Nat → Int) : sumN n (fun i => f i * c) = sumN n f * c := by
  induction n with
  | zero => simp [sumN]
  | succ n ih => simp only [sumN, ih]; ring

theorem sumN_le_of_zero {n n' : Nat} {f : Nat → Int} (hn : n ≤ n')
    (h : ∀ i, n ≤ i → i < n' → f i = 0) : sumN n' f = sumN n f := by
  induction n' with
  | zero => have : n = 0 := by omega
            subst this; rfl
  | succ m ih =>
      by_cases hm : n ≤ m
      · simp only [sumN]
        rw [ih hm (fun i h1 h2 => h i h1 (by omega)), h m hm (by omega)]; ring
      · have : n = m + 1 := by omega
        subst this; rfl

theorem sumN_shift {t n : Nat} {f : Nat → Int} (h : ∀ i, i < t → f i = 0) :
    sumN (t + n) f = sumN n (fun i => f (t + i)) := by
  induction n with
  | zero => simpa [sumN] using sumN_eq_zero h
  | succ n ih => rw [← Nat.add_assoc]; simp only [sumN, ih]

theorem sumN_comm (a b : Nat) (f : Nat → Nat → Int) :
    sumN a (fun i => sumN b (fun j => f i j)) = sumN b (fun j => sumN a (fun i => f i j)) := by
  induction a with
  | zero => simp only [sumN]; exact (sumN_eq_zero (fun _ _ => rfl)).symm
  | succ a ih => simp only [sumN, ih]; rw [← sumN_add]

theorem sumN_one (f : Nat → Int) : sumN 1 f = f 0 := by simp [sumN]

theorem sum3_congr {n0 n1 n2 : Nat} {f g : Nat → Nat → Nat → Int}
    (h : ∀ i j k, i < n0 → j < n1 → k < n2 → f i j k = g i j k) : sum3 n0 n1 n2 f = sum3 n0 n1 n2 g := by
  unfold sum3
  exact sumN_congr (fun i hi => sumN_congr (fun j hj => sumN_congr (fun k hk => h i j k hi hj hk)))

theorem sum3_mono {n0 n1 n2 m0 m1 m2 : Nat} {f : Nat → Nat → Nat → Int}
    (h0 : n0 ≤ m0) (h1 : n1 ≤ m1) (h2 : n2 ≤ m2)
    (hz : ∀ i j k, ¬ (i < n0 ∧ j < n1 ∧ k < n2) → f i j k = 0) :
    sum3 m0 m1 m2 f = sum3 n0 n1 n2 f := by
  unfold sum3
  rw [sumN_le_of_zero h0 (fun i hi _ => sumN_eq_zero (fun j _ => sumN_eq_zero (fun k _ =>
    hz i j k (by omega))))]
  refine sumN_congr (fun i _ => ?_)
  rw [sumN_le_of_zero h1 (fun j hj _ => sumN_eq_zero (fun k _ => hz i j k (by omega)))]
  refine sumN_congr (fun j _ => ?_)
  exact sumN_le_of_zero h2 (fun k hk _ => hz i j k (by omega))

theorem sum3_shift {t0 t1 t2 n0 n1 n2 : Nat} {f : Nat → Nat → Nat → Int}
    (hz : ∀ i j k, (i < t0 ∨ j < t1 ∨ k < t2) → f i j k = 0) :
    sum3 (t0 + n0) (t1 + n1) (t2 + n2) f = sum3 n0 n1 n2 (fun i j k => f (t0 + i) (t1 + j) (t2 + k)) := by
  unfold sum3
  rw [sumN_shift (fun i hi => sumN_eq_zero (fun j _ => sumN_eq_zero (fun k _ => hz i j k (Or.inl hi))))]
  refine sumN_congr (fun i _ => ?_)
  rw [sumN_shift (fun j hj => sumN_eq_zero (fun k _ => hz _ j k (Or.inr (Or.inl hj))))]
  refine sumN_congr (fun j _ => ?_)
  exact sumN_shift (fun k hk => hz _ _ k (Or.inr (Or.inr hk)))

theorem sum3_swap01 (a b c : Nat) (f : Nat → Nat → Nat → Int) :
    sum3 a b c f = sum3 b a c (fun j i k => f i j k) := by
  unfold sum3; exact sumN_comm a b _

theorem sum3_swap12 (a b c : Nat) (f : Nat → Nat → Nat → Int) :
    sum3 a b c f = sum3 a c b (fun i k j => f i j k) := by
  unfold sum3; exact sumN_congr (fun i _ => sumN_comm b c _)

theorem sum3_prod (a b c : Nat) (f g h : Nat → Int) :
    sum3 a b c (fun i j k => f i * g j * h k) = sumN a f * sumN b g * sumN c h := by
  unfold sum3
  simp only [sumN_mul_left, sumN_mul_right]

/-! ### the explicit per-voxel Euler polynomial -/

/-- `1 − edges + triangles − tetrahedra` of the six Kuhn tetrahedra of one
    cube, in the mask values at its corners `m_{ijk}` -/
def kuhn3 (m000 m100 m010 m110 m001 m101 m011 m111 : Int) : Int :=
  m000 * (1 - (m100 + m010 + m001 + m110 + m101 + m011 + m111)
    + (m100 * m110 + m100 * m101 + m100 * m111 + m010 * m110 + m010 * m011 + m010 * m111
       + m001 * m101 + m001 * m011 + m001 * m111 + m110 * m111 + m101 * m111 + m011 * m111)
    - (m100 * m110 * m111 + m100 * m101 * m111 + m010 * m110 * m111 + m010 * m011 * m111
       + m001 * m101 * m111 + m001 * m011 * m111))

def kuhn2 (m00 m10 m01 m11 : Int) : Int :=
  m00 * (1 - (m10 + m01 + m11) + (m10 * m11 + m01 * m11))

theorem voxelEC_3 (M : Field) (i j k : Nat) :
    voxelEC 3 M (i, j, k) = kuhn3 (M i j k) (M (i + 1) j k) (M i (j + 1) k) (M (i + 1) (j + 1) k)
      (M i j (k + 1)) (M (i + 1) j (k + 1)) (M i (j + 1) (k + 1)) (M (i + 1) (j + 1) (k + 1)) := by
  simp only [voxelEC, contrib, table_3_2, table_3_3, table_3_4, List.map, List.sum_cons, List.sum_nil,
    prodAt, fat, Nat.add_zero, kuhn3]
  ring

theorem voxelEC_2 (M : Field) (i j k : Nat) :
    voxelEC 2 M (i, j, k) = kuhn2 (M i j k) (M (i + 1) j k) (M i (j + 1) k) (M (i + 1) (j + 1) k) := by
  simp only [voxelEC, contrib, table_2_2, table_2_3, table_2_4, List.map, List.sum_cons, List.sum_nil,
    prodAt, fat, Nat.add_zero, kuhn2]
  ring

theorem voxelEC_1 (M : Field) (i j k : Nat) :
    voxelEC 1 M (i, j, k) = M i j k * (1 - M (i + 1) j k) := by
  simp only [voxelEC, contrib, table_1_2, table_1_3, table_1_4, List.map, List.sum_cons, List.sum_nil,
    prodAt, fat, Nat.add_zero]
  ring

/-! ### boxes -/

def ind (n i : Nat) : Int := if i < n then 1 else 0
def lastI (n i : Nat) : Int := if i + 1 = n then 1 else 0

/-- indicator of the solid box `[0,a) × [0,b) × [0,c)` -/
def boxF (a b c : Nat) : Field := fun i j k => ind a i * ind b j * ind c k

theorem ind_cases (n i : Nat) :
    (ind n i = 0 ∧ ind n (i + 1) = 0 ∧ lastI n i = 0) ∨
    (ind n i = 1 ∧ ind n (i + 1) = 0 ∧ lastI n i = 1) ∨
    (ind n i = 1 ∧ ind n (i + 1) = 1 ∧ lastI n i = 0) := by
  unfold ind lastI
  split_ifs <;> simp <;> omega

theorem sumN_lastI_aux (n m : Nat) : sumN m (lastI n) = if 1 ≤ n ∧ n ≤ m then 1 else 0 := by
  induction m with
  | zero => simp only [sumN]; split_ifs <;> omega
  | succ m ih =>
      simp only [sumN, ih, lastI]
      split_ifs <;> omega

theorem sumN_lastI (n : Nat) (h : 1 ≤ n) : sumN n (lastI n) = 1 := by
  rw [sumN_lastI_aux]; simp [h]

theorem ind01 (n i : Nat) : ind n i = 0 ∨ ind n i = 1 := by
  unfold ind; split_ifs <;> simp

theorem kuhn3_zero (b c d e f g h : Int) : kuhn3 0 b c d e f g h = 0 := by simp [kuhn3]

theorem sumN_ind_succ (n m : Nat) : sumN m (fun i => ind n (i + 1)) = ((min m (n - 1) : Nat) : Int) := by
  induction m with
  | zero => simp [sumN]
  | succ m ih =>
      have e : sumN (m + 1) (fun i => ind n (i + 1))
          = sumN m (fun i => ind n (i + 1)) + ind n (m + 1) := rfl
      rw [e, ih]
      unfold ind
      split_ifs with h
      · have : min (m + 1) (n - 1) = min m (n - 1) + 1 := by omega
        rw [this]; push_cast; ring
      · have : min (m + 1) (n - 1) = min m (n - 1) := by omega
        rw [this]; simp

/-! ### HISTORICAL (not the current code): the `EC2d` defect fixed in /repo commit 1b1bfa7

Before the fix the triangle loop of `EC2d` read `if m and v0:` and so skipped
every triangle whose first vertex has flat index 0.  The definitions below model
that *old* text only to document what the defect was; no property theorem about
the current code refers to them. -/

def contribSkip0 (tbl : List (List Pt)) (M : Field) (x : Pt) : Int :=
  (tbl.map (fun s => match s with
    | [] => 1
    | v :: _ => if padd x v = (0, 0, 0) then 0 else prodAt M x s)).sum

def voxelEC2Historical (M : Field) (x : Pt) : Int :=
  fat M x (0, 0, 0) - contrib (table 2 2) M x + contribSkip0 (table 2 3) M x

def ec2Historical (n0 n1 : Nat) (M : Field) : Int :=
  sum3 n0 n1 1 (fun i j k => voxelEC2Historical M (i, j, k))

/-- historical defect, exactly: the old `EC2d` was too small by the number of
    triangles of the origin cell that are present. -/
theorem ec2Historical_defect (n0 n1 : Nat) (M : Field) (h0 : 1 ≤ n0) (h1 : 1 ≤ n1) :
    ec2Historical n0 n1 M = ec2 n0 n1 M - (M 0 0 0 * M 1 0 0 * M 1 1 0 + M 0 0 0 * M 0 1 0 * M 1 1 0) := by
  obtain ⟨a, rfl⟩ : ∃ a, n0 = a + 1 := ⟨n0 - 1, by omega⟩
  obtain ⟨b, rfl⟩ : ∃ b, n1 = b + 1 := ⟨n1 - 1, by omega⟩
  have key : ∀ i j, voxelEC2Historical M (i, j, 0) = voxelEC 2 M (i, j, 0)
      - (if i = 0 ∧ j = 0 then M 0 0 0 * M 1 0 0 * M 1 1 0 + M 0 0 0 * M 0 1 0 * M 1 1 0 else 0) := by
    intro i j
    simp only [voxelEC2Historical, voxelEC, contrib, contribSkip0, table_2_2, table_2_3, table_2_4, List.map,
      List.sum_cons, List.sum_nil, prodAt, fat, Nat.add_zero, padd, Prod.mk.injEq, and_true]
    by_cases h : i = 0 ∧ j = 0
    · obtain ⟨rfl, rfl⟩ := h; simp; ring
    · simp only [h, if_false]; ring
  unfold ec2Historical ec2 sum3
  simp only [sumN_one, key]
  -- split off the (0,0) voxel
  have split : ∀ (n : Nat) (f : Nat → Int) (c : Int),
      sumN (n + 1) (fun i => f i - (if i = 0 then c else 0)) = sumN (n + 1) f - c := by
    intro n f c
    induction n with
    | zero => simp [sumN]
    | succ n ih =>
        have e1 : sumN (n + 1 + 1) (fun i => f i - (if i = 0 then c else 0))
            = sumN (n + 1) (fun i => f i - (if i = 0 then c else 0))
              + (f (n + 1) - (if n + 1 = 0 then c else 0)) := rfl
        have e2 : sumN (n + 1 + 1) f = sumN (n + 1) f + f (n + 1) := rfl
        rw [e1, e2, ih, if_neg (Nat.succ_ne_zero n)]; ring
  have inner : ∀ i, sumN (b + 1) (fun j => voxelEC 2 M (i, j, 0)
      - (if i = 0 ∧ j = 0 then M 0 0 0 * M 1 0 0 * M 1 1 0 + M 0 0 0 * M 0 1 0 * M 1 1 0 else 0))
      = sumN (b + 1) (fun j => voxelEC 2 M (i, j, 0))
        - (if i = 0 then M 0 0 0 * M 1 0 0 * M 1 1 0 + M 0 0 0 * M 0 1 0 * M 1 1 0 else 0) := by
    intro i
    by_cases hi : i = 0
    · subst hi; simp only [true_and, if_true]; exact split b _ _
    · simp only [hi, false_and, if_false, sub_zero]
  simp only [inner]
  exact split a _ _

/-! ### polynomial evaluation -/

theorem peval_nil (x : Rat) : peval [] x = 0 := rfl
theorem peval_cons (a : Rat) (p : Poly) (x : Rat) : peval (a :: p) x = a + x * peval p x := rfl

theorem peval_padd' (p q : Poly) (x : Rat) : peval (padd' p q) x = peval p x + peval q x := by
  induction p generalizing q with
  | nil => simp [padd', peval_nil]
  | cons a p ih =>
      cases q with
      | nil => simp [padd', peval_nil]
      | cons b q => simp only [padd', peval_cons, ih]; ring

theorem peval_pscale (c : Rat) (p : Poly) (x : Rat) : peval (pscale c p) x = c * peval p x := by
  induction p with
  | nil => simp [pscale, peval_nil]
  | cons a p ih =>
      have : pscale c (a :: p) = (c * a) :: pscale c p := rfl
      rw [this, peval_cons, peval_cons, ih]; ring

theorem peval_pmulX (p : Poly) (x : Rat) : peval (pmulX p) x = x * peval p x := by
  simp [pmulX, peval_cons]

theorem peval_pmul (p q : Poly) (x : Rat) : peval (pmul p q) x = peval p x * peval q x := by
  induction p with
  | nil => simp [pmul, peval_nil]
  | cons a p ih => simp only [pmul, peval_padd', peval_pscale, peval_pmulX, peval_cons, ih]; ring

theorem peval_ppow (p : Poly) (n : Nat) (x : Rat) : peval (ppow p n) x = peval p x ^ n := by
  induction n with
  | zero => simp [ppow, peval_cons, peval_nil]
  | succ n ih => simp only [ppow, peval_pmul, ih]; ring

theorem peval_denom (m x : Rat) : peval (denomPoly m) x = 1 + x * x / m := by
  simp only [denomPoly, peval_cons, peval_nil]; ring

end NipyVerif.C15
