/-
C16 (part B) — frame lemmas for loops that store through a view.
-/
import NipyVerif.Model.C16B
import Mathlib.Tactic.Ring
import Mathlib.Tactic.Linarith

namespace NipyVerif.C16

theorem getD_set (a : Buf) (p i : Nat) (v : Rat) :
    (a.setIfInBounds p v).getD i 0 = if p = i ∧ p < a.size then v else a.getD i 0 := by
  simp only [Array.getD_eq_getD_getElem?, Array.getElem?_setIfInBounds]
  by_cases h : p = i
  · subst h
    by_cases h2 : p < a.size
    · simp [h2]
    · simp [h2]
  · simp [h]

/-! ### one loop -/

theorem updIdx_size (ix : Nat → Nat) (val : Nat → Rat → Rat) (n : Nat) (b : Buf) :
    (updIdx ix val n b).size = b.size := by
  induction n with
  | zero => rfl
  | succ n ih => simp [updIdx, ih]

theorem updIdx_outside (ix : Nat → Nat) (val : Nat → Rat → Rat) (n : Nat) (b : Buf) (k : Nat)
    (h : ∀ i, i < n → ix i ≠ k) : (updIdx ix val n b).getD k 0 = b.getD k 0 := by
  induction n with
  | zero => rfl
  | succ n ih =>
      simp only [updIdx]
      rw [getD_set, if_neg (by intro hh; exact h n (Nat.lt_succ_self n) hh.1)]
      exact ih (fun i hi => h i (Nat.lt_succ_of_lt hi))

theorem updIdx_inside (ix : Nat → Nat) (val : Nat → Rat → Rat) (n : Nat) (b : Buf)
    (hinj : ∀ i j, i < n → j < n → ix i = ix j → i = j) (hb : ∀ i, i < n → ix i < b.size)
    (i : Nat) (hi : i < n) : (updIdx ix val n b).getD (ix i) 0 = val i (b.getD (ix i) 0) := by
  induction n with
  | zero => omega
  | succ n ih =>
      simp only [updIdx]
      rw [getD_set]
      by_cases hin : i = n
      · subst hin
        rw [if_pos ⟨rfl, by rw [updIdx_size]; exact hb i (Nat.lt_succ_self i)⟩]
        congr 1
        apply updIdx_outside
        intro j hj hji
        have := hinj j i (Nat.lt_succ_of_lt hj) (Nat.lt_succ_self i) hji
        omega
      · have hlt : i < n := by omega
        rw [if_neg]
        · exact ih (fun a c ha hc => hinj a c (Nat.lt_succ_of_lt ha) (Nat.lt_succ_of_lt hc))
            (fun a ha => hb a (Nat.lt_succ_of_lt ha)) hlt
        · intro hh
          have := hinj n i (Nat.lt_succ_self n) hi hh.1
          omega

/-! ### two nested loops -/

theorem updRows_size (ix : Nat → Nat → Nat) (val : Nat → Nat → Rat → Rat) (c r : Nat) (b : Buf) :
    (updRows ix val c r b).size = b.size := by
  induction r with
  | zero => rfl
  | succ r ih => simp [updRows, updIdx_size, ih]

theorem updRows_outside (ix : Nat → Nat → Nat) (val : Nat → Nat → Rat → Rat) (c r : Nat) (b : Buf) (k : Nat)
    (h : ∀ i j, i < r → j < c → ix i j ≠ k) : (updRows ix val c r b).getD k 0 = b.getD k 0 := by
  induction r with
  | zero => rfl
  | succ r ih =>
      simp only [updRows]
      rw [updIdx_outside _ _ _ _ _ (fun j hj => h r j (Nat.lt_succ_self r) hj)]
      exact ih (fun i j hi hj => h i j (Nat.lt_succ_of_lt hi) hj)

theorem updRows_inside (ix : Nat → Nat → Nat) (val : Nat → Nat → Rat → Rat) (c r : Nat) (b : Buf)
    (hinj : ∀ i j i' j', i < r → j < c → i' < r → j' < c → ix i j = ix i' j' → i = i' ∧ j = j')
    (hb : ∀ i j, i < r → j < c → ix i j < b.size)
    (i j : Nat) (hi : i < r) (hj : j < c) :
    (updRows ix val c r b).getD (ix i j) 0 = val i j (b.getD (ix i j) 0) := by
  induction r with
  | zero => omega
  | succ r ih =>
      simp only [updRows]
      by_cases hir : i = r
      · subst hir
        rw [updIdx_inside (ix i) (val i) c _
              (fun a d ha hd had => (hinj i a i d (Nat.lt_succ_self i) ha (Nat.lt_succ_self i) hd had).2)
              (fun a ha => by rw [updRows_size]; exact hb i a (Nat.lt_succ_self i) ha) j hj]
        congr 1
        apply updRows_outside
        intro i' j' hi' hj' he
        have := (hinj i' j' i j (Nat.lt_succ_of_lt hi') hj' (Nat.lt_succ_self i) hj he).1
        omega
      · have hlt : i < r := by omega
        rw [updIdx_outside]
        · exact ih (fun a d a' d' ha hd ha' hd' =>
              hinj a d a' d' (Nat.lt_succ_of_lt ha) hd (Nat.lt_succ_of_lt ha') hd')
            (fun a d ha hd => hb a d (Nat.lt_succ_of_lt ha) hd) hlt
        · intro j' hj' he
          have := (hinj r j' i j (Nat.lt_succ_self r) hj' hi hj he).1
          omega

/-! ### index maps of the views -/

/-- a matrix view addresses distinct items for distinct `(i, j)` as soon as `size2 ≤ tda` -/
theorem mview_inj (A : MView) (h : A.c ≤ A.tda) (i j i' j' : Nat) (hj : j < A.c) (hj' : j' < A.c)
    (he : A.ix i j = A.ix i' j') : i = i' ∧ j = j' := by
  unfold MView.ix at he
  rcases Nat.lt_trichotomy i i' with hlt | heq | hgt
  · have := Nat.mul_le_mul_right A.tda (Nat.succ_le_of_lt hlt)
    rw [Nat.succ_mul] at this
    omega
  · subst heq
    exact ⟨rfl, by omega⟩
  · have := Nat.mul_le_mul_right A.tda (Nat.succ_le_of_lt hgt)
    rw [Nat.succ_mul] at this
    omega

theorem vview_inj (x : VView) (h : 1 ≤ x.stride) (i j : Nat) (he : x.ix i = x.ix j) : i = j := by
  unfold VView.ix at he
  have : i * x.stride = j * x.stride := by omega
  exact Nat.eq_of_mul_eq_mul_right (by omega) this

/-- the window lies inside the buffer -/
def MView.Valid (A : MView) (b : Buf) : Prop :=
  A.c ≤ A.tda ∧ (A.r = 0 ∨ A.c = 0 ∨ A.off + (A.r - 1) * A.tda + A.c ≤ b.size)

def VView.Valid (x : VView) (b : Buf) : Prop :=
  1 ≤ x.stride ∧ (x.size = 0 ∨ x.off + (x.size - 1) * x.stride < b.size)

theorem MView.Valid.lt {A : MView} {b : Buf} (h : A.Valid b) (i j : Nat) (hi : i < A.r) (hj : j < A.c) :
    A.ix i j < b.size := by
  unfold MView.ix
  rcases h.2 with h0 | h0 | h0
  · omega
  · omega
  · have := Nat.mul_le_mul_right A.tda (show i ≤ A.r - 1 by omega)
    omega

theorem VView.Valid.lt {x : VView} {b : Buf} (h : x.Valid b) (i : Nat) (hi : i < x.size) : x.ix i < b.size := by
  unfold VView.ix
  rcases h.2 with h0 | h0
  · omega
  · have := Nat.mul_le_mul_right x.stride (show i ≤ x.size - 1 by omega)
    omega

/-- contiguous windows: `off + k` for `k < r*c` is exactly the window, row-major -/
theorem contig_ix (A : MView) (ht : A.tda = A.c) (i j : Nat) : A.ix i j = A.off + (i * A.c + j) := by
  unfold MView.ix; rw [ht]; omega

theorem contig_lt (r c i j : Nat) (hi : i < r) (hj : j < c) : i * c + j < r * c := by
  have := Nat.mul_le_mul_right c (Nat.succ_le_of_lt hi)
  rw [Nat.succ_mul] at this
  omega

theorem contig_split (c k : Nat) (hc : 0 < c) : k = (k / c) * c + k % c := by
  have := Nat.div_add_mod k c
  rw [Nat.mul_comm] at this
  omega

end NipyVerif.C16
