/- Helper lemmas for the intrinsic volumes of solid boxes (C15): counting voxels,
   areas of the triangles of an affine coordinate field. -/
import NipyVerif.Lemmas.C15Lips

namespace NipyVerif.C15

theorem sumN_ind_add (n m e : Nat) : sumN m (fun i => ind n (i + e)) = ((min m (n - e) : Nat) : Int) := by
  induction m with
  | zero => simp [sumN]
  | succ m ih =>
      have s : sumN (m + 1) (fun i => ind n (i + e)) = sumN m (fun i => ind n (i + e)) + ind n (m + e) := rfl
      rw [s, ih]
      unfold ind
      split_ifs with h
      · have : min (m + 1) (n - e) = min m (n - e) + 1 := by omega
        rw [this]; push_cast; ring
      · have : min (m + 1) (n - e) = min m (n - e) := by omega
        rw [this]; simp

/-- number of voxels `(i,j,k)` of the array `a × b × c` with `(i+e0, j+e1, k+e2)` still inside -/
theorem box_count (a b c e0 e1 e2 : Nat) :
    sum3 a b c (fun i j k => ind a (i + e0) * ind b (j + e1) * ind c (k + e2))
      = ((a - e0 : Nat) : Int) * ((b - e1 : Nat) : Int) * ((c - e2 : Nat) : Int) := by
  rw [sum3_prod, sumN_ind_add, sumN_ind_add, sumN_ind_add,
    Nat.min_eq_right (Nat.sub_le a e0), Nat.min_eq_right (Nat.sub_le b e1), Nat.min_eq_right (Nat.sub_le c e2)]

/-- the Gram form of the step vectors on index differences `e, f ∈ ℚ³` -/
def qf (A : List Comp) (e f : Rat × Rat × Rat) : Rat :=
  e.1 * f.1 * S A Comp.u Comp.u + (e.1 * f.2.1 + e.2.1 * f.1) * S A Comp.u Comp.v
  + (e.1 * f.2.2 + e.2.2 * f.1) * S A Comp.u Comp.w + e.2.1 * f.2.1 * S A Comp.v Comp.v
  + (e.2.1 * f.2.2 + e.2.2 * f.2.1) * S A Comp.v Comp.w + e.2.2 * f.2.2 * S A Comp.w Comp.w

/-- squared area of the parallelogram spanned by the images of `e` and `f` -/
def area2 (A : List Comp) (e f : Rat × Rat × Rat) : Rat := qf A e e * qf A f f - qf A e f ^ 2

/-- index difference `w − v` -/
def dv (v w : Pt) : Rat × Rat × Rat := ((w.1 : Rat) - v.1, (w.2.1 : Rat) - v.2.1, (w.2.2 : Rat) - v.2.2)

/-- `mu2_tri` on the argument `L` -/
def sqp (P : Num) (L : Rat) : Rat := if L < 0 then 0 else P.sq L * (1 / 2)

theorem mu2Tri_affine (P : Num) (A : List Comp) (p q r : Pt) :
    mu2Tri P (dotv (affineX A p) (affineX A p)) (dotv (affineX A p) (affineX A q)) (dotv (affineX A p) (affineX A r))
      (dotv (affineX A q) (affineX A q)) (dotv (affineX A q) (affineX A r)) (dotv (affineX A r) (affineX A r))
    = sqp P (area2 A (dv p q) (dv p r)) := by
  have : triL (dotv (affineX A p) (affineX A p)) (dotv (affineX A p) (affineX A q)) (dotv (affineX A p) (affineX A r))
      (dotv (affineX A q) (affineX A q)) (dotv (affineX A q) (affineX A r)) (dotv (affineX A r) (affineX A r))
      = area2 A (dv p q) (dv p r) := by
    simp only [triL, dot_affine, area2, qf, dv]; ring
  simp only [mu2Tri, sqp, this]

theorem dv_padd (x v w : Pt) : dv (padd x v) (padd x w) = dv v w := by
  simp only [dv, padd]; push_cast; ext <;> simp

theorem tri2_affine (P : Num) (A : List Comp) (x v0 v1 v2 : Pt) :
    tri2 P (gramAt (affineX A) x [v0, v1, v2]) = sqp P (area2 A (dv v0 v1) (dv v0 v2)) := by
  simp only [tri2, gramAt, List.getD_cons_zero, List.getD_cons_succ, mu2Tri_affine, dv_padd]

theorem tet2_affine (P : Num) (A : List Comp) (x v0 v1 v2 v3 : Pt) :
    tet2 P (gramAt (affineX A) x [v0, v1, v2, v3])
      = (sqp P (area2 A (dv v0 v1) (dv v0 v2)) + sqp P (area2 A (dv v0 v2) (dv v0 v3))
        + sqp P (area2 A (dv v1 v2) (dv v1 v3)) + sqp P (area2 A (dv v0 v1) (dv v0 v3))) * (1 / 2) := by
  simp only [tet2, mu2Tet, gramAt, List.getD_cons_zero, List.getD_cons_succ, mu2Tri_affine, dv_padd]

end NipyVerif.C15
