/- C05 (extension) — helper lemmas for the results API, the rank certificate and the AR filter. -/
import NipyVerif.Model.C05D
import NipyVerif.Lemmas.C05
import Mathlib.LinearAlgebra.Matrix.Rank

namespace NipyVerif.C05
open Matrix Finset

/-! ### `pos_recipr`, `recipr0` -/

theorem posRecipr_pos {x : Rat} (h : 0 < x) : posRecipr x = 1 / x := by simp [posRecipr, h]

theorem posRecipr_nonpos {x : Rat} (h : x ≤ 0) : posRecipr x = 0 := by
  simp [posRecipr, not_lt.mpr h]

/-! ### sums over unit vectors -/

theorem sum_unit_mul {p : Nat} (i : Fin p) (g : Fin p → Rat) : ∑ a, unitVec i a * g a = g i := by
  simp [unitVec, ite_mul]

theorem tEffect_unit {n p v : Nat} (f : Fit n p v) (i : Fin p) (j : Fin v) :
    tEffect f (unitVec i) j = f.beta i j := by
  simp only [tEffect, fsum_eq]; exact sum_unit_mul i (fun a => f.beta a j)

theorem quad_unit {p : Nat} (cov : Mat p p) (i : Fin p) : vdot (unitVec i) (mvec cov (unitVec i)) = cov i i := by
  simp only [vdot, mvec, fsum_eq]
  rw [sum_unit_mul i (fun a => ∑ l, cov a l * unitVec i l)]
  have : ∀ l, cov i l * unitVec i l = unitVec i l * cov i l := fun l => mul_comm _ _
  simp only [this]
  exact sum_unit_mul i (fun l => cov i l)

/-- `e_a cov e_bᵀ = cov[a, b]` for the selection matrix -/
theorem selMat_cov {p k : Nat} (cov : Mat p p) (cols : Fin k → Fin p) (a b : Fin k) :
    mmul (selMat cols) (mmul cov (tr (selMat cols))) a b = cov (cols a) (cols b) := by
  simp only [mmul, tr, selMat, fsum_eq]
  rw [sum_unit_mul (cols a) (fun l => ∑ m, cov l m * unitVec (cols b) m)]
  have : ∀ m, cov (cols a) m * unitVec (cols b) m = unitVec (cols b) m * cov (cols a) m := fun m => mul_comm _ _
  simp only [this]
  exact sum_unit_mul (cols b) (fun m => cov (cols a) m)

/-! ### quadratic forms of `cov = pinv pinvᵀ` are non-negative -/

theorem quad_gram_nonneg {p n : Nat} (P : Mat p n) (u : Vec p) :
    0 ≤ ∑ l, ∑ m, u l * mmul P (tr P) l m * u m := by
  have key : ∑ l, ∑ m, u l * mmul P (tr P) l m * u m = ∑ i, (∑ l, u l * P l i) * (∑ l, u l * P l i) := by
    calc ∑ l, ∑ m, u l * mmul P (tr P) l m * u m
        = ∑ l, ∑ m, ∑ i, (u l * P l i) * (u m * P m i) := by
          apply Finset.sum_congr rfl; intro l _
          apply Finset.sum_congr rfl; intro m _
          simp only [mmul, tr, fsum_eq, Finset.mul_sum, Finset.sum_mul]
          apply Finset.sum_congr rfl; intro i _; ring
      _ = ∑ l, ∑ i, ∑ m, (u l * P l i) * (u m * P m i) := by
          apply Finset.sum_congr rfl; intro l _; rw [Finset.sum_comm]
      _ = ∑ i, ∑ l, ∑ m, (u l * P l i) * (u m * P m i) := by rw [Finset.sum_comm]
      _ = ∑ i, (∑ l, u l * P l i) * (∑ l, u l * P l i) := by
          apply Finset.sum_congr rfl; intro i _; rw [Finset.sum_mul_sum]
  rw [key]
  exact Finset.sum_nonneg fun i _ => mul_self_nonneg _

/-- `zᵀ (M cov Oᵀ) z'` as a bilinear form in `zᵀM`, `z'ᵀO` -/
theorem bilin_mat {p q q' : Nat} (cov : Mat p p) (M : Mat q p) (O : Mat q' p) (z : Vec q) (z' : Vec q') :
    ∑ a, ∑ b, z a * mmul M (mmul cov (tr O)) a b * z' b
      = ∑ l, ∑ m, (∑ a, z a * M a l) * cov l m * (∑ b, z' b * O b m) := by
  calc ∑ a, ∑ b, z a * mmul M (mmul cov (tr O)) a b * z' b
      = ∑ a, ∑ b, ∑ l, ∑ m, z a * M a l * cov l m * (z' b * O b m) := by
        apply Finset.sum_congr rfl; intro a _
        apply Finset.sum_congr rfl; intro b _
        simp only [mmul, tr, fsum_eq, Finset.mul_sum, Finset.sum_mul]
        apply Finset.sum_congr rfl; intro l _
        apply Finset.sum_congr rfl; intro m _
        ring
    _ = ∑ a, ∑ l, ∑ b, ∑ m, z a * M a l * cov l m * (z' b * O b m) := by
        apply Finset.sum_congr rfl; intro a _; rw [Finset.sum_comm]
    _ = ∑ l, ∑ a, ∑ b, ∑ m, z a * M a l * cov l m * (z' b * O b m) := by rw [Finset.sum_comm]
    _ = ∑ l, ∑ a, ∑ m, ∑ b, z a * M a l * cov l m * (z' b * O b m) := by
        apply Finset.sum_congr rfl; intro l _
        apply Finset.sum_congr rfl; intro a _; rw [Finset.sum_comm]
    _ = ∑ l, ∑ m, ∑ a, ∑ b, z a * M a l * cov l m * (z' b * O b m) := by
        apply Finset.sum_congr rfl; intro l _; rw [Finset.sum_comm]
    _ = _ := by
        apply Finset.sum_congr rfl; intro l _
        apply Finset.sum_congr rfl; intro m _
        rw [Finset.sum_mul, Finset.sum_mul]
        apply Finset.sum_congr rfl; intro a _
        rw [Finset.mul_sum]


/-! ### rank from a certified factorisation -/

theorem rank_of_factor {n p r : Nat} (X : Mat n p) (B : Mat n r) (C : Mat r p) (L : Mat r n) (S : Mat p r)
    (hX : mmul B C = X) (hL : mmul L B = idm r) (hS : mmul C S = idm r) : (toM X).rank = r := by
  have hX' : toM X = toM B * toM C := by rw [← mmul_toM, hX]
  have hL' : toM L * toM B = 1 := by rw [← mmul_toM, hL, idm_toM]
  have hS' : toM C * toM S = 1 := by rw [← mmul_toM, hS, idm_toM]
  apply le_antisymm
  · rw [hX']
    exact (Matrix.rank_mul_le_left _ _).trans (Matrix.rank_le_width _)
  · have h1 : toM L * (toM X * toM S) = 1 := by
      rw [hX']
      calc toM L * (toM B * toM C * toM S) = (toM L * toM B) * (toM C * toM S) := by
            simp only [Matrix.mul_assoc]
        _ = 1 := by rw [hL', hS', Matrix.one_mul]
    have h2 : (1 : Matrix (Fin r) (Fin r) ℚ).rank = r := by rw [Matrix.rank_one, Fintype.card_fin]
    calc r = (toM L * (toM X * toM S)).rank := by rw [h1, h2]
      _ ≤ (toM X * toM S).rank := Matrix.rank_mul_le_right _ _
      _ ≤ (toM X).rank := Matrix.rank_mul_le_left _ _

/-- a design whose Gram matrix has a (certified) inverse has full column rank -/
theorem rank_of_gram_inv {n p : Nat} (X : Mat n p) (G : Mat p p) (h : mmul G (mmul (tr X) X) = idm p) :
    (toM X).rank = p := by
  apply rank_of_factor X X (idm p) (mmul G (tr X)) (idm p) (mmul_idm X)
  · rw [mmul_assoc]; exact h
  · exact mmul_idm _

theorem rankCertOf_sound {n p : Nat} (X : Mat n p) (sel : List (Fin p)) (r : Nat)
    (h : rankCertOf X sel = some r) : (toM X).rank = r := by
  unfold rankCertOf at h
  simp only [ofArr2_toArr2] at h
  split at h
  · exact absurd h (by simp)
  · rename_i G hG
    split at h
    · rename_i hc
      simp only [Option.some.injEq] at h
      rw [Bool.and_eq_true] at hc
      obtain ⟨h1, h2⟩ := hc
      have e1 := (matEq_iff _ _).mp h1
      have e2 := (matEq_iff _ _).mp h2
      rw [← h]
      set B : Mat n sel.length := fun i a => X i (sel.get a) with hB
      apply rank_of_factor X B (mmul (mmul G (tr B)) X) (mmul G (tr B))
        (fun m b => if m = sel.get b then 1 else 0) e1
      · rw [mmul_assoc]; exact inv?_spec hG
      · rw [← e2]
        funext a b
        simp only [mmul, fsum_eq, mul_ite, mul_one, mul_zero, Finset.sum_ite_eq', Finset.mem_univ, if_true]
    · exact absurd h (by simp)

/-! ### AR(p) whitening: loop = filter -/

/-- row `t - d` of `X` (zero before the start of the series) -/
def lagRow {n k : Nat} (X : Mat n k) (t : Fin n) (d : Nat) (j : Fin k) : Rat :=
  if h : d ≤ t.1 then X ⟨t.1 - d, by omega⟩ j else 0

theorem arStep_lag {n k : Nat} (X acc : Mat n k) (i : Nat) (r : Rat) (t : Fin n) (j : Fin k) :
    arStep X acc i r t j = acc t j - r * lagRow X t (i + 1) j := by
  unfold arStep lagRow
  by_cases h : i + 1 ≤ t.1
  · simp only [dif_pos h]
  · simp only [dif_neg h, mul_zero, sub_zero]

theorem arLoop_filter {n k : Nat} (X : Mat n k) (rs : List Rat) :
    ∀ (i : Nat) (acc : Mat n k) (t : Fin n) (j : Fin k),
      arLoop X rs i acc t j
        = acc t j - ((List.range rs.length).map fun m => rs.getD m 0 * lagRow X t (i + m + 1) j).sum := by
  induction rs with
  | nil => intro i acc t j; simp [arLoop]
  | cons r rs ih =>
      intro i acc t j
      simp only [arLoop]
      rw [ih (i + 1) (arStep X acc i r) t j, arStep_lag]
      simp only [List.length_cons, List.range_succ_eq_map, List.map_cons, List.sum_cons, List.map_map,
        List.getD_cons_zero, Nat.add_zero]
      have : ((List.range rs.length).map ((fun m => (r :: rs).getD m 0 * lagRow X t (i + m + 1) j) ∘ Nat.succ))
          = (List.range rs.length).map fun m => rs.getD m 0 * lagRow X t (i + 1 + m + 1) j := by
        apply List.map_congr_left; intro m _
        simp only [Function.comp, List.getD_cons_succ]
        have : i + m.succ + 1 = i + 1 + m + 1 := by omega
        rw [this]
      rw [this]; ring

theorem arFilter_lag {n k : Nat} (rho : List Rat) (X : Mat n k) (t : Fin n) (j : Fin k) :
    arFilter rho X t j
      = X t j - ((List.range rho.length).map fun m => rho.getD m 0 * lagRow X t (m + 1) j).sum := by
  unfold arFilter
  congr 2
  apply List.map_congr_left; intro m _
  unfold lagRow
  by_cases h : m + 1 ≤ t.1
  · simp only [dif_pos h]
  · simp only [dif_neg h, mul_zero]

theorem arLoop_add {n k : Nat} (A B : Mat n k) (rho : List Rat) :
    ∀ (i : Nat) (accA accB : Mat n k),
      arLoop (fun t j => A t j + B t j) rho i (fun t j => accA t j + accB t j)
        = fun t j => arLoop A rho i accA t j + arLoop B rho i accB t j := by
  induction rho with
  | nil => intro i accA accB; rfl
  | cons r rs ih =>
      intro i accA accB
      simp only [arLoop]
      have : arStep (fun t j => A t j + B t j) (fun t j => accA t j + accB t j) i r
          = fun t j => arStep A accA i r t j + arStep B accB i r t j := by
        funext t j; unfold arStep; split
        · ring
        · rfl
      rw [this]; exact ih (i + 1) (arStep A accA i r) (arStep B accB i r)

/-! ### `yule_walker` -/

theorem vmean_shift {n : Nat} (x : Vec n) (c : Rat) (hn : 0 < n) : vmean (fun t => x t + c) = vmean x + c := by
  have hne : (n : Rat) ≠ 0 := by exact_mod_cast Nat.pos_iff_ne_zero.mp hn
  simp only [vmean, fsum_eq, Finset.sum_add_distrib, Finset.sum_const, Finset.card_univ, Fintype.card_fin,
    nsmul_eq_mul]
  field_simp

theorem ywR_shift {n : Nat} (x : Vec n) (c : Rat) (ub : Bool) (nE k : Nat) :
    ywR (fun t => x t + c) ub nE k = ywR x ub nE k := by
  rcases Nat.eq_zero_or_pos n with h0 | hn
  · subst h0
    simp [ywR, lagSum1, fsum_eq]
  · simp only [ywR, vmean_shift x c hn]
    have : (fun t => x t + c - (vmean x + c)) = fun t => x t - vmean x := by funext t; ring
    rw [this]

end NipyVerif.C05

namespace NipyVerif.C05
open Finset

/-! ### AR whitening as a matrix -/

/-- a sum over `u : Fin n` that picks the single index `u.1 + d = t.1` -/
theorem sum_pick_lag {n : Nat} (t : Fin n) (d : Nat) (g : Fin n → Rat) :
    ∑ u : Fin n, (if u.1 + d = t.1 then g u else 0)
      = if h : d ≤ t.1 then g ⟨t.1 - d, by omega⟩ else 0 := by
  by_cases h : d ≤ t.1
  · simp only [dif_pos h]
    rw [Finset.sum_eq_single (⟨t.1 - d, by omega⟩ : Fin n)]
    · have : t.1 - d + d = t.1 := by omega
      simp [this]
    · intro u _ hu
      have : ¬ u.1 + d = t.1 := by
        intro e; apply hu; apply Fin.ext; simp only; omega
      simp [this]
    · intro hx; exact absurd (Finset.mem_univ _) hx
  · simp only [dif_neg h]
    apply Finset.sum_eq_zero; intro u _
    have : ¬ u.1 + d = t.1 := by omega
    simp [this]

/-- a sum over `m < len` that picks the single index `m = t - u - 1` -/
theorem sum_pick_range (len : Nat) (t u : Nat) (f : Nat → Rat) :
    ((List.range len).map fun m => if u + (m + 1) = t then f m else 0).sum
      = if u < t ∧ t - u ≤ len then f (t - u - 1) else 0 := by
  induction len with
  | zero =>
      simp only [List.range_zero, List.map_nil, List.sum_nil]
      split
      · omega
      · rfl
  | succ len ih =>
      rw [List.range_succ, List.map_append, List.sum_append, ih]
      simp only [List.map_cons, List.map_nil, List.sum_cons, List.sum_nil, add_zero]
      by_cases h1 : u < t ∧ t - u ≤ len
      · have h2 : u < t ∧ t - u ≤ len + 1 := ⟨h1.1, by omega⟩
        have h3 : ¬ u + (len + 1) = t := by omega
        rw [if_pos h1, if_neg h3, if_pos h2, add_zero]
      · by_cases h4 : u + (len + 1) = t
        · have h2 : u < t ∧ t - u ≤ len + 1 := ⟨by omega, by omega⟩
          have : t - u - 1 = len := by omega
          rw [if_neg h1, if_pos h4, if_pos h2, zero_add, this]
        · have h2 : ¬ (u < t ∧ t - u ≤ len + 1) := by
            intro ⟨a, b⟩; apply h1; exact ⟨a, by omega⟩
          rw [if_neg h1, if_neg h4, if_neg h2, add_zero]

theorem list_sum_map_finset {α : Type} [Fintype α] (l : List Nat) (g : Nat → α → Rat) :
    ∑ u : α, (l.map fun m => g m u).sum = (l.map fun m => ∑ u : α, g m u).sum := by
  induction l with
  | nil => simp
  | cons x xs ih => simp only [List.map_cons, List.sum_cons, Finset.sum_add_distrib, ih]

theorem arMat_mul {n k : Nat} (rho : List Rat) (X : Mat n k) : mmul (arMat rho n) X = arFilter rho X := by
  funext t j
  rw [arFilter_lag]
  simp only [mmul, fsum_eq]
  -- split the matrix into its diagonal and its band
  have hW : ∀ u : Fin n, arMat rho n t u * X u j
      = (if u = t then X u j else 0)
        - (if u.1 < t.1 ∧ t.1 - u.1 ≤ rho.length then rho.getD (t.1 - u.1 - 1) 0 * X u j else 0) := by
    intro u
    unfold arMat
    by_cases h1 : u.1 = t.1
    · have hu : u = t := Fin.ext h1
      have h2 : ¬ (u.1 < t.1 ∧ t.1 - u.1 ≤ rho.length) := by omega
      rw [if_pos h1, if_pos hu, if_neg h2]; ring
    · have hu : ¬ u = t := fun e => h1 (congrArg Fin.val e)
      by_cases h2 : u.1 < t.1 ∧ t.1 - u.1 ≤ rho.length
      · rw [if_neg h1, if_pos h2, if_neg hu, if_pos h2]; ring
      · rw [if_neg h1, if_neg h2, if_neg hu, if_neg h2]; ring
  simp only [hW, Finset.sum_sub_distrib, Finset.sum_ite_eq', Finset.mem_univ, if_true]
  congr 1
  -- the band: exchange the sum over u with the sum over the lags
  have hband : ∀ u : Fin n,
      (if u.1 < t.1 ∧ t.1 - u.1 ≤ rho.length then rho.getD (t.1 - u.1 - 1) 0 * X u j else 0)
        = ((List.range rho.length).map fun m =>
            if u.1 + (m + 1) = t.1 then rho.getD m 0 * X u j else 0).sum := by
    intro u
    rw [sum_pick_range rho.length t.1 u.1 (fun m => rho.getD m 0 * X u j)]
  simp only [hband]
  rw [list_sum_map_finset (List.range rho.length)
        (fun m (u : Fin n) => if u.1 + (m + 1) = t.1 then rho.getD m 0 * X u j else 0)]
  congr 1
  apply List.map_congr_left; intro m _
  rw [sum_pick_lag t (m + 1) (fun u => rho.getD m 0 * X u j)]
  unfold lagRow
  by_cases h : m + 1 ≤ t.1
  · simp only [dif_pos h]
  · simp only [dif_neg h, mul_zero]

end NipyVerif.C05
