/- Helper lemmas for the header-as-state model (`Model/C03H.lean`): the closed form of `bodyR`. -/
import NipyVerif.Lemmas.C03
import NipyVerif.Model.C03H

namespace NipyVerif.C03
open List

variable (strict fix : Bool) (orient : Mat → List (Option Nat)) (sq rnd : Rat → Rat)
  (quatOf : Mat → List Rat)

/-- `pixdim` beyond the dimensions of the output: reset to 1 by `set_data_shape` — unless the header
    already had the output's shape, then whatever it held stays (unused entries, not geometry) -/
def tailOf (g : Img) (start : Raw) (h : Hdr) : List Rat :=
  let pre := if h.sform = 0 then start.pixNs.take (g.shape.length - 3) ++ List.replicate (4 - (g.shape.length - 3)) 1
             else start.pixNs
  if (if h.sform = 0 then g.shape else start.shape) = h.shape then pre.drop h.pixdim.length
  else List.replicate (4 - h.pixdim.length) 1

/-- the header `nipy2nifti` ends with, written out field by field: geometry from the image (through
    the header-free model's `h`), the rest from the incoming header `start` -/
def assembleHdr (g : Img) (start : Raw) (dt : String) (xyz : Mat) (h : Hdr) : Raw :=
  { shape := h.shape,
    pix03 := qfacOf xyz :: (zooms3 sq xyz).map rnd,
    pixNs := h.pixdim.map rnd ++ tailOf g start h,
    sformCode := h.sform, qformCode := h.qform,
    srow := if h.sform = 0 then start.srow else (xyz.take 3).map (fun row => row.map rnd),
    quat := (quatOf xyz).map rnd,
    qoffset := (List.range 3).map (fun r => rnd (entry xyz r 3)),
    toffset := rnd h.toffset,
    sunits := h.sunits, tunits := h.tunits, freq := h.freq, phase := h.phase, slice := h.slice,
    dtype := dt, slope := none, inter := none, voxOffset := 0, kept := start.kept }

def assemble (g : Img) (start : Raw) (dt : String) (xyz : Mat) (h : Hdr) : NiImg :=
  { hdr := assembleHdr sq rnd quatOf g start dt xyz h, affine := h.affine, axes := h.axes }

theorem xformSpaces_code_ne_zero {p : String × Nat} (hp : p ∈ xformSpaces) : p.2 ≠ 0 := by
  simp only [xformSpaces, List.mem_cons, List.not_mem_nil, or_false] at hp
  rcases hp with rfl | rfl | rfl | rfl <;> simp

theorem zooms3_length (xyz : Mat) : (zooms3 sq xyz).length = 3 := by simp [zooms3]

/-- header after the space decision, for the codes `spaceCodes` returns -/
def spaceHdr (g : Img) (xyz : Mat) (h0 : Raw) (sf qf : Nat) : Raw :=
  if sf = 0 then ((h0.setDataShape g.shape).setQform sq rnd quatOf xyz 0).setSform rnd none 0
  else (h0.setSform rnd (some xyz) sf).setQform sq rnd quatOf xyz qf

theorem spaceStepR_eq (g : Img) (xyz : Mat) (h0 : Raw) :
    spaceStepR strict sq rnd quatOf g xyz h0 =
      match spaceCodes strict sq g xyz with
      | .ok c => .ok (spaceHdr sq rnd quatOf g xyz h0 c.1 c.2)
      | .error e => .error e := by
  unfold spaceStepR spaceCodes
  simp only []
  cases hf : xformSpaces.find? (fun p => inSpace (g.outNames.take 3) p.1) with
  | some p =>
    have hne := xformSpaces_code_ne_zero (List.mem_of_find?_eq_some hf)
    simp [spaceHdr, hne]
  | none =>
    simp only []
    by_cases h1 : (!strict && g.outNames.take 3 == ["x", "y", "z"]) = true
    · simp only [h1, if_true]; simp [spaceHdr]
    · simp only [h1]
      by_cases h2 : (!inSpace (g.outNames.take 3) "unknown") = true
      · simp only [h2, if_true]; simp
      · simp only [h2]
        by_cases h3 : 7 < g.shape.length
        · simp only [h3, if_true]; simp
        · simp only [h3, zooms3]
          by_cases h4 : matClose xyz (baseAffine g.shape ((List.range 3).map (fun c =>
              sq (((List.range 3).map (fun r => entry xyz r c * entry xyz r c)).sum)))) = true
          · simp only [h4, if_true]; simp [spaceHdr]
          · simp only [h4]; simp

/-- the codes `spaceCodes` returns are both zero or both non-zero -/
theorem spaceCodes_codes {g : Img} {xyz : Mat} {sf qf : Nat}
    (h : spaceCodes strict sq g xyz = .ok (sf, qf)) : sf = qf := by
  unfold spaceCodes at h
  simp only [] at h
  split at h
  · cases h; rfl
  · split at h
    · cases h; rfl
    · split at h
      · cases h
      · split at h
        · cases h
        · split at h
          · cases h; rfl
          · cases h

/-- `Nifti1Image(...)` after the last `pixdim[4:4+n]` assignment -/
theorem mkNi_setPixNs (h : Raw) (xyz : Mat) (S : List Nat) (axes : List (Option Nat)) (P : List Rat)
    (h4 : h.pix03.length = 4) (hS : S.length = 3 + P.length) :
    mkNi (h.setPixNs rnd P) xyz S axes =
      { hdr := { h with shape := S,
                        pixNs := P.map rnd ++ (if h.shape = S then h.pixNs.drop P.length
                                               else List.replicate (4 - P.length) 1),
                        slope := none, inter := none, voxOffset := 0 },
        affine := xyz, axes := axes } := by
  by_cases hs : h.shape = S
  · simp [mkNi, Raw.setPixNs, hs]
  · have h1 : h.pix03.take (S.length + 1) = h.pix03 := List.take_of_length_le (by omega)
    have h2 : 4 - (S.length + 1) = 0 := by omega
    have h3 : S.length - 3 = (P.map rnd).length := by simp; omega
    simp only [mkNi, Raw.setPixNs, hs, if_false, Raw.setDataShape, h1, h2, List.replicate_zero, List.append_nil]
    rw [h3, List.take_left']
    · simp
    · rfl

theorem mkNi_3d (h : Raw) (xyz : Mat) (S : List Nat) (axes : List (Option Nat))
    (h4 : h.pix03.length = 4) (hS : S.length = 3) :
    mkNi h xyz S axes =
      { hdr := { h with shape := S, pixNs := if h.shape = S then h.pixNs else List.replicate 4 1,
                        slope := none, inter := none, voxOffset := 0 },
        affine := xyz, axes := axes } := by
  by_cases hs : h.shape = S
  · simp [mkNi, hs]
  · have h1 : h.pix03.take (S.length + 1) = h.pix03 := List.take_of_length_le (by omega)
    simp only [mkNi, hs, if_false, Raw.setDataShape, h1]
    simp [hS]

theorem spaceHdr_pix03 (g : Img) (xyz : Mat) (h0 : Raw) (sf qf : Nat) :
    (spaceHdr sq rnd quatOf g xyz h0 sf qf).pix03 = qfacOf xyz :: (zooms3 sq xyz).map rnd := by
  unfold spaceHdr
  split <;> simp [Raw.setQform, Raw.setSform, Raw.setDataShape]

theorem pixdims_length (g : Img) : (pixdims sq g).length = g.n - 3 := by simp [pixdims]

theorem pick_length {α} (d : α) (l : List α) (order : List Nat) : (pick d l order).length = order.length := by
  simp [pick]

/-- header just before the dimension count is looked at -/
def midHdr (g : Img) (xyz : Mat) (h0 : Raw) (sf qf : Nat) : Raw :=
  (((spaceHdr sq rnd quatOf g xyz h0 sf qf).setDimInfo ((g.inNames.take 3).idxOf? "freq")
      ((g.inNames.take 3).idxOf? "phase") ((g.inNames.take 3).idxOf? "slice")).setUnits "mm" "unknown").setToffset rnd 0

theorem midHdr_pix03 (g : Img) (xyz : Mat) (h0 : Raw) (sf qf : Nat) :
    (midHdr sq rnd quatOf g xyz h0 sf qf).pix03.length = 4 := by
  simp [midHdr, Raw.setDimInfo, Raw.setUnits, Raw.setToffset, spaceHdr_pix03, zooms3_length]

/-- **closed form of `nipy2nifti`'s body on an arbitrary incoming header**: it refuses exactly when
    the header-free model refuses (same site), and otherwise the header is `assemble`: every
    geometry-bearing field computed from the image, the rest taken from `start`. -/
theorem bodyR_closed (g : Img) (dt : String) (start : Raw)
    (hshape : g.shape.length = g.n) (hn : 3 ≤ g.n) :
    bodyR strict fix orient sq rnd quatOf g dt start =
      match body strict fix orient sq g with
      | .ok h => .ok (assemble sq rnd quatOf g start dt (xyzBlock g) h)
      | .error e => .error e := by
  unfold bodyR body
  by_cases h1 : (!spaceDecoupled g) = true
  · simp only [h1, if_true]
  simp only [h1]
  by_cases h2 : nspCoupled g = true
  · simp only [h2, if_true]; simp
  simp only [h2]
  cases hx : xyzAffine strict orient g with
  | none => simp
  | some xyz =>
    have hxyz := xyzAffine_some hx
    subst hxyz
    simp only [spaceStepR_eq]
    cases hs : spaceCodes strict sq g (xyzBlock g) with
    | error e => simp
    | ok c =>
      obtain ⟨sf, qf⟩ := c
      have hq := spaceCodes_codes strict sq hs
      subst hq
      simp only []
      have hmid := midHdr_pix03 sq rnd quatOf g (xyzBlock g) (start.setDtype dt) sf sf
      by_cases h0 : g.n - 3 = 0
      · simp only [h0, if_true]
        have hS : g.shape.length = 3 := by omega
        have := mkNi_3d (midHdr sq rnd quatOf g (xyzBlock g) (start.setDtype dt) sf sf) (xyzBlock g) g.shape g.axes hmid hS
        simp only [midHdr] at this
        simp only [Bool.false_eq_true, if_false]
        rw [this]
        by_cases hsf : sf = 0 <;>
          simp [assemble, assembleHdr, tailOf, header0, spaceHdr, hsf, Raw.setDimInfo, Raw.setUnits, Raw.setToffset,
            Raw.setQform, Raw.setSform, Raw.setDataShape, Raw.setDtype]
      · simp only [h0, if_false, Bool.false_eq_true]
        by_cases h4 : g.n - 3 > 4
        · simp only [h4, if_true]
        · simp only [h4, if_false]
          have hpl := pixdims_length sq g
          have hshape3 : (g.shape.take 3).length = 3 := by simp [List.length_take]; omega
          generalize findTimeLike orient fix g = r
          have hmid' : ∀ (s t : String), ((midHdr sq rnd quatOf g (xyzBlock g) (start.setDtype dt) sf sf).setUnits s t).pix03.length = 4 := by
            intro s t; simpa [Raw.setUnits] using hmid
          simp only [midHdr] at hmid'
          cases r with
          | error e => simp [finishR, finish]
          | ok o =>
            cases o with
            | none =>
              simp only [finishR, finish]
              by_cases h5 : g.n - 3 = 4
              · simp only [h5, if_true]
              · simp only [h5, if_false]
                have hS : (g.shape.take 3 ++ [1] ++ g.shape.drop 3).length = 3 + (0 :: pixdims sq g).length := by
                  simp [List.length_take, List.length_drop, hpl]; omega
                rw [mkNi_setPixNs rnd _ _ _ _ _ (hmid' "mm" "unknown") hS]
                by_cases hsf : sf = 0 <;>
                  simp [assemble, assembleHdr, tailOf, header0, noTimeHdr, spaceHdr, hsf, Raw.setDimInfo, Raw.setUnits,
                    Raw.setToffset, Raw.setQform, Raw.setSform, Raw.setDataShape, Raw.setDtype]
            | some tl =>
              simp only [finishR, finish]
              have hS : (g.shape.take 3 ++ pick 0 (g.shape.drop 3) (rollOrder (g.n - 3) (tl.inAx - 3))).length =
                  3 + (pick 0 (pixdims sq g) (rollOrder (g.n - 3) (tl.inAx - 3))).length := by
                simp [pick_length, hshape3]
              by_cases h5 : tl.name = "t" ∧ anyTrans g = true
              · simp only [h5, and_self, if_true, true_and]
                cases ho : tl.outAx with
                | none => simp
                | some oa =>
                  simp only [reduceCtorEq, if_false]
                  have h44 : (((midHdr sq rnd quatOf g (xyzBlock g) (start.setDtype dt) sf sf).setUnits "mm" "sec").setToffset rnd
                      (entry g.aff oa g.n)).pix03.length = 4 := by simpa [Raw.setUnits, Raw.setToffset] using hmid
                  simp only [midHdr] at h44
                  rw [mkNi_setPixNs rnd _ _ _ _ _ h44 hS]
                  by_cases hsf : sf = 0 <;>
                    simp [assemble, assembleHdr, tailOf, header0, timeHdr, toffsetOf, h5, ho, spaceHdr, hsf, Raw.setDimInfo,
                      Raw.setUnits, Raw.setToffset, Raw.setQform, Raw.setSform, Raw.setDataShape, Raw.setDtype,
                      pick_length]
              · have h5' : ¬ (tl.name = "t" ∧ anyTrans g = true ∧ tl.outAx = none) := fun hc => h5 ⟨hc.1, hc.2.1⟩
                simp only [h5, h5', if_false]
                rw [mkNi_setPixNs rnd _ _ _ _ _ (hmid' "mm" _) hS]
                by_cases hsf : sf = 0 <;>
                  simp [assemble, assembleHdr, tailOf, header0, timeHdr, toffsetOf, h5, spaceHdr, hsf, Raw.setDimInfo,
                    Raw.setUnits, Raw.setToffset, Raw.setQform, Raw.setSform, Raw.setDataShape, Raw.setDtype,
                    pick_length]

theorem body_codes_equal {g : Img} {h : Hdr} (hb : body strict fix orient sq g = .ok h) :
    h.sform = h.qform := by
  obtain ⟨_, _, xyz, sf, qf, _, hs, _, hcase⟩ := body_ok_inv hb
  have hq := spaceCodes_codes strict sq hs
  subst hq
  rcases hcase with ⟨_, hh⟩ | ⟨_, hf⟩
  · subst hh; rfl
  · rcases finish_ok_inv hf with ⟨_, _, hh⟩ | ⟨tl, _, _, hh⟩ <;> subst hh <;> rfl

theorem insertKey_length (p : Nat × Nat) (l : List (Nat × Nat)) : (insertKey p l).length = l.length + 1 := by
  induction l with
  | nil => rfl
  | cons q rest ih => unfold insertKey; split <;> simp [ih]

theorem foldl_insertKey_length (l acc : List (Nat × Nat)) :
    (l.foldl (fun acc p => insertKey p acc) acc).length = acc.length + l.length := by
  induction l generalizing acc with
  | nil => simp
  | cons p rest ih => simp [List.foldl_cons, ih, insertKey_length]; omega

theorem argsort_length (keys : List Nat) : (argsort keys).length = keys.length := by
  simp [argsort, foldl_insertKey_length]

theorem three_le_length_of_mem (l : List (Option Nat)) (h0 : some 0 ∈ l) (h1 : some 1 ∈ l) (h2 : some 2 ∈ l) :
    3 ≤ l.length := by
  have hsub : [some 0, some 1, some 2] ⊆ l := by
    intro x hx
    simp only [List.mem_cons, List.not_mem_nil, or_false] at hx
    rcases hx with rfl | rfl | rfl <;> assumption
  have hnd : [some 0, some 1, some (2 : Nat)].Nodup := by decide
  have := (List.subperm_of_subset hnd hsub).length_le
  simpa using this

/-- `as_xyz_image` keeps an image well formed: one shape entry per axis, at least three axes -/
theorem asXyzImage_wellformed {g x : Img} (hshape : g.shape.length = g.n) (hn : 3 ≤ g.n)
    (hx : asXyzImage strict orient g = some x) : x.shape.length = x.n ∧ 3 ≤ x.n := by
  unfold asXyzImage at hx
  split at hx
  · cases hx; exact ⟨hshape, hn⟩
  · split at hx
    · cases hx
    · rename_i order _
      simp only [] at hx
      split at hx
      · cases hx
      · rename_i hc
        split at hx
        · cases hx
          have hc' : (orient (reorderRange g order).aff).contains (some 0) = true ∧
              (orient (reorderRange g order).aff).contains (some 1) = true ∧
              (orient (reorderRange g order).aff).contains (some 2) = true := by
            simp only [Bool.not_eq_true, Bool.not_eq_false', Bool.and_eq_true] at hc
            exact ⟨hc.1.1, hc.1.2, hc.2⟩
          have h3 := three_le_length_of_mem _ (List.contains_iff_mem.1 hc'.1) (List.contains_iff_mem.1 hc'.2.1)
            (List.contains_iff_mem.1 hc'.2.2)
          simp [reorderDomain, reorderRange, Img.n, pick, argsort_length, orntKeys]
          exact h3
        · cases hx

end NipyVerif.C03
