/-
C14 — helper lemmas for cutting a dendrogram (`WeightedForest.partition` / `split`):
counting leaves, trees and child slots of a proper dendrogram, the climb `rootIn`, kept roots of
a parent-closed cut, the stable height order used by `split`.
-/
import NipyVerif.Lemmas.C14Defs
import Mathlib.Data.List.Nodup
import Mathlib.Data.List.Range
import Mathlib.Data.Finset.Card
import Mathlib.Data.Finset.Image
import Mathlib.Algebra.BigOperators.Group.Finset.Basic
import Mathlib.Algebra.BigOperators.Group.Finset.Piecewise
import Mathlib.Algebra.Order.Field.Rat
import Mathlib.Order.Interval.Finset.Nat
import Mathlib.Tactic.Linarith

namespace NipyVerif.C14
open List

/-! ### lists over `range` -/

/-- length of a filtered range as a finset card -/
theorem length_filter_range (V : Nat) (p : Nat → Bool) :
    ((List.range V).filter p).length = ((Finset.range V).filter (fun v => p v = true)).card := by
  rw [← List.toFinset_card_of_nodup ((List.nodup_range (n := V)).filter _), List.toFinset_filter]
  congr 1
  ext x
  simp

theorem filter_range_eq_range {n V : Nat} (hn : n ≤ V) (p : Nat → Bool)
    (hp : ∀ v, v < V → (p v = true ↔ v < n)) : (List.range V).filter p = List.range n := by
  obtain ⟨d, rfl⟩ := Nat.exists_eq_add_of_le hn
  rw [List.range_add, List.filter_append, List.filter_eq_self.2, List.filter_eq_nil_iff.2,
    List.append_nil]
  · intro a ha
    simp only [List.mem_map, List.mem_range] at ha
    obtain ⟨x, hx, rfl⟩ := ha
    rw [hp _ (by omega)]
    omega
  · intro a ha
    simp only [List.mem_range] at ha
    exact (hp a (by omega)).2 ha

theorem pair_sublist_range {a b V : Nat} (hab : a < b) (hb : b < V) : [a, b] <+ List.range V := by
  obtain ⟨d, rfl⟩ := Nat.exists_eq_add_of_le (show a + 1 ≤ V by omega)
  rw [List.range_add]
  have h1 : [a] <+ List.range (a + 1) := List.singleton_sublist.2 (by simp)
  have h2 : [b] <+ (List.range d).map (fun x => a + 1 + x) :=
    List.singleton_sublist.2 (by
      simp only [List.mem_map, List.mem_range]
      exact ⟨b - (a + 1), by omega, by omega⟩)
  exact h1.append h2

/-! ### array reads of the model -/

theorem parA (par : List Nat) (v : Nat) : par.toArray.getD v v = parFn par v := by
  simp [parFn]

theorem validA (V : Nat) (valid : Nat → Bool) (v : Nat) :
    ((List.range V).map valid).toArray.getD v false = (decide (v < V) && valid v) := by
  by_cases h : v < V <;> simp [h]

/-! ### the tree order -/

theorem parFn_of_ge {par : List Nat} {v : Nat} (h : par.length ≤ v) : parFn par v = v := by
  simp [parFn, List.getD_eq_getElem?_getD, List.getElem?_eq_none h]

theorem step_lt_len {par : List Nat} {v : Nat} (h : parFn par v ≠ v) : v < par.length := by
  by_contra hc
  exact h (parFn_of_ge (by omega))

theorem mem_childrenOf {par : List Nat} {k c : Nat} :
    c ∈ childrenOf par k ↔ c < par.length ∧ c ≠ k ∧ parFn par c = k := by
  simp [childrenOf]

theorem nodup_childrenOf (par : List Nat) (k : Nat) : (childrenOf par k).Nodup :=
  (List.nodup_range (n := par.length)).filter _

theorem Dendro.exists_child {n : Nat} {par : List Nat} (hD : Dendro n par) {k : Nat}
    (hk : n ≤ k) (hkV : k < par.length) :
    ∃ c, c < k ∧ c < par.length ∧ parFn par c = k := by
  have h2 := hD.two k hk hkV
  obtain ⟨c, hc⟩ := List.exists_mem_of_length_pos (l := childrenOf par k) (by omega)
  rw [mem_childrenOf] at hc
  obtain ⟨hcV, hne, hp⟩ := hc
  rcases hD.up c hcV with h | h
  · exact absurd (h.symm.trans hp) hne
  · exact ⟨c, by omega, hcV, hp⟩

theorem Dendro.no_child_of_item {n : Nat} {par : List Nat} (hD : Dendro n par) {v c : Nat}
    (hv : v < n) (hc : c ≠ v) : parFn par c ≠ v := by
  intro h
  have hcV : c < par.length := step_lt_len (by rw [h]; exact hc.symm)
  have := hD.internal c hcV (by rw [h]; exact hc.symm)
  omega

theorem below_step {par : List Nat} {v : Nat} (h : parFn par v ≠ v) : Below par v (parFn par v) :=
  Relation.ReflTransGen.single ⟨rfl, fun e => h e.symm⟩

theorem Dendro.below_le {n : Nat} {par : List Nat} (hD : Dendro n par) {a b : Nat}
    (h : Below par a b) : a ≤ b := by
  induction h with
  | refl => exact le_rfl
  | tail _ hbc ih =>
    obtain ⟨hp, hne⟩ := hbc
    have hb := step_lt_len (par := par) (by rw [hp]; exact fun e => hne e.symm)
    rcases hD.up _ hb with h | h
    · exact absurd (hp.symm.trans h).symm hne
    · omega

theorem Dendro.below_lt_len {n : Nat} {par : List Nat} (hD : Dendro n par) {a b : Nat}
    (h : Below par a b) (ha : a < par.length) : b < par.length := by
  induction h with
  | refl => exact ha
  | tail _ hbc ih =>
    obtain ⟨hp, hne⟩ := hbc
    rcases hD.up _ ih with h | h
    · exact absurd (hp.symm.trans h).symm hne
    · omega

theorem step_rightUnique (par : List Nat) :
    Relator.RightUnique (fun x y => parFn par x = y ∧ x ≠ y) :=
  fun _ _ _ h1 h2 => h1.1.symm.trans h2.1

/-- the ancestors of a node form a chain -/
theorem below_chain {par : List Nat} {a x y : Nat} (hx : Below par a x) (hy : Below par a y) :
    Below par x y ∨ Below par y x :=
  Relation.ReflTransGen.total_of_right_unique (step_rightUnique par) hx hy

/-- every node of a dendrogram has an item below it -/
theorem Dendro.exists_item_below {n : Nat} {par : List Nat} (hD : Dendro n par) :
    ∀ v, v < par.length → ∃ a, a < n ∧ Below par a v := by
  intro v
  induction v using Nat.strong_induction_on with
  | _ v ih =>
    intro hv
    by_cases hvn : v < n
    · exact ⟨v, hvn, Relation.ReflTransGen.refl⟩
    · obtain ⟨c, hcv, hcV, hp⟩ := hD.exists_child (Nat.le_of_not_lt hvn) hv
      obtain ⟨a, han, hac⟩ := ih c hcv hcV
      exact ⟨a, han, hac.tail ⟨hp, by omega⟩⟩

/-! ### counting leaves, trees, child slots -/

theorem nbTrees_eq_card (par : List Nat) :
    nbTrees par = ((Finset.range par.length).filter (fun v => parFn par v = v)).card := by
  rw [nbTrees, length_filter_range]
  congr 1
  ext v
  simp [parFn]

/-- the child slots of a set `S` of merge nodes: two per node -/
theorem Dendro.card_child_slots {n : Nat} {par : List Nat} (hD : Dendro n par) (S : Finset Nat)
    (hS : ∀ k ∈ S, n ≤ k ∧ k < par.length) :
    ((Finset.range par.length).filter (fun v => parFn par v ≠ v ∧ parFn par v ∈ S)).card
      = 2 * S.card := by
  rw [Finset.card_eq_sum_card_fiberwise (f := parFn par) (t := S)
    (fun v hv => (Finset.mem_filter.1 hv).2.2)]
  rw [Finset.sum_const_nat (m := 2), Nat.mul_comm]
  intro k hk
  obtain ⟨h1, h2⟩ := hS k hk
  rw [← hD.two k h1 h2, ← List.toFinset_card_of_nodup (nodup_childrenOf par k)]
  congr 1
  ext v
  simp only [Finset.mem_filter, Finset.mem_range, List.mem_toFinset, mem_childrenOf]
  constructor
  · rintro ⟨⟨hv, hne, _⟩, hp⟩
    exact ⟨hv, fun e => hne (hp.trans e.symm), hp⟩
  · rintro ⟨hv, hne, hp⟩
    exact ⟨⟨hv, fun e => hne (e.symm.trans hp), hp ▸ hk⟩, hp⟩

theorem Dendro.leaves {n : Nat} {par : List Nat} (hD : Dendro n par) : nbLeaves par = n := by
  rw [nbLeaves, filter_range_eq_range hD.n_le, List.length_range]
  intro v hv
  simp only [Bool.not_eq_eq_eq_not, Bool.not_true, List.any_eq_false, List.mem_range,
    Bool.and_eq_true, bne_iff_ne, ne_eq, beq_iff_eq, not_and]
  constructor
  · intro h
    by_contra hvn
    obtain ⟨c, hcv, hcV, hp⟩ := hD.exists_child (Nat.le_of_not_lt hvn) hv
    exact h c hcV (by omega) hp
  · intro hvn c _ hc
    exact hD.no_child_of_item hvn hc

theorem Dendro.node_count {n : Nat} {par : List Nat} (hD : Dendro n par) :
    par.length + nbTrees par = 2 * n := by
  have h1 := hD.card_child_slots (Finset.Ico n par.length)
    (fun k hk => by simpa using hk)
  have h2 : (Finset.range par.length).filter
        (fun v => parFn par v ≠ v ∧ parFn par v ∈ Finset.Ico n par.length)
      = (Finset.range par.length).filter (fun v => ¬ parFn par v = v) := by
    apply Finset.filter_congr
    intro v hv
    have hv' : v < par.length := by simpa using hv
    constructor
    · exact fun h => h.1
    · intro h
      refine ⟨h, ?_⟩
      have := hD.internal v hv' h
      have := (hD.up v hv').resolve_left h
      simp only [Finset.mem_Ico]
      omega
  have h3 := Finset.card_filter_add_card_filter_not (s := Finset.range par.length)
    (fun v => parFn par v = v)
  rw [h2] at h1
  rw [nbTrees_eq_card]
  simp only [Nat.card_Ico, Finset.card_range] at h1 h3
  have := hD.n_le
  omega

/-! ### the climb `rootIn` and kept roots -/

/-- a kept node whose parent is not kept (or that is a root) -/
def KeptRoot (par : List Nat) (valid : Nat → Bool) (r : Nat) : Prop :=
  r < par.length ∧ valid r = true ∧ (parFn par r = r ∨ valid (parFn par r) = false)

theorem rootIn_spec {n : Nat} {par : List Nat} (hD : Dendro n par) (valid : Nat → Bool) :
    ∀ f v, v < par.length → par.length ≤ f + v → valid v = true →
      Below par v (rootIn par.toArray ((List.range par.length).map valid).toArray f v) ∧
      KeptRoot par valid (rootIn par.toArray ((List.range par.length).map valid).toArray f v) := by
  intro f
  induction f with
  | zero => intro v hv hf; omega
  | succ f ih =>
    intro v hv hf hval
    rw [rootIn]
    simp only [parA, validA]
    split_ifs with hc
    · refine ⟨Relation.ReflTransGen.refl, hv, hval, ?_⟩
      by_cases e : parFn par v = v
      · exact Or.inl e
      · right
        have hup := (hD.up v hv).resolve_left e
        rcases hc with hc | hc
        · exact absurd hc e
        · simpa [hup.2] using hc
    · rw [not_or] at hc
      obtain ⟨h1, h2⟩ := hc
      have hup := (hD.up v hv).resolve_left h1
      have h3 : valid (parFn par v) = true := by simpa [hup.2] using h2
      obtain ⟨hb, hk⟩ := ih (parFn par v) hup.2 (by omega) h3
      exact ⟨(below_step h1).trans hb, hk⟩

theorem valid_of_below {par : List Nat} {valid : Nat → Bool}
    (hdown : ∀ v, v < par.length → valid (parFn par v) = true → valid v = true) {a b : Nat}
    (h : Below par a b) (hb : valid b = true) : valid a = true := by
  induction h using Relation.ReflTransGen.head_induction_on with
  | refl => exact hb
  | head hac _ ih =>
    obtain ⟨hp, hne⟩ := hac
    exact hdown _ (step_lt_len (by rw [hp]; exact fun e => hne e.symm)) (by rw [hp]; exact ih)

theorem keptRoot_eq_of_below {par : List Nat} {valid : Nat → Bool}
    (hdown : ∀ v, v < par.length → valid (parFn par v) = true → valid v = true) {x y : Nat}
    (hx : KeptRoot par valid x) (hy : valid y = true) (h : Below par x y) : x = y := by
  rcases Relation.ReflTransGen.cases_head h with e | ⟨c, ⟨hp, hne⟩, hcy⟩
  · exact e
  · exfalso
    have hc := valid_of_below hdown hcy hy
    rcases hx.2.2 with h1 | h1
    · exact hne (h1.symm.trans hp)
    · rw [hp, hc] at h1
      exact Bool.noConfusion h1

/-- the kept root above a node is unique -/
theorem keptRoot_unique {par : List Nat} {valid : Nat → Bool}
    (hdown : ∀ v, v < par.length → valid (parFn par v) = true → valid v = true) {b x y : Nat}
    (hx : KeptRoot par valid x) (hy : KeptRoot par valid y)
    (bx : Below par b x) (bY : Below par b y) : x = y := by
  rcases below_chain bx bY with h | h
  · exact keptRoot_eq_of_below hdown hx hy.2.1 h
  · exact (keptRoot_eq_of_below hdown hy hx.2.1 h).symm

/-- number of kept roots: one per tree plus one per removed node -/
theorem Dendro.card_keptRoots {n : Nat} {par : List Nat} (hD : Dendro n par) (valid : Nat → Bool)
    (hitems : ∀ v, v < n → valid v = true)
    (hdown : ∀ v, v < par.length → valid (parFn par v) = true → valid v = true) :
    ((Finset.range par.length).filter
        (fun v => valid v = true ∧ (parFn par v = v ∨ valid (parFn par v) = false))).card
      = nbTrees par + ((Finset.range par.length).filter (fun v => valid v = false)).card := by
  have hslots := hD.card_child_slots ((Finset.range par.length).filter (fun v => valid v = false))
    (fun k hk => by
      simp only [Finset.mem_filter, Finset.mem_range] at hk
      refine ⟨?_, hk.1⟩
      by_contra hc
      have := hitems k (by omega)
      rw [this] at hk
      exact Bool.noConfusion hk.2)
  have key : ((Finset.range par.length).filter
        (fun v => valid v = true ∧ (parFn par v = v ∨ valid (parFn par v) = false))).card
      + ((Finset.range par.length).filter (fun v => valid v = false)).card
      = ((Finset.range par.length).filter (fun v => parFn par v = v)).card
      + ((Finset.range par.length).filter (fun v => parFn par v ≠ v ∧
          parFn par v ∈ (Finset.range par.length).filter (fun v => valid v = false))).card := by
    simp only [Finset.card_filter]
    rw [← Finset.sum_add_distrib, ← Finset.sum_add_distrib]
    apply Finset.sum_congr rfl
    intro v hv
    have hv' : v < par.length := by simpa using hv
    have hd := hdown v hv'
    have hup := hD.up v hv'
    simp only [Finset.mem_filter, Finset.mem_range]
    by_cases h2 : parFn par v = v
    · by_cases h1 : valid v = true <;> simp [h1, h2]
    · have hlt := (hup.resolve_left h2).2
      by_cases h3 : valid (parFn par v) = true
      · simp [hd h3, h2, h3]
      · by_cases h1 : valid v = true <;> simp [h1, h2, h3, hlt]
  rw [hslots] at key
  rw [nbTrees_eq_card]
  omega

/-! ### the labels of a parent-closed cut -/

theorem Dendro.cutLabels_eq {n : Nat} {par : List Nat} (hD : Dendro n par) (hn : 0 < n)
    (valid : Nat → Bool) (hitems : ∀ v, v < n → valid v = true)
    (hdown : ∀ v, v < par.length → valid (parFn par v) = true → valid v = true) :
    cutLabels par.toArray ((List.range par.length).map valid).toArray
      = some ((List.range n).map
          (rootIn par.toArray ((List.range par.length).map valid).toArray par.length)) := by
  have hvs : (List.range par.length).filter
        (fun v => ((List.range par.length).map valid).toArray.getD v false)
      = (List.range par.length).filter valid := by
    apply List.filter_congr
    intro v hv
    rw [validA]
    simp only [List.mem_range] at hv
    simp [hv]
  have hmem : ∀ c, c ∈ (List.range par.length).filter valid ↔ c < par.length ∧ valid c = true := by
    simp
  have h0 : 0 ∈ (List.range par.length).filter valid :=
    (hmem 0).2 ⟨by have := hD.n_le; omega, hitems 0 hn⟩
  have hfil : ((List.range par.length).filter valid).filter
        (fun v => !((List.range par.length).filter valid).any
          (fun c => c != v && par.toArray.getD c c == v)) = List.range n := by
    rw [List.filter_filter]
    apply filter_range_eq_range hD.n_le
    intro v hv
    simp only [parA, Bool.and_eq_true, Bool.not_eq_eq_eq_not, Bool.not_true, List.any_eq_false,
      hmem, bne_iff_ne, ne_eq, beq_iff_eq, not_and, and_imp]
    constructor
    · rintro ⟨h, hval⟩
      by_contra hvn
      obtain ⟨c, hcv, hcV, hp⟩ := hD.exists_child (Nat.le_of_not_lt hvn) hv
      exact h c hcV (hdown c hcV (by rw [hp]; exact hval)) (by omega) hp
    · intro hvn
      exact ⟨fun c _ _ hc => hD.no_child_of_item hvn hc, hitems v hvn⟩
  unfold cutLabels
  simp only [List.size_toArray, hvs]
  rw [if_neg, hfil]
  intro he
  rw [List.isEmpty_iff] at he
  rw [he] at h0
  exact absurd h0 (List.not_mem_nil)

theorem Dendro.cut_spec {n : Nat} {par : List Nat} (hD : Dendro n par) (hn : 0 < n)
    (valid : Nat → Bool) (hitems : ∀ v, v < n → valid v = true)
    (hdown : ∀ v, v < par.length → valid (parFn par v) = true → valid v = true) :
    ∃ l, cutLabels par.toArray ((List.range par.length).map valid).toArray = some l ∧
      l.length = n ∧
      (∀ a, a < n → Below par a (l.getD a 0) ∧ valid (l.getD a 0) = true ∧
          l.getD a 0 < par.length ∧
          (parFn par (l.getD a 0) = l.getD a 0 ∨ valid (parFn par (l.getD a 0)) = false)) ∧
      (∀ a b, a < n → b < n → (l.getD a 0 = l.getD b 0 ↔ Below par b (l.getD a 0))) ∧
      nbLabels l = nbTrees par + ((List.range par.length).filter (fun v => !valid v)).length := by
  refine ⟨_, hD.cutLabels_eq hn valid hitems hdown, by simp, ?_⟩
  generalize hroot : rootIn par.toArray ((List.range par.length).map valid).toArray par.length
    = root
  have hget : ∀ a, a < n → ((List.range n).map root).getD a 0 = root a := by
    intro a ha
    simp [List.getD_eq_getElem?_getD, ha]
  have hspec : ∀ a, a < n → Below par a (root a) ∧ KeptRoot par valid (root a) := by
    intro a ha
    rw [← hroot]
    have := hD.n_le
    exact rootIn_spec hD valid _ a (by omega) (by omega) (hitems a ha)
  refine ⟨?_, ?_, ?_⟩
  · intro a ha
    rw [hget a ha]
    obtain ⟨h1, h2, h3, h4⟩ := hspec a ha
    exact ⟨h1, h3, h2, h4⟩
  · intro a b ha hb
    rw [hget a ha, hget b hb]
    constructor
    · intro e
      rw [e]
      exact (hspec b hb).1
    · intro h
      exact keptRoot_unique hdown (hspec a ha).2 (hspec b hb).2 h (hspec b hb).1
  · have hf : (Finset.range par.length).filter (fun v => (!valid v) = true)
        = (Finset.range par.length).filter (fun v => valid v = false) := by
      apply Finset.filter_congr
      intro v _
      simp
    rw [nbLabels, length_filter_range, hf, ← hD.card_keptRoots valid hitems hdown]
    congr 1
    ext r
    simp only [List.mem_toFinset, List.mem_map, List.mem_range, Finset.mem_filter,
      Finset.mem_range]
    constructor
    · rintro ⟨a, ha, rfl⟩
      exact (hspec a ha).2
    · intro hr
      obtain ⟨a, ha, hb⟩ := hD.exists_item_below r hr.1
      exact ⟨a, ha, keptRoot_unique hdown (hspec a ha).2 hr (hspec a ha).1 hb⟩

/-! ### the stable height order of `split` -/

theorem heightOrder_perm (V : Nat) (h : List Rat) : (heightOrder V h).Perm (List.range V) :=
  List.mergeSort_perm _ _

theorem heightOrder_length (V : Nat) (h : List Rat) : (heightOrder V h).length = V := by
  rw [(heightOrder_perm V h).length_eq, List.length_range]

theorem heightOrder_nodup (V : Nat) (h : List Rat) : (heightOrder V h).Nodup :=
  (heightOrder_perm V h).nodup_iff.2 List.nodup_range

theorem mem_heightOrder {V : Nat} {h : List Rat} {v : Nat} : v ∈ heightOrder V h ↔ v < V := by
  rw [(heightOrder_perm V h).mem_iff, List.mem_range]

/-- stability: a lower index with a height not larger comes first -/
theorem pair_sublist_heightOrder {V : Nat} {h : List Rat} {a b : Nat} (hab : a < b) (hb : b < V)
    (hh : h.getD a 0 ≤ h.getD b 0) : [a, b] <+ heightOrder V h := by
  apply List.pair_sublist_mergeSort
  · intro x y z hxy hyz
    simp only [decide_eq_true_eq] at hxy hyz ⊢
    exact le_trans hxy hyz
  · intro x y
    simp only [Bool.or_eq_true, decide_eq_true_eq]
    exact le_total _ _
  · simpa using hh
  · exact pair_sublist_range hab hb

theorem mem_drop_of_pair {L : List Nat} (hL : L.Nodup) {a b m : Nat} (hab : [a, b] <+ L)
    (ha : a ∈ L.drop m) : b ∈ L.drop m := by
  rw [← List.take_append_drop m L] at hab hL
  obtain ⟨r1, r2, e, h1, h2⟩ := List.sublist_append_iff.1 hab
  have hdis := List.disjoint_of_nodup_append hL
  cases r1 with
  | nil =>
    simp only [List.nil_append] at e
    subst e
    exact h2.subset (by simp)
  | cons x r =>
    exfalso
    have hx : x = a := by
      simp only [List.cons_append, List.cons.injEq] at e
      exact e.1.symm
    subst hx
    exact hdis (h1.subset (by simp)) ha

theorem Dendro.cutCount_eq {n : Nat} {par : List Nat} (hD : Dendro n par) {k : Nat}
    (hk2 : k ≤ n) : cutCount par k = k - nbTrees par := by
  have := hD.n_le
  rw [cutCount, hD.leaves]
  congr 1
  omega

theorem Dendro.splitRemoved_spec {n : Nat} {par : List Nat} {h : List Rat} (hD : Dendro n par)
    (hM : MonoH par h) (hL : LeafLow n par h) (k : Nat) (hk1 : nbTrees par ≤ k) (hk2 : k ≤ n) :
    (splitRemoved par h k).length = k - nbTrees par ∧ (splitRemoved par h k).Nodup ∧
    (∀ v ∈ splitRemoved par h k, n ≤ v ∧ v < par.length) ∧
    (∀ v ∈ splitRemoved par h k, parFn par v ∈ splitRemoved par h k) := by
  have hnV := hD.n_le
  have hcount := hD.node_count
  have hlen : (splitRemoved par h k).length = k - nbTrees par := by
    rw [splitRemoved, List.length_drop, heightOrder_length, hD.cutCount_eq hk2]
    omega
  have hmemV : ∀ v ∈ splitRemoved par h k, v < par.length := fun v hv =>
    mem_heightOrder.1 (List.mem_of_mem_drop hv)
  refine ⟨hlen, (heightOrder_nodup _ _).sublist (List.drop_sublist _ _), ?_, ?_⟩
  · intro v hv
    refine ⟨?_, hmemV v hv⟩
    by_contra hvn
    have hvn : v < n := Nat.lt_of_not_le hvn
    have hsub : insert v (Finset.Ico n par.length) ⊆ (splitRemoved par h k).toFinset := by
      intro x hx
      rw [List.mem_toFinset]
      rcases Finset.mem_insert.1 hx with rfl | hx
      · exact hv
      · rw [Finset.mem_Ico] at hx
        exact mem_drop_of_pair (heightOrder_nodup _ _)
          (pair_sublist_heightOrder (by omega) hx.2 (hL v x hvn hx.1 hx.2)) hv
    have h1 := Finset.card_le_card hsub
    rw [Finset.card_insert_of_notMem (by simp; omega), Nat.card_Ico] at h1
    have h2 := List.toFinset_card_le (splitRemoved par h k)
    omega
  · intro v hv
    have hvV := hmemV v hv
    rcases hD.up v hvV with e | ⟨h1, h2⟩
    · rw [e]; exact hv
    · exact mem_drop_of_pair (heightOrder_nodup _ _)
        (pair_sublist_heightOrder h1 h2 (hM.2 v hvV)) hv

/-! ### `split` and `partition` -/

theorem Dendro.split_full {n : Nat} {par : List Nat} {h : List Rat} (hD : Dendro n par)
    (hM : MonoH par h) (hL : LeafLow n par h) (hn : 0 < n) (k : Nat)
    (hk1 : nbTrees par ≤ k) (hk2 : k ≤ n) :
    ∃ l, split par h k = some l ∧ l.length = n ∧ nbLabels l = k ∧
      (∀ a b, a < n → b < n → (l.getD a 0 = l.getD b 0 ↔ Below par b (l.getD a 0))) ∧
      (∀ a, a < n → Below par a (l.getD a 0)) := by
  obtain ⟨hlen, hnd, hge, hup⟩ := hD.splitRemoved_spec hM hL k hk1 hk2
  obtain ⟨l, hl, hln, hspec, hiff, hcnt⟩ := hD.cut_spec hn
    (fun v => !(splitRemoved par h k).contains v)
    (fun v hv => by
      simp only [List.contains_eq_mem, Bool.not_eq_eq_eq_not, Bool.not_true, decide_eq_false_iff_not]
      intro hc
      have := (hge v hc).1
      omega)
    (fun v _ hp => by
      simp only [List.contains_eq_mem, Bool.not_eq_eq_eq_not, Bool.not_true,
        decide_eq_false_iff_not] at hp ⊢
      exact fun hc => hp (hup v hc))
  refine ⟨l, hl, hln, ?_, hiff, fun a ha => (hspec a ha).1⟩
  rw [hcnt, length_filter_range]
  have : (Finset.range par.length).filter
      (fun v => (!!(splitRemoved par h k).contains v) = true) = (splitRemoved par h k).toFinset := by
    ext v
    simp only [Bool.not_not, List.contains_eq_mem, decide_eq_true_eq, Finset.mem_filter,
      Finset.mem_range, List.mem_toFinset, and_iff_right_iff_imp]
    exact fun hv => (hge v hv).2
  rw [this, List.toFinset_card_of_nodup hnd, hlen]
  omega

theorem Dendro.split_small {n : Nat} {par : List Nat} {h : List Rat} (hD : Dendro n par)
    (hn : 0 < n) (k : Nat) (hk : k ≤ nbTrees par) :
    ∃ l, split par h k = some l ∧ l.length = n ∧ nbLabels l = nbTrees par ∧
      (∀ a b, a < n → b < n → (l.getD a 0 = l.getD b 0 ↔ Below par b (l.getD a 0))) ∧
      (∀ a, a < n → Below par a (l.getD a 0)) := by
  have hrem : splitRemoved par h k = [] := by
    have hc : cutCount par k = 0 := by
      rw [cutCount]
      omega
    rw [splitRemoved, hc, Nat.sub_zero, List.drop_eq_nil_iff, heightOrder_length]
  obtain ⟨l, hl, hln, hspec, hiff, hcnt⟩ := hD.cut_spec hn
    (fun v => !(splitRemoved par h k).contains v)
    (fun v _ => by simp [hrem]) (fun v _ _ => by simp [hrem])
  refine ⟨l, hl, hln, ?_, hiff, fun a ha => (hspec a ha).1⟩
  rw [hcnt]
  simp [hrem]

theorem Dendro.partition_full {n : Nat} {par : List Nat} {h : List Rat} (hD : Dendro n par)
    (hM : MonoH par h) (hn : 0 < n) (th : Rat) (hleaf : ∀ v, v < n → h.getD v 0 < th) :
    ∃ l, partition par h th = some l ∧ l.length = n ∧
      nbLabels l = nbTrees par +
        ((List.range par.length).filter (fun v => decide (¬ h.getD v 0 < th))).length ∧
      (∀ a b, a < n → b < n → (l.getD a 0 = l.getD b 0 ↔ Below par b (l.getD a 0))) ∧
      (∀ a, a < n → Below par a (l.getD a 0)) := by
  obtain ⟨l, hl, hln, hspec, hiff, hcnt⟩ := hD.cut_spec hn
    (fun v => decide (h.getD v 0 < th))
    (fun v hv => by simpa using hleaf v hv)
    (fun v hv hp => by
      simp only [decide_eq_true_eq] at hp ⊢
      exact lt_of_le_of_lt (hM.2 v hv) hp)
  refine ⟨l, hl, hln, ?_, hiff, fun a ha => (hspec a ha).1⟩
  rw [hcnt]
  congr 2
  apply List.filter_congr
  intro v _
  simp only [decide_not]

/-! ### a concrete dendrogram (non-vacuity of the hypotheses) -/

/-- items `0..4`; merges `5 = {0,1}`, `6 = {2,3}`, `7 = {4,6}`, `8 = {5,7}` (the root) -/
def exPar : List Nat := [5, 5, 6, 6, 7, 8, 7, 8, 8]

def exH : List Rat := [0, 0, 0, 0, 0, 1/2, 1/2, 2, 10]

theorem exPar_dendro : Dendro 5 exPar where
  n_le := by decide
  up := by decide
  internal := by decide
  two := by
    have h : ∀ k, k < 9 → 5 ≤ k → (childrenOf exPar k).length = 2 := by decide
    exact fun k h1 h2 => h k h2 h1

theorem exH_mono : MonoH exPar exH := by
  refine ⟨by decide, ?_⟩
  have h : ∀ v, v < 9 → exH.getD v 0 ≤ exH.getD (parFn exPar v) 0 := by decide +kernel
  exact h

theorem exH_leafLow : LeafLow 5 exPar exH := by
  have h : ∀ v, v < 5 → ∀ k, k < 9 → 5 ≤ k → exH.getD v 0 ≤ exH.getD k 0 := by decide +kernel
  exact fun v k hv hk hkV => h v hv k hkV hk

end NipyVerif.C14
