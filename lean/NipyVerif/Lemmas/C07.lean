/- Helper lemmas for C07 (prefix sums, searchsorted, Gram–Schmidt on lists). -/
import NipyVerif.Model.C07
import Mathlib.Algebra.BigOperators.Intervals
import Mathlib.Algebra.BigOperators.Ring.Finset
import Mathlib.Algebra.Order.Floor.Ring
import Mathlib.Algebra.Order.Field.Rat
import Mathlib.Tactic.Ring
import Mathlib.Tactic.Linarith
import Mathlib.Tactic.FieldSimp
import Mathlib.Data.Rat.Floor

namespace NipyVerif.C07
open Finset

theorem prefixSum_eq_sum (f : Nat → Rat) (i : Nat) :
    prefixSum f i = ∑ j ∈ range (i + 1), f j := by
  induction i with
  | zero => simp [prefixSum]
  | succ i ih => rw [prefixSum, ih, sum_range_succ _ (i + 1)]

theorem prefixSum_add (f g : Nat → Rat) (i : Nat) :
    prefixSum (fun j => f j + g j) i = prefixSum f i + prefixSum g i := by
  simp [prefixSum_eq_sum, sum_add_distrib]

theorem prefixSum_smul (f : Nat → Rat) (c : Rat) (i : Nat) :
    prefixSum (fun j => c * f j) i = c * prefixSum f i := by
  simp [prefixSum_eq_sum, mul_sum]

theorem prefixSum_zero (i : Nat) : prefixSum (fun _ => (0 : Rat)) i = 0 := by
  simp [prefixSum_eq_sum]

theorem prefixSum_eq_zero (f : Nat → Rat) (i : Nat) (h : ∀ j, j ≤ i → f j = 0) :
    prefixSum f i = 0 := by
  rw [prefixSum_eq_sum]
  apply sum_eq_zero
  intro j hj; exact h j (by simp at hj; omega)

theorem impulse_append (grid : List Rat) (a b : List Event) (j : Nat) :
    impulse grid (a ++ b) j = impulse grid a j + impulse grid b j := by
  simp [impulse, impulseIdx]

theorem scanSum_eq (f : Nat → Rat) (s n : Nat) (acc : Rat) :
    scanSum f s n acc = (List.range n).map (fun i => acc + ∑ j ∈ range (i + 1), f (s + j)) := by
  induction n generalizing s acc with
  | zero => simp [scanSum]
  | succ n ih =>
      rw [scanSum, ih, List.range_succ_eq_map, List.map_cons, List.map_map]
      congr 1
      · simp
      · apply List.map_congr_left
        intro i _
        simp only [Function.comp]
        rw [sum_range_succ' _ (i + 1)]
        simp only [Nat.add_zero]
        have : ∀ j, f (s + 1 + j) = f (s + (j + 1)) := fun j => by congr 1; omega
        simp only [this]; ring

theorem scanSum_eq_prefix (f : Nat → Rat) (n : Nat) :
    scanSum f 0 n 0 = (List.range n).map (prefixSum f) := by
  rw [scanSum_eq]
  apply List.map_congr_left
  intro i _
  simp [prefixSum_eq_sum]

theorem prefixSum_step_diff (a b : Nat) (amp : Rat) (hab : a ≤ b) (i : Nat) :
    prefixSum (fun j => (if a = j then amp else 0) - (if b = j then amp else 0)) i =
      if a ≤ i ∧ i < b then amp else 0 := by
  induction i with
  | zero =>
      simp only [prefixSum]
      by_cases ha : a = 0 <;> by_cases hb : b = 0 <;> simp [ha, hb] <;> omega
  | succ i ih =>
      rw [prefixSum, ih]
      by_cases h1 : a = i + 1 <;> by_cases h2 : b = i + 1 <;>
        by_cases h3 : a ≤ i <;> by_cases h4 : i < b <;>
        simp [h1, h2, h3, h4] <;> omega

theorem searchsorted_mono (grid : List Rat) {x y : Rat} (h : x ≤ y) :
    searchsorted grid x ≤ searchsorted grid y := by
  unfold searchsorted
  rw [← List.countP_eq_length_filter, ← List.countP_eq_length_filter]
  apply List.countP_mono_left
  intro z _ hz
  simp only [decide_eq_true_eq] at *
  linarith

theorem prefixSum_shift_gen (g g' : Nat → Rat) (k i : Nat)
    (h0 : ∀ j, j < k → g j = 0) (h1 : ∀ j, g (k + j) = g' j) :
    prefixSum g (i + k) = prefixSum g' i := by
  rw [prefixSum_eq_sum, prefixSum_eq_sum]
  have : i + k + 1 = k + (i + 1) := by omega
  rw [this, sum_range_add]
  rw [sum_eq_zero (fun j hj => h0 j (by simpa using hj)), zero_add]
  exact sum_congr rfl (fun j _ => h1 j)

theorem prefixSum_delay (x h : Nat → Rat) (k i : Nat) :
    prefixSum (fun j => delay k x j * h (i + k - j)) (i + k) =
      prefixSum (fun j => x j * h (i - j)) i := by
  apply prefixSum_shift_gen
  · intro j hj; simp [delay, hj]
  · intro j
    have h1 : ¬ (k + j < k) := by omega
    have h2 : k + j - k = j := by omega
    have h3 : i + k - (k + j) = i - j := by omega
    simp [delay, h1, h2, h3]

theorem prefixSum_delay_plain (f : Nat → Rat) (k i : Nat) :
    prefixSum (delay k f) (i + k) = prefixSum f i := by
  apply prefixSum_shift_gen
  · intro j hj; simp [delay, hj]
  · intro j
    have h1 : ¬ (k + j < k) := by omega
    have h2 : k + j - k = j := by omega
    simp [delay, h1, h2]

theorem searchsorted_uniform (n : Nat) (t0 dt x : Rat) (hdt : 0 < dt) :
    searchsorted (uniformGrid n t0 dt) x = min n (Int.toNat ⌈(x - t0) / dt⌉) := by
  unfold searchsorted uniformGrid
  induction n with
  | zero => simp
  | succ n ih =>
      rw [List.range_succ, List.map_append, List.filter_append, List.length_append, ih]
      have key : (t0 + dt * (n : Rat) < x) ↔ (n : Int) < ⌈(x - t0) / dt⌉ := by
        rw [Int.lt_ceil, lt_div_iff₀ hdt]
        push_cast
        constructor <;> intro h <;> linarith
      by_cases hlt : t0 + dt * (n : Rat) < x
      · have := key.mp hlt
        simp [hlt]; omega
      · have := mt key.mpr hlt
        simp [hlt]; omega

theorem searchsorted_uniform_shift' (n : Nat) (t0 dt x : Rat) (k : Nat) (hdt : 0 < dt)
    (hx : t0 - dt < x)
    (hfit : searchsorted (uniformGrid n t0 dt) x + k ≤ n) :
    searchsorted (uniformGrid n t0 dt) (x + k * dt) = searchsorted (uniformGrid n t0 dt) x + k := by
  rw [searchsorted_uniform n t0 dt _ hdt] at hfit
  rw [searchsorted_uniform n t0 dt _ hdt, searchsorted_uniform n t0 dt _ hdt]
  have e : (x + k * dt - t0) / dt = (x - t0) / dt + (k : Rat) := by
    field_simp; ring
  rw [e, Int.ceil_add_natCast]
  have hpos : (0 : Int) ≤ ⌈(x - t0) / dt⌉ := by
    rw [Int.le_ceil_iff]
    have : (-1 : Rat) < (x - t0) / dt := by
      rw [lt_div_iff₀ hdt]; linarith
    push_cast; linarith
  omega

/-! ### dot products on lists of equal length -/

theorem dot_comm (a b : List Rat) : dot a b = dot b a := by
  unfold dot
  induction a generalizing b with
  | nil => cases b <;> simp
  | cons x xs ih =>
      cases b with
      | nil => simp
      | cons y ys => simp [List.zipWith_cons_cons, ih ys, mul_comm]

theorem vsub_vscale_length (a b : List Rat) (c : Rat) (n : Nat)
    (ha : a.length = n) (hb : b.length = n) : (vsub a (vscale c b)).length = n := by
  simp [vsub, vscale, ha, hb]

theorem dot_vsub_vscale (a b w : List Rat) (c : Rat) (n : Nat)
    (ha : a.length = n) (hb : b.length = n) (hw : w.length = n) :
    dot (vsub a (vscale c b)) w = dot a w - c * dot b w := by
  induction n generalizing a b w with
  | zero =>
      have h1 := List.length_eq_zero_iff.mp ha
      have h2 := List.length_eq_zero_iff.mp hb
      have h3 := List.length_eq_zero_iff.mp hw
      subst h1 h2 h3; simp [dot, vsub, vscale]
  | succ n ih =>
      match a, b, w, ha, hb, hw with
      | x :: xs, y :: ys, z :: zs, ha, hb, hw =>
          have h := ih xs ys zs (by simpa using ha) (by simpa using hb) (by simpa using hw)
          simp only [dot, vsub, vscale, List.map_cons, List.zipWith_cons_cons, List.sum_cons] at h ⊢
          rw [h]; ring

theorem dot_self_nonneg (b : List Rat) : 0 ≤ dot b b := by
  unfold dot
  induction b with
  | nil => simp
  | cons x xs ih => simp only [List.zipWith_cons_cons, List.sum_cons]; nlinarith [mul_self_nonneg x]

theorem dot_zero_of_self_zero (b w : List Rat) (n : Nat) (hb : b.length = n) (hw : w.length = n)
    (h : dot b b = 0) : dot w b = 0 := by
  induction n generalizing b w with
  | zero =>
      have := List.length_eq_zero_iff.mp hb
      subst this; simp [dot]
  | succ n ih =>
      match b, w, hb, hw with
      | x :: xs, z :: zs, hb, hw =>
          have hnn := dot_self_nonneg xs
          simp only [dot, List.zipWith_cons_cons, List.sum_cons] at h hnn ⊢
          have hx : x * x = 0 := by nlinarith [mul_self_nonneg x]
          have hxs : (List.zipWith (· * ·) xs xs).sum = 0 := by nlinarith [mul_self_nonneg x]
          have hx0 : x = 0 := by simpa using hx
          have := ih xs zs (by simpa using hb) (by simpa using hw) hxs
          simp only [dot] at this
          rw [this, hx0]; ring

/-- `projOut` over `bs ++ [b]` -/
theorem projOut_snoc (bs : List (List Rat)) (b v : List Rat) :
    projOut (bs ++ [b]) v =
      (if dot b b = 0 then projOut bs v
       else vsub (projOut bs v) (vscale (dot v b / dot b b) b)) := by
  simp [projOut, List.foldl_append]

theorem projOut_length (bs : List (List Rat)) (v : List Rat) (n : Nat)
    (hlen : ∀ b ∈ bs, b.length = n) (hv : v.length = n) : (projOut bs v).length = n := by
  induction bs using List.reverseRecOn with
  | nil => simpa [projOut]
  | append_singleton bs b ih =>
      rw [projOut_snoc]
      have hb : b.length = n := hlen b (by simp)
      have ih' := ih (fun c hc => hlen c (by simp [hc]))
      split_ifs
      · exact ih'
      · exact vsub_vscale_length _ _ _ n ih' hb

/-- components orthogonal to the whole family are untouched -/
theorem projOut_keeps (bs : List (List Rat)) (v w : List Rat) (n : Nat)
    (hlen : ∀ b ∈ bs, b.length = n) (hv : v.length = n) (hw : w.length = n)
    (horth : ∀ b ∈ bs, dot b w = 0) : dot (projOut bs v) w = dot v w := by
  induction bs using List.reverseRecOn with
  | nil => simp [projOut]
  | append_singleton bs b ih =>
      rw [projOut_snoc]
      have hb : b.length = n := hlen b (by simp)
      have ih' := ih (fun c hc => hlen c (by simp [hc])) (fun c hc => horth c (by simp [hc]))
      split_ifs
      · exact ih'
      · rw [dot_vsub_vscale _ _ _ _ n (projOut_length bs v n (fun c hc => hlen c (by simp [hc])) hv) hb hw,
          ih', horth b (by simp)]; ring

theorem projOut_orth (basis : List (List Rat)) (v : List Rat) (n : Nat)
    (hlen : ∀ b ∈ basis, b.length = n) (hv : v.length = n)
    (horth : basis.Pairwise (fun a b => dot a b = 0)) :
    ∀ b ∈ basis, dot (projOut basis v) b = 0 := by
  induction basis using List.reverseRecOn with
  | nil => simp
  | append_singleton bs b ih =>
      have hb : b.length = n := hlen b (by simp)
      have hlen' : ∀ c ∈ bs, c.length = n := fun c hc => hlen c (by simp [hc])
      rw [List.pairwise_append] at horth
      obtain ⟨hbs, _, hcross⟩ := horth
      have hA := projOut_length bs v n hlen' hv
      intro c hc
      rw [projOut_snoc]
      rcases List.mem_append.mp hc with hc | hc
      · -- an earlier member
        have hcb : dot c b = 0 := hcross c hc b (by simp)
        have hcl := hlen' c hc
        split_ifs
        · exact ih hlen' hbs c hc
        · rw [dot_vsub_vscale _ _ _ _ n hA hb hcl, ih hlen' hbs c hc, dot_comm b c, hcb]; ring
      · -- the new member itself
        have : c = b := by simpa using hc
        subst this
        split_ifs with h0
        · exact dot_zero_of_self_zero c _ n hb hA h0
        · rw [dot_vsub_vscale _ _ _ _ n hA hb hb,
            projOut_keeps bs v c n hlen' hv hb (fun d hd => hcross d hd c (by simp))]
          field_simp; ring

theorem orthogonalize_snoc (cols : List (List Rat)) (c : List Rat) :
    orthogonalize (cols ++ [c]) = orthogonalize cols ++ [projOut (orthogonalize cols) c] := by
  simp [orthogonalize, List.foldl_append]

theorem orthogonalize_lengths (cols : List (List Rat)) (n : Nat)
    (hlen : ∀ c ∈ cols, c.length = n) : ∀ c ∈ orthogonalize cols, c.length = n := by
  induction cols using List.reverseRecOn with
  | nil => simp [orthogonalize]
  | append_singleton cs c ih =>
      rw [orthogonalize_snoc]
      have ih' := ih (fun d hd => hlen d (by simp [hd]))
      intro d hd
      rcases List.mem_append.mp hd with hd | hd
      · exact ih' d hd
      · have : d = projOut (orthogonalize cs) c := by simpa using hd
        subst this
        exact projOut_length _ _ n ih' (hlen c (by simp))

theorem orthogonalize_pairwise' (cols : List (List Rat)) (n : Nat)
    (hlen : ∀ c ∈ cols, c.length = n) :
    (orthogonalize cols).Pairwise (fun a b => dot a b = 0) := by
  induction cols using List.reverseRecOn with
  | nil => simp [orthogonalize]
  | append_singleton cs c ih =>
      rw [orthogonalize_snoc]
      have hlen' : ∀ d ∈ cs, d.length = n := fun d hd => hlen d (by simp [hd])
      have ih' := ih hlen'
      have hl := orthogonalize_lengths cs n hlen'
      rw [List.pairwise_append]
      refine ⟨ih', by simp, ?_⟩
      intro a ha b hb
      have : b = projOut (orthogonalize cs) c := by simpa using hb
      subst this
      rw [dot_comm]
      exact projOut_orth _ _ n hl (hlen c (by simp)) ih' a ha

end NipyVerif.C07
