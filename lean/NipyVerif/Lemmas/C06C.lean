/- Helper lemmas for the wave-3 extension of C06: counting in bins, Python slices, leading runs. -/
import NipyVerif.Model.C06C
import NipyVerif.Lemmas.C06B
import Mathlib.Tactic.Linarith
import Mathlib.Tactic.Ring
import Mathlib.Tactic.FieldSimp
import Mathlib.Algebra.Order.Floor.Defs

namespace NipyVerif.C06

/-! ### counting -/

theorem countP_split (xs : List Rat) (p q r : Rat → Bool) (hor : ∀ x, r x = (p x || q x))
    (hdis : ∀ x, ¬ (p x = true ∧ q x = true)) : xs.countP r = xs.countP p + xs.countP q := by
  induction xs with
  | nil => rfl
  | cons x t ih =>
      simp only [List.countP_cons, ih, hor x]
      have := hdis x
      cases hp : p x <;> cases hq : q x <;> simp_all <;> omega

/-- the last edge of `hi :: rest` exceeds or equals `hi` for increasing edges -/
theorem le_getLastD (hi : Rat) (rest : List Rat) (hs : (hi :: rest).Pairwise (· < ·)) :
    hi ≤ (hi :: rest).getLastD 0 := by
  cases rest with
  | nil => simp
  | cons r rs =>
      have hmem : (hi :: r :: rs).getLastD 0 ∈ r :: rs := by
        have : (hi :: r :: rs).getLastD 0 = (r :: rs).getLast (by simp) := by
          simp [List.getLastD]
        rw [this]; exact List.getLast_mem _
      exact le_of_lt ((List.pairwise_cons.mp hs).1 _ hmem)

/-- **the bins partition the range**: for strictly increasing edges the counts add up to the number of
    samples between the first and the last edge (both included) -/
theorem histCounts_sum (xs : List Rat) : ∀ (rest : List Rat) (lo hi : Rat),
    (lo :: hi :: rest).Pairwise (· < ·) →
    (histCounts (lo :: hi :: rest) xs).sum
      = xs.countP (fun x => decide (lo ≤ x) && decide (x ≤ (hi :: rest).getLastD 0)) := by
  intro rest
  induction rest with
  | nil =>
      intro lo hi _
      simp only [histCounts, List.isEmpty_nil, List.sum_cons, List.sum_nil, Nat.add_zero]
      apply List.countP_congr
      intro x _
      simp only [inBin, Bool.true_and, List.getLastD_cons, List.getLastD_nil]
      by_cases h1 : lo ≤ x <;> simp [h1, le_iff_lt_or_eq]
  | cons r rs ih =>
      intro lo hi hs
      have hs' : (hi :: r :: rs).Pairwise (· < ·) := (List.pairwise_cons.mp hs).2
      have hlohi : lo < hi := (List.pairwise_cons.mp hs).1 hi (by simp)
      have hL : hi ≤ (hi :: r :: rs).getLastD 0 := le_getLastD hi (r :: rs) hs'
      have hLeq : (hi :: r :: rs).getLastD 0 = (r :: rs).getLastD 0 := by simp [List.getLastD]
      have hstep : histCounts (lo :: hi :: r :: rs) xs
          = xs.countP (inBin lo hi false) :: histCounts (hi :: r :: rs) xs := by
        simp [histCounts]
      rw [hstep, List.sum_cons, ih hi r hs']
      rw [← hLeq]
      set L := (hi :: r :: rs).getLastD 0 with hLdef
      symm
      apply countP_split
      · intro x
        simp only [inBin, Bool.false_and, Bool.or_false]
        by_cases h1 : lo ≤ x <;> by_cases h2 : x < hi <;> by_cases h3 : x ≤ L <;> by_cases h4 : hi ≤ x <;>
          simp [h1, h2, h3, h4] <;> linarith
      · intro x
        simp only [inBin, Bool.false_and, Bool.or_false, Bool.and_eq_true, decide_eq_true_eq]
        rintro ⟨⟨_, h2⟩, ⟨h4, _⟩⟩
        linarith

/-! ### Python slices -/

theorem sliceBound_nonneg (n : Nat) (i : Int) (h : 0 ≤ i) : sliceBound n i = min i.toNat n := by
  unfold sliceBound; rw [if_neg (by omega)]

theorem pyInt_nonneg (x : Rat) (h : 0 ≤ x) : pyInt x = x.floor ∧ 0 ≤ x.floor := by
  unfold pyInt
  rw [if_pos h]
  exact ⟨rfl, Rat.le_floor_iff.mpr (by simpa using h)⟩

/-! ### leading run below a level -/

theorem leadBelow_le (alpha : Rat) (r : List Rat) : leadBelow alpha r ≤ r.length := by
  induction r with
  | nil => simp [leadBelow]
  | cons v vs ih => unfold leadBelow; split <;> simp <;> omega

theorem leadBelow_spec (alpha : Rat) (r : List Rat) :
    (∀ m, m < leadBelow alpha r → r.getD m 0 < alpha) ∧
    (leadBelow alpha r < r.length → ¬ r.getD (leadBelow alpha r) 0 < alpha) := by
  induction r with
  | nil => simp [leadBelow]
  | cons v vs ih =>
      unfold leadBelow
      by_cases hv : v < alpha
      · simp only [hv, if_true]
        constructor
        · intro m hm
          cases m with
          | zero => simpa using hv
          | succ k => simp only [List.getD_cons_succ]; exact ih.1 k (by omega)
        · intro hlt
          simp only [List.getD_cons_succ]
          exact ih.2 (by simpa using hlt)
      · simp only [hv, if_false]
        exact ⟨fun m hm => absurd hm (by omega), fun _ => by simpa using hv⟩

/-! ### reversed lists, counting above a level in a sorted list -/

theorem getD_reverse (l : List Rat) (m : Nat) (h : m < l.length) :
    l.reverse.getD m 0 = l.getD (l.length - 1 - m) 0 := by
  rw [getD_eq _ _ (by simpa using h), getD_eq _ _ (by omega), List.getElem_reverse]

/-- in a sorted list, if `i` is the first position holding a value `≥ theta`, exactly the `n - i` entries
    from `i` on are `≥ theta` -/
theorem sorted_count_ge (xs : List Rat) (hx : xs.Pairwise (· ≤ ·)) (theta : Rat) (i : Nat) (hi : i < xs.length)
    (hge : theta ≤ xs.getD i 0) (hlt : ∀ k, k < i → xs.getD k 0 < theta) :
    xs.countP (fun x => decide (theta ≤ x)) = xs.length - i ∧
    xs.findIdx (fun x => decide (theta ≤ x)) = i := by
  constructor
  · have hsplit : xs = xs.take i ++ xs.drop i := (List.take_append_drop i xs).symm
    rw [hsplit, List.countP_append]
    have h1 : (xs.take i).countP (fun x => decide (theta ≤ x)) = 0 := by
      rw [List.countP_eq_zero]
      intro x hxm
      obtain ⟨k, hk, rfl⟩ := List.mem_iff_getElem.mp hxm
      have hk' : k < i := by simpa using (lt_of_lt_of_le hk (by simp))
      have hkx : k < xs.length := by omega
      have := hlt k hk'
      rw [getD_eq xs k hkx] at this
      simp only [List.getElem_take, decide_eq_true_eq, not_le]
      exact this
    have h2 : (xs.drop i).countP (fun x => decide (theta ≤ x)) = (xs.drop i).length := by
      rw [List.countP_eq_length]
      intro x hxm
      obtain ⟨k, hk, rfl⟩ := List.mem_iff_getElem.mp hxm
      have hkx : i + k < xs.length := by simpa [Nat.lt_sub_iff_add_lt'] using hk
      have := sorted_getD_mono xs hx i (i + k) (by omega) hkx
      rw [getD_eq xs (i + k) hkx] at this
      simp only [List.getElem_drop, decide_eq_true_eq]
      exact le_trans hge this
    rw [h1, h2, ← hsplit]
    simp
  · rw [List.findIdx_eq hi]
    refine ⟨by simpa [← getD_eq xs i hi] using hge, ?_⟩
    intro j hji
    have := hlt j hji
    rw [getD_eq xs j (by omega)] at this
    simpa using this

end NipyVerif.C06
