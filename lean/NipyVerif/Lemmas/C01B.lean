/-
C01 — lemmas for the program theorem (`prog_sound`): input/output relations of maps,
relational meaning of every operation, n-ary composition and product, function-level
`drop_io_dim`.
-/
import NipyVerif.Lemmas.C01

namespace NipyVerif.C01
open Finset

/-! ### relations -/

/-- an input/output relation on coordinate tuples -/
abbrev Rel := List Rat → List Rat → Prop

/-- the graph of an affine map on tuples of the right length -/
def Aff.graph (A : Aff) : Rel := fun x y => x.length = A.nin ∧ y = A.apply x

def idRel (n : Nat) : Rel := fun x y => x.length = n ∧ y = x

/-- relational composition: `R1` after `R2` -/
def relComp (R1 R2 : Rel) : Rel := fun x y => ∃ z, R2 x z ∧ R1 z y

/-- meaning of `compose(R₁, …, Rₙ)`: the rightmost relation acts first -/
def composeRel (l : List Rel) : Rel := l.foldr relComp (fun x y => y = x)

/-- meaning of `product(R₁, …, Rₙ)`: each relation acts on its own block -/
def prodRel : List Rel → Rel
  | [] => fun x y => x = [] ∧ y = []
  | R :: rest => fun x y => ∃ x1 x2 y1 y2, x = x1 ++ x2 ∧ y = y1 ++ y2 ∧ R x1 y1 ∧ prodRel rest x2 y2

theorem relComp_eq (R : Rel) : relComp R (fun x y => y = x) = R := by
  funext x y
  apply propext
  constructor
  · rintro ⟨z, rfl, h⟩; exact h
  · intro h; exact ⟨x, rfl, h⟩

theorem relComp_idRel (A : Aff) : relComp A.graph (idRel A.nin) = A.graph := by
  funext x y
  apply propext
  constructor
  · rintro ⟨z, ⟨_, rfl⟩, h⟩; exact h
  · intro h; exact ⟨x, ⟨h.1, rfl⟩, h⟩

theorem bottomExact_of_B {A : Aff} (h : A.exactB = true) : A.bottomExact :=
  bottomExactB_iff h

/-! ### `_compose_affines`, relationally -/

theorem composeStep_graph {cur cm c : Aff} (h : composeStep cur cm = .ok c) (hb : cur.bottomExact) :
    c.graph = relComp cm.graph cur.graph := by
  obtain ⟨h1, h2, h3, _⟩ := composeStep_ok h
  have hm : cm.nin = cur.nout := by simp [Aff.nin, Aff.nout, h1]
  funext x y
  apply propext
  constructor
  · rintro ⟨hx, hy⟩
    refine ⟨cur.apply x, ⟨by rw [← h2]; exact hx, rfl⟩, ⟨by rw [apply_length, hm], ?_⟩⟩
    rw [hy, composeStep_apply h hb]
  · rintro ⟨z, ⟨hx, rfl⟩, ⟨_, hy⟩⟩
    exact ⟨by rw [h2]; exact hx, by rw [hy, composeStep_apply h hb]⟩

theorem composeFrom_graph (l : List Aff) : ∀ (cur C : Aff), composeFrom cur l = .ok C →
    cur.bottomExact → (∀ A ∈ l, A.bottomExact) →
    C.graph = l.foldl (fun R A => relComp A.graph R) cur.graph ∧ C.bottomExact := by
  induction l with
  | nil =>
      intro cur C h hb _
      simp only [composeFrom] at h
      injection h with h
      subst h
      exact ⟨rfl, hb⟩
  | cons cm rest ih =>
      intro cur C h hb hl
      simp only [composeFrom] at h
      cases hs : composeStep cur cm with
      | error e => rw [hs] at h; cases h
      | ok c =>
          rw [hs] at h
          have hcm := hl cm (List.mem_cons_self)
          obtain ⟨h1, h2⟩ := ih c C h (composeStep_bottom hs hb hcm)
            (fun A hA => hl A (List.mem_cons_of_mem _ hA))
          refine ⟨?_, h2⟩
          rw [h1, composeStep_graph hs hb]
          rfl

theorem id0_graph {d : CoordSys} {dt : DType} {I : Aff}
    (h : mkAff d d (idMat (d.names.length + 1)) dt = .ok I) : I.graph = idRel d.names.length := by
  obtain ⟨_, hid⟩ := id0_props h
  obtain ⟨h4, h5⟩ := mkAff_nin h
  funext x y
  apply propext
  have key : x.length = d.names.length → I.apply x = x := by
    intro hx
    apply list_eq_of_getD (by rw [apply_length, h5, hx])
    intro j hj
    exact hid x j (by omega)
  constructor
  · rintro ⟨hx, hy⟩
    rw [h4] at hx
    exact ⟨hx, by rw [hy, key hx]⟩
  · rintro ⟨hx, hy⟩
    exact ⟨by rw [h4]; exact hx, by rw [hy, key hx]⟩

/-- `compose(A₁, …, Aₙ)` denotes the relational composition of the graphs -/
theorem composeList_graph {l : List Aff} {C : Aff} (h : composeList l = .ok C)
    (hl : ∀ A ∈ l, A.bottomExact) :
    C.graph = composeRel (l.map Aff.graph) ∧ C.bottomExact := by
  unfold composeList at h
  cases hr : l.reverse with
  | nil => rw [hr] at h; cases h
  | cons last rest =>
      rw [hr] at h
      simp only at h
      cases hi : mkAff last.dom last.dom (idMat (last.nin + 1)) last.dtype with
      | error e => rw [hi] at h; cases h
      | ok i0 =>
          rw [hi] at h
          simp only at h
          obtain ⟨hb0, _⟩ := id0_props hi
          have hmem : ∀ A ∈ last :: rest, A.bottomExact := by
            intro A hA
            apply hl A
            have : A ∈ l.reverse := by rw [hr]; exact hA
            exact List.mem_reverse.mp this
          obtain ⟨h1, h2⟩ := composeFrom_graph (last :: rest) i0 C h hb0 hmem
          refine ⟨?_, h2⟩
          have hl' : l = rest.reverse ++ [last] := by
            have : l = (last :: rest).reverse := by rw [← hr, List.reverse_reverse]
            simpa using this
          have hi0 : i0.graph = idRel last.nin := id0_graph hi
          rw [h1, List.foldl_cons, hi0, relComp_idRel, hl', composeRel, List.map_append, List.foldr_append,
            List.map_cons, List.map_nil, List.foldr_cons, List.foldr_nil, relComp_eq, List.foldr_map,
            List.foldr_reverse]

/-! ### `_product_affines`, n-ary -/

/-- block-wise application of a list of maps -/
def prodApply : List Aff → List Rat → List Rat
  | [], _ => []
  | A :: rest, x => A.apply (x.take A.nin) ++ prodApply rest (x.drop A.nin)

theorem prodApply_length (l : List Aff) : ∀ x, (prodApply l x).length = sumNat (l.map Aff.nout) := by
  induction l with
  | nil => intro x; simp [prodApply, sumNat]
  | cons A rest ih => intro x; simp [prodApply, sumNat, apply_length, ih]

theorem sumNat_cons (a : Nat) (l : List Nat) : sumNat (a :: l) = a + sumNat l := rfl

theorem getD_take {x : List Rat} {n j : Nat} (hj : j < n) : (x.take n).getD j 0 = x.getD j 0 := by
  simp [List.getD_eq_getElem?_getD, hj]

theorem getD_drop (x : List Rat) (n j : Nat) : (x.drop n).getD j 0 = x.getD (n + j) 0 := by
  simp [List.getD_eq_getElem?_getD, List.getElem?_drop]

theorem getD_append_left {a b : List Rat} {r : Nat} (hr : r < a.length) :
    (a ++ b).getD r 0 = a.getD r 0 := by
  simp [List.getD_eq_getElem?_getD, List.getElem?_append_left hr]

theorem getD_append_right {a b : List Rat} {r : Nat} (hr : a.length ≤ r) :
    (a ++ b).getD r 0 = b.getD (r - a.length) 0 := by
  simp [List.getD_eq_getElem?_getD, List.getElem?_append_right hr]

/-- one row of the block matrix applied to a tuple -/
theorem prod_row (l : List Aff) : ∀ (x : List Rat) (r : Nat), r < sumNat (l.map Aff.nout) →
    sumTo (sumNat (l.map Aff.nin)) (fun j => prodLin l r j * x.getD j 0) + prodOff l r
      = (prodApply l x).getD r 0 := by
  induction l with
  | nil => intro x r hr; simp [sumNat] at hr
  | cons A rest ih =>
      intro x r hr
      rw [List.map_cons, sumNat_cons] at hr
      rw [List.map_cons, sumNat_cons, sumTo_eq_sum, Finset.sum_range_add]
      by_cases hr' : r < A.nout
      · have e1 : ∀ j ∈ range A.nin, prodLin (A :: rest) r j * x.getD j 0
            = A.aff.get r j * (x.take A.nin).getD j 0 := by
          intro j hj
          have hj' := Finset.mem_range.mp hj
          rw [getD_take hj']
          simp [prodLin, hr', hj']
        have e2 : ∀ j ∈ range (sumNat (rest.map Aff.nin)),
            prodLin (A :: rest) r (A.nin + j) * x.getD (A.nin + j) 0 = 0 := by
          intro j _
          simp [prodLin, hr']
        rw [Finset.sum_congr rfl e1, Finset.sum_eq_zero e2, add_zero]
        simp only [prodOff, hr', if_true, prodApply]
        rw [getD_append_left (by rw [apply_length]; exact hr'), apply_getD A _ hr', sumTo_eq_sum]
      · have e1 : ∀ j ∈ range A.nin, prodLin (A :: rest) r j * x.getD j 0 = 0 := by
          intro j hj
          have hj' := Finset.mem_range.mp hj
          simp [prodLin, hr', hj']
        have e2 : ∀ j ∈ range (sumNat (rest.map Aff.nin)),
            prodLin (A :: rest) r (A.nin + j) * x.getD (A.nin + j) 0
              = prodLin rest (r - A.nout) j * (x.drop A.nin).getD j 0 := by
          intro j _
          rw [getD_drop]
          simp [prodLin, hr']
        rw [Finset.sum_eq_zero e1, Finset.sum_congr rfl e2, zero_add]
        simp only [prodOff, hr', if_false, prodApply]
        rw [getD_append_right (by rw [apply_length]; omega), apply_length, ← sumTo_eq_sum]
        exact ih (x.drop A.nin) (r - A.nout) (by omega)

theorem product_ok {l : List Aff} {C : Aff} {i o : String} (h : product l i o = .ok C) :
    C.dom.names = l.flatMap (fun A => A.dom.names) ∧ C.rng.names = l.flatMap (fun A => A.rng.names) ∧
    C.dom.name = i ∧ C.rng.name = o ∧ C.aff = prodMat l := by
  unfold product at h
  simp only at h
  cases h1 : mkCS (l.flatMap fun A => A.dom.names) i (joinAll (List.map Aff.dtype l)) with
  | error e => rw [h1] at h; cases h
  | ok d =>
      rw [h1] at h
      simp only at h
      cases h2 : mkCS (l.flatMap fun A => A.rng.names) o (joinAll (List.map Aff.dtype l)) with
      | error e => rw [h2] at h; cases h
      | ok r =>
          rw [h2] at h
          simp only at h
          obtain ⟨m1, m2, m3, _⟩ := mkAff_ok h
          obtain ⟨d1, _⟩ := mkCS_ok h1
          obtain ⟨r1, _⟩ := mkCS_ok h2
          subst d1 r1
          simp [m1, m2, m3]

theorem length_flatMap_dom (l : List Aff) :
    (l.flatMap fun A => A.dom.names).length = sumNat (l.map Aff.nin) := by
  induction l with
  | nil => simp [sumNat]
  | cons A rest ih => simp [List.flatMap_cons, sumNat_cons, ih, Aff.nin]

theorem length_flatMap_rng (l : List Aff) :
    (l.flatMap fun A => A.rng.names).length = sumNat (l.map Aff.nout) := by
  induction l with
  | nil => simp [sumNat]
  | cons A rest ih => simp [List.flatMap_cons, sumNat_cons, ih, Aff.nout]

theorem product_dims {l : List Aff} {C : Aff} {i o : String} (h : product l i o = .ok C) :
    C.nin = sumNat (l.map Aff.nin) ∧ C.nout = sumNat (l.map Aff.nout) := by
  obtain ⟨p1, p2, _⟩ := product_ok h
  exact ⟨by rw [Aff.nin, p1, length_flatMap_dom], by rw [Aff.nout, p2, length_flatMap_rng]⟩

/-- `product(A₁, …, Aₙ)` acts independently on each block, for every number of factors -/
theorem product_apply {l : List Aff} {C : Aff} {i o : String} (h : product l i o = .ok C)
    (x : List Rat) : C.apply x = prodApply l x := by
  obtain ⟨_, _, _, _, p5⟩ := product_ok h
  obtain ⟨hin, hout⟩ := product_dims h
  apply list_eq_of_getD (by rw [apply_length, prodApply_length, hout])
  intro r hr
  rw [prodApply_length] at hr
  rw [apply_getD C x (by omega), ← prod_row l x r hr, hin]
  have hget : ∀ c, c ≤ sumNat (l.map Aff.nin) →
      C.aff.get r c = if c = sumNat (l.map Aff.nin) then prodOff l r else prodLin l r c := by
    intro c hc
    rw [p5, prodMat, get_mkMat _ (by omega) (by omega), if_neg (by omega)]
  rw [hget _ le_rfl, if_pos rfl]
  congr 1
  apply sumTo_congr
  intro j hj
  rw [hget j (by omega), if_neg (by omega)]

theorem product_bottom {l : List Aff} {C : Aff} {i o : String} (h : product l i o = .ok C) :
    C.bottomExact := by
  obtain ⟨_, _, _, _, p5⟩ := product_ok h
  obtain ⟨hin, hout⟩ := product_dims h
  constructor
  · intro j hj
    rw [p5, prodMat, hout, get_mkMat _ (by omega) (by omega), if_pos rfl, if_neg (by omega)]
  · rw [p5, prodMat, hout, hin, get_mkMat _ (by omega) (by omega), if_pos rfl, if_pos rfl]

theorem prodRel_graph (l : List Aff) : ∀ x y, prodRel (l.map Aff.graph) x y ↔
    x.length = sumNat (l.map Aff.nin) ∧ y = prodApply l x := by
  induction l with
  | nil =>
      intro x y
      simp [prodRel, sumNat, prodApply]
  | cons A rest ih =>
      intro x y
      simp only [List.map_cons, prodRel, sumNat_cons, prodApply]
      constructor
      · rintro ⟨x1, x2, y1, y2, rfl, rfl, ⟨hx1, rfl⟩, h2⟩
        obtain ⟨hx2, rfl⟩ := (ih x2 y2).mp h2
        refine ⟨by simp [hx1, hx2], ?_⟩
        rw [← hx1, List.take_left, List.drop_left]
      · rintro ⟨hx, rfl⟩
        refine ⟨x.take A.nin, x.drop A.nin, _, _, (List.take_append_drop _ _).symm, rfl,
          ⟨by simp; omega, rfl⟩, (ih _ _).mpr ⟨by simp; omega, rfl⟩⟩

theorem product_graph {l : List Aff} {C : Aff} {i o : String} (h : product l i o = .ok C) :
    C.graph = prodRel (l.map Aff.graph) := by
  funext x y
  apply propext
  rw [prodRel_graph]
  unfold Aff.graph
  rw [(product_dims h).1, product_apply h]

/-! ### reorder, rename, inverse, shift, append: relational forms -/

theorem reorderCS_perm {cs ncs : CoordSys} {o : Order} {ord : List Nat}
    (h : reorderCS cs o = .ok (ord, ncs)) : ord.Perm (List.range cs.names.length) := by
  unfold reorderCS at h
  cases hr : resolveOrder cs o with
  | error e => rw [hr] at h; cases h
  | ok ord' =>
      rw [hr] at h
      simp only at h
      split_ifs at h with h1 h2
      unfold mkCS at h
      split_ifs at h
      simp only [Except.ok.injEq, Prod.mk.injEq] at h
      obtain ⟨rfl, _⟩ := h
      exact List.isPerm_iff.mp (by simpa using h1)

/-- the tuple whose reordering along `ord` is `x` -/
def unperm (ord : List Nat) (n : Nat) (x : List Rat) : List Rat :=
  (List.range n).map fun k => x.getD (ord.idxOf k) 0

theorem perm_unperm {n : Nat} {ord : List Nat} (hp : ord.Perm (List.range n)) (x : List Rat)
    (hx : x.length = n) : ord.map (fun k => (unperm ord n x).getD k 0) = x := by
  have hlen : ord.length = n := by simpa using hp.length_eq
  have hnd : ord.Nodup := hp.nodup_iff.mpr List.nodup_range
  apply List.ext_getElem (by simp [hlen, hx])
  intro i h1 h2
  have hi : i < ord.length := by simpa using h1
  have hk : ord[i] < n := perm_lt hp (List.getElem_mem hi)
  simp only [List.getElem_map, unperm]
  rw [getD_map_range _ hk, hnd.idxOf_getElem i hi]
  simp [List.getD_eq_getElem?_getD, List.getElem?_eq_getElem h2]

theorem reorderedDomain_graph {A B : Aff} {o : Order} (hA : A.bottomExact)
    (h : reorderedDomain A o = .ok B) :
    ∃ ord ncs, reorderCS A.dom o = .ok (ord, ncs) ∧ B.bottomExact ∧
      B.graph = fun x y => ∃ x0, A.graph x0 y ∧ x = ord.map (fun k => x0.getD k 0) := by
  cases hcs : reorderCS A.dom o with
  | error e => unfold reorderedDomain at h; rw [hcs] at h; cases h
  | ok p =>
      obtain ⟨ord, ncs⟩ := p
      have hp : ord.Perm (List.range A.nin) := reorderCS_perm hcs
      have hlen : ord.length = A.nin := by simpa using hp.length_eq
      obtain ⟨h1, _, h3, h4⟩ := reorderedDomain_apply' A B o ord ncs hcs hp hA h
      have hbn : B.nin = A.nin := by rw [Aff.nin, h1]; simpa using hlen
      refine ⟨ord, ncs, rfl, h3, ?_⟩
      funext x y
      apply propext
      constructor
      · rintro ⟨hx, hy⟩
        rw [hbn] at hx
        refine ⟨unperm ord A.nin x, ⟨by simp [unperm], ?_⟩, (perm_unperm hp x hx).symm⟩
        rw [hy, ← h4 (unperm ord A.nin x), perm_unperm hp x hx]
      · rintro ⟨x0, ⟨hx0, rfl⟩, rfl⟩
        exact ⟨by rw [hbn]; simpa using hlen, (h4 x0).symm⟩

theorem reorderedRange_graph {A B : Aff} {o : Order} (hA : A.bottomExact)
    (h : reorderedRange A o = .ok B) :
    ∃ ord ncs, reorderCS A.rng o = .ok (ord, ncs) ∧ B.bottomExact ∧
      B.graph = fun x y => ∃ y0, A.graph x y0 ∧ y = ord.map (fun k => y0.getD k 0) := by
  cases hcs : reorderCS A.rng o with
  | error e => unfold reorderedRange at h; rw [hcs] at h; cases h
  | ok p =>
      obtain ⟨ord, ncs⟩ := p
      have hp : ord.Perm (List.range A.nout) := reorderCS_perm hcs
      obtain ⟨_, h2, h3, h4⟩ := reorderedRange_apply' A B o ord ncs hcs hp hA h
      have hbn : B.nin = A.nin := by rw [Aff.nin, h2]; rfl
      refine ⟨ord, ncs, rfl, h3, ?_⟩
      funext x y
      apply propext
      constructor
      · rintro ⟨hx, hy⟩
        exact ⟨A.apply x, ⟨by rw [← hbn]; exact hx, rfl⟩, by rw [hy, h4]⟩
      · rintro ⟨y0, ⟨hx0, rfl⟩, rfl⟩
        exact ⟨by rw [hbn]; exact hx0, (h4 x).symm⟩

theorem renamedDomain_graph {A B : Aff} {kv : List (Key × String)} (hA : A.bottomExact)
    (h : renamedDomain A kv = .ok B) : B.bottomExact ∧ B.graph = A.graph := by
  obtain ⟨⟨ncs, hr, hn⟩, _, hb, hap⟩ := renamedDomain_apply' hA h
  obtain ⟨d, _, _, hn', _, _⟩ := renameCS_ok hr
  have hbn : B.nin = A.nin := by rw [Aff.nin, hn, hn']; simp [Aff.nin]
  refine ⟨hb, ?_⟩
  funext x y
  unfold Aff.graph
  rw [hbn, hap]

theorem renamedRange_graph {A B : Aff} {kv : List (Key × String)} (hA : A.bottomExact)
    (h : renamedRange A kv = .ok B) : B.bottomExact ∧ B.graph = A.graph := by
  obtain ⟨_, hn, hb, hap⟩ := renamedRange_apply' hA h
  have hbn : B.nin = A.nin := by rw [Aff.nin, hn]; rfl
  refine ⟨hb, ?_⟩
  funext x y
  unfold Aff.graph
  rw [hbn, hap]

theorem inverse_graph {A B : Aff} (hA : A.bottomExact) (h : inverse A = .ok (some B)) :
    B.bottomExact ∧ B.graph = fun x y => A.graph y x := by
  obtain ⟨h1, h2, h3, _, _, h6, _, _⟩ := inverse_ok h
  refine ⟨h6, ?_⟩
  funext x y
  apply propext
  constructor
  · rintro ⟨hx, rfl⟩
    exact ⟨by rw [apply_length, h3], (inverse_right' h x (by omega)).symm⟩
  · rintro ⟨hy, rfl⟩
    exact ⟨by rw [apply_length, h2], (inverse_left' h hA y hy).symm⟩

theorem shiftedDomain_graph {A B : Aff} {diff : List Rat} {nm : String} (hA : A.bottomExact)
    (h : shiftedDomainOrigin A diff nm = .ok B) :
    B.bottomExact ∧ ∃ d, bcastInto A.nin A.dom.dtype diff = .ok d ∧
      B.graph = fun x y => x.length = A.nin ∧
        A.graph ((List.range A.nin).map fun i => x.getD i 0 + d.getD i 0) y := by
  obtain ⟨d, hd, _, hn, _, hb, hap⟩ := shiftedDomain_apply' hA h
  have hbn : B.nin = A.nin := by rw [Aff.nin, hn]; rfl
  refine ⟨hb, d, hd, ?_⟩
  funext x y
  apply propext
  unfold Aff.graph
  rw [hbn, hap]
  simp

theorem shiftedRange_graph {A B : Aff} {diff : List Rat} {nm : String} (hA : A.bottomExact)
    (h : shiftedRangeOrigin A diff nm = .ok B) :
    B.bottomExact ∧ ∃ d, bcastInto A.nout A.rng.dtype (diff.map fun q => -q) = .ok d ∧
      B.graph = fun x y => ∃ y0, A.graph x y0 ∧
        y = (List.range A.nout).map fun i => y0.getD i 0 + d.getD i 0 := by
  obtain ⟨d, hd, _, hn, _, hb, hap⟩ := shiftedRange_apply' hA h
  have hbn : B.nin = A.nin := by rw [Aff.nin, hn]; rfl
  refine ⟨hb, d, hd, ?_⟩
  funext x y
  apply propext
  constructor
  · rintro ⟨hx, hy⟩
    exact ⟨A.apply x, ⟨by rw [← hbn]; exact hx, rfl⟩, by rw [hy, hap]⟩
  · rintro ⟨y0, ⟨hx, rfl⟩, rfl⟩
    exact ⟨by rw [hbn]; exact hx, (hap x).symm⟩

theorem list_split_last (x : List Rat) (n : Nat) (hx : x.length = n + 1) :
    x = x.take n ++ [x.getD n 0] := by
  apply List.ext_getElem (by simp [hx])
  intro i h1 h2
  by_cases hi : i < n
  · rw [List.getElem_append_left (by simp; omega)]
    simp
  · have : i = n := by omega
    subst this
    rw [List.getElem_append_right (by simp)]
    simp [List.getD_eq_getElem?_getD, List.getElem?_eq_getElem h1]

theorem appendIoDim_graph {A B : Aff} {i o : String} {start step : Rat} {mdt : DType}
    (h : appendIoDim A i o start step mdt = .ok B) :
    B.bottomExact ∧ B.graph = fun x y => ∃ x0 t y0, x = x0 ++ [t] ∧ A.graph x0 y0 ∧
      y = y0 ++ [step * t + start] := by
  obtain ⟨_, hn, _, hb⟩ := appendIoDim_apply' h (List.replicate A.nin 0) 0 (by simp)
  have hbn : B.nin = A.nin + 1 := by rw [Aff.nin, hn]; simp [Aff.nin]
  refine ⟨hb, ?_⟩
  funext x y
  apply propext
  constructor
  · rintro ⟨hx, hy⟩
    rw [hbn] at hx
    have hx0 : (x.take A.nin).length = A.nin := by simp; omega
    refine ⟨x.take A.nin, x.getD A.nin 0, A.apply (x.take A.nin), list_split_last x A.nin hx,
      ⟨hx0, rfl⟩, ?_⟩
    rw [hy]
    conv_lhs => rw [list_split_last x A.nin hx]
    exact (appendIoDim_apply' h _ _ hx0).1
  · rintro ⟨x0, t, y0, rfl, ⟨hx0, rfl⟩, rfl⟩
    exact ⟨by rw [hbn]; simp [hx0], ((appendIoDim_apply' h x0 t hx0).1).symm⟩

/-! ### `drop_io_dim` at function level -/

theorem skipIdx_some (i k : Nat) : skipIdx (some i) k = if k < i then k else k + 1 := rfl

theorem sum_skip (f : Nat → Rat) (n ii : Nat) (hi : ii ≤ n) :
    ∑ c ∈ range (n + 1), f c = ∑ c ∈ range n, f (skipIdx (some ii) c) + f ii := by
  induction n with
  | zero =>
      have : ii = 0 := by omega
      subst this
      simp
  | succ n ih =>
      rw [Finset.sum_range_succ]
      by_cases h : ii ≤ n
      · rw [ih h, Finset.sum_range_succ, skipIdx_some ii n, if_neg (by omega)]
        ring
      · have hii : ii = n + 1 := by omega
        subst hii
        have e : ∀ c ∈ range (n + 1), f (skipIdx (some (n + 1)) c) = f c := by
          intro c hc
          have := Finset.mem_range.mp hc
          rw [skipIdx_some, if_pos this]
        rw [Finset.sum_congr rfl e]

theorem getD_eraseIdx (x : List Rat) (i c : Nat) :
    (x.eraseIdx i).getD c 0 = x.getD (skipIdx (some i) c) 0 := by
  rw [skipIdx_some]
  simp only [List.getD_eq_getElem?_getD, List.getElem?_eraseIdx]
  split_ifs <;> rfl

theorem getD_dropAt (x : List Rat) (k : Option Nat) (c : Nat) :
    (dropAt x k).getD c 0 = x.getD (skipIdx k c) 0 := by
  cases k with
  | none => rfl
  | some i => exact getD_eraseIdx x i c

theorem length_dropAt {α} (l : List α) (k : Option Nat) :
    (dropAt l k).length = match k with
      | none => l.length
      | some i => if i < l.length then l.length - 1 else l.length := by
  cases k with
  | none => rfl
  | some i => simp [dropAt, List.length_eraseIdx]

theorem indexOf?_lt {l : List String} {s : String} {i : Nat} (h : indexOf? l s = some i) :
    i < l.length := by
  induction l generalizing i with
  | nil => simp [indexOf?] at h
  | cons a r ih =>
      simp only [indexOf?] at h
      split_ifs at h with ha
      · injection h with h; subst h; simp
      · cases hr : indexOf? r s with
        | none => rw [hr] at h; simp at h
        | some k =>
            rw [hr] at h
            simp only [Option.map_some, Option.some.injEq] at h
            subst h
            have := ih hr
            simp; omega

/-- an input index returned by `io_axis_indices` is a valid input axis -/
theorem ioAxisIndices_lt {A : Aff} {ax : Key} {ornts : List (Option Nat)} {i : Nat} {o : Option Nat}
    (h : ioAxisIndices A ax ornts = .ok (some i, o)) : i < A.nin := by
  unfold ioAxisIndices at h
  cases ax with
  | idx k =>
      simp only at h
      split_ifs at h <;> simp at h <;> omega
  | nm s =>
      simp only at h
      cases hd : indexOf? A.dom.names s with
      | some k =>
          rw [hd] at h
          simp only at h
          have hk : k < A.nin := indexOf?_lt hd
          rw [if_pos hk] at h
          simp only at h
          cases hr : indexOf? A.rng.names s with
          | some oi =>
              rw [hr] at h
              simp only at h
              split_ifs at h
              simp only [Except.ok.injEq, Prod.mk.injEq, Option.some.injEq] at h
              omega
          | none =>
              rw [hr] at h
              simp only [Except.ok.injEq, Prod.mk.injEq, Option.some.injEq] at h
              omega
      | none =>
          rw [hd] at h
          simp only at h
          cases hr : indexOf? A.rng.names s with
          | some oo =>
              rw [hr] at h
              simp only [Except.ok.injEq, Prod.mk.injEq] at h
              have hm := List.mem_of_find?_eq_some h.1
              exact List.mem_range.mp hm
          | none => rw [hr] at h; cases h

theorem dropColZero_spec {A : Aff} {ii : Nat} {o : Option Nat} (h : dropColZeroB A (some ii) o = true)
    {r : Nat} (hr : r < A.nout) (hne : o ≠ some r) : A.aff.get r ii = 0 := by
  unfold dropColZeroB at h
  simp only [List.all_eq_true, List.mem_range, Bool.or_eq_true, beq_iff_eq] at h
  rcases h r hr with h | h
  · exact absurd h hne
  · exact h

/-- number of axes left after dropping `k` -/
def dropLen (n : Nat) (k : Option Nat) : Nat :=
  match k with
  | some _ => n - 1
  | none => n

theorem skipIdx_ne (oo r : Nat) : some oo ≠ some (skipIdx (some oo) r) := by
  rw [skipIdx_some]
  intro h
  injection h with h
  split_ifs at h <;> omega

/-- shape bookkeeping of a successful `drop_io_dim` -/
theorem dropIoDim_shape {A B : Aff} {ax : Key} {fz : Bool} {ornts : List (Option Nat)}
    {i o : Option Nat} (h : dropIoDim A ax fz ornts = .ok B)
    (hio : ioAxisIndices A ax ornts = .ok (i, o)) :
    B.dom.names = dropAt A.dom.names i ∧ B.rng.names = dropAt A.rng.names o ∧
    B.nin = dropLen A.nin i ∧ skipIdx i B.nin = A.nin ∧ (∀ c, c < B.nin → skipIdx i c < A.nin) ∧
    skipIdx o B.nout = A.nout ∧ (∀ r, r < B.nout → skipIdx o r < A.nout) ∧
    ∀ r c, r ≤ B.nout → c ≤ B.nin → B.aff.get r c = A.aff.get (skipIdx o r) (skipIdx i c) := by
  unfold dropIoDim at h
  rw [hio] at h
  simp only at h
  split_ifs at h with hbad hrange
  obtain ⟨m1, m2, m3, _, _, m6, _⟩ := mkAff_ok h
  obtain ⟨m4, m5⟩ := mkAff_nin h
  obtain ⟨e1, e2⟩ := shapeOK_mkMat _ (Nat.succ_pos _) m6
  simp only at m4 m5 e1 e2
  have hnn : A.rng.names.length = A.nout := rfl
  have hdn : A.dom.names.length = A.nin := rfl
  have hent : ∀ r c, r ≤ B.nout → c ≤ B.nin →
      B.aff.get r c = A.aff.get (skipIdx o r) (skipIdx i c) := by
    intro r c hr hc
    rw [m3, get_mkMat _ (by omega) (by omega)]
  have hI : B.nin = dropLen A.nin i ∧ skipIdx i B.nin = A.nin ∧ ∀ c, c < B.nin → skipIdx i c < A.nin := by
    cases i with
    | none =>
        simp only [dropAt] at m4 e2
        refine ⟨by simp only [dropLen]; omega, by simp only [skipIdx]; omega, fun c hc => ?_⟩
        simp only [skipIdx]; omega
    | some ii =>
        have hii : ii < A.nin := ioAxisIndices_lt hio
        rw [length_dropAt] at m4
        simp only [hdn, hii, if_true] at m4
        refine ⟨by simp only [dropLen]; omega, ?_, fun c hc => ?_⟩
        · rw [skipIdx_some]; split_ifs <;> omega
        · rw [skipIdx_some]; split_ifs <;> omega
  have hO : skipIdx o B.nout = A.nout ∧ ∀ r, r < B.nout → skipIdx o r < A.nout := by
    cases o with
    | none =>
        simp only [dropAt] at m5 e1
        refine ⟨by simp only [skipIdx]; omega, fun r hr => ?_⟩
        simp only [skipIdx]; omega
    | some oo =>
        simp only [decide_eq_true_eq, not_le] at hrange
        rw [length_dropAt] at m5
        simp only [hnn, hrange, if_true] at m5
        refine ⟨?_, fun r hr => ?_⟩
        · rw [skipIdx_some]; split_ifs <;> omega
        · rw [skipIdx_some]; split_ifs <;> omega
  exact ⟨by simp [m1], by simp [m2], hI.1, hI.2.1, hI.2.2, hO.1, hO.2, hent⟩

/-- `drop_io_dim` at function level: when the discarded entries of the dropped column are zero,
    the new map sends the tuple without coordinate `i` to the old outputs without coordinate `o`,
    whatever value the dropped input coordinate had. -/
theorem dropIoDim_apply {A B : Aff} {ax : Key} {fz : Bool} {ornts : List (Option Nat)}
    {i o : Option Nat} (h : dropIoDim A ax fz ornts = .ok B)
    (hio : ioAxisIndices A ax ornts = .ok (i, o)) (hz : dropColZeroB A i o = true) :
    B.dom.names = dropAt A.dom.names i ∧ B.rng.names = dropAt A.rng.names o ∧
    B.nin = dropLen A.nin i ∧
    ∀ x0, x0.length = A.nin → B.apply (dropAt x0 i) = dropAt (A.apply x0) o := by
  obtain ⟨n1, n2, hnin, hlast, _, _, hrow, hent⟩ := dropIoDim_shape h hio
  refine ⟨n1, n2, hnin, fun x0 hx0 => ?_⟩
  have hlenR : (dropAt (A.apply x0) o).length = B.nout := by
    rw [Aff.nout, n2, length_dropAt, length_dropAt, apply_length]
    rfl
  apply list_eq_of_getD (by rw [apply_length, hlenR])
  intro r hr
  rw [hlenR] at hr
  have hr' : skipIdx o r < A.nout := hrow r hr
  rw [getD_dropAt, apply_getD A x0 hr', apply_getD B _ hr, hent r B.nin (le_of_lt hr) le_rfl,
    sumTo_eq_sum, sumTo_eq_sum]
  have hsum : ∀ c, c < B.nin → B.aff.get r c * (dropAt x0 i).getD c 0
      = A.aff.get (skipIdx o r) (skipIdx i c) * x0.getD (skipIdx i c) 0 := by
    intro c hc
    rw [hent r c (le_of_lt hr) (le_of_lt hc), getD_dropAt]
  rw [Finset.sum_congr rfl (fun c hc => hsum c (Finset.mem_range.mp hc))]
  cases i with
  | none =>
      simp only [dropLen] at hnin
      rw [hnin]
      rfl
  | some ii =>
      have hii : ii < A.nin := ioAxisIndices_lt hio
      simp only [dropLen] at hnin
      have hsucc : A.nin = B.nin + 1 := by omega
      rw [hsucc, sum_skip (fun c => A.aff.get (skipIdx o r) c * x0.getD c 0) B.nin ii (by omega)]
      have hzero : A.aff.get (skipIdx o r) ii = 0 := by
        apply dropColZero_spec hz hr'
        cases o with
        | none => simp
        | some oo => exact skipIdx_ne oo r
      rw [hzero, zero_mul, add_zero, skipIdx_some ii B.nin, if_neg (by omega)]

theorem dropIoDim_bottom {A B : Aff} {ax : Key} {fz : Bool} {ornts : List (Option Nat)}
    {i o : Option Nat} (h : dropIoDim A ax fz ornts = .ok B)
    (hio : ioAxisIndices A ax ornts = .ok (i, o)) (hA : A.bottomExact) : B.bottomExact := by
  obtain ⟨_, _, _, hlast, hcol, hrow, _, hent⟩ := dropIoDim_shape h hio
  constructor
  · intro j hj
    rw [hent _ j le_rfl (le_of_lt hj), hrow]
    exact hA.1 _ (hcol j hj)
  · rw [hent _ _ le_rfl le_rfl, hrow, hlast]
    exact hA.2

/-! ### meaning of one operation -/

theorem liftSome_ok {α} {e : Except Err α} {b : α} (h : liftSome e = .ok (some b)) : e = .ok b := by
  cases e with
  | error _ => cases h
  | ok a =>
      simp only [liftSome, Except.ok.injEq, Option.some.injEq] at h
      rw [h]

theorem RawMap.exact_of_B {m : RawMap} {M : Aff} (hb : m.build = .ok M) (he : m.exactB = true) :
    M.bottomExact := by
  unfold RawMap.build at hb
  cases h1 : mkCS m.dom.names m.dom.name m.dom.dtype with
  | error e => rw [h1] at hb; cases hb
  | ok d =>
      rw [h1] at hb
      simp only at hb
      cases h2 : mkCS m.rng.names m.rng.name m.rng.dtype with
      | error e => rw [h2] at hb; cases hb
      | ok g =>
          rw [h2] at hb
          simp only at hb
          obtain ⟨rfl, _⟩ := mkCS_ok h1
          obtain ⟨rfl, _⟩ := mkCS_ok h2
          obtain ⟨_, _, m3, _⟩ := mkAff_ok hb
          obtain ⟨m4, m5⟩ := mkAff_nin hb
          have := bottomExactB_iff he
          unfold Aff.bottomExact
          rw [m3, m4, m5]
          exact this

theorem buildAll_exact : ∀ {ls : List RawMap} {L : List Aff}, buildAll ls = .ok L →
    ls.all RawMap.exactB = true → ∀ M ∈ L, M.bottomExact := by
  intro ls
  induction ls with
  | nil =>
      intro L h _ M hM
      simp only [buildAll, Except.ok.injEq] at h
      subst h
      cases hM
  | cons m rest ih =>
      intro L h he M hM
      simp only [buildAll] at h
      cases hb : m.build with
      | error e => rw [hb] at h; cases h
      | ok A =>
          rw [hb] at h
          simp only at h
          cases hr : buildAll rest with
          | error e => rw [hr] at h; cases h
          | ok l =>
              rw [hr] at h
              simp only [Except.ok.injEq] at h
              subst h
              simp only [List.all_cons, Bool.and_eq_true] at he
              rcases List.mem_cons.mp hM with rfl | hM'
              · exact RawMap.exact_of_B hb he.1
              · exact ih hr he.2 M hM'

/-- Relational meaning of one operation on a map with coordinate systems `dom → rng` and
    input/output relation `R`.  Partner maps enter through their graphs; nothing refers to
    the matrix of the current map. -/
def Op.den (dom rng : CoordSys) (R : Rel) : Op → Rel
  | .composeN ls rs => fun x y => ∃ L Rs, buildAll ls = .ok L ∧ buildAll rs = .ok Rs ∧
      composeRel (L.map Aff.graph ++ R :: Rs.map Aff.graph) x y
  | .prodN ls rs _ _ => fun x y => ∃ L Rs, buildAll ls = .ok L ∧ buildAll rs = .ok Rs ∧
      prodRel (L.map Aff.graph ++ R :: Rs.map Aff.graph) x y
  | .reordD o => fun x y => ∃ ord ncs x0, reorderCS dom o = .ok (ord, ncs) ∧ R x0 y ∧
      x = ord.map (fun k => x0.getD k 0)
  | .reordR o => fun x y => ∃ ord ncs y0, reorderCS rng o = .ok (ord, ncs) ∧ R x y0 ∧
      y = ord.map (fun k => y0.getD k 0)
  | .renD _ => R
  | .renR _ => R
  | .inv => fun x y => R y x
  | .shiftD diff _ => fun x y => x.length = dom.names.length ∧
      ∃ d, bcastInto dom.names.length dom.dtype diff = .ok d ∧
        R ((List.range dom.names.length).map fun i => x.getD i 0 + d.getD i 0) y
  | .shiftR diff _ => fun x y => ∃ d y0,
      bcastInto rng.names.length rng.dtype (diff.map fun q => -q) = .ok d ∧ R x y0 ∧
        y = (List.range rng.names.length).map fun i => y0.getD i 0 + d.getD i 0
  | .append _ _ start step _ => fun x y => ∃ x0 t y0, x = x0 ++ [t] ∧ R x0 y0 ∧
      y = y0 ++ [step * t + start]
  | .drop ax _ ornts => fun x y => ∃ i o x0 y0,
      ioAxisIndices ⟨dom, rng, []⟩ ax ornts = .ok (i, o) ∧ R x0 y0 ∧
        x = dropAt x0 i ∧ y = dropAt y0 o

theorem ioAxisIndices_cs (A : Aff) (ax : Key) (ornts : List (Option Nat)) :
    ioAxisIndices ⟨A.dom, A.rng, []⟩ ax ornts = ioAxisIndices A ax ornts := by
  cases ax <;> rfl

theorem dropIoDim_graph {A B : Aff} {ax : Key} {fz : Bool} {ornts : List (Option Nat)}
    {i o : Option Nat} (h : dropIoDim A ax fz ornts = .ok B)
    (hio : ioAxisIndices A ax ornts = .ok (i, o)) (hz : dropColZeroB A i o = true) :
    B.graph = fun x y => ∃ x0 y0, A.graph x0 y0 ∧ x = dropAt x0 i ∧ y = dropAt y0 o := by
  obtain ⟨_, _, hnin, hap⟩ := dropIoDim_apply h hio hz
  funext x y
  apply propext
  constructor
  · rintro ⟨hx, hy⟩
    cases i with
    | none =>
        simp only [dropLen] at hnin
        exact ⟨x, A.apply x, ⟨by omega, rfl⟩, rfl, by rw [hy]; exact hap x (by omega)⟩
    | some ii =>
        have hii : ii < A.nin := ioAxisIndices_lt hio
        simp only [dropLen] at hnin
        have hl : (x.insertIdx ii 0).length = A.nin := by
          rw [List.length_insertIdx_of_le_length (by omega)]; omega
        have he : dropAt (x.insertIdx ii 0) (some ii) = x := List.eraseIdx_insertIdx_self 0
        refine ⟨x.insertIdx ii 0, A.apply (x.insertIdx ii 0), ⟨hl, rfl⟩, he.symm, ?_⟩
        rw [hy, ← hap _ hl, he]
  · rintro ⟨x0, y0, ⟨hx0, rfl⟩, rfl, rfl⟩
    refine ⟨?_, (hap x0 hx0).symm⟩
    rw [hnin, length_dropAt]
    cases i with
    | none => simp [dropLen, hx0]
    | some ii =>
        have hii : ii < A.nin := ioAxisIndices_lt hio
        simp [dropLen, hx0, hii]

/-- no entry of the linear part lies in the window `(0, 1e-5]` that `orth_axes` treats as zero -/
def Aff.noTiny (A : Aff) : Prop :=
  ∀ r c, r < A.nout → c < A.nin → rabs (A.aff.get r c) ≤ (1 : Rat) / 100000 → A.aff.get r c = 0

theorem orth_colZero {A : Aff} {ii oo : Nat} {fz : Bool} (hii : ii < A.nin) (hn : A.noTiny)
    (ho : orthAxes A.aff A.nout A.nin ii oo fz = true) : dropColZeroB A (some ii) (some oo) = true := by
  unfold dropColZeroB
  simp only [List.all_eq_true, List.mem_range, Bool.or_eq_true, beq_iff_eq]
  intro r hr
  by_cases hro : oo = r
  · left; rw [hro]
  · right
    unfold orthAxes at ho
    simp only at ho
    split_ifs at ho with h0
    simp only [Bool.and_eq_true, List.all_eq_true, List.mem_range, Bool.or_eq_true, beq_iff_eq,
      Bool.not_eq_true', decide_eq_false_iff_not, not_lt] at ho
    rcases ho.2 r hr with h1 | h1
    · exact absurd h1.symm hro
    · exact hn r ii hr hii h1


end NipyVerif.C01
