/- C18 (wave 3) — helper lemmas: window form of the wrap-around argument, sums of non-negative
   kernels, index reflection, 3×3 matrix algebra. -/
import NipyVerif.Lemmas.C18B
import NipyVerif.Model.C18C
import Mathlib.Algebra.BigOperators.Intervals
import Mathlib.Algebra.Order.BigOperators.Group.Finset

namespace NipyVerif.C18
open Finset

/-! ### wrap-around, seen from the output window only -/

/-- for an output position `t` inside the window `[off, off + n)` that lies inside the circle, the
    circular index is the linear one as soon as `n + k ≤ P + off + 1` -/
theorem wrap_spec_window (P t a n k off : Nat) (ha : a < n) (h1 : off ≤ t) (h2 : t < off + n)
    (hw : off + n ≤ P) (hP : n + k ≤ P + off + 1) :
    (wrap P t a < k ↔ 0 ≤ (t : Int) - a ∧ (t : Int) - a < k) ∧
      (0 ≤ (t : Int) - a → wrap P t a = ((t : Int) - a).toNat) := by
  unfold wrap
  by_cases h : a ≤ t
  · have e : t + P - a = (t - a) + P := by omega
    have m : (t + P - a) % P = t - a := by
      rw [e, Nat.add_mod_right, Nat.mod_eq_of_lt (by omega)]
    rw [m]
    constructor
    · omega
    · intro _; omega
  · have m : (t + P - a) % P = t + P - a := Nat.mod_eq_of_lt (by omega)
    rw [m]
    constructor
    · omega
    · intro h0; omega

/-- the circular sum against a zero-padded image only runs over the image -/
theorem circConv_pad_left (n P : Sh) (x Kp : Img) (t0 t1 t2 : Nat)
    (h0 : n.n0 ≤ P.n0) (h1 : n.n1 ≤ P.n1) (h2 : n.n2 ≤ P.n2) :
    circConv P (pad n x) Kp t0 t1 t2 =
      sum3 n fun a b c => x a b c * Kp (wrap P.n0 t0 a) (wrap P.n1 t1 b) (wrap P.n2 t2 c) := by
  unfold circConv
  rw [← sum3_pad n P h0 h1 h2]
  apply sum3_congr
  intro a b c _ _ _
  by_cases h : a < n.n0 ∧ b < n.n1 ∧ c < n.n2
  · rw [if_pos h]; unfold pad; rw [if_pos h]
  · rw [if_neg h]; unfold pad; rw [if_neg h, zero_mul]

theorem circ_eq_lin_window (n k P off : Sh) (x K : Img) (t0 t1 t2 : Nat)
    (l0 : off.n0 ≤ t0) (u0 : t0 < off.n0 + n.n0) (l1 : off.n1 ≤ t1) (u1 : t1 < off.n1 + n.n1)
    (l2 : off.n2 ≤ t2) (u2 : t2 < off.n2 + n.n2)
    (w0 : off.n0 + n.n0 ≤ P.n0) (w1 : off.n1 + n.n1 ≤ P.n1) (w2 : off.n2 + n.n2 ≤ P.n2)
    (p0 : n.n0 + k.n0 ≤ P.n0 + off.n0 + 1) (p1 : n.n1 + k.n1 ≤ P.n1 + off.n1 + 1)
    (p2 : n.n2 + k.n2 ≤ P.n2 + off.n2 + 1) :
    circConv P (pad n x) (pad k K) t0 t1 t2 =
      sum3 n fun j0 j1 j2 => x j0 j1 j2 *
        kerZ k K ((t0 : Int) - j0) ((t1 : Int) - j1) ((t2 : Int) - j2) := by
  rw [circConv_pad_left n P x _ t0 t1 t2 (by omega) (by omega) (by omega)]
  apply sum3_congr
  intro a b c ha hb hc
  rw [pad_wrap_eq k K _ _ _ _ _ _ (wrap_spec_window P.n0 t0 a n.n0 k.n0 off.n0 ha l0 u0 w0 p0)
    (wrap_spec_window P.n1 t1 b n.n1 k.n1 off.n1 hb l1 u1 w1 p1)
    (wrap_spec_window P.n2 t2 c n.n2 k.n2 off.n2 hc l2 u2 w2 p2)]

/-! ### sums of non-negative arrays -/

theorem sum3_nonneg (s : Sh) (f : Img) (h : ∀ a b c, a < s.n0 → b < s.n1 → c < s.n2 → 0 ≤ f a b c) :
    0 ≤ sum3 s f := by
  rw [sum3_eq]
  refine sum_nonneg fun a ha => sum_nonneg fun b hb => sum_nonneg fun c hc => ?_
  exact h a b c (mem_range.mp ha) (mem_range.mp hb) (mem_range.mp hc)

theorem sum3_le_sum3 (s : Sh) (f g : Img)
    (h : ∀ a b c, a < s.n0 → b < s.n1 → c < s.n2 → f a b c ≤ g a b c) : sum3 s f ≤ sum3 s g := by
  rw [sum3_eq, sum3_eq]
  refine sum_le_sum fun a ha => sum_le_sum fun b hb => sum_le_sum fun c hc => ?_
  exact h a b c (mem_range.mp ha) (mem_range.mp hb) (mem_range.mp hc)

theorem term_le_sum3 (s : Sh) (f : Img) (h : ∀ a b c, a < s.n0 → b < s.n1 → c < s.n2 → 0 ≤ f a b c)
    (a b c : Nat) (ha : a < s.n0) (hb : b < s.n1) (hc : c < s.n2) : f a b c ≤ sum3 s f := by
  rw [sum3_eq_prod]
  have hm : (a, b, c) ∈ range s.n0 ×ˢ (range s.n1 ×ˢ range s.n2) := by
    simp only [mem_product, mem_range]; exact ⟨ha, hb, hc⟩
  exact single_le_sum (f := fun p : Nat × Nat × Nat => f p.1 p.2.1 p.2.2)
    (fun p hp => by
      simp only [mem_product, mem_range] at hp
      exact h p.1 p.2.1 p.2.2 hp.1 hp.2.1 hp.2.2) hm

/-! ### index reflection -/

theorem sum3_reflect (s : Sh) (f : Img) :
    sum3 s f = sum3 s fun a b c => f (s.n0 - 1 - a) (s.n1 - 1 - b) (s.n2 - 1 - c) := by
  simp only [sum3_eq]
  rw [← sum_range_reflect]
  refine sum_congr rfl fun a _ => ?_
  rw [← sum_range_reflect]
  refine sum_congr rfl fun b _ => ?_
  rw [← sum_range_reflect]

/-! ### 3×3 matrices -/

def M3.transpose (A : M3) : M3 :=
  ⟨⟨A.r0.x, A.r1.x, A.r2.x⟩, ⟨A.r0.y, A.r1.y, A.r2.y⟩, ⟨A.r0.z, A.r1.z, A.r2.z⟩⟩

theorem M3.mul_assoc (A B C : M3) : (A.mul B).mul C = A.mul (B.mul C) := by
  simp only [M3.mul, M3.mk.injEq, V3.mk.injEq]
  refine ⟨⟨?_, ?_, ?_⟩, ⟨?_, ?_, ?_⟩, ⟨?_, ?_, ?_⟩⟩ <;> ring

theorem M3.transpose_mul (A B : M3) : (A.mul B).transpose = B.transpose.mul A.transpose := by
  simp only [M3.mul, M3.transpose, M3.mk.injEq, V3.mk.injEq]
  refine ⟨⟨?_, ?_, ?_⟩, ⟨?_, ?_, ?_⟩, ⟨?_, ?_, ?_⟩⟩ <;> ring

theorem M3.transpose_one : M3.one.transpose = M3.one := rfl

theorem M3.mul_one (A : M3) : A.mul M3.one = A := by
  cases A with | mk r0 r1 r2 => cases r0; cases r1; cases r2; simp [M3.mul, M3.one]

theorem M3.one_mul (A : M3) : M3.one.mul A = A := by
  cases A with | mk r0 r1 r2 => cases r0; cases r1; cases r2; simp [M3.mul, M3.one]

/-! ### `np.ceil` / `np.floor` of halves, `astype(np.intp)` of an integer value -/

theorem truncInt_intCast (z : Int) : truncInt (z : Rat) = z := by
  unfold truncInt; simp

theorem ceil_half (m : Nat) : Rat.ceil ((m : Rat) / 2) = (((m + 1) / 2 : Nat) : Int) := by
  obtain ⟨q, hq⟩ : ∃ q, q = (m + 1) / 2 := ⟨_, rfl⟩
  rw [← hq]
  have h1 : m ≤ 2 * q := by omega
  have h2 : 2 * q < m + 2 := by omega
  have h1' : (m : Rat) ≤ 2 * (q : Rat) := by exact_mod_cast h1
  have h2' : 2 * (q : Rat) < (m : Rat) + 2 := by exact_mod_cast h2
  apply le_antisymm
  · rw [Rat.ceil_le_iff, Int.cast_natCast]; linarith
  · have : ((q : Int) - 1) < Rat.ceil ((m : Rat) / 2) := by
      rw [Rat.lt_ceil_iff, Int.cast_sub, Int.cast_one, Int.cast_natCast]
      linarith
    omega

theorem floor_half (m : Nat) : Rat.floor ((m : Rat) / 2) = ((m / 2 : Nat) : Int) := by
  obtain ⟨q, hq⟩ : ∃ q, q = m / 2 := ⟨_, rfl⟩
  rw [← hq]
  have h1 : 2 * q ≤ m := by omega
  have h2 : m < 2 * q + 2 := by omega
  have h1' : 2 * (q : Rat) ≤ (m : Rat) := by exact_mod_cast h1
  have h2' : (m : Rat) < 2 * (q : Rat) + 2 := by exact_mod_cast h2
  apply le_antisymm
  · have : Rat.floor ((m : Rat) / 2) < (q : Int) + 1 := by
      rw [Rat.floor_lt_iff, Int.cast_add, Int.cast_one, Int.cast_natCast]
      linarith
    omega
  · rw [Rat.le_floor_iff, Int.cast_natCast]; linarith

end NipyVerif.C18
