/- Lemmas about the column names of C07: `np.unique`, the naming functions are injective. -/
import NipyVerif.Model.C07Dm
import Mathlib.Data.List.Basic
import Mathlib.Data.List.Nodup
import Mathlib.Data.List.Pairwise
import Mathlib.Data.String.Basic
import Mathlib.Tactic.Ring
import Mathlib.Tactic.Linarith

namespace NipyVerif.C07

/-! ### `np.unique` -/

theorem mem_insertU (x a : String) (l : List String) : x ∈ insertU a l ↔ x = a ∨ x ∈ l := by
  induction l with
  | nil => simp [insertU]
  | cons y ys ih =>
      unfold insertU
      split_ifs with h1 h2
      · simp
      · subst h2; simp
      · simp only [List.mem_cons, ih]; tauto

theorem insertU_sorted (a : String) (l : List String) (hl : l.Pairwise (· < ·)) :
    (insertU a l).Pairwise (· < ·) := by
  induction l with
  | nil => simp [insertU]
  | cons y ys ih =>
      unfold insertU
      have hy := List.pairwise_cons.mp hl
      split_ifs with h1 h2
      · refine List.pairwise_cons.mpr ⟨?_, hl⟩
        intro z hz
        rcases List.mem_cons.mp hz with rfl | hz
        · exact h1
        · exact lt_trans h1 (hy.1 z hz)
      · exact hl
      · refine List.pairwise_cons.mpr ⟨?_, ih hy.2⟩
        intro z hz
        rcases (mem_insertU z a ys).mp hz with rfl | hz
        · rcases lt_trichotomy z y with h | h | h
          · exact absurd h h1
          · exact absurd h h2
          · exact h
        · exact hy.1 z hz

theorem uniqueNames_sorted' (l : List String) : (uniqueNames l).Pairwise (· < ·) := by
  unfold uniqueNames
  induction l with
  | nil => simp
  | cons a as ih => exact insertU_sorted a _ ih

theorem mem_uniqueNames' (x : String) (l : List String) : x ∈ uniqueNames l ↔ x ∈ l := by
  unfold uniqueNames
  induction l with
  | nil => simp
  | cons a as ih => simp only [List.foldr_cons, mem_insertU, ih, List.mem_cons]

/-! ### strings -/

theorem str_append_right_cancel {a b s : String} (h : a ++ s = b ++ s) : a = b := by
  have := congrArg String.toList h
  simp only [String.toList_append] at this
  exact String.toList_inj.mp (List.append_cancel_right this)

theorem str_append_left_cancel {a b s : String} (h : s ++ a = s ++ b) : a = b := by
  have := congrArg String.toList h
  simp only [String.toList_append] at this
  exact String.toList_inj.mp (List.append_cancel_left this)

/-- equal-length suffixes: both parts are equal -/
theorem str_append_inj {a b s t : String} (h : a ++ s = b ++ t)
    (hl : s.toList.length = t.toList.length) : a = b ∧ s = t := by
  have := congrArg String.toList h
  simp only [String.toList_append] at this
  obtain ⟨h1, h2⟩ := List.append_inj' this hl
  exact ⟨String.toList_inj.mp h1, String.toList_inj.mp h2⟩

theorem str_ne_append_nonempty (a s : String) (hs : s.toList ≠ []) : a ≠ a ++ s := by
  intro h
  have := congrArg String.toList h
  simp only [String.toList_append] at this
  have hlen := congrArg List.length this
  simp only [List.length_append] at hlen
  have : s.toList.length = 0 := by omega
  exact hs (List.length_eq_zero_iff.mp this)

theorem natToString_injective : Function.Injective (fun n : Nat => toString n) := by
  intro a b h
  have h' : (Nat.repr a).toList = (Nat.repr b).toList := by
    have : Nat.repr a = Nat.repr b := h
    rw [this]
  rw [Nat.toList_repr, Nat.toList_repr] at h'
  have := congrArg (fun l => Nat.ofDigitChars 10 l 0) h'
  simpa using this

theorem underscore_not_in_toString (n : Nat) : '_' ∉ (toString n).toList := by
  show '_' ∉ (Nat.repr n).toList
  rw [Nat.toList_repr]
  exact Nat.underscore_not_in_toDigits

/-- split at the last occurrence of a character absent from both tails -/
theorem append_cons_inj_of_not_mem {α : Type} (a : α) (l₁ l₂ r₁ r₂ : List α)
    (h : l₁ ++ a :: r₁ = l₂ ++ a :: r₂) (h1 : a ∉ r₁) (h2 : a ∉ r₂) : l₁ = l₂ ∧ r₁ = r₂ := by
  have hr := congrArg List.reverse h
  simp only [List.reverse_append, List.reverse_cons, List.append_assoc, List.singleton_append] at hr
  have key : ∀ (x y u v : List α), a ∉ x → a ∉ y → x ++ a :: u = y ++ a :: v → x = y ∧ u = v := by
    intro x
    induction x with
    | nil =>
        intro y u v _ hy hxy
        cases y with
        | nil => simpa using hxy
        | cons b y' =>
            simp only [List.nil_append, List.cons_append, List.cons.injEq] at hxy
            exact absurd (by rw [hxy.1]; simp) hy
    | cons c x' ih =>
        intro y u v hx hy hxy
        cases y with
        | nil =>
            simp only [List.nil_append, List.cons_append, List.cons.injEq] at hxy
            exact absurd (by rw [← hxy.1]; simp) hx
        | cons b y' =>
            simp only [List.cons_append, List.cons.injEq] at hxy
            obtain ⟨hcb, hrest⟩ := hxy
            have := ih y' u v (fun h' => hx (by simp [h'])) (fun h' => hy (by simp [h'])) hrest
            exact ⟨by rw [hcb, this.1], this.2⟩
  have := key r₁.reverse r₂.reverse l₁.reverse l₂.reverse (by simpa using h1) (by simpa using h2) hr
  exact ⟨List.reverse_injective this.2, List.reverse_injective this.1⟩

/-- `c ++ "_delay_" ++ toString d` determines both `c` and `d` -/
theorem fir_name_inj (c c' : String) (d d' : Nat)
    (h : c ++ "_delay_" ++ toString d = c' ++ "_delay_" ++ toString d') : c = c' ∧ d = d' := by
  have hl := congrArg String.toList h
  simp only [String.toList_append] at hl
  have e : "_delay_".toList = "_delay".toList ++ ['_'] := by decide
  rw [e] at hl
  simp only [List.append_assoc, List.singleton_append] at hl
  rw [← List.append_assoc, ← List.append_assoc c'.toList] at hl
  obtain ⟨h1, h2⟩ := append_cons_inj_of_not_mem '_' _ _ _ _ hl
    (underscore_not_in_toString d) (underscore_not_in_toString d')
  refine ⟨String.toList_inj.mp (List.append_cancel_right h1), ?_⟩
  exact natToString_injective (String.toList_inj.mp h2)

/-- a prefixed numeral determines the number -/
theorem prefixed_nat_inj (p : String) (a b : Nat) (h : p ++ toString a = p ++ toString b) : a = b :=
  natToString_injective (str_append_left_cancel h)

/-! ### the exact uniqueness precondition and its decidable form -/

/-- no condition name is another condition name followed by a basis suffix of the model; for
    `fir`: the delays are distinct (or there is no condition) -/
def CondsOk (conds : List String) (m : Hrf) (d : List Nat) : Prop :=
  match m with
  | .canonical | .spm => True
  | .canonicalDeriv | .spmTime => ∀ c ∈ conds, ∀ c' ∈ conds, c ≠ c' ++ "_derivative"
  | .spmTimeDisp => ∀ c ∈ conds, ∀ c' ∈ conds, c ≠ c' ++ "_derivative" ∧ c ≠ c' ++ "_dispersion"
  | .fir => conds = [] ∨ d.Nodup

theorem listDisjoint_iff (a b : List String) : listDisjoint a b = true ↔ List.Disjoint a b := by
  simp [listDisjoint, List.disjoint_left]

theorem suffixClash_iff (conds : List String) (suf : String) :
    suffixClash conds suf = false ↔ ∀ c ∈ conds, ∀ c' ∈ conds, c ≠ c' ++ suf := by
  simp [suffixClash, List.any_eq_false]

theorem condsUnique_iff (conds : List String) (m : Hrf) (d : List Nat) :
    condsUnique conds m d = true ↔ CondsOk conds m d := by
  cases m <;> simp [condsUnique, CondsOk, suffixClash_iff, forall_and]

/-- the conditions `make_dmtx` names columns for are an `np.unique` list -/
theorem makeDmtxParts_conds (s : DmSpec) (conds : List String) (m : Hrf) (add : List String) (nd : Nat)
    (h : makeDmtxParts s = .ok (conds, m, add, nd)) : ∃ ids, conds = uniqueNames ids := by
  have hcm : ∀ p, ∀ c m', condModel p s.hrf = .ok (c, m') → ∃ ids, c = uniqueNames ids := by
    intro p c m' hc
    unfold condModel at hc
    simp only at hc
    split at hc
    · simp only [Except.ok.injEq, Prod.mk.injEq] at hc
      exact ⟨[], by rw [← hc.1]; rfl⟩
    · split at hc
      · cases hc
      · split at hc
        · cases hc
        · simp only [Except.ok.injEq, Prod.mk.injEq] at hc
          exact ⟨p.conId, hc.1.symm⟩
  unfold makeDmtxParts at h
  cases h1 : addCols s.nframes s.addShape with
  | error e => simp [h1, bind, Except.bind] at h
  | ok nadd =>
    cases h5 : driftCols s.drift s.nframes s.dt s.hfcut s.order with
    | error e =>
        exfalso
        cases h2 : s.addNames <;> cases h3 : s.paradigm <;>
          simp [h1, h2, h3, h5, bind, Except.bind, pure, Except.pure, throw, throwThe,
            MonadExceptOf.throw] at h
        all_goals (repeat' split at h)
        all_goals cases h
    | ok nd' =>
      cases h3 : s.paradigm with
      | none =>
          cases h2 : s.addNames <;>
            simp [h1, h2, h3, h5, bind, Except.bind, pure, Except.pure, throw, throwThe,
              MonadExceptOf.throw] at h
          · exact ⟨[], by rw [h.1]; rfl⟩
          · split at h
            · simp only [Except.ok.injEq, Prod.mk.injEq] at h
              exact ⟨[], by rw [← h.1]; rfl⟩
            · simp at h
      | some p =>
          cases h4 : condModel p s.hrf with
          | error e =>
              exfalso
              cases h2 : s.addNames <;>
                simp [h1, h2, h3, h4, bind, Except.bind, pure, Except.pure, throw, throwThe,
                  MonadExceptOf.throw] at h
              all_goals (repeat' split at h)
              all_goals cases h
          | ok cm =>
              obtain ⟨c, m'⟩ := cm
              obtain ⟨ids, hids⟩ := hcm p c m' h4
              cases h2 : s.addNames <;>
                simp [h1, h2, h3, h4, h5, bind, Except.bind, pure, Except.pure, throw, throwThe,
                  MonadExceptOf.throw] at h
              · exact ⟨ids, by rw [← h.1]; exact hids⟩
              · split at h
                · simp only [Except.ok.injEq, Prod.mk.injEq] at h
                  exact ⟨ids, by rw [← h.1]; exact hids⟩
                · simp at h

end NipyVerif.C07
