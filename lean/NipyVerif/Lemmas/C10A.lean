/- Helper lemmas for C10A: the string order of parameter names, insertion sort, `np.arange` lengths. -/
import NipyVerif.Model.C10A
import NipyVerif.Lemmas.C10
import Mathlib.Data.List.Sort
import Mathlib.Algebra.Order.Floor.Defs
import Mathlib.Data.Rat.Floor
import Mathlib.Tactic.IntervalCases

namespace NipyVerif.C10

/-! ### `lexLe`: a total preorder, antisymmetric -/

theorem lexLe_refl (a : List Nat) : lexLe a a = true := by
  induction a with
  | nil => simp [lexLe]
  | cons x l ih => simp [lexLe, ih]

theorem lexLe_total (a b : List Nat) : lexLe a b = true ∨ lexLe b a = true := by
  induction a generalizing b with
  | nil => simp [lexLe]
  | cons x l ih =>
      cases b with
      | nil => simp [lexLe]
      | cons y m =>
          simp only [lexLe]
          rcases Nat.lt_trichotomy x y with h | h | h
          · simp [h]
          · subst h; simpa using ih m
          · have : ¬ x < y := Nat.not_lt.mpr (Nat.le_of_lt h)
            simp [h, this]

theorem lexLe_trans (a b c : List Nat) (h1 : lexLe a b = true) (h2 : lexLe b c = true) : lexLe a c = true := by
  induction a generalizing b c with
  | nil => simp [lexLe]
  | cons x l ih =>
      cases b with
      | nil => simp [lexLe] at h1
      | cons y m =>
          cases c with
          | nil => simp [lexLe] at h2
          | cons z n =>
              simp only [lexLe] at h1 h2 ⊢
              rcases Nat.lt_trichotomy x y with hxy | hxy | hxy
              · rcases Nat.lt_trichotomy y z with hyz | hyz | hyz
                · simp [Nat.lt_trans hxy hyz]
                · subst hyz; simp [hxy]
                · have : ¬ y < z := Nat.not_lt.mpr (Nat.le_of_lt hyz)
                  simp [this, hyz] at h2
              · subst hxy
                rcases Nat.lt_trichotomy x z with hyz | hyz | hyz
                · simp [hyz]
                · subst hyz
                  simp only [Nat.lt_irrefl, if_false] at h1 h2 ⊢
                  exact ih m n h1 h2
                · have : ¬ x < z := Nat.not_lt.mpr (Nat.le_of_lt hyz)
                  simp [this, hyz] at h2
              · have : ¬ x < y := Nat.not_lt.mpr (Nat.le_of_lt hxy)
                simp [this, hxy] at h1

theorem lexLe_antisymm' (a b : List Nat) (h1 : lexLe a b = true) (h2 : lexLe b a = true) : a = b := by
  induction a generalizing b with
  | nil =>
      cases b with
      | nil => rfl
      | cons y m => simp [lexLe] at h2
  | cons x l ih =>
      cases b with
      | nil => simp [lexLe] at h1
      | cons y m =>
          simp only [lexLe] at h1 h2
          rcases Nat.lt_trichotomy x y with hxy | hxy | hxy
          · have : ¬ y < x := Nat.not_lt.mpr (Nat.le_of_lt hxy)
            simp [this, hxy] at h2
          · subst hxy
            simp only [Nat.lt_irrefl, if_false] at h1 h2
            rw [ih m h1 h2]
          · have : ¬ x < y := Nat.not_lt.mpr (Nat.le_of_lt hxy)
            simp [this, hxy] at h1

/-! ### decimal digits determine the number -/

def ofDigits (l : List Nat) : Nat := l.foldl (fun a d => 10 * a + d) 0

theorem foldl_digits_from (a : Nat) (l : List Nat) :
    l.foldl (fun a d => 10 * a + d) a = a * 10 ^ l.length + ofDigits l := by
  induction l generalizing a with
  | nil => simp [ofDigits]
  | cons d l ih =>
      simp only [List.foldl_cons, List.length_cons, ofDigits]
      rw [ih (10 * a + d), ih (10 * 0 + d)]
      ring

theorem ofDigits_digitsAux (fuel : Nat) : ∀ (n : Nat) (acc : List Nat), n < fuel →
    ofDigits (digitsAux fuel n acc) = n * 10 ^ acc.length + ofDigits acc := by
  induction fuel with
  | zero => intro n acc h; omega
  | succ fuel ih =>
      intro n acc h
      unfold digitsAux
      split_ifs with h10
      · simp only [ofDigits, List.foldl_cons]
        rw [foldl_digits_from]; simp [ofDigits]
      · have hlt : n / 10 < fuel := by omega
        rw [ih (n / 10) (n % 10 :: acc) hlt]
        simp only [List.length_cons, ofDigits, List.foldl_cons]
        rw [foldl_digits_from]
        have := Nat.div_add_mod n 10
        simp only [ofDigits]
        have h2 : n / 10 * 10 ^ (acc.length + 1) = (n / 10 * 10) * 10 ^ acc.length := by ring
        rw [h2]
        have h3 : n / 10 * 10 = n - n % 10 := by omega
        have h4 : n % 10 ≤ n := Nat.mod_le _ _
        have h5 : (n - n % 10) * 10 ^ acc.length + ((10 * 0 + n % 10) * 10 ^ acc.length + List.foldl (fun a d => 10 * a + d) 0 acc)
            = n * 10 ^ acc.length + List.foldl (fun a d => 10 * a + d) 0 acc := by
          rw [← Nat.add_assoc, ← Nat.add_mul]
          congr 2
          omega
        rw [h3]; exact h5

theorem ofDigits_digits (n : Nat) : ofDigits (digits n) = n := by
  unfold digits
  rw [ofDigits_digitsAux (n + 1) n [] (by omega)]
  simp [ofDigits]

theorem digits_injective (i j : Nat) (h : digits i = digits j) : i = j := by
  have := congrArg ofDigits h
  rwa [ofDigits_digits, ofDigits_digits] at this

/-! ### insertion sort by a total preorder -/

theorem insertBy_perm (le : Nat → Nat → Bool) (a : Nat) (l : List Nat) : (insertBy le a l).Perm (a :: l) := by
  induction l with
  | nil => simp [insertBy]
  | cons b l ih =>
      unfold insertBy
      split_ifs
      · exact List.Perm.refl _
      · exact ((List.Perm.cons b ih).trans (List.Perm.swap a b l))

theorem sortBy_perm (le : Nat → Nat → Bool) (l : List Nat) : (sortBy le l).Perm l := by
  induction l with
  | nil => simp [sortBy]
  | cons a l ih => exact (insertBy_perm le a _).trans (List.Perm.cons a ih)

theorem insertBy_sorted (le : Nat → Nat → Bool) (htot : ∀ a b, le a b = true ∨ le b a = true)
    (htr : ∀ a b c, le a b = true → le b c = true → le a c = true) (a : Nat) (l : List Nat)
    (hl : l.Pairwise (fun i j => le i j = true)) : (insertBy le a l).Pairwise (fun i j => le i j = true) := by
  induction l with
  | nil => simp [insertBy]
  | cons b l ih =>
      unfold insertBy
      have hb := List.pairwise_cons.mp hl
      split_ifs with h
      · refine List.pairwise_cons.mpr ⟨?_, hl⟩
        intro c hc
        rcases List.mem_cons.mp hc with rfl | hc
        · exact h
        · exact htr a b c h (hb.1 c hc)
      · refine List.pairwise_cons.mpr ⟨?_, ih hb.2⟩
        intro c hc
        have hc' := (insertBy_perm le a l).mem_iff.mp hc
        rcases List.mem_cons.mp hc' with rfl | hc'
        · rcases htot c b with h' | h'
          · exact absurd h' h
          · exact h'
        · exact hb.1 c hc'

theorem sortBy_sorted (le : Nat → Nat → Bool) (htot : ∀ a b, le a b = true ∨ le b a = true)
    (htr : ∀ a b c, le a b = true → le b c = true → le a c = true) (l : List Nat) :
    (sortBy le l).Pairwise (fun i j => le i j = true) := by
  induction l with
  | nil => simp [sortBy]
  | cons a l ih => exact insertBy_sorted le htot htr a _ ih

/-! ### `np.arange(lo, hi, dt)`: which indices exist -/

theorem arange_length (lo hi dt : Rat) : (arange lo hi dt).length = ((hi - lo) / dt).ceil.toNat := by
  simp [arange]

theorem lt_ceil_toNat_iff (x : Rat) (k : Nat) : k < x.ceil.toNat ↔ (k : Rat) < x := by
  rw [Int.lt_toNat, Rat.lt_ceil_iff]
  simp

/-! ### sorting the terms of a product does not change them -/

theorem insertMono_perm (info : List VarInfo) (a : Mono) (l : List Mono) : (insertMono info a l).Perm (a :: l) := by
  induction l with
  | nil => simp [insertMono]
  | cons b l ih =>
      unfold insertMono
      split_ifs
      · exact List.Perm.refl _
      · exact ((List.Perm.cons b ih).trans (List.Perm.swap a b l))

theorem sortMonos_perm (info : List VarInfo) (l : List Mono) : (sortMonos info l).Perm l := by
  induction l with
  | nil => simp [sortMonos]
  | cons a l ih => exact (insertMono_perm info a _).trans (List.Perm.cons a ih)

/-! ### small list facts -/

theorem design_eq_map_range (specs : List VarSpec) (rows : List (List Rat)) (f : Formula) :
    design specs rows f =
      (List.range f.terms.length).map (fun i => column specs rows (f.terms.getD i ⟨0, []⟩)) := by
  unfold design
  apply List.ext_getElem
  · simp
  · intro i h1 h2
    simp only [List.length_map] at h1
    simp [List.getD_eq_getElem?_getD, h1]

theorem mem_design_iff (specs : List VarSpec) (rows : List (List Rat)) (f : Formula) (c : List Rat) :
    c ∈ design specs rows f ↔ ∃ t ∈ f.terms, column specs rows t = c := by
  simp [design]

theorem zipWith_mul_comm (x y : List Rat) : List.zipWith (· * ·) x y = List.zipWith (· * ·) y x := by
  induction x generalizing y with
  | nil => cases y <;> simp
  | cons a x ih => cases y with
    | nil => simp
    | cons b y => simp [ih y, mul_comm]

theorem zipWith_mul_assoc (x y z : List Rat) :
    List.zipWith (· * ·) (List.zipWith (· * ·) x y) z = List.zipWith (· * ·) x (List.zipWith (· * ·) y z) := by
  induction x generalizing y z with
  | nil => simp
  | cons a x ih => cases y with
    | nil => simp
    | cons b y => cases z with
      | nil => simp
      | cons c z => simp [ih y z, mul_assoc]

theorem npConvolve_length (fv gv cv : List Rat) (h : npConvolve fv gv = some cv) :
    cv.length = fv.length + gv.length - 1 := by
  unfold npConvolve at h
  split_ifs at h
  simp only [Option.some.injEq] at h
  rw [← h]; simp

theorem mapM_some_all {α β} (g : α → Option β) : ∀ (q : List α) (l : List β), q.mapM g = some l →
    ∀ t ∈ q, ∃ v, g t = some v := by
  intro q
  induction q with
  | nil => intro l _ t ht; simp at ht
  | cons a q ih =>
      intro l h t ht
      rw [List.mapM_cons] at h
      cases hga : g a with
      | none => simp [hga] at h
      | some b =>
          cases hq : q.mapM g with
          | none => simp [hga, hq] at h
          | some bs =>
              rcases List.mem_cons.mp ht with rfl | ht
              · exact ⟨b, hga⟩
              · exact ih bs hq t ht

theorem ofList_eq (l : List Rat) (i : Nat) : ofList l i = if i < l.length then l.getD i 0 else 0 := by
  unfold ofList
  split_ifs with h
  · rfl
  · simp [List.getD_eq_getElem?_getD, List.getElem?_eq_none (not_lt.mp h)]

/-! ### linear interpolation strictly inside a segment -/

theorem interpSeg_between (ts ys : List Rat) (hlen : ts.length = ys.length)
    (hinc : ts.Pairwise (· < ·)) (i : Nat) (hi : i + 1 < ts.length) (t : Rat)
    (h1 : ts.getD i 0 < t) (h2 : t ≤ ts.getD (i + 1) 0) :
    interpSeg ts ys t = some (ys.getD i 0 + (ys.getD (i + 1) 0 - ys.getD i 0) *
      ((t - ts.getD i 0) / (ts.getD (i + 1) 0 - ts.getD i 0))) := by
  induction ts generalizing ys i with
  | nil => simp at hi
  | cons t0 ts ih =>
      cases ys with
      | nil => simp at hlen
      | cons y0 ys =>
          cases ts with
          | nil => simp at hi
          | cons t1 ts =>
              cases ys with
              | nil => simp at hlen
              | cons y1 ys =>
                  obtain ⟨h0, hp⟩ := List.pairwise_cons.mp hinc
                  have h01 : t0 < t1 := h0 t1 (by simp)
                  cases i with
                  | zero =>
                      simp only [List.getD_cons_zero, List.getD_cons_succ, Nat.zero_add] at h1 h2 ⊢
                      rw [interpSeg, if_neg (not_lt.mpr (le_of_lt h1)), if_pos h2]
                  | succ i =>
                      have hi' : i + 1 < (t1 :: ts).length := by simpa using hi
                      have hx : (t0 :: t1 :: ts).getD (i + 1) 0 = (t1 :: ts).getD i 0 := by simp
                      have hx2 : (t0 :: t1 :: ts).getD (i + 1 + 1) 0 = (t1 :: ts).getD (i + 1) 0 := by simp
                      have hy : (y0 :: y1 :: ys).getD (i + 1) 0 = (y1 :: ys).getD i 0 := by simp
                      have hy2 : (y0 :: y1 :: ys).getD (i + 1 + 1) 0 = (y1 :: ys).getD (i + 1) 0 := by simp
                      rw [hx] at h1
                      rw [hx2] at h2
                      rw [hx, hx2, hy, hy2]
                      have hge : t1 ≤ (t1 :: ts).getD i 0 := by
                        cases i with
                        | zero => simp
                        | succ i =>
                            have hm : (t1 :: ts).getD (i + 1) 0 ∈ ts := by
                              have : i < ts.length := by simp at hi'; omega
                              simp [List.getD_eq_getElem?_getD, List.getElem?_eq_getElem this]
                            exact le_of_lt ((List.pairwise_cons.mp hp).1 _ hm)
                      have hn0 : ¬ t < t0 := not_lt.mpr (le_of_lt (lt_trans h01 (lt_of_le_of_lt hge h1)))
                      have hn1 : ¬ t ≤ t1 := not_le.mpr (lt_of_le_of_lt hge h1)
                      rw [interpSeg, if_neg hn0, if_neg hn1]
                      exact ih (y1 :: ys) (by simpa using hlen) hp i hi' h1 h2

/-! ### `lambdify`'s name space -/

theorem impFrom_spec (es : List (Nat × Nat)) : ∀ (ns ns' : List (Nat × Nat)), impNamespaceFrom ns es = some ns' →
    (∀ k v, nsFind k ns = some v → nsFind k ns' = some v) ∧ ∀ e ∈ es, nsFind e.1 ns' = some e.2 := by
  induction es with
  | nil =>
      intro ns ns' h
      simp only [impNamespaceFrom, Option.some.injEq] at h
      subst h
      exact ⟨fun _ _ h => h, by simp⟩
  | cons e es ih =>
      intro ns ns' h
      unfold impNamespaceFrom at h
      cases hf : nsFind e.1 ns with
      | some i =>
          rw [hf] at h
          simp only at h
          split_ifs at h with hi
          obtain ⟨h1, h2⟩ := ih ns ns' h
          refine ⟨h1, ?_⟩
          intro a ha
          rcases List.mem_cons.mp ha with rfl | ha
          · rw [← hi]; exact h1 _ _ hf
          · exact h2 a ha
      | none =>
          rw [hf] at h
          simp only at h
          obtain ⟨h1, h2⟩ := ih (e :: ns) ns' h
          have hext : ∀ k v, nsFind k ns = some v → nsFind k ns' = some v := by
            intro k v hk
            apply h1
            obtain ⟨e1, e2⟩ := e
            simp only [nsFind]
            split_ifs with hek
            · subst hek; simp only at hf; rw [hf] at hk; cases hk
            · exact hk
          refine ⟨hext, ?_⟩
          intro a ha
          rcases List.mem_cons.mp ha with rfl | ha
          · apply h1
            obtain ⟨e1, e2⟩ := a
            simp [nsFind]
          · exact h2 a ha

theorem impFrom_isSome (es : List (Nat × Nat)) : ∀ (ns : List (Nat × Nat)),
    (∀ e ∈ es, ∀ v, nsFind e.1 ns = some v → v = e.2) →
    (∀ a ∈ es, ∀ b ∈ es, a.1 = b.1 → a.2 = b.2) → (impNamespaceFrom ns es).isSome = true := by
  induction es with
  | nil => intro ns _ _; simp [impNamespaceFrom]
  | cons e es ih =>
      intro ns h1 h2
      unfold impNamespaceFrom
      cases hf : nsFind e.1 ns with
      | some i =>
          simp only
          have : i = e.2 := h1 e (by simp) i hf
          rw [if_pos this]
          exact ih ns (fun a ha => h1 a (List.mem_cons_of_mem _ ha))
            (fun a ha b hb => h2 a (List.mem_cons_of_mem _ ha) b (List.mem_cons_of_mem _ hb))
      | none =>
          simp only
          apply ih (e :: ns)
          · intro a ha v hv
            obtain ⟨e1, e2⟩ := e
            simp only [nsFind] at hv
            split_ifs at hv with hek
            · simp only [Option.some.injEq] at hv
              rw [← hv]
              exact h2 (e1, e2) (by simp) a (List.mem_cons_of_mem _ ha) hek
            · exact h1 a (List.mem_cons_of_mem _ ha) v hv
          · exact fun a ha b hb => h2 a (List.mem_cons_of_mem _ ha) b (List.mem_cons_of_mem _ hb)

theorem firstIndex_inj (l : List Nat) (a b : Nat) (ha : a ∈ l) (hb : b ∈ l)
    (h : firstIndex a l = firstIndex b l) : a = b := by
  induction l with
  | nil => simp at ha
  | cons c l ih =>
      simp only [firstIndex] at h
      by_cases hca : c = a
      · by_cases hcb : c = b
        · rw [← hca, ← hcb]
        · rw [if_pos hca, if_neg hcb] at h; omega
      · by_cases hcb : c = b
        · rw [if_neg hca, if_pos hcb] at h; omega
        · rw [if_neg hca, if_neg hcb] at h
          have ha' : a ∈ l := by
            rcases List.mem_cons.mp ha with h' | h'
            · exact absurd h'.symm hca
            · exact h'
          have hb' : b ∈ l := by
            rcases List.mem_cons.mp hb with h' | h'
            · exact absurd h'.symm hcb
            · exact h'
          exact ih ha' hb' (by omega)

end NipyVerif.C10
