/- C11 — spanning forests: component labellings by `relabel` (as `kruskal` keeps them), the count
   "components + edges = vertices" for forests, the rank inequality between forests, Kruskal's loop
   invariant, and the minimum-weight certificate theorem. -/
import NipyVerif.Lemmas.C11CC
import NipyVerif.Model.C11B
import Mathlib.Data.Finset.Card

namespace NipyVerif.C11

/-- all edges join vertices `< V` -/
def WFE (V : Nat) (F : List Edge) : Prop := ∀ e ∈ F, e.1 < V ∧ e.2.1 < V

/-- a labelling by representatives -/
structure RInv (V : Nat) (lab : List Nat) : Prop where
  len : lab.length = V
  rng : ∀ v, v < V → lab.getD v 0 < V
  idem : ∀ v, v < V → lab.getD (lab.getD v 0) 0 = lab.getD v 0

theorem relabel_getD (lab : List Nat) (lb la v : Nat) (h : v < lab.length) :
    (relabel lab lb la).getD v 0 = if lab.getD v 0 = lb then la else lab.getD v 0 := by
  simp [relabel, List.getD_eq_getElem?_getD, List.getElem?_map, List.getElem?_eq_getElem h]

theorem relabel_self (lab : List Nat) (x : Nat) : relabel lab x x = lab := by
  unfold relabel
  conv_rhs => rw [← List.map_id lab]
  apply List.map_congr_left
  intro a _
  by_cases h : a = x <;> simp [h]

theorem range_getD (V v : Nat) (h : v < V) : (List.range V).getD v 0 = v := by
  simp [List.getD_eq_getElem?_getD, h]

theorem rinv_range (V : Nat) : RInv V (List.range V) :=
  { len := by simp
    rng := fun v hv => by rw [range_getD V v hv]; exact hv
    idem := fun v hv => by rw [range_getD V v hv, range_getD V v hv] }

theorem unionStep_getD (V : Nat) (lab : List Nat) (h : RInv V lab) (e : Edge) (v : Nat) (hv : v < V) :
    (unionStep lab e).getD v 0 =
      if lab.getD v 0 = lab.getD e.2.1 0 then lab.getD e.1 0 else lab.getD v 0 :=
  relabel_getD lab _ _ v (by rw [h.len]; exact hv)

theorem rinv_union (V : Nat) (lab : List Nat) (h : RInv V lab) (e : Edge) (ha : e.1 < V) (_hb : e.2.1 < V) :
    RInv V (unionStep lab e) :=
  { len := by simp [unionStep, relabel, h.len]
    rng := by
      intro v hv
      rw [unionStep_getD V lab h e v hv]
      split
      · exact h.rng _ ha
      · exact h.rng _ hv
    idem := by
      intro v hv
      rw [unionStep_getD V lab h e v hv]
      split
      · rw [unionStep_getD V lab h e _ (h.rng _ ha), h.idem _ ha]
        split <;> rfl
      · next hne =>
          rw [unionStep_getD V lab h e _ (h.rng _ hv), h.idem _ hv, if_neg hne] }

/-! ### connectivity of an edge list -/

theorem conn_mono {V V' : Nat} {F F' : List Edge} (h : ∀ e ∈ F, e ∈ F') {u v : Nat}
    (hc : Conn ⟨V, F⟩ u v) : Conn ⟨V', F'⟩ u v := by
  induction hc with
  | refl => exact Conn.refl _
  | step _ he ih =>
      rcases he with he | he
      · exact Conn.step ih (Or.inl (h _ he))
      · exact Conn.step ih (Or.inr (h _ he))

theorem conn_lt (V : Nat) (F : List Edge) (hF : WFE V F) {u v : Nat} (hc : Conn ⟨V, F⟩ u v) (hu : u < V) :
    v < V := by
  induction hc with
  | refl => exact hu
  | step _ he _ =>
      rcases he with he | he
      · exact (hF _ he).2
      · exact (hF _ he).1

theorem conn_nil (V : Nat) {u v : Nat} (hc : Conn ⟨V, []⟩ u v) : u = v := by
  induction hc with
  | refl => rfl
  | step _ he _ => rcases he with he | he <;> simp at he

/-- the labelling `lab` separates the vertices exactly as the edges `F` connect them -/
def KConn (V : Nat) (F : List Edge) (lab : List Nat) : Prop :=
  ∀ u v, u < V → v < V → (lab.getD u 0 = lab.getD v 0 ↔ Conn ⟨V, F⟩ u v)

theorem kconn_union (V : Nat) (F : List Edge) (hF : WFE V F) (lab : List Nat) (h : RInv V lab)
    (hk : KConn V F lab) (e : Edge) (ha : e.1 < V) (hb : e.2.1 < V) :
    KConn V (F ++ [e]) (unionStep lab e) := by
  have hmono : ∀ {x y}, Conn ⟨V, F⟩ x y → Conn ⟨V, F ++ [e]⟩ x y :=
    fun hc => conn_mono (fun e' he' => List.mem_append_left _ he') hc
  have hab : Conn ⟨V, F ++ [e]⟩ e.1 e.2.1 :=
    Conn.step (Conn.refl _) (Or.inl (show (e.1, e.2.1, e.2.2) ∈ F ++ [e] by simp))
  have hF' : WFE V (F ++ [e]) := by
    intro e' he'
    rcases List.mem_append.mp he' with h' | h'
    · exact hF _ h'
    · simp only [List.mem_singleton] at h'; subst h'; exact ⟨ha, hb⟩
  intro u v hu hv
  rw [unionStep_getD V lab h e u hu, unionStep_getD V lab h e v hv]
  constructor
  · intro heq
    by_cases h1 : lab.getD u 0 = lab.getD e.2.1 0
    · by_cases h2 : lab.getD v 0 = lab.getD e.2.1 0
      · exact hmono ((hk u v hu hv).mp (by rw [h1, h2]))
      · rw [if_pos h1, if_neg h2] at heq
        have hub := hmono ((hk u e.2.1 hu hb).mp h1)
        have hav := hmono ((hk e.1 v ha hv).mp heq)
        exact Conn.trans hub (Conn.trans (Conn.symm hab) hav)
    · by_cases h2 : lab.getD v 0 = lab.getD e.2.1 0
      · rw [if_neg h1, if_pos h2] at heq
        have hua := hmono ((hk u e.1 hu ha).mp heq)
        have hbv := hmono ((hk e.2.1 v hb hv).mp h2.symm)
        exact Conn.trans hua (Conn.trans hab hbv)
      · rw [if_neg h1, if_neg h2] at heq
        exact hmono ((hk u v hu hv).mp heq)
  · intro hc
    -- the new labelling is constant along every chain
    have key : ∀ x, Conn ⟨V, F ++ [e]⟩ u x →
        (if lab.getD u 0 = lab.getD e.2.1 0 then lab.getD e.1 0 else lab.getD u 0) =
        (if lab.getD x 0 = lab.getD e.2.1 0 then lab.getD e.1 0 else lab.getD x 0) := by
      intro x hx
      induction hx with
      | refl => rfl
      | @step x y w hcx he ih =>
          rw [ih]
          have hxV : x < V := conn_lt V _ hF' hcx hu
          have hyV : y < V := conn_lt V _ hF' (Conn.step hcx he) hu
          have hcases : (lab.getD x 0 = lab.getD y 0) ∨
              (lab.getD x 0 = lab.getD e.1 0 ∧ lab.getD y 0 = lab.getD e.2.1 0) ∨
              (lab.getD x 0 = lab.getD e.2.1 0 ∧ lab.getD y 0 = lab.getD e.1 0) := by
            rcases he with he | he
            · rcases List.mem_append.mp he with h' | h'
              · exact Or.inl ((hk x y hxV hyV).mpr (Conn.step (Conn.refl _) (Or.inl h')))
              · simp only [List.mem_singleton] at h'
                have h1 : x = e.1 := congrArg Prod.fst h'
                have h2 : y = e.2.1 := congrArg (fun p => p.2.1) h'
                exact Or.inr (Or.inl ⟨by rw [h1], by rw [h2]⟩)
            · rcases List.mem_append.mp he with h' | h'
              · exact Or.inl ((hk x y hxV hyV).mpr (Conn.step (Conn.refl _) (Or.inr h')))
              · simp only [List.mem_singleton] at h'
                have h1 : y = e.1 := congrArg Prod.fst h'
                have h2 : x = e.2.1 := congrArg (fun p => p.2.1) h'
                exact Or.inr (Or.inr ⟨by rw [h2], by rw [h1]⟩)
          rcases hcases with h0 | ⟨h1, h2⟩ | ⟨h1, h2⟩
          · rw [h0]
          · rw [h1, h2]; simp
          · rw [h1, h2]; simp
    exact key v hc

theorem comp_snoc (V : Nat) (F : List Edge) (e : Edge) : comp V (F ++ [e]) = unionStep (comp V F) e := by
  simp [comp, List.foldl_append]

theorem wfe_append {V : Nat} {F : List Edge} {e : Edge} (h : WFE V (F ++ [e])) :
    WFE V F ∧ e.1 < V ∧ e.2.1 < V :=
  ⟨fun e' he' => h e' (List.mem_append_left _ he'), h e (by simp)⟩

theorem comp_inv (V : Nat) (F : List Edge) (hF : WFE V F) : RInv V (comp V F) ∧ KConn V F (comp V F) := by
  induction F using List.reverseRecOn with
  | nil =>
      refine ⟨rinv_range V, ?_⟩
      intro u v hu hv
      simp only [comp, List.foldl_nil]
      rw [range_getD V u hu, range_getD V v hv]
      exact ⟨fun h => by rw [h]; exact Conn.refl _, conn_nil V⟩
  | append_singleton F e ih =>
      obtain ⟨hF0, ha, hb⟩ := wfe_append hF
      obtain ⟨hr, hk⟩ := ih hF0
      rw [comp_snoc]
      exact ⟨rinv_union V _ hr e ha hb, kconn_union V F hF0 _ hr hk e ha hb⟩

/-! ### counting components -/

/-- the representatives of a labelling -/
def reps (V : Nat) (lab : List Nat) : Finset Nat := (Finset.range V).filter (fun r => lab.getD r 0 = r)

theorem reps_range (V : Nat) : (reps V (List.range V)).card = V := by
  have : reps V (List.range V) = Finset.range V := by
    unfold reps
    apply Finset.filter_true_of_mem
    intro r hr
    exact range_getD V r (Finset.mem_range.mp hr)
  rw [this, Finset.card_range]

theorem reps_union_ne (V : Nat) (lab : List Nat) (h : RInv V lab) (e : Edge) (ha : e.1 < V) (hb : e.2.1 < V)
    (hne : lab.getD e.1 0 ≠ lab.getD e.2.1 0) :
    (reps V (unionStep lab e)).card + 1 = (reps V lab).card := by
  have hmem : lab.getD e.2.1 0 ∈ reps V lab := by
    simp only [reps, Finset.mem_filter, Finset.mem_range]
    exact ⟨h.rng _ hb, h.idem _ hb⟩
  have : reps V (unionStep lab e) = (reps V lab).erase (lab.getD e.2.1 0) := by
    ext r
    simp only [reps, Finset.mem_filter, Finset.mem_range, Finset.mem_erase]
    constructor
    · rintro ⟨hr, heq⟩
      rw [unionStep_getD V lab h e r hr] at heq
      split at heq
      · next h1 =>
          -- r = label of a, but the label of r is the label of b
          exfalso
          have : lab.getD r 0 = lab.getD e.1 0 := by rw [← heq, h.idem _ ha]
          exact hne (by rw [← this, h1])
      · next h1 =>
          refine ⟨?_, hr, heq⟩
          intro hrb
          exact h1 (by rw [heq]; exact hrb)
    · rintro ⟨hrb, hr, heq⟩
      refine ⟨hr, ?_⟩
      rw [unionStep_getD V lab h e r hr, if_neg (by rw [heq]; exact hrb)]
      exact heq
  rw [this, Finset.card_erase_of_mem hmem]
  have : 0 < (reps V lab).card := Finset.card_pos.mpr ⟨_, hmem⟩
  omega

theorem unionStep_eq (lab : List Nat) (e : Edge) (h : lab.getD e.1 0 = lab.getD e.2.1 0) :
    unionStep lab e = lab := by
  unfold unionStep
  rw [h]; exact relabel_self lab _

/-- a forest: every edge, in list order, joins two vertices the earlier edges do not connect -/
inductive Forest (V : Nat) : List Edge → Prop
  | nil : Forest V []
  | snoc {F : List Edge} {e : Edge} : Forest V F → ¬ Conn ⟨V, F⟩ e.1 e.2.1 → Forest V (F ++ [e])

theorem forest_count (V : Nat) (F : List Edge) (hF : WFE V F) (hf : Forest V F) :
    (reps V (comp V F)).card + F.length = V := by
  induction hf with
  | nil => simp [comp, reps_range]
  | @snoc F e _ hnc ih =>
      obtain ⟨hF0, ha, hb⟩ := wfe_append hF
      obtain ⟨hr, hk⟩ := comp_inv V F hF0
      have hne : (comp V F).getD e.1 0 ≠ (comp V F).getD e.2.1 0 :=
        fun h => hnc ((hk e.1 e.2.1 ha hb).mp h)
      have := reps_union_ne V _ hr e ha hb hne
      rw [comp_snoc, List.length_append, List.length_singleton]
      have := ih hF0
      omega

theorem any_count (V : Nat) (F : List Edge) (hF : WFE V F) :
    V ≤ (reps V (comp V F)).card + F.length := by
  induction F using List.reverseRecOn with
  | nil => simp [comp, reps_range]
  | append_singleton F e ih =>
      obtain ⟨hF0, ha, hb⟩ := wfe_append hF
      obtain ⟨hr, _⟩ := comp_inv V F hF0
      have := ih hF0
      rw [comp_snoc, List.length_append, List.length_singleton]
      by_cases hne : (comp V F).getD e.1 0 = (comp V F).getD e.2.1 0
      · rw [unionStep_eq _ e hne]; omega
      · have := reps_union_ne V _ hr e ha hb hne
        omega

/-- a finer labelling has at least as many classes -/
theorem refine_card (V : Nat) (labA labB : List Nat) (hA : RInv V labA) (_hB : RInv V labB)
    (href : ∀ u v, u < V → v < V → labA.getD u 0 = labA.getD v 0 → labB.getD u 0 = labB.getD v 0) :
    (reps V labB).card ≤ (reps V labA).card := by
  apply Finset.card_le_card_of_injOn (fun r => labA.getD r 0)
  · intro r hr
    simp only [reps, Finset.coe_filter, Finset.mem_range, Set.mem_ofPred_eq] at hr ⊢
    exact ⟨hA.rng _ hr.1, hA.idem _ hr.1⟩
  · intro r hr r' hr' heq
    simp only [reps, Finset.coe_filter, Finset.mem_range, Set.mem_ofPred_eq] at hr hr'
    have := href r r' hr.1 hr'.1 heq
    rw [hr.2, hr'.2] at this
    exact this

/-- a finer labelling with no more classes is the same partition -/
theorem same_partition (V : Nat) (labA labB : List Nat) (hA : RInv V labA) (hB : RInv V labB)
    (href : ∀ u v, u < V → v < V → labA.getD u 0 = labA.getD v 0 → labB.getD u 0 = labB.getD v 0)
    (hcard : (reps V labA).card ≤ (reps V labB).card) (u v : Nat) (hu : u < V) (hv : v < V)
    (h : labB.getD u 0 = labB.getD v 0) : labA.getD u 0 = labA.getD v 0 := by
  have hmaps : Set.MapsTo (fun r => labB.getD r 0) (reps V labA : Set Nat) (reps V labB : Set Nat) := by
    intro r hr
    simp only [reps, Finset.coe_filter, Finset.mem_range, Set.mem_ofPred_eq] at hr ⊢
    exact ⟨hB.rng _ hr.1, hB.idem _ hr.1⟩
  have hsurj : Set.SurjOn (fun r => labB.getD r 0) (reps V labA : Set Nat) (reps V labB : Set Nat) := by
    intro s hs
    simp only [reps, Finset.coe_filter, Finset.mem_range, Set.mem_ofPred_eq] at hs
    refine ⟨labA.getD s 0, ?_, ?_⟩
    · simp only [reps, Finset.coe_filter, Finset.mem_range, Set.mem_ofPred_eq]
      exact ⟨hA.rng _ hs.1, hA.idem _ hs.1⟩
    · simp only
      rw [href (labA.getD s 0) s (hA.rng _ hs.1) hs.1 (hA.idem _ hs.1), hs.2]
  have hinj := Finset.injOn_of_surjOn_of_card_le _ hmaps hsurj hcard
  have hru : labA.getD u 0 ∈ (reps V labA : Set Nat) := by
    simp only [reps, Finset.coe_filter, Finset.mem_range, Set.mem_ofPred_eq]
    exact ⟨hA.rng _ hu, hA.idem _ hu⟩
  have hrv : labA.getD v 0 ∈ (reps V labA : Set Nat) := by
    simp only [reps, Finset.coe_filter, Finset.mem_range, Set.mem_ofPred_eq]
    exact ⟨hA.rng _ hv, hA.idem _ hv⟩
  apply hinj hru hrv
  simp only
  rw [href _ u (hA.rng _ hu) hu (hA.idem _ hu), href _ v (hA.rng _ hv) hv (hA.idem _ hv), h]

/-- **rank inequality**: a forest whose edges all lie inside the components of `B` has at most as
    many edges as `B` -/
theorem forest_card_le (V : Nat) (A B : List Edge) (hA : WFE V A) (hB : WFE V B) (hf : Forest V A)
    (hspan : ∀ e ∈ A, Conn ⟨V, B⟩ e.1 e.2.1) : A.length ≤ B.length := by
  obtain ⟨hrA, hkA⟩ := comp_inv V A hA
  obtain ⟨hrB, hkB⟩ := comp_inv V B hB
  have hconn : ∀ u v, Conn ⟨V, A⟩ u v → Conn ⟨V, B⟩ u v := by
    intro u v hc
    induction hc with
    | refl => exact Conn.refl _
    | step _ he ih =>
        rcases he with he | he
        · exact Conn.trans ih (hspan _ he)
        · exact Conn.trans ih (Conn.symm (hspan _ he))
  have href : ∀ u v, u < V → v < V → (comp V A).getD u 0 = (comp V A).getD v 0 →
      (comp V B).getD u 0 = (comp V B).getD v 0 :=
    fun u v hu hv h => (hkB u v hu hv).mpr (hconn u v ((hkA u v hu hv).mp h))
  have h1 := refine_card V _ _ hrA hrB href
  have h2 := forest_count V A hA hf
  have h3 := any_count V B hB
  omega

theorem forest_filter (V : Nat) (F : List Edge) (p : Edge → Bool) (hf : Forest V F) : Forest V (F.filter p) := by
  induction hf with
  | nil => exact Forest.nil
  | @snoc F e _ hnc ih =>
      rw [List.filter_append]
      by_cases hp : p e = true
      · have : [e].filter p = [e] := by simp [hp]
        rw [this]
        exact Forest.snoc ih (fun hc => hnc (conn_mono (fun e' he' => (List.mem_filter.mp he').1) hc))
      · have : [e].filter p = [] := by simp [hp]
        rw [this, List.append_nil]
        exact ih

/-! ### `numCC (cc g)` is the number of components -/

theorem cinv_conn_label (g : Graph) (hs : Sym g) (k : Nat) (lab : List (Option Nat)) (h : CInv g k lab)
    (u v j : Nat) (hc : Conn g u v) (hu : lab.getD u none = some j) : lab.getD v none = some j := by
  induction hc with
  | refl => exact hu
  | @step x y w _ he ih =>
      rcases he with he | he
      · exact h.closed x y w j he ih
      · obtain ⟨w', he'⟩ := hs _ _ _ he
        exact h.closed x y w' j he' ih

theorem reps_card_le (V : Nat) (lab : List Nat) : (reps V lab).card ≤ V := by
  unfold reps
  exact le_trans (Finset.card_filter_le _ _) (by rw [Finset.card_range])

theorem mem_reps {V : Nat} {lab : List Nat} {r : Nat} : r ∈ reps V lab ↔ r < V ∧ lab.getD r 0 = r := by
  simp [reps]

theorem numCC_cc_eq_reps (g : Graph) (hw : WF g) (hs : Sym g) :
    numCC (cc g) = (reps g.V (comp g.V g.edges)).card := by
  obtain ⟨k, hC, h0, hused⟩ := cc_inv' g hw hs
  rw [numCC_eq (cc g) k hC.lt hused]
  obtain ⟨hr, hk⟩ := comp_inv g.V g.edges hw
  have hk' : ∀ u v, u < g.V → v < g.V →
      ((comp g.V g.edges).getD u 0 = (comp g.V g.edges).getD v 0 ↔ Conn g u v) := hk
  let lbl : Nat → Nat := fun r => ((cc g).getD r none).getD 0
  apply le_antisymm
  · -- every label is the label of a representative
    have : (Finset.range k).card ≤ (reps g.V (comp g.V g.edges)).card := by
      apply Finset.card_le_card_of_surjOn lbl
      intro j hj
      have hjk : j < k := Finset.mem_range.mp (Finset.mem_coe.mp hj)
      obtain ⟨v, hv⟩ := hused j hjk
      have hvV : v < g.V := by
        by_contra hc
        rw [getD_none_of_le _ _ (by rw [hC.len]; exact Nat.le_of_not_lt hc)] at hv
        cases hv
      refine ⟨(comp g.V g.edges).getD v 0, ?_, ?_⟩
      · exact Finset.mem_coe.mpr (mem_reps.mpr ⟨hr.rng v hvV, hr.idem v hvV⟩)
      · have hc : Conn g v ((comp g.V g.edges).getD v 0) :=
          (hk' v _ hvV (hr.rng v hvV)).mp (hr.idem v hvV).symm
        have := cinv_conn_label g hs k (cc g) hC v _ j hc hv
        simp only [lbl, this, Option.getD_some]
    rwa [Finset.card_range] at this
  · have : (reps g.V (comp g.V g.edges)).card ≤ (Finset.range k).card := by
      apply Finset.card_le_card_of_injOn lbl
      · intro r hr'
        obtain ⟨hrV, _⟩ := mem_reps.mp (Finset.mem_coe.mp hr')
        obtain ⟨j, hj⟩ := cc_labelled g hw hs r hrV
        simp only [lbl, hj, Option.getD_some, Finset.coe_range, Set.mem_Iio]
        exact hC.lt r j hj
      · intro r hr' r' hr'' heq
        obtain ⟨hrV, hrr⟩ := mem_reps.mp (Finset.mem_coe.mp hr')
        obtain ⟨hrV', hrr'⟩ := mem_reps.mp (Finset.mem_coe.mp hr'')
        obtain ⟨j, hj⟩ := cc_labelled g hw hs r hrV
        obtain ⟨j', hj'⟩ := cc_labelled g hw hs r' hrV'
        simp only [lbl, hj, hj', Option.getD_some] at heq
        subst heq
        have := (hk' r r' hrV hrV').mpr (hC.conn r r' j hj hj')
        rw [hrr, hrr'] at this
        exact this
    rwa [Finset.card_range] at this

/-! ### Kruskal's loop -/

/-- both directions of every selected edge, as `kruskal` stores them -/
def dir (F : List Edge) : List Edge := F.flatMap (fun e => [e, (e.2.1, e.1, e.2.2)])

/-- the selection loop of `kruskal`, one row per selected edge -/
def kruskalU : List Edge → Nat → List Nat → List Edge → List Edge
  | [], _, _, acc => acc
  | e :: es, n, lab, acc =>
      if n = 0 then acc
      else if lab.getD e.1 0 = lab.getD e.2.1 0 then kruskalU es n lab acc
      else kruskalU es (n - 1) (unionStep lab e) (acc ++ [e])

theorem dir_snoc (F : List Edge) (e : Edge) : dir (F ++ [e]) = dir F ++ [e, (e.2.1, e.1, e.2.2)] := by
  simp [dir, List.flatMap_append]

theorem kruskalLoop_eq : ∀ (es : List Edge) (n : Nat) (lab : List Nat) (acc : List Edge),
    kruskalLoop es n lab (dir acc) = dir (kruskalU es n lab acc)
  | [], _, _, _ => by simp [kruskalLoop, kruskalU]
  | e :: es, n, lab, acc => by
      simp only [kruskalLoop, kruskalU]
      split
      · rfl
      · split
        · exact kruskalLoop_eq es n lab acc
        · rw [← dir_snoc]
          exact kruskalLoop_eq es (n - 1) _ (acc ++ [e])

theorem mem_leW {t : Rat} {F : List Edge} {e : Edge} : e ∈ leW t F ↔ e ∈ F ∧ e.2.2 ≤ t := by
  simp [leW]

theorem leW_all (t : Rat) (F : List Edge) (h : ∀ x ∈ F, x.2.2 ≤ t) : leW t F = F := by
  unfold leW
  rw [List.filter_eq_self]
  intro a ha
  simpa using h a ha

/-- what the selection loop returns -/
structure KOut (V : Nat) (all T : List Edge) (bound : Nat) : Prop where
  forest : Forest V T
  len : T.length ≤ bound
  split : ∃ done rest, all = done ++ rest ∧ (∀ e ∈ T, e ∈ done) ∧
            (∀ e ∈ done, Conn ⟨V, leW e.2.2 T⟩ e.1 e.2.1) ∧ (rest = [] ∨ T.length = bound)

theorem kruskalU_spec (V : Nat) (all : List Edge) (hall : WFE V all)
    (hsort : all.Pairwise (fun a b => a.2.2 ≤ b.2.2)) :
    ∀ (es : List Edge) (n : Nat) (lab : List Nat) (acc done : List Edge),
      all = done ++ es → lab = comp V acc → Forest V acc → (∀ e ∈ acc, e ∈ done) →
      (∀ e ∈ done, Conn ⟨V, leW e.2.2 acc⟩ e.1 e.2.1) →
      KOut V all (kruskalU es n lab acc) (acc.length + n)
  | [], n, lab, acc, done, hsplit, _, hf, hsub, hcert => by
      simp only [kruskalU]
      exact ⟨hf, by omega, done, [], hsplit, hsub, hcert, Or.inl rfl⟩
  | e :: es, n, lab, acc, done, hsplit, hlab, hf, hsub, hcert => by
      simp only [kruskalU]
      have hdoneall : ∀ x ∈ done, x ∈ all := fun x hx => by rw [hsplit]; exact List.mem_append_left _ hx
      have heall : e ∈ all := by rw [hsplit]; simp
      have hacc : WFE V acc := fun x hx => hall x (hdoneall x (hsub x hx))
      obtain ⟨ha, hb⟩ := hall e heall
      have hsplit' : all = (done ++ [e]) ++ es := by rw [hsplit]; simp
      have hle : ∀ x ∈ done, x.2.2 ≤ e.2.2 := by
        intro x hx
        rw [hsplit] at hsort
        exact (List.pairwise_append.mp hsort).2.2 x hx e (by simp)
      by_cases hn : n = 0
      · rw [if_pos hn]
        exact ⟨hf, by omega, done, e :: es, hsplit, hsub, hcert, Or.inr (by omega)⟩
      · rw [if_neg hn]
        obtain ⟨hr, hk⟩ := comp_inv V acc hacc
        by_cases hl : lab.getD e.1 0 = lab.getD e.2.1 0
        · rw [if_pos hl]
          apply kruskalU_spec V all hall hsort es n lab acc (done ++ [e]) hsplit' hlab hf
            (fun x hx => List.mem_append_left _ (hsub x hx))
          intro x hx
          rcases List.mem_append.mp hx with hx | hx
          · exact hcert x hx
          · simp only [List.mem_singleton] at hx
            subst hx
            rw [leW_all _ acc (fun y hy => hle y (hsub y hy))]
            rw [hlab] at hl
            exact (hk _ _ ha hb).mp hl
        · rw [if_neg hl]
          have hnc : ¬ Conn ⟨V, acc⟩ e.1 e.2.1 := by
            intro hc
            apply hl
            rw [hlab]
            exact (hk _ _ ha hb).mpr hc
          have := kruskalU_spec V all hall hsort es (n - 1) (unionStep lab e) (acc ++ [e]) (done ++ [e]) hsplit'
            (by rw [comp_snoc, hlab]) (Forest.snoc hf hnc)
            (by
              intro x hx
              rcases List.mem_append.mp hx with hx | hx
              · exact List.mem_append_left _ (hsub x hx)
              · exact List.mem_append_right _ hx)
            (by
              intro x hx
              rcases List.mem_append.mp hx with hx | hx
              · exact conn_mono (fun y hy => by
                  rw [mem_leW] at hy ⊢
                  exact ⟨List.mem_append_left _ hy.1, hy.2⟩) (hcert x hx)
              · simp only [List.mem_singleton] at hx
                subst hx
                exact Conn.step (Conn.refl _) (Or.inl (show (x.1, x.2.1, x.2.2) ∈ leW x.2.2 (acc ++ [x]) from by
                  rw [mem_leW]; exact ⟨by simp, le_refl _⟩)))
          rw [List.length_append, List.length_singleton] at this
          have hb' : acc.length + 1 + (n - 1) = acc.length + n := by omega
          rw [hb'] at this
          exact this

/-- the rows `kruskal` selects, one per edge -/
def kruskalT (g : Graph) : List Edge :=
  kruskalU (sortByWeight g.edges) (g.V - numCC (cc g)) (List.range g.V) []

theorem kruskal_eq_dir (g : Graph) : kruskal g = dir (kruskalT g) := by
  unfold kruskal kruskalT
  exact kruskalLoop_eq _ _ _ []

theorem sortByWeight_sorted (es : List Edge) : (sortByWeight es).Pairwise (fun a b => a.2.2 ≤ b.2.2) := by
  have := List.pairwise_mergeSort (le := fun (a b : Edge) => decide (a.2.2 ≤ b.2.2))
    (by intro a b c h1 h2; simp only [decide_eq_true_eq] at *; exact le_trans h1 h2)
    (by intro a b; simp only [Bool.or_eq_true, decide_eq_true_eq]; exact le_total _ _) es
  unfold sortByWeight
  exact this.imp (by intro a b h; simpa using h)

theorem mem_sortByWeight (es : List Edge) (e : Edge) : e ∈ sortByWeight es ↔ e ∈ es := by
  unfold sortByWeight; exact List.mem_mergeSort

/-- everything the selection of `kruskal` satisfies on a symmetric graph -/
structure KFacts (g : Graph) (T : List Edge) : Prop where
  forest : Forest g.V T
  sub : ∀ e ∈ T, e ∈ g.edges
  span : ∀ u v, Conn g u v → Conn ⟨g.V, T⟩ u v
  count : T.length + numCC (cc g) = g.V
  cert : ∀ e ∈ g.edges, Conn ⟨g.V, leW e.2.2 T⟩ e.1 e.2.1

theorem kruskalT_facts (g : Graph) (hw : WF g) (hs : Sym g) : KFacts g (kruskalT g) := by
  have hall : WFE g.V (sortByWeight g.edges) := fun e he => hw e ((mem_sortByWeight _ e).mp he)
  have hout := kruskalU_spec g.V (sortByWeight g.edges) hall (sortByWeight_sorted _)
    (sortByWeight g.edges) (g.V - numCC (cc g)) (List.range g.V) [] [] (by simp) (by simp [comp])
    Forest.nil (by simp) (by simp)
  obtain ⟨hforest, hlen, done, rest, hsplit, hTdone, hcert, hor⟩ := hout
  change Forest g.V (kruskalT g) at hforest
  change (kruskalT g).length ≤ _ at hlen
  change ∀ e ∈ kruskalT g, e ∈ done at hTdone
  change ∀ e ∈ done, Conn ⟨g.V, leW e.2.2 (kruskalT g)⟩ e.1 e.2.1 at hcert
  change rest = [] ∨ (kruskalT g).length = _ at hor
  set T := kruskalT g with hT
  have hk := numCC_cc_eq_reps g hw hs
  have hkV : numCC (cc g) ≤ g.V := by rw [hk]; exact reps_card_le _ _
  have hTsub : ∀ e ∈ T, e ∈ g.edges := by
    intro e he
    apply (mem_sortByWeight _ e).mp
    rw [hsplit]; exact List.mem_append_left _ (hTdone e he)
  have hTw : WFE g.V T := fun e he => hw e (hTsub e he)
  obtain ⟨hrT, hkT⟩ := comp_inv g.V T hTw
  obtain ⟨hrG, hkG⟩ := comp_inv g.V g.edges hw
  have hkG' : ∀ u v, u < g.V → v < g.V →
      ((comp g.V g.edges).getD u 0 = (comp g.V g.edges).getD v 0 ↔ Conn g u v) := hkG
  have hTG : ∀ u v, Conn ⟨g.V, T⟩ u v → Conn g u v := fun u v hc => conn_mono (V' := g.V) hTsub hc
  have href : ∀ u v, u < g.V → v < g.V → (comp g.V T).getD u 0 = (comp g.V T).getD v 0 →
      (comp g.V g.edges).getD u 0 = (comp g.V g.edges).getD v 0 :=
    fun u v hu hv h => (hkG' u v hu hv).mpr (hTG u v ((hkT u v hu hv).mp h))
  have hcount := forest_count g.V T hTw hforest
  -- every edge of the graph has its ends joined by the selected edges
  have hedge : ∀ e ∈ g.edges, Conn ⟨g.V, T⟩ e.1 e.2.1 := by
    intro e he
    rcases hor with hrest | hfull
    · have hed : e ∈ done := by
        have := (mem_sortByWeight _ e).mpr he
        rw [hsplit, hrest, List.append_nil] at this
        exact this
      exact conn_mono (fun y hy => (mem_leW.mp hy).1) (hcert e hed)
    · have hcard : (reps g.V (comp g.V T)).card ≤ (reps g.V (comp g.V g.edges)).card := by
        rw [← hk]; omega
      obtain ⟨ha, hb⟩ := hw e he
      have hG : (comp g.V g.edges).getD e.1 0 = (comp g.V g.edges).getD e.2.1 0 :=
        (hkG' _ _ ha hb).mpr (Conn.step (Conn.refl _) (Or.inl he))
      exact (hkT _ _ ha hb).mp (same_partition g.V _ _ hrT hrG href hcard e.1 e.2.1 ha hb hG)
  have hspan : ∀ u v, Conn g u v → Conn ⟨g.V, T⟩ u v := by
    intro u v hc
    induction hc with
    | refl => exact Conn.refl _
    | step _ he ih =>
        rcases he with he | he
        · exact Conn.trans ih (hedge _ he)
        · exact Conn.trans ih (Conn.symm (hedge _ he))
  refine ⟨hforest, hTsub, hspan, ?_, ?_⟩
  · -- same partition, hence the same number of classes
    have href' : ∀ u v, u < g.V → v < g.V → (comp g.V g.edges).getD u 0 = (comp g.V g.edges).getD v 0 →
        (comp g.V T).getD u 0 = (comp g.V T).getD v 0 :=
      fun u v hu hv h => (hkT u v hu hv).mpr (hspan u v ((hkG' u v hu hv).mp h))
    have h1 := refine_card g.V _ _ hrT hrG href
    have h2 := refine_card g.V _ _ hrG hrT href'
    omega
  · intro e he
    have hmem := (mem_sortByWeight _ e).mpr he
    rw [hsplit] at hmem
    rcases List.mem_append.mp hmem with hd | hr
    · exact hcert e hd
    · have hsorted := sortByWeight_sorted g.edges
      rw [hsplit] at hsorted
      have hle : ∀ x ∈ T, x.2.2 ≤ e.2.2 := fun x hx =>
        (List.pairwise_append.mp hsorted).2.2 x (hTdone x hx) e hr
      rw [leW_all _ T hle]
      exact hedge e he

/-! ### minimum weight: the certificate theorem -/

/-- total weight of an edge list -/
def weight (F : List Edge) : Rat := (F.map (fun e => e.2.2)).sum

/-- the same edge in the other direction -/
def revE (e : Edge) : Edge := (e.2.1, e.1, e.2.2)

/-- number of entries at most `t` -/
def cnt (t : Rat) (l : List Rat) : Nat := (l.filter (fun x => decide (x ≤ t))).length

theorem cnt_cons (t a : Rat) (l : List Rat) : cnt t (a :: l) = (if a ≤ t then 1 else 0) + cnt t l := by
  unfold cnt
  rw [List.filter_cons]
  by_cases h : a ≤ t
  · simp [h]; omega
  · simp [h]

theorem cnt_le_length (t : Rat) (l : List Rat) : cnt t l ≤ l.length := List.length_filter_le _ _

theorem cnt_all (t : Rat) (l : List Rat) (h : ∀ x ∈ l, x ≤ t) : cnt t l = l.length := by
  unfold cnt
  rw [List.filter_eq_self.mpr]
  intro a ha
  simpa using h a ha

theorem cnt_eq_length (t : Rat) : ∀ l : List Rat, cnt t l = l.length → ∀ x ∈ l, x ≤ t
  | [], _, x, hx => by simp at hx
  | a :: l, h, x, hx => by
      rw [cnt_cons] at h
      have hle := cnt_le_length t l
      simp only [List.length_cons] at h
      by_cases ha : a ≤ t
      · rw [if_pos ha] at h
        rcases List.mem_cons.mp hx with rfl | hx
        · exact ha
        · exact cnt_eq_length t l (by omega) x hx
      · rw [if_neg ha] at h; omega

theorem cnt_erase (t m : Rat) (l : List Rat) (hm : m ∈ l) :
    cnt t l = (if m ≤ t then 1 else 0) + cnt t (l.erase m) := by
  rw [← cnt_cons]
  unfold cnt
  exact ((List.perm_cons_erase hm).filter _).length_eq

theorem exists_max : ∀ l : List Rat, l ≠ [] → ∃ M ∈ l, ∀ x ∈ l, x ≤ M
  | [], h => absurd rfl h
  | [a], _ => ⟨a, by simp, by intro x hx; simp only [List.mem_singleton] at hx; rw [hx]⟩
  | a :: b :: l, _ => by
      obtain ⟨M, hM, hmax⟩ := exists_max (b :: l) (by simp)
      by_cases h : a ≤ M
      · refine ⟨M, List.mem_cons_of_mem _ hM, ?_⟩
        intro x hx
        rcases List.mem_cons.mp hx with rfl | hx
        · exact h
        · exact hmax x hx
      · refine ⟨a, by simp, ?_⟩
        intro x hx
        rcases List.mem_cons.mp hx with rfl | hx
        · exact le_refl _
        · exact le_trans (hmax x hx) (le_of_lt (not_le.mp h))

/-- if for every threshold `a` has at least as many entries below it as `b`, and the lists are
    equally long, then `a` sums to at most `b` -/
theorem sum_le_of_dominance : ∀ (n : Nat) (a b : List Rat), a.length = n → b.length = n →
    (∀ t, cnt t b ≤ cnt t a) → a.sum ≤ b.sum
  | 0, a, b, ha, hb, _ => by
      rw [List.eq_nil_of_length_eq_zero ha, List.eq_nil_of_length_eq_zero hb]
  | n + 1, a, b, ha, hb, hdom => by
      have hane : a ≠ [] := by intro h; rw [h] at ha; simp at ha
      have hbne : b ≠ [] := by intro h; rw [h] at hb; simp at hb
      obtain ⟨m, hm, hmmax⟩ := exists_max a hane
      obtain ⟨M, hM, hMmax⟩ := exists_max b hbne
      have hallM : ∀ x ∈ a, x ≤ M := by
        apply cnt_eq_length M a
        have h1 := hdom M
        rw [cnt_all M b hMmax] at h1
        have h2 := cnt_le_length M a
        omega
      have hmM : m ≤ M := hallM m hm
      have hla : (a.erase m).length = n := by rw [List.length_erase_of_mem hm]; omega
      have hlb : (b.erase M).length = n := by rw [List.length_erase_of_mem hM]; omega
      have ih := sum_le_of_dominance n (a.erase m) (b.erase M) hla hlb (by
        intro t
        have h1 := hdom t
        rw [cnt_erase t m a hm, cnt_erase t M b hM] at h1
        by_cases hMt : M ≤ t
        · have hmt : m ≤ t := le_trans hmM hMt
          rw [if_pos hMt, if_pos hmt] at h1
          omega
        · rw [if_neg hMt] at h1
          by_cases hmt : m ≤ t
          · have hall : ∀ x ∈ a.erase m, x ≤ t := fun x hx => le_trans (hmmax x (List.mem_of_mem_erase hx)) hmt
            rw [cnt_all t _ hall, hla]
            have := cnt_le_length t (b.erase M)
            omega
          · rw [if_neg hmt] at h1
            omega)
      have h1 := List.sum_erase hm
      have h2 := List.sum_erase hM
      linarith

theorem cnt_weights (t : Rat) (F : List Edge) : cnt t (F.map (fun e => e.2.2)) = (leW t F).length := by
  unfold cnt leW
  rw [List.filter_map, List.length_map]
  rfl

/-- **minimum-weight certificate**: let `T` be a forest made of edges of `E` such that the ends of
    every edge `e` of `E` are joined inside `T` by edges no heavier than `e`.  Then `T` weighs no more
    than any forest `T'` made of edges of `E` that joins the ends of every edge of `E`. -/
theorem mst_certificate_sound' (V : Nat) (E T T' : List Edge) (hE : WFE V E)
    (hT : Forest V T) (hTE : ∀ e ∈ T, e ∈ E ∨ revE e ∈ E)
    (hcert : ∀ e ∈ E, Conn ⟨V, leW e.2.2 T⟩ e.1 e.2.1)
    (hT' : Forest V T') (hT'E : ∀ e ∈ T', e ∈ E ∨ revE e ∈ E)
    (hspan' : ∀ e ∈ E, Conn ⟨V, T'⟩ e.1 e.2.1) : weight T ≤ weight T' := by
  have wfe_of : ∀ F : List Edge, (∀ e ∈ F, e ∈ E ∨ revE e ∈ E) → WFE V F := by
    intro F hF e he
    rcases hF e he with h | h
    · exact hE e h
    · have := hE _ h
      exact ⟨this.2, this.1⟩
  have hTw := wfe_of T hTE
  have hT'w := wfe_of T' hT'E
  have hcert' : ∀ e ∈ T', Conn ⟨V, leW e.2.2 T⟩ e.1 e.2.1 := by
    intro e he
    rcases hT'E e he with h | h
    · exact hcert e h
    · exact Conn.symm (hcert _ h)
  have hspanT : ∀ e ∈ T, Conn ⟨V, T'⟩ e.1 e.2.1 := by
    intro e he
    rcases hTE e he with h | h
    · exact hspan' e h
    · exact Conn.symm (hspan' _ h)
  have hlen1 : T.length ≤ T'.length := forest_card_le V T T' hTw hT'w hT hspanT
  have hlen2 : T'.length ≤ T.length := forest_card_le V T' T hT'w hTw hT'
    (fun e he => conn_mono (fun y hy => (mem_leW.mp hy).1) (hcert' e he))
  have hdom : ∀ t, cnt t (T'.map (fun e => e.2.2)) ≤ cnt t (T.map (fun e => e.2.2)) := by
    intro t
    rw [cnt_weights, cnt_weights]
    apply forest_card_le V (leW t T') (leW t T)
    · exact fun e he => hT'w e (mem_leW.mp he).1
    · exact fun e he => hTw e (mem_leW.mp he).1
    · exact forest_filter V T' _ hT'
    · intro e he
      obtain ⟨heT', hwt⟩ := mem_leW.mp he
      exact conn_mono (fun y hy => by
        rw [mem_leW] at hy ⊢
        exact ⟨hy.1, le_trans hy.2 hwt⟩) (hcert' e heT')
  unfold weight
  exact sum_le_of_dominance T.length _ _ (by simp) (by simp; omega) hdom

/-! ### the executable certificate is sound -/

theorem forestLoop_sound (V : Nat) : ∀ (es done : List Edge), WFE V (done ++ es) → Forest V done →
    forestLoop (comp V done) es = true → Forest V (done ++ es)
  | [], done, _, hf, _ => by simpa using hf
  | e :: es, done, hw, hf, h => by
      simp only [forestLoop, Bool.and_eq_true, bne_iff_ne, ne_eq] at h
      have hw' : WFE V ((done ++ [e]) ++ es) := by simpa using hw
      have hdone : WFE V done := fun x hx => hw x (List.mem_append_left _ hx)
      obtain ⟨ha, hb⟩ := hw e (by simp)
      obtain ⟨_, hk⟩ := comp_inv V done hdone
      have hnc : ¬ Conn ⟨V, done⟩ e.1 e.2.1 := fun hc => h.1 ((hk _ _ ha hb).mpr hc)
      have := forestLoop_sound V es (done ++ [e]) hw' (Forest.snoc hf hnc) (by rw [comp_snoc]; exact h.2)
      simpa using this

theorem isForestB_sound (V : Nat) (T : List Edge) (hw : WFE V T) (h : isForestB V T = true) : Forest V T := by
  have := forestLoop_sound V T [] (by simpa using hw) Forest.nil (by simpa [isForestB, comp] using h)
  simpa using this

theorem wfB_sound (V : Nat) (F : List Edge) (h : wfB V F = true) : WFE V F := by
  intro e he
  simp only [wfB, List.all_eq_true, Bool.and_eq_true, decide_eq_true_eq] at h
  exact h e he

/-- `mstCertB V E T = true` ⇒ `T` weighs no more than any forest of edges of `E` that connects what
    `E` connects -/
theorem mstCertB_sound (V : Nat) (E T : List Edge) (h : mstCertB V E T = true) (T' : List Edge)
    (hT' : Forest V T') (hT'E : ∀ e ∈ T', e ∈ E ∨ revE e ∈ E) (hspan' : ∀ e ∈ E, Conn ⟨V, T'⟩ e.1 e.2.1) :
    weight T ≤ weight T' := by
  simp only [mstCertB, Bool.and_eq_true] at h
  obtain ⟨⟨⟨hwf, hfor⟩, hsub⟩, hcert⟩ := h
  have hE := wfB_sound V E hwf
  have hTE : ∀ e ∈ T, e ∈ E ∨ revE e ∈ E := by
    intro e he
    have := (List.all_eq_true.mp hsub) e he
    simp only [Bool.or_eq_true, List.contains_iff_mem] at this
    exact this
  have hTw : WFE V T := by
    intro e he
    rcases hTE e he with h' | h'
    · exact hE e h'
    · have := hE _ h'; exact ⟨this.2, this.1⟩
  apply mst_certificate_sound' V E T T' hE (isForestB_sound V T hTw hfor) hTE ?_ hT' hT'E hspan'
  intro e he
  have hc := (List.all_eq_true.mp hcert) e he
  simp only [beq_iff_eq] at hc
  obtain ⟨ha, hb⟩ := hE e he
  have hlw : WFE V (leW e.2.2 T) := fun x hx => hTw x (mem_leW.mp hx).1
  exact ((comp_inv V _ hlw).2 _ _ ha hb).mp hc

end NipyVerif.C11
