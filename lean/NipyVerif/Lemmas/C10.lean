/- Helper lemmas for C10 (monomial products, dedup, folds). -/
import NipyVerif.Model.C10
import Mathlib.Tactic.Ring
import Mathlib.Tactic.Linarith
import Mathlib.Tactic.FieldSimp
import Mathlib.Algebra.BigOperators.Intervals
import Mathlib.Algebra.BigOperators.Ring.Finset
import Mathlib.Algebra.Order.Field.Rat
import Mathlib.Data.List.Perm.Basic

namespace NipyVerif.C10

/-! ### monomials -/

theorem prodL_insertSorted (v : Nat → Rat) (a : Nat) (l : List Nat) :
    prodL ((insertSorted a l).map v) = v a * prodL (l.map v) := by
  induction l with
  | nil => simp [insertSorted, prodL]
  | cons b l ih =>
      unfold insertSorted
      split_ifs
      · simp [prodL]
      · simp only [List.map_cons, prodL, ih]; ring

theorem prodL_mergeVars (v : Nat → Rat) (l1 l2 : List Nat) :
    prodL ((mergeVars l1 l2).map v) = prodL (l1.map v) * prodL (l2.map v) := by
  induction l1 with
  | nil => simp [mergeVars, prodL]
  | cons a l ih =>
      have : mergeVars (a :: l) l2 = insertSorted a (mergeVars l l2) := rfl
      rw [this, prodL_insertSorted, ih]; simp only [List.map_cons, prodL]; ring

/-! ### dedup -/

theorem mem_dedup {α} [DecidableEq α] (a : α) (l : List α) : a ∈ dedup l ↔ a ∈ l := by
  induction l with
  | nil => simp [dedup]
  | cons b l ih =>
      unfold dedup
      split_ifs with h
      · constructor
        · intro h'; exact List.mem_cons_of_mem _ (ih.mp h')
        · intro h'
          rcases List.mem_cons.mp h' with rfl | h''
          · exact h
          · exact ih.mpr h''
      · simp [ih]

theorem nodup_dedup {α} [DecidableEq α] (l : List α) : (dedup l).Nodup := by
  induction l with
  | nil => simp [dedup]
  | cons b l ih =>
      unfold dedup
      split_ifs with h
      · exact ih
      · exact List.nodup_cons.mpr ⟨h, ih⟩

theorem mem_products (f g : List Mono) (m : Mono) :
    m ∈ products f g ↔ ∃ a ∈ f, ∃ b ∈ g, m = a.mul b := by
  simp only [products, List.mem_flatMap, List.mem_map]
  constructor
  · rintro ⟨a, ha, b, hb, rfl⟩; exact ⟨a, ha, b, hb, rfl⟩
  · rintro ⟨a, ha, b, hb, rfl⟩; exact ⟨a, ha, b, hb, rfl⟩

/-! ### folds -/

theorem stepVal_append (fill : Rat) (l r : List (Rat × Rat)) (x : Rat) :
    stepVal fill (l ++ r) x = stepVal (stepVal fill l x) r x := by
  simp [stepVal, List.foldl_append]

theorem stepVal_none_fire (fill : Rat) (r : List (Rat × Rat)) (x : Rat)
    (h : ∀ p ∈ r, x < p.1) : stepVal fill r x = fill := by
  induction r generalizing fill with
  | nil => rfl
  | cons p r ih =>
      have hp : ¬ p.1 ≤ x := not_le.mpr (h p (List.mem_cons_self))
      have : stepVal fill (p :: r) x = stepVal fill r x := by
        simp [stepVal, List.foldl_cons, hp]
      rw [this]
      exact ih fill (fun q hq => h q (List.mem_cons_of_mem _ hq))

theorem eventsVal_acc (f g : Rat → Rat) (evs : List Ev) (t acc : Rat) :
    evs.foldl (fun e ev => e + g ev.amp * f (t - ev.time)) acc
      = acc + (evs.map (fun ev => g ev.amp * f (t - ev.time))).sum := by
  induction evs generalizing acc with
  | nil => simp
  | cons e es ih => simp only [List.foldl_cons, ih, List.map_cons, List.sum_cons]; ring

/-! ### unit rows, padding -/

theorem indexOf?_spec (t : Mono) (f : List Mono) (j : Nat) (h : indexOf? t f = some j) :
    f[j]? = some t := by
  induction f generalizing j with
  | nil => simp [indexOf?] at h
  | cons a l ih =>
      unfold indexOf? at h
      split_ifs at h with hat
      · simp at h; subst h; simp [hat]
      · cases hi : indexOf? t l with
        | none => simp [hi] at h
        | some i =>
            simp [hi] at h; subst h
            simpa using ih i hi

theorem unitRow_dot_aux (x : List Rat) (s j : Nat) :
    dot ((List.range' s x.length).map (fun i => if i = j then (1 : Rat) else 0)) x =
      if s ≤ j ∧ j < s + x.length then x.getD (j - s) 0 else 0 := by
  induction x generalizing s with
  | nil => simp [dot]
  | cons a x ih =>
      have hr : List.range' s (a :: x).length = s :: List.range' (s + 1) x.length := by
        simp [List.range'_succ]
      rw [hr]
      simp only [List.map_cons, dot, List.zipWith_cons_cons, List.sum_cons]
      have ih' := ih (s + 1)
      simp only [dot] at ih'
      rw [ih']
      by_cases h0 : s = j
      · subst h0; simp
      · by_cases h1 : s + 1 ≤ j ∧ j < s + 1 + x.length
        · have h2 : s ≤ j ∧ j < s + (a :: x).length := by simp; omega
          rw [if_pos h1, if_pos h2, if_neg h0]
          have : j - s = (j - (s + 1)) + 1 := by omega
          rw [this]; simp
        · have h2 : ¬ (s ≤ j ∧ j < s + (a :: x).length) := by simp; omega
          rw [if_neg h1, if_neg h2, if_neg h0]; simp

theorem unitRow_dot' (x : List Rat) (j : Nat) : dot (unitRow x.length j) x = x.getD j 0 := by
  unfold unitRow
  rw [List.range_eq_range', unitRow_dot_aux]
  by_cases h : j < x.length
  · simp [h]
  · simp [h]

theorem zipWith_zero_sum (n : Nat) (x : List Rat) :
    (List.zipWith (· * ·) (List.replicate n (0 : Rat)) x).sum = 0 := by
  induction n generalizing x with
  | zero => simp
  | succ n ih =>
      cases x with
      | nil => simp
      | cons a x => simp [List.replicate_succ, ih]

theorem dot_pad (r xl x xr : List Rat) (hx : x.length = r.length) :
    dot (List.replicate xl.length 0 ++ r ++ List.replicate xr.length 0) (xl ++ x ++ xr) = dot r x := by
  unfold dot
  rw [List.zipWith_append (by simp [hx]), List.zipWith_append (by simp)]
  simp [zipWith_zero_sum]

/-! ### sorting blocks -/

theorem insertBlock_perm (b : Block) (l : List Block) : (insertBlock b l).Perm (b :: l) := by
  induction l with
  | nil => simp [insertBlock]
  | cons c l ih =>
      unfold insertBlock
      split_ifs
      · exact List.Perm.refl _
      · exact (List.Perm.cons c ih).trans (List.Perm.swap b c l)

theorem sortBlocks_perm (l : List Block) : (sortBlocks l).Perm l := by
  induction l with
  | nil => simp [sortBlocks]
  | cons b l ih => exact (insertBlock_perm b _).trans (List.Perm.cons b ih)

theorem insertBlock_sorted (b : Block) (l : List Block)
    (h : l.Pairwise (fun a c => a.start ≤ c.start)) :
    (insertBlock b l).Pairwise (fun a c => a.start ≤ c.start) := by
  induction l with
  | nil => simp [insertBlock]
  | cons c l ih =>
      unfold insertBlock
      obtain ⟨hc, hl⟩ := List.pairwise_cons.mp h
      split_ifs with hbc
      · refine List.pairwise_cons.mpr ⟨?_, h⟩
        intro d hd
        rcases List.mem_cons.mp hd with rfl | hd
        · exact hbc
        · exact le_trans hbc (hc d hd)
      · refine List.pairwise_cons.mpr ⟨?_, ih hl⟩
        intro d hd
        rcases List.mem_cons.mp ((insertBlock_perm b l).mem_iff.mp hd) with rfl | hd
        · exact le_of_lt (not_le.mp hbc)
        · exact hc d hd

theorem sortBlocks_sorted (l : List Block) :
    (sortBlocks l).Pairwise (fun a c => a.start ≤ c.start) := by
  induction l with
  | nil => simp [sortBlocks]
  | cons b l ih => exact insertBlock_sorted b _ ih

/-! ### interpolation -/

theorem interpSeg_at_knot (ts ys : List Rat) (hlen : ts.length = ys.length)
    (hinc : ts.Pairwise (· < ·)) (i : Nat) (hi : i < ts.length) :
    interpSeg ts ys (ts.getD i 0) = some (ys.getD i 0) := by
  induction ts generalizing ys i with
  | nil => simp at hi
  | cons t0 ts ih =>
      cases ys with
      | nil => simp at hlen
      | cons y0 ys =>
          cases ts with
          | nil =>
              cases ys with
              | nil =>
                  have : i = 0 := by simpa using hi
                  subst this; simp [interpSeg]
              | cons _ _ => simp at hlen
          | cons t1 ts =>
              cases ys with
              | nil => simp at hlen
              | cons y1 ys =>
                  obtain ⟨h0, h1⟩ := List.pairwise_cons.mp hinc
                  have h01 : t0 < t1 := h0 t1 (by simp)
                  cases i with
                  | zero =>
                      simp [interpSeg, le_of_lt h01]
                  | succ i =>
                      have hi' : i < (t1 :: ts).length := by simpa using hi
                      have hge : t1 ≤ (t1 :: ts).getD i 0 := by
                        cases i with
                        | zero => simp
                        | succ i =>
                            have hm : (t1 :: ts).getD (i + 1) 0 ∈ ts := by
                              have : i < ts.length := by simpa using hi'
                              simp [List.getD_eq_getElem?_getD, List.getElem?_eq_getElem this]
                            exact le_of_lt ((List.pairwise_cons.mp h1).1 _ hm)
                      have hrec := ih (y1 :: ys) (by simpa using hlen) h1 i hi'
                      have hx : (t0 :: t1 :: ts).getD (i + 1) 0 = (t1 :: ts).getD i 0 := by simp
                      have hy : (y0 :: y1 :: ys).getD (i + 1) 0 = (y1 :: ys).getD i 0 := by simp
                      rw [hx, hy]
                      rw [interpSeg]
                      have hn0 : ¬ (t1 :: ts).getD i 0 < t0 := not_lt.mpr (le_trans (le_of_lt h01) hge)
                      rw [if_neg hn0]
                      by_cases heq : (t1 :: ts).getD i 0 ≤ t1
                      · have hxe : (t1 :: ts).getD i 0 = t1 := le_antisymm heq hge
                        rw [if_pos heq, hxe]
                        rw [hxe] at hrec
                        have hne : t1 - t0 ≠ 0 := by linarith
                        -- value at the right end of the first segment is y1, as the recursion says
                        have hv : y0 + (y1 - y0) * ((t1 - t0) / (t1 - t0)) = y1 := by
                          rw [div_self hne]; ring
                        rw [hv]
                        -- the recursive call at t1 returns y1 as well
                        cases ts with
                        | nil =>
                            cases ys with
                            | nil =>
                                have : i = 0 := by simpa using hi'
                                subst this; simp
                            | cons _ _ => simp at hlen
                        | cons t2 ts =>
                            cases ys with
                            | nil => simp at hlen
                            | cons y2 ys =>
                                have h12 : t1 < t2 := (List.pairwise_cons.mp h1).1 t2 (by simp)
                                simp [interpSeg, le_of_lt h12] at hrec
                                rw [List.getD_eq_getElem?_getD, ← hrec]
                      · rw [if_neg heq]; exact hrec

theorem interpSeg_outside (ts ys : List Rat) (t : Rat)
    (h : (∀ s ∈ ts, t < s) ∨ (∀ s ∈ ts, s < t)) : interpSeg ts ys t = none := by
  induction ts generalizing ys with
  | nil => simp [interpSeg]
  | cons t0 ts ih =>
      cases ts with
      | nil =>
          cases ys with
          | nil => simp [interpSeg]
          | cons y0 ys =>
              cases ys with
              | nil =>
                  have : t ≠ t0 := by
                    rcases h with h | h
                    · exact ne_of_lt (h t0 (by simp))
                    · exact (ne_of_lt (h t0 (by simp))).symm
                  simp [interpSeg, this]
              | cons _ _ => simp [interpSeg]
      | cons t1 ts =>
          cases ys with
          | nil => simp [interpSeg]
          | cons y0 ys =>
              cases ys with
              | nil => simp [interpSeg]
              | cons y1 ys =>
                  rw [interpSeg]
                  rcases h with h | h
                  · rw [if_pos (h t0 (by simp))]
                  · have h0 : ¬ t < t0 := not_lt.mpr (le_of_lt (h t0 (by simp)))
                    have h1 : ¬ t ≤ t1 := not_le.mpr (h t1 (by simp))
                    rw [if_neg h0, if_neg h1]
                    exact ih (y1 :: ys) (Or.inr (fun s hs => h s (List.mem_cons_of_mem _ hs)))

/-! ### convolution -/

open Finset in
theorem prefixSum_eq_sum (f : Nat → Rat) (i : Nat) :
    prefixSum f i = ∑ j ∈ range (i + 1), f j := by
  induction i with
  | zero => simp [prefixSum]
  | succ i ih => rw [prefixSum, ih, sum_range_succ _ (i + 1)]

open Finset in
theorem convAt_comm (f g : Nat → Rat) (k : Nat) : convAt f g k = convAt g f k := by
  unfold convAt
  rw [prefixSum_eq_sum, prefixSum_eq_sum, ← sum_range_reflect]
  apply sum_congr rfl
  intro i hi
  have hi' : i < k + 1 := mem_range.mp hi
  have h1 : k + 1 - 1 - i = k - i := by omega
  have h2 : k - (k - i) = i := by omega
  rw [h1, h2]; ring

open Finset in
theorem convAt_linear (f f' g : Nat → Rat) (a b : Rat) (k : Nat) :
    convAt (fun i => a * f i + b * f' i) g k = a * convAt f g k + b * convAt f' g k := by
  unfold convAt
  simp only [prefixSum_eq_sum, mul_sum, ← sum_add_distrib]
  apply sum_congr rfl
  intro i _; ring

theorem ofArr_toArray (l : List Rat) : ofArr l.toArray = ofList l := by
  funext i
  by_cases h : i < l.length <;> simp [ofArr, ofList, Array.getD, List.getD_eq_getElem?_getD, h]

theorem grid_increasing (n : Nat) (dt c d : Rat) (hdt : 0 < dt) :
    ((List.range n).map (fun (k : Nat) => (k : Rat) * dt + c + d)).Pairwise (· < ·) := by
  rw [List.pairwise_map]
  apply List.Pairwise.imp _ (List.pairwise_lt_range (n := n))
  intro a b hab
  have : (a : Rat) < b := by exact_mod_cast hab
  nlinarith

theorem convolveVal_grid (fv gv : List Rat) (dt minF minG fill : Rat) (hdt : 0 < dt)
    (hf : fv ≠ []) (hg : gv ≠ []) (k : Nat) (hk : k < fv.length + gv.length - 1) :
    convolveVal fv gv dt minF minG fill ((k : Rat) * dt + minF + minG) =
      some (convAt (ofList fv) (ofList gv) k * dt) := by
  unfold convolveVal convFxGx
  have he : ¬ (fv.isEmpty = true ∨ gv.isEmpty = true) := by
    simp [List.isEmpty_iff, hf, hg]
  rw [if_neg he]
  simp only [Option.map_some, ofArr_toArray]
  set n := fv.length + gv.length - 1 with hn
  set ts := (List.range n).map (fun (k : Nat) => (k : Rat) * dt + minF + minG) with hts
  set ys := (List.range n).map (fun k => convAt (ofList fv) (ofList gv) k * dt) with hys
  have hlen : ts.length = ys.length := by simp [hts, hys]
  have hkt : k < ts.length := by simp [hts]; exact hk
  have h1 : ts.getD k 0 = (k : Rat) * dt + minF + minG := by
    simp [hts, List.getD_eq_getElem?_getD, List.getElem?_map, List.getElem?_range hk]
  have h2 : ys.getD k 0 = convAt (ofList fv) (ofList gv) k * dt := by
    simp [hys, List.getD_eq_getElem?_getD, List.getElem?_map, List.getElem?_range hk]
  have := interpSeg_at_knot ts ys hlen (grid_increasing n dt minF minG hdt) k hkt
  rw [h1, h2] at this
  simp [interpVal, this]

end NipyVerif.C10
