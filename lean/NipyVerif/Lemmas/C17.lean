/- Helper lemmas for C17. -/
import NipyVerif.Model.C17
import Mathlib.Tactic.Ring
import Mathlib.Tactic.Linarith
import Mathlib.Tactic.FieldSimp
import Mathlib.Algebra.Order.Field.Rat
import Mathlib.Algebra.Order.Field.Basic
import Mathlib.Data.Nat.Choose.Vandermonde
import Mathlib.Data.Nat.Factorial.Basic
import Mathlib.Data.List.Perm.Basic
import Mathlib.Algebra.BigOperators.Intervals

namespace NipyVerif.C17

/-! ### sign flips -/

theorem signFlips_length (n m : Nat) : (signFlips n m).length = n := by
  induction n generalizing m with
  | zero => rfl
  | succ n ih => simp [signFlips, ih]

theorem signFlips_zero (n : Nat) : signFlips n 0 = List.replicate n false := by
  induction n with
  | zero => rfl
  | succ n ih => simp [signFlips, ih, List.replicate_succ]

theorem applyFlips_false (x : List Rat) : applyFlips (List.replicate x.length false) x = x := by
  induction x with
  | nil => rfl
  | cons v vs ih => simp [applyFlips, List.replicate_succ, ih]

theorem signFlips_inj (n : Nat) : ∀ m1 m2 : Nat, m1 < 2 ^ n → m2 < 2 ^ n →
    signFlips n m1 = signFlips n m2 → m1 = m2 := by
  induction n with
  | zero => intro m1 m2 h1 h2 _; simp at h1 h2; omega
  | succ n ih =>
      intro m1 m2 h1 h2 h
      simp only [signFlips, List.cons.injEq] at h
      obtain ⟨hb, ht⟩ := h
      have e := ih (m1 / 2) (m2 / 2) (by rw [Nat.pow_succ] at h1; omega)
        (by rw [Nat.pow_succ] at h2; omega) ht
      have hb' : m1 % 2 = m2 % 2 := by
        rcases Nat.mod_two_eq_zero_or_one m1 with a | a <;>
          rcases Nat.mod_two_eq_zero_or_one m2 with b | b <;> simp [a, b] at hb ⊢
      omega

theorem encodeFlips_lt (l : List Bool) : encodeFlips l < 2 ^ l.length := by
  induction l with
  | nil => simp [encodeFlips]
  | cons b bs ih =>
      simp only [encodeFlips, List.length_cons, Nat.pow_succ]
      cases b <;> simp <;> omega

theorem signFlips_encode (l : List Bool) : signFlips l.length (encodeFlips l) = l := by
  induction l with
  | nil => rfl
  | cons b bs ih =>
      simp only [List.length_cons, signFlips, encodeFlips]
      have h1 : ((if b = true then 1 else 0) + 2 * encodeFlips bs) / 2 = encodeFlips bs := by
        cases b <;> simp <;> omega
      have h2 : (((if b = true then 1 else 0) + 2 * encodeFlips bs) % 2 == 1) = b := by
        cases b <;> simp <;> omega
      rw [h1, h2, ih]

/-! ### permutations -/

theorem permAux_zero (k : Nat) : ∀ rem : List Nat, rem.length = k → permAux k rem 0 = rem := by
  induction k with
  | zero => intro rem h; simp [permAux, List.length_eq_zero_iff.mp h]
  | succ k ih =>
      intro rem h
      match rem, h with
      | a :: as, h =>
          simp only [permAux, Nat.zero_mod, Nat.zero_div, List.getD_cons_zero, List.eraseIdx_cons_zero]
          rw [ih as (by simpa using h)]

theorem permAux_perm (k : Nat) : ∀ (rem : List Nat) (m : Nat), rem.length = k →
    (permAux k rem m).Perm rem := by
  induction k with
  | zero => intro rem m h; simp [permAux, List.length_eq_zero_iff.mp h]
  | succ k ih =>
      intro rem m h
      have hlt : m % (k + 1) < rem.length := by rw [h]; exact Nat.mod_lt _ (Nat.succ_pos k)
      simp only [permAux]
      have hlen : (rem.eraseIdx (m % (k + 1))).length = k := by
        rw [List.length_eraseIdx_of_lt hlt]; omega
      have h1 := ih (rem.eraseIdx (m % (k + 1))) (m / (k + 1)) hlen
      have hg : rem.getD (m % (k + 1)) 0 = rem[m % (k + 1)] := by
        simp [List.getD_eq_getElem?_getD, hlt]
      rw [hg]
      exact (List.Perm.cons _ h1).trans (List.getElem_cons_eraseIdx_perm hlt)

theorem permAux_inj (k : Nat) : ∀ (rem : List Nat) (m1 m2 : Nat), rem.length = k → rem.Nodup →
    m1 < k.factorial → m2 < k.factorial → permAux k rem m1 = permAux k rem m2 → m1 = m2 := by
  induction k with
  | zero => intro rem m1 m2 _ _ h1 h2 _; simp at h1 h2; omega
  | succ k ih =>
      intro rem m1 m2 h hnd h1 h2 he
      simp only [permAux, List.cons.injEq] at he
      obtain ⟨hh, ht⟩ := he
      have l1 : m1 % (k + 1) < rem.length := by rw [h]; exact Nat.mod_lt _ (Nat.succ_pos k)
      have l2 : m2 % (k + 1) < rem.length := by rw [h]; exact Nat.mod_lt _ (Nat.succ_pos k)
      have g1 : rem.getD (m1 % (k + 1)) 0 = rem[m1 % (k + 1)] := by
        simp [List.getD_eq_getElem?_getD, l1]
      have g2 : rem.getD (m2 % (k + 1)) 0 = rem[m2 % (k + 1)] := by
        simp [List.getD_eq_getElem?_getD, l2]
      rw [g1, g2] at hh
      have hr : m1 % (k + 1) = m2 % (k + 1) := (List.Nodup.getElem_inj_iff hnd).mp hh
      rw [hr] at ht
      have hlen : (rem.eraseIdx (m2 % (k + 1))).length = k := by
        rw [List.length_eraseIdx_of_lt l2]; omega
      have hq : m1 / (k + 1) = m2 / (k + 1) := by
        apply ih _ _ _ hlen (List.Nodup.sublist (List.eraseIdx_sublist _ _) hnd) _ _ ht
        · rw [Nat.div_lt_iff_lt_mul (Nat.succ_pos k)]; rw [Nat.factorial_succ] at h1; linarith
        · rw [Nat.div_lt_iff_lt_mul (Nat.succ_pos k)]; rw [Nat.factorial_succ] at h2; linarith
      have d1 := Nat.div_add_mod m1 (k + 1)
      have d2 := Nat.div_add_mod m2 (k + 1)
      rw [hq, hr] at d1
      omega

/-! ### combinations -/

theorem combLoop_eq (a i : Nat) : combLoop a i = (a + i).choose i := by
  induction i with
  | zero => simp [combLoop]
  | succ i ih =>
      rw [combLoop, ih]
      have h := Nat.add_one_mul_choose_eq (a + i) i
      have e : (a + i).choose i * (a + (i + 1)) = (a + (i + 1)).choose (i + 1) * (i + 1) := by
        have : a + (i + 1) = a + i + 1 := rfl
        rw [this, Nat.mul_comm]; exact h
      rw [e, Nat.mul_div_cancel _ (Nat.succ_pos i)]

theorem combinations_eq (k n : Nat) (h : k ≤ n) : combinations k n = n.choose k := by
  unfold combinations
  rw [combLoop_eq, Nat.sub_add_cancel h]
  exact max_eq_left (Nat.choose_pos h)

theorem combAux_spec (nn : Nat) : ∀ kk i m, kk ≤ nn → m < nn.choose kk →
    (combAux nn kk i m).length = kk ∧ (∀ x ∈ combAux nn kk i m, i ≤ x ∧ x < i + nn) ∧
      (combAux nn kk i m).Pairwise (· < ·) := by
  induction nn with
  | zero =>
      intro kk i m hk _
      have : kk = 0 := by omega
      subst this; simp [combAux]
  | succ nn ih =>
      intro kk i m hk hm
      cases kk with
      | zero => simp [combAux]
      | succ kk =>
          have hk' : kk ≤ nn := by omega
          simp only [combAux, combinations_eq kk nn hk']
          rw [Nat.choose_succ_succ'] at hm
          by_cases hlt : m < nn.choose kk
          · rw [if_pos hlt]
            obtain ⟨h1, h2, h3⟩ := ih kk (i + 1) m hk' hlt
            refine ⟨by simp [h1], ?_, ?_⟩
            · intro x hx
              rcases List.mem_cons.mp hx with rfl | hx
              · omega
              · have := h2 x hx; omega
            · rw [List.pairwise_cons]
              exact ⟨fun x hx => by have := h2 x hx; omega, h3⟩
          · rw [if_neg hlt]
            have hk2 : kk + 1 ≤ nn := by
              by_contra hc
              have : nn.choose (kk + 1) = 0 := Nat.choose_eq_zero_of_lt (by omega)
              omega
            obtain ⟨h1, h2, h3⟩ := ih (kk + 1) (i + 1) (m - nn.choose kk) hk2 (by omega)
            refine ⟨h1, ?_, h3⟩
            intro x hx
            have := h2 x hx; omega

theorem combAux_inj (nn : Nat) : ∀ kk i m1 m2, kk ≤ nn → m1 < nn.choose kk → m2 < nn.choose kk →
    combAux nn kk i m1 = combAux nn kk i m2 → m1 = m2 := by
  induction nn with
  | zero =>
      intro kk i m1 m2 hk h1 h2 _
      have : kk = 0 := by omega
      subst this; simp at h1 h2; omega
  | succ nn ih =>
      intro kk i m1 m2 hk h1 h2 he
      cases kk with
      | zero => simp at h1 h2; omega
      | succ kk =>
          have hk' : kk ≤ nn := by omega
          simp only [combAux, combinations_eq kk nn hk'] at he
          rw [Nat.choose_succ_succ'] at h1 h2
          have hk2 : ∀ m, m < nn.choose kk + nn.choose (kk + 1) → ¬ m < nn.choose kk → kk + 1 ≤ nn := by
            intro m hm hlt
            by_contra hc
            have : nn.choose (kk + 1) = 0 := Nat.choose_eq_zero_of_lt (by omega)
            omega
          by_cases a : m1 < nn.choose kk <;> by_cases b : m2 < nn.choose kk
          · rw [if_pos a, if_pos b] at he
            exact ih kk (i + 1) m1 m2 hk' a b (List.cons.inj he).2
          · rw [if_pos a, if_neg b] at he
            have sp := combAux_spec nn (kk + 1) (i + 1) (m2 - nn.choose kk) (hk2 m2 h2 b) (by omega)
            have hi : i ∈ combAux nn (kk + 1) (i + 1) (m2 - nn.choose kk) := by rw [← he]; simp
            have := sp.2.1 i hi; omega
          · rw [if_neg a, if_pos b] at he
            have sp := combAux_spec nn (kk + 1) (i + 1) (m1 - nn.choose kk) (hk2 m1 h1 a) (by omega)
            have hi : i ∈ combAux nn (kk + 1) (i + 1) (m1 - nn.choose kk) := by rw [he]; simp
            have := sp.2.1 i hi; omega
          · rw [if_neg a, if_neg b] at he
            have := ih (kk + 1) (i + 1) _ _ (hk2 m1 h1 a) (by omega) (by omega) he
            omega

theorem combAux_zero (nn : Nat) : ∀ kk i, kk ≤ nn →
    combAux nn kk i 0 = (List.range kk).map (· + i) := by
  induction nn with
  | zero => intro kk i hk; have : kk = 0 := by omega
            subst this; simp [combAux]
  | succ nn ih =>
      intro kk i hk
      cases kk with
      | zero => simp [combAux]
      | succ kk =>
          have hk' : kk ≤ nn := by omega
          simp only [combAux, combinations_eq kk nn hk']
          rw [if_pos (Nat.choose_pos hk'), ih kk (i + 1) hk', List.range_succ_eq_map]
          simp only [List.map_cons, List.map_map, Nat.zero_add, List.cons.injEq, true_and]
          apply List.map_congr_left
          intro a _; simp; omega

/-! ### two-sample count (Vandermonde) -/

open Finset in
/-- partial sums of the stratum sizes -/
def stratumSum (n1 n2 k : Nat) : Nat := ∑ j ∈ range k, n1.choose j * n2.choose j

theorem choose_step (n i : Nat) : n.choose i * (n - i) / (i + 1) = n.choose (i + 1) := by
  rw [← Nat.choose_succ_right_eq, Nat.mul_div_cancel _ (Nat.succ_pos i)]

theorem count_go (n1 n2 : Nat) : ∀ fuel i,
    twosampleCount.go n1 n2 fuel i (n1.choose i) (n2.choose i) (stratumSum n1 n2 (i + 1)) =
      stratumSum n1 n2 (i + fuel + 1) := by
  intro fuel
  induction fuel with
  | zero => intro i; simp [twosampleCount.go]
  | succ fuel ih =>
      intro i
      simp only [twosampleCount.go, choose_step]
      have : stratumSum n1 n2 (i + 1) + n1.choose (i + 1) * n2.choose (i + 1) =
          stratumSum n1 n2 (i + 1 + 1) := by
        unfold stratumSum; rw [Finset.sum_range_succ _ (i + 1)]
      rw [this, ih (i + 1)]
      congr 1; omega

theorem stratumSum_stable (n1 n2 d : Nat) :
    stratumSum n1 n2 (min n1 n2 + 1 + d) = stratumSum n1 n2 (min n1 n2 + 1) := by
  induction d with
  | zero => rfl
  | succ d ih =>
      have : min n1 n2 + 1 + (d + 1) = (min n1 n2 + 1 + d) + 1 := by omega
      rw [this]; unfold stratumSum at *
      rw [Finset.sum_range_succ, ih]
      have hz : n1.choose (min n1 n2 + 1 + d) * n2.choose (min n1 n2 + 1 + d) = 0 := by
        rcases Nat.le_total n1 n2 with h | h
        · rw [Nat.choose_eq_zero_of_lt (by rw [Nat.min_eq_left h]; omega)]; simp
        · rw [Nat.choose_eq_zero_of_lt (n := n2) (by rw [Nat.min_eq_right h]; omega)]; simp
      omega

theorem stratumSum_vandermonde (n1 n2 : Nat) :
    stratumSum n1 n2 (n2 + 1) = (n1 + n2).choose n1 := by
  have h := Nat.add_choose_eq n1 n2 n2
  rw [Finset.Nat.sum_antidiagonal_eq_sum_range_succ_mk] at h
  have hs : (n1 + n2).choose n1 = (n1 + n2).choose n2 := by
    exact Nat.choose_symm_add
  rw [hs, h]
  unfold stratumSum
  apply Finset.sum_congr rfl
  intro j hj
  have : j ≤ n2 := by simp at hj; omega
  simp only [Nat.choose_symm this]

/-! ### statistics under a global sign flip -/

theorem sum_map_neg (l : List Rat) : (l.map (fun v => -v)).sum = -l.sum := by
  induction l with
  | nil => simp
  | cons a as ih => simp only [List.map_cons, List.sum_cons, ih]; ring

theorem sgn_neg (a : Rat) : sgn (-a) = -sgn a := by
  unfold sgn
  rcases lt_trichotomy a 0 with h | h | h
  · have h1 : (0 : Rat) < -a := by linarith
    have h2 : ¬ (0 : Rat) < a := by linarith
    simp [h, h1, h2]
  · subst h; simp
  · have h1 : ¬ (0 : Rat) < -a := by linarith
    have h2 : -a < 0 := by linarith
    have h3 : ¬ a < 0 := by linarith
    simp [h, h1, h2, h3]

theorem rabs_neg (a : Rat) : rabs (-a) = rabs a := by
  unfold rabs
  rcases lt_trichotomy a 0 with h | h | h
  · have h1 : ¬ -a < 0 := by linarith
    simp [h, h1]
  · subst h; simp
  · have h1 : -a < 0 := by linarith
    have h2 : ¬ a < 0 := by linarith
    simp [h1, h2]

theorem mean_neg (x : List Rat) : mean (x.map (fun v => -v)) = -mean x := by
  unfold mean; rw [sum_map_neg, List.length_map]; ring

theorem ssd_neg (x : List Rat) : ssd (x.map (fun v => -v)) = ssd x := by
  unfold ssd
  rw [mean_neg, List.length_map, List.map_map]
  have : ((fun v : Rat => v * v) ∘ fun v => -v) = fun v => v * v := by funext v; simp
  rw [this]; ring

theorem insertAbs_neg (v : Rat) (l : List Rat) :
    insertAbs (-v) (l.map (fun u => -u)) = (insertAbs v l).map (fun u => -u) := by
  induction l with
  | nil => simp [insertAbs]
  | cons h t ih =>
      simp only [List.map_cons, insertAbs, rabs_neg]
      split_ifs <;> simp [ih]

theorem sortAbs_neg (l : List Rat) : sortAbs (l.map (fun u => -u)) = (sortAbs l).map (fun u => -u) := by
  unfold sortAbs
  have gen : ∀ acc : List Rat,
      (l.map (fun u => -u)).foldl (fun acc v => insertAbs v acc) (acc.map (fun u => -u)) =
        (l.foldl (fun acc v => insertAbs v acc) acc).map (fun u => -u) := by
    induction l with
    | nil => intro acc; rfl
    | cons a as ih =>
        intro acc
        simp only [List.map_cons, List.foldl_cons, insertAbs_neg]
        exact ih _
  simpa using gen []

theorem rankSum_neg (l : List Rat) : ∀ i, rankSum i (l.map (fun u => -u)) = -rankSum i l := by
  induction l with
  | nil => intro i; simp [rankSum]
  | cons a as ih => intro i; simp only [List.map_cons, rankSum, sgn_neg, ih]; ring

/-! ### p-values -/

theorem searchsorted_le (draws : List Rat) (t : Rat) : searchsorted draws t ≤ draws.length :=
  List.length_filter_le _ _

/-! ### EM step algebra -/

theorem sum_sq_dev (U : List Rat) (b : Rat) :
    (U.map (fun u => (u - b) * (u - b))).sum =
      (U.map (fun u => u * u)).sum - 2 * b * U.sum + U.length * (b * b) := by
  induction U with
  | nil => simp
  | cons a as ih =>
      simp only [List.map_cons, List.sum_cons, List.length_cons, ih]
      push_cast; ring

theorem sum_zipWith_add (f g : Rat → Rat → Rat) : ∀ (x v : List Rat),
    (List.zipWith (fun a b => f a b + g a b) x v).sum =
      (List.zipWith f x v).sum + (List.zipWith g x v).sum := by
  intro x
  induction x with
  | nil => intro v; simp
  | cons a as ih =>
      intro v
      cases v with
      | nil => simp
      | cons b bs => simp only [List.zipWith_cons_cons, List.sum_cons, ih bs]; ring

theorem zipWith_ext' (f g : Rat → Rat → Rat) (x v : List Rat) (h : ∀ a b, f a b = g a b) :
    List.zipWith f x v = List.zipWith g x v := by
  have : f = g := funext fun a => funext fun b => h a b
  rw [this]


/-! ### df-weighted fixed-effects variance -/

theorem sum_map_mul_left (c : Rat) (l : List Rat) : (l.map (c * ·)).sum = c * l.sum := by
  induction l with
  | nil => simp
  | cons a as ih => simp only [List.map_cons, List.sum_cons, ih]; ring

theorem sum_zipWith_scale (c : Rat) : ∀ (d s : List Rat),
    (List.zipWith (· * ·) (d.map (c * ·)) s).sum = c * (List.zipWith (· * ·) d s).sum := by
  intro d
  induction d with
  | nil => intro s; simp
  | cons a as ih =>
      intro s
      cases s with
      | nil => simp
      | cons b bs => simp only [List.map_cons, List.zipWith_cons_cons, List.sum_cons, ih bs]; ring

theorem sum_zipWith_replicate_one : ∀ (s : List Rat),
    (List.zipWith (· * ·) (List.replicate s.length (1 : Rat)) s).sum = s.sum := by
  intro s
  induction s with
  | nil => simp
  | cons b bs ih => simp only [List.length_cons, List.replicate_succ, List.zipWith_cons_cons, List.sum_cons, ih]; ring

theorem sum_replicate_one (n : Nat) : (List.replicate n (1 : Rat)).sum = n := by
  induction n with
  | zero => simp
  | succ n ih => simp only [List.replicate_succ, List.sum_cons, ih]; push_cast; ring

end NipyVerif.C17
