/-
C01 — lemmas for the spaces.py model (insertion sort = argsort, a split of `sumTo`).
-/
import NipyVerif.Model.C01W
import NipyVerif.Lemmas.C01E

namespace NipyVerif.C01

theorem insertBy_perm (le : Nat → Nat → Bool) (a : Nat) : ∀ l, (insertBy le a l).Perm (a :: l)
  | [] => List.Perm.refl _
  | b :: r => by
      unfold insertBy
      split_ifs
      · exact List.Perm.refl _
      · exact ((insertBy_perm le a r).cons b).trans (List.Perm.swap a b r)

theorem isort_perm (le : Nat → Nat → Bool) : ∀ l, (isort le l).Perm l
  | [] => List.Perm.refl _
  | a :: r => (insertBy_perm le a _).trans ((isort_perm le r).cons a)

theorem insertBy_pairwise (f : Nat → Nat) (a : Nat) : ∀ l, l.Pairwise (fun i j => f i ≤ f j) →
    (insertBy (fun i j => decide (f i ≤ f j)) a l).Pairwise (fun i j => f i ≤ f j)
  | [], _ => by simp [insertBy]
  | b :: r, h => by
      unfold insertBy
      obtain ⟨hb, hr⟩ := List.pairwise_cons.mp h
      split_ifs with hab
      · simp only [decide_eq_true_eq] at hab
        refine List.pairwise_cons.mpr ⟨fun c hc => ?_, h⟩
        rcases List.mem_cons.mp hc with rfl | hc
        · exact hab
        · exact le_trans hab (hb c hc)
      · simp only [decide_eq_true_eq, not_le] at hab
        refine List.pairwise_cons.mpr ⟨fun c hc => ?_, insertBy_pairwise f a r hr⟩
        have := (insertBy_perm _ a r).mem_iff.mp hc
        rcases List.mem_cons.mp this with rfl | hc'
        · exact le_of_lt hab
        · exact hb c hc'

theorem isort_pairwise (f : Nat → Nat) : ∀ l,
    (isort (fun i j => decide (f i ≤ f j)) l).Pairwise (fun i j => f i ≤ f j)
  | [] => List.Pairwise.nil
  | a :: r => insertBy_pairwise f a _ (isort_pairwise f r)

theorem sumTo_split3 (k : Nat) (f : Nat → Rat) :
    sumTo (3 + k) f = sumTo 3 f + sumTo k (fun j => f (3 + j)) := by
  induction k with
  | zero => simp [sumTo]
  | succ k ih =>
      rw [show 3 + (k + 1) = (3 + k) + 1 from rfl]
      simp only [sumTo] at ih ⊢
      rw [ih]
      ring


end NipyVerif.C01
