/-
C01 — helper lemmas for the coordinate-map model.
-/
import NipyVerif.Model.C01
import Mathlib.Algebra.BigOperators.Intervals
import Mathlib.Algebra.BigOperators.Ring.Finset
import Mathlib.Algebra.Order.Field.Rat
import Mathlib.Tactic.Ring
import Mathlib.Tactic.Linarith

namespace NipyVerif.C01
open Finset

theorem get_mkMat {r c : Nat} (f : Nat → Nat → Rat) {i j : Nat} (hi : i < r) (hj : j < c) :
    (mkMat r c f).get i j = f i j := by
  simp [Mat.get, mkMat, List.getD_eq_getElem?_getD, hi, hj]

theorem sumTo_eq_sum (n : Nat) (f : Nat → Rat) : sumTo n f = ∑ j ∈ range n, f j := by
  induction n with
  | zero => simp [sumTo]
  | succ n ih => simp [sumTo, ih, Finset.sum_range_succ]

theorem sumTo_congr {n : Nat} {f g : Nat → Rat} (h : ∀ j, j < n → f j = g j) :
    sumTo n f = sumTo n g := by
  rw [sumTo_eq_sum, sumTo_eq_sum]
  exact Finset.sum_congr rfl (fun j hj => h j (Finset.mem_range.mp hj))


/-! ### `apply` -/

theorem apply_length (A : Aff) (x : List Rat) : (A.apply x).length = A.nout := by
  simp [Aff.apply]

theorem apply_getD (A : Aff) (x : List Rat) {i : Nat} (hi : i < A.nout) :
    (A.apply x).getD i 0 =
      sumTo A.nin (fun j => A.aff.get i j * x.getD j 0) + A.aff.get i A.nin := by
  simp [Aff.apply, List.getD_eq_getElem?_getD, hi]

/-- `apply` only reads the first `nin` coordinates, and only the entries of the
    matrix in rows `< nout`, columns `≤ nin`. -/
theorem apply_congr (A B : Aff) (x y : List Rat) (hin : A.nin = B.nin) (hout : A.nout = B.nout)
    (hm : ∀ i j, i < A.nout → j ≤ A.nin → A.aff.get i j = B.aff.get i j)
    (hx : ∀ j, j < A.nin → x.getD j 0 = y.getD j 0) : A.apply x = B.apply y := by
  unfold Aff.apply
  rw [← hout, ← hin]
  apply List.map_congr_left
  intro i hi
  have hi' : i < A.nout := List.mem_range.mp hi
  rw [hm i A.nin hi' le_rfl]
  congr 1
  apply sumTo_congr
  intro j hj
  rw [hm i j hi' (le_of_lt hj), hx j hj]

theorem apply_congr_x (A : Aff) (x y : List Rat)
    (hx : ∀ j, j < A.nin → x.getD j 0 = y.getD j 0) : A.apply x = A.apply y :=
  apply_congr A A x y rfl rfl (fun _ _ _ _ => rfl) hx

/-- exact bottom row `[0, …, 0, 1]` -/
def Aff.bottomExact (A : Aff) : Prop :=
  (∀ j, j < A.nin → A.aff.get A.nout j = 0) ∧ A.aff.get A.nout A.nin = 1

/-! ### the constructor -/

theorem mkAff_ok {d r : CoordSys} {m : Mat} {dt : DType} {A : Aff} (h : mkAff d r m dt = .ok A) :
    A.dom = { d with dtype := (dt.join d.dtype).join r.dtype } ∧
    A.rng = { r with dtype := (dt.join d.dtype).join r.dtype } ∧ A.aff = m ∧
    d.names.Nodup ∧ r.names.Nodup ∧
    shapeOK m (r.names.length + 1) (d.names.length + 1) = true ∧
    bottomOK m d.names.length r.names.length = true := by
  unfold mkAff at h
  simp only at h
  split_ifs at h with h1 h2 h3
  · simp only [not_or, not_not] at h1
    simp only [Bool.not_eq_false] at h2 h3
    injection h with h
    subst h
    exact ⟨rfl, rfl, rfl, h1.1, h1.2, h2, h3⟩

theorem mkAff_nin {d r : CoordSys} {m : Mat} {dt : DType} {A : Aff} (h : mkAff d r m dt = .ok A) :
    A.nin = d.names.length ∧ A.nout = r.names.length := by
  obtain ⟨h1, h2, _⟩ := mkAff_ok h
  simp [Aff.nin, Aff.nout, h1, h2]

/-! ### matrix product = composition -/

/-- the algebra behind `_compose_affines`, one output coordinate -/
theorem mul_entry (nin m : Nat) (a : Nat → Nat → Rat) (b : Nat → Rat) (xs : Nat → Rat)
    (hb0 : ∀ j, j < nin → a m j = 0) (hb1 : a m nin = 1) :
    (∑ j ∈ range nin, (∑ l ∈ range (m + 1), b l * a l j) * xs j) + ∑ l ∈ range (m + 1), b l * a l nin
      = (∑ l ∈ range m, b l * ((∑ j ∈ range nin, a l j * xs j) + a l nin)) + b m := by
  have h1 : ∀ j ∈ range nin, (∑ l ∈ range (m + 1), b l * a l j) * xs j
      = ∑ l ∈ range m, b l * (a l j * xs j) := by
    intro j hj
    rw [Finset.sum_range_succ, hb0 j (Finset.mem_range.mp hj), mul_zero, add_zero, Finset.sum_mul]
    exact Finset.sum_congr rfl (fun l _ => by ring)
  rw [Finset.sum_congr rfl h1, Finset.sum_comm, Finset.sum_range_succ (fun l => b l * a l nin), hb1]
  simp only [mul_add, Finset.sum_add_distrib, Finset.mul_sum]
  ring

/-- the computation behind `_compose_affines`: if `C`'s matrix is the product of
    `B`'s and `A`'s homogeneous matrices and `A` has the exact bottom row, `C`
    acts as `B` after `A`. -/
theorem apply_mul (A B C : Aff) (hm : B.nin = A.nout) (hA : A.bottomExact)
    (hin : C.nin = A.nin) (hout : C.nout = B.nout)
    (hC : ∀ i j, i < B.nout → j ≤ A.nin →
      C.aff.get i j = sumTo (A.nout + 1) fun l => B.aff.get i l * A.aff.get l j)
    (x : List Rat) : C.apply x = B.apply (A.apply x) := by
  have key : ∀ i, i < B.nout →
      sumTo C.nin (fun j => C.aff.get i j * x.getD j 0) + C.aff.get i C.nin
        = sumTo B.nin (fun l => B.aff.get i l * (A.apply x).getD l 0) + B.aff.get i B.nin := by
    intro i hi'
    have hL : sumTo C.nin (fun j => C.aff.get i j * x.getD j 0) + C.aff.get i C.nin
        = (∑ j ∈ range A.nin, (∑ l ∈ range (A.nout + 1), B.aff.get i l * A.aff.get l j) * x.getD j 0)
          + ∑ l ∈ range (A.nout + 1), B.aff.get i l * A.aff.get l A.nin := by
      rw [hin, hC i A.nin hi' le_rfl, sumTo_eq_sum, sumTo_eq_sum]
      congr 1
      apply Finset.sum_congr rfl
      intro j hj
      rw [hC i j hi' (le_of_lt (Finset.mem_range.mp hj)), sumTo_eq_sum]
    have hR : sumTo B.nin (fun l => B.aff.get i l * (A.apply x).getD l 0) + B.aff.get i B.nin
        = (∑ l ∈ range A.nout, B.aff.get i l *
            ((∑ j ∈ range A.nin, A.aff.get l j * x.getD j 0) + A.aff.get l A.nin))
          + B.aff.get i A.nout := by
      rw [hm, sumTo_eq_sum]
      congr 1
      apply Finset.sum_congr rfl
      intro l hl
      rw [apply_getD A x (Finset.mem_range.mp hl), sumTo_eq_sum]
    rw [hL, hR]
    exact mul_entry A.nin A.nout (fun l j => A.aff.get l j) (fun l => B.aff.get i l)
      (fun j => x.getD j 0) hA.1 hA.2
  unfold Aff.apply
  rw [hout]
  apply List.map_congr_left
  intro i hi
  exact key i (List.mem_range.mp hi)


/-! ### `_compose_affines` -/

theorem composeStep_ok {cur cm c : Aff} (h : composeStep cur cm = .ok c) :
    cm.dom = cur.rng ∧ c.nin = cur.nin ∧ c.nout = cm.nout ∧
    c.dom.names = cur.dom.names ∧ c.rng.names = cm.rng.names ∧
    c.dom.name = cur.dom.name ∧ c.rng.name = cm.rng.name ∧
    c.aff = Mat.mul (cm.nout + 1) (cur.nout + 1) (cur.nin + 1) cm.aff cur.aff := by
  unfold composeStep at h
  split_ifs at h with hg
  obtain ⟨h1, h2, h3, _⟩ := mkAff_ok h
  obtain ⟨h4, h5⟩ := mkAff_nin h
  refine ⟨hg, h4, h5, ?_, ?_, ?_, ?_, h3⟩ <;> simp [h1, h2]

theorem composeStep_entry {cur cm c : Aff} (h : composeStep cur cm = .ok c) {i j : Nat}
    (hi : i ≤ cm.nout) (hj : j ≤ cur.nin) :
    c.aff.get i j = sumTo (cur.nout + 1) fun l => cm.aff.get i l * cur.aff.get l j := by
  obtain ⟨_, _, _, _, _, _, _, h8⟩ := composeStep_ok h
  rw [h8, Mat.mul, get_mkMat _ (by omega) (by omega)]

theorem composeStep_apply {cur cm c : Aff} (h : composeStep cur cm = .ok c)
    (hb : cur.bottomExact) (x : List Rat) : c.apply x = cm.apply (cur.apply x) := by
  obtain ⟨h1, h2, h3, _⟩ := composeStep_ok h
  have hm : cm.nin = cur.nout := by simp [Aff.nin, Aff.nout, h1]
  exact apply_mul cur cm c hm hb h2 h3
    (fun i j hi hj => composeStep_entry h (le_of_lt hi) hj) x

theorem composeStep_bottom {cur cm c : Aff} (h : composeStep cur cm = .ok c)
    (hb : cur.bottomExact) (hc : cm.bottomExact) : c.bottomExact := by
  obtain ⟨h1, h2, h3, _⟩ := composeStep_ok h
  have hm : cm.nin = cur.nout := by simp [Aff.nin, Aff.nout, h1]
  have row : ∀ j, j ≤ cur.nin → c.aff.get c.nout j = cur.aff.get cur.nout j := by
    intro j hj
    rw [h3, composeStep_entry h le_rfl hj, sumTo_eq_sum, Finset.sum_range_succ, ← hm, hc.2, one_mul]
    rw [Finset.sum_eq_zero, zero_add]
    intro l hl
    rw [hc.1 l (Finset.mem_range.mp hl), zero_mul]
  constructor
  · intro j hj
    rw [h2] at hj
    rw [row j (le_of_lt hj), hb.1 j hj]
  · rw [h2, row _ le_rfl, hb.2]

theorem composeFrom_apply (l : List Aff) : ∀ (cur C : Aff), composeFrom cur l = .ok C →
    cur.bottomExact → (∀ A ∈ l, A.bottomExact) →
    (∀ x, C.apply x = l.foldl (fun acc A => A.apply acc) (cur.apply x)) ∧ C.bottomExact := by
  induction l with
  | nil =>
      intro cur C h hb _
      simp only [composeFrom] at h
      injection h with h
      subst h
      exact ⟨fun x => rfl, hb⟩
  | cons cm rest ih =>
      intro cur C h hb hl
      simp only [composeFrom] at h
      cases hs : composeStep cur cm with
      | error e => rw [hs] at h; cases h
      | ok c =>
          rw [hs] at h
          have hcm := hl cm (List.mem_cons_self)
          obtain ⟨h1, h2⟩ := ih c C h (composeStep_bottom hs hb hcm)
            (fun A hA => hl A (List.mem_cons_of_mem _ hA))
          refine ⟨fun x => ?_, h2⟩
          rw [h1 x, composeStep_apply hs hb x]
          rfl

theorem idMat_get {n i j : Nat} (hi : i < n) (hj : j < n) :
    (idMat n).get i j = if i = j then 1 else 0 := by
  rw [idMat, get_mkMat _ hi hj]

/-- the identity map with which `_compose_affines` starts -/
theorem id0_props {d : CoordSys} {dt : DType} {I : Aff}
    (h : mkAff d d (idMat (d.names.length + 1)) dt = .ok I) :
    I.bottomExact ∧ ∀ x j, j < I.nin → (I.apply x).getD j 0 = x.getD j 0 := by
  obtain ⟨h1, h2, h3, _⟩ := mkAff_ok h
  obtain ⟨h4, h5⟩ := mkAff_nin h
  constructor
  · constructor
    · intro j hj
      rw [h3, h5, idMat_get (by omega) (by omega), if_neg (by omega)]
    · rw [h3, h5, h4, idMat_get (by omega) (by omega), if_pos rfl]
  · intro x j hj
    rw [apply_getD I x (by omega), h3, sumTo_eq_sum, h4]
    rw [idMat_get (by omega) (by omega), if_neg (by omega), add_zero]
    rw [Finset.sum_eq_single j]
    · rw [idMat_get (by omega) (by omega), if_pos rfl, one_mul]
    · intro b hb hne
      rw [idMat_get (by omega) (by have := Finset.mem_range.mp hb; omega), if_neg (Ne.symm hne), zero_mul]
    · intro hn
      exact absurd (Finset.mem_range.mpr (by omega)) hn

theorem composeList_apply {l : List Aff} {C : Aff} (h : composeList l = .ok C)
    (hl : ∀ A ∈ l, A.bottomExact) :
    (∀ x, C.apply x = l.foldr (fun A acc => A.apply acc) x) ∧ C.bottomExact := by
  unfold composeList at h
  cases hr : l.reverse with
  | nil => rw [hr] at h; cases h
  | cons last rest =>
      rw [hr] at h
      simp only at h
      cases hi : mkAff last.dom last.dom (idMat (last.nin + 1)) last.dtype with
      | error e => rw [hi] at h; cases h
      | ok i0 =>
          rw [hi] at h
          simp only at h
          obtain ⟨hb0, hid⟩ := id0_props hi
          have hmem : ∀ A ∈ last :: rest, A.bottomExact := by
            intro A hA
            apply hl A
            have : A ∈ l.reverse := by rw [hr]; exact hA
            exact List.mem_reverse.mp this
          obtain ⟨h1, h2⟩ := composeFrom_apply (last :: rest) i0 C h hb0 hmem
          refine ⟨fun x => ?_, h2⟩
          rw [h1 x]
          have hnin : i0.nin = last.nin := (mkAff_nin hi).1
          have : last.apply (i0.apply x) = last.apply x :=
            apply_congr_x last _ _ (fun j hj => hid x j (by omega))
          have hl' : l = (last :: rest).reverse := by rw [← hr, List.reverse_reverse]
          rw [List.foldl_cons, this, hl', List.foldr_reverse]
          rfl


/-! ### refusal -/

theorem DType.join_self (d : DType) : d.join d = d := by
  cases d <;> decide

theorem mkAff_err {d r : CoordSys} {m : Mat} {dt : DType} {e : Err} (h : mkAff d r m dt = .error e) :
    e = .valueError := by
  unfold mkAff at h
  simp only at h
  split_ifs at h <;> injection h with h <;> exact h.symm

theorem composeStep_err {cur cm : Aff} {e : Err} (h : composeStep cur cm = .error e) :
    e = .valueError := by
  unfold composeStep at h
  split_ifs at h
  · exact mkAff_err h
  · injection h with h; exact h.symm

theorem compose_refuses' (A B : Aff) (hB : B.rng.dtype = B.dom.dtype) (hne : A.dom ≠ B.rng) :
    compose A B = .error .valueError := by
  unfold compose composeList
  simp only [List.reverse_cons, List.reverse_nil, List.nil_append, List.cons_append]
  cases hi : mkAff B.dom B.dom (idMat (B.nin + 1)) B.dtype with
  | error e => rw [mkAff_err hi]
  | ok i0 =>
      simp only [composeFrom]
      cases h1 : composeStep i0 B with
      | error e => rw [composeStep_err h1]
      | ok c1 =>
          simp only
          cases h2 : composeStep c1 A with
          | error e => rw [composeStep_err h2]
          | ok c2 =>
              exfalso
              apply hne
              have hg := (composeStep_ok h2).1
              rw [hg]
              unfold composeStep at h1
              split_ifs at h1 with hg1
              obtain ⟨ha, hb, _⟩ := mkAff_ok h1
              obtain ⟨hc, _, _⟩ := mkAff_ok hi
              rw [hb]
              have hd : i0.dtype = B.dom.dtype := by
                simp [Aff.dtype, hc, DType.join_self]
              have he : i0.dom.dtype = B.dom.dtype := hd
              cases hB' : B.rng with
              | mk names name dtype =>
                  rw [hB'] at hB
                  simp only at hB
                  simp [he, Aff.dtype, hB, DType.join_self]


/-! ### permutations -/

theorem sumTo_eq_list (n : Nat) (f : Nat → Rat) : sumTo n f = ((List.range n).map f).sum := by
  induction n with
  | zero => simp [sumTo]
  | succ n ih => simp [sumTo, ih, List.range_succ, List.sum_append]

theorem map_getD_range {α} (l : List α) (d : α) : (List.range l.length).map (fun i => l.getD i d) = l := by
  apply List.ext_getElem
  · simp
  · intro i h1 h2
    simp [List.getD_eq_getElem?_getD, List.getElem?_eq_getElem h2]

/-- reindexing a sum along a permutation of `0..n-1` given as a list -/
theorem sumTo_perm {n : Nat} {ord : List Nat} (hp : ord.Perm (List.range n)) (h : Nat → Rat) :
    sumTo n (fun i => h (ord.getD i 0)) = sumTo n h := by
  have hlen : ord.length = n := by simpa using hp.length_eq
  rw [sumTo_eq_list, sumTo_eq_list]
  have : (List.range n).map (fun i => h (ord.getD i 0)) = ord.map h := by
    have := map_getD_range ord 0
    rw [hlen] at this
    conv_rhs => rw [← this]
    simp
  rw [this]
  exact (hp.map h).sum_eq

theorem perm_lt {n : Nat} {ord : List Nat} (hp : ord.Perm (List.range n)) {k : Nat} (hk : k ∈ ord) :
    k < n := List.mem_range.mp (hp.mem_iff.mp hk)

theorem permMat_get {n : Nat} (ord : List Nat) {j i : Nat} (hj : j ≤ n) (hi : i ≤ n) :
    (permMat n ord).get j i = if (j = n ∧ i = n) ∨ ord[i]? = some j then 1 else 0 := by
  rw [permMat, get_mkMat _ (by omega) (by omega)]

theorem permMat_bottom {n : Nat} {ord : List Nat} (hp : ord.Perm (List.range n)) :
    (∀ i, i < n → (permMat n ord).get n i = 0) ∧ (permMat n ord).get n n = 1 := by
  constructor
  · intro i hi
    rw [permMat_get ord le_rfl (le_of_lt hi), if_neg]
    rintro (⟨_, h⟩ | h)
    · omega
    · have := perm_lt hp (List.mem_of_getElem? h)
      omega
  · rw [permMat_get ord le_rfl le_rfl, if_pos (Or.inl ⟨rfl, rfl⟩)]

/-- the permutation map of `reordered_domain` sends the reordered tuple back to
    the original one -/
theorem permAff_apply {n : Nat} {ord : List Nat} (hp : ord.Perm (List.range n)) (Pm : Aff)
    (hin : Pm.nin = n) (hout : Pm.nout = n) (haff : Pm.aff = permMat n ord) (x : List Rat)
    {j : Nat} (hj : j < n) :
    (Pm.apply (ord.map (fun k => x.getD k 0))).getD j 0 = x.getD j 0 := by
  have hlen : ord.length = n := by simpa using hp.length_eq
  rw [apply_getD Pm _ (by omega), hin, haff, permMat_get ord (le_of_lt hj) le_rfl]
  have hz : ¬ ((j = n ∧ n = n) ∨ ord[n]? = some j) := by
    rintro (⟨h, _⟩ | h)
    · omega
    · rw [List.getElem?_eq_none (by omega)] at h; cases h
  rw [if_neg hz, add_zero]
  have hterm : ∀ i, i < n →
      (permMat n ord).get j i * (ord.map (fun k => x.getD k 0)).getD i 0
        = (fun k => if k = j then x.getD j 0 else 0) (ord.getD i 0) := by
    intro i hi
    rw [permMat_get ord (le_of_lt hj) (le_of_lt hi)]
    have hi' : i < ord.length := by omega
    simp only [List.getD_eq_getElem?_getD, List.getElem?_map, List.getElem?_eq_getElem hi',
      Option.map_some, Option.getD_some, Option.some.injEq]
    by_cases hc : ord[i] = j
    · rw [if_pos (Or.inr hc), if_pos hc, one_mul, hc]
    · rw [if_neg, if_neg hc, zero_mul]
      rintro (⟨_, h⟩ | h)
      · omega
      · exact hc h
  rw [sumTo_congr hterm, sumTo_perm hp (fun k => if k = j then x.getD j 0 else 0), sumTo_eq_sum,
    Finset.sum_eq_single j]
  · simp
  · intro b _ hb; simp [hb]
  · intro h; exact absurd (Finset.mem_range.mpr hj) h

/-- the (transposed) permutation map of `reordered_range` picks output `ord[i]` -/
theorem permAffT_apply {n : Nat} {ord : List Nat} (hp : ord.Perm (List.range n)) (Pm : Aff)
    (hin : Pm.nin = n) (hout : Pm.nout = n) (haff : Pm.aff = transposeMat (n + 1) (permMat n ord))
    (y : List Rat) {i : Nat} (hi : i < n) :
    (Pm.apply y).getD i 0 = y.getD (ord.getD i 0) 0 := by
  have hlen : ord.length = n := by simpa using hp.length_eq
  have hi' : i < ord.length := by omega
  have hoi : ord[i] < n := perm_lt hp (List.getElem_mem hi')
  have hT : ∀ j, j ≤ n → Pm.aff.get i j = if ord[i] = j then 1 else 0 := by
    intro j hj
    rw [haff, transposeMat, get_mkMat _ (by omega) (by omega), permMat_get ord hj (le_of_lt hi)]
    simp only [List.getElem?_eq_getElem hi', Option.some.injEq]
    by_cases hc : ord[i] = j
    · rw [if_pos (Or.inr hc), if_pos hc]
    · rw [if_neg, if_neg hc]
      rintro (⟨_, h⟩ | h)
      · omega
      · exact hc h
  rw [apply_getD Pm _ (by omega), hin, hT n le_rfl, if_neg (by omega), add_zero, sumTo_eq_sum,
    Finset.sum_eq_single ord[i]]
  · rw [hT _ (le_of_lt hoi), if_pos rfl, one_mul]
    simp [List.getD_eq_getElem?_getD, List.getElem?_eq_getElem hi']
  · intro b hb hne
    rw [hT b (le_of_lt (Finset.mem_range.mp hb)), if_neg (Ne.symm hne), zero_mul]
  · intro h; exact absurd (Finset.mem_range.mpr hoi) h

theorem permMat_id_order {n : Nat} {ord : List Nat} (hp : ord.Perm (List.range n))
    (h : permMat n ord = idMat (n + 1)) : ord = List.range n := by
  have hlen : ord.length = n := by simpa using hp.length_eq
  apply List.ext_getElem?
  intro i
  by_cases hi : i < n
  · have h1 := permMat_get ord (le_of_lt hi) (le_of_lt hi) (n := n)
    rw [h, idMat_get (by omega) (by omega), if_pos rfl] at h1
    by_cases hc : (i = n ∧ i = n) ∨ ord[i]? = some i
    · rcases hc with ⟨h, _⟩ | h
      · omega
      · rw [h]; simp [hi]
    · rw [if_neg hc] at h1
      exact absurd h1 (by norm_num)
  · rw [List.getElem?_eq_none (by omega), List.getElem?_eq_none (by simp; omega)]

theorem reorderCS_ok {cs : CoordSys} {o : Order} {ord : List Nat} {ncs : CoordSys}
    (h : reorderCS cs o = .ok (ord, ncs)) :
    ncs.names = ord.map (fun i => cs.names.getD i "") ∧ ncs.name = cs.name ∧ ncs.dtype = cs.dtype := by
  unfold reorderCS at h
  cases hr : resolveOrder cs o with
  | error e => rw [hr] at h; cases h
  | ok ord' =>
      rw [hr] at h
      simp only at h
      split_ifs at h
      unfold mkCS at h
      split_ifs at h
      simp only [Except.ok.injEq, Prod.mk.injEq] at h
      obtain ⟨rfl, rfl⟩ := h
      exact ⟨rfl, rfl, rfl⟩

theorem copyAff_ok {A B : Aff} (h : copyAff A = .ok B) :
    B.aff = A.aff ∧ B.dom.names = A.dom.names ∧ B.rng.names = A.rng.names ∧
    B.dom.name = A.dom.name ∧ B.rng.name = A.rng.name := by
  obtain ⟨h1, h2, h3, _⟩ := mkAff_ok h
  simp [h1, h2, h3]

theorem composeList_pair_names {A B C : Aff} (h : composeList [A, B] = .ok C) :
    C.dom.names = B.dom.names ∧ C.rng.names = A.rng.names ∧
    C.dom.name = B.dom.name ∧ C.rng.name = A.rng.name := by
  unfold composeList at h
  simp only [List.reverse_cons, List.reverse_nil, List.nil_append, List.cons_append] at h
  cases hi : mkAff B.dom B.dom (idMat (B.nin + 1)) B.dtype with
  | error e => rw [hi] at h; cases h
  | ok i0 =>
      rw [hi] at h
      simp only [composeFrom] at h
      cases h1 : composeStep i0 B with
      | error e => rw [h1] at h; cases h
      | ok c1 =>
          rw [h1] at h
          simp only at h
          cases h2 : composeStep c1 A with
          | error e => rw [h2] at h; cases h
          | ok c2 =>
              rw [h2] at h
              simp only [Except.ok.injEq] at h
              subst h
              obtain ⟨_, _, _, a4, _, a6, _, _⟩ := composeStep_ok h1
              obtain ⟨_, _, _, b4, b5, b6, b7, _⟩ := composeStep_ok h2
              obtain ⟨c1', _, _⟩ := mkAff_ok hi
              refine ⟨?_, b5, ?_, b7⟩
              · rw [b4, a4, c1']
              · rw [b6, a6, c1']


/-! ### `reordered_domain`, `reordered_range` -/

/-- a map evaluated on a *named* input tuple, giving *named* output values -/
def Aff.applyNamed (A : Aff) (env : String → Rat) : List (String × Rat) :=
  A.rng.names.zip (A.apply (A.dom.names.map env))

theorem getD_map_range {n : Nat} (f : Nat → Rat) {j : Nat} (hj : j < n) :
    ((List.range n).map f).getD j 0 = f j := by
  simp [List.getD_eq_getElem?_getD, hj]

theorem reorderedDomain_apply' (A B : Aff) (o : Order) (ord : List Nat) (ncs : CoordSys)
    (hcs : reorderCS A.dom o = .ok (ord, ncs)) (hp : ord.Perm (List.range A.nin))
    (hA : A.bottomExact) (h : reorderedDomain A o = .ok B) :
    B.dom.names = ord.map (fun i => A.dom.names.getD i "") ∧ B.rng.names = A.rng.names ∧
    B.bottomExact ∧ ∀ x, B.apply (ord.map fun k => x.getD k 0) = A.apply x := by
  have hlen : ord.length = A.nin := by simpa using hp.length_eq
  obtain ⟨hn1, hn2, hn3⟩ := reorderCS_ok hcs
  unfold reorderedDomain at h
  rw [hcs] at h
  simp only at h
  split_ifs at h with hid
  · have hord := permMat_id_order hp hid
    obtain ⟨c1, c2, c3, _, _⟩ := copyAff_ok h
    have hbn : B.nin = A.nin := by simp [Aff.nin, c2]
    have hbo : B.nout = A.nout := by simp [Aff.nout, c3]
    refine ⟨?_, c3, ?_, fun x => ?_⟩
    · rw [c2, hord]
      exact (map_getD_range A.dom.names "").symm
    · constructor
      · intro j hj
        rw [c1, hbo]; exact hA.1 j (by omega)
      · rw [c1, hbo, hbn]; exact hA.2
    · apply apply_congr B A _ x hbn hbo (fun i j _ _ => by rw [c1])
      intro j hj
      rw [hord, getD_map_range _ (by omega)]
  · cases hm : mkAff ncs A.dom (permMat A.nin ord) A.dom.dtype with
    | error e => rw [hm] at h; cases h
    | ok Pm =>
        rw [hm] at h
        simp only at h
        obtain ⟨m1, m2, m3, _⟩ := mkAff_ok hm
        obtain ⟨m4, m5⟩ := mkAff_nin hm
        have hpin : Pm.nin = A.nin := by rw [m4, hn1]; simpa using hlen
        have hpout : Pm.nout = A.nin := m5
        have hPb : Pm.bottomExact := by
          have := permMat_bottom hp
          constructor
          · intro j hj
            rw [m3, hpout]; exact this.1 j (by omega)
          · rw [m3, hpout, hpin]; exact this.2
        obtain ⟨hap, hbb⟩ := composeList_apply h (by
          intro M hM
          simp only [List.mem_cons, List.mem_nil_iff, or_false] at hM
          rcases hM with rfl | rfl <;> assumption)
        obtain ⟨p1, p2, _, _⟩ := composeList_pair_names h
        refine ⟨?_, p2, hbb, fun x => ?_⟩
        · rw [p1, m1]; exact hn1
        · rw [hap]
          simp only [List.foldr_cons, List.foldr_nil]
          exact apply_congr_x A _ _ (fun j hj => permAff_apply hp Pm hpin hpout m3 x hj)

theorem reorderedRange_apply' (A B : Aff) (o : Order) (ord : List Nat) (ncs : CoordSys)
    (hcs : reorderCS A.rng o = .ok (ord, ncs)) (hp : ord.Perm (List.range A.nout))
    (hA : A.bottomExact) (h : reorderedRange A o = .ok B) :
    B.rng.names = ord.map (fun i => A.rng.names.getD i "") ∧ B.dom.names = A.dom.names ∧
    B.bottomExact ∧ ∀ x, B.apply x = ord.map fun k => (A.apply x).getD k 0 := by
  have hlen : ord.length = A.nout := by simpa using hp.length_eq
  obtain ⟨hn1, hn2, hn3⟩ := reorderCS_ok hcs
  unfold reorderedRange at h
  rw [hcs] at h
  simp only at h
  split_ifs at h with hid
  · have hord := permMat_id_order hp hid
    obtain ⟨c1, c2, c3, _, _⟩ := copyAff_ok h
    have hbn : B.nin = A.nin := by simp [Aff.nin, c2]
    have hbo : B.nout = A.nout := by simp [Aff.nout, c3]
    refine ⟨?_, c2, ?_, fun x => ?_⟩
    · rw [c3, hord]
      exact (map_getD_range A.rng.names "").symm
    · constructor
      · intro j hj
        rw [c1, hbo]; exact hA.1 j (by omega)
      · rw [c1, hbo, hbn]; exact hA.2
    · rw [apply_congr B A x x hbn hbo (fun i j _ _ => by rw [c1]) (fun _ _ => rfl), hord]
      have := map_getD_range (A.apply x) 0
      rw [apply_length] at this
      exact this.symm
  · cases hm : mkAff A.rng ncs (transposeMat (A.nout + 1) (permMat A.nout ord)) A.rng.dtype with
    | error e => rw [hm] at h; cases h
    | ok Pm =>
        rw [hm] at h
        simp only at h
        obtain ⟨m1, m2, m3, _⟩ := mkAff_ok hm
        obtain ⟨m4, m5⟩ := mkAff_nin hm
        have hpin : Pm.nin = A.nout := m4
        have hpout : Pm.nout = A.nout := by rw [m5, hn1]; simpa using hlen
        obtain ⟨hap, hbb⟩ := composeList_apply h (by
          intro M hM
          simp only [List.mem_cons, List.mem_nil_iff, or_false] at hM
          rcases hM with rfl | rfl
          · have := permMat_bottom hp
            constructor
            · intro j hj
              rw [m3, hpout, transposeMat, get_mkMat _ (by omega) (by omega),
                permMat_get ord (by omega) le_rfl, if_neg]
              rintro (⟨h, _⟩ | h)
              · omega
              · rw [List.getElem?_eq_none (by omega)] at h; cases h
            · rw [m3, hpout, hpin, transposeMat, get_mkMat _ (by omega) (by omega)]
              exact this.2
          · assumption)
        obtain ⟨p1, p2, _, _⟩ := composeList_pair_names h
        refine ⟨?_, p1, hbb, fun x => ?_⟩
        · rw [p2, m2]; exact hn1
        · rw [hap]
          simp only [List.foldr_cons, List.foldr_nil]
          apply List.ext_getElem
          · simp [apply_length, hpout, hlen]
          · intro i h1 h2
            have hi : i < A.nout := by simpa [apply_length, hpout] using h1
            have := permAffT_apply hp Pm hpin hpout m3 (A.apply x) hi
            simp only [List.getD_eq_getElem?_getD, List.getElem?_eq_getElem h1, Option.getD_some] at this
            rw [this]
            simp [List.getD_eq_getElem?_getD, List.getElem?_eq_getElem (show i < ord.length by omega)]


/-! ### `_product_affines` -/

theorem mkCS_ok {names : List String} {name : String} {dt : DType} {c : CoordSys}
    (h : mkCS names name dt = .ok c) : c = ⟨names, name, dt⟩ ∧ names.Nodup := by
  unfold mkCS at h
  split_ifs at h with hn
  injection h with h
  exact ⟨h.symm, hn⟩

theorem product_pair_ok {A B C : Aff} {i o : String} (h : product [A, B] i o = .ok C) :
    C.dom.names = A.dom.names ++ B.dom.names ∧ C.rng.names = A.rng.names ++ B.rng.names ∧
    C.dom.name = i ∧ C.rng.name = o ∧ C.aff = prodMat [A, B] := by
  unfold product at h
  simp only [List.flatMap_cons, List.flatMap_nil, List.append_nil] at h
  cases h1 : mkCS (A.dom.names ++ B.dom.names) i (joinAll (List.map Aff.dtype [A, B])) with
  | error e => rw [h1] at h; cases h
  | ok d =>
      rw [h1] at h
      simp only at h
      cases h2 : mkCS (A.rng.names ++ B.rng.names) o (joinAll (List.map Aff.dtype [A, B])) with
      | error e => rw [h2] at h; cases h
      | ok r =>
          rw [h2] at h
          simp only at h
          obtain ⟨m1, m2, m3, _⟩ := mkAff_ok h
          obtain ⟨d1, _⟩ := mkCS_ok h1
          obtain ⟨r1, _⟩ := mkCS_ok h2
          subst d1 r1
          simp [m1, m2, m3]

theorem product_pair_apply {A B C : Aff} {i o : String} (h : product [A, B] i o = .ok C)
    (x y : List Rat) (hx : x.length = A.nin) :
    C.apply (x ++ y) = A.apply x ++ B.apply y := by
  obtain ⟨p1, p2, _, _, p5⟩ := product_pair_ok h
  have hin : C.nin = A.nin + B.nin := by simp [Aff.nin, p1]
  have hout : C.nout = A.nout + B.nout := by simp [Aff.nout, p2]
  have hN : sumNat (List.map Aff.nout [A, B]) = A.nout + B.nout := by simp [sumNat]
  have hK : sumNat (List.map Aff.nin [A, B]) = A.nin + B.nin := by simp [sumNat]
  have hget : ∀ r c, r < A.nout + B.nout → c ≤ A.nin + B.nin →
      C.aff.get r c = if c = A.nin + B.nin then prodOff [A, B] r else prodLin [A, B] r c := by
    intro r c hr hc
    rw [p5, prodMat, hN, hK, get_mkMat _ (by omega) (by omega), if_neg (by omega)]
  have hxl : ∀ j, j < A.nin → (x ++ y).getD j 0 = x.getD j 0 := by
    intro j hj
    simp [List.getD_eq_getElem?_getD, List.getElem?_append_left (show j < x.length by omega)]
  have hyl : ∀ j, (x ++ y).getD (A.nin + j) 0 = y.getD j 0 := by
    intro j
    simp [List.getD_eq_getElem?_getD, List.getElem?_append_right (show x.length ≤ A.nin + j by omega), hx]
  unfold Aff.apply
  rw [hout, List.range_add, List.map_append, List.map_map]
  congr 1
  · apply List.map_congr_left
    intro r hr
    have hr' : r < A.nout := List.mem_range.mp hr
    rw [hin, hget r _ (by omega) le_rfl, if_pos rfl, sumTo_eq_sum, sumTo_eq_sum, Finset.sum_range_add]
    have e1 : ∀ j ∈ Finset.range A.nin, C.aff.get r j * (x ++ y).getD j 0 = A.aff.get r j * x.getD j 0 := by
      intro j hj
      have hj' := Finset.mem_range.mp hj
      rw [hget r j (by omega) (by omega), if_neg (by omega), hxl j hj']
      simp [prodLin, hr', hj']
    have e2 : ∀ j ∈ Finset.range B.nin, C.aff.get r (A.nin + j) * (x ++ y).getD (A.nin + j) 0 = 0 := by
      intro j hj
      have hj' := Finset.mem_range.mp hj
      rw [hget r _ (by omega) (by omega), if_neg (by omega)]
      simp [prodLin, hr']
    rw [Finset.sum_congr rfl e1, Finset.sum_eq_zero e2, add_zero]
    simp [prodOff, hr']
  · apply List.map_congr_left
    intro r hr
    have hr' : r < B.nout := List.mem_range.mp hr
    simp only [Function.comp]
    rw [hin, hget _ _ (by omega) le_rfl, if_pos rfl, sumTo_eq_sum, sumTo_eq_sum, Finset.sum_range_add]
    have e1 : ∀ j ∈ Finset.range A.nin, C.aff.get (A.nout + r) j * (x ++ y).getD j 0 = 0 := by
      intro j hj
      have hj' := Finset.mem_range.mp hj
      rw [hget _ j (by omega) (by omega), if_neg (by omega)]
      simp [prodLin, hj']
    have e2 : ∀ j ∈ Finset.range B.nin, C.aff.get (A.nout + r) (A.nin + j) * (x ++ y).getD (A.nin + j) 0
        = B.aff.get r j * y.getD j 0 := by
      intro j hj
      have hj' := Finset.mem_range.mp hj
      rw [hget _ _ (by omega) (by omega), if_neg (by omega), hyl j]
      simp [prodLin, hr', hj']
    rw [Finset.sum_eq_zero e1, Finset.sum_congr rfl e2, zero_add]
    simp [prodOff, hr']

theorem product_pair_bottom {A B C : Aff} {i o : String} (h : product [A, B] i o = .ok C) :
    C.bottomExact := by
  obtain ⟨p1, p2, _, _, p5⟩ := product_pair_ok h
  have hin : C.nin = A.nin + B.nin := by simp [Aff.nin, p1]
  have hout : C.nout = A.nout + B.nout := by simp [Aff.nout, p2]
  have hN : sumNat (List.map Aff.nout [A, B]) = A.nout + B.nout := by simp [sumNat]
  have hK : sumNat (List.map Aff.nin [A, B]) = A.nin + B.nin := by simp [sumNat]
  constructor
  · intro j hj
    rw [p5, prodMat, hN, hK, hout, get_mkMat _ (by omega) (by omega), if_pos rfl, if_neg (by omega)]
  · rw [p5, prodMat, hN, hK, hout, hin, get_mkMat _ (by omega) (by omega), if_pos rfl, if_pos rfl]


/-! ### identity-like maps, inverse, renaming -/

theorem id_apply (I : Aff) (n : Nat) (hin : I.nin = n) (hout : I.nout = n)
    (haff : ∀ i j, i < n → j ≤ n → I.aff.get i j = if i = j then 1 else 0)
    (x : List Rat) {j : Nat} (hj : j < n) : (I.apply x).getD j 0 = x.getD j 0 := by
  rw [apply_getD I x (by omega), hin, haff j n hj le_rfl, if_neg (by omega), add_zero, sumTo_eq_sum,
    Finset.sum_eq_single j]
  · rw [haff j j hj (le_of_lt hj), if_pos rfl, one_mul]
  · intro b hb hne
    rw [haff j b hj (le_of_lt (Finset.mem_range.mp hb)), if_neg (Ne.symm hne), zero_mul]
  · intro h; exact absurd (Finset.mem_range.mpr hj) h

theorem list_eq_of_getD {x y : List Rat} (hl : x.length = y.length)
    (h : ∀ j, j < y.length → x.getD j 0 = y.getD j 0) : x = y := by
  apply List.ext_getElem hl
  intro i h1 h2
  have := h i h2
  simpa [List.getD_eq_getElem?_getD, List.getElem?_eq_getElem h1, List.getElem?_eq_getElem h2] using this

theorem bottomExactB_iff {c : Mat} {nin nout : Nat} (h : bottomExactB c nin nout = true) :
    (∀ j, j < nin → c.get nout j = 0) ∧ c.get nout nin = 1 := by
  unfold bottomExactB at h
  rw [List.all_eq_true] at h
  constructor
  · intro j hj
    have := h j (List.mem_range.mpr (by omega))
    rw [beq_iff_eq, if_neg (by omega)] at this
    exact this
  · have := h nin (List.mem_range.mpr (by omega))
    rw [beq_iff_eq, if_pos rfl] at this
    exact this

theorem mul_get_of_eq_id {n : Nat} {a b : Mat} (h : Mat.mul n n n a b = idMat n) {i j : Nat}
    (hi : i < n) (hj : j < n) :
    (if i = j then (1 : Rat) else 0) = sumTo n fun l => a.get i l * b.get l j := by
  have h1 : (Mat.mul n n n a b).get i j = (idMat n).get i j := by rw [h]
  rw [Mat.mul, get_mkMat _ hi hj, idMat_get hi hj] at h1
  exact h1.symm

theorem certInv_some {A : Aff} {c : Mat} (h : certInv A = some c) :
    A.nin = A.nout ∧ Mat.mul (A.nin + 1) (A.nin + 1) (A.nin + 1) c A.aff = idMat (A.nin + 1) ∧
    Mat.mul (A.nin + 1) (A.nin + 1) (A.nin + 1) A.aff c = idMat (A.nin + 1) ∧
    bottomExactB c A.nout A.nin = true := by
  unfold certInv at h
  simp only at h
  by_cases hsq : A.nin ≠ A.nout
  · rw [if_pos hsq] at h; cases h
  · rw [if_neg hsq] at h
    cases hc : Option.map (fun c => mkMat (A.nin + 1) (A.nin + 1) c.get) (gaussInv A.aff (A.nin + 1)) with
    | none => rw [hc] at h; cases h
    | some c' =>
        rw [hc] at h
        simp only at h
        by_cases hchk : Mat.mul (A.nin + 1) (A.nin + 1) (A.nin + 1) c' A.aff = idMat (A.nin + 1) ∧
            Mat.mul (A.nin + 1) (A.nin + 1) (A.nin + 1) A.aff c' = idMat (A.nin + 1) ∧
            bottomExactB c' A.nout A.nin = true
        · rw [if_pos hchk] at h
          injection h with h
          subst h
          exact ⟨by omega, hchk.1, hchk.2.1, hchk.2.2⟩
        · rw [if_neg hchk] at h; cases h

/-- what `inverse A = some B` certifies -/
theorem inverse_ok {A B : Aff} (h : inverse A = .ok (some B)) :
    A.nin = A.nout ∧ B.nin = A.nout ∧ B.nout = A.nin ∧ B.dom.names = A.rng.names ∧
    B.rng.names = A.dom.names ∧ B.bottomExact ∧
    Mat.mul (A.nin + 1) (A.nin + 1) (A.nin + 1) B.aff A.aff = idMat (A.nin + 1) ∧
    Mat.mul (A.nin + 1) (A.nin + 1) (A.nin + 1) A.aff B.aff = idMat (A.nin + 1) := by
  unfold inverse at h
  cases hc : certInv A with
  | none =>
      rw [hc] at h
      simp only at h
      split_ifs at h <;> cases h
  | some c =>
      rw [hc] at h
      simp only at h
      obtain ⟨hsq', k1, k2, k3⟩ := certInv_some hc
      cases hm : mkAff A.rng A.dom c (invDType A.dtype) with
      | error e => rw [hm] at h; cases h
      | ok B' =>
          rw [hm] at h
          simp only [Except.ok.injEq, Option.some.injEq] at h
          subst h
          obtain ⟨m1, m2, m3, _⟩ := mkAff_ok hm
          obtain ⟨m4, m5⟩ := mkAff_nin hm
          have hb := bottomExactB_iff k3
          refine ⟨hsq', m4, m5, by simp [m1], by simp [m2], ?_, by rw [m3]; exact k1, by rw [m3]; exact k2⟩
          constructor
          · intro j hj
            rw [m3, m5]
            rw [m4] at hj
            exact hb.1 j hj
          · rw [m3, m5, m4]; exact hb.2

theorem inverse_left' {A B : Aff} (h : inverse A = .ok (some B)) (hA : A.bottomExact)
    (x : List Rat) (hx : x.length = A.nin) : B.apply (A.apply x) = x := by
  obtain ⟨h1, h2, h3, _, _, _, h7, _⟩ := inverse_ok h
  let I : Aff := ⟨A.dom, A.dom, idMat (A.nin + 1)⟩
  have hI : I.apply x = B.apply (A.apply x) := by
    apply apply_mul A B I h2 hA rfl h3.symm
    intro i j hi hj
    show (idMat (A.nin + 1)).get i j = _
    rw [idMat_get (by omega) (by omega), ← h1]
    exact mul_get_of_eq_id h7 (by omega) (by omega)
  rw [← hI]
  apply list_eq_of_getD (by rw [apply_length]; exact hx.symm)
  intro j hj
  exact id_apply I A.nin rfl rfl (fun i j hi hj => idMat_get (by omega) (by omega)) x (by omega)

theorem inverse_right' {A B : Aff} (h : inverse A = .ok (some B))
    (y : List Rat) (hy : y.length = A.nout) : A.apply (B.apply y) = y := by
  obtain ⟨h1, h2, h3, _, _, hB, _, h8⟩ := inverse_ok h
  let I : Aff := ⟨A.rng, A.rng, idMat (A.nin + 1)⟩
  have hI : I.apply y = A.apply (B.apply y) := by
    apply apply_mul B A I h3.symm hB (by show A.nout = B.nin; omega) rfl
    intro i j hi hj
    show (idMat (A.nin + 1)).get i j = _
    rw [idMat_get (by omega) (by omega), h3]
    exact mul_get_of_eq_id h8 (by omega) (by omega)
  rw [← hI]
  apply list_eq_of_getD (by rw [apply_length]; exact hy.symm)
  intro j hj
  exact id_apply I A.nout rfl rfl (fun i j hi hj => idMat_get (by omega) (by omega)) y (by omega)

theorem idAff_props {d r : CoordSys} {dt : DType} {I : Aff} (hlen : d.names.length = r.names.length)
    (h : mkAff d r (idMat (d.names.length + 1)) dt = .ok I) :
    I.bottomExact ∧ ∀ x j, j < I.nin → (I.apply x).getD j 0 = x.getD j 0 := by
  obtain ⟨_, _, h3, _⟩ := mkAff_ok h
  obtain ⟨h4, h5⟩ := mkAff_nin h
  refine ⟨⟨?_, ?_⟩, fun x j hj => ?_⟩
  · intro j hj
    rw [h3, h5, idMat_get (by omega) (by omega), if_neg (by omega)]
  · rw [h3, h5, h4, idMat_get (by omega) (by omega), if_pos (by omega)]
  · exact id_apply I d.names.length h4 (by omega)
      (fun i j hi hj => by rw [h3, idMat_get (by omega) (by omega)]) x (by omega)

theorem renameCS_ok {cs ncs : CoordSys} {kv : List (Key × String)} (h : renameCS cs kv = .ok ncs) :
    ∃ d, resolveKeys cs.names kv = .ok d ∧ (∀ p ∈ d, p.1 ∈ cs.names) ∧
      ncs.names = cs.names.map (fun n => (lookupLast d n).getD n) ∧ ncs.name = cs.name ∧
      ncs.dtype = cs.dtype := by
  unfold renameCS at h
  cases hr : resolveKeys cs.names kv with
  | error e => rw [hr] at h; cases h
  | ok d =>
      rw [hr] at h
      simp only at h
      split_ifs at h with hany
      obtain ⟨rfl, _⟩ := mkCS_ok h
      refine ⟨d, rfl, ?_, rfl, rfl, rfl⟩
      intro p hp
      by_contra hc
      apply hany
      rw [List.any_eq_true]
      exact ⟨p, hp, by simpa using hc⟩

theorem renamedDomain_apply' {A B : Aff} {kv : List (Key × String)} (hA : A.bottomExact)
    (h : renamedDomain A kv = .ok B) :
    (∃ ncs, renameCS A.dom kv = .ok ncs ∧ B.dom.names = ncs.names) ∧ B.rng.names = A.rng.names ∧
    B.bottomExact ∧ ∀ x, B.apply x = A.apply x := by
  unfold renamedDomain at h
  cases hr : renameCS A.dom kv with
  | error e => rw [hr] at h; cases h
  | ok ncs =>
      rw [hr] at h
      simp only at h
      obtain ⟨d, _, _, hn, _, _⟩ := renameCS_ok hr
      have hlen : ncs.names.length = A.dom.names.length := by rw [hn]; simp
      cases hm : mkAff ncs A.dom (idMat (A.nin + 1)) A.dom.dtype with
      | error e => rw [hm] at h; cases h
      | ok I =>
          rw [hm] at h
          simp only at h
          have hm' : mkAff ncs A.dom (idMat (ncs.names.length + 1)) A.dom.dtype = .ok I := by
            rw [hlen]; exact hm
          obtain ⟨hIb, hIa⟩ := idAff_props hlen hm'
          obtain ⟨m1, _, _, _⟩ := mkAff_ok hm
          have hIn : I.nin = A.nin := by rw [(mkAff_nin hm).1, hlen]; rfl
          obtain ⟨hap, hbb⟩ := composeList_apply h (by
            intro M hM
            simp only [List.mem_cons, List.mem_nil_iff, or_false] at hM
            rcases hM with rfl | rfl <;> assumption)
          obtain ⟨p1, p2, _, _⟩ := composeList_pair_names h
          refine ⟨⟨ncs, rfl, by rw [p1, m1]⟩, p2, hbb, fun x => ?_⟩
          rw [hap]
          simp only [List.foldr_cons, List.foldr_nil]
          exact apply_congr_x A _ _ (fun j hj => hIa x j (by omega))

theorem renamedRange_apply' {A B : Aff} {kv : List (Key × String)} (hA : A.bottomExact)
    (h : renamedRange A kv = .ok B) :
    (∃ ncs, renameCS A.rng kv = .ok ncs ∧ B.rng.names = ncs.names) ∧ B.dom.names = A.dom.names ∧
    B.bottomExact ∧ ∀ x, B.apply x = A.apply x := by
  unfold renamedRange at h
  cases hr : renameCS A.rng kv with
  | error e => rw [hr] at h; cases h
  | ok ncs =>
      rw [hr] at h
      simp only at h
      obtain ⟨d, _, _, hn, _, _⟩ := renameCS_ok hr
      have hlen : A.rng.names.length = ncs.names.length := by rw [hn]; simp
      cases hm : mkAff A.rng ncs (idMat (A.nout + 1)) A.rng.dtype with
      | error e => rw [hm] at h; cases h
      | ok I =>
          rw [hm] at h
          simp only at h
          obtain ⟨hIb, hIa⟩ := idAff_props hlen hm
          obtain ⟨_, m2, _, _⟩ := mkAff_ok hm
          have hIn : I.nin = A.nout := (mkAff_nin hm).1
          have hIo : I.nout = A.nout := by rw [(mkAff_nin hm).2, ← hlen]; rfl
          obtain ⟨hap, hbb⟩ := composeList_apply h (by
            intro M hM
            simp only [List.mem_cons, List.mem_nil_iff, or_false] at hM
            rcases hM with rfl | rfl <;> assumption)
          obtain ⟨p1, p2, _, _⟩ := composeList_pair_names h
          refine ⟨⟨ncs, rfl, by rw [p2, m2]⟩, p1, hbb, fun x => ?_⟩
          rw [hap]
          simp only [List.foldr_cons, List.foldr_nil]
          apply list_eq_of_getD (by rw [apply_length, apply_length, hIo])
          intro j hj
          rw [apply_length] at hj
          exact hIa (A.apply x) j (by omega)


/-! ### origin shifts, append / drop -/

theorem shiftMat_get {n : Nat} (d : List Rat) {i j : Nat} (hi : i ≤ n) (hj : j ≤ n) :
    (shiftMat n d).get i j = if i = j then 1 else if j = n ∧ i < n then d.getD i 0 else 0 := by
  rw [shiftMat, get_mkMat _ (by omega) (by omega)]

theorem shiftAff_props (S : Aff) (n : Nat) (hin : S.nin = n) (hout : S.nout = n) (d : List Rat)
    (haff : S.aff = shiftMat n d) :
    S.bottomExact ∧ ∀ x j, j < n → (S.apply x).getD j 0 = x.getD j 0 + d.getD j 0 := by
  refine ⟨⟨?_, ?_⟩, fun x j hj => ?_⟩
  · intro j hj
    rw [haff, hout, shiftMat_get d le_rfl (by omega), if_neg (by omega), if_neg (by omega)]
  · rw [haff, hout, hin, shiftMat_get d le_rfl le_rfl, if_pos rfl]
  · rw [apply_getD S x (by omega), hin, haff, shiftMat_get d (le_of_lt hj) le_rfl, if_neg (by omega),
      if_pos ⟨rfl, hj⟩, sumTo_eq_sum, Finset.sum_eq_single j]
    · rw [shiftMat_get d (le_of_lt hj) (le_of_lt hj), if_pos rfl, one_mul]
    · intro b hb hne
      have hb' := Finset.mem_range.mp hb
      rw [shiftMat_get d (le_of_lt hj) (le_of_lt hb'), if_neg (Ne.symm hne), if_neg (by omega), zero_mul]
    · intro h; exact absurd (Finset.mem_range.mpr hj) h

theorem shiftedDomain_apply' {A B : Aff} {diff : List Rat} {nm : String} (hA : A.bottomExact)
    (h : shiftedDomainOrigin A diff nm = .ok B) :
    ∃ d, bcastInto A.nin A.dom.dtype diff = .ok d ∧ B.dom.name = nm ∧ B.dom.names = A.dom.names ∧
      B.rng.names = A.rng.names ∧ B.bottomExact ∧
      ∀ x, B.apply x = A.apply ((List.range A.nin).map fun i => x.getD i 0 + d.getD i 0) := by
  unfold shiftedDomainOrigin at h
  cases hc : mkCS A.dom.names nm A.dom.dtype with
  | error e => rw [hc] at h; cases h
  | ok ncs =>
      rw [hc] at h
      simp only at h
      obtain ⟨rfl, _⟩ := mkCS_ok hc
      cases hb : bcastInto A.nin A.dom.dtype diff with
      | error e => rw [hb] at h; cases h
      | ok d =>
          rw [hb] at h
          simp only at h
          cases hm : mkAff ⟨A.dom.names, nm, A.dom.dtype⟩ A.dom (shiftMat A.nin d) A.dom.dtype with
          | error e => rw [hm] at h; cases h
          | ok S =>
              rw [hm] at h
              simp only at h
              obtain ⟨m1, _, m3, _⟩ := mkAff_ok hm
              obtain ⟨m4, m5⟩ := mkAff_nin hm
              obtain ⟨hSb, hSa⟩ := shiftAff_props S A.nin m4 m5 d m3
              obtain ⟨hap, hbb⟩ := composeList_apply h (by
                intro M hM
                simp only [List.mem_cons, List.mem_nil_iff, or_false] at hM
                rcases hM with rfl | rfl <;> assumption)
              obtain ⟨p1, p2, p3, _⟩ := composeList_pair_names h
              refine ⟨d, rfl, by rw [p3, m1], by rw [p1, m1], p2, hbb, fun x => ?_⟩
              rw [hap]
              simp only [List.foldr_cons, List.foldr_nil]
              apply apply_congr_x
              intro j hj
              rw [hSa x j hj, getD_map_range _ hj]

theorem shiftedRange_apply' {A B : Aff} {diff : List Rat} {nm : String} (hA : A.bottomExact)
    (h : shiftedRangeOrigin A diff nm = .ok B) :
    ∃ d, bcastInto A.nout A.rng.dtype (diff.map fun q => -q) = .ok d ∧ B.rng.name = nm ∧
      B.dom.names = A.dom.names ∧ B.rng.names = A.rng.names ∧ B.bottomExact ∧
      ∀ x, B.apply x = (List.range A.nout).map fun i => (A.apply x).getD i 0 + d.getD i 0 := by
  unfold shiftedRangeOrigin at h
  cases hc : mkCS A.rng.names nm A.rng.dtype with
  | error e => rw [hc] at h; cases h
  | ok ncs =>
      rw [hc] at h
      simp only at h
      obtain ⟨rfl, _⟩ := mkCS_ok hc
      cases hb : bcastInto A.nout A.rng.dtype (diff.map fun q => -q) with
      | error e => rw [hb] at h; cases h
      | ok d =>
          rw [hb] at h
          simp only at h
          cases hm : mkAff A.rng ⟨A.rng.names, nm, A.rng.dtype⟩ (shiftMat A.nout d) A.rng.dtype with
          | error e => rw [hm] at h; cases h
          | ok S =>
              rw [hm] at h
              simp only at h
              obtain ⟨_, m2, m3, _⟩ := mkAff_ok hm
              obtain ⟨m4, m5⟩ := mkAff_nin hm
              obtain ⟨hSb, hSa⟩ := shiftAff_props S A.nout m4 m5 d m3
              obtain ⟨hap, hbb⟩ := composeList_apply h (by
                intro M hM
                simp only [List.mem_cons, List.mem_nil_iff, or_false] at hM
                rcases hM with rfl | rfl <;> assumption)
              obtain ⟨p1, p2, _, p4⟩ := composeList_pair_names h
              refine ⟨d, rfl, by rw [p4, m2], p1, by rw [p2, m2], hbb, fun x => ?_⟩
              rw [hap]
              simp only [List.foldr_cons, List.foldr_nil]
              apply list_eq_of_getD (by simp [apply_length]; exact m5)
              intro j hj
              simp only [List.length_map, List.length_range] at hj
              rw [hSa _ j hj, getD_map_range _ hj]

theorem appendIoDim_apply' {A B : Aff} {i o : String} {start step : Rat} {mdt : DType}
    (h : appendIoDim A i o start step mdt = .ok B) (x : List Rat) (t : Rat) (hx : x.length = A.nin) :
    B.apply (x ++ [t]) = A.apply x ++ [step * t + start] ∧
    B.dom.names = A.dom.names ++ [i] ∧ B.rng.names = A.rng.names ++ [o] ∧ B.bottomExact := by
  unfold appendIoDim at h
  cases hm : mkAff ⟨[i], "", .f8⟩ ⟨[o], "", .f8⟩ [[step, start], [0, 1]] mdt with
  | error e => rw [hm] at h; cases h
  | ok E =>
      rw [hm] at h
      simp only at h
      obtain ⟨m1, m2, m3, _⟩ := mkAff_ok hm
      obtain ⟨p1, p2, _, _, _⟩ := product_pair_ok h
      refine ⟨?_, by rw [p1, m1], by rw [p2, m2], product_pair_bottom h⟩
      rw [product_pair_apply h x [t] hx]
      congr 1
      simp [Aff.apply, Aff.nin, Aff.nout, m1, m2, m3, sumTo, Mat.get]

theorem dropIoDim_refuses' {A : Aff} {ax : Key} {fz : Bool} {ornts : List (Option Nat)} {i o : Nat}
    (hio : ioAxisIndices A ax ornts = .ok (some i, some o))
    (horth : orthAxes A.aff A.nout A.nin i o fz = false) :
    dropIoDim A ax fz ornts = .error .axisError := by
  unfold dropIoDim
  rw [hio]
  simp [horth]


theorem shapeOK_mkMat {R C r c : Nat} (f : Nat → Nat → Rat) (hR : 0 < R)
    (h : shapeOK (mkMat R C f) r c = true) : R = r ∧ C = c := by
  unfold shapeOK mkMat at h
  simp only [List.length_map, List.length_range, Bool.and_eq_true, beq_iff_eq, List.all_eq_true,
    List.mem_map, List.mem_range, forall_exists_index, and_imp, forall_apply_eq_imp_iff₂] at h
  exact ⟨h.1, h.2 0 hR⟩

end NipyVerif.C01
