/-
C16 — helper lemmas for the property theorems in `NipyVerif.Props.C16`.
-/
import NipyVerif.Model.C16
import Mathlib.Tactic.Ring
import Mathlib.Tactic.Linarith
import Mathlib.Data.List.Perm.Basic
import Mathlib.Data.List.Sort

namespace NipyVerif.C16

theorem sumTo_congr (n : Nat) (f g : Nat → Rat) (h : ∀ l, l < n → f l = g l) : sumTo n f = sumTo n g := by
  induction n with
  | zero => rfl
  | succ n ih =>
      simp only [sumTo]
      rw [ih (fun l hl => h l (Nat.lt_succ_of_lt hl)), h n (Nat.lt_succ_self n)]


/-! ### permutations -/

theorem permAux_perm : ∀ (nc : Nat) (rest : List Nat) (m : Nat), rest.length = nc →
    (permAux nc rest m).Perm rest
  | 0, rest, m, h => by
      have : rest = [] := List.length_eq_zero_iff.mp h
      subst this; simp [permAux]
  | nc + 1, rest, m, h => by
      have hk : m % (nc + 1) < rest.length := by rw [h]; exact Nat.mod_lt _ (Nat.succ_pos _)
      have hlen : (rest.eraseIdx (m % (nc + 1))).length = nc := by
        rw [List.length_eraseIdx_of_lt hk]; omega
      have ih := permAux_perm nc (rest.eraseIdx (m % (nc + 1))) (m / (nc + 1)) hlen
      simp only [permAux]
      have hget : rest.getD (m % (nc + 1)) 0 = rest[m % (nc + 1)] := by
        simp [List.getD_eq_getElem?_getD, hk]
      rw [hget]
      exact (List.Perm.cons _ ih).trans (List.getElem_cons_eraseIdx_perm hk)

/-! ### insertion sort -/

theorem insertLe_perm (v : Rat) : ∀ l : List Rat, (insertLe v l).Perm (v :: l)
  | [] => by simp [insertLe]
  | a :: l => by
      simp only [insertLe]
      split_ifs
      · exact List.Perm.refl _
      · exact ((insertLe_perm v l).cons a).trans (List.Perm.swap v a l)

theorem sortLe_perm : ∀ x : List Rat, (sortLe x).Perm x
  | [] => by simp [sortLe]
  | a :: l => by
      have : sortLe (a :: l) = insertLe a (sortLe l) := rfl
      rw [this]
      exact (insertLe_perm a _).trans ((sortLe_perm l).cons a)

theorem insertLe_sorted (v : Rat) : ∀ l : List Rat, l.Pairwise (· ≤ ·) → (insertLe v l).Pairwise (· ≤ ·)
  | [], _ => by simp [insertLe]
  | a :: l, h => by
      simp only [insertLe]
      split_ifs with hva
      · refine List.Pairwise.cons ?_ h
        intro b hb
        rcases List.mem_cons.mp hb with rfl | hb
        · exact hva
        · exact le_trans hva (List.rel_of_pairwise_cons h hb)
      · have hav : a ≤ v := le_of_lt (not_le.mp hva)
        refine List.Pairwise.cons ?_ (insertLe_sorted v l (List.Pairwise.of_cons h))
        intro b hb
        have := (insertLe_perm v l).subset hb
        rcases List.mem_cons.mp this with rfl | hb'
        · exact hav
        · exact List.rel_of_pairwise_cons h hb'

theorem sortLe_sorted : ∀ x : List Rat, (sortLe x).Pairwise (· ≤ ·)
  | [] => by simp [sortLe]
  | a :: l => by
      have : sortLe (a :: l) = insertLe a (sortLe l) := rfl
      rw [this]
      exact insertLe_sorted a _ (sortLe_sorted l)

theorem sortLe_eq_of_perm {x y : List Rat} (h : x.Perm y) : sortLe x = sortLe y := by
  apply List.Perm.eq_of_pairwise (le := (· ≤ ·))
  · intro a b _ _ hab hba; exact le_antisymm hab hba
  · exact sortLe_sorted x
  · exact sortLe_sorted y
  · exact ((sortLe_perm x).trans h).trans (sortLe_perm y).symm

/-! ### all-but-axis iteration -/

theorem flatMap_cons_perm {α β} (l : List α) (g : α → β) (h : α → List β) :
    (l.flatMap (fun b => g b :: h b)).Perm (l.map g ++ l.flatMap h) := by
  induction l with
  | nil => simp
  | cons a l ih =>
      simp only [List.flatMap_cons, List.map_cons, List.cons_append]
      refine List.Perm.cons _ ?_
      refine (List.Perm.append_left _ ih).trans ?_
      simp only [← List.append_assoc]
      exact List.Perm.append_right _ List.perm_append_comm

theorem flatMap_swap_perm {α β γ} (l₁ : List α) (l₂ : List β) (f : α → β → γ) :
    (l₁.flatMap (fun a => l₂.map (fun b => f a b))).Perm (l₂.flatMap (fun b => l₁.map (fun a => f a b))) := by
  induction l₁ with
  | nil => simp
  | cons a l₁ ih =>
      simp only [List.flatMap_cons, List.map_cons]
      exact (List.Perm.append_left _ ih).trans (flatMap_cons_perm l₂ (fun b => f a b) (fun b => l₁.map (fun a => f a b))).symm

theorem visited_perm : ∀ (dims : List Nat) (axis : Nat), axis < dims.length →
    (visited dims axis).Perm (allIdx dims)
  | [], axis, h => by simp at h
  | d :: ds, 0, _ => by
      have : visited (d :: ds) 0 = (allIdx ds).flatMap (fun t => (List.range d).map (fun k => k :: t)) := by
        simp [visited, fibreBases, fibre, allIdx, List.flatMap_map]
      rw [this]
      exact flatMap_swap_perm (allIdx ds) (List.range d) (fun t k => k :: t)
  | d :: ds, a + 1, h => by
      have ih := visited_perm ds a (by simpa using h)
      have : visited (d :: ds) (a + 1) = (List.range d).flatMap (fun i => (visited ds a).map (fun t => i :: t)) := by
        simp [visited, fibreBases, fibre, allIdx, List.flatMap_map, List.flatMap_assoc, List.map_flatMap, Function.comp_def]
      rw [this]
      simp only [allIdx]
      exact List.Perm.flatMap_left _ (fun i _ => ih.map _)


theorem mem_allIdx_length : ∀ (dims : List Nat) (t : List Nat), t ∈ allIdx dims → t.length = dims.length
  | [], t, h => by simp [allIdx] at h; simp [h]
  | d :: ds, t, h => by
      simp only [allIdx, List.mem_flatMap, List.mem_map] at h
      obtain ⟨i, _, u, hu, rfl⟩ := h
      simp [mem_allIdx_length ds u hu]

theorem mem_bases_zero : ∀ (dims : List Nat) (axis : Nat) (t : List Nat), axis < dims.length →
    t ∈ allIdx (dims.set axis 1) → t.getD axis 0 = 0
  | [], _, _, h, _ => by simp at h
  | d :: ds, 0, t, _, ht => by
      simp only [List.set_cons_zero, allIdx, List.mem_flatMap, List.mem_map, List.mem_range] at ht
      obtain ⟨i, hi, u, _, rfl⟩ := ht
      simp; omega
  | d :: ds, a + 1, t, h, ht => by
      simp only [List.set_cons_succ, allIdx, List.mem_flatMap, List.mem_map] at ht
      obtain ⟨i, _, u, hu, rfl⟩ := ht
      have := mem_bases_zero ds a u (by simpa using h) hu
      simpa using this

theorem offsetOf_set : ∀ (strides : List Int) (b : List Nat) (axis k : Nat),
    b.length = strides.length → axis < b.length → b.getD axis 0 = 0 →
    offsetOf strides (b.set axis k) = offsetOf strides b + strides.getD axis 0 * (k : Int)
  | [], [], _, _, _, h, _ => by simp at h
  | [], _ :: _, _, _, h, _, _ => by simp at h
  | _ :: _, [], _, _, h, _, _ => by simp at h
  | s :: ss, i :: is, 0, k, _, _, h0 => by
      have : i = 0 := by simpa using h0
      subst this
      simp [offsetOf]; ring
  | s :: ss, i :: is, a + 1, k, hl, ha, h0 => by
      have := offsetOf_set ss is a k (by simpa using hl) (by simpa using ha) (by simpa using h0)
      simp only [List.set_cons_succ, offsetOf, this]
      simp; ring

end NipyVerif.C16
