/-
C16 — helper lemmas for the property theorems in `NipyVerif.Props.C16`.
-/
import NipyVerif.Model.C16
import Mathlib.Tactic.Ring
import Mathlib.Tactic.Linarith
import Mathlib.Data.List.Perm.Basic
import Mathlib.Data.List.Sort

namespace NipyVerif.C16

theorem sumTo_congr (n : Nat) (f g : Nat → Rat) (h : ∀ l, l < n → f l = g l) : sumTo n f = sumTo n g := by
  induction n with
  | zero => rfl
  | succ n ih =>
      simp only [sumTo]
      rw [ih (fun l hl => h l (Nat.lt_succ_of_lt hl)), h n (Nat.lt_succ_self n)]


/-! ### permutations -/

theorem permAux_perm : ∀ (nc : Nat) (rest : List Nat) (m : Nat), rest.length = nc →
    (permAux nc rest m).Perm rest
  | 0, rest, m, h => by
      have : rest = [] := List.length_eq_zero_iff.mp h
      subst this; simp [permAux]
  | nc + 1, rest, m, h => by
      have hk : m % (nc + 1) < rest.length := by rw [h]; exact Nat.mod_lt _ (Nat.succ_pos _)
      have hlen : (rest.eraseIdx (m % (nc + 1))).length = nc := by
        rw [List.length_eraseIdx_of_lt hk]; omega
      have ih := permAux_perm nc (rest.eraseIdx (m % (nc + 1))) (m / (nc + 1)) hlen
      simp only [permAux]
      have hget : rest.getD (m % (nc + 1)) 0 = rest[m % (nc + 1)] := by
        simp [List.getD_eq_getElem?_getD, hk]
      rw [hget]
      exact (List.Perm.cons _ ih).trans (List.getElem_cons_eraseIdx_perm hk)

/-! ### insertion sort -/

theorem insertLe_perm (v : Rat) : ∀ l : List Rat, (insertLe v l).Perm (v :: l)
  | [] => by simp [insertLe]
  | a :: l => by
      simp only [insertLe]
      split_ifs
      · exact List.Perm.refl _
      · exact ((insertLe_perm v l).cons a).trans (List.Perm.swap v a l)

theorem sortLe_perm : ∀ x : List Rat, (sortLe x).Perm x
  | [] => by simp [sortLe]
  | a :: l => by
      have : sortLe (a :: l) = insertLe a (sortLe l) := rfl
      rw [this]
      exact (insertLe_perm a _).trans ((sortLe_perm l).cons a)

theorem insertLe_sorted (v : Rat) : ∀ l : List Rat, l.Pairwise (· ≤ ·) → (insertLe v l).Pairwise (· ≤ ·)
  | [], _ => by simp [insertLe]
  | a :: l, h => by
      simp only [insertLe]
      split_ifs with hva
      · refine List.Pairwise.cons ?_ h
        intro b hb
        rcases List.mem_cons.mp hb with rfl | hb
        · exact hva
        · exact le_trans hva (List.rel_of_pairwise_cons h hb)
      · have hav : a ≤ v := le_of_lt (not_le.mp hva)
        refine List.Pairwise.cons ?_ (insertLe_sorted v l (List.Pairwise.of_cons h))
        intro b hb
        have := (insertLe_perm v l).subset hb
        rcases List.mem_cons.mp this with rfl | hb'
        · exact hav
        · exact List.rel_of_pairwise_cons h hb'

theorem sortLe_sorted : ∀ x : List Rat, (sortLe x).Pairwise (· ≤ ·)
  | [] => by simp [sortLe]
  | a :: l => by
      have : sortLe (a :: l) = insertLe a (sortLe l) := rfl
      rw [this]
      exact insertLe_sorted a _ (sortLe_sorted l)

theorem sortLe_eq_of_perm {x y : List Rat} (h : x.Perm y) : sortLe x = sortLe y := by
  apply List.Perm.eq_of_pairwise (le := (· ≤ ·))
  · intro a b _ _ hab hba; exact le_antisymm hab hba
  · exact sortLe_sorted x
  · exact sortLe_sorted y
  · exact ((sortLe_perm x).trans h).trans (sortLe_perm y).symm

end NipyVerif.C16
