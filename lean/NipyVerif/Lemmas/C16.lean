/-
C16 — helper lemmas for the property theorems in `NipyVerif.Props.C16`.
-/
import NipyVerif.Model.C16
import Mathlib.Tactic.Ring
import Mathlib.Tactic.Linarith
import Mathlib.Data.List.Perm.Basic
import Mathlib.Data.List.Sort

namespace NipyVerif.C16

theorem sumTo_congr (n : Nat) (f g : Nat → Rat) (h : ∀ l, l < n → f l = g l) : sumTo n f = sumTo n g := by
  induction n with
  | zero => rfl
  | succ n ih =>
      simp only [sumTo]
      rw [ih (fun l hl => h l (Nat.lt_succ_of_lt hl)), h n (Nat.lt_succ_self n)]

end NipyVerif.C16
