/-
C14 — proof-side vocabulary shared by the dendrogram theorems (`Lemmas/C14Skel`, `Lemmas/C14Cut`,
`Props/C14B`, `Props/C14C`, `Props/C14D`): constraint graphs, reachable agglomeration states,
proper dendrograms, height conditions.  No theorems here beyond unfolding lemmas.
-/
import NipyVerif.Model.C14
import Mathlib.Logic.Relation
import Mathlib.Data.Finset.Card
import Mathlib.Data.Finset.Image

namespace NipyVerif.C14

/-! ### constraint graph on the items `0..n-1` -/

/-- the constraint edges join distinct items -/
def GoodEdges (n : Nat) (E : List (Nat × Nat)) : Prop :=
  ∀ e ∈ E, e.1 < n ∧ e.2 < n ∧ e.1 ≠ e.2

/-- adjacency in the (undirected) constraint graph -/
def Adj (E : List (Nat × Nat)) (a b : Nat) : Prop := (a, b) ∈ E ∨ (b, a) ∈ E

/-- `a` and `b` are in the same connected component of the constraint graph -/
def Conn (E : List (Nat × Nat)) : Nat → Nat → Prop := Relation.ReflTransGen (Adj E)

/-- `a` and `b` are joined by a path of the constraint graph that stays inside the set `S` -/
def ConnIn (E : List (Nat × Nat)) (S : Nat → Prop) : Nat → Nat → Prop :=
  Relation.ReflTransGen (fun x y => S x ∧ S y ∧ Adj E x y)

/-! ### agglomeration states -/

/-- states of the skeleton reachable from the `n` items and the constraint edges `E` by merging,
    at every step, two clusters joined by a live edge (whatever rule picks the edge) -/
inductive Reach (n : Nat) (E : List (Nat × Nat)) : Skel → Prop
  | init : Reach n E (skelInit n E)
  | step {s : Skel} {i j : Nat} : Reach n E s → s.adm i j = true → Reach n E (s.step i j)

/-- current root (cluster) of node `v` -/
def Skel.rep (n : Nat) (s : Skel) (v : Nat) : Nat := repFrom n s.ms v

/-! ### dendrograms given by a `parents` list -/

/-- parent of `v` (`v` itself for a root or out of range) -/
def parFn (par : List Nat) (v : Nat) : Nat := par.getD v v

/-- `v` is `a` or an ancestor of `a` -/
def Below (par : List Nat) : Nat → Nat → Prop :=
  Relation.ReflTransGen (fun x y => parFn par x = y ∧ x ≠ y)

/-- children of node `k` -/
def childrenOf (par : List Nat) (k : Nat) : List Nat :=
  (List.range par.length).filter (fun v => decide (v ≠ k ∧ parFn par v = k))

/-- "a forest with the input items as leaves, one binary merge per non-leaf": nodes are numbered
    so that parents come after their children, the `n` items are nobody's parent, every other node
    has exactly two children -/
structure Dendro (n : Nat) (par : List Nat) : Prop where
  n_le : n ≤ par.length
  up : ∀ v, v < par.length → parFn par v = v ∨ (v < parFn par v ∧ parFn par v < par.length)
  internal : ∀ v, v < par.length → parFn par v ≠ v → n ≤ parFn par v
  two : ∀ k, n ≤ k → k < par.length → (childrenOf par k).length = 2

/-- "non-decreasing heights from children to parents" -/
def MonoH (par : List Nat) (h : List Rat) : Prop :=
  h.length = par.length ∧ ∀ v, v < par.length → h.getD v 0 ≤ h.getD (parFn par v) 0

/-- no item is higher than a merge -/
def LeafLow (n : Nat) (par : List Nat) (h : List Rat) : Prop :=
  ∀ v k, v < n → n ≤ k → k < par.length → h.getD v 0 ≤ h.getD k 0

/-- a set of nodes closed under taking parents -/
def UpClosed (par : List Nat) (R : Nat → Prop) : Prop := ∀ v, R v → R (parFn par v)

/-- number of distinct labels -/
def nbLabels (l : List Nat) : Nat := l.toFinset.card

end NipyVerif.C14
