/- Helper lemmas tying the flat-index loops `lips?dLoop` (the code as written) to
   the grid-point sums `lipsMu*` (C15): strides, unravelling of flat indices,
   `_convert_stride*`, `sorted(verts)`, the Gram matrix `D`, one table row. -/
import NipyVerif.Lemmas.C15Lips

namespace NipyVerif.C15

/-! ### strides, sorting, flat indices -/

theorem cStrides3 (a b c : Nat) : cStrides [a, b, c] = [c * b, c, 1] := by
  simp [cStrides, cumprod]

theorem cStrides2 (a b : Nat) : cStrides [a, b] = [b, 1] := by
  simp [cStrides, cumprod]

theorem sortNat_of_sorted (l : List Nat) (h : l.Pairwise (· ≤ ·)) : sortNat l = l := by
  induction l with
  | nil => rfl
  | cons a l ih =>
      have hl := (List.pairwise_cons.mp h)
      have : sortNat (a :: l) = insertNat a (sortNat l) := rfl
      rw [this, ih hl.2]
      cases l with
      | nil => rfl
      | cons b l' =>
          have : a ≤ b := hl.1 b (List.mem_cons_self)
          simp [insertNat, this]

theorem div_mul_add (P a r : Nat) (hr : r < P) : (a * P + r) / P = a := by
  have hP : 0 < P := by omega
  rw [Nat.add_comm, Nat.add_mul_div_right _ _ hP, Nat.div_eq_of_lt hr, Nat.zero_add]

theorem mod_mul_add (P a r : Nat) (hr : r < P) : (a * P + r) % P = r := by
  rw [Nat.add_comm, Nat.add_mul_mod_self_right, Nat.mod_eq_of_lt hr]

/-- unravelling a flat index of a C-ordered array with trailing extents `s1, s2` -/
theorem unravel3 (A B C s1 s2 : Nat) (hB : B < s1) (hC : C < s2) :
    (A * (s2 * s1) + B * s2 + C) / (s1 * s2) = A ∧
    ((A * (s2 * s1) + B * s2 + C) / s2) % s1 = B ∧
    (A * (s2 * s1) + B * s2 + C) % s2 = C := by
  have e : A * (s2 * s1) + B * s2 + C = (A * s1 + B) * s2 + C := by ring
  have h1 : (A * (s2 * s1) + B * s2 + C) / s2 = A * s1 + B := by rw [e]; exact div_mul_add s2 _ C hC
  refine ⟨?_, ?_, ?_⟩
  · rw [Nat.mul_comm s1 s2, ← Nat.div_div_eq_div_mul, h1]
    exact div_mul_add s1 A B hB
  · rw [h1]; exact mod_mul_add s1 A B hB
  · rw [e]; exact mod_mul_add s2 _ C hC

theorem unravel2 (A B s1 : Nat) (hB : B < s1) : (A * s1 + B) / s1 = A ∧ (A * s1 + B) % s1 = B :=
  ⟨div_mul_add s1 A B hB, mod_mul_add s1 A B hB⟩

theorem flat_lt (A B C n0 n1 n2 : Nat) (hA : A < n0) (hB : B < n1) (hC : C < n2) :
    (A * n1 + B) * n2 + C < n0 * n1 * n2 := by
  have h1 : A * n1 + B + 1 ≤ n0 * n1 := by
    have : (A + 1) * n1 ≤ n0 * n1 := Nat.mul_le_mul_right _ hA
    have e : (A + 1) * n1 = A * n1 + n1 := by ring
    omega
  have h2 : (A * n1 + B + 1) * n2 ≤ n0 * n1 * n2 := Nat.mul_le_mul_right _ h1
  have e : (A * n1 + B + 1) * n2 = (A * n1 + B) * n2 + n2 := by ring
  omega

/-- a corner of the unit cube -/
def Corner (v : Pt) : Prop := v.1 ≤ 1 ∧ v.2.1 ≤ 1 ∧ v.2.2 ≤ 1

theorem table_corners (d k : Nat) (hd : d = 1 ∨ d = 2 ∨ d = 3) (hk : k = 2 ∨ k = 3 ∨ k = 4) :
    ∀ s ∈ table d k, s.length = k ∧ ∀ v ∈ s, Corner v := by
  have key : ((table d k).all (fun s => s.length == k &&
      s.all (fun v => decide (v.1 ≤ 1) && decide (v.2.1 ≤ 1) && decide (v.2.2 ≤ 1)))) = true := by
    rcases hd with rfl | rfl | rfl <;> rcases hk with rfl | rfl | rfl <;> decide +kernel
  intro s hs
  have := (List.all_eq_true.mp key) s hs
  simp only [Bool.and_eq_true, beq_iff_eq, List.all_eq_true, decide_eq_true_eq] at this
  exact ⟨this.1, fun v hv => ⟨(this.2 v hv).1.1, (this.2 v hv).1.2, (this.2 v hv).2⟩⟩

/-- in the plane `k = 0` (2-d tables) -/
theorem table2_planar (k : Nat) (hk : k = 2 ∨ k = 3 ∨ k = 4) : ∀ s ∈ table 2 k, ∀ v ∈ s, v.2.2 = 0 := by
  have key : ((table 2 k).all (fun s => s.all (fun v => decide (v.2.2 = 0)))) = true := by
    rcases hk with rfl | rfl | rfl <;> decide +kernel
  intro s hs v hv
  have := (List.all_eq_true.mp key) s hs
  simp only [List.all_eq_true, decide_eq_true_eq] at this
  exact this v hv

/-- `_convert_stride3` of the padded-mask offset of a cube corner is its `D` index `4a+2b+c` -/
theorem convert3_corner (s1 s2 : Nat) (h1 : 2 ≤ s1) (h2 : 2 ≤ s2) (v : Pt) (hv : Corner v) :
    convertStride3 (offset (s2 * s1, s2, 1) v) [s2 * s1, s2, 1] = v.1 * 4 + v.2.1 * 2 + v.2.2 * 1 := by
  obtain ⟨a, b, c⟩ := v
  obtain ⟨ha, hb, hc⟩ := hv
  simp only at ha hb hc
  have hr : b * s2 + c < s2 * s1 := by
    have : 2 * s2 ≤ s2 * s1 := by rw [Nat.mul_comm s2 s1]; exact Nat.mul_le_mul_right _ h1
    have : b * s2 ≤ s2 := by
      have := Nat.mul_le_mul_right s2 hb
      simpa using this
    omega
  have e : offset (s2 * s1, s2, 1) (a, b, c) = a * (s2 * s1) + (b * s2 + c) := by
    simp only [offset]; ring
  simp only [convertStride3, List.getD_cons_zero, List.getD_cons_succ, e]
  rw [div_mul_add _ a _ hr, Nat.add_sub_cancel_left, div_mul_add s2 b c (by omega), Nat.add_sub_cancel_left]

theorem convert2_corner (s1 : Nat) (h1 : 2 ≤ s1) (v : Pt) (hv : Corner v) (hp : v.2.2 = 0) :
    convertStride2 (offset (s1, 1, 0) v) [s1, 1] = v.1 * 2 + v.2.1 * 1 := by
  obtain ⟨a, b, c⟩ := v
  obtain ⟨ha, hb, hc⟩ := hv
  simp only at ha hb hc hp
  subst hp
  have e : offset (s1, 1, 0) (a, b, 0) = a * s1 + b := by simp only [offset]; ring
  simp only [convertStride2, List.getD_cons_zero, List.getD_cons_succ, e]
  rw [div_mul_add s1 a b (by omega), Nat.add_sub_cancel_left]

/-! ### accumulators -/

theorem V4.ext' {a b : V4} (h0 : a.l0 = b.l0) (h1 : a.l1 = b.l1) (h2 : a.l2 = b.l2) (h3 : a.l3 = b.l3) : a = b := by
  cases a; cases b; simp_all

theorem sumL4_map {α} (l : List α) (g : α → V4) :
    sumL4 (l.map g) = ⟨(l.map (fun s => (g s).l0)).sum, (l.map (fun s => (g s).l1)).sum,
      (l.map (fun s => (g s).l2)).sum, (l.map (fun s => (g s).l3)).sum⟩ := by
  induction l with
  | nil => simp [sumL4, V4.zero]
  | cons a l ih => simp only [List.map_cons, sumL4, ih, V4.add, List.sum_cons]

theorem sumV_eq (n : Nat) (f : Nat → V4) :
    sumV n f = ⟨sumN n (fun i => (f i).l0), sumQ n (fun i => (f i).l1), sumQ n (fun i => (f i).l2),
      sumQ n (fun i => (f i).l3)⟩ := by
  induction n with
  | zero => simp [sumV, V4.zero, sumN, sumQ]
  | succ n ih => simp only [sumV, ih, V4.add, sumN, sumQ]

theorem sum3V_eq (n0 n1 n2 : Nat) (f : Nat → Nat → Nat → V4) :
    sum3V n0 n1 n2 f = ⟨sum3 n0 n1 n2 (fun i j k => (f i j k).l0), sum3Q n0 n1 n2 (fun i j k => (f i j k).l1),
      sum3Q n0 n1 n2 (fun i j k => (f i j k).l2), sum3Q n0 n1 n2 (fun i j k => (f i j k).l3)⟩ := by
  unfold sum3V sum3 sum3Q
  simp only [sumV_eq]

theorem sum3_add (n0 n1 n2 : Nat) (f g : Nat → Nat → Nat → Int) :
    sum3 n0 n1 n2 (fun i j k => f i j k + g i j k) = sum3 n0 n1 n2 f + sum3 n0 n1 n2 g := by
  unfold sum3; simp only [sumN_add]

/-! ### the padded mask and the data mask at flat indices -/

theorem mask_at_nonneg (m : Mask) (i j k : Nat) : 0 ≤ m.at i j k := by
  unfold Mask.at; split_ifs <;> simp

theorem mask_at_toNat (m : Mask) (i j k : Nat) : ((m.at i j k).toNat : Int) = m.at i j k :=
  Int.toNat_of_nonneg (mask_at_nonneg m i j k)

theorem mask_at_inrange (m : Mask) (i j k : Nat) (h : m.at i j k ≠ 0) : i < m.n0 ∧ j < m.n1 ∧ k < m.n2 := by
  unfold Mask.at at h
  by_contra hc
  rw [if_neg hc] at h
  exact h rfl

/-- `fpmask[pindex + offset]` is the padded mask at the grid point -/
theorem fpmask3_at (m : Mask) (i j k : Nat) (hj : j < m.n1) (hk : k < m.n2) (v : Pt) (hv : Corner v) :
    fpmask3 m (i * ((m.n2 + 1) * (m.n1 + 1)) + j * (m.n2 + 1) + k * 1 + offset ((m.n2 + 1) * (m.n1 + 1), m.n2 + 1, 1) v)
      = (fat m.at (i, j, k) v).toNat := by
  obtain ⟨a, b, c⟩ := v
  obtain ⟨ha, hb, hc⟩ := hv
  simp only at ha hb hc
  have e : i * ((m.n2 + 1) * (m.n1 + 1)) + j * (m.n2 + 1) + k * 1
      + offset ((m.n2 + 1) * (m.n1 + 1), m.n2 + 1, 1) (a, b, c)
      = (i + a) * ((m.n2 + 1) * (m.n1 + 1)) + (j + b) * (m.n2 + 1) + (k + c) := by
    simp only [offset]; ring
  rw [e]
  obtain ⟨u1, u2, u3⟩ := unravel3 (i + a) (j + b) (k + c) (m.n1 + 1) (m.n2 + 1) (by omega) (by omega)
  simp only [fpmask3, u1, u2, u3, fat]

theorem fpmask2_at (m : Mask) (i j : Nat) (hj : j < m.n1) (v : Pt) (hv : Corner v) (hp : v.2.2 = 0) :
    fpmask2 m (i * (m.n1 + 1) + j * 1 + offset (m.n1 + 1, 1, 0) v) = (fat m.at (i, j, 0) v).toNat := by
  obtain ⟨a, b, c⟩ := v
  obtain ⟨ha, hb, hc⟩ := hv
  simp only at ha hb hc hp
  subst hp
  have e : i * (m.n1 + 1) + j * 1 + offset (m.n1 + 1, 1, 0) (a, b, 0) = (i + a) * (m.n1 + 1) + (j + b) := by
    simp only [offset]; ring
  rw [e]
  obtain ⟨u1, u2⟩ := unravel2 (i + a) (j + b) (m.n1 + 1) (by omega)
  simp only [fpmask2, u1, u2, fat]

/-- the data mask at the flat index of an in-range grid point -/
theorem fmask_at (m : Mask) (A B C : Nat) (h : A < m.n0 ∧ B < m.n1 ∧ C < m.n2) :
    ((fmaskOf m ((A * m.n1 + B) * m.n2 + C) : Nat) : Int) = m.at A B C := by
  simp only [fmaskOf, Mask.at, if_pos h]


/-! ### `cvertices` and the Gram matrix `D` -/

theorem cvert3 (n1 n2 : Nat) (h1 : 2 ≤ n1) (h2 : 2 ≤ n2) (a b c : Nat) (ha : a ≤ 1) (hb : b ≤ 1) (hc : c ≤ 1) :
    (sortNat ((List.range 2).flatMap (fun i => (List.range 2).flatMap (fun j => (List.range 2).map (fun k =>
      n2 * n1 * i + n2 * j + 1 * k))))).getD (a * 4 + b * 2 + c * 1) 0 = n2 * n1 * a + n2 * b + 1 * c := by
  have r2 : List.range 2 = [0, 1] := rfl
  have hP : 2 * n2 ≤ n2 * n1 := by rw [Nat.mul_comm n2 n1]; exact Nat.mul_le_mul_right _ h1
  simp only [r2, List.flatMap_cons, List.flatMap_nil, List.map_cons, List.map_nil, List.append_nil,
    List.cons_append, List.nil_append, Nat.mul_zero, Nat.mul_one, Nat.add_zero, Nat.zero_add]
  generalize n2 * n1 = Pd at hP ⊢
  rw [sortNat_of_sorted _ (by simp; omega)]
  obtain rfl | rfl : a = 0 ∨ a = 1 := by omega
  all_goals obtain rfl | rfl : b = 0 ∨ b = 1 := by omega
  all_goals obtain rfl | rfl : c = 0 ∨ c = 1 := by omega
  all_goals simp

theorem cvert2 (n1 : Nat) (h1 : 1 ≤ n1) (a b : Nat) (ha : a ≤ 1) (hb : b ≤ 1) :
    (sortNat ((List.range 2).flatMap (fun i => (List.range 2).map (fun j => n1 * i + 1 * j)))).getD
      (a * 2 + b * 1) 0 = n1 * a + 1 * b := by
  have r2 : List.range 2 = [0, 1] := rfl
  simp only [r2, List.flatMap_cons, List.flatMap_nil, List.map_cons, List.map_nil, List.append_nil,
    List.cons_append, List.nil_append, Nat.mul_zero, Nat.mul_one, Nat.add_zero, Nat.zero_add]
  rw [sortNat_of_sorted _ (by simp; omega)]
  obtain rfl | rfl : a = 0 ∨ a = 1 := by omega
  all_goals obtain rfl | rfl : b = 0 ∨ b = 1 := by omega
  all_goals simp

/-- `D[w_a, w_b]` is the dot product of the coordinates of the two grid points, whenever
    both lie in the array and in the mask (the `% nvox` wrap and the mask test are then
    the identity) -/
theorem gramD_eq (m : Mask) (cs : List (Array Rat)) (nvox index : Nat) (cvert : List Nat) (r s : Nat)
    (pa pb : Pt) (ha : pa.1 < m.n0 ∧ pa.2.1 < m.n1 ∧ pa.2.2 < m.n2) (hb : pb.1 < m.n0 ∧ pb.2.1 < m.n1 ∧ pb.2.2 < m.n2)
    (hnv : nvox = m.n0 * m.n1 * m.n2)
    (hr : index + cvert.getD r 0 = (pa.1 * m.n1 + pa.2.1) * m.n2 + pa.2.2)
    (hs : index + cvert.getD s 0 = (pb.1 * m.n1 + pb.2.1) * m.n2 + pb.2.2)
    (hma : m.at pa.1 pa.2.1 pa.2.2 ≠ 0) (hmb : m.at pb.1 pb.2.1 pb.2.2 ≠ 0) :
    gramD (fmaskOf m) cs nvox index cvert r s = dotv (coordAt m.n1 m.n2 cs pa) (coordAt m.n1 m.n2 cs pb) := by
  have la := flat_lt pa.1 pa.2.1 pa.2.2 m.n0 m.n1 m.n2 ha.1 ha.2.1 ha.2.2
  have lb := flat_lt pb.1 pb.2.1 pb.2.2 m.n0 m.n1 m.n2 hb.1 hb.2.1 hb.2.2
  have fa : fmaskOf m ((pa.1 * m.n1 + pa.2.1) * m.n2 + pa.2.2) ≠ 0 := by
    intro h0
    have := fmask_at m _ _ _ ha
    rw [h0] at this
    exact hma this.symm
  have fb : fmaskOf m ((pb.1 * m.n1 + pb.2.1) * m.n2 + pb.2.2) ≠ 0 := by
    intro h0
    have := fmask_at m _ _ _ hb
    rw [h0] at this
    exact hmb this.symm
  simp only [gramD, hr, hs, hnv, Nat.mod_eq_of_lt la, Nat.mod_eq_of_lt lb]
  rw [if_pos (Nat.mul_ne_zero fa fb)]
  simp only [dotv, coordAt, dot_map_map]
  exact list_sum_map_congr _ _ _ (fun c _ => mul_comm _ _)


/-! ### one table row -/

theorem prodAt_ne_zero (M : Field) (x : Pt) (s : List Pt) (h : prodAt M x s ≠ 0) : ∀ v ∈ s, fat M x v ≠ 0 := by
  induction s with
  | nil => intro v hv; simp at hv
  | cons a s ih =>
      intro v hv
      simp only [prodAt] at h
      rcases List.mem_cons.mp hv with rfl | hv
      · exact left_ne_zero_of_mul h
      · exact ih (right_ne_zero_of_mul h) v hv

theorem getD_mem {α} (l : List α) (a : Nat) (d : α) (h : a < l.length) : l.getD a d ∈ l := by
  induction l generalizing a with
  | nil => simp at h
  | cons x l ih =>
      cases a with
      | zero => simp
      | succ a =>
          simp only [List.getD_cons_succ]
          exact List.mem_cons_of_mem _ (ih a (by simpa using h))

theorem getD_map_of {α β} (f : α → β) (l : List α) (n : Nat) (d : α) (d' : β) (h : f d = d') :
    (l.map f).getD n d' = f (l.getD n d) := by
  subst h; exact getD_map' f l n d

/-- the `cvertices` of `Lips3d` for data strides `(n2·n1, n2, 1)` -/
def cvertOf3 (n1 n2 : Nat) : List Nat :=
  sortNat ((List.range 2).flatMap (fun i => (List.range 2).flatMap (fun j => (List.range 2).map (fun k =>
    n2 * n1 * i + n2 * j + 1 * k))))

/-- **The Gram entries the loop of `Lips3d` reads for a simplex that passes the mask
    test are the dot products of the coordinates of its vertices.** -/
theorem gramA3_eq (m : Mask) (cs : List (Array Rat)) (h1 : 2 ≤ m.n1) (h2 : 2 ≤ m.n2) (i j k : Nat)
    (s : List Pt) (hc : ∀ v ∈ s, Corner v) (hnz : prodAt m.at (i, j, k) s ≠ 0) (a b : Nat)
    (ha : a < s.length) (hb : b < s.length) :
    gramD (fmaskOf m) cs (m.n0 * m.n1 * m.n2) (i * (m.n2 * m.n1) + j * m.n2 + k * 1) (cvertOf3 m.n1 m.n2)
      (((s.map (offset ((m.n2 + 1) * (m.n1 + 1), m.n2 + 1, 1))).map
        (fun v => convertStride3 v [(m.n2 + 1) * (m.n1 + 1), m.n2 + 1, 1])).getD a 0)
      (((s.map (offset ((m.n2 + 1) * (m.n1 + 1), m.n2 + 1, 1))).map
        (fun v => convertStride3 v [(m.n2 + 1) * (m.n1 + 1), m.n2 + 1, 1])).getD b 0)
    = gramAt (coordAt m.n1 m.n2 cs) (i, j, k) s a b := by
  have hz := prodAt_ne_zero _ _ _ hnz
  have key : ∀ a, a < s.length →
      ((s.map (offset ((m.n2 + 1) * (m.n1 + 1), m.n2 + 1, 1))).map
        (fun v => convertStride3 v [(m.n2 + 1) * (m.n1 + 1), m.n2 + 1, 1])).getD a 0
        = (s.getD a (0, 0, 0)).1 * 4 + (s.getD a (0, 0, 0)).2.1 * 2 + (s.getD a (0, 0, 0)).2.2 * 1 := by
    intro a ha
    rw [List.map_map, getD_map_of _ s a (0, 0, 0) 0 (by simp [convertStride3, offset])]
    exact convert3_corner (m.n1 + 1) (m.n2 + 1) (by omega) (by omega) _ (hc _ (getD_mem s a _ ha))
  rw [key a ha, key b hb]
  have va := getD_mem s a (0, 0, 0) ha
  have vb := getD_mem s b (0, 0, 0) hb
  obtain ⟨ca1, ca2, ca3⟩ := hc _ va
  obtain ⟨cb1, cb2, cb3⟩ := hc _ vb
  have ra := mask_at_inrange m _ _ _ (hz _ va)
  have rb := mask_at_inrange m _ _ _ (hz _ vb)
  unfold gramAt
  refine gramD_eq m cs _ _ _ _ _ (padd (i, j, k) (s.getD a (0, 0, 0))) (padd (i, j, k) (s.getD b (0, 0, 0)))
    ra rb rfl ?_ ?_ (hz _ va) (hz _ vb)
  · unfold cvertOf3
    rw [cvert3 m.n1 m.n2 h1 h2 _ _ _ ca1 ca2 ca3]
    simp only [padd]; ring
  · unfold cvertOf3
    rw [cvert3 m.n1 m.n2 h1 h2 _ _ _ cb1 cb2 cb3]
    simp only [padd]; ring


theorem fat_toNat (m : Mask) (x v : Pt) : ((fat m.at x v).toNat : Int) = fat m.at x v := mask_at_toNat m _ _ _

theorem fat_toNat_rat (m : Mask) (x v : Pt) : (((fat m.at x v).toNat : Nat) : Rat) = ((fat m.at x v : Int) : Rat) := by
  rw [← fat_toNat m x v, Int.cast_natCast, Int.toNat_natCast]

theorem fat_toNat_eq_zero (m : Mask) (x v : Pt) : (fat m.at x v).toNat = 0 ↔ fat m.at x v = 0 := by
  constructor
  · intro h
    have := fat_toNat m x v
    rw [h] at this
    exact this.symm
  · intro h; rw [h]; rfl

/-- the value of one `d4` row of `Lips3d` at an in-range voxel -/
theorem row4_eq3 (P : Num) (m : Mask) (cs : List (Array Rat)) (h1 : 2 ≤ m.n1) (h2 : 2 ≤ m.n2) (i j k : Nat)
    (hj : j < m.n1) (hk : k < m.n2) (s : List Pt) (hlen : s.length = 4) (hc : ∀ v ∈ s, Corner v) :
    row4 P (fpmask3 m)
      (gramD (fmaskOf m) cs (m.n0 * m.n1 * m.n2) (i * (m.n2 * m.n1) + j * m.n2 + k * 1) (cvertOf3 m.n1 m.n2))
      (i * ((m.n2 + 1) * (m.n1 + 1)) + j * (m.n2 + 1) + k * 1)
      (s.map (offset ((m.n2 + 1) * (m.n1 + 1), m.n2 + 1, 1)))
      ((s.map (offset ((m.n2 + 1) * (m.n1 + 1), m.n2 + 1, 1))).map
        (fun v => convertStride3 v [(m.n2 + 1) * (m.n1 + 1), m.n2 + 1, 1]))
    = ⟨-(prodAt m.at (i, j, k) s), wt m.at (i, j, k) s * tet1 P (gramAt (coordAt m.n1 m.n2 cs) (i, j, k) s),
       -(wt m.at (i, j, k) s * tet2 P (gramAt (coordAt m.n1 m.n2 cs) (i, j, k) s)),
       wt m.at (i, j, k) s * tet3 P (gramAt (coordAt m.n1 m.n2 cs) (i, j, k) s)⟩ := by
  match s, hlen with
  | [v0, v1, v2, v3], _ =>
    have c0 := hc v0 (by simp)
    have c1 := hc v1 (by simp)
    have c2 := hc v2 (by simp)
    have c3 := hc v3 (by simp)
    have hG := fun (hnz : prodAt m.at (i, j, k) [v0, v1, v2, v3] ≠ 0) (a b : Nat) (ha : a < 4) (hb : b < 4) =>
      gramA3_eq m cs h1 h2 i j k [v0, v1, v2, v3] hc hnz a b ha hb
    simp only [List.map_cons, List.map_nil] at hG
    simp only [row4, List.map_cons, List.map_nil, List.getD_cons_zero, List.getD_cons_succ,
      fpmask3_at m i j k hj hk _ c0, fpmask3_at m i j k hj hk _ c1, fpmask3_at m i j k hj hk _ c2,
      fpmask3_at m i j k hj hk _ c3]
    have hw : wt m.at (i, j, k) [v0, v1, v2, v3]
        = (((fat m.at (i, j, k) v0).toNat * (fat m.at (i, j, k) v1).toNat * (fat m.at (i, j, k) v2).toNat
            * (fat m.at (i, j, k) v3).toNat : Nat) : Rat) := by
      simp only [wt, prodAt]; push_cast [fat_toNat_rat]; ring
    have hp : prodAt m.at (i, j, k) [v0, v1, v2, v3]
        = (((fat m.at (i, j, k) v0).toNat * (fat m.at (i, j, k) v1).toNat * (fat m.at (i, j, k) v2).toNat
            * (fat m.at (i, j, k) v3).toNat : Nat) : Int) := by
      simp only [prodAt]; push_cast [fat_toNat]; ring
    by_cases h0 : (fat m.at (i, j, k) v0).toNat = 0
    · rw [hw, hp]
      simp [h0, V4.zero]
    · rw [if_pos h0]
      by_cases hz : prodAt m.at (i, j, k) [v0, v1, v2, v3] = 0
      · have hwz : wt m.at (i, j, k) [v0, v1, v2, v3] = 0 := by simp [wt, hz]
        rw [← hw, ← hp, hwz, hz]; simp
      · rw [← hw, ← hp]
        have g := hG hz
        rw [tet1_congr P _ _ g, tet2_congr P _ _ g, tet3_congr P _ _ g]


theorem row3_eq3 (P : Num) (m : Mask) (cs : List (Array Rat)) (h1 : 2 ≤ m.n1) (h2 : 2 ≤ m.n2) (i j k : Nat)
    (hj : j < m.n1) (hk : k < m.n2) (s : List Pt) (hlen : s.length = 3) (hc : ∀ v ∈ s, Corner v) :
    row3 P (fpmask3 m)
      (gramD (fmaskOf m) cs (m.n0 * m.n1 * m.n2) (i * (m.n2 * m.n1) + j * m.n2 + k * 1) (cvertOf3 m.n1 m.n2))
      (i * ((m.n2 + 1) * (m.n1 + 1)) + j * (m.n2 + 1) + k * 1)
      (s.map (offset ((m.n2 + 1) * (m.n1 + 1), m.n2 + 1, 1)))
      ((s.map (offset ((m.n2 + 1) * (m.n1 + 1), m.n2 + 1, 1))).map
        (fun v => convertStride3 v [(m.n2 + 1) * (m.n1 + 1), m.n2 + 1, 1]))
    = ⟨prodAt m.at (i, j, k) s, -(wt m.at (i, j, k) s * tri1 P (gramAt (coordAt m.n1 m.n2 cs) (i, j, k) s)),
       wt m.at (i, j, k) s * tri2 P (gramAt (coordAt m.n1 m.n2 cs) (i, j, k) s), 0⟩ := by
  match s, hlen with
  | [v0, v1, v2], _ =>
    have c0 := hc v0 (by simp)
    have c1 := hc v1 (by simp)
    have c2 := hc v2 (by simp)
    have hG := fun (hnz : prodAt m.at (i, j, k) [v0, v1, v2] ≠ 0) (a b : Nat) (ha : a < 3) (hb : b < 3) =>
      gramA3_eq m cs h1 h2 i j k [v0, v1, v2] hc hnz a b ha hb
    simp only [List.map_cons, List.map_nil] at hG
    simp only [row3, List.map_cons, List.map_nil, List.getD_cons_zero, List.getD_cons_succ,
      fpmask3_at m i j k hj hk _ c0, fpmask3_at m i j k hj hk _ c1, fpmask3_at m i j k hj hk _ c2]
    have hw : wt m.at (i, j, k) [v0, v1, v2]
        = (((fat m.at (i, j, k) v0).toNat * (fat m.at (i, j, k) v1).toNat * (fat m.at (i, j, k) v2).toNat : Nat)
            : Rat) := by
      simp only [wt, prodAt]; push_cast [fat_toNat_rat]; ring
    have hp : prodAt m.at (i, j, k) [v0, v1, v2]
        = (((fat m.at (i, j, k) v0).toNat * (fat m.at (i, j, k) v1).toNat * (fat m.at (i, j, k) v2).toNat : Nat)
            : Int) := by
      simp only [prodAt]; push_cast [fat_toNat]; ring
    by_cases h0 : (fat m.at (i, j, k) v0).toNat = 0
    · rw [hw, hp]
      simp [h0, V4.zero]
    · rw [if_pos h0]
      by_cases hz : prodAt m.at (i, j, k) [v0, v1, v2] = 0
      · have hwz : wt m.at (i, j, k) [v0, v1, v2] = 0 := by simp [wt, hz]
        rw [← hw, ← hp, hwz, hz]; simp
      · rw [← hw, ← hp]
        have g := hG hz
        rw [tri1_congr P _ _ g, tri2_congr P _ _ g]

theorem row2_eq3 (P : Num) (m : Mask) (cs : List (Array Rat)) (h1 : 2 ≤ m.n1) (h2 : 2 ≤ m.n2) (i j k : Nat)
    (hj : j < m.n1) (hk : k < m.n2) (s : List Pt) (hlen : s.length = 2) (hc : ∀ v ∈ s, Corner v) :
    row2 P (fpmask3 m)
      (gramD (fmaskOf m) cs (m.n0 * m.n1 * m.n2) (i * (m.n2 * m.n1) + j * m.n2 + k * 1) (cvertOf3 m.n1 m.n2))
      (i * ((m.n2 + 1) * (m.n1 + 1)) + j * (m.n2 + 1) + k * 1)
      (s.map (offset ((m.n2 + 1) * (m.n1 + 1), m.n2 + 1, 1)))
      ((s.map (offset ((m.n2 + 1) * (m.n1 + 1), m.n2 + 1, 1))).map
        (fun v => convertStride3 v [(m.n2 + 1) * (m.n1 + 1), m.n2 + 1, 1]))
    = ⟨-(prodAt m.at (i, j, k) s), wt m.at (i, j, k) s * edge1 P (gramAt (coordAt m.n1 m.n2 cs) (i, j, k) s),
       0, 0⟩ := by
  match s, hlen with
  | [v0, v1], _ =>
    have c0 := hc v0 (by simp)
    have c1 := hc v1 (by simp)
    have hG := fun (hnz : prodAt m.at (i, j, k) [v0, v1] ≠ 0) (a b : Nat) (ha : a < 2) (hb : b < 2) =>
      gramA3_eq m cs h1 h2 i j k [v0, v1] hc hnz a b ha hb
    simp only [List.map_cons, List.map_nil] at hG
    simp only [row2, List.map_cons, List.map_nil, List.getD_cons_zero, List.getD_cons_succ,
      fpmask3_at m i j k hj hk _ c0, fpmask3_at m i j k hj hk _ c1]
    have hw : wt m.at (i, j, k) [v0, v1]
        = (((fat m.at (i, j, k) v0).toNat * (fat m.at (i, j, k) v1).toNat : Nat) : Rat) := by
      simp only [wt, prodAt]; push_cast [fat_toNat_rat]; ring
    have hp : prodAt m.at (i, j, k) [v0, v1]
        = (((fat m.at (i, j, k) v0).toNat * (fat m.at (i, j, k) v1).toNat : Nat) : Int) := by
      simp only [prodAt]; push_cast [fat_toNat]; ring
    by_cases h0 : (fat m.at (i, j, k) v0).toNat = 0
    · rw [hw, hp]
      simp [h0, V4.zero]
    · rw [if_pos h0]
      by_cases hz : prodAt m.at (i, j, k) [v0, v1] = 0
      · have hwz : wt m.at (i, j, k) [v0, v1] = 0 := by simp [wt, hz]
        rw [← hw, ← hp, hwz, hz]; simp
      · rw [← hw, ← hp]
        have g := hG hz
        rw [edge1_congr P _ _ g]


/-! ### the 2-d loop -/

def cvertOf2 (n1 : Nat) : List Nat :=
  sortNat ((List.range 2).flatMap (fun i => (List.range 2).map (fun j => n1 * i + 1 * j)))

theorem gramA2_eq (m : Mask) (cs : List (Array Rat)) (hn2 : m.n2 = 1) (h1 : 1 ≤ m.n1) (i j : Nat)
    (s : List Pt) (hc : ∀ v ∈ s, Corner v) (hpl : ∀ v ∈ s, v.2.2 = 0) (hnz : prodAt m.at (i, j, 0) s ≠ 0) (a b : Nat)
    (ha : a < s.length) (hb : b < s.length) :
    gramD (fmaskOf m) cs (m.n0 * m.n1) (i * m.n1 + j * 1) (cvertOf2 m.n1)
      (((s.map (offset (m.n1 + 1, 1, 0))).map (fun v => convertStride2 v [m.n1 + 1, 1])).getD a 0)
      (((s.map (offset (m.n1 + 1, 1, 0))).map (fun v => convertStride2 v [m.n1 + 1, 1])).getD b 0)
    = gramAt (coordAt m.n1 m.n2 cs) (i, j, 0) s a b := by
  have hz := prodAt_ne_zero _ _ _ hnz
  have key : ∀ a, a < s.length →
      ((s.map (offset (m.n1 + 1, 1, 0))).map (fun v => convertStride2 v [m.n1 + 1, 1])).getD a 0
        = (s.getD a (0, 0, 0)).1 * 2 + (s.getD a (0, 0, 0)).2.1 * 1 := by
    intro a ha
    rw [List.map_map, getD_map_of _ s a (0, 0, 0) 0 (by simp [convertStride2, offset])]
    exact convert2_corner (m.n1 + 1) (by omega) _ (hc _ (getD_mem s a _ ha)) (hpl _ (getD_mem s a _ ha))
  rw [key a ha, key b hb]
  have va := getD_mem s a (0, 0, 0) ha
  have vb := getD_mem s b (0, 0, 0) hb
  obtain ⟨ca1, ca2, _⟩ := hc _ va
  obtain ⟨cb1, cb2, _⟩ := hc _ vb
  have pa := hpl _ va
  have pb := hpl _ vb
  have ra := mask_at_inrange m _ _ _ (hz _ va)
  have rb := mask_at_inrange m _ _ _ (hz _ vb)
  unfold gramAt
  refine gramD_eq m cs _ _ _ _ _ (padd (i, j, 0) (s.getD a (0, 0, 0))) (padd (i, j, 0) (s.getD b (0, 0, 0)))
    ra rb (by rw [hn2, Nat.mul_one]) ?_ ?_ (hz _ va) (hz _ vb)
  · unfold cvertOf2
    rw [cvert2 m.n1 h1 _ _ ca1 ca2]
    simp only [padd, hn2, pa]; ring
  · unfold cvertOf2
    rw [cvert2 m.n1 h1 _ _ cb1 cb2]
    simp only [padd, hn2, pb]; ring

theorem row3_eq2 (P : Num) (m : Mask) (cs : List (Array Rat)) (hn2 : m.n2 = 1) (h1 : 1 ≤ m.n1) (i j : Nat)
    (hj : j < m.n1) (s : List Pt) (hlen : s.length = 3) (hc : ∀ v ∈ s, Corner v) (hpl : ∀ v ∈ s, v.2.2 = 0) :
    row3 P (fpmask2 m) (gramD (fmaskOf m) cs (m.n0 * m.n1) (i * m.n1 + j * 1) (cvertOf2 m.n1))
      (i * (m.n1 + 1) + j * 1) (s.map (offset (m.n1 + 1, 1, 0)))
      ((s.map (offset (m.n1 + 1, 1, 0))).map (fun v => convertStride2 v [m.n1 + 1, 1]))
    = ⟨prodAt m.at (i, j, 0) s, -(wt m.at (i, j, 0) s * tri1 P (gramAt (coordAt m.n1 m.n2 cs) (i, j, 0) s)),
       wt m.at (i, j, 0) s * tri2 P (gramAt (coordAt m.n1 m.n2 cs) (i, j, 0) s), 0⟩ := by
  match s, hlen with
  | [v0, v1, v2], _ =>
    have c0 := hc v0 (by simp)
    have c1 := hc v1 (by simp)
    have c2 := hc v2 (by simp)
    have p0 := hpl v0 (by simp)
    have p1 := hpl v1 (by simp)
    have p2 := hpl v2 (by simp)
    have hG := fun (hnz : prodAt m.at (i, j, 0) [v0, v1, v2] ≠ 0) (a b : Nat) (ha : a < 3) (hb : b < 3) =>
      gramA2_eq m cs hn2 h1 i j [v0, v1, v2] hc hpl hnz a b ha hb
    simp only [List.map_cons, List.map_nil] at hG
    simp only [row3, List.map_cons, List.map_nil, List.getD_cons_zero, List.getD_cons_succ,
      fpmask2_at m i j hj _ c0 p0, fpmask2_at m i j hj _ c1 p1, fpmask2_at m i j hj _ c2 p2]
    have hw : wt m.at (i, j, 0) [v0, v1, v2]
        = (((fat m.at (i, j, 0) v0).toNat * (fat m.at (i, j, 0) v1).toNat * (fat m.at (i, j, 0) v2).toNat : Nat)
            : Rat) := by
      simp only [wt, prodAt]; push_cast [fat_toNat_rat]; ring
    have hp : prodAt m.at (i, j, 0) [v0, v1, v2]
        = (((fat m.at (i, j, 0) v0).toNat * (fat m.at (i, j, 0) v1).toNat * (fat m.at (i, j, 0) v2).toNat : Nat)
            : Int) := by
      simp only [prodAt]; push_cast [fat_toNat]; ring
    by_cases h0 : (fat m.at (i, j, 0) v0).toNat = 0
    · rw [hw, hp]
      simp [h0, V4.zero]
    · rw [if_pos h0]
      by_cases hz : prodAt m.at (i, j, 0) [v0, v1, v2] = 0
      · have hwz : wt m.at (i, j, 0) [v0, v1, v2] = 0 := by simp [wt, hz]
        rw [← hw, ← hp, hwz, hz]; simp
      · rw [← hw, ← hp]
        have g := hG hz
        rw [tri1_congr P _ _ g, tri2_congr P _ _ g]

theorem row2_eq2 (P : Num) (m : Mask) (cs : List (Array Rat)) (hn2 : m.n2 = 1) (h1 : 1 ≤ m.n1) (i j : Nat)
    (hj : j < m.n1) (s : List Pt) (hlen : s.length = 2) (hc : ∀ v ∈ s, Corner v) (hpl : ∀ v ∈ s, v.2.2 = 0) :
    row2 P (fpmask2 m) (gramD (fmaskOf m) cs (m.n0 * m.n1) (i * m.n1 + j * 1) (cvertOf2 m.n1))
      (i * (m.n1 + 1) + j * 1) (s.map (offset (m.n1 + 1, 1, 0)))
      ((s.map (offset (m.n1 + 1, 1, 0))).map (fun v => convertStride2 v [m.n1 + 1, 1]))
    = ⟨-(prodAt m.at (i, j, 0) s), wt m.at (i, j, 0) s * edge1 P (gramAt (coordAt m.n1 m.n2 cs) (i, j, 0) s),
       0, 0⟩ := by
  match s, hlen with
  | [v0, v1], _ =>
    have c0 := hc v0 (by simp)
    have c1 := hc v1 (by simp)
    have p0 := hpl v0 (by simp)
    have p1 := hpl v1 (by simp)
    have hG := fun (hnz : prodAt m.at (i, j, 0) [v0, v1] ≠ 0) (a b : Nat) (ha : a < 2) (hb : b < 2) =>
      gramA2_eq m cs hn2 h1 i j [v0, v1] hc hpl hnz a b ha hb
    simp only [List.map_cons, List.map_nil] at hG
    simp only [row2, List.map_cons, List.map_nil, List.getD_cons_zero, List.getD_cons_succ,
      fpmask2_at m i j hj _ c0 p0, fpmask2_at m i j hj _ c1 p1]
    have hw : wt m.at (i, j, 0) [v0, v1]
        = (((fat m.at (i, j, 0) v0).toNat * (fat m.at (i, j, 0) v1).toNat : Nat) : Rat) := by
      simp only [wt, prodAt]; push_cast [fat_toNat_rat]; ring
    have hp : prodAt m.at (i, j, 0) [v0, v1]
        = (((fat m.at (i, j, 0) v0).toNat * (fat m.at (i, j, 0) v1).toNat : Nat) : Int) := by
      simp only [prodAt]; push_cast [fat_toNat]; ring
    by_cases h0 : (fat m.at (i, j, 0) v0).toNat = 0
    · rw [hw, hp]
      simp [h0, V4.zero]
    · rw [if_pos h0]
      by_cases hz : prodAt m.at (i, j, 0) [v0, v1] = 0
      · have hwz : wt m.at (i, j, 0) [v0, v1] = 0 := by simp [wt, hz]
        rw [← hw, ← hp, hwz, hz]; simp
      · rw [← hw, ← hp]
        have g := hG hz
        rw [edge1_congr P _ _ g]

theorem sum3V_congr {n0 n1 n2 : Nat} {f g : Nat → Nat → Nat → V4}
    (h : ∀ i j k, i < n0 → j < n1 → k < n2 → f i j k = g i j k) : sum3V n0 n1 n2 f = sum3V n0 n1 n2 g := by
  rw [sum3V_eq, sum3V_eq]
  congr 1
  · exact sum3_congr (fun i j k a b c => by rw [h i j k a b c])
  · exact sum3Q_congr (fun i j k a b c => by rw [h i j k a b c])
  · exact sum3Q_congr (fun i j k a b c => by rw [h i j k a b c])
  · exact sum3Q_congr (fun i j k a b c => by rw [h i j k a b c])

theorem list_sum_map_neg {α} (l : List α) (f : α → Rat) : (l.map (fun a => -f a)).sum = -(l.map f).sum := by
  induction l with
  | nil => simp
  | cons a l ih => simp only [List.map_cons, List.sum_cons, ih]; ring

theorem list_sum_map_neg_int {α} (l : List α) (f : α → Int) : (l.map (fun a => -f a)).sum = -(l.map f).sum := by
  induction l with
  | nil => simp
  | cons a l ih => simp only [List.map_cons, List.sum_cons, ih]; ring


open Classical in
/-- the exact square root wherever it is rational (0 elsewhere) -/
noncomputable def sqExact (v : Rat) : Rat :=
  if h : ∃ r : Rat, 0 ≤ r ∧ r * r = v then Classical.choose h else 0

theorem sqExact_of_root (v r : Rat) (hr : 0 ≤ r) (h : r * r = v) : sqExact v = r := by
  have hex : ∃ r : Rat, 0 ≤ r ∧ r * r = v := ⟨r, hr, h⟩
  unfold sqExact
  rw [dif_pos hex]
  obtain ⟨h0, h1⟩ := Classical.choose_spec hex
  have : Classical.choose hex ^ 2 = r ^ 2 := by rw [pow_two, pow_two, h1, h]
  exact (pow_left_inj₀ h0 hr (by norm_num)).mp this


end NipyVerif.C15
