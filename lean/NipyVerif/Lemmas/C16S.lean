/-
C16 (part S) — lemmas on the cubic B-spline sampling model: the C truncation trick is the floor,
the four-tap window covers the support of the basis function, mirror symmetry.
-/
import NipyVerif.Model.C16
import Mathlib.Data.Rat.Floor
import Mathlib.Algebra.BigOperators.Intervals
import Mathlib.Tactic.Ring
import Mathlib.Tactic.Linarith

namespace NipyVerif.C16

open Finset

theorem truncInt_of_nonneg (q : Rat) (h : 0 ≤ q) : truncInt q = ⌊q⌋ := by
  unfold truncInt; rw [if_pos h]; rfl

theorem truncInt_of_neg (q : Rat) (h : q < 0) : truncInt q = ⌈q⌉ := by
  unfold truncInt; rw [if_neg (not_le.mpr h)]
  show -⌊-q⌋ = ⌈q⌉
  rw [Int.floor_neg, neg_neg]

theorem absR_eq_abs (x : Rat) : absR x = |x| := by
  unfold absR
  split_ifs with h
  · exact (abs_of_pos h).symm
  · exact (abs_of_nonpos (not_lt.mp h)).symm

/-- the cubic B-spline vanishes outside `(-2, 2)` -/
theorem basis_zero_of_two_le (c23 t : Rat) (h : 2 ≤ |t|) : basis c23 t = 0 := by
  unfold basis
  simp only [absR_eq_abs]
  rw [if_pos h]

/-- … and is an even function -/
theorem basis_even (c23 t : Rat) : basis c23 (-t) = basis c23 t := by
  unfold basis
  simp only [absR_eq_abs, abs_neg]

/-- nodes left of `⌊x⌋ - 1` or right of `⌊x⌋ + 2` do not reach `x` -/
theorem basis_zero_outside_window (c23 x : Rat) (k : Int) (h : k < ⌊x⌋ - 1 ∨ ⌊x⌋ + 2 < k) :
    basis c23 (x - (k : Rat)) = 0 := by
  apply basis_zero_of_two_le
  have h1 := Int.floor_le x
  have h2 := Int.lt_floor_add_one x
  rcases h with h | h
  · have : (k : Rat) ≤ (⌊x⌋ : Rat) - 2 := by
      have : k ≤ ⌊x⌋ - 2 := by omega
      exact_mod_cast this
    rw [abs_of_nonneg (by linarith)]
    linarith
  · have : (⌊x⌋ : Rat) + 3 ≤ (k : Rat) := by
      have : ⌊x⌋ + 3 ≤ k := by omega
      exact_mod_cast this
    rw [abs_of_nonpos (by linarith)]
    linarith

/-! ### mirror -/

theorem neg_emod_pos (y per : Int) (h0 : 0 < y) (h1 : y < per) : (-y) % per = per - y := by
  have : (-y) % per = (-y + per) % per := by rw [Int.add_emod_right]
  rw [this]
  have e : -y + per = per - y := by ring
  rw [e]
  exact Int.emod_eq_of_lt (by omega) (by omega)

theorem mirroredPosition_neg (k : Int) (ddim : Nat) : mirroredPosition (-k) ddim = mirroredPosition k ddim := by
  unfold mirroredPosition
  split_ifs with h0
  · rfl
  · have hp : (0 : Int) < 2 * (ddim : Int) := by omega
    have hy0 := Int.emod_nonneg k (ne_of_gt hp)
    have hy1 := Int.emod_lt_of_pos k hp
    have hneg : (-k) % (2 * (ddim : Int)) = (-(k % (2 * (ddim : Int)))) % (2 * (ddim : Int)) := by
      have := Int.sub_emod 0 k (2 * (ddim : Int))
      simpa using this
    simp only
    rcases (lt_or_eq_of_le hy0) with hpos | hzero
    · rw [hneg, neg_emod_pos _ _ hpos hy1]
      split_ifs <;> omega
    · have hz : k % (2 * (ddim : Int)) = 0 := hzero.symm
      rw [hneg, hz]; simp

/-- the definition: `Σ_{k = lo}^{lo+n-1} c[mirror(k)] β³(x − k)` -/
def defSum (c23 : Rat) (coef : Array Rat) (ddim : Nat) (x : Rat) (lo : Int) (n : Nat) : Rat :=
  ∑ t ∈ range n, coefAt coef (mirroredPosition (lo + (t : Int)) ddim) * basis c23 (x - ((lo + (t : Int) : Int) : Rat))

/-- the four taps of the window -/
def windowSum (c23 : Rat) (coef : Array Rat) (ddim : Nat) (x : Rat) (nx : Int) : Rat :=
  ((List.range 4).map (fun (t : Nat) =>
    coefAt coef (mirroredPosition (nx + (t : Int)) ddim) * basis c23 (x - ((nx + (t : Int) : Int) : Rat)))).sum

theorem windowSum_eq_defSum4 (c23 : Rat) (coef : Array Rat) (ddim : Nat) (x : Rat) (nx : Int) :
    windowSum c23 coef ddim x nx = defSum c23 coef ddim x nx 4 := by
  unfold windowSum defSum
  simp [List.range_succ, Finset.sum_range_succ]
  ring

/-- every finite sum over consecutive nodes containing the window equals the four-tap sum -/
theorem windowSum_eq_defSum (c23 : Rat) (coef : Array Rat) (ddim : Nat) (x : Rat) (lo : Int) (n : Nat)
    (h1 : lo ≤ ⌊x⌋ - 1) (h2 : ⌊x⌋ + 2 < lo + (n : Int)) :
    windowSum c23 coef ddim x (⌊x⌋ - 1) = defSum c23 coef ddim x lo n := by
  rw [windowSum_eq_defSum4]
  obtain ⟨p, hp⟩ : ∃ p : Nat, (p : Int) = ⌊x⌋ - 1 - lo := ⟨(⌊x⌋ - 1 - lo).toNat, by omega⟩
  obtain ⟨q, rfl⟩ : ∃ q : Nat, n = p + 4 + q := ⟨n - p - 4, by omega⟩
  unfold defSum
  rw [Finset.sum_range_add, Finset.sum_range_add]
  have z1 : ∑ t ∈ range p, coefAt coef (mirroredPosition (lo + (t : Int)) ddim) *
      basis c23 (x - ((lo + (t : Int) : Int) : Rat)) = 0 := by
    apply Finset.sum_eq_zero
    intro t ht
    rw [basis_zero_outside_window c23 x _ (Or.inl (by have := Finset.mem_range.mp ht; omega)), mul_zero]
  have z3 : ∑ t ∈ range q, coefAt coef (mirroredPosition (lo + ((p + 4 + t : Nat) : Int)) ddim) *
      basis c23 (x - ((lo + ((p + 4 + t : Nat) : Int) : Int) : Rat)) = 0 := by
    apply Finset.sum_eq_zero
    intro t _
    rw [basis_zero_outside_window c23 x _ (Or.inr (by push_cast; omega)), mul_zero]
  rw [z1, z3, zero_add, add_zero]
  apply Finset.sum_congr rfl
  intro t _
  have : lo + ((p + t : Nat) : Int) = ⌊x⌋ - 1 + (t : Int) := by push_cast; omega
  rw [this]

end NipyVerif.C16
