/- C11 — connected components: the `lil_cc` model labels the vertices of a symmetric graph exactly
   by reachability (breadth-first search with a FIFO front and a fuel that is proved sufficient). -/
import NipyVerif.Lemmas.C11Dij

namespace NipyVerif.C11

/-- the edge set is symmetric (weights may differ) -/
def Sym (g : Graph) : Prop := ∀ u v w, (u, v, w) ∈ g.edges → ∃ w', (v, u, w') ∈ g.edges

theorem Conn.trans {g : Graph} {u v x : Nat} (h1 : Conn g u v) (h2 : Conn g v x) : Conn g u x := by
  induction h2 with
  | refl => exact h1
  | step _ he ih => exact Conn.step ih he

theorem Conn.symm {g : Graph} {u v : Nat} (h : Conn g u v) : Conn g v u := by
  induction h with
  | refl => exact Conn.refl _
  | step _ he ih =>
      have h1 : Conn g _ _ := Conn.step (Conn.refl _) (Or.symm he)
      exact Conn.trans h1 ih

theorem mem_rowOf (g : Graph) (p x : Nat) (h : x ∈ rowOf g p) : ∃ w, (p, x, w) ∈ g.edges := by
  simp only [rowOf, List.mem_map, List.mem_filter, beq_iff_eq] at h
  obtain ⟨⟨a, b, w⟩, ⟨hm, rfl⟩, rfl⟩ := h
  exact ⟨w, hm⟩

theorem rowOf_mem (g : Graph) (p x : Nat) (w : Rat) (h : (p, x, w) ∈ g.edges) : x ∈ rowOf g p := by
  simp only [rowOf, List.mem_map, List.mem_filter, beq_iff_eq]
  exact ⟨(p, x, w), ⟨h, rfl⟩, rfl⟩

/-- edges whose source is not visited yet -/
def pending (es : List Edge) (lab : List (Option Nat)) : Nat :=
  (es.filter (fun e => lab.getD e.1 none == none)).length

theorem pending_set (lab : List (Option Nat)) (p k : Nat) (hp : lab.getD p none = none) (hlt : p < lab.length) :
    ∀ es : List Edge, pending es lab = pending es (lab.set p (some k)) + (es.filter (fun e => e.1 == p)).length
  | [] => by simp [pending]
  | e :: es => by
      have ih := pending_set lab p k hp hlt es
      unfold pending at ih ⊢
      simp only [List.filter_cons]
      by_cases hep : e.1 = p
      · have h1 : (lab.getD e.1 none == none) = true := by rw [hep, hp]; rfl
        have h2 : ((lab.set p (some k)).getD e.1 none == none) = false := by
          rw [hep, getD_set_self _ _ _ hlt]; rfl
        have h3 : (e.1 == p) = true := by simp [hep]
        rw [h1, h2, h3]
        simp only [if_true, Bool.false_eq_true, if_false, List.length_cons]
        omega
      · have h2 : (lab.set p (some k)).getD e.1 none = lab.getD e.1 none :=
          getD_set_of_ne _ _ _ _ (Ne.symm hep)
        have h3 : (e.1 == p) = false := by simp [hep]
        rw [h2, h3]
        by_cases hc : (lab.getD e.1 none == none) = true
        · rw [hc]; simp only [if_true, Bool.false_eq_true, if_false, List.length_cons]; omega
        · have : (lab.getD e.1 none == none) = false := by simpa only [Bool.not_eq_true] using hc
          rw [this]; simp only [Bool.false_eq_true, if_false]; exact ih

theorem rowOf_length (g : Graph) (p : Nat) : (rowOf g p).length = (g.edges.filter (fun e => e.1 == p)).length := by
  simp [rowOf]

/-- what holds before a component is started: components `< k` are complete -/
structure CInv (g : Graph) (k : Nat) (lab : List (Option Nat)) : Prop where
  len : lab.length = g.V
  lt : ∀ v j, lab.getD v none = some j → j < k
  closed : ∀ u v w j, (u, v, w) ∈ g.edges → lab.getD u none = some j → lab.getD v none = some j
  conn : ∀ u v j, lab.getD u none = some j → lab.getD v none = some j → Conn g u v

/-- what holds while component `k` grows from `root` -/
structure BInv (g : Graph) (k root : Nat) (front : List Nat) (lab : List (Option Nat)) : Prop where
  len : lab.length = g.V
  frontV : ∀ x ∈ front, x < g.V
  old : ∀ u v w j, j < k → (u, v, w) ∈ g.edges → lab.getD u none = some j → lab.getD v none = some j
  le : ∀ v j, lab.getD v none = some j → j ≤ k
  conn : ∀ v, lab.getD v none = some k → Conn g root v
  fconn : ∀ x ∈ front, Conn g root x
  fnew : ∀ x ∈ front, lab.getD x none = none ∨ lab.getD x none = some k
  cl : ∀ u v w, (u, v, w) ∈ g.edges → lab.getD u none = some k → lab.getD v none = some k ∨ v ∈ front
  oconn : ∀ u v j, j < k → lab.getD u none = some j → lab.getD v none = some j → Conn g u v

theorem bfs_inv (g : Graph) (hw : WF g) (hs : Sym g) (k root : Nat) :
    ∀ (f : Nat) (front : List Nat) (lab : List (Option Nat)), BInv g k root front lab →
      front.length + pending g.edges lab ≤ f → CInv g (k + 1) (bfs g k f front lab)
  | 0, front, lab, h, hf => by
      have h0 : front = [] := List.eq_nil_of_length_eq_zero (by omega)
      subst h0
      simp only [bfs]
      exact bfs_inv_end g k root lab h
  | f + 1, [], lab, h, _ => by
      simp only [bfs]
      exact bfs_inv_end g k root lab h
  | f + 1, p :: front, lab, h, hf => by
      simp only [bfs]
      have hpV : p < g.V := h.frontV p (by simp)
      have hplt : p < lab.length := by rw [h.len]; exact hpV
      by_cases hp : lab.getD p none = none
      · have hb : (lab.getD p none == none) = true := by rw [hp]; rfl
        rw [if_pos hb]
        have hself : (lab.set p (some k)).getD p none = some k := getD_set_self _ _ _ hplt
        have hother : ∀ v, v ≠ p → (lab.set p (some k)).getD v none = lab.getD v none :=
          fun v hv => getD_set_of_ne _ _ _ _ (Ne.symm hv)
        have hpres : ∀ v j, lab.getD v none = some j → (lab.set p (some k)).getD v none = some j := by
          intro v j hv
          by_cases hvp : v = p
          · subst hvp; rw [hp] at hv; cases hv
          · rw [hother v hvp]; exact hv
        have hback : ∀ v j, (lab.set p (some k)).getD v none = some j → j ≠ k → lab.getD v none = some j := by
          intro v j hv hjk
          by_cases hvp : v = p
          · subst hvp; rw [hself] at hv; cases hv; exact absurd rfl hjk
          · rw [hother v hvp] at hv; exact hv
        apply bfs_inv g hw hs k root f
        · exact
            { len := by simp only [List.length_set]; exact h.len
              frontV := by
                intro x hx
                rcases List.mem_append.mp hx with hx | hx
                · exact h.frontV x (List.mem_cons_of_mem _ hx)
                · obtain ⟨w, he⟩ := mem_rowOf g p x hx
                  exact (hw _ he).2
              old := by
                intro u v w j hj he hu
                exact hpres v j (h.old u v w j hj he (hback u j hu (by omega)))
              le := by
                intro v j hv
                by_cases hjk : j = k
                · omega
                · exact h.le v j (hback v j hv hjk)
              conn := by
                intro v hv
                by_cases hvp : v = p
                · subst hvp; exact h.fconn v (by simp)
                · rw [hother v hvp] at hv; exact h.conn v hv
              fconn := by
                intro x hx
                rcases List.mem_append.mp hx with hx | hx
                · exact h.fconn x (List.mem_cons_of_mem _ hx)
                · obtain ⟨w, he⟩ := mem_rowOf g p x hx
                  exact Conn.step (h.fconn p (by simp)) (Or.inl he)
              fnew := by
                intro x hx
                by_cases hxp : x = p
                · subst hxp; exact Or.inr hself
                · rw [hother x hxp]
                  rcases List.mem_append.mp hx with hx | hx
                  · exact h.fnew x (List.mem_cons_of_mem _ hx)
                  · obtain ⟨w, he⟩ := mem_rowOf g p x hx
                    cases hl : lab.getD x none with
                    | none => exact Or.inl rfl
                    | some j =>
                        have hjle := h.le x j hl
                        by_cases hjk : j = k
                        · subst hjk; exact Or.inr rfl
                        · obtain ⟨w', he'⟩ := hs _ _ _ he
                          have := h.old x p w' j (by omega) he' hl
                          rw [hp] at this; cases this
              cl := by
                intro u v w he hu
                by_cases hup : u = p
                · subst hup
                  exact Or.inr (List.mem_append_right _ (rowOf_mem g u v w he))
                · rw [hother u hup] at hu
                  rcases h.cl u v w he hu with hv | hv
                  · exact Or.inl (hpres v k hv)
                  · rcases List.mem_cons.mp hv with rfl | hv
                    · exact Or.inl hself
                    · exact Or.inr (List.mem_append_left _ hv)
              oconn := by
                intro u v j hj hu hv
                exact h.oconn u v j hj (hback u j hu (by omega)) (hback v j hv (by omega)) }
        · have := pending_set lab p k hp hplt g.edges
          rw [List.length_append, rowOf_length]
          simp only [List.length_cons] at hf
          omega
      · have hb : ¬ (lab.getD p none == none) = true := by simpa using hp
        rw [if_neg hb]
        have hpk : lab.getD p none = some k := by
          rcases h.fnew p (by simp) with h1 | h1
          · exact absurd h1 hp
          · exact h1
        apply bfs_inv g hw hs k root f
        · exact
            { len := h.len
              frontV := fun x hx => h.frontV x (List.mem_cons_of_mem _ hx)
              old := h.old, le := h.le, conn := h.conn
              fconn := fun x hx => h.fconn x (List.mem_cons_of_mem _ hx)
              fnew := fun x hx => h.fnew x (List.mem_cons_of_mem _ hx)
              cl := by
                intro u v w he hu
                rcases h.cl u v w he hu with hv | hv
                · exact Or.inl hv
                · rcases List.mem_cons.mp hv with rfl | hv
                  · exact Or.inl hpk
                  · exact Or.inr hv
              oconn := h.oconn }
        · simp only [List.length_cons] at hf
          omega
where
  bfs_inv_end (g : Graph) (k root : Nat) (lab : List (Option Nat)) (h : BInv g k root [] lab) :
      CInv g (k + 1) lab :=
    { len := h.len
      lt := fun v j hv => Nat.lt_succ_of_le (h.le v j hv)
      closed := by
        intro u v w j he hu
        by_cases hjk : j = k
        · subst hjk
          rcases h.cl u v w he hu with hv | hv
          · exact hv
          · simp at hv
        · exact h.old u v w j (lt_of_le_of_ne (h.le u j hu) hjk) he hu
      conn := by
        intro u v j hu hv
        by_cases hjk : j = k
        · subst hjk
          exact Conn.trans (Conn.symm (h.conn u hu)) (h.conn v hv)
        · exact h.oconn u v j (lt_of_le_of_ne (h.le u j hu) hjk) hu hv }

/-- a search never changes a label that is already set -/
theorem bfs_mono (g : Graph) (k : Nat) : ∀ (f : Nat) (front : List Nat) (lab : List (Option Nat)) (v j : Nat),
    lab.getD v none = some j → (bfs g k f front lab).getD v none = some j
  | 0, _, _, _, _, h => by simpa [bfs] using h
  | f + 1, [], _, _, _, h => by simpa [bfs] using h
  | f + 1, p :: front, lab, v, j, h => by
      simp only [bfs]
      split
      · next hb =>
          apply bfs_mono g k f
          have hpn : lab.getD p none = none := by simpa using hb
          have hvp : p ≠ v := by intro hpv; rw [hpv, h] at hpn; cases hpn
          rw [getD_set_of_ne _ _ _ _ hvp]; exact h
      · exact bfs_mono g k f _ _ v j h

theorem bfs_root (g : Graph) (k f i : Nat) (lab : List (Option Nat)) (hi : i < lab.length)
    (hn : lab.getD i none = none) : (bfs g k (f + 1) [i] lab).getD i none = some k := by
  simp only [bfs]
  have hb : (lab.getD i none == none) = true := by rw [hn]; rfl
  rw [if_pos hb]
  exact bfs_mono g k f _ _ i k (getD_set_self _ _ _ hi)

/-- the number of unvisited vertices never grows during a search -/
theorem bfs_count (g : Graph) (k : Nat) : ∀ (f : Nat) (front : List Nat) (lab : List (Option Nat)),
    (bfs g k f front lab).count none ≤ lab.count none
  | 0, _, _ => by simp [bfs]
  | f + 1, [], _ => by simp [bfs]
  | f + 1, p :: front, lab => by
      simp only [bfs]
      split
      · next hb =>
          refine le_trans (bfs_count g k f _ _) ?_
          by_cases hlt : p < lab.length
          · rw [List.count_set hlt]; simp
          · rw [List.set_eq_of_length_le (Nat.le_of_not_lt hlt)]
      · exact bfs_count g k f _ _

theorem bfs_count_root (g : Graph) (k f i : Nat) (lab : List (Option Nat)) (hi : i < lab.length)
    (hn : lab.getD i none = none) :
    (bfs g k (f + 1) [i] lab).count none < lab.count none := by
  simp only [bfs]
  have hb : (lab.getD i none == none) = true := by rw [hn]; rfl
  rw [if_pos hb]
  refine lt_of_le_of_lt (bfs_count g k f _ _) ?_
  rw [List.count_set hi]
  have hi' : lab[i] = none := by
    simpa [List.getD_eq_getElem?_getD, List.getElem?_eq_getElem hi] using hn
  have hpos : 0 < lab.count none := List.count_pos_iff.mpr (by rw [← hi']; exact List.getElem_mem hi)
  rw [hi']
  simp only [beq_self_eq_true, if_true]
  have : (some k == (none : Option Nat)) = false := rfl
  rw [this]
  simp only [Bool.false_eq_true, if_false]
  omega

theorem firstNone_some (lab : List (Option Nat)) (i : Nat) (h : firstNone lab = some i) :
    i < lab.length ∧ lab.getD i none = none := by
  unfold firstNone at h
  simp only at h
  split at h
  · next hlt =>
      cases h
      refine ⟨hlt, ?_⟩
      have := List.findIdx_getElem (w := hlt)
      have h2 : lab[List.findIdx (fun x => x == none) lab] = none := by simpa using this
      rw [List.getD_eq_getElem?_getD, List.getElem?_eq_getElem hlt]
      simp only [Option.getD_some]
      exact h2
  · cases h

theorem firstNone_none (lab : List (Option Nat)) (h : firstNone lab = none) : lab.count none = 0 := by
  unfold firstNone at h
  simp only at h
  split at h
  · cases h
  · next hlt =>
      rw [List.count_eq_zero]
      intro hmem
      apply hlt
      rw [List.findIdx_lt_length]
      exact ⟨none, hmem, rfl⟩

theorem ccLoop_inv (g : Graph) (hw : WF g) (hs : Sym g) : ∀ (f k : Nat) (lab : List (Option Nat)),
    CInv g k lab → lab.count none ≤ f → (∀ j, j < k → ∃ v, lab.getD v none = some j) →
      ∃ k', CInv g k' (ccLoop g f k lab) ∧ (ccLoop g f k lab).count none = 0 ∧
        ∀ j, j < k' → ∃ v, (ccLoop g f k lab).getD v none = some j
  | 0, k, lab, h, hf, hu => ⟨k, h, by simp only [ccLoop]; omega, hu⟩
  | f + 1, k, lab, h, hf, hu => by
      simp only [ccLoop]
      cases hfn : firstNone lab with
      | none => exact ⟨k, h, firstNone_none lab hfn, hu⟩
      | some i =>
          simp only
          obtain ⟨hi, hin⟩ := firstNone_some lab i hfn
          have hB : BInv g k i [i] lab :=
            { len := h.len
              frontV := by intro x hx; simp only [List.mem_singleton] at hx; subst hx; rw [← h.len]; exact hi
              old := fun u v w j _ he hu => h.closed u v w j he hu
              le := fun v j hv => le_of_lt (h.lt v j hv)
              conn := fun v hv => absurd (h.lt v k hv) (lt_irrefl _)
              fconn := by intro x hx; simp only [List.mem_singleton] at hx; subst hx; exact Conn.refl _
              fnew := by intro x hx; simp only [List.mem_singleton] at hx; subst hx; exact Or.inl hin
              cl := fun u v w _ hu => absurd (h.lt u k hu) (lt_irrefl _)
              oconn := fun u v j _ hu hv => h.conn u v j hu hv }
          have hpend : pending g.edges lab ≤ g.edges.length := by
            unfold pending; exact List.length_filter_le _ _
          have hC := bfs_inv g hw hs k i (g.edges.length + g.V + 1) [i] lab hB
            (by simp only [List.length_singleton]; omega)
          have hcnt := bfs_count_root g k (g.edges.length + g.V) i lab hi hin
          refine ccLoop_inv g hw hs f (k + 1) _ hC (by omega) ?_
          intro j hj
          by_cases hjk : j = k
          · subst hjk
            exact ⟨i, bfs_root g j (g.edges.length + g.V) i lab hi hin⟩
          · obtain ⟨v, hv⟩ := hu j (by omega)
            exact ⟨v, bfs_mono g k _ _ _ v j hv⟩

theorem cc_inv' (g : Graph) (hw : WF g) (hs : Sym g) :
    ∃ k, CInv g k (cc g) ∧ (cc g).count none = 0 ∧ ∀ j, j < k → ∃ v, (cc g).getD v none = some j := by
  unfold cc
  apply ccLoop_inv g hw hs
  · exact
      { len := by simp
        lt := by intro v j hv; rw [replicate_none_getD] at hv; cases hv
        closed := by intro u v w j _ hu; rw [replicate_none_getD] at hu; cases hu
        conn := by intro u v j hu; rw [replicate_none_getD] at hu; cases hu }
  · simp
  · intro j hj; omega

theorem cc_inv (g : Graph) (hw : WF g) (hs : Sym g) :
    ∃ k, CInv g k (cc g) ∧ (cc g).count none = 0 := by
  obtain ⟨k, h1, h2, _⟩ := cc_inv' g hw hs
  exact ⟨k, h1, h2⟩

theorem cc_labelled (g : Graph) (hw : WF g) (hs : Sym g) (v : Nat) (hv : v < g.V) :
    ∃ j, (cc g).getD v none = some j := by
  obtain ⟨k, hC, h0⟩ := cc_inv g hw hs
  have hlt : v < (cc g).length := by rw [hC.len]; exact hv
  cases hl : (cc g).getD v none with
  | some j => exact ⟨j, rfl⟩
  | none =>
      exfalso
      have hnot : none ∉ cc g := List.count_eq_zero.mp h0
      apply hnot
      have : (cc g)[v] = none := by
        simpa [List.getD_eq_getElem?_getD, List.getElem?_eq_getElem hlt] using hl
      rw [← this]; exact List.getElem_mem hlt

/-! ### the number of components `kruskal` reads off the labels -/

theorem numCC_fold (f : Nat → Option Nat → Nat) (hfn : ∀ m, f m none = m)
    (hfs : ∀ m k, f m (some k) = max m (k + 1)) : ∀ (lab : List (Option Nat)) (m0 : Nat),
    m0 ≤ lab.foldl f m0 ∧ (∀ j, some j ∈ lab → j + 1 ≤ lab.foldl f m0) ∧
      (lab.foldl f m0 = m0 ∨ ∃ j, some j ∈ lab ∧ lab.foldl f m0 = j + 1)
  | [], m0 => by simp
  | l :: lab, m0 => by
      simp only [List.foldl_cons]
      cases l with
      | none =>
          rw [hfn]
          obtain ⟨h1, h2, h3⟩ := numCC_fold f hfn hfs lab m0
          refine ⟨h1, ?_, ?_⟩
          · intro j hj
            simp only [List.mem_cons] at hj
            rcases hj with hj | hj
            · cases hj
            · exact h2 j hj
          · rcases h3 with h3 | ⟨j, hj, h3⟩
            · exact Or.inl h3
            · exact Or.inr ⟨j, List.mem_cons_of_mem _ hj, h3⟩
      | some k =>
          rw [hfs]
          obtain ⟨h1, h2, h3⟩ := numCC_fold f hfn hfs lab (max m0 (k + 1))
          refine ⟨le_trans (le_max_left _ _) h1, ?_, ?_⟩
          · intro j hj
            simp only [List.mem_cons, Option.some.injEq] at hj
            rcases hj with hj | hj
            · subst hj; exact le_trans (le_max_right _ _) h1
            · exact h2 j hj
          · rcases h3 with h3 | ⟨j, hj, h3⟩
            · by_cases hm : m0 ≤ k + 1
              · right
                refine ⟨k, by simp, ?_⟩
                rw [h3]; exact max_eq_right hm
              · left
                rw [h3]; exact max_eq_left (by omega)
            · exact Or.inr ⟨j, List.mem_cons_of_mem _ hj, h3⟩

theorem getD_some_mem {α} (lab : List (Option α)) (v : Nat) (j : α) (h : lab.getD v none = some j) :
    some j ∈ lab := by
  have hlt : v < lab.length := by
    by_contra hc
    rw [getD_none_of_le _ _ (Nat.le_of_not_lt hc)] at h
    cases h
  have : lab[v] = some j := by
    simpa [List.getD_eq_getElem?_getD, List.getElem?_eq_getElem hlt] using h
  rw [← this]; exact List.getElem_mem hlt

theorem mem_getD_some {α} (lab : List (Option α)) (j : α) (h : some j ∈ lab) :
    ∃ v, lab.getD v none = some j := by
  obtain ⟨v, hv, hj⟩ := List.getElem_of_mem h
  exact ⟨v, by simp [List.getD_eq_getElem?_getD, List.getElem?_eq_getElem hv, hj]⟩

theorem numCC_eq (lab : List (Option Nat)) (k : Nat) (hlt : ∀ v j, lab.getD v none = some j → j < k)
    (hused : ∀ j, j < k → ∃ v, lab.getD v none = some j) : numCC lab = k := by
  unfold numCC
  suffices h : ∀ f : Nat → Option Nat → Nat, (∀ m, f m none = m) → (∀ m k, f m (some k) = max m (k + 1)) →
      lab.foldl f 0 = k from h _ (fun _ => rfl) (fun _ _ => rfl)
  intro f hfn hfs
  obtain ⟨_, h2, h3⟩ := numCC_fold f hfn hfs lab 0
  apply le_antisymm
  · rcases h3 with h3 | ⟨j, hj, h3⟩
    · rw [h3]; exact Nat.zero_le _
    · obtain ⟨v, hv⟩ := mem_getD_some lab j hj
      have := hlt v j hv
      rw [h3]; omega
  · by_cases hk : k = 0
    · omega
    · obtain ⟨v, hv⟩ := hused (k - 1) (by omega)
      have := h2 (k - 1) (getD_some_mem lab v _ hv)
      omega

end NipyVerif.C11
