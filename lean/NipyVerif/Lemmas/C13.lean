/- Helper lemmas for C13: `sumTo` as a Finset sum, list sums, array row writes. -/
import NipyVerif.Model.C13
import Mathlib.Algebra.BigOperators.Intervals
import Mathlib.Algebra.BigOperators.Ring.Finset
import Mathlib.Algebra.BigOperators.Field
import Mathlib.Algebra.Order.BigOperators.Group.Finset
import Mathlib.Algebra.Order.Field.Rat
import Mathlib.Algebra.Order.Field.Basic
import Mathlib.Tactic.Ring
import Mathlib.Tactic.Linarith
import Mathlib.Tactic.FieldSimp
import Mathlib.Tactic.Positivity

namespace NipyVerif.C13
open Finset

theorem sumTo_eq_sum (n : Nat) (f : Nat → Rat) : sumTo n f = ∑ i ∈ range n, f i := by
  induction n with
  | zero => simp [sumTo]
  | succ n ih => rw [sumTo, ih, sum_range_succ]

theorem sumTo_congr {n : Nat} {f g : Nat → Rat} (h : ∀ i, i < n → f i = g i) :
    sumTo n f = sumTo n g := by
  rw [sumTo_eq_sum, sumTo_eq_sum]
  exact sum_congr rfl (fun i hi => h i (mem_range.mp hi))

theorem sumTo_add (n : Nat) (f g : Nat → Rat) :
    sumTo n (fun i => f i + g i) = sumTo n f + sumTo n g := by
  simp [sumTo_eq_sum, sum_add_distrib]

theorem sumTo_mul_left (n : Nat) (c : Rat) (f : Nat → Rat) :
    sumTo n (fun i => c * f i) = c * sumTo n f := by
  simp [sumTo_eq_sum, mul_sum]

theorem sumTo_mul_right (n : Nat) (c : Rat) (f : Nat → Rat) :
    sumTo n (fun i => f i * c) = sumTo n f * c := by
  simp [sumTo_eq_sum, sum_mul]

theorem sumTo_div (n : Nat) (c : Rat) (f : Nat → Rat) :
    sumTo n (fun i => f i / c) = sumTo n f / c := by
  simp [sumTo_eq_sum, sum_div]

theorem sumTo_const (n : Nat) (c : Rat) : sumTo n (fun _ => c) = n * c := by
  simp [sumTo_eq_sum]

theorem sumTo_nonneg {n : Nat} {f : Nat → Rat} (h : ∀ i, i < n → 0 ≤ f i) : 0 ≤ sumTo n f := by
  rw [sumTo_eq_sum]
  exact sum_nonneg (fun i hi => h i (mem_range.mp hi))

theorem sumTo_comm (n m : Nat) (f : Nat → Nat → Rat) :
    sumTo n (fun i => sumTo m (fun j => f i j)) = sumTo m (fun j => sumTo n (fun i => f i j)) := by
  simp only [sumTo_eq_sum]
  exact sum_comm

/-- a map of `range K` into itself that is injective there permutes the sum -/
theorem sumTo_perm (K : Nat) (σ : Nat → Nat) (hσ : ∀ k, k < K → σ k < K)
    (hinj : ∀ a, a < K → ∀ b, b < K → σ a = σ b → a = b) (f : Nat → Rat) :
    sumTo K (fun k => f (σ k)) = sumTo K f := by
  rw [sumTo_eq_sum, sumTo_eq_sum]
  have himg : (range K).image σ = range K := by
    apply eq_of_subset_of_card_le
    · intro y hy
      obtain ⟨a, ha, rfl⟩ := mem_image.mp hy
      exact mem_range.mpr (hσ a (mem_range.mp ha))
    · rw [card_image_of_injOn]
      intro a ha b hb hab
      exact hinj a (mem_range.mp ha) b (mem_range.mp hb) hab
  conv_rhs => rw [← himg]
  rw [sum_image]
  intro a ha b hb hab
  exact hinj a (mem_range.mp ha) b (mem_range.mp hb) hab

/-! M-step under a per-axis affine map of the data -/

theorem sx_affine (n : Nat) (r : Nat → Rat) (x : Nat → Nat → Rat) (a t : Nat → Rat) (j : Nat) :
    sx n r (affineData a t x) j = a j * sx n r x j + t j * pop n r := by
  unfold sx pop affineData
  rw [← sumTo_mul_left, ← sumTo_mul_left, ← sumTo_add]
  apply sumTo_congr; intro i _; ring

theorem dataMean_affine (n : Nat) (x : Nat → Nat → Rat) (a t : Nat → Rat) (j : Nat) (hn : 0 < n) :
    dataMean n (affineData a t x) j = a j * dataMean n x j + t j := by
  unfold dataMean affineData
  have hnq : (n : Rat) ≠ 0 := by exact_mod_cast (Nat.pos_iff_ne_zero.mp hn)
  rw [sumTo_add, sumTo_mul_left, sumTo_const]
  field_simp

theorem dataVar_affine (n : Nat) (x : Nat → Nat → Rat) (a t : Nat → Rat) (j : Nat) (hn : 0 < n) :
    dataVar n (affineData a t x) j = a j ^ 2 * dataVar n x j := by
  unfold dataVar
  rw [dataMean_affine n x a t j hn]
  have : sumTo n (fun i => (affineData a t x i j - (a j * dataMean n x j + t j)) ^ 2)
       = a j ^ 2 * sumTo n (fun i => (x i j - dataMean n x j) ^ 2) := by
    rw [← sumTo_mul_left]
    apply sumTo_congr; intro i _; unfold affineData; ring
  rw [this]; ring

theorem invPriorScale_affine (c : Rat) (n : Nat) (x : Nat → Nat → Rat) (a t : Nat → Rat) (j : Nat)
    (hn : 0 < n) :
    invPriorScale c n (affineData a t x) j = a j ^ 2 * invPriorScale c n x j := by
  unfold invPriorScale priorScale
  rw [dataVar_affine n x a t j hn]
  simp only [one_div, mul_inv_rev, inv_inv]
  ring

theorem empMean_affine (tiny : Rat) (n : Nat) (r : Nat → Rat) (x : Nat → Nat → Rat) (a t : Nat → Rat)
    (j : Nat) (ht : 0 < tiny) (hpop : tiny ≤ pop n r) :
    empMean tiny n r (affineData a t x) j = a j * empMean tiny n r x j + t j := by
  unfold empMean
  rw [sx_affine, max_eq_left hpop]
  have : pop n r ≠ 0 := by linarith
  field_simp

theorem empCovFull_affine (tiny : Rat) (n : Nat) (r : Nat → Rat) (x : Nat → Nat → Rat)
    (a t : Nat → Rat) (j l : Nat) (ht : 0 < tiny) (hpop : tiny ≤ pop n r) :
    empCovFull tiny n r (affineData a t x) j l = a j * a l * empCovFull tiny n r x j l := by
  unfold empCovFull
  rw [empMean_affine tiny n r x a t j ht hpop, empMean_affine tiny n r x a t l ht hpop,
    ← sumTo_mul_left]
  apply sumTo_congr; intro i _; unfold affineData; ring

theorem empCovDiag_affine (tiny : Rat) (n : Nat) (r : Nat → Rat) (x : Nat → Nat → Rat)
    (a t : Nat → Rat) (j : Nat) (ht : 0 < tiny) (hpop : tiny ≤ pop n r) :
    empCovDiag tiny n r (affineData a t x) j = a j ^ 2 * empCovDiag tiny n r x j := by
  unfold empCovDiag
  rw [empMean_affine tiny n r x a t j ht hpop, ← sumTo_mul_left]
  apply sumTo_congr; intro i _; unfold affineData; ring

/-! list sums -/

theorem list_sum_map_div (l : List Rat) (c : Rat) : (l.map (fun v => v / c)).sum = l.sum / c := by
  induction l with
  | nil => simp
  | cons a l ih => simp [ih, add_div]

theorem list_sum_map_add_div (l : List Rat) (a c : Rat) :
    (l.map (fun v => (v + a) / c)).sum = (l.sum + l.length * a) / c := by
  induction l with
  | nil => simp
  | cons b l ih =>
      simp only [List.map_cons, List.sum_cons, ih, List.length_cons, Nat.cast_add, Nat.cast_one]
      ring

theorem list_sum_nonneg {l : List Rat} (h : ∀ v ∈ l, 0 ≤ v) : 0 ≤ l.sum := by
  induction l with
  | nil => simp
  | cons a l ih =>
      simp only [List.sum_cons]
      have h1 := h a (by simp)
      have h2 := ih (fun v hv => h v (by simp [hv]))
      linarith

theorem zipWith_mul_nonneg : ∀ (a b : List Rat), (∀ v ∈ a, 0 ≤ v) → (∀ v ∈ b, 0 ≤ v) →
    ∀ v ∈ List.zipWith (· * ·) a b, 0 ≤ v
  | [], _, _, _ => by simp
  | _ :: _, [], _, _ => by simp
  | x :: xs, y :: ys, ha, hb => by
      intro v hv
      simp only [List.zipWith_cons_cons, List.mem_cons] at hv
      rcases hv with rfl | hv
      · exact mul_nonneg (ha x (by simp)) (hb y (by simp))
      · exact zipWith_mul_nonneg xs ys (fun v hv => ha v (by simp [hv])) (fun v hv => hb v (by simp [hv])) v hv

/-! `argmax` -/

theorem argmax_lt (f : Nat → Rat) (n : Nat) (hn : 0 < n) : argmax f n < n := by
  induction n with
  | zero => omega
  | succ n ih =>
      unfold argmax
      split_ifs
      · omega
      · rcases Nat.eq_zero_or_pos n with h0 | hpos
        · subst h0; simp [argmax]
        · have := ih hpos; omega

theorem argmax_ge (f : Nat → Rat) (n : Nat) : ∀ j, j < n → f j ≤ f (argmax f n) := by
  induction n with
  | zero => intro j hj; omega
  | succ n ih =>
      intro j hj
      unfold argmax
      split_ifs with h
      · rcases Nat.lt_succ_iff_lt_or_eq.mp hj with hlt | heq
        · exact le_of_lt (lt_of_le_of_lt (ih j hlt) h)
        · subst heq; exact le_refl _
      · rcases Nat.lt_succ_iff_lt_or_eq.mp hj with hlt | heq
        · exact ih j hlt
        · subst heq; exact not_lt.mp h

theorem argmax_first (f : Nat → Rat) (n : Nat) : ∀ j, j < argmax f n → f j < f (argmax f n) := by
  induction n with
  | zero => intro j hj; simp [argmax] at hj
  | succ n ih =>
      intro j hj
      unfold argmax at hj ⊢
      split_ifs at hj ⊢ with h
      · exact lt_of_le_of_lt (argmax_ge f n j hj) h
      · exact ih j hj

/-! array row writes -/

theorem writeRow_size (a : Array Rat) (pos : Nat) (vs : List Rat) : (writeRow a pos vs).size = a.size := by
  induction vs generalizing a pos with
  | nil => simp [writeRow]
  | cons v vs ih => simp [writeRow, ih]

theorem getD_setIfInBounds (a : Array Rat) (p i : Nat) (v : Rat) :
    (a.setIfInBounds p v).getD i 0 = if p = i ∧ p < a.size then v else a.getD i 0 := by
  simp only [Array.getD_eq_getD_getElem?, Array.getElem?_setIfInBounds]
  by_cases h : p = i
  · subst h
    by_cases h2 : p < a.size
    · simp [h2]
    · simp [h2]
  · simp [h]

theorem writeRow_getD (a : Array Rat) (pos : Nat) (vs : List Rat) (h : pos + vs.length ≤ a.size) (i : Nat) :
    (writeRow a pos vs).getD i 0 =
      if pos ≤ i ∧ i < pos + vs.length then vs.getD (i - pos) 0 else a.getD i 0 := by
  induction vs generalizing a pos with
  | nil => simp [writeRow]
  | cons v vs ih =>
      simp only [writeRow, List.length_cons] at h ⊢
      rw [ih (a.setIfInBounds pos v) (pos + 1) (by simp; omega)]
      by_cases h1 : pos + 1 ≤ i ∧ i < pos + 1 + vs.length
      · have h2 : pos ≤ i ∧ i < pos + (vs.length + 1) := by omega
        rw [if_pos h1, if_pos h2]
        have : i - pos = (i - (pos + 1)) + 1 := by omega
        rw [this, List.getD_cons_succ]
      · rw [if_neg h1, getD_setIfInBounds]
        by_cases h3 : pos = i
        · subst h3
          have h2 : pos ≤ pos ∧ pos < pos + (vs.length + 1) := by omega
          have h4 : pos = pos ∧ pos < a.size := ⟨rfl, by omega⟩
          rw [if_pos h2, if_pos h4]
          simp
        · have h2 : ¬ (pos ≤ i ∧ i < pos + (vs.length + 1)) := by omega
          have h4 : ¬ (pos = i ∧ pos < a.size) := fun hh => h3 hh.1
          rw [if_neg h2, if_neg h4]

/-! the sweep of `ve_step` -/

theorem veNormalize_length (tiny : Rat) (p : List Rat) : (veNormalize tiny p).length = p.length := by
  unfold veNormalize; split_ifs <;> simp

theorem flatPos_eq (g : Grid) (v : Nat × Nat × Nat) :
    (flatPos g v.1 v.2.1 v.2.2).toNat = voxIdx g v * g.K := by
  have : flatPos g v.1 v.2.1 v.2.2 = ((voxIdx g v * g.K : Nat) : Int) := by
    unfold flatPos voxIdx; push_cast; ring
  rw [this, Int.toNat_natCast]

theorem pair_inj (a b a' b' M : Nat) (hb : b < M) (hb' : b' < M) (h : a * M + b = a' * M + b') :
    a = a' ∧ b = b' := by
  rcases Nat.lt_trichotomy a a' with hlt | heq | hgt
  · have := Nat.mul_le_mul_right M (Nat.succ_le_of_lt hlt)
    rw [Nat.succ_mul] at this; omega
  · subst heq; omega
  · have := Nat.mul_le_mul_right M (Nat.succ_le_of_lt hgt)
    rw [Nat.succ_mul] at this; omega

theorem voxIdx_inj (g : Grid) (v w : Nat × Nat × Nat) (hv : inGrid g v) (hw : inGrid g w)
    (h : voxIdx g v = voxIdx g w) : v = w := by
  obtain ⟨x, y, z⟩ := v
  obtain ⟨x', y', z'⟩ := w
  unfold inGrid at hv hw; unfold voxIdx at h; simp only at hv hw h
  obtain ⟨h1, h2⟩ := pair_inj _ _ _ _ g.Z hv.2.2 hw.2.2 h
  obtain ⟨h3, h4⟩ := pair_inj _ _ _ _ g.Y hv.2.1 hw.2.1 h1
  subst h2 h3 h4; rfl

theorem voxIdx_lt (g : Grid) (v : Nat × Nat × Nat) (hv : inGrid g v) :
    voxIdx g v * g.K + g.K ≤ g.size := by
  obtain ⟨x, y, z⟩ := v
  unfold inGrid at hv; unfold voxIdx Grid.size; simp only at hv ⊢
  have h1 : (x * g.Y + y) + 1 ≤ g.X * g.Y := by
    have := Nat.mul_le_mul_right g.Y (Nat.succ_le_of_lt hv.1)
    rw [Nat.succ_mul] at this; omega
  have h2 : ((x * g.Y + y) * g.Z + z) + 1 ≤ g.X * g.Y * g.Z := by
    have := Nat.mul_le_mul_right g.Z h1
    rw [Nat.add_mul, Nat.one_mul] at this; omega
  have := Nat.mul_le_mul_right g.K h2
  rw [Nat.add_mul, Nat.one_mul] at this; exact this

theorem rows_disjoint (g : Grid) (v w : Nat × Nat × Nat) (hv : inGrid g v) (hw : inGrid g w)
    (hne : v ≠ w) : voxIdx g v * g.K + g.K ≤ voxIdx g w * g.K ∨ voxIdx g w * g.K + g.K ≤ voxIdx g v * g.K := by
  have : voxIdx g v ≠ voxIdx g w := fun h => hne (voxIdx_inj g v w hv hw h)
  rcases Nat.lt_or_gt_of_ne this with h | h
  · left
    have := Nat.mul_le_mul_right g.K (Nat.succ_le_of_lt h)
    rw [Nat.succ_mul] at this; exact this
  · right
    have := Nat.mul_le_mul_right g.K (Nat.succ_le_of_lt h)
    rw [Nat.succ_mul] at this; exact this

theorem veStepVoxel_size (g : Grid) (tiny : Rat) (U ppm : Array Rat) (ngb) (p : Pt) :
    (veStepVoxel g tiny U ngb ppm p.1 p.2.1 p.2.2).1.size = ppm.size := by
  unfold veStepVoxel; simp [writeRow_size]

theorem veStepVoxel_getD (g : Grid) (tiny : Rat) (U ppm : Array Rat) (ngb) (p : Pt)
    (hsize : ppm.size = g.size) (hp : ptOk g p) (i : Nat) :
    (veStepVoxel g tiny U ngb ppm p.1 p.2.1 p.2.2).1.getD i 0 =
      if voxIdx g p.1 * g.K ≤ i ∧ i < voxIdx g p.1 * g.K + g.K
      then (veNormalize tiny (List.zipWith (· * ·) p.2.1 p.2.2)).getD (i - voxIdx g p.1 * g.K) 0
      else ppm.getD i 0 := by
  have hlen : (veNormalize tiny (List.zipWith (· * ·) p.2.1 p.2.2)).length = g.K := by
    rw [veNormalize_length]; simp [hp.2.1, hp.2.2]
  unfold veStepVoxel
  simp only
  rw [flatPos_eq, writeRow_getD _ _ _ (by rw [hlen, hsize]; exact voxIdx_lt g p.1 hp.1), hlen]

theorem veStep_size (g : Grid) (tiny : Rat) (U : Array Rat) (ngb) (pts : List Pt) :
    ∀ ppm : Array Rat, (veStep g tiny U ngb ppm pts).1.size = ppm.size := by
  induction pts with
  | nil => intro ppm; simp [veStep]
  | cons p ps ih =>
      intro ppm
      obtain ⟨v, e, r⟩ := p
      simp only [veStep]
      rw [ih]; exact veStepVoxel_size g tiny U ppm ngb (v, e, r)

/-- entries outside the rows of the listed voxels are not touched by the sweep -/
theorem veStep_frame (g : Grid) (tiny : Rat) (U : Array Rat) (ngb) (pts : List Pt) :
    ∀ ppm : Array Rat, ppm.size = g.size → (∀ p ∈ pts, ptOk g p) → ∀ i,
      (∀ p ∈ pts, ¬ (voxIdx g p.1 * g.K ≤ i ∧ i < voxIdx g p.1 * g.K + g.K)) →
      (veStep g tiny U ngb ppm pts).1.getD i 0 = ppm.getD i 0 := by
  induction pts with
  | nil => intro ppm _ _ i _; simp [veStep]
  | cons p ps ih =>
      intro ppm hsize hok i hout
      obtain ⟨v, e, r⟩ := p
      simp only [veStep]
      rw [ih _ (by rw [veStepVoxel_size g tiny U ppm ngb (v, e, r)]; exact hsize)
        (fun q hq => hok q (List.mem_cons_of_mem _ hq)) i
        (fun q hq => hout q (List.mem_cons_of_mem _ hq))]
      rw [veStepVoxel_getD g tiny U ppm ngb (v, e, r) hsize (hok _ (List.mem_cons_self ..)) i]
      rw [if_neg (hout (v, e, r) (List.mem_cons_self ..))]

end NipyVerif.C13
