/-
C01 — lemmas for programs on general `CoordinateMap`s (arbitrary functions with an optional
inverse function): well-formedness invariant, graphs, relational meaning of every operation.
-/
import NipyVerif.Lemmas.C01C

namespace NipyVerif.C01
open Finset

def CMap.nin (M : CMap) : Nat := M.dom.names.length
def CMap.nout (M : CMap) : Nat := M.rng.names.length

/-- graph of a general map on tuples of the right length -/
def CMap.graph (M : CMap) : Rel := fun x y => x.length = M.nin ∧ y = M.fn x

/-- Well-formedness of a general map: the function sends tuples of the domain's length to tuples
    of the range's length, and a stored inverse function undoes it on both sides.  (What a user
    promises when handing `CoordinateMap(domain, range, function, inverse_function)`.) -/
structure CMap.wf (M : CMap) : Prop where
  len : ∀ x, x.length = M.nin → (M.fn x).length = M.nout
  inv : ∀ g, M.inv = some g →
    (∀ x, x.length = M.nin → g (M.fn x) = x) ∧
    (∀ y, y.length = M.nout → (g y).length = M.nin ∧ M.fn (g y) = y)

/-! ### affine pieces as general maps (`_as_coordinate_map`) -/

theorem inversePreserve_spec {A C : Aff} (h : inversePreserve A = some C) :
    ∃ B, inverse A = .ok (some B) ∧ ∀ y, C.apply y = B.apply y := by
  unfold inversePreserve at h
  cases hi : inverse A with
  | error e => rw [hi] at h; cases h
  | ok r =>
      cases r with
      | none => rw [hi] at h; cases h
      | some B =>
          rw [hi] at h
          simp only at h
          refine ⟨B, rfl, ?_⟩
          obtain ⟨_, b2, b3, _⟩ := inverse_ok hi
          split_ifs at h with hint hok
          · cases hm : mkAff A.rng A.dom B.aff A.dtype with
            | error e => rw [hm] at h; cases h
            | ok C' =>
                rw [hm] at h
                simp only [Option.some.injEq] at h
                subst h
                obtain ⟨_, _, m3, _⟩ := mkAff_ok hm
                obtain ⟨m4, m5⟩ := mkAff_nin hm
                intro y
                exact apply_congr C' B y y (by rw [m4, b2]; rfl) (by rw [m5, b3]; rfl)
                  (fun i j _ _ => by rw [m3]) (fun _ _ => rfl)
          · simp only [Option.some.injEq] at h
            subst h
            intro y; rfl

theorem toCMap_graph (A : Aff) : (toCMap A).graph = A.graph := rfl

theorem toCMap_wf {A : Aff} (hA : A.bottomExact) : (toCMap A).wf := by
  constructor
  · intro x _
    show (A.apply x).length = A.nout
    exact apply_length A x
  · intro g hg
    have hg' : (inversePreserve A).map (fun B => B.apply) = some g := hg
    cases hp : inversePreserve A with
    | none => rw [hp] at hg'; cases hg'
    | some C =>
        rw [hp] at hg'
        simp only [Option.map_some, Option.some.injEq] at hg'
        subst hg'
        obtain ⟨B, hB, hCB⟩ := inversePreserve_spec hp
        obtain ⟨_, b2, b3, _⟩ := inverse_ok hB
        constructor
        · intro x hx
          show C.apply (A.apply x) = x
          rw [hCB]
          exact inverse_left' hB hA x hx
        · intro y hy
          show (C.apply y).length = A.nin ∧ A.apply (C.apply y) = y
          rw [hCB]
          exact ⟨by rw [apply_length, b3], inverse_right' hB y hy⟩

/-! ### `_compose_cmaps` -/

theorem cstep_ok {cur cm c : CMap} (h : cstep cur cm = .ok c) :
    cm.dom = cur.rng ∧ c.dom = cur.dom ∧ c.rng = cm.rng ∧ (∀ x, c.fn x = cm.fn (cur.fn x)) ∧
    c.inv = (match cm.inv, cur.inv with
      | some gi, some ci => some fun y => ci (gi y)
      | _, _ => none) := by
  unfold cstep at h
  split_ifs at h with hg
  simp only [Except.ok.injEq] at h
  subst h
  exact ⟨hg, rfl, rfl, fun _ => rfl, rfl⟩

theorem cstep_graph {cur cm c : CMap} (h : cstep cur cm = .ok c) (hcur : cur.wf) (hcm : cm.wf) :
    c.wf ∧ c.graph = relComp cm.graph cur.graph := by
  obtain ⟨h1, h2, h3, h4, h5⟩ := cstep_ok h
  have hm : cm.nin = cur.nout := by simp [CMap.nin, CMap.nout, h1]
  have hcin : c.nin = cur.nin := by simp [CMap.nin, h2]
  have hcout : c.nout = cm.nout := by simp [CMap.nout, h3]
  refine ⟨⟨?_, ?_⟩, ?_⟩
  · intro x hx
    rw [h4, hcout]
    exact hcm.len _ (by rw [hm]; exact hcur.len x (by rw [← hcin]; exact hx))
  · intro g hg
    rw [h5] at hg
    cases hgi : cm.inv with
    | none => rw [hgi] at hg; cases hg
    | some gi =>
        cases hci : cur.inv with
        | none => rw [hgi, hci] at hg; cases hg
        | some ci =>
            rw [hgi, hci] at hg
            simp only [Option.some.injEq] at hg
            subst hg
            obtain ⟨m1, m2⟩ := hcm.inv gi hgi
            obtain ⟨c1, c2⟩ := hcur.inv ci hci
            constructor
            · intro x hx
              rw [hcin] at hx
              show ci (gi (c.fn x)) = x
              rw [h4, m1 _ (by rw [hm]; exact hcur.len x hx), c1 x hx]
            · intro y hy
              rw [hcout] at hy
              obtain ⟨l1, e1⟩ := m2 y hy
              obtain ⟨l2, e2⟩ := c2 (gi y) (by rw [← hm]; exact l1)
              show (ci (gi y)).length = c.nin ∧ c.fn (ci (gi y)) = y
              rw [h4, e2, e1, hcin]
              exact ⟨l2, rfl⟩
  · funext x y
    apply propext
    constructor
    · rintro ⟨hx, hy⟩
      rw [hcin] at hx
      exact ⟨cur.fn x, ⟨hx, rfl⟩, ⟨by rw [hm]; exact hcur.len x hx, by rw [hy, h4]⟩⟩
    · rintro ⟨z, ⟨hx, rfl⟩, ⟨_, hy⟩⟩
      exact ⟨by rw [hcin]; exact hx, by rw [hy, h4]⟩

theorem ccomposeFrom_graph (l : List CMap) : ∀ (cur C : CMap), ccomposeFrom cur l = .ok C →
    cur.wf → (∀ M ∈ l, M.wf) →
    C.wf ∧ C.graph = l.foldl (fun R M => relComp M.graph R) cur.graph := by
  induction l with
  | nil =>
      intro cur C h hc _
      simp only [ccomposeFrom, Except.ok.injEq] at h
      subst h
      exact ⟨hc, rfl⟩
  | cons cm rest ih =>
      intro cur C h hc hl
      simp only [ccomposeFrom] at h
      cases hs : cstep cur cm with
      | error e => rw [hs] at h; cases h
      | ok c =>
          rw [hs] at h
          obtain ⟨hw, hg⟩ := cstep_graph hs hc (hl cm List.mem_cons_self)
          obtain ⟨h1, h2⟩ := ih c C h hw (fun M hM => hl M (List.mem_cons_of_mem _ hM))
          refine ⟨h1, ?_⟩
          rw [h2, hg]
          rfl

theorem relComp_idRel_c (M : CMap) : relComp M.graph (idRel M.nin) = M.graph := by
  funext x y
  apply propext
  constructor
  · rintro ⟨z, ⟨_, rfl⟩, h⟩; exact h
  · intro h; exact ⟨x, ⟨h.1, rfl⟩, h⟩

/-- `compose(M₁, …, Mₙ)` of general maps denotes the relational composition of the graphs and
    keeps the invariant -/
theorem ccomposeList_graph {l : List CMap} {C : CMap} (h : ccomposeList l = .ok C)
    (hl : ∀ M ∈ l, M.wf) : C.wf ∧ C.graph = composeRel (l.map CMap.graph) := by
  unfold ccomposeList at h
  cases hr : l.reverse with
  | nil => rw [hr] at h; cases h
  | cons last rest =>
      rw [hr] at h
      simp only at h
      have hmem : ∀ M ∈ last :: rest, M.wf := by
        intro M hM
        apply hl M
        have : M ∈ l.reverse := by rw [hr]; exact hM
        exact List.mem_reverse.mp this
      have hI : (⟨last.dom, last.dom, fun x => x, some fun x => x⟩ : CMap).wf := by
        constructor
        · intro x hx; exact hx
        · intro g hg
          simp only [Option.some.injEq] at hg
          subst hg
          exact ⟨fun _ _ => rfl, fun y hy => ⟨hy, rfl⟩⟩
      obtain ⟨h1, h2⟩ := ccomposeFrom_graph (last :: rest) _ C h hI hmem
      refine ⟨h1, ?_⟩
      have hl' : l = rest.reverse ++ [last] := by
        have : l = (last :: rest).reverse := by rw [← hr, List.reverse_reverse]
        simpa using this
      have hi0 : (⟨last.dom, last.dom, fun x => x, some fun x => x⟩ : CMap).graph = idRel last.nin := rfl
      rw [h2, List.foldl_cons, hi0, relComp_idRel_c, hl', composeRel, List.map_append, List.foldr_append,
        List.map_cons, List.map_nil, List.foldr_cons, List.foldr_nil, relComp_eq, List.foldr_map,
        List.foldr_reverse]

theorem ccomposeList_pair_cs {M N C : CMap} (h : ccomposeList [M, N] = .ok C) :
    C.dom = N.dom ∧ C.rng = M.rng := by
  unfold ccomposeList at h
  simp only [List.reverse_cons, List.reverse_nil, List.nil_append, List.cons_append,
    ccomposeFrom, cstep, if_true] at h
  split_ifs at h with hg
  simp only [Except.ok.injEq] at h
  subst h
  exact ⟨rfl, rfl⟩

/-- composing with an affine piece on the right (`M ∘ P`) -/
theorem ccompose_right {M C : CMap} {P : Aff} (h : ccomposeList [M, toCMap P] = .ok C)
    (hM : M.wf) (hP : P.bottomExact) :
    C.wf ∧ C.graph = relComp M.graph P.graph ∧ C.dom = P.dom ∧ C.rng = M.rng := by
  obtain ⟨hw, hg⟩ := ccomposeList_graph h (by
    intro X hX
    simp only [List.mem_cons, List.mem_nil_iff, or_false] at hX
    rcases hX with rfl | rfl
    · exact hM
    · exact toCMap_wf hP)
  obtain ⟨c1, c2⟩ := ccomposeList_pair_cs h
  refine ⟨hw, ?_, c1, c2⟩
  rw [hg]
  simp only [composeRel, List.map_cons, List.map_nil, List.foldr_cons, List.foldr_nil, relComp_eq,
    toCMap_graph]

/-- composing with an affine piece on the left (`P ∘ M`) -/
theorem ccompose_left {M C : CMap} {P : Aff} (h : ccomposeList [toCMap P, M] = .ok C)
    (hM : M.wf) (hP : P.bottomExact) :
    C.wf ∧ C.graph = relComp P.graph M.graph ∧ C.dom = M.dom ∧ C.rng = P.rng := by
  obtain ⟨hw, hg⟩ := ccomposeList_graph h (by
    intro X hX
    simp only [List.mem_cons, List.mem_nil_iff, or_false] at hX
    rcases hX with rfl | rfl
    · exact toCMap_wf hP
    · exact hM)
  obtain ⟨c1, c2⟩ := ccomposeList_pair_cs h
  refine ⟨hw, ?_, c1, c2⟩
  rw [hg]
  simp only [composeRel, List.map_cons, List.map_nil, List.foldr_cons, List.foldr_nil, relComp_eq,
    toCMap_graph]

/-! ### `_product_cmaps` -/

theorem cgo_nil (x : List Rat) : cproduct.go [] x = [] := by simp [cproduct.go]

theorem cgo_cons (M : CMap) (rest : List CMap) (x : List Rat) :
    cproduct.go (M :: rest) x = M.fn (x.take M.dom.names.length) ++ cproduct.go rest (x.drop M.dom.names.length) := by
  simp [cproduct.go]

theorem cprodRel_graph (l : List CMap) : ∀ x y, prodRel (l.map CMap.graph) x y ↔
    x.length = sumNat (l.map CMap.nin) ∧ y = cproduct.go l x := by
  induction l with
  | nil =>
      intro x y
      simp [prodRel, sumNat, cgo_nil]
  | cons M rest ih =>
      intro x y
      simp only [List.map_cons, prodRel, sumNat_cons, cgo_cons]
      constructor
      · rintro ⟨x1, x2, y1, y2, rfl, rfl, ⟨hx1, rfl⟩, h2⟩
        obtain ⟨hx2, rfl⟩ := (ih x2 y2).mp h2
        have hx1' : x1.length = M.dom.names.length := hx1
        refine ⟨by simp [hx1, hx2], ?_⟩
        rw [← hx1', List.take_left, List.drop_left]
      · rintro ⟨hx, rfl⟩
        have hn : M.nin = M.dom.names.length := rfl
        refine ⟨x.take M.dom.names.length, x.drop M.dom.names.length, _, _,
          (List.take_append_drop _ _).symm, rfl, ⟨by simp [CMap.nin]; omega, rfl⟩,
          (ih _ _).mpr ⟨by simp; omega, rfl⟩⟩

theorem cgo_length (l : List CMap) (hl : ∀ M ∈ l, M.wf) : ∀ x, x.length = sumNat (l.map CMap.nin) →
    (cproduct.go l x).length = sumNat (l.map CMap.nout) := by
  induction l with
  | nil => intro x _; simp [cgo_nil, sumNat]
  | cons M rest ih =>
      intro x hx
      simp only [List.map_cons, sumNat_cons] at hx ⊢
      have hn : M.nin = M.dom.names.length := rfl
      rw [cgo_cons, List.length_append, (hl M List.mem_cons_self).len _ (by simp [CMap.nin]; omega),
        ih (fun X hX => hl X (List.mem_cons_of_mem _ hX)) _ (by simp; omega)]

theorem length_flatMap_cdom (l : List CMap) :
    (l.flatMap fun M => M.dom.names).length = sumNat (l.map CMap.nin) := by
  induction l with
  | nil => simp [sumNat]
  | cons M rest ih => simp [List.flatMap_cons, sumNat_cons, ih, CMap.nin]

theorem length_flatMap_crng (l : List CMap) :
    (l.flatMap fun M => M.rng.names).length = sumNat (l.map CMap.nout) := by
  induction l with
  | nil => simp [sumNat]
  | cons M rest ih => simp [List.flatMap_cons, sumNat_cons, ih, CMap.nout]

/-- `product(M₁, …, Mₙ)` of general maps acts block-wise (and carries no inverse) -/
theorem cproduct_graph {l : List CMap} {C : CMap} {i o : String} (h : cproduct l i o = .ok C)
    (hl : ∀ M ∈ l, M.wf) : C.wf ∧ C.graph = prodRel (l.map CMap.graph) := by
  unfold cproduct at h
  simp only at h
  cases h1 : mkCS (l.flatMap fun M => M.dom.names) i (joinAll (l.map fun M => M.dom.dtype)) with
  | error e => rw [h1] at h; cases h
  | ok d =>
      rw [h1] at h
      simp only at h
      cases h2 : mkCS (l.flatMap fun M => M.rng.names) o (joinAll (l.map fun M => M.rng.dtype)) with
      | error e => rw [h2] at h; cases h
      | ok r =>
          rw [h2] at h
          simp only [Except.ok.injEq] at h
          subst h
          obtain ⟨rfl, _⟩ := mkCS_ok h1
          obtain ⟨rfl, _⟩ := mkCS_ok h2
          have hin : ∀ (g : List Rat → List Rat) (iv : Option (List Rat → List Rat)),
              (CMap.mk ⟨l.flatMap fun M => M.dom.names, i, joinAll (l.map fun M => M.dom.dtype)⟩
                ⟨l.flatMap fun M => M.rng.names, o, joinAll (l.map fun M => M.rng.dtype)⟩ g iv).nin
                = sumNat (l.map CMap.nin) := fun _ _ => length_flatMap_cdom l
          have hout : ∀ (g : List Rat → List Rat) (iv : Option (List Rat → List Rat)),
              (CMap.mk ⟨l.flatMap fun M => M.dom.names, i, joinAll (l.map fun M => M.dom.dtype)⟩
                ⟨l.flatMap fun M => M.rng.names, o, joinAll (l.map fun M => M.rng.dtype)⟩ g iv).nout
                = sumNat (l.map CMap.nout) := fun _ _ => length_flatMap_crng l
          refine ⟨⟨?_, ?_⟩, ?_⟩
          · intro x hx
            rw [hin] at hx
            rw [hout]
            exact cgo_length l hl x hx
          · intro g hg
            cases hg
          · funext x y
            apply propext
            rw [cprodRel_graph]
            unfold CMap.graph
            rw [hin]

/-! ### graphs of the affine pieces used by reorder / rename / shift -/

theorem permAff_graph {n : Nat} {ord : List Nat} (hp : ord.Perm (List.range n)) (Pm : Aff)
    (hin : Pm.nin = n) (hout : Pm.nout = n) (haff : Pm.aff = permMat n ord) :
    Pm.graph = fun x z => z.length = n ∧ x = ord.map (fun k => z.getD k 0) := by
  have hlen : ord.length = n := by simpa using hp.length_eq
  have key : ∀ z : List Rat, z.length = n → Pm.apply (ord.map fun k => z.getD k 0) = z := by
    intro z hz
    apply list_eq_of_getD (by rw [apply_length, hout, hz])
    intro j hj
    exact permAff_apply hp Pm hin hout haff z (by omega)
  funext x z
  apply propext
  constructor
  · rintro ⟨hx, rfl⟩
    rw [hin] at hx
    have hx' := perm_unperm hp x hx
    have hu : Pm.apply x = unperm ord n x := by
      conv_lhs => rw [← hx']
      exact key (unperm ord n x) (by simp [unperm])
    refine ⟨by rw [apply_length, hout], ?_⟩
    rw [hu]
    exact hx'.symm
  · rintro ⟨hz, rfl⟩
    exact ⟨by rw [hin]; simpa using hlen, (key z hz).symm⟩

theorem permAffT_graph {n : Nat} {ord : List Nat} (hp : ord.Perm (List.range n)) (Pm : Aff)
    (hin : Pm.nin = n) (hout : Pm.nout = n) (haff : Pm.aff = transposeMat (n + 1) (permMat n ord)) :
    Pm.graph = fun y0 y => y0.length = n ∧ y = ord.map (fun k => y0.getD k 0) := by
  have hlen : ord.length = n := by simpa using hp.length_eq
  have key : ∀ y0 : List Rat, Pm.apply y0 = ord.map fun k => y0.getD k 0 := by
    intro y0
    apply List.ext_getElem (by simp [apply_length, hout, hlen])
    intro i h1 h2
    have hi : i < n := by simpa [apply_length, hout] using h1
    have := permAffT_apply hp Pm hin hout haff y0 hi
    simp only [List.getD_eq_getElem?_getD, List.getElem?_eq_getElem h1, Option.getD_some] at this
    rw [this]
    simp [List.getD_eq_getElem?_getD, List.getElem?_eq_getElem (show i < ord.length by omega)]
  funext y0 y
  apply propext
  unfold Aff.graph
  rw [hin, key]

theorem idAff_graph {d r : CoordSys} {dt : DType} {I : Aff} (hlen : d.names.length = r.names.length)
    (h : mkAff d r (idMat (d.names.length + 1)) dt = .ok I) :
    I.bottomExact ∧ I.graph = idRel d.names.length := by
  obtain ⟨hb, hid⟩ := idAff_props hlen h
  obtain ⟨h4, h5⟩ := mkAff_nin h
  refine ⟨hb, ?_⟩
  have key : ∀ x : List Rat, x.length = d.names.length → I.apply x = x := by
    intro x hx
    apply list_eq_of_getD (by rw [apply_length, h5, ← hlen, hx])
    intro j hj
    exact hid x j (by omega)
  funext x y
  apply propext
  constructor
  · rintro ⟨hx, hy⟩
    rw [h4] at hx
    exact ⟨hx, by rw [hy, key x hx]⟩
  · rintro ⟨hx, hy⟩
    exact ⟨by rw [h4]; exact hx, by rw [hy, key x hx]⟩

theorem shiftAff_graph (S : Aff) (n : Nat) (hin : S.nin = n) (hout : S.nout = n) (d : List Rat)
    (haff : S.aff = shiftMat n d) :
    S.bottomExact ∧ S.graph = fun x z => x.length = n ∧
      z = (List.range n).map fun i => x.getD i 0 + d.getD i 0 := by
  obtain ⟨hb, ha⟩ := shiftAff_props S n hin hout d haff
  refine ⟨hb, ?_⟩
  have key : ∀ x : List Rat, S.apply x = (List.range n).map fun i => x.getD i 0 + d.getD i 0 := by
    intro x
    apply list_eq_of_getD (by simp [apply_length, hout])
    intro j hj
    simp only [List.length_map, List.length_range] at hj
    rw [ha x j hj, getD_map_range _ hj]
  funext x z
  unfold Aff.graph
  rw [hin, key]

/-! ### operations on general maps, relationally -/

theorem creorderedDomain_graph {M N : CMap} {o : Order} (hM : M.wf) (h : creorderedDomain M o = .ok N) :
    N.wf ∧ ∃ ord ncs, reorderCS M.dom o = .ok (ord, ncs) ∧
      N.graph = fun x y => ∃ x0, M.graph x0 y ∧ x = ord.map (fun k => x0.getD k 0) := by
  unfold creorderedDomain at h
  cases hcs : reorderCS M.dom o with
  | error e => rw [hcs] at h; cases h
  | ok p =>
      obtain ⟨ord, ncs⟩ := p
      rw [hcs] at h
      simp only at h
      have hp : ord.Perm (List.range M.dom.names.length) := reorderCS_perm hcs
      have hlen : ord.length = M.dom.names.length := by simpa using hp.length_eq
      obtain ⟨hn1, _, _⟩ := reorderCS_ok hcs
      split_ifs at h with hid
      · simp only [Except.ok.injEq] at h
        subst h
        have hord := permMat_id_order hp hid
        refine ⟨hM, ord, ncs, rfl, ?_⟩
        funext x y
        apply propext
        constructor
        · rintro ⟨hx, hy⟩
          refine ⟨x, ⟨hx, hy⟩, ?_⟩
          rw [hord]
          have := map_getD_range x 0
          rw [hx] at this
          exact this.symm
        · rintro ⟨x0, ⟨hx0, hy⟩, rfl⟩
          rw [hord]
          have := map_getD_range x0 0
          rw [hx0] at this
          rw [show M.dom.names.length = M.nin from rfl, this]
          exact ⟨hx0, hy⟩
      · cases hm : mkAff ncs M.dom (permMat M.dom.names.length ord) M.dom.dtype with
        | error e => rw [hm] at h; cases h
        | ok Pm =>
            rw [hm] at h
            simp only at h
            obtain ⟨_, _, m3, _⟩ := mkAff_ok hm
            obtain ⟨m4, m5⟩ := mkAff_nin hm
            have hpin : Pm.nin = M.dom.names.length := by rw [m4, hn1]; simpa using hlen
            have hPb : Pm.bottomExact := by
              have := permMat_bottom hp
              constructor
              · intro j hj
                rw [m3, m5]; exact this.1 j (by omega)
              · rw [m3, m5, hpin]; exact this.2
            obtain ⟨hw, hg, _, _⟩ := ccompose_right h hM hPb
            refine ⟨hw, ord, ncs, rfl, ?_⟩
            rw [hg, permAff_graph hp Pm hpin m5 m3]
            funext x y
            apply propext
            constructor
            · rintro ⟨z, ⟨_, hx⟩, hz⟩
              exact ⟨z, hz, hx⟩
            · rintro ⟨x0, hx0, hx⟩
              exact ⟨x0, ⟨hx0.1, hx⟩, hx0⟩

theorem creorderedRange_graph {M N : CMap} {o : Order} (hM : M.wf) (h : creorderedRange M o = .ok N) :
    N.wf ∧ ∃ ord ncs, reorderCS M.rng o = .ok (ord, ncs) ∧
      N.graph = fun x y => ∃ y0, M.graph x y0 ∧ y = ord.map (fun k => y0.getD k 0) := by
  unfold creorderedRange at h
  cases hcs : reorderCS M.rng o with
  | error e => rw [hcs] at h; cases h
  | ok p =>
      obtain ⟨ord, ncs⟩ := p
      rw [hcs] at h
      simp only at h
      have hp : ord.Perm (List.range M.rng.names.length) := reorderCS_perm hcs
      have hlen : ord.length = M.rng.names.length := by simpa using hp.length_eq
      obtain ⟨hn1, _, _⟩ := reorderCS_ok hcs
      split_ifs at h with hid
      · simp only [Except.ok.injEq] at h
        subst h
        have hord := permMat_id_order hp hid
        refine ⟨hM, ord, ncs, rfl, ?_⟩
        funext x y
        apply propext
        constructor
        · rintro ⟨hx, hy⟩
          refine ⟨y, ⟨hx, hy⟩, ?_⟩
          have hyl : y.length = M.rng.names.length := by rw [hy]; exact hM.len x hx
          rw [hord]
          have := map_getD_range y 0
          rw [hyl] at this
          exact this.symm
        · rintro ⟨y0, ⟨hx, hy0⟩, rfl⟩
          have hyl : y0.length = M.rng.names.length := by rw [hy0]; exact hM.len x hx
          rw [hord]
          have := map_getD_range y0 0
          rw [hyl] at this
          rw [this]
          exact ⟨hx, hy0⟩
      · cases hm : mkAff M.rng ncs (transposeMat (M.rng.names.length + 1) (permMat M.rng.names.length ord))
            M.rng.dtype with
        | error e => rw [hm] at h; cases h
        | ok Pm =>
            rw [hm] at h
            simp only at h
            obtain ⟨_, _, m3, _⟩ := mkAff_ok hm
            obtain ⟨m4, m5⟩ := mkAff_nin hm
            have hpout : Pm.nout = M.rng.names.length := by rw [m5, hn1]; simpa using hlen
            have hPb : Pm.bottomExact := by
              have := permMat_bottom hp
              constructor
              · intro j hj
                rw [m3, hpout, transposeMat, get_mkMat _ (by omega) (by omega),
                  permMat_get ord (by omega) le_rfl, if_neg]
                rintro (⟨h, _⟩ | h)
                · omega
                · rw [List.getElem?_eq_none (by omega)] at h; cases h
              · rw [m3, hpout, m4, transposeMat, get_mkMat _ (by omega) (by omega)]
                exact this.2
            obtain ⟨hw, hg, _, _⟩ := ccompose_left h hM hPb
            refine ⟨hw, ord, ncs, rfl, ?_⟩
            rw [hg, permAffT_graph hp Pm m4 hpout m3]
            funext x y
            apply propext
            constructor
            · rintro ⟨z, hz, ⟨_, hy⟩⟩
              exact ⟨z, hz, hy⟩
            · rintro ⟨y0, hy0, hy⟩
              refine ⟨y0, hy0, ⟨?_, hy⟩⟩
              rw [hy0.2]; exact hM.len x hy0.1

theorem crenamedDomain_graph {M N : CMap} {kv : List (Key × String)} (hM : M.wf)
    (h : crenamedDomain M kv = .ok N) : N.wf ∧ N.graph = M.graph := by
  unfold crenamedDomain at h
  cases hr : renameCS M.dom kv with
  | error e => rw [hr] at h; cases h
  | ok ncs =>
      rw [hr] at h
      simp only at h
      obtain ⟨d, _, _, hn, _, _⟩ := renameCS_ok hr
      have hlen : ncs.names.length = M.dom.names.length := by rw [hn]; simp
      cases hm : mkAff ncs M.dom (idMat (M.dom.names.length + 1)) M.dom.dtype with
      | error e => rw [hm] at h; cases h
      | ok I =>
          rw [hm] at h
          simp only at h
          have hm' : mkAff ncs M.dom (idMat (ncs.names.length + 1)) M.dom.dtype = .ok I := by
            rw [hlen]; exact hm
          obtain ⟨hIb, hIg⟩ := idAff_graph hlen hm'
          obtain ⟨hw, hg, _, _⟩ := ccompose_right h hM hIb
          refine ⟨hw, ?_⟩
          rw [hg, hIg, hlen]
          exact relComp_idRel_c M

theorem crenamedRange_graph {M N : CMap} {kv : List (Key × String)} (hM : M.wf)
    (h : crenamedRange M kv = .ok N) : N.wf ∧ N.graph = M.graph := by
  unfold crenamedRange at h
  cases hr : renameCS M.rng kv with
  | error e => rw [hr] at h; cases h
  | ok ncs =>
      rw [hr] at h
      simp only at h
      obtain ⟨d, _, _, hn, _, _⟩ := renameCS_ok hr
      have hlen : M.rng.names.length = ncs.names.length := by rw [hn]; simp
      cases hm : mkAff M.rng ncs (idMat (M.rng.names.length + 1)) M.rng.dtype with
      | error e => rw [hm] at h; cases h
      | ok I =>
          rw [hm] at h
          simp only at h
          obtain ⟨hIb, hIg⟩ := idAff_graph hlen hm
          obtain ⟨hw, hg, _, _⟩ := ccompose_left h hM hIb
          refine ⟨hw, ?_⟩
          rw [hg, hIg]
          funext x y
          apply propext
          constructor
          · rintro ⟨z, hz, ⟨_, rfl⟩⟩; exact hz
          · intro hxy
            exact ⟨y, hxy, ⟨by rw [hxy.2]; exact hM.len x hxy.1, rfl⟩⟩

theorem cinverse_graph {M N : CMap} (hM : M.wf) (h : M.inverse = some N) :
    N.wf ∧ N.graph = fun x y => M.graph y x := by
  unfold CMap.inverse at h
  cases hi : M.inv with
  | none => rw [hi] at h; cases h
  | some g =>
      rw [hi] at h
      simp only [Option.some.injEq] at h
      subst h
      obtain ⟨g1, g2⟩ := hM.inv g hi
      refine ⟨⟨?_, ?_⟩, ?_⟩
      · intro x hx
        exact (g2 x hx).1
      · intro g' hg'
        simp only [Option.some.injEq] at hg'
        subst hg'
        exact ⟨fun x hx => (g2 x hx).2, fun y hy => ⟨hM.len y hy, g1 y hy⟩⟩
      · funext x y
        apply propext
        constructor
        · rintro ⟨hx, rfl⟩
          exact ⟨(g2 x hx).1, ((g2 x hx).2).symm⟩
        · rintro ⟨hy, rfl⟩
          exact ⟨hM.len y hy, (g1 y hy).symm⟩

theorem cshiftedDomain_graph {M N : CMap} {diff : List Rat} {nm : String} (hM : M.wf)
    (h : cshiftedDomainOrigin M diff nm = .ok N) :
    N.wf ∧ ∃ d, bcastInto M.dom.names.length M.dom.dtype diff = .ok d ∧
      N.graph = fun x y => x.length = M.dom.names.length ∧
        M.graph ((List.range M.dom.names.length).map fun i => x.getD i 0 + d.getD i 0) y := by
  unfold cshiftedDomainOrigin at h
  cases hc : mkCS M.dom.names nm M.dom.dtype with
  | error e => rw [hc] at h; cases h
  | ok ncs =>
      rw [hc] at h
      simp only at h
      obtain ⟨rfl, _⟩ := mkCS_ok hc
      cases hb : bcastInto M.dom.names.length M.dom.dtype diff with
      | error e => rw [hb] at h; cases h
      | ok d =>
          rw [hb] at h
          simp only at h
          cases hm : mkAff ⟨M.dom.names, nm, M.dom.dtype⟩ M.dom (shiftMat M.dom.names.length d) M.dom.dtype with
          | error e => rw [hm] at h; cases h
          | ok S =>
              rw [hm] at h
              simp only at h
              obtain ⟨_, _, m3, _⟩ := mkAff_ok hm
              obtain ⟨m4, m5⟩ := mkAff_nin hm
              obtain ⟨hSb, hSg⟩ := shiftAff_graph S M.dom.names.length m4 m5 d m3
              obtain ⟨hw, hg, _, _⟩ := ccompose_right h hM hSb
              refine ⟨hw, d, rfl, ?_⟩
              rw [hg, hSg]
              funext x y
              apply propext
              constructor
              · rintro ⟨z, ⟨hx, rfl⟩, hz⟩; exact ⟨hx, hz⟩
              · rintro ⟨hx, hz⟩; exact ⟨_, ⟨hx, rfl⟩, hz⟩

theorem cshiftedRange_graph {M N : CMap} {diff : List Rat} {nm : String} (hM : M.wf)
    (h : cshiftedRangeOrigin M diff nm = .ok N) :
    N.wf ∧ ∃ d, bcastInto M.rng.names.length M.rng.dtype (diff.map fun q => -q) = .ok d ∧
      N.graph = fun x y => ∃ y0, M.graph x y0 ∧
        y = (List.range M.rng.names.length).map fun i => y0.getD i 0 + d.getD i 0 := by
  unfold cshiftedRangeOrigin at h
  cases hc : mkCS M.rng.names nm M.rng.dtype with
  | error e => rw [hc] at h; cases h
  | ok ncs =>
      rw [hc] at h
      simp only at h
      obtain ⟨rfl, _⟩ := mkCS_ok hc
      cases hb : bcastInto M.rng.names.length M.rng.dtype (diff.map fun q => -q) with
      | error e => rw [hb] at h; cases h
      | ok d =>
          rw [hb] at h
          simp only at h
          cases hm : mkAff M.rng ⟨M.rng.names, nm, M.rng.dtype⟩ (shiftMat M.rng.names.length d) M.rng.dtype with
          | error e => rw [hm] at h; cases h
          | ok S =>
              rw [hm] at h
              simp only at h
              obtain ⟨_, _, m3, _⟩ := mkAff_ok hm
              obtain ⟨m4, m5⟩ := mkAff_nin hm
              obtain ⟨hSb, hSg⟩ := shiftAff_graph S M.rng.names.length m4 m5 d m3
              obtain ⟨hw, hg, _, _⟩ := ccompose_left h hM hSb
              refine ⟨hw, d, rfl, ?_⟩
              rw [hg, hSg]
              funext x y
              apply propext
              constructor
              · rintro ⟨z, hz, ⟨_, hy⟩⟩; exact ⟨z, hz, hy⟩
              · rintro ⟨y0, hy0, hy⟩
                exact ⟨y0, hy0, ⟨by rw [hy0.2]; exact hM.len x hy0.1, hy⟩⟩

/-! ### helpers for the program theorem -/

theorem map_toCMap_graph (L : List Aff) : (L.map toCMap).map CMap.graph = L.map Aff.graph := by
  rw [List.map_map]
  rfl

theorem toCMap_all_wf {ls : List RawMap} {L : List Aff} (hL : buildAll ls = .ok L)
    (he : ls.all RawMap.exactB = true) : ∀ X ∈ L.map toCMap, X.wf := by
  intro X hX
  obtain ⟨A, hA, rfl⟩ := List.mem_map.mp hX
  exact toCMap_wf (buildAll_exact hL he A hA)

theorem shearFn_length (c : Rat) (x : List Rat) : (shearFn c x).length = x.length := by
  cases x <;> simp [shearFn]

theorem shearFn_inv (c : Rat) (x : List Rat) : shearFn (-c) (shearFn c x) = x := by
  cases x with
  | nil => rfl
  | cons x0 r =>
      simp only [shearFn, List.map_map, List.cons.injEq, true_and]
      conv_rhs => rw [← List.map_id r]
      apply List.map_congr_left
      intro v _
      simp only [Function.comp, id]
      ring


end NipyVerif.C01
