/-
C20 — helper lemmas about the C macros re-emitted in `Gen/C20Kernels.lean`
(truncating cast, FLOOR / UROUND / UNSIGNED_CEIL) and row-major addressing over `Int`.
-/
import NipyVerif.Gen.C20Kernels
import Mathlib.Tactic.Ring
import Mathlib.Tactic.Linarith
import Mathlib.Algebra.Order.Floor.Ring
import Mathlib.Data.Rat.Floor

namespace NipyVerif.C20
open Kern

theorem rat_floor_eq (a : Rat) : a.floor = ⌊a⌋ := rfl

theorem truncC_nonneg {a : Rat} (h : 0 ≤ a) : truncC a = ⌊a⌋ := by
  simp [truncC, h, rat_floor_eq]

theorem truncC_neg {a : Rat} (h : a < 0) : truncC a = -⌊-a⌋ := by
  simp [truncC, not_le.mpr h, rat_floor_eq]

/-- one step of row-major addressing over `Int`: `0 ≤ i < n`, `0 ≤ r < m` ⇒ `0 ≤ i*m + r < n*m` -/
theorem rowMajor_step (i n r m : Int) (hi0 : 0 ≤ i) (hi : i < n) (hr0 : 0 ≤ r) (hr : r < m) :
    0 ≤ i * m + r ∧ i * m + r < n * m := by
  have hm : 0 ≤ m := by linarith
  constructor
  · have := mul_nonneg hi0 hm; linarith
  · have h1 : (i + 1) * m ≤ n * m := mul_le_mul_of_nonneg_right (by linarith) hm
    nlinarith

/-- three nested steps: a 3-d index inside the shape has its flat offset inside the buffer -/
theorem rowMajor3 (x y z d0 d1 d2 : Int) (hx0 : 0 ≤ x) (hx : x < d0) (hy0 : 0 ≤ y) (hy : y < d1)
    (hz0 : 0 ≤ z) (hz : z < d2) :
    0 ≤ x * (d1 * d2) + y * d2 + z ∧ x * (d1 * d2) + y * d2 + z < d0 * d1 * d2 := by
  have s2 := rowMajor_step y d1 z d2 hy0 hy hz0 hz
  have s3 := rowMajor_step x d0 (y * d2 + z) (d1 * d2) hx0 hx s2.1 s2.2
  have e : x * (d1 * d2) + y * d2 + z = x * (d1 * d2) + (y * d2 + z) := by ring
  have e2 : d0 * (d1 * d2) = d0 * d1 * d2 := by ring
  rw [e, ← e2]; exact s3

/-- the C `FLOOR` macro (a chain of truncating casts) is the mathematical floor -/
theorem truncFloor_eq (a : Rat) :
    (if a > 0 then truncC a else if ((truncC a : Int) : Rat) - a ≠ 0 then truncC a - 1 else truncC a) = ⌊a⌋ := by
  by_cases h : a > 0
  · simp [h, truncC_nonneg h.le]
  · simp only [h, if_false]
    have h0 : a ≤ 0 := not_lt.mp h
    rcases eq_or_lt_of_le h0 with h1 | h1
    · subst h1
      have : Rat.floor 0 = 0 := by decide
      simp [truncC, this]
    · rw [truncC_neg h1]
      have hc : -⌊-a⌋ = ⌈a⌉ := by rw [Int.floor_neg]; ring
      rw [hc]
      by_cases hi : ((⌈a⌉ : Int) : Rat) - a ≠ 0
      · rw [if_pos hi]
        have h2 : a < ⌈a⌉ := lt_of_le_of_ne (Int.le_ceil a) (fun e => hi (by rw [← e]; ring))
        have h3 : (⌈a⌉ : Rat) < a + 1 := Int.ceil_lt_add_one a
        symm
        rw [Int.floor_eq_iff]
        push_cast
        constructor <;> linarith
      · rw [if_neg hi]
        have h2 : ((⌈a⌉ : Int) : Rat) = a := by
          have := not_not.mp hi; linarith
        rw [← h2]; simp

/-- the `UNSIGNED_CEIL` macro is the ceiling on non-negative doubles -/
theorem truncCeil_eq {a : Rat} (h : 0 ≤ a) :
    (if ((truncC a : Int) : Rat) - a ≠ 0 then truncC (a + 1) else truncC a) = ⌈a⌉ := by
  rw [truncC_nonneg h, truncC_nonneg (by linarith : (0 : Rat) ≤ a + 1)]
  by_cases hi : ((⌊a⌋ : Int) : Rat) - a ≠ 0
  · rw [if_pos hi]
    have h1 : ((⌊a⌋ : Int) : Rat) < a := lt_of_le_of_ne (Int.floor_le a) (fun e => hi (by rw [e]; ring))
    have h2 : a < ((⌊a⌋ : Int) : Rat) + 1 := Int.lt_floor_add_one a
    rw [Int.floor_add_one]
    symm
    rw [Int.ceil_eq_iff]
    push_cast
    constructor <;> linarith
  · rw [if_neg hi]
    have h2 : ((⌊a⌋ : Int) : Rat) = a := by
      have := not_not.mp hi; linarith
    rw [← h2]; simp

/-- a transformed coordinate that passes one axis of the inside test gives a padded index `n` with
    `0 ≤ n` and `n + 1 < dim` -/
theorem jh_axis_index (T : Rat) (d : Int) (h1 : T > (((-(1 : Int)) : Int) : Rat)) (h2 : T < ((d - 2 : Int) : Rat)) :
    0 ≤ Jh.FLOOR T + 1 ∧ Jh.FLOOR T + 1 + 1 < d := by
  have hF : Jh.FLOOR T = ⌊T⌋ := by unfold Jh.FLOOR; exact truncFloor_eq T
  rw [hF]
  constructor
  · have : (-1 : Int) ≤ ⌊T⌋ := Int.le_floor.mpr (by push_cast at h1 ⊢; linarith)
    linarith
  · have : ⌊T⌋ < d - 2 := Int.floor_lt.mpr h2
    linarith

/-- the truncation of a double known to be at least 2 is its floor; bounds transfer both ways -/
theorem truncC_window (a : Rat) (lo hi : Int) :
    (lo ≤ truncC a ∧ truncC a ≤ hi) → 1 ≤ lo → ((lo : Rat) ≤ a ∧ a < (hi : Rat) + 1) := by
  intro ⟨h1, h2⟩ hlo
  have hpos : 0 ≤ a := by
    by_contra hn
    have hneg : a < 0 := not_le.mp hn
    rw [truncC_neg hneg] at h1
    have : 0 ≤ ⌊-a⌋ := Int.floor_nonneg.mpr (by linarith)
    omega
  rw [truncC_nonneg hpos] at h1 h2
  constructor
  · have := Int.floor_le a
    have h1' : (lo : Rat) ≤ ((⌊a⌋ : Int) : Rat) := by exact_mod_cast h1
    linarith
  · have := Int.lt_floor_add_one a
    have h2' : ((⌊a⌋ : Int) : Rat) ≤ (hi : Rat) := by exact_mod_cast h2
    linarith

end NipyVerif.C20
