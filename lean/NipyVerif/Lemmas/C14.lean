/- Helper lemmas for C14 (finite sums over features, first-argmin, sum-of-squares algebra). -/
import NipyVerif.Model.C14
import Mathlib.Algebra.BigOperators.Intervals
import Mathlib.Algebra.BigOperators.Ring.Finset
import Mathlib.Algebra.Order.Field.Rat
import Mathlib.Algebra.Order.BigOperators.Ring.Finset
import Mathlib.Tactic.Ring
import Mathlib.Tactic.Linarith
import Mathlib.Tactic.FieldSimp
import Mathlib.Tactic.Positivity

namespace NipyVerif.C14
open Finset

/-! ### `sumTo` -/

theorem sumTo_eq_sum (p : Nat) (f : Nat → Rat) : sumTo p f = ∑ d ∈ range p, f d := by
  induction p with
  | zero => simp [sumTo]
  | succ p ih => rw [sumTo, ih, sum_range_succ]

theorem sumTo_congr {p : Nat} {f g : Nat → Rat} (h : ∀ d, d < p → f d = g d) :
    sumTo p f = sumTo p g := by
  rw [sumTo_eq_sum, sumTo_eq_sum]
  exact sum_congr rfl (fun d hd => h d (by simpa using hd))

theorem sumTo_add (p : Nat) (f g : Nat → Rat) :
    sumTo p (fun d => f d + g d) = sumTo p f + sumTo p g := by
  simp [sumTo_eq_sum, sum_add_distrib]

theorem sumTo_smul (p : Nat) (c : Rat) (f : Nat → Rat) :
    sumTo p (fun d => c * f d) = c * sumTo p f := by
  simp [sumTo_eq_sum, mul_sum]

theorem sumTo_nonneg {p : Nat} {f : Nat → Rat} (h : ∀ d, d < p → 0 ≤ f d) : 0 ≤ sumTo p f := by
  rw [sumTo_eq_sum]
  exact sum_nonneg (fun d hd => h d (by simpa using hd))

theorem sumTo_le {p : Nat} {f g : Nat → Rat} (h : ∀ d, d < p → f d ≤ g d) :
    sumTo p f ≤ sumTo p g := by
  rw [sumTo_eq_sum, sumTo_eq_sum]
  exact sum_le_sum (fun d hd => h d (by simpa using hd))

theorem sumTo_zero (p : Nat) : sumTo p (fun _ => (0 : Rat)) = 0 := by
  simp [sumTo_eq_sum]

/-- `Σ_{q<k} [l = q] c = c` for `l < k` -/
theorem sumTo_indicator (k l : Nat) (c : Rat) (h : l < k) :
    sumTo k (fun q => if l = q then c else 0) = c := by
  rw [sumTo_eq_sum]
  simp [h]

theorem sqDist_nonneg (p : Nat) (x c : Vec) : 0 ≤ sqDist p x c :=
  sumTo_nonneg (fun _ _ => sq_nonneg _)

theorem sqDist_congr {p : Nat} {x c c' : Vec} (h : ∀ d, d < p → c d = c' d) :
    sqDist p x c = sqDist p x c' :=
  sumTo_congr (fun d hd => by rw [h d hd])

/-! ### first argmin -/

theorem argminFirst_lt (cost : Nat → Rat) (k : Nat) (hk : 0 < k) : argminFirst cost k < k := by
  induction k with
  | zero => omega
  | succ k ih =>
      simp only [argminFirst]
      split_ifs
      · omega
      · rcases Nat.eq_zero_or_pos k with h0 | hp
        · subst h0; simp [argminFirst]
        · have := ih hp; omega

theorem argminFirst_le (cost : Nat → Rat) (k q : Nat) (hq : q < k) :
    cost (argminFirst cost k) ≤ cost q := by
  induction k with
  | zero => omega
  | succ k ih =>
      simp only [argminFirst]
      rcases Nat.lt_succ_iff_lt_or_eq.mp hq with hlt | heq
      · have := ih hlt
        split_ifs with hc
        · linarith
        · exact this
      · subst heq
        split_ifs with hc
        · exact le_refl _
        · exact not_lt.mp hc

theorem argminFirst_first (cost : Nat → Rat) (k q : Nat) (hq : q < argminFirst cost k) :
    cost (argminFirst cost k) < cost q := by
  induction k with
  | zero => simp [argminFirst] at hq
  | succ k ih =>
      simp only [argminFirst] at hq ⊢
      split_ifs at hq ⊢ with hc
      · -- new minimum at k: every earlier index is ≥ the previous minimum > cost k
        rcases Nat.eq_zero_or_pos k with h0 | hp
        · omega
        · have := argminFirst_le cost k q hq
          linarith
      · exact ih hq

theorem argminFirst_congr {cost cost' : Nat → Rat} (k : Nat) (h : ∀ q, q < k → cost q = cost' q) :
    argminFirst cost k = argminFirst cost' k := by
  induction k with
  | zero => rfl
  | succ k ih =>
      have ihk := ih (fun q hq => h q (Nat.lt_succ_of_lt hq))
      simp only [argminFirst]
      rw [← ihk]
      rcases Nat.eq_zero_or_pos k with h0 | hp
      · subst h0; simp [argminFirst]
      · have hb := argminFirst_lt cost k hp
        rw [h k (Nat.lt_succ_self k), h _ (Nat.lt_succ_of_lt hb)]

/-! ### sums of squares about a point -/

/-- sum of squared distances of the items of `L` to `c` -/
def ssq (p : Nat) (L : List Vec) (c : Vec) : Rat := (L.map (fun x => sqDist p x c)).sum

theorem colsum_nil (d : Nat) : colsum [] d = 0 := by simp [colsum]
theorem colsum_cons (x : Vec) (L : List Vec) (d : Nat) : colsum (x :: L) d = x d + colsum L d := by
  simp [colsum]
theorem colsum_append (A B : List Vec) (d : Nat) : colsum (A ++ B) d = colsum A d + colsum B d := by
  simp [colsum]

theorem ssq_nil (p : Nat) (c : Vec) : ssq p [] c = 0 := by simp [ssq]
theorem ssq_cons (p : Nat) (x : Vec) (L : List Vec) (c : Vec) :
    ssq p (x :: L) c = sqDist p x c + ssq p L c := by simp [ssq]
theorem ssq_append (p : Nat) (A B : List Vec) (c : Vec) :
    ssq p (A ++ B) c = ssq p A c + ssq p B c := by simp [ssq]

theorem ssq_nonneg (p : Nat) (L : List Vec) (c : Vec) : 0 ≤ ssq p L c := by
  induction L with
  | nil => simp [ssq]
  | cons x L ih => rw [ssq_cons]; have := sqDist_nonneg p x c; linarith

/-- Huygens / König identity for any two points `m`, `c`. -/
theorem ssq_shift (p : Nat) (L : List Vec) (m c : Vec) :
    ssq p L c = ssq p L m
      + 2 * sumTo p (fun d => (m d - c d) * (colsum L d - (L.length : Rat) * m d))
      + (L.length : Rat) * sqDist p m c := by
  induction L with
  | nil => simp [ssq, colsum, sumTo_zero]
  | cons x L ih =>
      rw [ssq_cons, ssq_cons, ih]
      simp only [sqDist, List.length_cons, Nat.cast_add, Nat.cast_one]
      have key : sumTo p (fun d => (x d - c d) ^ 2)
            + 2 * sumTo p (fun d => (m d - c d) * (colsum L d - (L.length : Rat) * m d))
            + (L.length : Rat) * sumTo p (fun d => (m d - c d) ^ 2)
          = sumTo p (fun d => (x d - m d) ^ 2)
            + 2 * sumTo p (fun d => (m d - c d) * (colsum (x :: L) d - ((L.length : Rat) + 1) * m d))
            + ((L.length : Rat) + 1) * sumTo p (fun d => (m d - c d) ^ 2) := by
        simp only [sumTo_eq_sum, mul_sum, ← sum_add_distrib]
        apply sum_congr rfl
        intro d _
        rw [colsum_cons]
        ring
      linarith

theorem meanv_mul (L : List Vec) (hL : L ≠ []) (d : Nat) :
    (L.length : Rat) * meanv L d = colsum L d := by
  have : (L.length : Rat) ≠ 0 := by
    have : L.length ≠ 0 := by simpa using hL
    exact_mod_cast this
  unfold meanv
  field_simp

/-- about the mean the cross term vanishes -/
theorem ssq_mean_decomp (p : Nat) (L : List Vec) (hL : L ≠ []) (c : Vec) :
    ssq p L c = ssq p L (meanv L) + (L.length : Rat) * sqDist p (meanv L) c := by
  rw [ssq_shift p L (meanv L) c]
  have : sumTo p (fun d => (meanv L d - c d) * (colsum L d - (L.length : Rat) * meanv L d)) = 0 := by
    rw [← sumTo_zero p]
    apply sumTo_congr
    intro d _
    rw [meanv_mul L hL d]; ring
  rw [this]; ring

theorem ssq_mean_le (p : Nat) (L : List Vec) (c : Vec) : ssq p L (meanv L) ≤ ssq p L c := by
  by_cases hL : L = []
  · subst hL; simp [ssq]
  · rw [ssq_mean_decomp p L hL c]
    have h1 : (0 : Rat) ≤ (L.length : Rat) := by positivity
    have := mul_nonneg h1 (sqDist_nonneg p (meanv L) c)
    linarith

theorem ssq_congr {p : Nat} (L : List Vec) {c c' : Vec} (h : ∀ d, d < p → c d = c' d) :
    ssq p L c = ssq p L c' := by
  unfold ssq
  congr 1
  apply List.map_congr_left
  intro x _
  exact sqDist_congr h

end NipyVerif.C14

namespace NipyVerif.C14
open Finset

/-! ### within-cluster sum of squares, by item and by cluster -/

def wcssP (p : Nat) (L : List (Vec × Nat)) (C : Nat → Vec) : Rat :=
  (L.map (fun xl => sqDist p xl.1 (C xl.2))).sum

def membersP (L : List (Vec × Nat)) (q : Nat) : List Vec :=
  (L.filter (fun xl => xl.2 == q)).map (fun xl => xl.1)

theorem wcss_eq_wcssP (p : Nat) (X : List Vec) (z : List Nat) (C : Nat → Vec) :
    wcss p X z C = wcssP p (X.zip z) C := rfl

theorem members_eq_membersP (X : List Vec) (z : List Nat) (q : Nat) :
    members X z q = membersP (X.zip z) q := rfl

/-- the sum over items regrouped by cluster -/
theorem wcssP_by_cluster (p k : Nat) (L : List (Vec × Nat)) (C : Nat → Vec)
    (h : ∀ xl ∈ L, xl.2 < k) :
    wcssP p L C = sumTo k (fun q => ssq p (membersP L q) (C q)) := by
  induction L with
  | nil => simp [wcssP, membersP, ssq, sumTo_zero]
  | cons xl L ih =>
      have hl : xl.2 < k := h xl (by simp)
      have ih' := ih (fun y hy => h y (by simp [hy]))
      have hstep : ∀ q, ssq p (membersP (xl :: L) q) (C q)
          = (if xl.2 = q then sqDist p xl.1 (C xl.2) else 0) + ssq p (membersP L q) (C q) := by
        intro q
        by_cases hq : xl.2 = q
        · subst hq; simp [membersP, ssq]
        · have : (xl.2 == q) = false := by simpa using hq
          simp [membersP, ssq, this, hq]
      have : wcssP p (xl :: L) C = sqDist p xl.1 (C xl.2) + wcssP p L C := by simp [wcssP]
      rw [this, ih']
      rw [sumTo_congr (fun q _ => hstep q), sumTo_add, sumTo_indicator k xl.2 _ hl]

theorem wcssP_congr (p k : Nat) (L : List (Vec × Nat)) (C C' : Nat → Vec)
    (h : ∀ xl ∈ L, xl.2 < k) (hC : ∀ q, q < k → ∀ d, d < p → C q d = C' q d) :
    wcssP p L C = wcssP p L C' := by
  unfold wcssP
  congr 1
  apply List.map_congr_left
  intro xl hxl
  exact sqDist_congr (hC xl.2 (h xl hxl))

theorem zip_label_lt {X : List Vec} {z : List Nat} {k : Nat} (h : ∀ l ∈ z, l < k) :
    ∀ xl ∈ X.zip z, xl.2 < k := by
  intro xl hxl
  exact h xl.2 (List.of_mem_zip hxl).2

/-! ### reading rows built with `List.range` -/

theorem getD_map_range {α : Type} (f : Nat → α) (n i : Nat) (h : i < n) (dflt : α) :
    ((List.range n).map f).getD i dflt = f i := by
  simp [List.getD_eq_getElem?_getD, h]

theorem vecOf_map_range (f : Nat → Rat) (p d : Nat) (h : d < p) :
    vecOf ((List.range p).map f) d = f d := getD_map_range f p d h 0

/-- the executable `_MStep` rows are the specification `mstep` -/
theorem centresOf_mstepL (p : Nat) (X : List Vec) (z : List Nat) (k q d : Nat)
    (hq : q < k) (hd : d < p) :
    centresOf (mstepL p X z k) q d = mstep X z q d := by
  unfold centresOf mstepL mstep
  simp only
  rw [getD_map_range _ k q hq]
  split_ifs <;> exact vecOf_map_range _ p d hd

/-! ### Ward features of a set of points -/

def colsq (L : List Vec) (d : Nat) : Rat := (L.map (fun x => (x d) ^ 2)).sum

theorem colsq_append (A B : List Vec) (d : Nat) : colsq (A ++ B) d = colsq A d + colsq B d := by
  simp [colsq]

/-- `(n, Σx, Σx²)` of a set of points, as the three arrays `Features` of `ward` -/
def featOf (p : Nat) (L : List Vec) : Feat :=
  ⟨L.length, (List.range p).map (colsum L), (List.range p).map (colsq L)⟩

theorem zipWith_map_range (f g : Nat → Rat) (p : Nat) :
    List.zipWith (· + ·) ((List.range p).map f) ((List.range p).map g)
      = (List.range p).map (fun d => f d + g d) := by
  rw [List.zipWith_map_left, List.zipWith_map_right, List.zipWith_self]

theorem featOf_add (p : Nat) (A B : List Vec) :
    (featOf p A).add (featOf p B) = featOf p (A ++ B) := by
  unfold featOf Feat.add
  simp only [zipWith_map_range, List.length_append]
  congr 1
  · apply List.map_congr_left; intro d _; exact (colsum_append A B d).symm
  · apply List.map_congr_left; intro d _; exact (colsq_append A B d).symm

theorem ssq_zero_eq (p : Nat) (L : List Vec) :
    ssq p L (fun _ => 0) = sumTo p (colsq L) := by
  induction L with
  | nil =>
      have : colsq [] = fun _ => (0 : Rat) := by funext d; simp [colsq]
      simp [ssq, this, sumTo_zero]
  | cons x L ih =>
      rw [ssq_cons, ih, sqDist, ← sumTo_add]
      apply sumTo_congr
      intro d _
      simp [colsq]

theorem inertiaF_eq_ssq (p : Nat) (L : List Vec) (hL : L ≠ []) :
    inertiaF p L.length (colsum L) (colsq L) = ssq p L (meanv L) := by
  have h0 := ssq_mean_decomp p L hL (fun _ => 0)
  rw [ssq_zero_eq] at h0
  have hn : (L.length : Rat) ≠ 0 := by
    have : L.length ≠ 0 := by simpa using hL
    exact_mod_cast this
  have h2 : (L.length : Rat) * sqDist p (meanv L) (fun _ => 0)
      = sumTo p (fun d => (colsum L d) ^ 2 / (L.length : Rat)) := by
    rw [sqDist, ← sumTo_smul]
    apply sumTo_congr
    intro d _
    unfold meanv
    field_simp
    ring
  unfold inertiaF
  have h3 : sumTo p (fun d => colsq L d - colsum L d ^ 2 / (L.length : Rat))
      = sumTo p (colsq L) - sumTo p (fun d => (colsum L d) ^ 2 / (L.length : Rat)) := by
    simp [sumTo_eq_sum, sum_sub_distrib]
  rw [h3, ← h2]
  linarith

theorem featOf_inertia (p : Nat) (L : List Vec) :
    (featOf p L).inertia p = inertiaF p L.length (colsum L) (colsq L) := by
  unfold Feat.inertia featOf inertiaF
  apply sumTo_congr
  intro d hd
  simp only
  rw [vecOf_map_range _ p d hd, vecOf_map_range _ p d hd]

end NipyVerif.C14

namespace NipyVerif.C14

theorem dedupK_subset (k : Nat) (l : List (Nat × Nat)) (seen : List Nat) (e : Nat × Nat)
    (he : e ∈ dedupK k l seen) : e ∈ l := by
  induction l generalizing seen with
  | nil => simp [dedupK] at he
  | cons a r ih =>
      unfold dedupK at he
      split_ifs at he
      · exact List.mem_cons_of_mem _ (ih _ he)
      · rcases List.mem_cons.mp he with h | h
        · exact h ▸ List.mem_cons_self
        · exact List.mem_cons_of_mem _ (ih _ h)
      · exact List.mem_cons_of_mem _ (ih _ he)
      · rcases List.mem_cons.mp he with h | h
        · exact h ▸ List.mem_cons_self
        · exact List.mem_cons_of_mem _ (ih _ h)
      · rcases List.mem_cons.mp he with h | h
        · exact h ▸ List.mem_cons_self
        · exact List.mem_cons_of_mem _ (ih _ h)

theorem relabel_ne (i j k v : Nat) (hki : k ≠ i) (hkj : k ≠ j) :
    relabel i j k v ≠ i ∧ relabel i j k v ≠ j := by
  unfold relabel
  split_ifs with h
  · exact ⟨hki, hkj⟩
  · exact ⟨fun hv => h (Or.inl hv), fun hv => h (Or.inr hv)⟩

end NipyVerif.C14
