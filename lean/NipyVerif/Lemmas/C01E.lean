/-
C01 — lemmas for `equivalent_complete`, the `make_affine` block structure and the
`CoordinateSystem` algebra (wave 4).
-/
import NipyVerif.Lemmas.C01C

namespace NipyVerif.C01

/-! ### resolving an order given by names -/

theorem indexOf_getD : ∀ {l : List String}, l.Nodup → ∀ {i : Nat}, i < l.length →
    indexOf? l (l.getD i "") = some i
  | [], _, i, hi => by simp at hi
  | a :: r, _, 0, _ => by simp [indexOf?]
  | a :: r, hn, k + 1, hi => by
      have hn' := List.nodup_cons.mp hn
      have hk : k < r.length := by simpa using hi
      have hmem : r.getD k "" ∈ r := by
        rw [List.getD_eq_getElem?_getD, List.getElem?_eq_getElem hk]
        simp
      have hne : ¬ a = r.getD k "" := fun h => hn'.1 (h ▸ hmem)
      simp only [List.getD_cons_succ, indexOf?, if_neg hne]
      rw [indexOf_getD hn'.2 hk]
      rfl

theorem mapM_names {names : List String} (hn : names.Nodup) : ∀ (ord : List Nat),
    (∀ i ∈ ord, i < names.length) →
    (ord.map fun i => names.getD i "").mapM (fun s => match indexOf? names s with
        | some i => (Except.ok i : Except Err Nat)
        | none => .error .valueError) = .ok ord
  | [], _ => by simp [pure, Except.pure]
  | i :: t, h => by
      simp only [List.map_cons, List.mapM_cons]
      rw [indexOf_getD hn (h i (by simp))]
      simp only [bind, Except.bind]
      rw [mapM_names hn t (fun j hj => h j (by simp [hj]))]
      rfl

theorem resolve_names (cs : CoordSys) (hn : cs.names.Nodup) (ord : List Nat) (hne : ord ≠ [])
    (hlt : ∀ i ∈ ord, i < cs.names.length) :
    resolveOrder cs (.names (ord.map fun i => cs.names.getD i "")) = .ok ord := by
  cases ord with
  | nil => exact absurd rfl hne
  | cons i t =>
      have := mapM_names hn (i :: t) hlt
      simp only [List.map_cons] at this ⊢
      unfold resolveOrder
      exact this

/-- the part of `reorderCS` after the order has been resolved -/
def reorderTail (cs : CoordSys) (ord : List Nat) : Except Err (List Nat × CoordSys) :=
  if !(ord.isPerm (List.range cs.names.length)) then .error .valueError
  else if ord.any (fun i => decide (cs.names.length ≤ i)) then .error .indexError
  else match mkCS (ord.map fun i => cs.names.getD i "") cs.name cs.dtype with
    | .error e => .error e
    | .ok ncs => .ok (ord, ncs)

theorem reorderCS_eq (cs : CoordSys) (o : Order) :
    reorderCS cs o = match resolveOrder cs o with
      | .error e => .error e
      | .ok ord => reorderTail cs ord := rfl

theorem reorderTail_fst {cs ncs : CoordSys} {ord' ord : List Nat}
    (h : reorderTail cs ord' = .ok (ord, ncs)) : ord' = ord := by
  unfold reorderTail at h
  split_ifs at h
  cases hm : mkCS (ord'.map fun i => cs.names.getD i "") cs.name cs.dtype with
  | error e => rw [hm] at h; cases h
  | ok c =>
      rw [hm] at h
      simp only [Except.ok.injEq, Prod.mk.injEq] at h
      exact h.1

/-- an accepted reordering is found again when the new names are given as the order -/
theorem reorderCS_names {cs ncs : CoordSys} {o : Order} {ord : List Nat} (hn : cs.names.Nodup)
    (hpos : 0 < cs.names.length) (h : reorderCS cs o = .ok (ord, ncs)) :
    reorderCS cs (.names ncs.names) = .ok (ord, ncs) := by
  have hp := reorderCS_perm h
  obtain ⟨hn1, _, _⟩ := reorderCS_ok h
  have hlt : ∀ i ∈ ord, i < cs.names.length := fun i hi => by
    have := (hp.mem_iff).mp hi
    simpa using this
  have hne : ord ≠ [] := by
    intro he
    subst he
    have := hp.length_eq
    simp at this
    omega
  have hres : resolveOrder cs (.names ncs.names) = .ok ord := by
    rw [hn1]
    exact resolve_names cs hn ord hne hlt
  rw [reorderCS_eq] at h ⊢
  rw [hres]
  cases hr : resolveOrder cs o with
  | error e => rw [hr] at h; cases h
  | ok ord' =>
      rw [hr] at h
      simp only at h ⊢
      have := reorderTail_fst h
      subst this
      exact h

theorem reorderedDomain_congr (A : Aff) (o o' : Order) (h : reorderCS A.dom o = reorderCS A.dom o') :
    reorderedDomain A o = reorderedDomain A o' := by
  unfold reorderedDomain
  rw [h]

theorem reorderedRange_congr (A : Aff) (o o' : Order) (h : reorderCS A.rng o = reorderCS A.rng o') :
    reorderedRange A o = reorderedRange A o' := by
  unfold reorderedRange
  rw [h]

theorem bcastDim_self (a : Nat) : bcastDim a a = some a := by simp [bcastDim]

theorem affEq_refl (B : Aff) : affEq B B = .ok true := by
  unfold affEq matAll2
  simp [bcastDim_self, csEq, csSimilar]

theorem indexOf_none : ∀ {l : List String} {s : String}, s ∉ l → indexOf? l s = none
  | [], _, _ => rfl
  | a :: r, s, h => by
      have h1 : ¬ a = s := fun e => h (by simp [e])
      have h2 : s ∉ r := fun e => h (by simp [e])
      simp [indexOf?, h1, indexOf_none h2]

theorem indexOf_some : ∀ {l : List String} {s : String} {k : Nat}, indexOf? l s = some k →
    k < l.length ∧ l.getD k "" = s
  | [], _, _, h => by simp [indexOf?] at h
  | a :: r, s, k, h => by
      unfold indexOf? at h
      by_cases e : a = s
      · rw [if_pos e] at h
        injection h with h
        subst h
        simp [e]
      · rw [if_neg e] at h
        cases hr : indexOf? r s with
        | none => rw [hr] at h; simp at h
        | some j =>
            rw [hr] at h
            simp only [Option.map_some, Option.some.injEq] at h
            subst h
            obtain ⟨g1, g2⟩ := indexOf_some hr
            exact ⟨by simpa using g1, by simpa using g2⟩

/-! ### an order given by names that are not the map's names -/

theorem mapM_names_err {names : List String} : ∀ (l : List String) (e : Err),
    l.mapM (fun s => match indexOf? names s with
        | some i => (Except.ok i : Except Err Nat)
        | none => .error .valueError) = .error e → e = .valueError
  | [], e, h => by simp [pure, Except.pure] at h
  | s :: t, e, h => by
      simp only [List.mapM_cons] at h
      cases hi : indexOf? names s with
      | none =>
          rw [hi] at h
          simp only [bind, Except.bind] at h
          injection h with h
          exact h.symm
      | some i =>
          rw [hi] at h
          simp only [bind, Except.bind] at h
          cases hr : t.mapM (fun s => match indexOf? names s with
              | some i => (Except.ok i : Except Err Nat)
              | none => .error .valueError) with
          | error e' =>
              rw [hr] at h
              simp only at h
              injection h with h
              rw [← h]
              exact mapM_names_err t e' hr
          | ok r =>
              rw [hr] at h
              simp [pure, Except.pure] at h

theorem mapM_names_ok {names : List String} : ∀ (l : List String) (ord : List Nat),
    l.mapM (fun s => match indexOf? names s with
        | some i => (Except.ok i : Except Err Nat)
        | none => .error .valueError) = .ok ord → ord.map (fun i => names.getD i "") = l
  | [], ord, h => by
      simp only [List.mapM_nil, pure, Except.pure, Except.ok.injEq] at h
      subst h
      rfl
  | s :: t, ord, h => by
      simp only [List.mapM_cons] at h
      cases hi : indexOf? names s with
      | none =>
          rw [hi] at h
          simp [bind, Except.bind] at h
      | some i =>
          rw [hi] at h
          simp only [bind, Except.bind] at h
          cases hr : t.mapM (fun s => match indexOf? names s with
              | some i => (Except.ok i : Except Err Nat)
              | none => .error .valueError) with
          | error e' =>
              rw [hr] at h
              simp at h
          | ok r =>
              rw [hr] at h
              simp only [pure, Except.pure, Except.ok.injEq] at h
              subst h
              simp only [List.map_cons, List.cons.injEq]
              exact ⟨(indexOf_some hi).2, mapM_names_ok t r hr⟩

theorem reorderCS_names_refuses (cs : CoordSys) (l : List String) (hne : l ≠ [])
    (hnp : ¬ l.Perm cs.names) : reorderCS cs (.names l) = .error .valueError := by
  rw [reorderCS_eq]
  have hres : resolveOrder cs (.names l) = l.mapM (fun s => match indexOf? cs.names s with
        | some i => (Except.ok i : Except Err Nat)
        | none => .error .valueError) := by
    cases l with
    | nil => exact absurd rfl hne
    | cons a t => rfl
  rw [hres]
  cases hm : l.mapM (fun s => match indexOf? cs.names s with
        | some i => (Except.ok i : Except Err Nat)
        | none => .error .valueError) with
  | error e => rw [mapM_names_err l e hm]
  | ok ord =>
      simp only
      unfold reorderTail
      have hl := mapM_names_ok l ord hm
      have hnot : ord.isPerm (List.range cs.names.length) = false := by
        by_contra hc
        simp only [Bool.not_eq_false] at hc
        have hp : ord.Perm (List.range cs.names.length) := List.isPerm_iff.mp hc
        apply hnp
        rw [← hl]
        have := hp.map (fun i => cs.names.getD i "")
        rw [map_getD_range] at this
        exact this
      simp [hnot]

/-! ### `make_affine` -/

theorem makeAffine_blocks' {dm rm : Maker} {m : Mat} {mdt zdt : DType} {zooms offsets : List Rat}
    {B : Aff} (h : makeAffine dm rm m mdt zooms offsets zdt = .ok B) (hz : zooms.length ≠ 0) :
    ∃ (c0 c1 : Aff) (m1 : Mat), c0.aff = m ∧ c1.aff = m1 ∧
      fromMatvec (diagMat zooms) zdt
        (if offsets.length = 0 then List.replicate zooms.length 0 else offsets) = .ok m1 ∧
      B.dom.names = c0.dom.names ++ c1.dom.names ∧ B.rng.names = c0.rng.names ++ c1.rng.names ∧
      ∀ x y, x.length = c0.nin → B.apply (x ++ y) = c0.apply x ++ c1.apply y := by
  unfold makeAffine at h
  simp only at h
  generalize (if offsets.length = 0 then List.replicate zooms.length 0 else offsets) = offs at h ⊢
  split_ifs at h with hoff
  cases hd : dm.call ((m.cols - 1 + zooms.length : Nat) : Int) none none with
  | error e => rw [hd] at h; cases h
  | ok dom =>
    rw [hd] at h
    simp only at h
    cases hr : rm.call ((m.rows - 1 + zooms.length : Nat) : Int) none none with
    | error e => rw [hr] at h; cases h
    | ok rng =>
      rw [hr] at h
      simp only [hz, if_false] at h
      cases hd0 : mkCS (dom.names.take (m.cols - 1)) "" .f8 with
      | error e => rw [hd0] at h; cases h
      | ok d0 =>
        cases hr0 : mkCS (rng.names.take (m.rows - 1)) "" .f8 with
        | error e => rw [hd0, hr0] at h; cases h
        | ok r0 =>
          rw [hd0, hr0] at h
          simp only at h
          cases hc0 : mkAff d0 r0 m mdt with
          | error e => rw [hc0] at h; cases h
          | ok c0 =>
            rw [hc0] at h
            simp only at h
            cases hm1 : fromMatvec (diagMat zooms) zdt offs with
            | error e => rw [hm1] at h; cases h
            | ok m1 =>
              rw [hm1] at h
              simp only at h
              cases hd1 : mkCS (dom.names.drop (m.cols - 1)) "" .f8 with
              | error e => rw [hd1] at h; cases h
              | ok d1 =>
                cases hr1 : mkCS (rng.names.drop (m.rows - 1)) "" .f8 with
                | error e => rw [hd1, hr1] at h; cases h
                | ok r1 =>
                  rw [hd1, hr1] at h
                  simp only at h
                  cases hc1 : mkAff d1 r1 m1 zdt with
                  | error e => rw [hc1] at h; cases h
                  | ok c1 =>
                    rw [hc1] at h
                    simp only at h
                    cases hp : product [c0, c1] "product" "product" with
                    | error e => rw [hp] at h; cases h
                    | ok c =>
                      rw [hp] at h
                      simp only at h
                      obtain ⟨a1, a2, a3, _⟩ := mkAff_ok hc0
                      obtain ⟨b1, b2, b3, _⟩ := mkAff_ok hc1
                      obtain ⟨e1, e2, e3, _⟩ := mkAff_ok h
                      obtain ⟨rfl, _⟩ := mkCS_ok hd0
                      obtain ⟨rfl, _⟩ := mkCS_ok hr0
                      obtain ⟨rfl, _⟩ := mkCS_ok hd1
                      obtain ⟨rfl, _⟩ := mkCS_ok hr1
                      obtain ⟨p1, p2, _, _, _⟩ := product_pair_ok hp
                      have hdn : B.dom.names = c0.dom.names ++ c1.dom.names := by
                        simp [e1, a1, b1]
                      have hrn : B.rng.names = c0.rng.names ++ c1.rng.names := by
                        simp [e2, a2, b2]
                      refine ⟨c0, c1, m1, a3, b3, rfl, hdn, hrn, fun x y hx => ?_⟩
                      rw [← product_pair_apply hp x y hx]
                      apply apply_congr B c (x ++ y) (x ++ y)
                      · simp [Aff.nin, hdn, p1]
                      · simp [Aff.nout, hrn, p2]
                      · intro i j _ _
                        rw [e3]
                      · intro j _
                        rfl

end NipyVerif.C01
