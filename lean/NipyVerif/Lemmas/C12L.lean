/-
Helper lemmas for C12 part L: the value of a `local_maxima` depth.  Iterated dilation is the
maximum over hop balls; the dilation loop records, per vertex, the first radius at which the ball
maximum grows, and stops within `V - 1` rounds.
-/
import NipyVerif.Props.C12F

namespace NipyVerif.C12

/-! ### hop balls -/

/-- `j` lies within `k` hops of `i` (closed neighbourhoods: a hop may stay in place) -/
def reachB (g : Graph) : Nat → Nat → Nat → Prop
  | 0, i, j => j = i
  | k + 1, i, j => ∃ m, reachB g k i m ∧ j ∈ closedRow g m

theorem reachB_lt (g : Graph) {k i j : Nat} (hi : i < g.V) (h : reachB g k i j) : j < g.V := by
  cases k with
  | zero => rw [show j = i from h]; exact hi
  | succ k => obtain ⟨m, _, hm⟩ := h; exact (mem_closedRow.1 hm).1

theorem reachB_succ (g : Graph) {k i j : Nat} (hi : i < g.V) (h : reachB g k i j) : reachB g (k + 1) i j :=
  ⟨j, h, mem_closedRow.2 ⟨reachB_lt g hi h, Or.inl rfl⟩⟩

theorem reachB_mono (g : Graph) {k k' i j : Nat} (hi : i < g.V) (hk : k ≤ k') (h : reachB g k i j) :
    reachB g k' i j := by
  induction k' with
  | zero => have : k = 0 := by omega
            subst this; exact h
  | succ k' ih =>
    rcases Nat.lt_succ_iff_lt_or_eq.1 (Nat.lt_succ_of_le hk) with h' | h'
    · exact reachB_succ g hi (ih (by omega))
    · subst h'; exact h

/-- **iterated dilation = maximum over the hop ball** -/
theorem dil_iterate_ball (g : Graph) (k : Nat) (f : Nat → Rat) (i : Nat) (hi : i < g.V) :
    (∀ j, reachB g k i j → f j ≤ (dilF g)^[k] f i) ∧ ∃ j, reachB g k i j ∧ (dilF g)^[k] f i = f j := by
  induction k generalizing f with
  | zero => exact ⟨fun j hj => by rw [show j = i from hj]; exact le_refl _, i, rfl, rfl⟩
  | succ k ih =>
    rw [Function.iterate_succ_apply]
    obtain ⟨h1, m, hm, hmeq⟩ := ih (dilF g f)
    constructor
    · rintro j ⟨m', hm', hj⟩
      have hm'V := reachB_lt g hi hm'
      exact le_trans ((dilF_isGreatest g f m' hm'V).2 j hj) (h1 m' hm')
    · have hmV := reachB_lt g hi hm
      obtain ⟨j, hj, hjeq⟩ := (dilF_isGreatest g f m hmV).1
      exact ⟨j, ⟨m, hm, hj⟩, by rw [hmeq, hjeq]⟩

/-- the field after `k` dilations -/
def dilN (g : Graph) (init : List Rat) (k : Nat) : Nat → Rat := (dilF g)^[k] (at_ init)

/-- the ball maximum grows between radius `m` and `m + 1` at vertex `i` -/
def NonMax (g : Graph) (init : List Rat) (m i : Nat) : Prop := dilN g init m i < dilN g init (m + 1) i

theorem dilN_succ (g : Graph) (init : List Rat) (k : Nat) : dilN g init (k + 1) = dilF g (dilN g init k) := by
  unfold dilN; rw [Function.iterate_succ_apply']

theorem dilN_mono (g : Graph) (init : List Rat) (k i : Nat) : dilN g init k i ≤ dilN g init (k + 1) i := by
  rw [dilN_succ]; exact foldMax_ge_init _ _

theorem dilN_mono_le (g : Graph) (init : List Rat) (i : Nat) {k k' : Nat} (h : k ≤ k') :
    dilN g init k i ≤ dilN g init k' i := by
  induction k' with
  | zero => have : k = 0 := by omega
            subst this; exact le_refl _
  | succ k' ih =>
    rcases Nat.lt_succ_iff_lt_or_eq.1 (Nat.lt_succ_of_le h) with h' | h'
    · exact le_trans (ih (by omega)) (dilN_mono g init k' i)
    · subst h'; exact le_refl _

/-- a ball maximum that grows at radius `k + 1` needs `k + 2` vertices: one at each exact distance -/
theorem nonMax_bound (g : Graph) (init : List Rat) (k i : Nat) (hi : i < g.V)
    (h : NonMax g init k i) : k + 2 ≤ g.V := by
  classical
  -- a vertex at exact distance k + 1
  obtain ⟨_, j, hj, hjeq⟩ := dil_iterate_ball g (k + 1) (at_ init) i hi
  have hfar : ∀ s ≤ k, ¬ reachB g s i j := by
    intro s hs hr
    have h1 := (dil_iterate_ball g s (at_ init) i hi).1 j hr
    have h2 : dilN g init s i ≤ dilN g init k i := dilN_mono_le g init i hs
    have h3 : dilN g init (k + 1) i = at_ init j := hjeq
    unfold NonMax at h
    rw [h3] at h
    exact absurd (lt_of_le_of_lt (le_trans h1 h2) h) (lt_irrefl _)
  -- going back along a shortest walk: a vertex at every exact distance t ≤ k + 1
  have hexact : ∀ t, t ≤ k + 1 → ∃ v, reachB g t i v ∧ ∀ s < t, ¬ reachB g s i v := by
    intro t ht
    induction hd : k + 1 - t generalizing t with
    | zero =>
      have : t = k + 1 := by omega
      subst this
      exact ⟨j, hj, fun s hs => hfar s (by omega)⟩
    | succ d ih =>
      obtain ⟨v, hv, hvmin⟩ := ih (t + 1) (by omega) (by omega)
      obtain ⟨m, hm, hvm⟩ := hv
      refine ⟨m, hm, fun s hs hr => hvmin (s + 1) (by omega) ⟨m, hr, hvm⟩⟩
  choose w hw using hexact
  let vs : List Nat := (List.range (k + 2)).attach.map (fun t => w t.1 (by have := List.mem_range.1 t.2; omega))
  have hnd : vs.Nodup := by
    apply List.Nodup.map_on _ (List.nodup_attach.2 List.nodup_range)
    rintro ⟨a, ha⟩ _ ⟨b, hb⟩ _ hab
    simp only at hab
    have ha' := List.mem_range.1 ha
    have hb' := List.mem_range.1 hb
    by_contra hne
    have hne' : a ≠ b := fun e => hne (by subst e; rfl)
    rcases Nat.lt_or_gt_of_ne hne' with hlt | hlt
    · exact (hw b (by omega)).2 a hlt (hab ▸ (hw a (by omega)).1)
    · exact (hw a (by omega)).2 b hlt (hab.symm ▸ (hw b (by omega)).1)
  have hlen := nodup_lt_length_le hnd (by
    intro x hx
    obtain ⟨⟨t, ht⟩, _, rfl⟩ := List.mem_map.1 hx
    exact reachB_lt g hi (hw t (by have := List.mem_range.1 ht; omega)).1)
  simpa [vs] using hlen

/-- once a dilation changes nothing it never changes anything again -/
theorem stationary_forever (g : Graph) (init : List Rat) (K : Nat)
    (h : ∀ i < g.V, dilN g init (K + 1) i = dilN g init K i) (n : Nat) :
    ∀ i < g.V, dilN g init (K + n + 1) i = dilN g init (K + n) i := by
  induction n with
  | zero => exact h
  | succ n ih =>
    intro i hi
    have e1 : dilN g init (K + (n + 1) + 1) = dilF g (dilN g init (K + n + 1)) := dilN_succ g init (K + n + 1)
    have e2 : dilN g init (K + (n + 1)) = dilF g (dilN g init (K + n)) := dilN_succ g init (K + n)
    rw [e1, e2]
    exact dilF_congr (fun j hj => ih j hj) hi

/-! ### the loop -/

/-- what `ldepth` holds when the loop is about to run iteration `k` -/
structure LdInv (g : Graph) (init : List Rat) (k : Nat) (ld : List Nat) : Prop where
  none : ∀ i < g.V, (∀ m < k, ¬ NonMax g init m i) → ld.getD i 0 = g.V
  first : ∀ i < g.V, ∀ m < k, NonMax g init m i → (∀ m' < m, ¬ NonMax g init m' i) → ld.getD i 0 = m

/-- the value the loop returns at `i`: the first radius at which the ball maximum grows, or, when it
    never grows, the number `K` of rounds until nothing grows anywhere (at least 1) -/
def DepthSpec (g : Graph) (init : List Rat) (K : Nat) (i r : Nat) : Prop :=
  ((∃ m, NonMax g init m i) → NonMax g init r i ∧ ∀ m < r, ¬ NonMax g init m i) ∧
    ((∀ m, ¬ NonMax g init m i) → r = max K 1)

theorem dilN_zero (g : Graph) (init : List Rat) (i : Nat) : dilN g init 0 i = at_ init i := rfl

/-- no growth up to radius `n` keeps the initial value -/
theorem dilN_const_of_no_nonMax (g : Graph) (init : List Rat) (i n : Nat)
    (h : ∀ m < n, ¬ NonMax g init m i) : dilN g init n i = at_ init i := by
  induction n with
  | zero => rfl
  | succ n ih =>
    have h1 := ih (fun m hm => h m (by omega))
    have h2 := h n (Nat.lt_succ_self _)
    unfold NonMax at h2
    rw [← h1]
    exact le_antisymm (not_lt.1 h2) (dilN_mono g init n i)

theorem nonMax_gt_init (g : Graph) (init : List Rat) (i m n : Nat) (hm : m < n) (h : NonMax g init m i) :
    at_ init i < dilN g init n i := by
  have h1 : dilN g init 0 i ≤ dilN g init m i := dilN_mono_le g init i (Nat.zero_le _)
  have h2 : dilN g init (m + 1) i ≤ dilN g init n i := dilN_mono_le g init i hm
  unfold NonMax at h
  exact lt_of_le_of_lt h1 (lt_of_lt_of_le h h2)

/-- the value written when the loop stops at round `k` -/
theorem lmaxLoop_final (g : Graph) (init : List Rat) (k : Nat) (ld : List Nat) (hld : LdInv g init k ld)
    (hno : ∀ i < g.V, ¬ NonMax g init k i) (i : Nat) (hi : i < g.V) :
    DepthSpec g init k i
      (if dilN g init (k + 1) i == at_ init i then max k 1 else ld.getD i 0) := by
  classical
  have hstat : ∀ j < g.V, dilN g init (k + 1) j = dilN g init k j := by
    intro j hj
    have := hno j hj
    unfold NonMax at this
    exact le_antisymm (not_lt.1 this) (dilN_mono g init k j)
  by_cases heq : dilN g init (k + 1) i = at_ init i
  · have hb : (dilN g init (k + 1) i == at_ init i) = true := by simpa using heq
    rw [if_pos hb]
    have hnone : ∀ m, ¬ NonMax g init m i := by
      intro m hm
      by_cases hmk : m < k + 1
      · have := nonMax_gt_init g init i m (k + 1) hmk hm
        rw [heq] at this; exact lt_irrefl _ this
      · have hs := stationary_forever g init k hstat (m - k) i hi
        rw [show k + (m - k) = m by omega] at hs
        unfold NonMax at hm
        rw [hs] at hm; exact lt_irrefl _ hm
    exact ⟨fun ⟨m, hm⟩ => absurd hm (hnone m), fun _ => rfl⟩
  · have hb : ¬ (dilN g init (k + 1) i == at_ init i) = true := by simpa using heq
    rw [if_neg hb]
    have hex : ∃ m, NonMax g init m i := by
      by_contra hcon
      exact heq (dilN_const_of_no_nonMax g init i (k + 1) (fun m _ hm => hcon ⟨m, hm⟩))
    have hfirst : NonMax g init (Nat.find hex) i := Nat.find_spec hex
    have hmin : ∀ m < Nat.find hex, ¬ NonMax g init m i := fun m hm => Nat.find_min hex hm
    have hlt : Nat.find hex < k := by
      by_contra hge
      have hk : ∀ m < k + 1, ¬ NonMax g init m i := by
        intro m hm
        by_cases hmk : m = k
        · subst hmk; exact hno i hi
        · exact hmin m (by omega)
      exact heq (dilN_const_of_no_nonMax g init i (k + 1) hk)
    rw [hld.first i hi _ hlt hfirst hmin]
    exact ⟨fun _ => ⟨hfirst, hmin⟩, fun h => absurd hfirst (h _)⟩

/-- one more round keeps the bookkeeping of `ldepth` -/
theorem ldInv_step (g : Graph) (init : List Rat) (k : Nat) (hk : k ≤ g.V) (ld : List Nat)
    (hld : LdInv g init k ld) (nm : Nat → Bool) (hnm : ∀ i < g.V, (nm i = true ↔ NonMax g init k i)) :
    LdInv g init (k + 1)
      ((List.range g.V).map (fun i => if nm i then min k (ld.getD i 0) else ld.getD i 0)) := by
  constructor
  · intro i hi hnone
    rw [getD_map_range g.V _ 0 hi]
    have : nm i = false := by
      by_contra h
      exact hnone k (Nat.lt_succ_self _) ((hnm i hi).1 (by simpa using h))
    rw [this]
    exact hld.none i hi (fun m hm => hnone m (by omega))
  · intro i hi m hm hnmx hbefore
    rw [getD_map_range g.V _ 0 hi]
    by_cases hmk : m < k
    · have := hld.first i hi m hmk hnmx hbefore
      rw [this]
      split
      · exact Nat.min_eq_right (Nat.le_of_lt hmk)
      · rfl
    · have hmk' : m = k := by omega
      subst hmk'
      rw [(hnm i hi).2 hnmx, if_pos rfl, hld.none i hi hbefore]
      exact Nat.min_eq_left hk

/-- what is claimed of the list the loop returns -/
def LoopGoal (g : Graph) (init : List Rat) (out : List Nat) : Prop :=
  ∃ K, K < g.V ∧ (∀ i < g.V, ¬ NonMax g init K i) ∧ (∀ m < K, ∃ i < g.V, NonMax g init m i) ∧
    ∀ i < g.V, DepthSpec g init K i (out.getD i 0)

/-- one round of the loop: it stops with the right values, or hands the next round its invariants -/
theorem lmaxLoop_round (g : Graph) (hv : g.Valid) (init : List Rat) (fuel k : Nat) (cur : List Rat)
    (ld : List Nat) (hfk : fuel + 1 + k = g.V) (hcl : cur.length = g.V)
    (hcur : ∀ i < g.V, at_ cur i = dilN g init k i) (hld : LdInv g init k ld)
    (hbefore : ∀ m < k, ∃ i < g.V, NonMax g init m i)
    (hrec : ∀ (nxt : List Rat) (ld1 : List Nat), nxt.length = g.V →
      (∀ i < g.V, at_ nxt i = dilN g init (k + 1) i) → LdInv g init (k + 1) ld1 →
      (∀ m < k + 1, ∃ i < g.V, NonMax g init m i) → LoopGoal g init (lmaxLoop g init fuel (k + 1) nxt ld1)) :
    LoopGoal g init (lmaxLoop g init (fuel + 1) k cur ld) := by
  have hnxt : fastDilate g 1 cur = (List.range g.V).map (dilF g (at_ cur)) := by
    rw [fastDilate_eq g hv 1 cur hcl]; rfl
  have hnx : ∀ i < g.V, at_ (fastDilate g 1 cur) i = dilN g init (k + 1) i := by
    intro i hi
    rw [hnxt, at_map_range _ hi, dilN_succ]
    exact dilF_congr hcur hi
  rw [lmaxLoop]
  set nxt := fastDilate g 1 cur with hnxtdef
  set nonMax := (List.range g.V).map (fun i => decide (at_ nxt i > at_ cur i)) with hnm
  have hnmi : ∀ i < g.V, (nonMax.getD i false = true ↔ NonMax g init k i) := by
    intro i hi
    rw [hnm, getD_map_range g.V _ false hi, hnx i hi, hcur i hi]
    unfold NonMax
    simp
  have hld1 := ldInv_step g init k (by omega) ld hld (fun i => nonMax.getD i false) hnmi
  by_cases hall : nonMax.all (· == false) = true
  · simp only [hall, if_true]
    have hno : ∀ i < g.V, ¬ NonMax g init k i := by
      intro i hi h
      have h1 := (hnmi i hi).2 h
      have h2 := (List.all_eq_true.1 hall) (nonMax.getD i false) (by
        rw [hnm, getD_map_range g.V _ false hi]
        exact List.mem_map.2 ⟨i, List.mem_range.2 hi, rfl⟩)
      rw [h1] at h2; cases h2
    refine ⟨k, by omega, hno, hbefore, fun i hi => ?_⟩
    rw [getD_map_range g.V _ 0 hi]
    have hfin := lmaxLoop_final g init k ld hld hno i hi
    have hl1 : ((List.range g.V).map
        (fun i => if nonMax.getD i false then min k (ld.getD i 0) else ld.getD i 0)).getD i 0 =
        ld.getD i 0 := by
      rw [getD_map_range g.V _ 0 hi]
      have : nonMax.getD i false = false := by
        by_contra h
        exact hno i hi ((hnmi i hi).1 (by simpa using h))
      rw [this]; rfl
    rw [hl1, hnx i hi]
    exact hfin
  · simp only [hall, Bool.false_eq_true, if_false]
    have hsome : ∃ i < g.V, NonMax g init k i := by
      by_contra hcon
      apply hall
      rw [List.all_eq_true]
      intro b hb
      obtain ⟨i, hi, rfl⟩ := List.mem_map.1 hb
      have hi := List.mem_range.1 hi
      have : ¬ NonMax g init k i := fun h => hcon ⟨i, hi, h⟩
      have h2 : ¬ (nonMax.getD i false = true) := fun h => this ((hnmi i hi).1 h)
      rw [hnm, getD_map_range g.V _ false hi] at h2
      simpa using h2
    apply hrec nxt _ (by rw [hnxt]; simp) hnx hld1
    intro m hm
    by_cases hmk : m < k
    · exact hbefore m hmk
    · have : m = k := by omega
      subst this; exact hsome

/-- **the dilation loop of `local_maxima`**, started as the method starts it: it stops after some
    `K < V` rounds and every vertex holds the first radius at which its ball maximum grows — or
    `max K 1` when it never does -/
theorem lmaxLoop_value (g : Graph) (hv : g.Valid) (init : List Rat) :
    ∀ (fuel k : Nat) (cur : List Rat) (ld : List Nat), fuel + 1 + k = g.V →
      cur.length = g.V → (∀ i < g.V, at_ cur i = dilN g init k i) →
      LdInv g init k ld → (∀ m < k, ∃ i < g.V, NonMax g init m i) →
      LoopGoal g init (lmaxLoop g init (fuel + 1) k cur ld) := by
  intro fuel
  induction fuel with
  | zero =>
    intro k cur ld hfk hcl hcur hld hbefore
    apply lmaxLoop_round g hv init 0 k cur ld hfk hcl hcur hld hbefore
    intro _ _ _ _ _ hb
    exfalso
    obtain ⟨i, hi, hnm⟩ := hb k (Nat.lt_succ_self _)
    have := nonMax_bound g init k i hi hnm
    omega
  | succ fuel ih =>
    intro k cur ld hfk hcl hcur hld hbefore
    apply lmaxLoop_round g hv init (fuel + 1) k cur ld hfk hcl hcur hld hbefore
    intro nxt ld1 hl hnx hld1 hb
    exact ih (k + 1) nxt ld1 (by omega) hl hnx hld1 hb

end NipyVerif.C12
