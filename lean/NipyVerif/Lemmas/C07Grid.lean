/- Helper lemmas for the high-resolution grid of C07 (`hrGrid`, `linspace`, interpolation at nodes). -/
import NipyVerif.Lemmas.C07

namespace NipyVerif.C07
open Finset

theorem ceil_eq (q : Rat) : Rat.ceil q = ⌈q⌉ :=
  eq_of_forall_ge_iff (fun z => by rw [Rat.ceil_le_iff, Int.ceil_le])

theorem uniformGrid_length (n : Nat) (t0 dt : Rat) : (uniformGrid n t0 dt).length = n := by
  simp [uniformGrid]

theorem uniformGrid_succ (n : Nat) (t0 dt : Rat) :
    uniformGrid (n + 1) t0 dt = uniformGrid n t0 dt ++ [t0 + dt * (n : Rat)] := by
  simp [uniformGrid, List.range_succ]

theorem uniformGrid_getD (n : Nat) (t0 dt : Rat) (j : Nat) (hj : j < n) :
    (uniformGrid n t0 dt).getD j 0 = t0 + dt * (j : Rat) := by
  simp [uniformGrid, List.getD, hj]

theorem uniformGrid_headD (n : Nat) (t0 dt : Rat) (hn : 0 < n) :
    (uniformGrid n t0 dt).headD 0 = t0 := by
  cases n with
  | zero => omega
  | succ n => simp [uniformGrid, List.range_succ_eq_map]

theorem foldl_min_uniform (n : Nat) (t0 dt : Rat) (hdt : 0 ≤ dt) :
    (uniformGrid n t0 dt).foldl min t0 = t0 := by
  induction n with
  | zero => simp [uniformGrid]
  | succ n ih =>
      rw [uniformGrid_succ, List.foldl_append, ih]
      simp only [List.foldl_cons, List.foldl_nil]
      apply min_eq_left
      have : (0 : Rat) ≤ (n : Rat) := by positivity
      nlinarith

theorem foldl_max_uniform (n : Nat) (t0 dt : Rat) (hdt : 0 ≤ dt) :
    (uniformGrid (n + 1) t0 dt).foldl max t0 = t0 + dt * (n : Rat) := by
  induction n with
  | zero => simp [uniformGrid]
  | succ n ih =>
      rw [uniformGrid_succ, List.foldl_append, ih]
      simp only [List.foldl_cons, List.foldl_nil]
      apply max_eq_right
      push_cast
      nlinarith

theorem listMin_uniform (n : Nat) (t0 dt : Rat) (hn : 0 < n) (hdt : 0 ≤ dt) :
    listMin (uniformGrid n t0 dt) = t0 := by
  unfold listMin
  rw [uniformGrid_headD n t0 dt hn, foldl_min_uniform n t0 dt hdt]

theorem listMax_uniform (n : Nat) (t0 dt : Rat) (hdt : 0 ≤ dt) :
    listMax (uniformGrid (n + 1) t0 dt) = t0 + dt * (n : Rat) := by
  unfold listMax
  rw [uniformGrid_headD (n + 1) t0 dt (by omega), foldl_max_uniform n t0 dt hdt]

/-- `linspace` over `num ≥ 2` points is the uniform grid of step `(stop - start)/(num - 1)` -/
theorem linspace_eq_uniform (start dt : Rat) (m : Nat) :
    linspace start (start + dt * ((m : Rat) + 1)) (m + 2) = uniformGrid (m + 2) start dt := by
  unfold linspace uniformGrid
  apply List.map_congr_left
  intro i _
  have h : (((m + 2 : Nat) : Rat) - 1) = (m : Rat) + 1 := by push_cast; ring
  rw [h]
  have hne : ((m : Rat) + 1) ≠ 0 := by positivity
  field_simp
  ring

theorem trOf_uniform (m : Nat) (t0 tr : Rat) (htr : 0 ≤ tr) :
    trOf (uniformGrid (m + 2) t0 tr) = tr := by
  unfold trOf
  rw [listMax_uniform (m + 1) t0 tr htr, listMin_uniform (m + 2) t0 tr (by omega) htr,
    uniformGrid_length]
  have hne : ((m : Rat) + 1) ≠ 0 := by positivity
  have h : (((m + 2 : Nat) : Rat) - 1) = (m : Rat) + 1 := by push_cast; ring
  rw [h, div_eq_iff hne]
  push_cast
  ring

theorem nPre_uniform (m os : Nat) (t0 tr mo : Rat) (htr : 0 ≤ tr) :
    nPre (uniformGrid (m + 2) t0 tr) os mo = ⌈-mo / (tr / (os : Rat))⌉ := by
  unfold nPre
  rw [trOf_uniform m t0 tr htr, ceil_eq]

theorem hrGrid_uniform' (m os : Nat) (t0 tr mo : Rat) (htr : 0 < tr) (hos : 0 < os) (hmo : mo ≤ 0) :
    hrGrid (uniformGrid (m + 2) t0 tr) os mo =
      .ok (uniformGrid (⌈-mo / (tr / (os : Rat))⌉.toNat + (m + 2) * os + 1)
            (t0 - (⌈-mo / (tr / (os : Rat))⌉.toNat : Rat) * (tr / (os : Rat))) (tr / (os : Rat))) := by
  have hosq : (0 : Rat) < (os : Rat) := by exact_mod_cast hos
  have hdt : 0 < tr / (os : Rat) := div_pos htr hosq
  have hz : 0 ≤ ⌈-mo / (tr / (os : Rat))⌉ := by
    apply Int.ceil_nonneg
    apply div_nonneg _ hdt.le
    linarith
  obtain ⟨z, hzz⟩ := Int.eq_ofNat_of_zero_le hz
  unfold hrGrid
  simp only [uniformGrid_length]
  rw [if_neg (by omega), if_neg (by omega)]
  simp only [nHr, nPre_uniform m os t0 tr mo htr.le, trOf_uniform m t0 tr htr.le, uniformGrid_length]
  rw [if_neg hdt.ne', hzz]
  rw [if_neg (by omega)]
  simp only [Int.toNat_natCast]
  have hnum : ((z : Int) + (((m + 2) * os : Nat) : Int) + 1).toNat = (z + (m + 2) * os - 1) + 2 := by
    have : 0 < (m + 2) * os := Nat.mul_pos (by omega) hos
    omega
  rw [hnum]
  have hN : z + (m + 2) * os + 1 = (z + (m + 2) * os - 1) + 2 := by
    have : 0 < (m + 2) * os := Nat.mul_pos (by omega) hos
    omega
  have hM : (((z + (m + 2) * os - 1 : Nat) : Rat) + 1) = (z : Rat) + ((m : Rat) + 2) * (os : Rat) := by
    have : 0 < (m + 2) * os := Nat.mul_pos (by omega) hos
    have h1 : z + (m + 2) * os - 1 + 1 = z + (m + 2) * os := by omega
    have : (((z + (m + 2) * os - 1 : Nat) : Rat) + 1) = ((z + (m + 2) * os - 1 + 1 : Nat) : Rat) := by
      push_cast; ring
    rw [this, h1]; push_cast; ring
  have hstop : t0 + tr * (((m + 1 : Nat)) : Rat) + tr =
      (t0 - (z : Rat) * (tr / (os : Rat))) + (tr / (os : Rat)) * (((z + (m + 2) * os - 1 : Nat) : Rat) + 1) := by
    rw [hM]
    push_cast
    field_simp
    ring
  rw [listMax_uniform (m + 1) t0 tr htr.le, listMin_uniform (m + 2) t0 tr (by omega) htr.le, hN,
    hstop, Int.cast_natCast, linspace_eq_uniform]

/-! ### interpolation at the nodes -/

theorem interp1_node (ts ys : List Rat) (hlen : ts.length = ys.length)
    (hs : ts.Pairwise (· < ·)) (j : Nat) (hj : j < ts.length) :
    interp1 ts ys (ts.getD j 0) = some (ys.getD j 0) := by
  induction ts generalizing ys j with
  | nil => simp at hj
  | cons t0 rest ih =>
      cases ys with
      | nil => simp at hlen
      | cons y0 ys' =>
          cases rest with
          | nil =>
              cases ys' with
              | nil =>
                  have : j = 0 := by simpa using hj
                  subst this
                  simp [interp1]
              | cons _ _ => simp at hlen
          | cons t1 rest' =>
              cases ys' with
              | nil => simp at hlen
              | cons y1 ys'' =>
                  have h01 : t0 < t1 := by
                    have := List.rel_of_pairwise_cons hs (a' := t1) (by simp)
                    exact this
                  have hs' : (t1 :: rest').Pairwise (· < ·) := (List.pairwise_cons.mp hs).2
                  match j, hj with
                  | 0, _ =>
                      simp only [List.getD_cons_zero, interp1]
                      rw [if_neg (lt_irrefl t0), if_pos h01.le, if_neg (ne_of_gt h01)]
                      simp
                  | 1, _ =>
                      simp only [List.getD_cons_succ, List.getD_cons_zero, interp1]
                      rw [if_neg (not_lt.mpr h01.le), if_pos (le_refl t1), if_neg (ne_of_gt h01)]
                      have : t1 - t0 ≠ 0 := sub_ne_zero.mpr (ne_of_gt h01)
                      rw [div_self this]; simp
                  | j + 2, hj =>
                      have hj' : j + 1 < (t1 :: rest').length := by simpa using hj
                      have hgt : t1 < (t1 :: rest').getD (j + 1) 0 := by
                        have hmem : (t1 :: rest').getD (j + 1) 0 ∈ rest' := by
                          simp only [List.getD_cons_succ]
                          have hj'' : j < rest'.length := by simpa using hj'
                          simp [List.getD, List.getElem?_eq_getElem hj'']
                        exact List.rel_of_pairwise_cons hs' hmem
                      have e : (t0 :: t1 :: rest').getD (j + 2) 0 = (t1 :: rest').getD (j + 1) 0 := by
                        simp
                      have e2 : (y0 :: y1 :: ys'').getD (j + 2) 0 = (y1 :: ys'').getD (j + 1) 0 := by
                        simp
                      rw [e, e2]
                      have := ih (y1 :: ys'') (by simpa using hlen) hs' (j + 1) hj'
                      rw [← this]
                      conv_lhs => rw [interp1]
                      rw [if_neg (not_lt.mpr (h01.le.trans hgt.le)), if_neg (not_le.mpr hgt)]

theorem resample_nodes (ts ys : List Rat) (hlen : ts.length = ys.length)
    (hs : ts.Pairwise (· < ·)) (idx : List Nat) (hidx : ∀ j ∈ idx, j < ts.length) :
    resample ts ys (idx.map (fun j => ts.getD j 0)) = some (idx.map (fun j => ys.getD j 0)) := by
  unfold resample
  induction idx with
  | nil => simp
  | cons j js ih =>
      have h1 := interp1_node ts ys hlen hs j (hidx j (by simp))
      have h2 := ih (fun k hk => hidx k (by simp [hk]))
      simp only [List.map_cons, List.mapM_cons, h1, h2]
      rfl

theorem uniformGrid_pairwise (n : Nat) (t0 dt : Rat) (hdt : 0 < dt) :
    (uniformGrid n t0 dt).Pairwise (· < ·) := by
  unfold uniformGrid
  rw [List.pairwise_map]
  apply List.Pairwise.imp _ (List.pairwise_lt_range (n := n))
  intro a b hab
  have : (a : Rat) < (b : Rat) := by exact_mod_cast hab
  nlinarith

/-! ### the executable pipeline computes the specification -/

theorem ofArr_toArray (l : List Rat) : ofArr l.toArray = ofList l := by
  funext i
  simp only [ofArr, ofList, Array.getD, List.getD, List.size_toArray]
  split
  · rename_i h; simp [List.getElem?_eq_getElem h]
  · rename_i h; simp [List.getElem?_eq_none (not_lt.mp h)]

theorem prefixSum_congr (f g : Nat → Rat) (i : Nat) (h : ∀ j, j ≤ i → f j = g j) :
    prefixSum f i = prefixSum g i := by
  rw [prefixSum_eq_sum, prefixSum_eq_sum]
  apply sum_congr rfl
  intro j hj
  exact h j (by simp at hj; omega)

theorem convAt_congr (x x' h : Nat → Rat) (i : Nat) (hx : ∀ j, j ≤ i → x j = x' j) :
    convAt x h i = convAt x' h i := by
  unfold convAt
  apply prefixSum_congr
  intro j hj; rw [hx j hj]

theorem convTrunc_length (x h : List Rat) : (convTrunc x h).length = x.length := by
  simp [convTrunc]

theorem convTrunc_getD (x h : List Rat) (j : Nat) (hj : j < x.length) :
    (convTrunc x h).getD j 0 = convAt (ofList x) (ofList h) j := by
  simp [convTrunc, ofArr_toArray, List.getD, hj]

theorem scanSum_length (f : Nat → Rat) (s n : Nat) (acc : Rat) : (scanSum f s n acc).length = n := by
  induction n generalizing s acc with
  | zero => simp [scanSum]
  | succ n ih => simp [scanSum, ih]

theorem sampleCondition_length (g : List Rat) (evs : List Event) :
    (sampleCondition g evs).length = g.length := by
  simp [sampleCondition, scanSum_length]

theorem ofList_sampleCondition (g : List Rat) (evs : List Event) (j : Nat) (hj : j < g.length) :
    ofList (sampleCondition g evs) j = regressorAt g evs j := by
  have : sampleCondition g evs = (List.range g.length).map (regressorAt g evs) := by
    unfold sampleCondition regressorAt impulse
    exact scanSum_eq_prefix _ _
  rw [this]
  simp [ofList, List.getD, hj]

theorem mapM_some_of_forall {α β : Type} (l : List α) (f : α → Option β) (g : α → β)
    (h : ∀ a ∈ l, f a = some (g a)) : l.mapM f = some (l.map g) := by
  induction l with
  | nil => simp
  | cons a as ih =>
      have h1 := h a (by simp)
      have h2 := ih (fun b hb => h b (by simp [hb]))
      simp only [List.mapM_cons, h1, h2, List.map_cons]
      rfl

/-- the `i`-th frame time of a uniform run is the high-resolution grid point
    `n_pre + i * oversampling`. -/
theorem frames_on_grid (m os z : Nat) (t0 tr : Rat) (hos : 0 < os) :
    uniformGrid (m + 2) t0 tr =
      ((List.range (m + 2)).map (fun i => z + i * os)).map
        (fun j => (uniformGrid (z + (m + 2) * os + 1) (t0 - (z : Rat) * (tr / (os : Rat)))
          (tr / (os : Rat))).getD j 0) := by
  rw [List.map_map]
  unfold uniformGrid
  apply List.map_congr_left
  intro i hi
  have hi' : i < m + 2 := by simpa using hi
  have hlt : z + i * os < z + (m + 2) * os + 1 := by
    have : i * os < (m + 2) * os := Nat.mul_lt_mul_of_pos_right hi' hos
    omega
  simp only [Function.comp]
  have := uniformGrid_getD (z + (m + 2) * os + 1) (t0 - (z : Rat) * (tr / (os : Rat)))
    (tr / (os : Rat)) (z + i * os) hlt
  unfold uniformGrid at this
  rw [this]
  have hosq : (os : Rat) ≠ 0 := by exact_mod_cast hos.ne'
  push_cast
  field_simp
  ring

/-- the grid the model builds for a uniform run (abbreviation used by the statements) -/
def gridOf (m os : Nat) (t0 tr mo : Rat) : List Rat :=
  uniformGrid (⌈-mo / (tr / (os : Rat))⌉.toNat + (m + 2) * os + 1)
    (t0 - (⌈-mo / (tr / (os : Rat))⌉.toNat : Rat) * (tr / (os : Rat))) (tr / (os : Rat))

theorem computeRegressor_uniform' (m os : Nat) (t0 tr mo : Rat) (htr : 0 < tr) (hos : 0 < os)
    (hmo : mo ≤ 0) (evs : List Event) (kernels : List (List Rat)) :
    computeRegressor (uniformGrid (m + 2) t0 tr) os mo evs kernels false =
      .ok (kernels.map (fun h => (List.range (m + 2)).map (fun i =>
        convAt (regressorAt (gridOf m os t0 tr mo) evs) (ofList h)
          (⌈-mo / (tr / (os : Rat))⌉.toNat + i * os)))) := by
  have hosq : (0 : Rat) < (os : Rat) := by exact_mod_cast hos
  have hdt : 0 < tr / (os : Rat) := div_pos htr hosq
  unfold computeRegressor sampleFrames
  rw [hrGrid_uniform' m os t0 tr mo htr hos hmo]
  simp only
  set z := ⌈-mo / (tr / (os : Rat))⌉.toNat with hz
  set g := uniformGrid (z + (m + 2) * os + 1) (t0 - (z : Rat) * (tr / (os : Rat))) (tr / (os : Rat)) with hg
  have hgl : g.length = z + (m + 2) * os + 1 := uniformGrid_length _ _ _
  rw [if_neg (by rw [hgl]; omega)]
  simp only
  have key : ∀ h ∈ kernels, resample g (convTrunc (sampleCondition g evs) h) (uniformGrid (m + 2) t0 tr) =
      some ((List.range (m + 2)).map (fun i =>
        convAt (regressorAt g evs) (ofList h) (z + i * os))) := by
    intro h _
    rw [frames_on_grid m os z t0 tr hos, ← hg]
    have hidx : ∀ j ∈ (List.range (m + 2)).map (fun i => z + i * os), j < g.length := by
      intro j hj
      obtain ⟨i, hi, rfl⟩ := List.mem_map.mp hj
      have hi' : i < m + 2 := by simpa using hi
      have : i * os < (m + 2) * os := Nat.mul_lt_mul_of_pos_right hi' hos
      rw [hgl]; omega
    rw [resample_nodes g _ (by rw [convTrunc_length, sampleCondition_length])
      (uniformGrid_pairwise _ _ _ hdt) _ hidx, List.map_map]
    congr 1
    apply List.map_congr_left
    intro i hi
    have hi' : i < m + 2 := by simpa using hi
    have hlt : z + i * os < g.length := hidx _ (List.mem_map.mpr ⟨i, hi, rfl⟩)
    simp only [Function.comp]
    rw [convTrunc_getD _ _ _ (by rw [sampleCondition_length]; exact hlt)]
    apply convAt_congr
    intro j hj
    exact ofList_sampleCondition g evs j (by omega)
  rw [mapM_some_of_forall kernels _ _ key]
  simp [gridOf, ← hz, ← hg]

/-! ### delaying every onset by a whole number of grid steps -/

/-- delay every onset by `s` seconds -/
def shiftEvents (s : Rat) (evs : List Event) : List Event :=
  evs.map (fun e => { e with onset := e.onset + s })

theorem impulseIdx_shift (idx : List (Nat × Nat × Rat)) (K j : Nat) :
    impulseIdx (idx.map (fun t => (t.1 + K, t.2.1 + K, t.2.2))) j = delay K (impulseIdx idx) j := by
  unfold impulseIdx delay
  by_cases hj : j < K
  · rw [if_pos hj]
    apply List.sum_eq_zero
    intro x hx
    simp only [List.map_map, List.mem_map, Function.comp] at hx
    obtain ⟨t, _, rfl⟩ := hx
    have h1 : ¬ (t.1 + K = j) := by omega
    have h2 : ¬ (t.2.1 + K = j) := by omega
    simp [h1, h2]
  · rw [if_neg hj, List.map_map]
    congr 1
    apply List.map_congr_left
    intro t _
    simp only [Function.comp]
    have e1 : (t.1 + K = j) ↔ (t.1 = j - K) := by omega
    have e2 : (t.2.1 + K = j) ↔ (t.2.1 = j - K) := by omega
    simp only [e1, e2]

theorem prefixSum_delay_all (f : Nat → Rat) (K j : Nat) :
    prefixSum (delay K f) j = delay K (prefixSum f) j := by
  by_cases hj : j < K
  · simp only [delay, if_pos hj]
    apply prefixSum_eq_zero
    intro i hi
    simp [delay, show i < K by omega]
  · have : j = (j - K) + K := by omega
    rw [this, prefixSum_delay_plain]
    simp [delay]

theorem eventIdx_shift (N : Nat) (s dt : Rat) (e : Event) (K : Nat) (hdt : 0 < dt)
    (hin : s - dt < e.onset) (hd : 0 ≤ e.dur)
    (hfit : searchsorted (uniformGrid N s dt) (e.onset + e.dur) + K + 2 ≤ N) :
    eventIdx (uniformGrid N s dt) { e with onset := e.onset + (K : Rat) * dt } =
      ((eventIdx (uniformGrid N s dt) e).1 + K, (eventIdx (uniformGrid N s dt) e).2.1 + K, e.amp) := by
  have hmono : searchsorted (uniformGrid N s dt) e.onset ≤
      searchsorted (uniformGrid N s dt) (e.onset + e.dur) := searchsorted_mono _ (by linarith)
  have h1 := searchsorted_uniform_shift' N s dt e.onset K hdt hin (by omega)
  have h2 := searchsorted_uniform_shift' N s dt (e.onset + e.dur) K hdt (by linarith) (by omega)
  have e2 : e.onset + (K : Rat) * dt + e.dur = e.onset + e.dur + (K : Rat) * dt := by ring
  simp only [eventIdx, onsetIdx, offsetIdx, uniformGrid_length, h1, e2, h2]
  have a1 : min (searchsorted (uniformGrid N s dt) e.onset + K) (N - 1) =
      searchsorted (uniformGrid N s dt) e.onset + K := by omega
  have a2 : min (searchsorted (uniformGrid N s dt) e.onset) (N - 1) =
      searchsorted (uniformGrid N s dt) e.onset := by omega
  have a3 : min (searchsorted (uniformGrid N s dt) (e.onset + e.dur) + K) (N - 1) =
      searchsorted (uniformGrid N s dt) (e.onset + e.dur) + K := by omega
  have a4 : min (searchsorted (uniformGrid N s dt) (e.onset + e.dur)) (N - 1) =
      searchsorted (uniformGrid N s dt) (e.onset + e.dur) := by omega
  rw [a1, a2, a3, a4]
  refine Prod.ext rfl (Prod.ext ?_ rfl)
  simp only
  split_ifs <;> omega

theorem regressorAt_shift (N : Nat) (s dt : Rat) (evs : List Event) (K : Nat) (hdt : 0 < dt)
    (hin : ∀ e ∈ evs, s - dt < e.onset) (hd : ∀ e ∈ evs, 0 ≤ e.dur)
    (hfit : ∀ e ∈ evs, searchsorted (uniformGrid N s dt) (e.onset + e.dur) + K + 2 ≤ N) (j : Nat) :
    regressorAt (uniformGrid N s dt) (shiftEvents ((K : Rat) * dt) evs) j =
      delay K (regressorAt (uniformGrid N s dt) evs) j := by
  unfold regressorAt
  rw [← prefixSum_delay_all]
  congr 1
  funext i
  unfold impulse shiftEvents
  rw [← impulseIdx_shift, List.map_map, List.map_map]
  congr 1
  apply List.map_congr_left
  intro e he
  simp only [Function.comp]
  rw [eventIdx_shift N s dt e K hdt (hin e he) (hd e he) (hfit e he)]
  simp [eventIdx]

/-- a single event whose offset index is the next sample (a zero-duration event) convolved with
    any kernel picks out one kernel tap -/
theorem convAt_single (a : Nat) (amp : Rat) (h : Nat → Rat) (i : Nat) :
    convAt (fun j => if a ≤ j ∧ j < a + 1 then amp else 0) h i =
      if a ≤ i then amp * h (i - a) else 0 := by
  unfold convAt
  rw [prefixSum_eq_sum]
  by_cases hai : a ≤ i
  · rw [if_pos hai, sum_eq_single a]
    · simp
    · intro b _ hb
      have : ¬ (a ≤ b ∧ b < a + 1) := by omega
      show (if a ≤ b ∧ b < a + 1 then amp else 0) * h (i - b) = 0
      rw [if_neg this, zero_mul]
    · intro hna
      exfalso; apply hna; simp; omega
  · rw [if_neg hai]
    apply sum_eq_zero
    intro b hb
    have : ¬ (a ≤ b ∧ b < a + 1) := by simp at hb; omega
    show (if a ≤ b ∧ b < a + 1 then amp else 0) * h (i - b) = 0
    rw [if_neg this, zero_mul]

theorem ofList_firKernel (os d m : Nat) :
    ofList (firKernel os d) m = if d * os ≤ m ∧ m < d * os + os then 1 else 0 := by
  unfold ofList firKernel
  by_cases h1 : m < d * os
  · have : ¬ (d * os ≤ m ∧ m < d * os + os) := by omega
    rw [if_neg this]
    simp [List.getD, List.getElem?_append_left, h1]
  · by_cases h2 : m < d * os + os
    · rw [if_pos ⟨by omega, h2⟩]
      simp only [List.getD]
      rw [List.getElem?_append_right (by simp; omega)]
      simp only [List.length_replicate]
      rw [List.getElem?_replicate]
      simp [show m - d * os < os by omega]
    · have : ¬ (d * os ≤ m ∧ m < d * os + os) := by omega
      rw [if_neg this]
      simp only [List.getD]
      rw [List.getElem?_append_right (by simp; omega)]
      simp only [List.length_replicate]
      rw [List.getElem?_replicate]
      simp [show ¬ (m - d * os < os) by omega]

end NipyVerif.C07
