/-
C14 — Ward-specific invariants over the merge loop: the accumulated features of every node are those
of a non-empty list of data vectors, stored heights are merged within-cluster sums of squares (so the
`max(cost, height[i], height[j])` of the code is the cost itself in exact arithmetic), new edge costs
dominate old ones (heights are sorted in creation order, `ward_quick`'s batches are greedy steps).
-/
import NipyVerif.Lemmas.C14
import NipyVerif.Lemmas.C14Skel

namespace NipyVerif.C14

/-! ### inertia of unions -/

theorem featOf_inertia_eq_ssq (p : Nat) (L : List Vec) (hL : L ≠ []) :
    (featOf p L).inertia p = ssq p L (meanv L) := by
  rw [featOf_inertia, inertiaF_eq_ssq p L hL]

theorem inertia_nonneg (p : Nat) (L : List Vec) (hL : L ≠ []) : 0 ≤ (featOf p L).inertia p := by
  rw [featOf_inertia_eq_ssq p L hL]; exact ssq_nonneg p L _

theorem inertia_union_ge (p : Nat) (A B : List Vec) (hA : A ≠ []) :
    (featOf p A).inertia p ≤ (featOf p (A ++ B)).inertia p := by
  by_cases hB : B = []
  · simp [hB]
  · rw [featOf_inertia_eq_ssq p A hA, featOf_inertia_eq_ssq p (A ++ B) (by simp [hA]), ssq_append]
    have h1 := ssq_mean_le p A (meanv (A ++ B))
    have h2 := ssq_nonneg p B (meanv (A ++ B))
    linarith

/-- the inertia only depends on the count, the column sums and the column sums of squares -/
theorem inertia_congr (p : Nat) (A C : List Vec) (hlen : C.length = A.length)
    (hs : ∀ d, colsum C d = colsum A d) (hq : ∀ d, colsq C d = colsq A d) :
    (featOf p C).inertia p = (featOf p A).inertia p := by
  rw [featOf_inertia, featOf_inertia]
  unfold inertiaF
  apply sumTo_congr
  intro d _
  rw [hs d, hq d, hlen]

/-- a cluster whose count / sums / sums of squares are those of `A` plus something costs at least
    as much as `A` -/
theorem inertia_le_of_measure (p : Nat) (A B C : List Vec) (hA : A ≠ [])
    (hlen : C.length = A.length + B.length)
    (hs : ∀ d, colsum C d = colsum A d + colsum B d)
    (hq : ∀ d, colsq C d = colsq A d + colsq B d) :
    (featOf p A).inertia p ≤ (featOf p C).inertia p := by
  have e : (featOf p C).inertia p = (featOf p (A ++ B)).inertia p :=
    inertia_congr p (A ++ B) C (by simp [hlen]) (fun d => by rw [hs d, colsum_append])
      (fun d => by rw [hq d, colsq_append])
  rw [e]
  exact inertia_union_ge p A B hA

/-! ### arrays -/

theorem getD_push_lt {α : Type} (a : Array α) (x d : α) (i : Nat) (h : i < a.size) :
    (a.push x).getD i d = a.getD i d := by
  simp [Array.getD, Array.getElem_push, h, Nat.lt_succ_of_lt h]

theorem getD_ge_size {α : Type} (a : Array α) (i : Nat) (d : α) (h : a.size ≤ i) : a.getD i d = d := by
  simp [Array.getD, Nat.not_lt.mpr h]

theorem getD_push_eq {α : Type} (a : Array α) (x d : α) : (a.push x).getD a.size d = x := by
  simp [Array.getD]

/-! ### the invariant -/

/-- `L v` = the data vectors gathered in node `v` -/
structure WInv (p : Nat) (s : WState) (L : Nat → List Vec) : Prop where
  fsize : s.feats.size = s.sk.size
  hsize : s.hs.size = s.sk.size
  ne : ∀ v, v < s.sk.size → L v ≠ []
  feat : ∀ v, v < s.sk.size → featAt s v = featOf p (L v)
  height : ∀ v, v < s.sk.size → heightAt s v = (featOf p (L v)).inertia p

theorem WInv.edgeCost_eq {p : Nat} {s : WState} {L : Nat → List Vec} (h : WInv p s L) {i j : Nat}
    (hi : i < s.sk.size) (hj : j < s.sk.size) :
    edgeCost p s (i, j) = (featOf p (L i ++ L j)).inertia p := by
  unfold edgeCost
  simp only
  rw [h.feat i hi, h.feat j hj, featOf_add]

theorem WInv.cost_ge_left {p : Nat} {s : WState} {L : Nat → List Vec} (h : WInv p s L) {i j : Nat}
    (hi : i < s.sk.size) (hj : j < s.sk.size) : heightAt s i ≤ edgeCost p s (i, j) := by
  rw [h.edgeCost_eq hi hj, h.height i hi]
  exact inertia_union_ge p (L i) (L j) (h.ne i hi)

theorem WInv.cost_ge_right {p : Nat} {s : WState} {L : Nat → List Vec} (h : WInv p s L) {i j : Nat}
    (hi : i < s.sk.size) (hj : j < s.sk.size) : heightAt s j ≤ edgeCost p s (i, j) := by
  rw [h.edgeCost_eq hi hj, h.height j hj]
  apply inertia_le_of_measure p (L j) (L i) (L i ++ L j) (h.ne j hj)
  · simp [Nat.add_comm]
  · intro d; rw [colsum_append]; ring
  · intro d; rw [colsq_append]; ring

/-- leaves: the feature row of an item with `p` entries is that of the one-point cluster -/
theorem leafFeat_eq (p : Nat) (x : List Rat) (hx : x.length = p) : leafFeat x = featOf p [vecOf x] := by
  unfold leafFeat featOf
  congr 1
  · apply List.ext_getElem
    · simp [hx]
    · intro d h1 h2
      simp [colsum, vecOf, List.getD_eq_getElem?_getD, h1]
  · apply List.ext_getElem
    · simp [hx]
    · intro d h1 h2
      have h1' : d < x.length := by simpa using h1
      simp [colsq, vecOf, List.getD_eq_getElem?_getD, h1']

theorem leaf_inertia_zero (p : Nat) (x : Vec) : (featOf p [x]).inertia p = 0 := by
  rw [featOf_inertia, inertiaF_eq_ssq p [x] (by simp)]
  have : ∀ d, meanv [x] d = x d := by intro d; simp [meanv, colsum]
  simp [ssq, sqDist, this, sumTo_zero]

theorem winv_init (p : Nat) (X : List (List Rat)) (E : List (Nat × Nat))
    (hX : ∀ x ∈ X, x.length = p) :
    WInv p (wardInit X E) (fun v => [vecOf (X.getD v [])]) where
  fsize := by simp [wardInit, skelInit]
  hsize := by simp [wardInit, skelInit]
  ne := by intro v _; simp
  feat := by
    intro v hv
    have hv' : v < X.length := by simpa [wardInit, skelInit] using hv
    have : featAt (wardInit X E) v = leafFeat (X.getD v []) := by
      simp [featAt, wardInit, Array.getD, List.getD_eq_getElem?_getD, hv']
    rw [this]
    apply leafFeat_eq
    apply hX
    simp [List.getD_eq_getElem?_getD, hv']
  height := by
    intro v hv
    have hv' : v < X.length := by simpa [wardInit, skelInit] using hv
    rw [leaf_inertia_zero]
    simp [heightAt, wardInit, Array.getD, hv']

/-- the ghost lists after a merge -/
def mergeL (L : Nat → List Vec) (k i j : Nat) : Nat → List Vec :=
  fun v => if v = k then L i ++ L j else L v

theorem featAt_merge_old (s : WState) (i j : Nat) (c : Rat) (g : Option Rat) (v : Nat)
    (hv : v < s.feats.size) : featAt (mergeInto s i j c g) v = featAt s v := by
  unfold featAt mergeInto
  exact getD_push_lt _ _ _ _ hv

theorem heightAt_merge_old (s : WState) (i j : Nat) (c : Rat) (g : Option Rat) (v : Nat)
    (hv : v < s.hs.size) : heightAt (mergeInto s i j c g) v = heightAt s v := by
  unfold heightAt mergeInto
  exact getD_push_lt _ _ _ _ hv

/-- **the clamp is a no-op in exact arithmetic**: the height stored for the merge of two existing
    nodes is the cost itself -/
theorem WInv.clamp_noop {p : Nat} {s : WState} {L : Nat → List Vec} (h : WInv p s L) {i j : Nat}
    (hi : i < s.sk.size) (hj : j < s.sk.size) :
    max (edgeCost p s (i, j)) (max (heightAt s i) (heightAt s j)) = edgeCost p s (i, j) := by
  have h1 := h.cost_ge_left hi hj
  have h2 := h.cost_ge_right hi hj
  exact max_eq_left (max_le h1 h2)

theorem winv_merge {p : Nat} {s : WState} {L : Nat → List Vec} (h : WInv p s L) {i j : Nat}
    (hi : i < s.sk.size) (hj : j < s.sk.size) (g : Option Rat) :
    WInv p (mergeInto s i j (edgeCost p s (i, j)) g) (mergeL L s.sk.size i j) where
  fsize := by simp [mergeInto, Skel.step, h.fsize]
  hsize := by simp [mergeInto, Skel.step, h.hsize]
  ne := by
    intro v hv
    unfold mergeL
    split_ifs with hk
    · simp [h.ne i hi]
    · have : v < s.sk.size := by
        have : v < s.sk.size + 1 := by simpa [mergeInto, Skel.step] using hv
        omega
      exact h.ne v this
  feat := by
    intro v hv
    have hv' : v < s.sk.size + 1 := by simpa [mergeInto, Skel.step] using hv
    unfold mergeL
    split_ifs with hk
    · subst hk
      have : featAt (mergeInto s i j (edgeCost p s (i, j)) g) s.sk.size
          = (featAt s i).add (featAt s j) := by
        unfold featAt mergeInto
        simp only
        rw [← h.fsize]
        exact getD_push_eq _ _ _
      rw [this, h.feat i hi, h.feat j hj, featOf_add]
    · have hlt : v < s.sk.size := by omega
      rw [featAt_merge_old s i j _ g v (by rw [h.fsize]; exact hlt)]
      exact h.feat v hlt
  height := by
    intro v hv
    have hv' : v < s.sk.size + 1 := by simpa [mergeInto, Skel.step] using hv
    unfold mergeL
    split_ifs with hk
    · subst hk
      have : heightAt (mergeInto s i j (edgeCost p s (i, j)) g) s.sk.size
          = max (edgeCost p s (i, j)) (max (heightAt s i) (heightAt s j)) := by
        unfold heightAt mergeInto
        simp only
        rw [← h.hsize]
        exact getD_push_eq _ _ _
      rw [this, h.clamp_noop hi hj, h.edgeCost_eq hi hj]
    · have hlt : v < s.sk.size := by omega
      rw [heightAt_merge_old s i j _ g v (by rw [h.hsize]; exact hlt)]
      exact h.height v hlt

/-! ### reachable Ward states -/

/-- states of `ward` / `ward_quick`: from the items, merge two clusters joined by a live edge at the
    cost of their union (whatever rule picks the edge) -/
inductive WReach (p : Nat) (X : List (List Rat)) (E : List (Nat × Nat)) : WState → Prop
  | init : WReach p X E (wardInit X E)
  | step {s : WState} {i j : Nat} (g : Option Rat) : WReach p X E s → s.sk.adm i j = true →
      WReach p X E (mergeInto s i j (edgeCost p s (i, j)) g)

theorem WReach.skel {p : Nat} {X : List (List Rat)} {E : List (Nat × Nat)} {s : WState}
    (h : WReach p X E s) : Reach X.length E s.sk := by
  induction h with
  | init => exact Reach.init
  | step g _ hadm ih => exact Reach.step ih hadm

theorem WReach.winv {p : Nat} {X : List (List Rat)} {E : List (Nat × Nat)} {s : WState}
    (hE : GoodEdges X.length E) (hX : ∀ x ∈ X, x.length = p) (h : WReach p X E s) :
    ∃ L, WInv p s L := by
  induction h with
  | init => exact ⟨_, winv_init p X E hX⟩
  | @step s i j g hs hadm ih =>
      obtain ⟨L, hL⟩ := ih
      obtain ⟨-, hi, hj, -, -⟩ := (reach_inv hE hs.skel).step_facts hE hadm
      exact ⟨_, winv_merge hL hi hj g⟩

/-! ### new edge costs dominate the old ones -/

/-- what the node `relabel i j k u` holds is what `u` held plus something -/
theorem mergeL_measure (L : Nat → List Vec) (k i j u : Nat) (hu : u ≠ k) :
    ∃ R : List Vec,
      (mergeL L k i j (relabel i j k u)).length = (L u).length + R.length ∧
      (∀ d, colsum (mergeL L k i j (relabel i j k u)) d = colsum (L u) d + colsum R d) ∧
      (∀ d, colsq (mergeL L k i j (relabel i j k u)) d = colsq (L u) d + colsq R d) := by
  unfold relabel mergeL
  by_cases hui : u = i
  · subst hui
    exact ⟨L j, by simp, fun d => by simp [colsum_append], fun d => by simp [colsq_append]⟩
  · by_cases huj : u = j
    · subst huj
      refine ⟨L i, by simp [Nat.add_comm], fun d => ?_, fun d => ?_⟩
      · simp [colsum_append]; ring
      · simp [colsq_append]; ring
    · refine ⟨[], ?_, fun d => ?_, fun d => ?_⟩ <;> simp [hui, huj, hu, colsum, colsq]

/-- every live edge after a merge is the image of an old live edge (not the merged one), and costs
    at least as much -/
theorem merge_costs_dominate {p : Nat} {s : WState} {L : Nat → List Vec} (h : WInv p s L)
    (hedges : ∀ e ∈ s.sk.edges, e.1 < s.sk.size ∧ e.2 < s.sk.size)
    {i j : Nat} (hi : i < s.sk.size) (hj : j < s.sk.size) (g : Option Rat) :
    ∀ e' ∈ (mergeInto s i j (edgeCost p s (i, j)) g).sk.edges,
      ∃ e0 ∈ s.sk.edges, e' = (relabel i j s.sk.size e0.1, relabel i j s.sk.size e0.2) ∧ e'.1 ≠ e'.2 ∧
        edgeCost p s e0 ≤ edgeCost p (mergeInto s i j (edgeCost p s (i, j)) g) e' := by
  intro e' he'
  have he'' : e' ∈ stepEdges s.sk.edges i j s.sk.size := he'
  have hsub := dedupK_subset _ _ _ _ he''
  rw [List.mem_filter, List.mem_map] at hsub
  obtain ⟨⟨e0, he0, rfl⟩, hne⟩ := hsub
  have hne' : relabel i j s.sk.size e0.1 ≠ relabel i j s.sk.size e0.2 := by simpa using hne
  refine ⟨e0, he0, rfl, hne', ?_⟩
  obtain ⟨h1, h2⟩ := hedges e0 he0
  have hW := winv_merge h hi hj g
  have hk : ∀ u, u < s.sk.size → relabel i j s.sk.size u < (mergeInto s i j (edgeCost p s (i, j)) g).sk.size := by
    intro u hu
    have : (mergeInto s i j (edgeCost p s (i, j)) g).sk.size = s.sk.size + 1 := rfl
    rw [this]
    unfold relabel
    split_ifs <;> omega
  have e0eq : e0 = (e0.1, e0.2) := rfl
  rw [e0eq, h.edgeCost_eq h1 h2, hW.edgeCost_eq (hk _ h1) (hk _ h2)]
  obtain ⟨R1, l1, s1, q1⟩ := mergeL_measure L s.sk.size i j e0.1 (by omega)
  obtain ⟨R2, l2, s2, q2⟩ := mergeL_measure L s.sk.size i j e0.2 (by omega)
  apply inertia_le_of_measure p (L e0.1 ++ L e0.2) (R1 ++ R2) _ (by simp [h.ne _ h1])
  · simp only [List.length_append, l1, l2]; omega
  · intro d; simp only [colsum_append, s1 d, s2 d]; ring
  · intro d; simp only [colsq_append, q1 d, q2 d]; ring

/-- costs of edges away from the merged pair do not change -/
theorem edgeCost_merge_old (p : Nat) (s : WState) (i j : Nat) (c : Rat) (g : Option Rat) (e : Nat × Nat)
    (h1 : e.1 < s.feats.size) (h2 : e.2 < s.feats.size) :
    edgeCost p (mergeInto s i j c g) e = edgeCost p s e := by
  unfold edgeCost
  rw [featAt_merge_old s i j c g e.1 h1, featAt_merge_old s i j c g e.2 h2]

/-- `dedupK` keeps every edge away from `k` -/
theorem dedupK_keeps (k : Nat) (l : List (Nat × Nat)) (seen : List Nat) (e : Nat × Nat)
    (he : e ∈ l) (h1 : e.1 ≠ k) (h2 : e.2 ≠ k) : e ∈ dedupK k l seen := by
  induction l generalizing seen with
  | nil => simp at he
  | cons a r ih =>
      unfold dedupK
      rcases List.mem_cons.mp he with rfl | hr
      · simp [h1, h2]
      · split_ifs <;> simp [ih _ hr]


/-! ### the `ward` loop -/

/-- what one iteration of `ward` does: the first cheapest live edge is merged -/
theorem wardStep_spec (p : Nat) (s : WState) (hne : s.sk.edges ≠ []) :
    let m := pickEdge p s
    let e := s.sk.edges.getD m (0, 0)
    m < s.sk.edges.length ∧ e ∈ s.sk.edges ∧
    (∀ e' ∈ s.sk.edges, edgeCost p s e ≤ edgeCost p s e') ∧
    (∀ i, i < m → edgeCost p s e < edgeCost p s (s.sk.edges.getD i (0, 0))) ∧
    wardStep p s = mergeInto s e.1 e.2 (edgeCost p s e) (gapAt (s.sk.edges.map (edgeCost p s)) m) := by
  have hpos : 0 < s.sk.edges.length := List.length_pos_iff.mpr hne
  have hsize : ((s.sk.edges.map (edgeCost p s)).toArray).size = s.sk.edges.length := by simp
  have hcost : ∀ i, i < s.sk.edges.length →
      ((s.sk.edges.map (edgeCost p s)).toArray).getD i 0 = edgeCost p s (s.sk.edges.getD i (0, 0)) := by
    intro i hi
    simp [Array.getD, List.getD_eq_getElem?_getD, hi]
  have hm : pickEdge p s < s.sk.edges.length := by
    unfold pickEdge
    simp only [hsize]
    exact argminFirst_lt _ _ hpos
  refine ⟨hm, ?_, ?_, ?_, ?_⟩
  · simp only [List.getD_eq_getElem?_getD, List.getElem?_eq_getElem hm, Option.getD_some]
    exact List.getElem_mem hm
  · intro e' he'
    obtain ⟨i, hi, rfl⟩ := List.getElem_of_mem he'
    have h := argminFirst_le (fun e => ((s.sk.edges.map (edgeCost p s)).toArray).getD e 0)
      ((s.sk.edges.map (edgeCost p s)).toArray).size i (by simpa using hi)
    have hm' := hm
    unfold pickEdge at hm'
    simp only at h hm'
    rw [hcost _ hm', hcost i hi] at h
    simpa [pickEdge, List.getD_eq_getElem?_getD, hi] using h
  · intro i hi
    have h := argminFirst_first (fun e => ((s.sk.edges.map (edgeCost p s)).toArray).getD e 0)
      ((s.sk.edges.map (edgeCost p s)).toArray).size i hi
    have hm' := hm
    unfold pickEdge at hm'
    simp only at h hm'
    have hi' : i < s.sk.edges.length := lt_trans hi hm
    rw [hcost _ hm', hcost i hi'] at h
    exact h
  · simp only [wardStep]
    congr 1
    have := hcost _ hm
    simp only [Array.getD, List.getD_eq_getElem?_getD] at this ⊢
    simp [hm]

theorem adm_of_mem {s : Skel} {e : Nat × Nat} (he : e ∈ s.edges) : s.adm e.1 e.2 = true :=
  adm_iff.mpr ⟨e, he, Or.inl ⟨rfl, rfl⟩⟩

theorem wardStep_reach {p : Nat} {X : List (List Rat)} {E : List (Nat × Nat)} {s : WState}
    (h : WReach p X E s) (hne : s.sk.edges ≠ []) : WReach p X E (wardStep p s) := by
  obtain ⟨-, hmem, -, -, heq⟩ := wardStep_spec p s hne
  rw [heq]
  exact WReach.step _ h (adm_of_mem hmem)

theorem wardLoop_reach {p : Nat} {X : List (List Rat)} {E : List (Nat × Nat)} (f : Nat) {s : WState}
    (h : WReach p X E s) : WReach p X E (wardLoop p f s) := by
  induction f generalizing s with
  | zero => exact h
  | succ f ih =>
      unfold wardLoop
      split_ifs with he
      · exact h
      · exact ih (wardStep_reach h (by simpa using he))

theorem ward_reach (p : Nat) (X : List (List Rat)) (E : List (Nat × Nat)) :
    WReach p X E (ward p X E) := wardLoop_reach _ WReach.init

/-- a live edge means at least one more merge fits: `#merges + 1 < n` -/
theorem reach_room {n : Nat} {E : List (Nat × Nat)} {s : Skel} (hE : GoodEdges n E)
    (hR : Reach n E s) (hne : s.edges ≠ []) : s.ms.length + 1 < n := by
  obtain ⟨e, he⟩ := List.exists_mem_of_ne_nil _ hne
  have hadm := adm_of_mem he
  have hR' : Reach n E (s.step e.1 e.2) := Reach.step hR hadm
  obtain ⟨-, e0, he0, -⟩ := (reach_inv hE hR).sound e he
  have hn : 0 < n := by have := (hE e0 he0).1; omega
  have := (reach_inv hE hR').merges_lt hn
  simpa [Skel.step] using this

theorem wardLoop_done {p : Nat} {X : List (List Rat)} {E : List (Nat × Nat)}
    (hE : GoodEdges X.length E) (f : Nat) {s : WState} (h : WReach p X E s)
    (hf : X.length ≤ s.sk.ms.length + 1 + f) : (wardLoop p f s).sk.edges = [] := by
  induction f generalizing s with
  | zero =>
      by_contra hne
      have := reach_room hE h.skel hne
      omega
  | succ f ih =>
      unfold wardLoop
      split_ifs with he
      · simpa using he
      · have hne : s.sk.edges ≠ [] := by simpa using he
        apply ih (wardStep_reach h hne)
        obtain ⟨-, -, -, -, heq⟩ := wardStep_spec p s hne
        rw [heq]
        simp only [mergeInto, Skel.step, List.length_append, List.length_singleton]
        omega

/-- `ward` runs until no live edge is left -/
theorem ward_done (p : Nat) (X : List (List Rat)) (E : List (Nat × Nat)) (hE : GoodEdges X.length E) :
    (ward p X E).sk.edges = [] :=
  wardLoop_done hE _ WReach.init (by simp [wardInit, skelInit])

/-! ### replayed sequences (`ward_quick`) -/

theorem replay_acc_mem (p : Nat) (S : List (Nat × Nat)) (s : WState) (acc : List (Bool × Rat × Rat))
    (x : Bool × Rat × Rat) (hx : x ∈ acc) : x ∈ (replay p S s acc).2 := by
  induction S generalizing s acc with
  | nil => simpa [replay] using hx
  | cons ij r ih =>
      obtain ⟨i, j⟩ := ij
      simp only [replay]
      exact ih _ _ (List.mem_cons_of_mem _ hx)

/-- a replay all of whose merges were reported admissible stays within the reachable states -/
theorem replay_reach {p : Nat} {X : List (List Rat)} {E : List (Nat × Nat)} (S : List (Nat × Nat))
    {s : WState} (acc : List (Bool × Rat × Rat)) (h : WReach p X E s)
    (hflags : ∀ x ∈ (replay p S s acc).2, x.1 = true) : WReach p X E (replay p S s acc).1 := by
  induction S generalizing s acc with
  | nil => simpa [replay] using h
  | cons ij r ih =>
      obtain ⟨i, j⟩ := ij
      simp only [replay] at hflags ⊢
      apply ih _ _ hflags
      apply WReach.step none h
      exact hflags _ (replay_acc_mem p r _ _ _ List.mem_cons_self)

/-! ### heights: monotone along the tree, items at zero -/

theorem toList_getD (a : Array Rat) (v : Nat) : a.toList.getD v 0 = a.getD v 0 := by
  simp [Array.getD, List.getD_eq_getElem?_getD]
  by_cases h : v < a.size <;> simp [h]

structure HInv (n : Nat) (s : WState) : Prop where
  hsize : s.hs.size = s.sk.size
  leaf : ∀ v, v < n → heightAt s v = 0
  nonneg : ∀ v, 0 ≤ heightAt s v
  mono : ∀ v, v < s.sk.size → heightAt s v ≤ heightAt s (parentOf n s.sk.ms v)

theorem hinv_init (X : List (List Rat)) (E : List (Nat × Nat)) : HInv X.length (wardInit X E) where
  hsize := by simp [wardInit, skelInit]
  leaf := by
    intro v hv
    simp [heightAt, wardInit, Array.getD, hv]
  nonneg := by
    intro v
    by_cases hv : v < X.length <;> simp [heightAt, wardInit, Array.getD, hv]
  mono := by
    intro v _
    simp [wardInit, skelInit, parentOf]

theorem hinv_merge {n : Nat} {E : List (Nat × Nat)} {s : WState} (hE : GoodEdges n E)
    (hR : Reach n E s.sk) (h : HInv n s) {i j : Nat} (hadm : s.sk.adm i j = true) (c : Rat)
    (g : Option Rat) : HInv n (mergeInto s i j c g) := by
  have hI := reach_inv hE hR
  obtain ⟨hij, hi, hj, hik, hjk⟩ := hI.step_facts hE hadm
  have hsz : s.sk.size = n + s.sk.ms.length := hI.size_eq
  have hold : ∀ v, v < s.sk.size → heightAt (mergeInto s i j c g) v = heightAt s v :=
    fun v hv => heightAt_merge_old s i j c g v (by rw [h.hsize]; exact hv)
  have hnew : heightAt (mergeInto s i j c g) s.sk.size
      = max c (max (heightAt s i) (heightAt s j)) := by
    unfold heightAt mergeInto
    simp only
    rw [← h.hsize]
    exact getD_push_eq _ _ _
  refine ⟨by simp [mergeInto, Skel.step, h.hsize], ?_, ?_, ?_⟩
  · intro v hv
    rw [hold v (by omega)]
    exact h.leaf v hv
  · intro v
    by_cases hv : v < s.sk.size
    · rw [hold v hv]; exact h.nonneg v
    · by_cases hv' : v = s.sk.size
      · rw [hv', hnew]
        exact le_trans (h.nonneg i) (le_trans (le_max_left _ _) (le_max_right _ _))
      · have hge : (mergeInto s i j c g).hs.size ≤ v := by
          simp [mergeInto, h.hsize]; omega
        have : heightAt (mergeInto s i j c g) v = 0 := by
          unfold heightAt
          exact getD_ge_size _ _ _ hge
        rw [this]
  · intro v hv
    have hv' : v < s.sk.size + 1 := by simpa [mergeInto, Skel.step] using hv
    have hp : parentOf n (mergeInto s i j c g).sk.ms v
        = if v ∈ kids s.sk.ms then parentOf n s.sk.ms v else relabel i j (n + s.sk.ms.length) v :=
      parent_step n s.sk i j v
    rw [hp]
    by_cases hk : v ∈ kids s.sk.ms
    · simp only [hk, if_true]
      have hvlt : v < s.sk.size := by have := hI.kid_lt hk; omega
      obtain ⟨hp1, hp2⟩ := hI.parent_kid hk
      rw [hold v hvlt, hold _ (by omega)]
      exact h.mono v hvlt
    · simp only [hk, if_false]
      rw [← hsz]
      unfold relabel
      split_ifs with hvij
      · have hvlt : v < s.sk.size := by rcases hvij with rfl | rfl <;> assumption
        rw [hold v hvlt, hnew]
        rcases hvij with rfl | rfl
        · exact le_trans (le_max_left _ _) (le_max_right _ _)
        · exact le_trans (le_max_right _ _) (le_max_right _ _)
      · exact le_refl _

theorem WReach.hinv {p : Nat} {X : List (List Rat)} {E : List (Nat × Nat)} {s : WState}
    (hE : GoodEdges X.length E) (h : WReach p X E s) : HInv X.length s := by
  induction h with
  | init => exact hinv_init X E
  | step g hs hadm ih => exact hinv_merge hE hs.skel ih hadm _ g

theorem HInv.monoH {n : Nat} {E : List (Nat × Nat)} {s : WState} (hE : GoodEdges n E)
    (hR : Reach n E s.sk) (h : HInv n s) : MonoH (parentsOf n s.sk.ms) s.hs.toList := by
  have hI := reach_inv hE hR
  refine ⟨by rw [parentsOf_length, Array.length_toList, h.hsize, hI.size_eq], ?_⟩
  intro v hv
  rw [toList_getD, toList_getD, hI.parFn_eq]
  rw [parentsOf_length, ← hI.size_eq] at hv
  exact h.mono v hv

theorem HInv.leafLow {n : Nat} {s : WState} (h : HInv n s) :
    LeafLow n (parentsOf n s.sk.ms) s.hs.toList := by
  intro v k hv _ _
  rw [toList_getD, toList_getD]
  have := h.leaf v hv
  unfold heightAt at this
  rw [this]
  exact h.nonneg k


/-! ### greedy steps: heights sorted in creation order, batches of `ward_quick` -/

theorem edges_lt {n : Nat} {E : List (Nat × Nat)} {sk : Skel} (hE : GoodEdges n E)
    (hR : Reach n E sk) : ∀ e ∈ sk.edges, e.1 < sk.size ∧ e.2 < sk.size ∧ e.1 ≠ e.2 := by
  intro e he
  have hI := reach_inv hE hR
  obtain ⟨hne, e0, he0, hee⟩ := hI.sound e he
  obtain ⟨h1, h2, -⟩ := hE e0 he0
  have e1 : e.1 = sk.rep n e0.1 := by rw [hee]
  have e2 : e.2 = sk.rep n e0.2 := by rw [hee]
  exact ⟨by rw [e1]; exact (hI.live _ h1).1, by rw [e2]; exact (hI.live _ h2).1, hne⟩

/-- states of `ward`: every merge is a cheapest live edge -/
inductive WGreedy (p : Nat) (X : List (List Rat)) (E : List (Nat × Nat)) : WState → Prop
  | init : WGreedy p X E (wardInit X E)
  | step {s : WState} {i j : Nat} (g : Option Rat) : WGreedy p X E s → (i, j) ∈ s.sk.edges →
      (∀ e' ∈ s.sk.edges, edgeCost p s (i, j) ≤ edgeCost p s e') →
      WGreedy p X E (mergeInto s i j (edgeCost p s (i, j)) g)

theorem WGreedy.reach {p : Nat} {X : List (List Rat)} {E : List (Nat × Nat)} {s : WState}
    (h : WGreedy p X E s) : WReach p X E s := by
  induction h with
  | init => exact WReach.init
  | step g _ hmem _ ih => exact WReach.step g ih (adm_of_mem hmem)

theorem heightAt_merge_new {p : Nat} {s : WState} {L : Nat → List Vec} (h : WInv p s L) {i j : Nat}
    (hi : i < s.sk.size) (hj : j < s.sk.size) (g : Option Rat) :
    heightAt (mergeInto s i j (edgeCost p s (i, j)) g) s.sk.size = edgeCost p s (i, j) := by
  have hW := winv_merge h hi hj g
  have := hW.height s.sk.size (by simp [mergeInto, Skel.step])
  rw [this]
  simp only [mergeL, if_true]
  exact (h.edgeCost_eq hi hj).symm

/-- every live edge costs at least every height assigned so far -/
theorem WGreedy.lower {p : Nat} {X : List (List Rat)} {E : List (Nat × Nat)} {s : WState}
    (hE : GoodEdges X.length E) (hX : ∀ x ∈ X, x.length = p) (h : WGreedy p X E s) :
    ∀ e ∈ s.sk.edges, ∀ v, v < s.sk.size → heightAt s v ≤ edgeCost p s e := by
  induction h with
  | init =>
      intro e he v hv
      have hW := winv_init p X E hX
      obtain ⟨h1, h2, -⟩ := edges_lt hE (WReach.init (p := p) (X := X) (E := E)).skel e he
      have : e = (e.1, e.2) := rfl
      rw [hW.height v hv, leaf_inertia_zero, this, hW.edgeCost_eq h1 h2]
      exact inertia_nonneg p _ (by simp)
  | @step s i j g hs hmem hmin ih =>
      intro e' he' v hv
      obtain ⟨L, hL⟩ := hs.reach.winv hE hX
      have hed := edges_lt hE hs.reach.skel
      obtain ⟨hi, hj, -⟩ := hed (i, j) hmem
      obtain ⟨e0, he0, -, -, hle⟩ := merge_costs_dominate hL (fun e he => ⟨(hed e he).1, (hed e he).2.1⟩)
        hi hj g e' he'
      have hv' : v < s.sk.size + 1 := by simpa [mergeInto, Skel.step] using hv
      by_cases hvk : v = s.sk.size
      · rw [hvk, heightAt_merge_new hL hi hj g]
        exact le_trans (hmin e0 he0) hle
      · have hvlt : v < s.sk.size := by omega
        rw [heightAt_merge_old s i j _ g v (by rw [hL.hsize]; exact hvlt)]
        exact le_trans (ih e0 he0 v hvlt) hle

/-- the heights of `ward` are non-decreasing in the order of creation -/
theorem WGreedy.sorted {p : Nat} {X : List (List Rat)} {E : List (Nat × Nat)} {s : WState}
    (hE : GoodEdges X.length E) (hX : ∀ x ∈ X, x.length = p) (h : WGreedy p X E s) :
    ∀ v w, v ≤ w → w < s.sk.size → heightAt s v ≤ heightAt s w := by
  induction h with
  | init =>
      intro v w hvw hw
      have hW := winv_init p X E hX
      rw [hW.height v (by omega), hW.height w hw, leaf_inertia_zero, leaf_inertia_zero]
  | @step s i j g hs hmem hmin ih =>
      intro v w hvw hw
      obtain ⟨L, hL⟩ := hs.reach.winv hE hX
      have hed := edges_lt hE hs.reach.skel
      obtain ⟨hi, hj, -⟩ := hed (i, j) hmem
      have hw' : w < s.sk.size + 1 := by simpa [mergeInto, Skel.step] using hw
      by_cases hwk : w = s.sk.size
      · by_cases hvk : v = s.sk.size
        · rw [hvk, hwk]
        · have hvlt : v < s.sk.size := by omega
          rw [hwk, heightAt_merge_new hL hi hj g,
            heightAt_merge_old s i j _ g v (by rw [hL.hsize]; exact hvlt)]
          exact hs.lower hE hX (i, j) hmem v hvlt
      · have hwlt : w < s.sk.size := by omega
        have hvlt : v < s.sk.size := by omega
        rw [heightAt_merge_old s i j _ g v (by rw [hL.hsize]; exact hvlt),
          heightAt_merge_old s i j _ g w (by rw [hL.hsize]; exact hwlt)]
        exact ih v w hvw hwlt

theorem wardLoop_greedy {p : Nat} {X : List (List Rat)} {E : List (Nat × Nat)} (f : Nat) {s : WState}
    (h : WGreedy p X E s) : WGreedy p X E (wardLoop p f s) := by
  induction f generalizing s with
  | zero => exact h
  | succ f ih =>
      unfold wardLoop
      split_ifs with he
      · exact h
      · apply ih
        obtain ⟨-, hmem, hmin, -, heq⟩ := wardStep_spec p s (by simpa using he)
        rw [heq]
        exact WGreedy.step _ h hmem hmin

theorem ward_greedy (p : Nat) (X : List (List Rat)) (E : List (Nat × Nat)) :
    WGreedy p X E (ward p X E) := wardLoop_greedy _ WGreedy.init

/-- **a batch of `ward_quick` is a sequence of greedy steps**: after the cheapest edge `(i, j)` is
    merged, an edge `e1` disjoint from it that was cheapest among the others is still live, costs
    the same, and is now the cheapest live edge. -/
theorem batch_next_is_cheapest {p : Nat} {s : WState} {L : Nat → List Vec} (h : WInv p s L)
    (hedges : ∀ e ∈ s.sk.edges, e.1 < s.sk.size ∧ e.2 < s.sk.size ∧ e.1 ≠ e.2)
    {i j : Nat} (hi : i < s.sk.size) (hj : j < s.sk.size) (g : Option Rat)
    (e1 : Nat × Nat) (he1 : e1 ∈ s.sk.edges)
    (hdis : e1.1 ≠ i ∧ e1.1 ≠ j ∧ e1.2 ≠ i ∧ e1.2 ≠ j)
    (hsecond : ∀ e ∈ s.sk.edges, ¬ ((e.1 = i ∨ e.1 = j) ∧ (e.2 = i ∨ e.2 = j)) →
      edgeCost p s e1 ≤ edgeCost p s e) :
    let s' := mergeInto s i j (edgeCost p s (i, j)) g
    e1 ∈ s'.sk.edges ∧ edgeCost p s' e1 = edgeCost p s e1 ∧
      ∀ e' ∈ s'.sk.edges, edgeCost p s' e1 ≤ edgeCost p s' e' := by
  intro s'
  obtain ⟨h11, h12, h1ne⟩ := hedges e1 he1
  have hcost : edgeCost p s' e1 = edgeCost p s e1 :=
    edgeCost_merge_old p s i j _ g e1 (by rw [h.fsize]; exact h11) (by rw [h.fsize]; exact h12)
  refine ⟨?_, hcost, ?_⟩
  · show e1 ∈ stepEdges s.sk.edges i j s.sk.size
    unfold stepEdges
    apply dedupK_keeps _ _ _ _ _ (by omega) (by omega)
    rw [List.mem_filter, List.mem_map]
    refine ⟨⟨e1, he1, ?_⟩, by simpa using h1ne⟩
    rw [relabel_of_not hdis.1 hdis.2.1, relabel_of_not hdis.2.2.1 hdis.2.2.2]
  · intro e' he'
    obtain ⟨e0, he0, hee, hne, hle⟩ := merge_costs_dominate h
      (fun e he => ⟨(hedges e he).1, (hedges e he).2.1⟩) hi hj g e' he'
    rw [hcost]
    refine le_trans (hsecond e0 he0 ?_) hle
    rintro ⟨ha, hb⟩
    apply hne
    rw [hee]
    show relabel i j s.sk.size e0.1 = relabel i j s.sk.size e0.2
    rw [relabel_of_mem ha, relabel_of_mem hb]


/-! ### the items below a node, and the data they carry -/

/-- data vector of item `a` -/
def xv (X : List (List Rat)) (a : Nat) : Vec := vecOf (X.getD a [])

/-- a root has no proper ancestor -/
theorem below_root_eq {par : List Nat} {i j : Nat} (hroot : parFn par i = i) (h : Below par i j) :
    i = j := by
  unfold Below at h
  induction h with
  | refl => rfl
  | tail _ hbc ih =>
      obtain ⟨hp, hne⟩ := hbc
      subst ih
      exact absurd (hroot.symm.trans hp) hne

/-- the ancestors of a node form a chain -/
theorem below_total {par : List Nat} {a i j : Nat} (hi : Below par a i) (hj : Below par a j) :
    Below par i j ∨ Below par j i := by
  unfold Below at *
  apply Relation.ReflTransGen.total_of_right_unique _ hi hj
  intro x y z hxy hxz
  exact hxy.1.symm.trans hxz.1

theorem Dendro.below_lt {n : Nat} {par : List Nat} (hD : Dendro n par) {a r : Nat}
    (h : Below par a r) (ha : a < par.length) : r < par.length := by
  unfold Below at h
  induction h with
  | refl => exact ha
  | @tail b c _ hbc ih =>
      obtain ⟨hp, hne⟩ := hbc
      rcases hD.up b ih with h1 | h1
      · exact absurd (h1.symm.trans hp) hne
      · rw [← hp]; exact h1.2

/-- `I v` lists the items below node `v`, once each -/
structure WItems (n : Nat) (s : WState) (I : Nat → List Nat) : Prop where
  mem : ∀ v, v < s.sk.size → ∀ a, a ∈ I v ↔ a < n ∧ Below (parentsOf n s.sk.ms) a v
  nodup : ∀ v, v < s.sk.size → (I v).Nodup

theorem WInv.congr {p : Nat} {s : WState} {L L' : Nat → List Vec} (h : WInv p s L) (e : L = L') :
    WInv p s L' := e ▸ h

/-- along `ward` / `ward_quick`, every node carries exactly the data of the items below it in the
    dendrogram -/
theorem WReach.items {p : Nat} {X : List (List Rat)} {E : List (Nat × Nat)} {s : WState}
    (hE : GoodEdges X.length E) (hX : ∀ x ∈ X, x.length = p) (h : WReach p X E s) :
    ∃ I, WItems X.length s I ∧ WInv p s (fun v => (I v).map (xv X)) := by
  induction h with
  | init =>
      refine ⟨fun v => [v], ⟨?_, fun v _ => by simp⟩, winv_init p X E hX⟩
      intro v hv a
      have hv' : v < X.length := by simpa [wardInit, skelInit] using hv
      simp only [List.mem_singleton]
      constructor
      · rintro rfl; exact ⟨hv', .refl⟩
      · rintro ⟨_, hb⟩; exact below_init hb
  | @step s i j g hs hadm ih =>
      obtain ⟨I, hI, hL⟩ := ih
      have hInv := reach_inv hE hs.skel
      obtain ⟨hij, hi, hj, hik, hjk⟩ := hInv.step_facts hE hadm
      have hsz : (mergeInto s i j (edgeCost p s (i, j)) g).sk.size = s.sk.size + 1 := rfl
      have hms : (mergeInto s i j (edgeCost p s (i, j)) g).sk.ms = (s.sk.step i j).ms := rfl
      refine ⟨fun v => if v = s.sk.size then I i ++ I j else I v, ⟨?_, ?_⟩, ?_⟩
      · intro v hv a
        rw [hsz] at hv
        rw [hms]
        by_cases hvk : v = s.sk.size
        · subst hvk
          simp only [if_true, List.mem_append, hI.mem i hi, hI.mem j hj]
          constructor
          · rintro (⟨ha, hb⟩ | ⟨ha, hb⟩)
            · exact ⟨ha, below_step_join hE hInv hadm (Or.inl hb)⟩
            · exact ⟨ha, below_step_join hE hInv hadm (Or.inr hb)⟩
          · rintro ⟨ha, hb⟩
            rcases below_step_new hE hInv hadm hb with h0 | h0 | h0
            · have := hInv.size_eq; omega
            · exact Or.inl ⟨ha, h0⟩
            · exact Or.inr ⟨ha, h0⟩
        · simp only [hvk, if_false]
          rw [hI.mem v (by omega), below_step_iff hE hInv hadm hvk]
      · intro v hv
        rw [hsz] at hv
        by_cases hvk : v = s.sk.size
        · simp only [hvk, if_true]
          rw [List.nodup_append]
          refine ⟨hI.nodup i hi, hI.nodup j hj, ?_⟩
          intro a hai b hbj hab
          subst hab
          have h1 := ((hI.mem i hi a).mp hai).2
          have h2 := ((hI.mem j hj a).mp hbj).2
          have hri : parFn (parentsOf X.length s.sk.ms) i = i := by
            rw [hInv.parFn_eq]; exact parentOf_not_kid hik
          have hrj : parFn (parentsOf X.length s.sk.ms) j = j := by
            rw [hInv.parFn_eq]; exact parentOf_not_kid hjk
          rcases below_total h1 h2 with h3 | h3
          · exact hij (below_root_eq hri h3)
          · exact hij (below_root_eq hrj h3).symm
        · simp only [hvk, if_false]
          exact hI.nodup v (by omega)
      · apply (winv_merge hL hi hj g).congr
        funext v
        unfold mergeL
        by_cases hvk : v = s.sk.size <;> simp [hvk]

end NipyVerif.C14
