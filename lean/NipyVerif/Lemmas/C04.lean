/- Helper lemmas for C04 (finite sums, affine composition, lattice points, floors). -/
import NipyVerif.Model.C04
import Mathlib.Algebra.BigOperators.Fin
import Mathlib.Algebra.BigOperators.Ring.Finset
import Mathlib.Algebra.Order.Floor.Ring
import Mathlib.Algebra.Order.Field.Rat
import Mathlib.Data.Rat.Floor
import Mathlib.Tactic.Ring
import Mathlib.Tactic.Linarith
import Mathlib.Tactic.FinCases

namespace NipyVerif.C04
open Finset

theorem sumFin_eq {n : Nat} (f : Fin n → Rat) : sumFin f = ∑ i, f i := by
  simp [sumFin, List.sum_ofFn]

theorem sumFin3 (f : Fin 3 → Rat) : sumFin f = f 0 + f 1 + f 2 := by
  rw [sumFin_eq, Fin.sum_univ_three]

namespace Aff
variable {m n k : Nat}

theorem apply_comp (a : Aff m n) (c : Aff n k) (x : Vec k) :
    (a.comp c).apply x = a.apply (c.apply x) := by
  funext i
  simp only [Aff.apply, Aff.comp, sumFin_eq]
  have h1 : ∑ j, (∑ l, a.A i l * c.A l j) * x j = ∑ l, a.A i l * ∑ j, c.A l j * x j := by
    simp only [Finset.sum_mul, Finset.mul_sum]
    rw [Finset.sum_comm]
    refine Finset.sum_congr rfl (fun l _ => Finset.sum_congr rfl (fun j _ => ?_))
    ring
  have h2 : ∑ l, a.A i l * (∑ j, c.A l j * x j + c.b l)
      = ∑ l, a.A i l * ∑ j, c.A l j * x j + ∑ l, a.A i l * c.b l := by
    rw [← Finset.sum_add_distrib]
    refine Finset.sum_congr rfl (fun l _ => ?_)
    ring
  rw [h1, h2]; ring

theorem apply_ident (x : Vec n) : (ident n).apply x = x := by
  funext i
  simp [Aff.apply, ident, sumFin_eq]

theorem beq_iff (a c : Aff m n) : a.beq c = true ↔ (∀ i j, a.A i j = c.A i j) ∧ ∀ i, a.b i = c.b i := by
  simp only [beq, List.all_eq_true, List.mem_finRange, true_imp_iff, Bool.and_eq_true,
    decide_eq_true_eq]
  constructor
  · intro h; exact ⟨fun i j => (h i).1 j, fun i => (h i).2⟩
  · intro h i; exact ⟨fun j => h.1 i j, h.2 i⟩

theorem eq_of_beq (a c : Aff m n) (h : a.beq c = true) : a = c := by
  obtain ⟨hA, hb⟩ := (beq_iff a c).1 h
  cases a; cases c
  simp only [Aff.mk.injEq]
  exact ⟨funext fun i => funext fun j => hA i j, funext hb⟩

/-- what the driver verifies about every supplied inverse -/
theorem isInverse_spec (c a : Aff n n) (h : c.isInverse a = true) :
    (∀ x, c.apply (a.apply x) = x) ∧ ∀ y, a.apply (c.apply y) = y := by
  simp only [isInverse, Bool.and_eq_true] at h
  have h1 := eq_of_beq _ _ h.1
  have h2 := eq_of_beq _ _ h.2
  constructor
  · intro x; rw [← apply_comp, h1, apply_ident]
  · intro y; rw [← apply_comp, h2, apply_ident]

end Aff

/-! ### lattice points -/

theorem insideB_iff {n : Nat} (g : Grid n) (p : Fin n → Int) : g.insideB p = true ↔ g.inside p := by
  simp [Grid.insideB, Grid.inside, List.all_eq_true]

theorem inFovB_iff {n : Nat} (g : Grid n) (x : Vec n) : g.inFovB x = true ↔ g.inFov x := by
  simp [Grid.inFovB, Grid.inFov, List.all_eq_true]

theorem latticePt_some {n : Nat} (x : Vec n) (p : Fin n → Int) (h : latticePt? x = some p) :
    x = castPt p := by
  unfold latticePt? at h
  split at h
  · rename_i hall
    simp only [Option.some.injEq] at h
    subst h
    funext i
    have hd : (x i).den = 1 := by
      have := (List.all_eq_true.1 hall) i (List.mem_finRange i)
      simpa using this
    exact ((Rat.den_eq_one_iff (x i)).1 hd).symm
  · cases h

theorem latticePt_castPt {n : Nat} (p : Fin n → Int) : latticePt? (castPt p) = some p := by
  unfold latticePt?
  have : (List.finRange n).all (fun i => decide ((castPt p i).den = 1)) = true := by
    simp [castPt, List.all_eq_true]
  rw [if_pos this]
  simp [castPt]

/-- integer matrices send index points to index points -/
theorem apply_int {n k : Nat} (M : Aff n k) (hA : ∀ i j, ∃ z : Int, M.A i j = z)
    (hb : ∀ i, ∃ z : Int, M.b i = z) (v : Fin k → Int) :
    ∃ p : Fin n → Int, M.apply (castPt v) = castPt p := by
  choose zA hzA using hA
  choose zb hzb using hb
  refine ⟨fun i => ∑ j, zA i j * v j + zb i, ?_⟩
  funext i
  simp only [Aff.apply, sumFin_eq, castPt, hzA, hzb]
  push_cast
  rfl

/-! ### floors -/

theorem floor_eq (q : Rat) : q.floor = ⌊q⌋ := rfl

theorem roundHalfUp_int (z : Int) : roundHalfUp (z : Rat) = z := by
  unfold roundHalfUp
  rw [floor_eq, Int.floor_eq_iff]
  constructor <;> linarith

theorem floor_int (z : Int) : ((z : Rat)).floor = z := by
  rw [floor_eq]; exact Int.floor_intCast z

/-! ### clamp -/

theorem clampInt_id (lo hi x : Int) (h1 : lo ≤ x) (h2 : x ≤ hi) : clampInt lo hi x = x := by
  unfold clampInt
  rw [if_neg (by omega), if_neg (by omega)]

/-! ### axis swaps on `Fin 3` -/

theorem swapFin_invol (a c i : Fin 3) : swapFin a c (swapFin a c i) = i := by
  fin_cases a <;> fin_cases c <;> fin_cases i <;> rfl

theorem sum_swapFin (a c : Fin 3) (f : Fin 3 → Rat) :
    sumFin (fun j => f (swapFin a c j)) = sumFin f := by
  rw [sumFin3, sumFin3]
  fin_cases a <;> fin_cases c <;> simp [swapFin] <;> ring

end NipyVerif.C04
