/- C11 (wave 3) — the cut argument behind Borůvka's rounds (`mst`), ties included, in threshold form:
   a set of edges that "can still be completed to a minimum spanning forest" (`Indep`), the step that adds a
   minimum-weight edge leaving a component (`indep_snoc`), and the passage from `Indep` to the minimum-weight
   certificate of `mst_certificate_sound'` for a spanning forest (`cert_of_indep`). -/
import NipyVerif.Lemmas.C11Kru

namespace NipyVerif.C11

/-- the edges heavier than `t` -/
def gtW (t : Rat) (F : List Edge) : List Edge := F.filter (fun x => decide (t < x.2.2))

theorem mem_gtW {t : Rat} {F : List Edge} {e : Edge} : e ∈ gtW t F ↔ e ∈ F ∧ t < e.2.2 := by
  simp [gtW]

/-- `F`, in list order, is a forest *relative to* `B`: every edge joins two vertices that `B` and the
    earlier edges of `F` do not connect -/
inductive RelForest (V : Nat) (B : List Edge) : List Edge → Prop
  | nil : RelForest V B []
  | snoc {F : List Edge} {e : Edge} : RelForest V B F → ¬ Conn ⟨V, B ++ F⟩ e.1 e.2.1 → RelForest V B (F ++ [e])

/-- threshold form of "`A` is contained in a minimum spanning forest of `E`": for every `t`, the edges of
    `A` heavier than `t` form a forest relative to the edges of `E` of weight at most `t` -/
def Indep (V : Nat) (E A : List Edge) : Prop := ∀ t, RelForest V (leW t E) (gtW t A)

theorem indep_nil (V : Nat) (E : List Edge) : Indep V E [] := fun _ => RelForest.nil

/-- **the cut step** (ties allowed): if `e` joins two components of `A` and no edge of `E` leaving the
    component of `e.1` is lighter than `e`, then `A ++ [e]` can still be completed -/
theorem indep_snoc (V : Nat) (E A : List Edge) (e : Edge) (hI : Indep V E A)
    (hleave : ¬ Conn ⟨V, A⟩ e.1 e.2.1)
    (hmin : ∀ x y w', Conn ⟨V, A⟩ e.1 x → ¬ Conn ⟨V, A⟩ e.1 y → ((x, y, w') ∈ E ∨ (y, x, w') ∈ E) → e.2.2 ≤ w') :
    Indep V E (A ++ [e]) := by
  intro t
  unfold gtW
  rw [List.filter_append]
  by_cases h : t < e.2.2
  · have : [e].filter (fun x => decide (t < x.2.2)) = [e] := by simp [h]
    rw [this]
    apply RelForest.snoc (hI t)
    intro hc
    apply hleave
    -- everything reachable from `e.1` through light edges of `E` and heavy edges of `A` stays in its component
    have key : ∀ z, Conn ⟨V, leW t E ++ gtW t A⟩ e.1 z → Conn ⟨V, A⟩ e.1 z := by
      intro z hz
      induction hz with
      | refl => exact Conn.refl _
      | @step v x w _ he ih =>
          by_contra hx
          have hw : e.2.2 ≤ w := by
            rcases he with he | he
            · rcases List.mem_append.mp he with h1 | h1
              · exact hmin v x w ih hx (Or.inl (mem_leW.mp h1).1)
              · exact absurd (Conn.step ih (Or.inl (mem_gtW.mp h1).1)) hx
            · rcases List.mem_append.mp he with h1 | h1
              · exact hmin v x w ih hx (Or.inr (mem_leW.mp h1).1)
              · exact absurd (Conn.step ih (Or.inr (mem_gtW.mp h1).1)) hx
          have hle : w ≤ t := by
            rcases he with he | he
            · rcases List.mem_append.mp he with h1 | h1
              · exact (mem_leW.mp h1).2
              · exact absurd (Conn.step ih (Or.inl (mem_gtW.mp h1).1)) hx
            · rcases List.mem_append.mp he with h1 | h1
              · exact (mem_leW.mp h1).2
              · exact absurd (Conn.step ih (Or.inr (mem_gtW.mp h1).1)) hx
          exact absurd (lt_of_lt_of_le h hw) (not_lt.mpr hle)
    exact key _ hc
  · have : [e].filter (fun x => decide (t < x.2.2)) = [] := by simp [h]
    rw [this, List.append_nil]
    exact hI t

/-! ### counting -/

theorem relforest_count (V : Nat) (B F : List Edge) (hB : WFE V B) (hF : WFE V F) (hf : RelForest V B F) :
    (reps V (comp V (B ++ F))).card + F.length = (reps V (comp V B)).card := by
  induction hf with
  | nil => simp
  | @snoc F e _ hnc ih =>
      obtain ⟨hF0, ha, hb⟩ := wfe_append hF
      have hBF : WFE V (B ++ F) := by
        intro x hx
        rcases List.mem_append.mp hx with h | h
        · exact hB x h
        · exact hF0 x h
      obtain ⟨hr, hk⟩ := comp_inv V (B ++ F) hBF
      have hne : (comp V (B ++ F)).getD e.1 0 ≠ (comp V (B ++ F)).getD e.2.1 0 :=
        fun h => hnc ((hk e.1 e.2.1 ha hb).mp h)
      have h1 := reps_union_ne V _ hr e ha hb hne
      have h2 := ih hF0
      rw [← List.append_assoc, comp_snoc, List.length_append, List.length_singleton]
      omega

theorem length_le_gt (t : Rat) (F : List Edge) : (leW t F).length + (gtW t F).length = F.length := by
  induction F with
  | nil => rfl
  | cons a F ih =>
      unfold leW gtW at ih ⊢
      simp only [List.filter_cons]
      by_cases h : a.2.2 ≤ t
      · have h' : ¬ t < a.2.2 := not_lt.mpr h
        simp only [h, h', decide_true, decide_false, if_true, Bool.false_eq_true, if_false, List.length_cons]
        omega
      · have h' : t < a.2.2 := not_le.mp h
        simp only [h, h', decide_true, decide_false, if_true, Bool.false_eq_true, if_false, List.length_cons]
        omega

/-- **from `Indep` to the certificate**: a forest `T` of edges of `E` that connects whatever `E` connects
    and can be completed (`Indep`) joins the ends of every edge `e` of `E` by edges no heavier than `e` -/
theorem cert_of_indep (V : Nat) (E T : List Edge) (hE : WFE V E) (hT : Forest V T)
    (hTE : ∀ e ∈ T, e ∈ E ∨ revE e ∈ E) (hI : Indep V E T)
    (hspan : ∀ e ∈ E, Conn ⟨V, T⟩ e.1 e.2.1) :
    ∀ e ∈ E, Conn ⟨V, leW e.2.2 T⟩ e.1 e.2.1 := by
  intro e he
  set t := e.2.2 with ht
  have hTw : WFE V T := by
    intro x hx
    rcases hTE x hx with h | h
    · exact hE x h
    · have := hE _ h; exact ⟨this.2, this.1⟩
  have hBw : WFE V (leW t E) := fun x hx => hE x (mem_leW.mp hx).1
  have hHw : WFE V (gtW t T) := fun x hx => hTw x (mem_gtW.mp hx).1
  have hLw : WFE V (leW t T) := fun x hx => hTw x (mem_leW.mp hx).1
  have hBHw : WFE V (leW t E ++ gtW t T) := by
    intro x hx
    rcases List.mem_append.mp hx with h | h
    · exact hBw x h
    · exact hHw x h
  have c1 := relforest_count V (leW t E) (gtW t T) hBw hHw (hI t)
  have c2 := forest_count V (leW t T) hLw (forest_filter V T _ hT)
  have c3 := forest_count V T hTw hT
  have c4 := length_le_gt t T
  obtain ⟨hrBH, hkBH⟩ := comp_inv V _ hBHw
  obtain ⟨hrT, hkT⟩ := comp_inv V T hTw
  obtain ⟨hrB, hkB⟩ := comp_inv V _ hBw
  obtain ⟨hrL, hkL⟩ := comp_inv V _ hLw
  -- `leW t E ++ gtW t T` connects only what `T` connects
  have hBH_T : ∀ u v, Conn ⟨V, leW t E ++ gtW t T⟩ u v → Conn ⟨V, T⟩ u v := by
    intro u v hc
    induction hc with
    | refl => exact Conn.refl _
    | step _ hx ih =>
        rcases hx with hx | hx
        · rcases List.mem_append.mp hx with h | h
          · exact Conn.trans ih (hspan _ (mem_leW.mp h).1)
          · exact Conn.step ih (Or.inl (mem_gtW.mp h).1)
        · rcases List.mem_append.mp hx with h | h
          · exact Conn.trans ih (Conn.symm (hspan _ (mem_leW.mp h).1))
          · exact Conn.step ih (Or.inr (mem_gtW.mp h).1)
  have r1 : (reps V (comp V T)).card ≤ (reps V (comp V (leW t E ++ gtW t T))).card :=
    refine_card V _ _ hrBH hrT (fun u v hu hv h => (hkT u v hu hv).mpr (hBH_T u v ((hkBH u v hu hv).mp h)))
  -- `leW t T` connects only what `leW t E` connects
  have hL_B : ∀ u v, Conn ⟨V, leW t T⟩ u v → Conn ⟨V, leW t E⟩ u v := by
    intro u v hc
    induction hc with
    | refl => exact Conn.refl _
    | @step a b w _ hx ih =>
        have edge : ∀ x : Edge, x ∈ leW t T → Conn ⟨V, leW t E⟩ x.1 x.2.1 := by
          intro x hx
          obtain ⟨hxT, hxw⟩ := mem_leW.mp hx
          rcases hTE x hxT with h | h
          · exact Conn.step (Conn.refl _) (Or.inl (show (x.1, x.2.1, x.2.2) ∈ leW t E from mem_leW.mpr ⟨h, hxw⟩))
          · exact Conn.step (Conn.refl _) (Or.inr (show (x.2.1, x.1, x.2.2) ∈ leW t E from mem_leW.mpr ⟨h, hxw⟩))
        rcases hx with hx | hx
        · exact Conn.trans ih (edge _ hx)
        · exact Conn.trans ih (Conn.symm (edge _ hx))
  have href : ∀ u v, u < V → v < V → (comp V (leW t T)).getD u 0 = (comp V (leW t T)).getD v 0 →
      (comp V (leW t E)).getD u 0 = (comp V (leW t E)).getD v 0 :=
    fun u v hu hv h => (hkB u v hu hv).mpr (hL_B u v ((hkL u v hu hv).mp h))
  have r2 : (reps V (comp V (leW t E))).card ≤ (reps V (comp V (leW t T))).card :=
    refine_card V _ _ hrL hrB href
  have hcard : (reps V (comp V (leW t T))).card ≤ (reps V (comp V (leW t E))).card := by omega
  obtain ⟨ha, hb⟩ := hE e he
  have heB : Conn ⟨V, leW t E⟩ e.1 e.2.1 :=
    Conn.step (Conn.refl _) (Or.inl (show (e.1, e.2.1, e.2.2) ∈ leW t E from mem_leW.mpr ⟨he, le_refl _⟩))
  have := same_partition V _ _ hrL hrB href hcard e.1 e.2.1 ha hb ((hkB _ _ ha hb).mpr heB)
  exact (hkL _ _ ha hb).mp this

/-- a list of edges built by cut steps: each edge, when it is appended, joins two components of the
    earlier ones, is (in one direction) an edge of `E`, and no edge of `E` leaving the component of its
    first end is lighter -/
inductive SafeBuilt (V : Nat) (E : List Edge) : List Edge → Prop
  | nil : SafeBuilt V E []
  | snoc {A : List Edge} {e : Edge} : SafeBuilt V E A → (e ∈ E ∨ revE e ∈ E) → ¬ Conn ⟨V, A⟩ e.1 e.2.1 →
      (∀ x y w', Conn ⟨V, A⟩ e.1 x → ¬ Conn ⟨V, A⟩ e.1 y → ((x, y, w') ∈ E ∨ (y, x, w') ∈ E) → e.2.2 ≤ w') →
      SafeBuilt V E (A ++ [e])

theorem safeBuilt_facts (V : Nat) (E T : List Edge) (h : SafeBuilt V E T) :
    Forest V T ∧ (∀ e ∈ T, e ∈ E ∨ revE e ∈ E) ∧ Indep V E T := by
  induction h with
  | nil => exact ⟨Forest.nil, by simp, indep_nil V E⟩
  | @snoc A e _ hE hl hm ih =>
      obtain ⟨hf, hsub, hI⟩ := ih
      refine ⟨Forest.snoc hf hl, ?_, indep_snoc V E A e hI hl hm⟩
      intro x hx
      rcases List.mem_append.mp hx with h | h
      · exact hsub x h
      · simp only [List.mem_singleton] at h; subst h; exact hE

end NipyVerif.C11
