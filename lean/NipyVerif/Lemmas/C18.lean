/- Helper lemmas for C18 (finite sums, circular vs linear indexing, bounding boxes). -/
import NipyVerif.Model.C18
import Mathlib.Algebra.BigOperators.Intervals
import Mathlib.Algebra.BigOperators.Ring.Finset
import Mathlib.Algebra.Order.Field.Rat
import Mathlib.Tactic.Ring
import Mathlib.Tactic.Linarith
import Mathlib.Tactic.FieldSimp

namespace NipyVerif.C18
open Finset

theorem sumTo_eq_sum (n : Nat) (f : Nat → Rat) : sumTo n f = ∑ i ∈ range n, f i := by
  induction n with
  | zero => simp [sumTo]
  | succ n ih => rw [sumTo, ih, sum_range_succ]

theorem sum3_eq (s : Sh) (f : Img) :
    sum3 s f = ∑ a ∈ range s.n0, ∑ b ∈ range s.n1, ∑ c ∈ range s.n2, f a b c := by
  simp only [sum3, sumTo_eq_sum]

theorem sum3_congr (s : Sh) (f g : Img)
    (h : ∀ a b c, a < s.n0 → b < s.n1 → c < s.n2 → f a b c = g a b c) : sum3 s f = sum3 s g := by
  simp only [sum3_eq]
  refine sum_congr rfl fun a ha => sum_congr rfl fun b hb => sum_congr rfl fun c hc => ?_
  exact h a b c (mem_range.mp ha) (mem_range.mp hb) (mem_range.mp hc)

theorem sum3_add (s : Sh) (f g : Img) :
    sum3 s (fun a b c => f a b c + g a b c) = sum3 s f + sum3 s g := by
  simp only [sum3_eq, sum_add_distrib]

theorem sum3_smul (s : Sh) (f : Img) (r : Rat) :
    sum3 s (fun a b c => r * f a b c) = r * sum3 s f := by
  simp only [sum3_eq, mul_sum]

theorem sum3_zero (s : Sh) : sum3 s (fun _ _ _ => (0 : Rat)) = 0 := by
  simp [sum3_eq]

theorem sum3_eq_prod (s : Sh) (f : Img) :
    sum3 s f = ∑ p ∈ range s.n0 ×ˢ (range s.n1 ×ˢ range s.n2), f p.1 p.2.1 p.2.2 := by
  simp only [sum3_eq, Finset.sum_product]

theorem sum3_comm (s s' : Sh) (f : Nat → Nat → Nat → Nat → Nat → Nat → Rat) :
    sum3 s (fun a b c => sum3 s' (fun u v w => f a b c u v w)) =
      sum3 s' (fun u v w => sum3 s (fun a b c => f a b c u v w)) := by
  simp only [sum3_eq_prod]
  exact Finset.sum_comm

/-! ### zero padding -/

theorem sum_range_ite_lt (n P : Nat) (h : n ≤ P) (g : Nat → Rat) :
    ∑ a ∈ range P, (if a < n then g a else 0) = ∑ a ∈ range n, g a := by
  rw [← sum_filter]
  congr 1
  ext a; simp only [mem_filter, mem_range]; omega

theorem sum3_pad (n P : Sh) (h0 : n.n0 ≤ P.n0) (h1 : n.n1 ≤ P.n1) (h2 : n.n2 ≤ P.n2) (g : Img) :
    sum3 P (fun a b c => if a < n.n0 ∧ b < n.n1 ∧ c < n.n2 then g a b c else 0) = sum3 n g := by
  simp only [sum3_eq]
  rw [← sum_range_ite_lt n.n0 P.n0 h0]
  refine sum_congr rfl fun a _ => ?_
  by_cases ha : a < n.n0
  · simp only [ha, true_and, if_true]
    rw [← sum_range_ite_lt n.n1 P.n1 h1]
    refine sum_congr rfl fun b _ => ?_
    by_cases hb : b < n.n1
    · simp only [hb, true_and, if_true]
      rw [← sum_range_ite_lt n.n2 P.n2 h2]
    · simp [hb]
  · simp [ha]

/-! ### circular index = linear index on a long enough circle -/

theorem wrap_spec (P t a n k : Nat) (ha : a < n) (ht : t < P) (hP : n + k ≤ P) :
    (wrap P t a < k ↔ 0 ≤ (t : Int) - a ∧ (t : Int) - a < k) ∧
      (0 ≤ (t : Int) - a → wrap P t a = ((t : Int) - a).toNat) := by
  unfold wrap
  by_cases h : a ≤ t
  · have e : t + P - a = (t - a) + P := by omega
    have m : (t + P - a) % P = t - a := by
      rw [e, Nat.add_mod_right, Nat.mod_eq_of_lt (by omega)]
    rw [m]
    constructor
    · omega
    · intro _; omega
  · have m : (t + P - a) % P = t + P - a := Nat.mod_eq_of_lt (by omega)
    rw [m]
    constructor
    · omega
    · intro h0; omega

theorem pad_wrap_eq (k : Sh) (K : Img) (w0 w1 w2 : Nat) (z0 z1 z2 : Int)
    (h0 : (w0 < k.n0 ↔ 0 ≤ z0 ∧ z0 < k.n0) ∧ (0 ≤ z0 → w0 = z0.toNat))
    (h1 : (w1 < k.n1 ↔ 0 ≤ z1 ∧ z1 < k.n1) ∧ (0 ≤ z1 → w1 = z1.toNat))
    (h2 : (w2 < k.n2 ↔ 0 ≤ z2 ∧ z2 < k.n2) ∧ (0 ≤ z2 → w2 = z2.toNat)) :
    pad k K w0 w1 w2 = kerZ k K z0 z1 z2 := by
  unfold pad kerZ
  by_cases c : (0 ≤ z0 ∧ z0 < k.n0 ∧ 0 ≤ z1 ∧ z1 < k.n1 ∧ 0 ≤ z2 ∧ z2 < k.n2)
  · obtain ⟨a0, a1, b0, b1, c0, c1⟩ := c
    rw [if_pos ⟨h0.1.2 ⟨a0, a1⟩, h1.1.2 ⟨b0, b1⟩, h2.1.2 ⟨c0, c1⟩⟩,
      if_pos ⟨a0, a1, b0, b1, c0, c1⟩, h0.2 a0, h1.2 b0, h2.2 c0]
  · rw [if_neg c, if_neg]
    intro h
    apply c
    obtain ⟨a, b, d⟩ := h
    have := h0.1.1 a; have := h1.1.1 b; have := h2.1.1 d
    tauto

/-- 3D: the circular convolution of the zero-padded arrays is the plain convolution sum -/
theorem circ_eq_lin (n k P : Sh) (x K : Img) (t0 t1 t2 : Nat)
    (hP0 : n.n0 + k.n0 ≤ P.n0) (hP1 : n.n1 + k.n1 ≤ P.n1) (hP2 : n.n2 + k.n2 ≤ P.n2)
    (ht0 : t0 < P.n0) (ht1 : t1 < P.n1) (ht2 : t2 < P.n2) :
    circConv P (pad n x) (pad k K) t0 t1 t2 =
      sum3 n fun j0 j1 j2 => x j0 j1 j2 *
        kerZ k K ((t0 : Int) - j0) ((t1 : Int) - j1) ((t2 : Int) - j2) := by
  unfold circConv
  rw [← sum3_pad n P (by omega) (by omega) (by omega)]
  apply sum3_congr
  intro a b c _ _ _
  by_cases h : a < n.n0 ∧ b < n.n1 ∧ c < n.n2
  · rw [if_pos h]
    obtain ⟨ha, hb, hc⟩ := h
    have e : pad n x a b c = x a b c := by unfold pad; rw [if_pos ⟨ha, hb, hc⟩]
    rw [e, pad_wrap_eq k K _ _ _ _ _ _ (wrap_spec P.n0 t0 a n.n0 k.n0 ha ht0 hP0)
      (wrap_spec P.n1 t1 b n.n1 k.n1 hb ht1 hP1) (wrap_spec P.n2 t2 c n.n2 k.n2 hc ht2 hP2)]
  · rw [if_neg h]
    have e : pad n x a b c = 0 := by unfold pad; rw [if_neg h]
    rw [e, zero_mul]

theorem padLen_ge (n k : Nat) : n + k + 2 ≤ padLen n k := by unfold padLen; omega

/-! ### unit impulse -/

theorem sum3_delta (n : Sh) (p0 p1 p2 : Nat) (h0 : p0 < n.n0) (h1 : p1 < n.n1) (h2 : p2 < n.n2)
    (g : Img) : sum3 n (fun a b c => delta p0 p1 p2 a b c * g a b c) = g p0 p1 p2 := by
  simp only [sum3_eq, delta]
  rw [sum_eq_single p0, sum_eq_single p1, sum_eq_single p2]
  · simp
  · intro c _ hc; simp [hc]
  · intro h; exact absurd (mem_range.mpr h2) h
  · intro b _ hb; simp [hb]
  · intro h; exact absurd (mem_range.mpr h1) h
  · intro a _ ha; simp [ha]
  · intro h; exact absurd (mem_range.mpr h0) h

/-! ### re-indexing one axis of a kernel sum -/

theorem sum_axis (n k : Nat) (φ : Nat → Int) (G : Int → Rat)
    (hG : ∀ z : Int, ¬(0 ≤ z ∧ z < k) → G z = 0)
    (hinj : ∀ j j', φ j = φ j' → j = j')
    (hsurj : ∀ b : Nat, b < k → ∃ j, j < n ∧ φ j = b) :
    ∑ j ∈ range n, G (φ j) = ∑ b ∈ range k, G (b : Int) := by
  have hz : ∀ j, G (φ j) ≠ 0 → 0 ≤ φ j ∧ φ j < k := by
    intro j hj; by_contra h; exact hj (hG _ h)
  refine sum_bij_ne_zero (fun j _ _ => (φ j).toNat) ?_ ?_ ?_ ?_
  · intro j _ hj
    have := hz j hj
    rw [mem_range]; omega
  · intro j _ hj j' _ hj' e
    have := hz j hj; have := hz j' hj'
    apply hinj; omega
  · intro b hb _
    obtain ⟨j, hj, e⟩ := hsurj b (mem_range.mp hb)
    refine ⟨j, mem_range.mpr hj, ?_, ?_⟩
    · rw [e]; assumption
    · rw [e]; simp
  · intro j _ hj
    have := hz j hj
    congr 1; omega

theorem kerZ_zero0 (k : Sh) (K : Img) (z : Int) (b c : Int) (h : ¬(0 ≤ z ∧ z < k.n0)) :
    kerZ k K z b c = 0 := by
  unfold kerZ; rw [if_neg]; tauto
theorem kerZ_zero1 (k : Sh) (K : Img) (z : Int) (a c : Int) (h : ¬(0 ≤ z ∧ z < k.n1)) :
    kerZ k K a z c = 0 := by
  unfold kerZ; rw [if_neg]; tauto
theorem kerZ_zero2 (k : Sh) (K : Img) (z : Int) (a b : Int) (h : ¬(0 ≤ z ∧ z < k.n2)) :
    kerZ k K a b z = 0 := by
  unfold kerZ; rw [if_neg]; tauto

theorem kerZ_cast (k : Sh) (K : Img) (a b c : Nat) (ha : a < k.n0) (hb : b < k.n1) (hc : c < k.n2) :
    kerZ k K a b c = K a b c := by
  unfold kerZ; rw [if_pos]; · simp
  omega

/-- summing the zero-extended kernel along three injective index maps that cover the box
    gives the kernel sum -/
theorem sum3_kerZ (n k : Sh) (K : Img) (φ0 φ1 φ2 : Nat → Int)
    (i0 : ∀ j j', φ0 j = φ0 j' → j = j') (i1 : ∀ j j', φ1 j = φ1 j' → j = j')
    (i2 : ∀ j j', φ2 j = φ2 j' → j = j')
    (s0 : ∀ b : Nat, b < k.n0 → ∃ j, j < n.n0 ∧ φ0 j = b)
    (s1 : ∀ b : Nat, b < k.n1 → ∃ j, j < n.n1 ∧ φ1 j = b)
    (s2 : ∀ b : Nat, b < k.n2 → ∃ j, j < n.n2 ∧ φ2 j = b) :
    sum3 n (fun j0 j1 j2 => kerZ k K (φ0 j0) (φ1 j1) (φ2 j2)) = kerSum k K := by
  unfold kerSum
  simp only [sum3_eq]
  rw [sum_axis n.n0 k.n0 φ0 (fun z => ∑ b ∈ range n.n1, ∑ c ∈ range n.n2, kerZ k K z (φ1 b) (φ2 c))
    (fun z hz => by simp [kerZ_zero0 k K z _ _ hz]) i0 s0]
  refine sum_congr rfl fun a ha => ?_
  rw [sum_axis n.n1 k.n1 φ1 (fun z => ∑ c ∈ range n.n2, kerZ k K a z (φ2 c))
    (fun z hz => by simp [kerZ_zero1 k K z _ _ hz]) i1 s1]
  refine sum_congr rfl fun b hb => ?_
  rw [sum_axis n.n2 k.n2 φ2 (fun z => kerZ k K a b z)
    (fun z hz => by simp [kerZ_zero2 k K z _ _ hz]) i2 s2]
  refine sum_congr rfl fun c hc => ?_
  exact kerZ_cast k K a b c (mem_range.mp ha) (mem_range.mp hb) (mem_range.mp hc)

/-! ### shifting one axis -/

theorem sum_shift (n s : Nat) (f g : Nat → Rat) (hs : s ≤ n) (h1 : ∀ j, j < s → f j = 0)
    (h2 : ∀ j, j + s < n → f (j + s) = g j) (h3 : ∀ j, j < n → n ≤ j + s → g j = 0) :
    ∑ j ∈ range n, f j = ∑ j ∈ range n, g j := by
  obtain ⟨m, rfl⟩ : ∃ m, n = s + m := ⟨n - s, by omega⟩
  rw [sum_range_add f s m, sum_eq_zero (fun j hj => h1 j (mem_range.mp hj)), zero_add]
  rw [Nat.add_comm s m, sum_range_add g m s]
  rw [sum_eq_zero (s := range s) (fun j hj => h3 (m + j) (by have := mem_range.mp hj; omega) (by omega)),
    add_zero]
  refine sum_congr rfl fun j hj => ?_
  have := mem_range.mp hj
  rw [Nat.add_comm s j]; exact h2 j (by omega)

/-! ### bounding box -/

theorem loHit_spec (p : Nat → Bool) (n a : Nat) (h : loHit p n = some a) :
    a < n ∧ p a = true ∧ ∀ b, b < a → p b = false := by
  induction n generalizing a with
  | zero => simp [loHit] at h
  | succ n ih =>
    unfold loHit at h
    cases e : loHit p n with
    | some a' =>
      rw [e] at h; simp only [Option.some.injEq] at h; subst h
      obtain ⟨h1, h2, h3⟩ := ih a' e
      exact ⟨by omega, h2, h3⟩
    | none =>
      rw [e] at h
      by_cases hp : p n = true
      · simp only [hp, if_true, Option.some.injEq] at h; subst h
        refine ⟨by omega, hp, ?_⟩
        have none_spec : ∀ m, loHit p m = none → ∀ b, b < m → p b = false := by
          intro m
          induction m with
          | zero => intro _ b hb; omega
          | succ m ihm =>
            intro hm b hb
            unfold loHit at hm
            cases e' : loHit p m with
            | some _ => rw [e'] at hm; simp at hm
            | none =>
              rw [e'] at hm
              by_cases hpm : p m = true
              · simp [hpm] at hm
              · by_cases hbm : b = m
                · subst hbm; simpa using hpm
                · exact ihm e' b (by omega)
        exact none_spec n e
      · simp [hp] at h

theorem hiHit_spec (p : Nat → Bool) (n a : Nat) (h : hiHit p n = some a) :
    a < n ∧ p a = true ∧ ∀ b, a < b → b < n → p b = false := by
  induction n generalizing a with
  | zero => simp [hiHit] at h
  | succ n ih =>
    unfold hiHit at h
    by_cases hp : p n = true
    · simp only [hp, if_true, Option.some.injEq] at h; subst h
      exact ⟨by omega, hp, fun b h1 h2 => by omega⟩
    · simp only [hp] at h
      obtain ⟨h1, h2, h3⟩ := ih a (by simpa using h)
      refine ⟨by omega, h2, fun b hb1 hb2 => ?_⟩
      by_cases hbn : b = n
      · subst hbn; simpa using hp
      · exact h3 b hb1 (by omega)

theorem loHit_isSome (p : Nat → Bool) (n c : Nat) (hc : c < n) (hp : p c = true) :
    ∃ a, loHit p n = some a ∧ a ≤ c := by
  induction n with
  | zero => omega
  | succ n ih =>
    unfold loHit
    by_cases hcn : c < n
    · obtain ⟨a, ha, hac⟩ := ih hcn
      exact ⟨a, by rw [ha], hac⟩
    · have : c = n := by omega
      subst this
      cases e : loHit p c with
      | some a =>
        have := (loHit_spec p c a e).1
        exact ⟨a, rfl, by omega⟩
      | none => exact ⟨c, by simp [hp], le_refl _⟩

theorem hiHit_isSome (p : Nat → Bool) (n c : Nat) (hc : c < n) (hp : p c = true) :
    ∃ a, hiHit p n = some a ∧ c ≤ a := by
  induction n with
  | zero => omega
  | succ n ih =>
    unfold hiHit
    by_cases hpn : p n = true
    · exact ⟨n, by simp [hpn], by omega⟩
    · have hcn : c < n := by
        by_contra h
        have : c = n := by omega
        subst this; exact hpn hp
      obtain ⟨a, ha, hac⟩ := ih hcn
      exact ⟨a, by simp [hpn, ha], hac⟩

theorem anyTo_true (n : Nat) (p : Nat → Bool) : anyTo n p = true ↔ ∃ a, a < n ∧ p a = true := by
  unfold anyTo; simp [List.any_eq_true]

end NipyVerif.C18
