/-
C19 (wave 3) — helper lemmas: the index-based matrix kit of `Model/C19D` against `Matrix`,
entry-wise perturbation bounds, filters of sorted lists.
-/
import NipyVerif.Lemmas.C19C
import NipyVerif.Model.C19D
import Mathlib.Algebra.BigOperators.Fin
import Mathlib.Algebra.Order.BigOperators.Group.Finset
import Mathlib.Data.Matrix.Mul
import Mathlib.Data.Matrix.Diagonal
import Mathlib.Tactic.Abel

namespace NipyVerif.C19

/-! ## the kit -/

theorem rabs_eq_abs (x : Rat) : rabs x = |x| := by
  unfold rabs
  split
  · rw [abs_of_neg (by assumption)]
  · rw [abs_of_nonneg (by linarith)]

theorem sumTo_eq_range (n : ℕ) (f : ℕ → ℚ) : sumTo n f = ∑ k ∈ Finset.range n, f k := by
  unfold sumTo
  induction n with
  | zero => simp
  | succ n ih => rw [List.range_succ, List.map_append, List.sum_append, ih, Finset.sum_range_succ]; simp

theorem sumTo_eq_fin (n : ℕ) (f : ℕ → ℚ) : sumTo n f = ∑ k : Fin n, f k := by
  rw [sumTo_eq_range, Fin.sum_univ_eq_sum_range]

theorem sumTo_congr (n : ℕ) (f g : ℕ → ℚ) (h : ∀ k < n, f k = g k) : sumTo n f = sumTo n g := by
  rw [sumTo_eq_range, sumTo_eq_range]
  exact Finset.sum_congr rfl (fun k hk => h k (Finset.mem_range.1 hk))

theorem ent_tab {r c i j : ℕ} (f : ℕ → ℕ → ℚ) (hi : i < r) (hj : j < c) : ent (tab r c f) i j = f i j := by
  simp [ent, tab, List.getD_eq_getElem?_getD, List.getElem?_map, List.getElem?_range hi,
    List.getElem?_range hj]

theorem tab_eq_tab {r c : ℕ} (f g : ℕ → ℕ → ℚ) (h : tab r c f = tab r c g) (i j : ℕ) (hi : i < r)
    (hj : j < c) : f i j = g i j := by
  rw [← ent_tab f hi hj, h, ent_tab g hi hj]

theorem le_foldl_max (l : List ℚ) (a x : ℚ) (h : x ∈ l ∨ x ≤ a) : x ≤ l.foldl max a := by
  induction l generalizing a with
  | nil =>
      rcases h with h | h
      · simp at h
      · simpa using h
  | cons y ys ih =>
      simp only [List.foldl_cons]
      apply ih
      rcases h with h | h
      · rcases List.mem_cons.1 h with rfl | h
        · exact Or.inr (le_max_right _ _)
        · exact Or.inl h
      · exact Or.inr (le_trans h (le_max_left _ _))

theorem abs_le_maxAbs_tab {r c i j : ℕ} (f : ℕ → ℕ → ℚ) (hi : i < r) (hj : j < c) :
    |f i j| ≤ maxAbs (tab r c f) := by
  unfold maxAbs
  apply le_foldl_max
  left
  rw [← rabs_eq_abs]
  apply List.mem_map.2
  refine ⟨f i j, ?_, rfl⟩
  apply List.mem_flatten.2
  refine ⟨(List.range c).map (fun j => f i j), ?_, ?_⟩
  · exact List.mem_map.2 ⟨i, List.mem_range.2 hi, rfl⟩
  · exact List.mem_map.2 ⟨j, List.mem_range.2 hj, rfl⟩

/-- a list matrix seen as a `Matrix` of the stated dimensions -/
def toM (r c : ℕ) (m : Mat) : Matrix (Fin r) (Fin c) ℚ := fun i j => ent m i j

open Matrix

theorem toM_mulT (r n c : ℕ) (a b : Mat) : toM r c (mulT r n c a b) = toM r n a * toM n c b := by
  ext i j
  simp only [toM, mulT, ent_tab _ i.2 j.2, Matrix.mul_apply, sumTo_eq_fin]

theorem toM_trT (r c : ℕ) (a : Mat) : toM r c (trT r c a) = (toM c r a)ᵀ := by
  ext i j
  simp only [toM, trT, ent_tab _ i.2 j.2, Matrix.transpose_apply]

theorem toM_subT (r c : ℕ) (a b : Mat) : toM r c (subT r c a b) = toM r c a - toM r c b := by
  ext i j
  simp only [toM, subT, ent_tab _ i.2 j.2, Matrix.sub_apply]

theorem toM_idT (n : ℕ) : toM n n (idT n) = 1 := by
  ext i j
  simp only [toM, idT, ent_tab _ i.2 j.2, Matrix.one_apply, Fin.ext_iff]

theorem toM_tab (r c : ℕ) (f : ℕ → ℕ → ℚ) : toM r c (tab r c f) = fun (i : Fin r) (j : Fin c) => f i j := by
  ext i j
  simp only [toM, ent_tab _ i.2 j.2]

/-- the largest absolute entry bounds every entry of the `Matrix` view -/
theorem toM_entry_le_maxAbs (r c : ℕ) (f : ℕ → ℕ → ℚ) (i : Fin r) (j : Fin c) :
    |toM r c (tab r c f) i j| ≤ maxAbs (tab r c f) := by
  rw [toM_tab]
  exact abs_le_maxAbs_tab f i.2 j.2

/-! ## entry-wise perturbation bounds -/

theorem pair_entry_bound {r c : ℕ} (A : Matrix (Fin r) (Fin r) ℚ) (B : Matrix (Fin r) (Fin c) ℚ) (α β : ℚ)
    (hα : 0 ≤ α) (hA : ∀ i j, |A i j| ≤ α) (hB : ∀ i j, |B i j| ≤ β) (i : Fin r) (j : Fin c) :
    |(A * B) i j| ≤ (r : ℚ) * (α * β) := by
  rw [Matrix.mul_apply]
  calc |∑ k, A i k * B k j| ≤ ∑ k, |A i k * B k j| := Finset.abs_sum_le_sum_abs _ _
    _ ≤ ∑ _k : Fin r, α * β := by
        apply Finset.sum_le_sum
        intro k _
        rw [abs_mul]
        exact mul_le_mul (hA i k) (hB k j) (abs_nonneg _) hα
    _ = (r : ℚ) * (α * β) := by simp

theorem triple_entry_bound {r : ℕ} (W E : Matrix (Fin r) (Fin r) ℚ) (β ε : ℚ)
    (hW : ∀ i j, |W i j| ≤ β) (hE : ∀ i j, |E i j| ≤ ε) (i j : Fin r) :
    |(Wᵀ * E * W) i j| ≤ (r : ℚ) * ((r : ℚ) * (β * ε) * β) := by
  have hβ : 0 ≤ β := le_trans (abs_nonneg _) (hW i j)
  have hε : 0 ≤ ε := le_trans (abs_nonneg _) (hE i j)
  have h1 : ∀ a b, |(Wᵀ * E) a b| ≤ (r : ℚ) * (β * ε) :=
    fun a b => pair_entry_bound Wᵀ E β ε hβ (fun x y => hW y x) hE a b
  exact pair_entry_bound (Wᵀ * E) W _ β (by positivity) h1 hW i j

/-- **orthonormality survives rounding-level certificates**: if `U Uᵀ` and `Wᵀ W` are the
    identity up to `ε`, `δ` entry-wise and `|W| ≤ β`, the Gram matrix of `Uᵀ W` is the identity up to
    `δ + r² β² ε`. -/
theorem gram_dev_bound {r t : ℕ} (U : Matrix (Fin r) (Fin t) ℚ) (W : Matrix (Fin r) (Fin r) ℚ)
    (β ε δ : ℚ) (hU : ∀ i j, |(U * Uᵀ - (1 : Matrix (Fin r) (Fin r) ℚ)) i j| ≤ ε)
    (hV : ∀ i j, |(Wᵀ * W - (1 : Matrix (Fin r) (Fin r) ℚ)) i j| ≤ δ)
    (hW : ∀ i j, |W i j| ≤ β) (i j : Fin r) :
    |((Uᵀ * W)ᵀ * (Uᵀ * W) - (1 : Matrix (Fin r) (Fin r) ℚ)) i j| ≤ δ + (r : ℚ) * ((r : ℚ) * (β * ε) * β) := by
  have hid : (Uᵀ * W)ᵀ * (Uᵀ * W) - 1 = Wᵀ * (U * Uᵀ - 1) * W + (Wᵀ * W - 1) := by
    rw [Matrix.transpose_mul, Matrix.transpose_transpose, Matrix.mul_sub, Matrix.sub_mul, Matrix.mul_one]
    simp only [Matrix.mul_assoc]
    abel
  rw [hid, Matrix.add_apply]
  have h1 := triple_entry_bound W (U * Uᵀ - 1) β ε hW hU i j
  have h2 := hV i j
  have h3 := abs_add_le ((Wᵀ * (U * Uᵀ - (1 : Matrix (Fin r) (Fin r) ℚ)) * W) i j)
    ((Wᵀ * W - (1 : Matrix (Fin r) (Fin r) ℚ)) i j)
  linarith

/-- **the basis diagonalises the covariance up to the certificates**: with `|C W - W diag D| ≤ η`,
    `|Wᵀ W - 1| ≤ δ`, `|W| ≤ β`: `|Wᵀ C W - diag D| ≤ r β η + δ |D_j|`. -/
theorem diag_dev_bound {r : ℕ} (C W : Matrix (Fin r) (Fin r) ℚ) (D : Fin r → ℚ) (β η δ : ℚ)
    (hE : ∀ i j, |(C * W - W * Matrix.diagonal D) i j| ≤ η)
    (hV : ∀ i j, |(Wᵀ * W - (1 : Matrix (Fin r) (Fin r) ℚ)) i j| ≤ δ)
    (hW : ∀ i j, |W i j| ≤ β) (i j : Fin r) :
    |(Wᵀ * C * W - Matrix.diagonal D) i j| ≤ (r : ℚ) * (β * η) + δ * |D j| := by
  have hβ : 0 ≤ β := le_trans (abs_nonneg _) (hW i j)
  have hid : Wᵀ * C * W - Matrix.diagonal D
      = Wᵀ * (C * W - W * Matrix.diagonal D) + (Wᵀ * W - 1) * Matrix.diagonal D := by
    rw [Matrix.mul_sub, Matrix.sub_mul, Matrix.one_mul]
    simp only [Matrix.mul_assoc]
    abel
  rw [hid, Matrix.add_apply]
  have h2 : ((Wᵀ * W - 1) * Matrix.diagonal D) i j = (Wᵀ * W - 1) i j * D j := Matrix.mul_diagonal _ _ _ _
  calc |(Wᵀ * (C * W - W * Matrix.diagonal D)) i j + ((Wᵀ * W - 1) * Matrix.diagonal D) i j|
      ≤ |(Wᵀ * (C * W - W * Matrix.diagonal D)) i j| + |((Wᵀ * W - 1) * Matrix.diagonal D) i j| :=
        abs_add_le _ _
    _ ≤ (r : ℚ) * (β * η) + δ * |D j| := by
        apply add_le_add
        · exact pair_entry_bound Wᵀ _ β η hβ (fun x y => hW y x) hE i j
        · rw [h2, abs_mul]
          exact mul_le_mul_of_nonneg_right (hV i j) (abs_nonneg _)

/-! ## Moore–Penrose algebra -/

/-- the four Moore–Penrose equations -/
def IsMP {t k : ℕ} (K : Matrix (Fin t) (Fin k) ℚ) (P : Matrix (Fin k) (Fin t) ℚ) : Prop :=
  K * P * K = K ∧ P * K * P = P ∧ (K * P)ᵀ = K * P ∧ (P * K)ᵀ = P * K

theorem mp_left {t k : ℕ} {K : Matrix (Fin t) (Fin k) ℚ} {P Q : Matrix (Fin k) (Fin t) ℚ}
    (hP : IsMP K P) (hQ : IsMP K Q) : P = P * K * Q := by
  obtain ⟨p1, p2, p3, _⟩ := hP
  obtain ⟨q1, _, q3, _⟩ := hQ
  calc P = P * (K * P) := by rw [← Matrix.mul_assoc, p2]
    _ = P * (K * P)ᵀ := by rw [p3]
    _ = P * (Pᵀ * Kᵀ) := by rw [Matrix.transpose_mul]
    _ = P * (Pᵀ * (K * Q * K)ᵀ) := by rw [q1]
    _ = P * (Pᵀ * (Kᵀ * (Qᵀ * Kᵀ))) := by
        rw [Matrix.transpose_mul, Matrix.transpose_mul]
    _ = P * ((K * P)ᵀ * (K * Q)ᵀ) := by
        rw [Matrix.transpose_mul, Matrix.transpose_mul]; simp only [Matrix.mul_assoc]
    _ = P * ((K * P) * (K * Q)) := by rw [p3, q3]
    _ = (P * K * P) * K * Q := by simp only [Matrix.mul_assoc]
    _ = P * K * Q := by rw [p2]

theorem mp_right {t k : ℕ} {K : Matrix (Fin t) (Fin k) ℚ} {P Q : Matrix (Fin k) (Fin t) ℚ}
    (hP : IsMP K P) (hQ : IsMP K Q) : Q = P * K * Q := by
  obtain ⟨p1, _, _, p4⟩ := hP
  obtain ⟨_, q2, _, q4⟩ := hQ
  calc Q = (Q * K) * Q := by rw [q2]
    _ = (Q * K)ᵀ * Q := by rw [q4]
    _ = (Kᵀ * Qᵀ) * Q := by rw [Matrix.transpose_mul]
    _ = ((K * P * K)ᵀ * Qᵀ) * Q := by rw [p1]
    _ = ((Kᵀ * (Pᵀ * Kᵀ)) * Qᵀ) * Q := by rw [Matrix.transpose_mul, Matrix.transpose_mul]
    _ = ((P * K)ᵀ * (Q * K)ᵀ) * Q := by
        rw [Matrix.transpose_mul, Matrix.transpose_mul]; simp only [Matrix.mul_assoc]
    _ = ((P * K) * (Q * K)) * Q := by rw [p4, q4]
    _ = P * K * (Q * K * Q) := by simp only [Matrix.mul_assoc]
    _ = P * K * Q := by rw [q2]

/-! ## entries of the basis vectors -/

theorem ent_basisVectors (ux vs : Mat) (d : List Rat) (r t : ℕ) (f : ℕ → ℕ → ℚ) (hux : ux = tab r t f)
    (hd : d.length = r) (a k : ℕ) (ha : a < r) (hk : k < t) :
    ent (basisVectors ux vs d) a k
      = sumTo r (fun i => ent vs i ((orderDesc d).getD a 0) * ent ux i k) := by
  have hr : 0 < r := by omega
  have hlen : ux.length = r := by simp [hux, tab]
  have hhead : (ux.head?.map List.length).getD 0 = t := by
    subst hux
    obtain ⟨r', rfl⟩ : ∃ r', r = r' + 1 := ⟨r - 1, by omega⟩
    simp [tab, List.range_succ_eq_map]
  have hol : (orderDesc d).length = r := by rw [(orderDesc_perm d).length_eq, List.length_range, hd]
  unfold basisVectors
  simp only [hhead, hlen]
  unfold ent sumTo
  simp only [List.getD_eq_getElem?_getD, List.getElem?_map,
    List.getElem?_eq_getElem (by omega : a < (orderDesc d).length), List.getElem?_range hk,
    Option.map_some, Option.getD_some]

/-! ## filters of non-increasing lists -/

theorem filter_eq_take_of_sorted (p : ℚ → Bool) (hp : ∀ x y, y ≤ x → p y = true → p x = true) :
    ∀ (s : List ℚ), s.Pairwise (fun a b => b ≤ a) → s.filter p = s.take (s.filter p).length
  | [], _ => by simp
  | x :: xs, h => by
      have hx := List.pairwise_cons.1 h
      by_cases hpx : p x = true
      · simp only [List.filter_cons, hpx, if_true, List.length_cons, List.take_succ_cons]
        rw [← filter_eq_take_of_sorted p hp xs hx.2]
      · have : xs.filter p = [] := by
          apply List.filter_eq_nil_iff.2
          intro y hy hpy
          exact hpx (hp x y (hx.1 y hy) hpy)
        simp [List.filter_cons, hpx, this]

theorem pairwise_of_zipWith_tail : ∀ (s : List ℚ),
    (List.zipWith (fun a b => decide (b ≤ a)) s s.tail).all id = true → s.Pairwise (fun a b => b ≤ a)
  | [], _ => List.Pairwise.nil
  | [x], _ => by simp
  | x :: y :: ys, h => by
      simp only [List.tail_cons, List.zipWith_cons_cons, List.all_cons, Bool.and_eq_true, id,
        decide_eq_true_eq] at h
      have ih := pairwise_of_zipWith_tail (y :: ys) (by simpa using h.2)
      refine List.pairwise_cons.2 ⟨?_, ih⟩
      intro z hz
      rcases List.mem_cons.1 hz with rfl | hz
      · exact h.1
      · exact le_trans ((List.pairwise_cons.1 ih).1 z hz) h.1

/-! ## shapes of transposed outputs -/

theorem tsdOn_volShape (v : View) (p q : List Nat) (o : TsdOut) (h : tsdOn v p q = .ok o) :
    o.volShape = q.map (fun i => ((p.map (fun i => v.shape.getD i 0)).tail).getD i 0) := by
  unfold tsdOn at h
  simp only [View.transpose] at h
  split at h
  · rename_i T S rest heq
    have := Except.ok.inj h
    subst this
    simp only [View.transpose, volView]
    rw [heq]
    rfl
  · cases h

theorem map_tail_getD (p : List Nat) (f : Nat → Nat) (i : Nat) (hi : i < p.tail.length) :
    ((p.map f).tail).getD i 0 = f (p.tail.getD i 0) := by
  rw [← List.map_tail, List.getD_eq_getElem?_getD, List.getD_eq_getElem?_getD, List.getElem?_map,
    List.getElem?_eq_getElem hi]
  rfl

theorem erase_range_map_getD (l : List Nat) (hlo : 2 ≤ l.length) (hhi : l.length ≤ 5) (t : Nat) :
    ((List.range l.length).erase t).map (fun i => l.getD i 0) = l.eraseIdx t := by
  by_cases ht : t < l.length
  · match l, hlo, hhi, ht with
    | [a, b], _, _, ht =>
        have : t = 0 ∨ t = 1 := by simp at ht; omega
        rcases this with rfl | rfl <;> rfl
    | [a, b, c], _, _, ht =>
        have : t = 0 ∨ t = 1 ∨ t = 2 := by simp at ht; omega
        rcases this with rfl | rfl | rfl <;> rfl
    | [a, b, c, d], _, _, ht =>
        have : t = 0 ∨ t = 1 ∨ t = 2 ∨ t = 3 := by simp at ht; omega
        rcases this with rfl | rfl | rfl | rfl <;> rfl
    | [a, b, c, d, e], _, _, ht =>
        have : t = 0 ∨ t = 1 ∨ t = 2 ∨ t = 3 ∨ t = 4 := by simp at ht; omega
        rcases this with rfl | rfl | rfl | rfl | rfl <;> rfl
  · rw [List.erase_of_not_mem (by simp; omega), List.eraseIdx_of_length_le (by omega)]
    apply List.ext_getElem
    · simp
    · intro i h1 h2
      simp only [List.length_map, List.length_range] at h1
      simp [List.getD_eq_getElem?_getD, List.getElem?_eq_getElem h2]

/-! ## `slice_parcels` : selecting the pairs of one slice -/

theorem flatMap_range_select {α : Type} (g : Nat → List α) (n j : Nat) (hj : j < n) :
    (List.range n).flatMap (fun j' => if j' = j then g j' else []) = g j := by
  induction n with
  | zero => omega
  | succ n ih =>
      rw [List.range_succ, List.flatMap_append]
      by_cases h : j < n
      · rw [ih h]
        simp [show n ≠ j by omega]
      · have hjn : j = n := by omega
        subst hjn
        have : (List.range j).flatMap (fun j' => if j' = j then g j' else []) = [] := by
          apply List.flatMap_eq_nil_iff.2
          intro x hx
          have := List.mem_range.1 hx
          simp [show x ≠ j by omega]
        rw [this]
        simp

theorem filter_tagged_flatMap {α : Type} (f : Nat → List α) (n j : Nat) (hj : j < n) :
    ((List.range n).flatMap (fun j' => (f j').map (fun p => (j', p)))).filter (fun p => decide (p.1 = j))
      = (f j).map (fun p => (j, p)) := by
  rw [List.filter_flatMap]
  rw [← flatMap_range_select (fun j' => (f j').map (fun p => (j', p))) n j hj]
  apply List.flatMap_congr
  intro j' _
  by_cases h : j' = j
  · subst h
    simp
  · simp [h]

/-! ## every position exactly once: inserting the slice index into the indices of the slice -/

theorem flatMap_nil_fun {α β : Type} (l : List α) : l.flatMap (fun _ => ([] : List β)) = [] := by
  induction l with
  | nil => rfl
  | cons a l ih => simp [List.flatMap_cons, ih]

theorem flatMap_comm_perm {α β γ : Type} (l1 : List α) (l2 : List β) (f : α → β → List γ) :
    (l1.flatMap (fun a => l2.flatMap (f a))).Perm (l2.flatMap (fun b => l1.flatMap (fun a => f a b))) := by
  induction l1 with
  | nil => simp [flatMap_nil_fun]
  | cons a l1 ih =>
      simp only [List.flatMap_cons]
      exact (List.Perm.append_left _ ih).trans (List.flatMap_append_perm l2 (f a) _)

theorem allIdx_insert_perm : ∀ (shape : List Nat) (a : Nat), a < shape.length →
    ((List.range (shape.getD a 0)).flatMap (fun j =>
        (allIdx (shape.eraseIdx a)).map (fun idx => idx.insertIdx a j))).Perm (allIdx shape)
  | [], a, h => by simp at h
  | d :: ds, 0, _ => by
      simp only [List.getD_cons_zero, List.eraseIdx_cons_zero, List.insertIdx_zero, allIdx]
      exact List.Perm.refl _
  | d :: ds, a + 1, h => by
      have ih := allIdx_insert_perm ds a (by simpa using h)
      simp only [List.getD_cons_succ, List.eraseIdx_cons_succ, allIdx]
      -- push the insertion through the outer index
      have e1 : ∀ j, ((List.range d).flatMap (fun i => (allIdx (ds.eraseIdx a)).map (fun r => i :: r))).map
            (fun idx => idx.insertIdx (a + 1) j)
          = (List.range d).flatMap (fun i => (allIdx (ds.eraseIdx a)).map (fun r => i :: r.insertIdx a j)) := by
        intro j
        rw [List.map_flatMap]
        apply List.flatMap_congr
        intro i _
        rw [List.map_map]
        rfl
      simp only [e1]
      refine (flatMap_comm_perm _ _ _).trans ?_
      apply List.Perm.flatMap_left
      intro i _
      have e2 : (List.range (ds.getD a 0)).flatMap (fun j => (allIdx (ds.eraseIdx a)).map (fun r => i :: r.insertIdx a j))
          = ((List.range (ds.getD a 0)).flatMap (fun j => (allIdx (ds.eraseIdx a)).map (fun r => r.insertIdx a j))).map
              (fun r => i :: r) := by
        rw [List.map_flatMap]
        apply List.flatMap_congr
        intro j _
        rw [List.map_map]
        rfl
      rw [e2]
      exact ih.map _

theorem allIdx_length : ∀ (shape : List Nat) (idx : List Nat), idx ∈ allIdx shape → idx.length = shape.length
  | [], idx, h => by simp [allIdx] at h; simp [h]
  | d :: ds, idx, h => by
      simp only [allIdx, List.mem_flatMap, List.mem_map] at h
      obtain ⟨i, _, r, hr, rfl⟩ := h
      simp [allIdx_length ds r hr]

/-- the index `slice_generator` reads for slice `j` of axis `a` at position `idx` of the slice -/
def fullIdx (nd a j : Nat) (idx : List Nat) : List Nat :=
  (List.range nd).map (fun a' =>
    if [a].contains a' then [j].getD ([a].idxOf a') 0
    else idx.getD (((List.range nd).filter (fun x => !([a].contains x))).idxOf a') 0)

theorem fullIdx_eq_insert (nd a j : Nat) (idx : List Nat) (hlo : 2 ≤ nd) (hhi : nd ≤ 5) (ha : a < nd)
    (hl : idx.length + 1 = nd) : fullIdx nd a j idx = idx.insertIdx a j := by
  match idx, hl with
  | [x0], hl =>
      obtain rfl : nd = 2 := by simp at hl; omega
      have : a = 0 ∨ a = 1 := by omega
      rcases this with rfl | rfl <;> rfl
  | [x0, x1], hl =>
      obtain rfl : nd = 3 := by simp at hl; omega
      have : a = 0 ∨ a = 1 ∨ a = 2 := by omega
      rcases this with rfl | rfl | rfl <;> rfl
  | [x0, x1, x2], hl =>
      obtain rfl : nd = 4 := by simp at hl; omega
      have : a = 0 ∨ a = 1 ∨ a = 2 ∨ a = 3 := by omega
      rcases this with rfl | rfl | rfl | rfl <;> rfl
  | [x0, x1, x2, x3], hl =>
      obtain rfl : nd = 5 := by simp at hl; omega
      have : a = 0 ∨ a = 1 ∨ a = 2 ∨ a = 3 ∨ a = 4 := by omega
      rcases this with rfl | rfl | rfl | rfl | rfl <;> rfl
  | [], hl =>
      simp at hl
      omega
  | _ :: _ :: _ :: _ :: _ :: _, hl =>
      simp at hl
      omega

theorem filter_ne_eq_erase (nd a : Nat) :
    (List.range nd).filter (fun x => !([a].contains x)) = (List.range nd).erase a := by
  rw [List.Nodup.erase_eq_filter List.nodup_range]
  apply List.filter_congr
  intro x _
  by_cases h : x = a <;> simp [h]

end NipyVerif.C19
