/-
Helper lemmas for C12 part R: the renumbering `renumb` of `subfield`/`subgraph` is an order
isomorphism between the retained vertices and `0..n-1`, the sub-graph is the induced graph, and
connectivity transfers along it.
-/
import NipyVerif.Lemmas.C12U

namespace NipyVerif.C12

/-! ### `renumb` and `retained` are inverse order isomorphisms -/

theorem renumb_strict (valid : Nat → Bool) {a b : Nat} (h : a < b) (ha : valid a = true) :
    renumb valid a < renumb valid b := renumb_lt valid h ha

theorem renumb_inj (valid : Nat → Bool) {a b : Nat} (ha : valid a = true) (hb : valid b = true)
    (h : renumb valid a = renumb valid b) : a = b := by
  rcases Nat.lt_trichotomy a b with hlt | heq | hgt
  · have := renumb_strict valid hlt ha; omega
  · exact heq
  · have := renumb_strict valid hgt hb; omega

theorem retained_succ (V : Nat) (valid : Nat → Bool) :
    retained (V + 1) valid = retained V valid ++ (if valid V then [V] else []) := by
  unfold retained
  rw [List.range_succ, List.filter_append]
  by_cases h : valid V <;> simp [h]

theorem retained_length (V : Nat) (valid : Nat → Bool) : (retained V valid).length = renumb valid V :=
  (renumb_eq_length valid V).symm

/-- position `renumb v` of the retained list holds `v` -/
theorem retained_getD_renumb (valid : Nat → Bool) (V : Nat) {v : Nat} (hv : v < V) (hval : valid v = true) :
    (retained V valid).getD (renumb valid v) 0 = v := by
  induction V with
  | zero => omega
  | succ V ih =>
    rw [retained_succ, List.getD_eq_getElem?_getD]
    rcases Nat.lt_succ_iff_lt_or_eq.1 hv with h | rfl
    · have hlt : renumb valid v < (retained V valid).length := by
        rw [retained_length]; exact renumb_lt valid h hval
      rw [List.getElem?_append_left hlt, ← List.getD_eq_getElem?_getD]
      exact ih h
    · rw [List.getElem?_append_right (by rw [retained_length]), retained_length, Nat.sub_self, hval]
      rfl

theorem mem_retained {V : Nat} {valid : Nat → Bool} {v : Nat} :
    v ∈ retained V valid ↔ v < V ∧ valid v = true := by
  simp [retained, List.mem_filter]

theorem retained_nodup (V : Nat) (valid : Nat → Bool) : (retained V valid).Nodup :=
  List.Nodup.sublist List.filter_sublist List.nodup_range

/-- every new index `k < n` is the number of exactly one retained vertex -/
theorem retained_spec (valid : Nat → Bool) (V : Nat) {k : Nat} (hk : k < renumb valid V) :
    (retained V valid).getD k 0 < V ∧ valid ((retained V valid).getD k 0) = true ∧
      renumb valid ((retained V valid).getD k 0) = k := by
  have hk' : k < (retained V valid).length := by rw [retained_length]; exact hk
  have hget : (retained V valid).getD k 0 = (retained V valid)[k] := by
    rw [List.getD_eq_getElem?_getD, List.getElem?_eq_getElem hk', Option.getD_some]
  have hmem := mem_retained.1 (List.getElem_mem hk')
  rw [hget]
  refine ⟨hmem.1, hmem.2, ?_⟩
  have hr := retained_getD_renumb valid V hmem.1 hmem.2
  have hlt : renumb valid (retained V valid)[k] < (retained V valid).length := by
    rw [retained_length]; exact renumb_lt valid hmem.1 hmem.2
  rw [List.getD_eq_getElem?_getD, List.getElem?_eq_getElem hlt, Option.getD_some] at hr
  exact (List.Nodup.getElem_inj_iff (retained_nodup V valid)).1 hr

/-- the sub-column at a new index is the column at the old vertex -/
theorem at_subcol (valid : Nat → Bool) (V : Nat) (col : List Rat) {v : Nat} (hv : v < V)
    (hval : valid v = true) : at_ (subcol V valid col) (renumb valid v) = at_ col v := by
  have hlt : renumb valid v < (retained V valid).length := by
    rw [retained_length]; exact renumb_lt valid hv hval
  have h := retained_getD_renumb valid V hv hval
  rw [List.getD_eq_getElem?_getD, List.getElem?_eq_getElem hlt, Option.getD_some] at h
  show (List.map (at_ col) (retained V valid)).getD (renumb valid v) 0 = at_ col v
  rw [List.getD_eq_getElem?_getD, List.getElem?_map, List.getElem?_eq_getElem hlt, Option.map_some,
    Option.getD_some, h]

/-! ### the sub-graph is the induced graph -/

theorem subgraph_adj_iff (g : Graph) (valid : Nat → Bool) {a b : Nat} (ha : valid a = true)
    (hb : valid b = true) :
    (subgraph g valid).adj (renumb valid a) (renumb valid b) = true ↔ g.adj a b = true := by
  simp only [Graph.adj, subgraph, List.any_eq_true, List.mem_map, List.mem_filter, Bool.and_eq_true,
    beq_iff_eq]
  constructor
  · rintro ⟨e, ⟨e0, ⟨he0, h1, h2⟩, rfl⟩, h3, h4⟩
    simp only at h3 h4
    exact ⟨e0, he0, renumb_inj valid h1 ha h3, renumb_inj valid h2 hb h4⟩
  · rintro ⟨e0, he0, rfl, rfl⟩
    exact ⟨_, ⟨e0, ⟨he0, ha, hb⟩, rfl⟩, rfl, rfl⟩

/-- an edge of the sub-graph comes from an edge between retained vertices -/
theorem subgraph_adj_elim (g : Graph) (hv : g.Valid) (valid : Nat → Bool) {i j : Nat}
    (h : (subgraph g valid).adj i j = true) :
    ∃ a b, a < g.V ∧ b < g.V ∧ valid a = true ∧ valid b = true ∧ renumb valid a = i ∧
      renumb valid b = j ∧ g.adj a b = true := by
  simp only [Graph.adj, subgraph, List.any_eq_true, List.mem_map, List.mem_filter, Bool.and_eq_true,
    beq_iff_eq] at h
  obtain ⟨e, ⟨e0, ⟨he0, h1, h2⟩, rfl⟩, h3, h4⟩ := h
  refine ⟨e0.src, e0.dst, (hv e0 he0).1, (hv e0 he0).2, h1, h2, h3, h4, ?_⟩
  simp only [Graph.adj, List.any_eq_true, Bool.and_eq_true, beq_iff_eq]
  exact ⟨e0, he0, rfl, rfl⟩

theorem subgraph_symm (g : Graph) (hv : g.Valid) (hs : g.Symm) (valid : Nat → Bool) :
    (subgraph g valid).Symm := by
  intro i j h
  obtain ⟨a, b, _, _, ha, hb, rfl, rfl, hab⟩ := subgraph_adj_elim g hv valid h
  exact (subgraph_adj_iff g valid hb ha).2 (hs a b hab)

/-! ### the rows the sweep reads -/

/-- `sf.to_coo_matrix().tolil().rows` as the model reads it -/
def subRows (sg : Graph) : Nat → List Nat :=
  fun i => (((List.range sg.V).map (openRow sg)).toArray).getD i []

theorem subRows_eq (sg : Graph) (i : Nat) : subRows sg i = if i < sg.V then openRow sg i else [] := by
  unfold subRows
  by_cases h : i < sg.V
  · simp [h, Array.getD]
  · simp [h, Array.getD]

theorem mem_subRows (sg : Graph) (i j : Nat) :
    j ∈ subRows sg i ↔ i < sg.V ∧ j < sg.V ∧ sg.adj i j = true := by
  rw [subRows_eq]
  by_cases h : i < sg.V
  · simp [h, openRow, List.mem_filter]
  · simp [h]

theorem subRows_symm (sg : Graph) (hs : sg.Symm) : SymmRows (subRows sg) := by
  intro i j h
  obtain ⟨h1, h2, h3⟩ := (mem_subRows sg i j).1 h
  exact (mem_subRows sg j i).2 ⟨h2, h1, hs i j h3⟩

/-- rows of the whole graph: out-neighbours -/
def graphRows (g : Graph) : Nat → List Nat := fun i => openRow g i

theorem mem_graphRows (g : Graph) (i j : Nat) : j ∈ graphRows g i ↔ j < g.V ∧ g.adj i j = true := by
  simp [graphRows, openRow, List.mem_filter]

/-! ### connectivity transfers along the renumbering -/

theorem conn_map {rows1 rows2 : Nat → List Nat} {S1 S2 : Nat → Prop} (f : Nat → Nat)
    (hstep : ∀ x y, StepIn rows1 S1 x y → StepIn rows2 S2 (f x) (f y)) {a b : Nat}
    (h : Conn rows1 S1 a b) : Conn rows2 S2 (f a) (f b) := by
  induction h with
  | refl => exact Relation.ReflTransGen.refl
  | tail _ hbc ih => exact Relation.ReflTransGen.tail ih (hstep _ _ hbc)

/-- Two retained vertices are joined inside a set `P` of new indices in the sub-graph iff they are
    joined in the original graph inside the retained vertices whose new index is in `P`. -/
theorem conn_subgraph_iff (g : Graph) (valid : Nat → Bool) (P : Nat → Prop)
    {u v : Nat} (hu : u < g.V) (hvV : v < g.V) (hvu : valid u = true) (hvv : valid v = true) :
    Conn (subRows (subgraph g valid)) P (renumb valid u) (renumb valid v) ↔
      Conn (graphRows g) (fun x => x < g.V ∧ valid x = true ∧ P (renumb valid x)) u v := by
  constructor
  · intro h
    have := conn_map (rows2 := graphRows g)
      (S2 := fun x => x < g.V ∧ valid x = true ∧ P (renumb valid x))
      (fun k => (retained g.V valid).getD k 0) (by
        rintro x y ⟨hx, hy, hxy⟩
        obtain ⟨hxV, hyV, hadj⟩ := (mem_subRows _ x y).1 hxy
        obtain ⟨ax, bx, cx⟩ := retained_spec valid g.V (show x < renumb valid g.V from hxV)
        obtain ⟨ay, bY, cy⟩ := retained_spec valid g.V (show y < renumb valid g.V from hyV)
        refine ⟨⟨ax, bx, by rw [cx]; exact hx⟩, ⟨ay, bY, by rw [cy]; exact hy⟩, ?_⟩
        rw [mem_graphRows]
        refine ⟨ay, (subgraph_adj_iff g valid bx bY).1 ?_⟩
        rw [cx, cy]; exact hadj) h
    rwa [retained_getD_renumb valid g.V hu hvu, retained_getD_renumb valid g.V hvV hvv] at this
  · intro h
    exact conn_map (renumb valid) (by
      rintro x y ⟨⟨hxV, hxv, hxP⟩, ⟨hyV, hyv, hyP⟩, hxy⟩
      refine ⟨hxP, hyP, ?_⟩
      rw [mem_subRows]
      exact ⟨renumb_lt valid hxV hxv, renumb_lt valid hyV hyv,
        (subgraph_adj_iff g valid hxv hyv).2 ((mem_graphRows g x y).1 hxy).2⟩) h

/-! ### the pieces of `threshold_bifurcations` -/

/-- the hierarchy cut at the first `k` regions: links into later regions are dropped -/
def truncParent (parent : Nat → Nat) (k : Nat) : Nat → Nat :=
  fun c => if parent c < k then parent c else c

/-- vertex `v` lies in region `c` or in a region below it -/
def Below (st : BifSt) (c v : Nat) : Prop := ∃ k, st.parent^[k] (labOf st v) = c

theorem labOf_of_llabel {st : BifSt} {v c : Nat} (h : st.llabel v = (c : Int)) : labOf st v = c := by
  unfold labOf; rw [h]; exact Int.toNat_natCast c

theorem bifurcations_unfold {g : Graph} {col : List Rat} {th : Rat} {order idx par : List Nat}
    {label : List Int} (h : bifurcations g col th order = some (idx, par, label))
    (hne : (subgraph g (fun v => decide (th ≤ at_ col v))).V ≠ 0) :
    let valid := fun v => decide (th ≤ at_ col v)
    let sg := subgraph g valid
    let st := bifSweep (subRows sg) order
    validDescOrder sg.V (at_ (subcol g.V valid col)) order = true ∧
      par = (List.range st.q).map st.parent ∧
      label = (List.range g.V).map (fun v => if valid v then st.llabel (renumb valid v) else -1) ∧
      idx = (List.range st.q).map (fun (c : Nat) =>
        maskedArgmax g.V (at_ col) (fun v => label.toArray.getD v (-1) == (c : Int))) := by
  intro valid sg st
  unfold bifurcations at h
  simp only at h
  rw [if_neg hne] at h
  split at h
  · cases h
  · rename_i hord
    simp only [Option.some.injEq, Prod.mk.injEq] at h
    obtain ⟨h1, h2, h3⟩ := h
    refine ⟨by simpa using hord, h2.symm, h3.symm, ?_⟩
    rw [← h1, ← h3]
    rfl

theorem bifurcations_empty {g : Graph} {col : List Rat} {th : Rat} {order idx par : List Nat}
    {label : List Int} (h : bifurcations g col th order = some (idx, par, label))
    (h0 : (subgraph g (fun v => decide (th ≤ at_ col v))).V = 0) :
    idx = [] ∧ par = [] ∧ label = List.replicate g.V (-1) := by
  unfold bifurcations at h
  simp only at h
  rw [if_pos h0] at h
  simp only [Option.some.injEq, Prod.mk.injEq] at h
  exact ⟨h.1.symm, h.2.1.symm, h.2.2.symm⟩

/-- a valid order always gets an answer -/
theorem bifurcations_some_of_valid (g : Graph) (col : List Rat) (th : Rat) (order : List Nat)
    (hord : validDescOrder (subgraph g (fun v => decide (th ≤ at_ col v))).V
      (at_ (subcol g.V (fun v => decide (th ≤ at_ col v)) col)) order = true) :
    ∃ idx par label, bifurcations g col th order = some (idx, par, label) := by
  unfold bifurcations
  simp only
  split
  · exact ⟨_, _, _, rfl⟩
  · rw [hord]
    exact ⟨_, _, _, rfl⟩

theorem toArray_getD_eq (l : List Int) {v : Nat} (hv : v < l.length) (d d' : Int) :
    l.toArray.getD v d = l.getD v d' := by
  simp [Array.getD, hv, List.getD_eq_getElem?_getD]

theorem maskedArgmax_spec (V : Nat) (val : Nat → Rat) (mask : Nat → Bool)
    (hex : ∃ v, v < V ∧ mask v = true) :
    maskedArgmax V val mask < V ∧ mask (maskedArgmax V val mask) = true ∧
      ∀ v < V, mask v = true → val v ≤ val (maskedArgmax V val mask) := by
  obtain ⟨w, hw, hmw⟩ := hex
  have hmem : w ∈ (List.range V).filter mask := List.mem_filter.2 ⟨List.mem_range.2 hw, hmw⟩
  unfold maskedArgmax
  cases hM : (List.range V).filter mask with
  | nil => rw [hM] at hmem; cases hmem
  | cons a t =>
    simp only [argmaxRow, Option.getD_some]
    obtain ⟨h1, h2, h3⟩ := argmax_fold_spec val t a
    have hb : t.foldl (fun b x => if val x > val b then x else b) a ∈ (List.range V).filter mask := by
      rw [hM]; exact h1
    obtain ⟨hbV, hbm⟩ := List.mem_filter.1 hb
    refine ⟨List.mem_range.1 hbV, hbm, fun v hv hm => ?_⟩
    have : v ∈ a :: t := by rw [← hM]; exact List.mem_filter.2 ⟨List.mem_range.2 hv, hm⟩
    rcases List.mem_cons.1 this with rfl | h
    · exact h2
    · exact h3 v h

/-! ### basin numbering: first-vertex order -/

theorem idxOf_map_injOn (f : Nat → Nat) (l : List Nat) (a : Nat) (ha : a ∈ l)
    (hinj : ∀ x ∈ l, ∀ y ∈ l, f x = f y → x = y) : (l.map f).idxOf (f a) = l.idxOf a := by
  induction l with
  | nil => cases ha
  | cons b t ih =>
    rw [List.map_cons, List.idxOf_cons, List.idxOf_cons]
    by_cases hba : b = a
    · subst hba; simp
    · have hne : f b ≠ f a := fun e => hba (hinj b List.mem_cons_self a ha e)
      have hat : a ∈ t := by
        rcases List.mem_cons.1 ha with h | h
        · exact absurd h.symm hba
        · exact h
      have h1 : (f b == f a) = false := by simpa using hne
      have h2 : (b == a) = false := by simpa using hba
      rw [h1, h2]
      simp only [cond_false]
      rw [ih hat (fun x hx y hy => hinj x (List.mem_cons_of_mem _ hx) y (List.mem_cons_of_mem _ hy))]

theorem idxOf_lt_iff_of_sorted (l : List Nat) (hs : l.Pairwise (· < ·)) (a b : Nat) (ha : a ∈ l)
    (hb : b ∈ l) : l.idxOf a < l.idxOf b ↔ a < b := by
  induction l with
  | nil => cases ha
  | cons c t ih =>
    obtain ⟨hct, hst⟩ := List.pairwise_cons.1 hs
    rw [List.idxOf_cons, List.idxOf_cons]
    by_cases hca : c = a <;> by_cases hcb : c = b
    · subst hca; subst hcb; simp
    · subst hca
      have hbt : b ∈ t := by
        rcases List.mem_cons.1 hb with h | h
        · exact absurd h.symm hcb
        · exact h
      have h2 : (c == b) = false := by simpa using hcb
      simp only [beq_self_eq_true, cond_true, h2, cond_false]
      constructor
      · intro _; exact hct b hbt
      · intro _; omega
    · subst hcb
      have hat : a ∈ t := by
        rcases List.mem_cons.1 ha with h | h
        · exact absurd h.symm hca
        · exact h
      have h1 : (c == a) = false := by simpa using hca
      simp only [beq_self_eq_true, cond_true, h1, cond_false]
      constructor
      · intro h; omega
      · intro h; have := hct a hat; omega
    · have hat : a ∈ t := by
        rcases List.mem_cons.1 ha with h | h
        · exact absurd h.symm hca
        · exact h
      have hbt : b ∈ t := by
        rcases List.mem_cons.1 hb with h | h
        · exact absurd h.symm hcb
        · exact h
      have h1 : (c == a) = false := by simpa using hca
      have h2 : (c == b) = false := by simpa using hcb
      simp only [h1, h2, cond_false]
      rw [← ih hst hat hbt]
      omega

/-- the first vertex of the basin of a vertex: it is a vertex, has the same root, and nothing before
    it has that root -/
theorem basinMin_spec (g : Graph) (col : List Rat) (v : Nat) (hv : v < g.V) :
    basinMin g col (basinRoot g col v) < g.V ∧
      basinRoot g col (basinMin g col (basinRoot g col v)) = basinRoot g col v ∧
      basinMin g col (basinRoot g col v) ≤ v := by
  unfold basinMin
  cases h : (List.range g.V).find? (fun u => basinRoot g col u == basinRoot g col v) with
  | none =>
    rw [List.find?_eq_none] at h
    exact absurd (h v (List.mem_range.2 hv)) (by simp)
  | some f =>
    simp only [Option.getD_some]
    have hmem := List.mem_range.1 (List.mem_of_find?_eq_some h)
    have hp : basinRoot g col f = basinRoot g col v := by simpa using List.find?_some h
    refine ⟨hmem, hp, ?_⟩
    obtain ⟨_, as, bs, he, hbefore⟩ := List.find?_eq_some_iff_append.1 h
    by_contra hlt
    have hvlt : v < f := by omega
    -- v comes before f in range V, so it is in `as`, where the predicate fails
    have hvm : v ∈ as := by
      have hvr : v ∈ as ++ f :: bs := he ▸ List.mem_range.2 hv
      rcases List.mem_append.1 hvr with h1 | h1
      · exact h1
      · have hsorted : (as ++ f :: bs).Pairwise (· < ·) := he ▸ List.pairwise_lt_range
        have hfb := (List.pairwise_cons.1 (List.pairwise_append.1 hsorted).2.1).1
        rcases List.mem_cons.1 h1 with h2 | h2
        · omega
        · have := hfb v h2; omega
    have := hbefore v hvm
    simp at this

end NipyVerif.C12
