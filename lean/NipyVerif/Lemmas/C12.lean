/-
Helper lemmas for C12: running max/min are the greatest/least element,
sparse rows, iterates.
-/
import NipyVerif.Model.C12
import Mathlib.Algebra.Order.Ring.Unbundled.Rat
import Mathlib.Order.GaloisConnection.Basic
import Mathlib.Logic.Function.Iterate
import Mathlib.Tactic.Linarith

namespace NipyVerif.C12

theorem iter_eq_iterate {α} (f : α → α) (n : Nat) (a : α) : iter f n a = f^[n] a := by
  induction n generalizing a with
  | zero => rfl
  | succ n ih => rw [iter, ih]; rfl

/-! ### running maximum / minimum -/

theorem foldMax_ge_init (a : Rat) (l : List Rat) : a ≤ foldMax a l := by
  induction l generalizing a with
  | nil => simp [foldMax]
  | cons x t ih =>
    simp only [foldMax, List.foldl_cons] at ih ⊢
    split
    · exact le_trans (le_of_lt ‹_›) (ih x)
    · exact ih a

theorem foldMax_ge_mem (a : Rat) (l : List Rat) : ∀ x ∈ l, x ≤ foldMax a l := by
  induction l generalizing a with
  | nil => simp
  | cons y t ih =>
    intro x hx
    simp only [foldMax, List.foldl_cons]
    rcases List.mem_cons.1 hx with rfl | hx
    · split
      · exact foldMax_ge_init x t
      · exact le_trans (not_lt.1 ‹_›) (foldMax_ge_init a t)
    · exact ih _ x hx

theorem foldMax_mem (a : Rat) (l : List Rat) : foldMax a l = a ∨ foldMax a l ∈ l := by
  induction l generalizing a with
  | nil => simp [foldMax]
  | cons y t ih =>
    simp only [foldMax, List.foldl_cons]
    split
    · rcases ih y with h | h
      · right; simp only [foldMax] at h; rw [h]; exact List.mem_cons_self
      · right; exact List.mem_cons_of_mem _ h
    · rcases ih a with h | h
      · left; exact h
      · right; exact List.mem_cons_of_mem _ h

/-- `foldMax a l ≤ b` iff every element of `a :: l` is `≤ b` -/
theorem foldMax_le_iff (a : Rat) (l : List Rat) (b : Rat) :
    foldMax a l ≤ b ↔ a ≤ b ∧ ∀ x ∈ l, x ≤ b := by
  constructor
  · intro h
    exact ⟨le_trans (foldMax_ge_init a l) h, fun x hx => le_trans (foldMax_ge_mem a l x hx) h⟩
  · rintro ⟨ha, hl⟩
    rcases foldMax_mem a l with h | h
    · rw [h]; exact ha
    · exact hl _ h

theorem foldMin_le_init (a : Rat) (l : List Rat) : foldMin a l ≤ a := by
  induction l generalizing a with
  | nil => simp [foldMin]
  | cons x t ih =>
    simp only [foldMin, List.foldl_cons] at ih ⊢
    split
    · exact le_trans (ih x) (le_of_lt ‹_›)
    · exact ih a

theorem foldMin_le_mem (a : Rat) (l : List Rat) : ∀ x ∈ l, foldMin a l ≤ x := by
  induction l generalizing a with
  | nil => simp
  | cons y t ih =>
    intro x hx
    simp only [foldMin, List.foldl_cons]
    rcases List.mem_cons.1 hx with rfl | hx
    · split
      · exact foldMin_le_init x t
      · exact le_trans (foldMin_le_init a t) (not_lt.1 ‹_›)
    · exact ih _ x hx

theorem foldMin_mem (a : Rat) (l : List Rat) : foldMin a l = a ∨ foldMin a l ∈ l := by
  induction l generalizing a with
  | nil => simp [foldMin]
  | cons y t ih =>
    simp only [foldMin, List.foldl_cons]
    split
    · rcases ih y with h | h
      · right; simp only [foldMin] at h; rw [h]; exact List.mem_cons_self
      · right; exact List.mem_cons_of_mem _ h
    · rcases ih a with h | h
      · left; exact h
      · right; exact List.mem_cons_of_mem _ h

theorem le_foldMin_iff (a : Rat) (l : List Rat) (b : Rat) :
    b ≤ foldMin a l ↔ b ≤ a ∧ ∀ x ∈ l, b ≤ x := by
  constructor
  · intro h
    exact ⟨le_trans h (foldMin_le_init a l), fun x hx => le_trans h (foldMin_le_mem a l x hx)⟩
  · rintro ⟨ha, hl⟩
    rcases foldMin_mem a l with h | h
    · rw [h]; exact ha
    · exact hl _ h

/-! ### graphs -/

/-- every edge joins two vertices of the graph -/
def Graph.Valid (g : Graph) : Prop := ∀ e ∈ g.edges, e.src < g.V ∧ e.dst < g.V
/-- the edge relation is symmetric (weights may differ) -/
def Graph.Symm (g : Graph) : Prop := ∀ i j, g.adj i j = true → g.adj j i = true

theorem adj_lt {g : Graph} {i j : Nat} (hv : g.Valid) (h : g.adj i j = true) : i < g.V ∧ j < g.V := by
  simp only [Graph.adj, List.any_eq_true, Bool.and_eq_true, beq_iff_eq] at h
  obtain ⟨e, he, h1, h2⟩ := h
  have := hv e he
  subst h1; subst h2; exact this

theorem mem_closedRow {g : Graph} {i j : Nat} :
    j ∈ closedRow g i ↔ j < g.V ∧ (j = i ∨ g.adj i j = true) := by
  simp [closedRow, List.mem_filter]

theorem dilF_le_iff (g : Graph) (f : Nat → Rat) (i : Nat) (b : Rat) :
    dilF g f i ≤ b ↔ f i ≤ b ∧ ∀ j ∈ closedRow g i, f j ≤ b := by
  simp [dilF, foldMax_le_iff]

theorem le_eroF_iff (g : Graph) (f : Nat → Rat) (i : Nat) (b : Rat) :
    b ≤ eroF g f i ↔ b ≤ f i ∧ ∀ j ∈ closedRow g i, b ≤ f j := by
  simp [eroF, le_foldMin_iff]

/-- on a symmetric graph dilation is lower adjoint to erosion -/
theorem gc_dil_ero (g : Graph) (hv : g.Valid) (hs : g.Symm) : GaloisConnection (dilF g) (eroF g) := by
  intro f h
  simp only [Pi.le_def, dilF_le_iff, le_eroF_iff]
  constructor
  · intro H j
    refine ⟨(H j).1, fun i hi => ?_⟩
    rcases mem_closedRow.1 hi with ⟨_, rfl | hadj⟩
    · exact (H _).1
    · exact (H i).2 j (mem_closedRow.2 ⟨(adj_lt hv hadj).1, Or.inr (hs _ _ hadj)⟩)
  · intro H i
    refine ⟨(H i).1, fun j hj => ?_⟩
    rcases mem_closedRow.1 hj with ⟨_, rfl | hadj⟩
    · exact (H _).1
    · exact (H j).2 i (mem_closedRow.2 ⟨(adj_lt hv hadj).1, Or.inr (hs _ _ hadj)⟩)

theorem gc_iterate {α} [Preorder α] {l u : α → α} (gc : GaloisConnection l u) (n : ℕ) :
    GaloisConnection (l^[n]) (u^[n]) := by
  induction n with
  | zero => exact GaloisConnection.id
  | succ n ih =>
    rw [Function.iterate_succ, Function.iterate_succ']
    exact gc.compose ih

/-! ### list-level operators are the specification operators -/

theorem at_map_range {V : Nat} (h : Nat → Rat) {i : Nat} (hi : i < V) :
    at_ ((List.range V).map h) i = h i := by
  simp [at_, List.getD_eq_getElem?_getD, hi]

theorem map_at_range {col : List Rat} {V : Nat} (hl : col.length = V) :
    (List.range V).map (at_ col) = col := by
  apply List.ext_getElem
  · simp [hl]
  · intro i h1 h2
    simp [at_, List.getD_eq_getElem?_getD, h2]

theorem mapM_some {α β} (f : α → Option β) (h : α → β) (l : List α)
    (H : ∀ x ∈ l, f x = some (h x)) : l.mapM f = some (l.map h) := by
  induction l with
  | nil => rfl
  | cons a t ih =>
    rw [List.mapM_cons, H a List.mem_cons_self, ih (fun x hx => H x (List.mem_cons_of_mem _ hx))]
    rfl

theorem listMax_closedRow (g : Graph) (f : Nat → Rat) {i : Nat} (hi : i < g.V) :
    listMax ((closedRow g i).map f) = some (dilF g f i) := by
  have hmem : i ∈ closedRow g i := mem_closedRow.2 ⟨hi, Or.inl rfl⟩
  unfold dilF
  cases hrow : closedRow g i with
  | nil => rw [hrow] at hmem; cases hmem
  | cons a l =>
    rw [hrow] at hmem
    simp only [List.map_cons, listMax, Option.some.injEq]
    apply le_antisymm
    · rw [foldMax_le_iff]
      exact ⟨foldMax_ge_mem _ _ _ List.mem_cons_self,
        fun x hx => foldMax_ge_mem _ _ _ (List.mem_cons_of_mem _ hx)⟩
    · rw [foldMax_le_iff]
      have hfi : f i ∈ f a :: l.map f := by
        rw [← List.map_cons]; exact List.mem_map_of_mem hmem
      have hall : ∀ x ∈ f a :: l.map f, x ≤ foldMax (f a) (l.map f) := by
        intro x hx
        rcases List.mem_cons.1 hx with rfl | hx
        · exact foldMax_ge_init _ _
        · exact foldMax_ge_mem _ _ _ hx
      exact ⟨hall _ hfi, hall⟩

theorem listMin_closedRow (g : Graph) (f : Nat → Rat) {i : Nat} (hi : i < g.V) :
    listMin ((closedRow g i).map f) = some (eroF g f i) := by
  have hmem : i ∈ closedRow g i := mem_closedRow.2 ⟨hi, Or.inl rfl⟩
  unfold eroF
  cases hrow : closedRow g i with
  | nil => rw [hrow] at hmem; cases hmem
  | cons a l =>
    rw [hrow] at hmem
    simp only [List.map_cons, listMin, Option.some.injEq]
    apply le_antisymm
    · rw [le_foldMin_iff]
      have hfi : f i ∈ f a :: l.map f := by
        rw [← List.map_cons]; exact List.mem_map_of_mem hmem
      have hall : ∀ x ∈ f a :: l.map f, foldMin (f a) (l.map f) ≤ x := by
        intro x hx
        rcases List.mem_cons.1 hx with rfl | hx
        · exact foldMin_le_init _ _
        · exact foldMin_le_mem _ _ _ hx
      exact ⟨hall _ hfi, hall⟩
    · rw [le_foldMin_iff]
      exact ⟨foldMin_le_mem _ _ _ List.mem_cons_self,
        fun x hx => foldMin_le_mem _ _ _ (List.mem_cons_of_mem _ hx)⟩

theorem slowDilateCol_eq (g : Graph) (col : List Rat) :
    slowDilateCol g col = some ((List.range g.V).map (dilF g (at_ col))) :=
  mapM_some _ _ _ (fun _ hx => listMax_closedRow g _ (List.mem_range.1 hx))

theorem erodeCol_eq (g : Graph) (col : List Rat) :
    erodeCol g col = some ((List.range g.V).map (eroF g (at_ col))) :=
  mapM_some _ _ _ (fun _ hx => listMin_closedRow g _ (List.mem_range.1 hx))

theorem dilF_congr {g : Graph} {f f' : Nat → Rat} (H : ∀ j < g.V, f j = f' j) {i : Nat}
    (hi : i < g.V) : dilF g f i = dilF g f' i := by
  unfold dilF
  rw [H i hi]
  congr 1
  exact List.map_congr_left (fun j hj => H j (mem_closedRow.1 hj).1)

theorem eroF_congr {g : Graph} {f f' : Nat → Rat} (H : ∀ j < g.V, f j = f' j) {i : Nat}
    (hi : i < g.V) : eroF g f i = eroF g f' i := by
  unfold eroF
  rw [H i hi]
  congr 1
  exact List.map_congr_left (fun j hj => H j (mem_closedRow.1 hj).1)

theorem iterate_congr {V : Nat} {op : (Nat → Rat) → Nat → Rat}
    (hop : ∀ f f' : Nat → Rat, (∀ j < V, f j = f' j) → ∀ i < V, op f i = op f' i)
    (n : Nat) (f f' : Nat → Rat) (H : ∀ j < V, f j = f' j) : ∀ i < V, op^[n] f i = op^[n] f' i := by
  induction n generalizing f f' with
  | zero => exact H
  | succ n ih =>
    intro i hi
    rw [Function.iterate_succ_apply, Function.iterate_succ_apply]
    exact ih _ _ (hop f f' H) i hi

theorem iterOpt_eq {V : Nat} (step : List Rat → Option (List Rat)) (op : (Nat → Rat) → Nat → Rat)
    (hstep : ∀ col, step col = some ((List.range V).map (op (at_ col))))
    (hop : ∀ f f' : Nat → Rat, (∀ j < V, f j = f' j) → ∀ i < V, op f i = op f' i)
    (n : Nat) (col : List Rat) (hl : col.length = V) :
    iterOpt step n col = some ((List.range V).map (op^[n] (at_ col))) := by
  induction n generalizing col with
  | zero => simp [iterOpt, map_at_range hl]
  | succ n ih =>
    rw [iterOpt, hstep col, Option.bind_some, ih _ (by simp)]
    congr 1
    apply List.map_congr_left
    intro i hi
    rw [Function.iterate_succ_apply]
    exact iterate_congr hop n _ _ (fun j hj => at_map_range _ hj) i (List.mem_range.1 hi)

theorem slowDilate_eq (g : Graph) (n : Nat) (col : List Rat) (hl : col.length = g.V) :
    slowDilate g n col = some ((List.range g.V).map ((dilF g)^[n] (at_ col))) :=
  iterOpt_eq _ _ (slowDilateCol_eq g) (fun _ _ H _ hi => dilF_congr H hi) n col hl

theorem erode_eq (g : Graph) (n : Nat) (col : List Rat) (hl : col.length = g.V) :
    erode g n col = some ((List.range g.V).map ((eroF g)^[n] (at_ col))) :=
  iterOpt_eq _ _ (erodeCol_eq g) (fun _ _ H _ hi => eroF_congr H hi) n col hl

/-! ### forests -/

/-- characterisation of the inner loop of `Forest.check` -/
theorem walk_true_iff (V : Nat) (p : Nat → Nat) (v : Nat) (fuel w q : Nat) (hq : q ≤ V) :
    walk V p v fuel w q = true ↔
      ∃ k < fuel, p (p^[k] w) = p^[k] w ∧
        (∀ j < k, p (p^[j] w) ≠ p^[j] w ∧ p^[j + 1] w ≠ v) ∧ q + k ≤ V := by
  induction fuel generalizing w q with
  | zero => simp [walk]
  | succ fuel ih =>
    rw [walk]
    by_cases h1 : p w = w
    · simp only [h1, if_true, true_iff]
      exact ⟨0, Nat.succ_pos _, by simpa using h1, by simp, by simpa using hq⟩
    · simp only [h1, if_false]
      by_cases h2 : p w = v
      · simp only [h2, if_true, Bool.false_eq_true, false_iff]
        rintro ⟨k, _, hk, hj, _⟩
        cases k with
        | zero => exact h1 (by simpa using hk)
        | succ k => exact (hj 0 (Nat.succ_pos _)).2 (by simpa using h2)
      · simp only [h2, if_false]
        by_cases h3 : q + 1 > V
        · simp only [h3, if_true, Bool.false_eq_true, false_iff]
          rintro ⟨k, _, hk, _, hle⟩
          cases k with
          | zero => exact h1 (by simpa using hk)
          | succ k => omega
        · simp only [h3, if_false]
          rw [ih (p w) (q + 1) (by omega)]
          constructor
          · rintro ⟨k, hk, hroot, hj, hle⟩
            refine ⟨k + 1, by omega, by simpa [Function.iterate_succ_apply] using hroot, ?_, by omega⟩
            intro j hjk
            cases j with
            | zero => exact ⟨by simpa using h1, by simpa using h2⟩
            | succ j =>
              have := hj j (by omega)
              simpa [Function.iterate_succ_apply] using this
          · rintro ⟨k, hk, hroot, hj, hle⟩
            cases k with
            | zero => exact absurd (by simpa using hroot) h1
            | succ k =>
              refine ⟨k, by omega, by simpa [Function.iterate_succ_apply] using hroot, ?_, by omega⟩
              intro j hjk
              have := hj (j + 1) (by omega)
              simpa [Function.iterate_succ_apply] using this

/-- a point that returns to itself after `m` steps: iterates only depend on the residue -/
theorem iterate_mod_of_periodic {p : Nat → Nat} {v m : Nat} (hm : p^[m] v = v) (n : Nat) :
    p^[n] v = p^[n % m] v := by
  conv_lhs => rw [← Nat.mod_add_div n m]
  rw [Function.iterate_add_apply, Function.iterate_mul, Function.iterate_fixed hm]

/-! ### the compiled fast path reads the same neighbourhoods -/

theorem countP_lt_succ (l : List Edge) (i : Nat) :
    l.countP (fun e => decide (e.src < i + 1)) =
      l.countP (fun e => decide (e.src < i)) + l.countP (fun e => e.src == i) := by
  induction l with
  | nil => rfl
  | cons e t ih =>
    simp only [List.countP_cons, ih]
    rcases Nat.lt_trichotomy e.src i with h | h | h
    · have a : e.src < i + 1 := by omega
      have b : ¬ e.src = i := by omega
      (simp [h, a, b]) <;> omega
    · have a : e.src < i + 1 := by omega
      have b : ¬ e.src < i := by omega
      (simp [h, a, b]) <;> omega
    · have a : ¬ e.src < i + 1 := by omega
      have b : ¬ e.src < i := by omega
      have c : ¬ e.src = i := by omega
      (simp [a, b, c]) <;> omega

theorem idxAt_eq (g : Graph) (i : Nat) :
    idxAt g i = g.edges.countP (fun e => decide (e.src < i)) := by
  induction i with
  | zero => simp [idxAt]
  | succ i ih =>
    rw [idxAt, ih, countP_lt_succ, degree]
    simp [List.countP_eq_length_filter]

/-- slice of a list sorted by source: positions `[#(src<i), #(src<i) + #(src=i))` hold exactly
    the entries with source `i` -/
theorem slice_sorted (s : List Edge) (i : Nat) (hs : s.Pairwise (fun a b => a.src ≤ b.src)) :
    (s.drop (s.countP (fun e => decide (e.src < i)))).take (s.countP (fun e => e.src == i)) =
      s.filter (fun e => e.src == i) := by
  induction s with
  | nil => rfl
  | cons e t ih =>
    obtain ⟨he, ht⟩ := List.pairwise_cons.1 hs
    have ih := ih ht
    rcases Nat.lt_trichotomy e.src i with h | h | h
    · have h2 : ¬ e.src = i := by omega
      simp [List.countP_cons, List.filter_cons, h, h2, ih]
    · have hz : t.countP (fun e => decide (e.src < i)) = 0 := by
        rw [List.countP_eq_zero]; intro b hb; have := he b hb; simp; omega
      rw [hz] at ih
      simp only [List.drop_zero] at ih
      simp [List.countP_cons, List.filter_cons, h, hz, List.take_succ_cons, ih]
    · have hz : t.countP (fun e => decide (e.src < i)) = 0 := by
        rw [List.countP_eq_zero]; intro b hb; have := he b hb; simp; omega
      have hz2 : t.countP (fun e => e.src == i) = 0 := by
        rw [List.countP_eq_zero]; intro b hb; have := he b hb; simp; omega
      have h1 : ¬ e.src < i := by omega
      have h2 : ¬ e.src = i := by omega
      have hf : t.filter (fun e => e.src == i) = [] := by
        rw [List.filter_eq_nil_iff]; intro b hb; have := he b hb; simp; omega
      simp [List.countP_cons, List.filter_cons, h1, h2, hz, hz2, hf]

theorem sortedEdges_perm (g : Graph) : (sortedEdges g).Perm g.edges := List.mergeSort_perm _ _

theorem sortedEdges_pairwise (g : Graph) (hv : g.Valid) :
    (sortedEdges g).Pairwise (fun a b => a.src ≤ b.src) := by
  have hp : (sortedEdges g).Pairwise (fun a b => decide (ekey g.V a ≤ ekey g.V b) = true) :=
    List.pairwise_mergeSort (le := fun a b => decide (ekey g.V a ≤ ekey g.V b))
      (by intro a b c; simp only [decide_eq_true_eq]; omega)
      (by intro a b; simp only [Bool.or_eq_true, decide_eq_true_eq]; omega) g.edges
  refine hp.imp_of_mem ?_
  intro a b _ hb hab
  have hbv := (hv b ((sortedEdges_perm g).mem_iff.1 hb)).2
  have hab := of_decide_eq_true hab
  simp only [ekey] at hab
  by_contra hlt
  have h1 : (b.src + 1) * g.V ≤ a.src * g.V := Nat.mul_le_mul_right _ (by omega)
  rw [Nat.add_mul, Nat.one_mul] at h1
  omega

theorem fastRow_eq (g : Graph) (hv : g.Valid) (i : Nat) :
    fastRow g i = ((sortedEdges g).filter (fun e => e.src == i)).map (·.dst) := by
  have hperm := sortedEdges_perm g
  unfold fastRow neighb
  rw [idxAt, idxAt_eq, degree, ← List.countP_eq_length_filter, Nat.add_sub_cancel_left,
    ← hperm.countP_eq, ← hperm.countP_eq, ← List.map_drop, ← List.map_take,
    slice_sorted _ i (sortedEdges_pairwise g hv)]

theorem mem_fastRow (g : Graph) (hv : g.Valid) (i j : Nat) : j ∈ fastRow g i ↔ g.adj i j = true := by
  rw [fastRow_eq g hv]
  simp only [List.mem_map, List.mem_filter, (sortedEdges_perm g).mem_iff, Graph.adj, List.any_eq_true,
    Bool.and_eq_true, beq_iff_eq]
  constructor
  · rintro ⟨e, ⟨he, h1⟩, h2⟩; exact ⟨e, he, h1, h2⟩
  · rintro ⟨e, he, h1, h2⟩; exact ⟨e, ⟨he, h1⟩, h2⟩

/-- one pass of the compiled kernel is the closed-neighbourhood maximum -/
theorem fastDilateCol_eq (g : Graph) (hv : g.Valid) (col : List Rat) :
    fastDilateCol g col = (List.range g.V).map (dilF g (at_ col)) := by
  unfold fastDilateCol
  apply List.map_congr_left
  intro i hi
  have hi := List.mem_range.1 hi
  unfold dilF
  apply le_antisymm
  · rw [foldMax_le_iff]
    refine ⟨foldMax_ge_init _ _, ?_⟩
    intro x hx
    obtain ⟨j, hj, rfl⟩ := List.mem_map.1 hx
    have hadj := (mem_fastRow g hv i j).1 hj
    exact foldMax_ge_mem _ _ _
      (List.mem_map_of_mem (mem_closedRow.2 ⟨(adj_lt hv hadj).2, Or.inr hadj⟩))
  · rw [foldMax_le_iff]
    refine ⟨foldMax_ge_init _ _, ?_⟩
    intro x hx
    obtain ⟨j, hj, rfl⟩ := List.mem_map.1 hx
    rcases (mem_closedRow.1 hj).2 with rfl | hadj
    · exact foldMax_ge_init _ _
    · exact foldMax_ge_mem _ _ _ (List.mem_map_of_mem ((mem_fastRow g hv i j).2 hadj))

theorem iterate_list_eq {V : Nat} (step : List Rat → List Rat) (op : (Nat → Rat) → Nat → Rat)
    (hstep : ∀ col, step col = (List.range V).map (op (at_ col)))
    (hop : ∀ f f' : Nat → Rat, (∀ j < V, f j = f' j) → ∀ i < V, op f i = op f' i)
    (n : Nat) (col : List Rat) (hl : col.length = V) :
    step^[n] col = (List.range V).map (op^[n] (at_ col)) := by
  induction n generalizing col with
  | zero => simp [map_at_range hl]
  | succ n ih =>
    rw [Function.iterate_succ_apply, hstep col, ih _ (by simp)]
    apply List.map_congr_left
    intro i hi
    rw [Function.iterate_succ_apply]
    exact iterate_congr hop n _ _ (fun j hj => at_map_range _ hj) i (List.mem_range.1 hi)

/-- with no edge at all the closed-neighbourhood maximum is the identity (the fast path
    then skips the kernel) -/
theorem dilF_no_edges (g : Graph) (he : g.edges = []) (n : Nat) (f : Nat → Rat) :
    ∀ i < g.V, (dilF g)^[n] f i = f i := by
  have h1 : ∀ (f : Nat → Rat), ∀ i < g.V, dilF g f i = f i := by
    intro f i hi
    apply le_antisymm
    · rw [dilF_le_iff]
      refine ⟨le_refl _, fun j hj => ?_⟩
      rcases (mem_closedRow.1 hj).2 with rfl | hadj
      · exact le_refl _
      · simp [Graph.adj, he] at hadj
    · exact foldMax_ge_init _ _
  induction n generalizing f with
  | zero => intro i _; rfl
  | succ n ih =>
    intro i hi
    have hc := iterate_congr (V := g.V) (op := dilF g) (fun _ _ H _ hi => dilF_congr H hi) n
      (dilF g f) f (h1 f) i hi
    rw [Function.iterate_succ_apply, hc]
    exact ih f i hi

theorem fastDilate_eq (g : Graph) (hv : g.Valid) (n : Nat) (col : List Rat) (hl : col.length = g.V) :
    fastDilate g n col = (List.range g.V).map ((dilF g)^[n] (at_ col)) := by
  unfold fastDilate
  split
  · rename_i he
    have he : g.edges = [] := by simpa using he
    rw [← map_at_range hl]
    apply List.map_congr_left
    intro i hi
    rw [map_at_range hl]
    exact (dilF_no_edges g he n (at_ col) i (List.mem_range.1 hi)).symm
  · rw [iter_eq_iterate]
    exact iterate_list_eq _ _ (fastDilateCol_eq g hv) (fun _ _ H _ hi => dilF_congr H hi) n col hl

/-! ### depth from leaves -/

theorem sweepStep_ge (p : Nat → Nat) (d : Nat → Int) (i j : Nat) : d j ≤ sweepStep p d i j := by
  unfold sweepStep upd
  split
  · show d j ≤ if j = p i then max (d i + 1) (d (p i)) else d j
    split
    · rename_i h; subst h; exact le_max_right _ _
    · exact le_refl _
  · exact le_refl _

theorem foldl_sweepStep_ge (p : Nat → Nat) (l : List Nat) (d : Nat → Int) (j : Nat) :
    d j ≤ (l.foldl (sweepStep p) d) j := by
  induction l generalizing d with
  | nil => exact le_refl _
  | cons a t ih => exact le_trans (sweepStep_ge p d a j) (ih _)

/-- a sweep that changes nothing consists of steps that change nothing -/
theorem foldl_sweepStep_fixed (p : Nat → Nat) (l : List Nat) (d : Nat → Int)
    (h : l.foldl (sweepStep p) d = d) : ∀ i ∈ l, sweepStep p d i = d := by
  induction l with
  | nil => intro i hi; cases hi
  | cons a t ih =>
    have hstep : sweepStep p d a = d := by
      funext j
      apply le_antisymm
      · have := foldl_sweepStep_ge p t (sweepStep p d a) j
        rw [List.foldl_cons] at h
        rw [h] at this; exact this
      · exact sweepStep_ge p d a j
    intro i hi
    rcases List.mem_cons.1 hi with rfl | hi
    · exact hstep
    · rw [List.foldl_cons, hstep] at h
      exact ih h i hi

/-- the sweep only writes at parents, hence inside `0..V-1` when parents are in range -/
theorem foldl_sweepStep_outside (V : Nat) (p : Nat → Nat) (hr : ∀ v < V, p v < V) (l : List Nat)
    (hl : ∀ i ∈ l, i < V) (d : Nat → Int) (j : Nat) (hj : V ≤ j) :
    (l.foldl (sweepStep p) d) j = d j := by
  induction l generalizing d with
  | nil => rfl
  | cons a t ih =>
    rw [List.foldl_cons, ih (fun i hi => hl i (List.mem_cons_of_mem _ hi))]
    unfold sweepStep upd
    have := hr a (hl a List.mem_cons_self)
    split
    · show (if j = p a then max (d a + 1) (d (p a)) else d j) = d j
      split
      · omega
      · rfl
    · rfl

/-! ### reordering -/

theorem inverseOrder_prefix (order : Nat → Nat) (n : Nat)
    (hinj : ∀ i < n, ∀ j < n, order i = order j → i = j) :
    ∀ i < n, (List.range n).foldl (fun io i => upd io (order i) i) id (order i) = i := by
  induction n with
  | zero => intro i hi; omega
  | succ n ih =>
    intro i hi
    rw [List.range_succ, List.foldl_append]
    simp only [List.foldl_cons, List.foldl_nil, upd]
    by_cases h : order i = order n
    · rw [if_pos h]; exact (hinj i hi n (by omega) h).symm
    · rw [if_neg h]
      have hin : i < n := by
        rcases Nat.lt_succ_iff_lt_or_eq.1 hi with h' | h'
        · exact h'
        · subst h'; exact absurd rfl h
      exact ih (fun a ha b hb => hinj a (by omega) b (by omega)) i hin

/-! ### highest neighbour -/

theorem argmax_fold_spec (f : Nat → Rat) (r : List Nat) (j : Nat) :
    let b := r.foldl (fun b x => if f x > f b then x else b) j
    b ∈ j :: r ∧ f j ≤ f b ∧ ∀ x ∈ r, f x ≤ f b := by
  induction r generalizing j with
  | nil => simp
  | cons a t ih =>
    simp only [List.foldl_cons]
    by_cases h : f a > f j
    · simp only [h, if_true]
      obtain ⟨h1, h2, h3⟩ := ih a
      refine ⟨List.mem_cons_of_mem _ h1, le_trans (le_of_lt h) h2, ?_⟩
      intro x hx
      rcases List.mem_cons.1 hx with rfl | hx
      · exact h2
      · exact h3 x hx
    · simp only [h, if_false]
      obtain ⟨h1, h2, h3⟩ := ih j
      refine ⟨?_, h2, ?_⟩
      · rcases List.mem_cons.1 h1 with h1 | h1
        · rw [h1]; exact List.mem_cons_self
        · exact List.mem_cons_of_mem _ (List.mem_cons_of_mem _ h1)
      · intro x hx
        rcases List.mem_cons.1 hx with rfl | hx
        · exact le_trans (not_lt.1 h) h2
        · exact h3 x hx

end NipyVerif.C12
