/-
Helper lemmas for C12: running max/min are the greatest/least element,
sparse rows, iterates.
-/
import NipyVerif.Model.C12
import Mathlib.Algebra.Order.Ring.Unbundled.Rat
import Mathlib.Order.GaloisConnection.Basic
import Mathlib.Logic.Function.Iterate
import Mathlib.Tactic.Linarith

namespace NipyVerif.C12

theorem iter_eq_iterate {α} (f : α → α) (n : Nat) (a : α) : iter f n a = f^[n] a := by
  induction n generalizing a with
  | zero => rfl
  | succ n ih => rw [iter, ih]; rfl

/-! ### running maximum / minimum -/

theorem foldMax_ge_init (a : Rat) (l : List Rat) : a ≤ foldMax a l := by
  induction l generalizing a with
  | nil => simp [foldMax]
  | cons x t ih =>
    simp only [foldMax, List.foldl_cons] at ih ⊢
    split
    · exact le_trans (le_of_lt ‹_›) (ih x)
    · exact ih a

theorem foldMax_ge_mem (a : Rat) (l : List Rat) : ∀ x ∈ l, x ≤ foldMax a l := by
  induction l generalizing a with
  | nil => simp
  | cons y t ih =>
    intro x hx
    simp only [foldMax, List.foldl_cons]
    rcases List.mem_cons.1 hx with rfl | hx
    · split
      · exact foldMax_ge_init x t
      · exact le_trans (not_lt.1 ‹_›) (foldMax_ge_init a t)
    · exact ih _ x hx

theorem foldMax_mem (a : Rat) (l : List Rat) : foldMax a l = a ∨ foldMax a l ∈ l := by
  induction l generalizing a with
  | nil => simp [foldMax]
  | cons y t ih =>
    simp only [foldMax, List.foldl_cons]
    split
    · rcases ih y with h | h
      · right; simp only [foldMax] at h; rw [h]; exact List.mem_cons_self
      · right; exact List.mem_cons_of_mem _ h
    · rcases ih a with h | h
      · left; exact h
      · right; exact List.mem_cons_of_mem _ h

/-- `foldMax a l ≤ b` iff every element of `a :: l` is `≤ b` -/
theorem foldMax_le_iff (a : Rat) (l : List Rat) (b : Rat) :
    foldMax a l ≤ b ↔ a ≤ b ∧ ∀ x ∈ l, x ≤ b := by
  constructor
  · intro h
    exact ⟨le_trans (foldMax_ge_init a l) h, fun x hx => le_trans (foldMax_ge_mem a l x hx) h⟩
  · rintro ⟨ha, hl⟩
    rcases foldMax_mem a l with h | h
    · rw [h]; exact ha
    · exact hl _ h

theorem foldMin_le_init (a : Rat) (l : List Rat) : foldMin a l ≤ a := by
  induction l generalizing a with
  | nil => simp [foldMin]
  | cons x t ih =>
    simp only [foldMin, List.foldl_cons] at ih ⊢
    split
    · exact le_trans (ih x) (le_of_lt ‹_›)
    · exact ih a

theorem foldMin_le_mem (a : Rat) (l : List Rat) : ∀ x ∈ l, foldMin a l ≤ x := by
  induction l generalizing a with
  | nil => simp
  | cons y t ih =>
    intro x hx
    simp only [foldMin, List.foldl_cons]
    rcases List.mem_cons.1 hx with rfl | hx
    · split
      · exact foldMin_le_init x t
      · exact le_trans (foldMin_le_init a t) (not_lt.1 ‹_›)
    · exact ih _ x hx

theorem foldMin_mem (a : Rat) (l : List Rat) : foldMin a l = a ∨ foldMin a l ∈ l := by
  induction l generalizing a with
  | nil => simp [foldMin]
  | cons y t ih =>
    simp only [foldMin, List.foldl_cons]
    split
    · rcases ih y with h | h
      · right; simp only [foldMin] at h; rw [h]; exact List.mem_cons_self
      · right; exact List.mem_cons_of_mem _ h
    · rcases ih a with h | h
      · left; exact h
      · right; exact List.mem_cons_of_mem _ h

theorem le_foldMin_iff (a : Rat) (l : List Rat) (b : Rat) :
    b ≤ foldMin a l ↔ b ≤ a ∧ ∀ x ∈ l, b ≤ x := by
  constructor
  · intro h
    exact ⟨le_trans h (foldMin_le_init a l), fun x hx => le_trans h (foldMin_le_mem a l x hx)⟩
  · rintro ⟨ha, hl⟩
    rcases foldMin_mem a l with h | h
    · rw [h]; exact ha
    · exact hl _ h

end NipyVerif.C12
