/- Helper lemmas for C02: Python slice arithmetic, index maps of slicing and of axis
   permutation, the voxel → world map under both. -/
import NipyVerif.Model.C02B
import Mathlib.Tactic.Ring
import Mathlib.Tactic.Linarith
import Mathlib.Tactic.Push
import Mathlib.Data.List.Perm.Subperm
import Mathlib.Data.List.Nodup
import Mathlib.Data.List.Range
import Mathlib.Algebra.BigOperators.Group.List.Basic
import Mathlib.Algebra.Order.Field.Rat
import Mathlib.Data.Rat.Cast.Defs

namespace NipyVerif.C02

variable {α : Type}

/-- `j` is an index of an array of shape `shape` -/
def ValidIdx (shape j : List Nat) : Prop := List.Forall₂ (fun i n => i < n) j shape

/-- one axis selection only reads positions `0 ≤ · < n`, and a progression with more than
    one element has a non-zero step -/
def AxSel.Valid (n : Nat) : AxSel → Prop
  | .pick i => i < n
  | .range s st l =>
      (∀ k : Nat, k < l → 0 ≤ (s : Int) + (k : Int) * st ∧ (s : Int) + (k : Int) * st < (n : Int))
      ∧ (1 < l → st ≠ 0)

/-! ## slice arithmetic -/

theorem sliceLen_pos_iff (s e step : Int) (hs : 0 < step) (k : Nat) :
    k < sliceLen s e step ↔ s + (k : Int) * step < e := by
  unfold sliceLen
  simp only [hs, if_true]
  by_cases hse : s < e
  · simp only [hse, if_true]
    have h0 : 0 ≤ (e - s - 1) / step := Int.ediv_nonneg (by omega) (le_of_lt hs)
    have key : (k : Int) ≤ (e - s - 1) / step ↔ (k : Int) * step ≤ e - s - 1 :=
      Int.le_ediv_iff_mul_le hs
    constructor
    · intro h
      have : (k : Int) ≤ (e - s - 1) / step := by omega
      have := key.mp this
      omega
    · intro h
      have : (k : Int) ≤ (e - s - 1) / step := key.mpr (by omega)
      omega
  · simp only [hse, if_false]
    have : 0 ≤ (k : Int) * step := Int.mul_nonneg (Int.natCast_nonneg k) (le_of_lt hs)
    constructor
    · intro h; omega
    · intro h; omega

theorem sliceLen_neg_iff (s e step : Int) (hs : step < 0) (k : Nat) :
    k < sliceLen s e step ↔ e < s + (k : Int) * step := by
  unfold sliceLen
  have hn : ¬ (0 < step) := by omega
  simp only [hn, if_false, hs, if_true]
  have hs' : 0 < -step := by omega
  by_cases hse : e < s
  · simp only [hse, if_true]
    have h0 : 0 ≤ (s - e - 1) / (-step) := Int.ediv_nonneg (by omega) (le_of_lt hs')
    have key : (k : Int) ≤ (s - e - 1) / (-step) ↔ (k : Int) * (-step) ≤ s - e - 1 :=
      Int.le_ediv_iff_mul_le hs'
    have hm : (k : Int) * (-step) = -((k : Int) * step) := by ring
    constructor
    · intro h
      have : (k : Int) ≤ (s - e - 1) / (-step) := by omega
      have := key.mp this
      omega
    · intro h
      have : (k : Int) ≤ (s - e - 1) / (-step) := key.mpr (by omega)
      omega
  · simp only [hse, if_false]
    have : 0 ≤ (k : Int) * (-step) := Int.mul_nonneg (Int.natCast_nonneg k) (le_of_lt hs')
    have hm : (k : Int) * (-step) = -((k : Int) * step) := by ring
    constructor
    · intro h; omega
    · intro h; omega

theorem adjust_bounds_pos (n : Nat) (a b : Option Int) (step : Int) (hs : 0 < step) :
    0 ≤ (adjust n a b step).1 ∧ (adjust n a b step).2 ≤ (n : Int) := by
  have hn : ¬ step < 0 := by omega
  unfold adjust
  simp only [hn, if_false]
  constructor
  · cases a with
    | none => simp
    | some v => simp only; split_ifs <;> omega
  · cases b with
    | none => simp
    | some v => simp only; split_ifs <;> omega

theorem adjust_bounds_neg (n : Nat) (a b : Option Int) (step : Int) (hs : step < 0) :
    (adjust n a b step).1 ≤ (n : Int) - 1 ∧ -1 ≤ (adjust n a b step).2 := by
  unfold adjust
  simp only [hs, if_true]
  constructor
  · cases a with
    | none => simp
    | some v => simp only; split_ifs <;> omega
  · cases b with
    | none => simp
    | some v => simp only; split_ifs <;> omega

theorem normAxis_valid (n : Nat) (sl : Slicer) (a : AxSel) (h : normAxis n sl = .ok a) :
    a.Valid n := by
  cases sl with
  | idx i =>
      simp only [normAxis] at h
      split_ifs at h with h1 h2
      · cases h; simp only [AxSel.Valid]; omega
      · cases h; simp only [AxSel.Valid]; omega
  | ell => simp [normAxis] at h
  | slc a0 b0 c0 =>
      simp only [normAxis] at h
      split_ifs at h with h0
      cases h
      simp only [AxSel.Valid]
      set step := c0.getD 1 with hstep
      rcases lt_or_gt_of_ne h0 with hneg | hpos
      · obtain ⟨hb1, hb2⟩ := adjust_bounds_neg n a0 b0 step hneg
        refine ⟨?_, fun _ => h0⟩
        intro k hk
        have hk' := (sliceLen_neg_iff _ _ step hneg k).mp hk
        have hpos0 : 0 < sliceLen (adjust n a0 b0 step).1 (adjust n a0 b0 step).2 step := by omega
        have hk0 := (sliceLen_neg_iff _ _ step hneg 0).mp hpos0
        have hz : ((0 : Nat) : Int) * step = 0 := by simp
        rw [hz] at hk0
        have hmul : (k : Int) * step ≤ 0 :=
          Int.mul_nonpos_of_nonneg_of_nonpos (Int.natCast_nonneg k) (le_of_lt hneg)
        have hcast : (((adjust n a0 b0 step).1.toNat : Nat) : Int) = (adjust n a0 b0 step).1 :=
          Int.toNat_of_nonneg (by omega)
        rw [hcast]; omega
      · obtain ⟨hb1, hb2⟩ := adjust_bounds_pos n a0 b0 step hpos
        refine ⟨?_, fun _ => h0⟩
        intro k hk
        have hk' := (sliceLen_pos_iff _ _ step hpos k).mp hk
        have hmul : 0 ≤ (k : Int) * step := Int.mul_nonneg (Int.natCast_nonneg k) (le_of_lt hpos)
        have hcast : (((adjust n a0 b0 step).1.toNat : Nat) : Int) = (adjust n a0 b0 step).1 :=
          Int.toNat_of_nonneg hb1
        rw [hcast]; omega

theorem normAll_valid : ∀ (shape : List Nat) (ex : List Slicer) (sels : List AxSel),
    ex.length = shape.length → normAll shape ex = .ok sels →
    List.Forall₂ (fun n a => AxSel.Valid n a) shape sels
  | [], [], sels, _, h => by simp [normAll] at h; subst h; exact List.Forall₂.nil
  | [], _ :: _, _, hl, _ => by simp at hl
  | _ :: _, [], _, hl, _ => by simp at hl
  | n :: ns, s :: ss, sels, hl, h => by
      simp only [normAll] at h
      cases h1 : normAxis n s with
      | error e => simp [h1] at h
      | ok a =>
        cases h2 : normAll ns ss with
        | error e => simp [h1, h2] at h
        | ok as =>
          simp only [h1, h2] at h
          cases h
          exact List.Forall₂.cons (normAxis_valid n s a h1)
            (normAll_valid ns ss as (by simpa using hl) h2)

theorem expand_length (n : Nat) (sl ex : List Slicer) (h : expand n sl = .ok ex) :
    ex.length = n := by
  unfold expand at h
  rcases hsp : splitEll sl with ⟨pre, _ | post⟩
  · simp only [hsp] at h
    split_ifs at h with h1
    cases h
    simp; omega
  · simp only [hsp] at h
    split_ifs at h with h1 h2
    cases h
    simp; omega

/-! ## slicing: index map, world map -/

theorem validIdx_nil : ValidIdx [] [] := List.Forall₂.nil

theorem validIdx_cons {i n : Nat} {j shape : List Nat} :
    ValidIdx (n :: shape) (i :: j) ↔ i < n ∧ ValidIdx shape j := by
  unfold ValidIdx; exact List.forall₂_cons

theorem cast_toNat_affine (s : Nat) (st : Int) (l jk : Nat)
    (hv : AxSel.Valid n (.range s st l)) (hj : jk < l) :
    ((((s : Int) + (jk : Int) * st).toNat : Nat) : Rat) = (s : Rat) + (jk : Rat) * (effStep st l : Rat) := by
  obtain ⟨hr, _⟩ := hv
  have h0 := (hr jk hj).1
  have : ((((s : Int) + (jk : Int) * st).toNat : Nat) : Int) = (s : Int) + (jk : Int) * st :=
    Int.toNat_of_nonneg h0
  have h2 : ((((s : Int) + (jk : Int) * st).toNat : Nat) : Rat)
      = (((((s : Int) + (jk : Int) * st).toNat : Nat) : Int) : Rat) := (Int.cast_natCast _).symm
  rw [h2, this]
  push_cast
  unfold effStep
  by_cases hl : l > 1
  · simp [hl]
  · have : jk = 0 := by omega
    subst this; simp [hl]

theorem lin_sel : ∀ (shape : List Nat) (sels : List AxSel) (cols : List Vec) (j : List Nat) (r : Nat),
    List.Forall₂ (fun n a => AxSel.Valid n a) shape sels → ValidIdx (selShape sels) j →
    lin cols (selIdx sels j) r = selOff sels cols r + lin (selCols sels cols) j r
  | _, [], cols, j, r, _, _ => by
      cases cols <;> simp [selIdx, selOff, selCols, lin]
  | _, a :: ss, [], j, r, _, _ => by
      cases a <;> simp [selOff, selCols, lin]
  | [], _ :: _, _ :: _, _, _, hv, _ => by cases hv
  | n :: ns, .pick i :: ss, c :: cs, j, r, hv, hj => by
      cases hv with
      | cons h1 h2 =>
        have ih := lin_sel ns ss cs j r h2 (by simpa [selShape] using hj)
        simp only [selIdx, lin, selOff, selCols, AxSel.start, ih]
        ring
  | n :: ns, .range s st l :: ss, c :: cs, [], r, hv, hj => by
      simp [selShape, ValidIdx] at hj
  | n :: ns, .range s st l :: ss, c :: cs, jk :: j, r, hv, hj => by
      cases hv with
      | cons h1 h2 =>
        simp only [selShape] at hj
        obtain ⟨hjk, hj'⟩ := validIdx_cons.mp hj
        have ih := lin_sel ns ss cs j r h2 hj'
        simp only [selIdx, lin, selOff, selCols, AxSel.start, ih]
        rw [cast_toNat_affine (n := n) s st l jk h1 hjk]
        ring

theorem selIdx_valid : ∀ (shape : List Nat) (sels : List AxSel) (j : List Nat),
    List.Forall₂ (fun n a => AxSel.Valid n a) shape sels → ValidIdx (selShape sels) j →
    ValidIdx shape (selIdx sels j)
  | [], [], j, _, hj => by
      simp only [selShape] at hj
      cases hj; exact validIdx_nil
  | [], _ :: _, _, hv, _ => by cases hv
  | _ :: _, [], _, hv, _ => by cases hv
  | n :: ns, .pick i :: ss, j, hv, hj => by
      cases hv with
      | cons h1 h2 =>
        simp only [selIdx]
        exact validIdx_cons.mpr ⟨h1, selIdx_valid ns ss j h2 (by simpa [selShape] using hj)⟩
  | n :: ns, .range s st l :: ss, [], hv, hj => by
      simp [selShape, ValidIdx] at hj
  | n :: ns, .range s st l :: ss, jk :: j, hv, hj => by
      cases hv with
      | cons h1 h2 =>
        simp only [selShape] at hj
        obtain ⟨hjk, hj'⟩ := validIdx_cons.mp hj
        simp only [selIdx]
        refine validIdx_cons.mpr ⟨?_, selIdx_valid ns ss j h2 hj'⟩
        obtain ⟨hr, _⟩ := h1
        have := hr jk hjk
        omega

theorem selIdx_inj : ∀ (shape : List Nat) (sels : List AxSel) (j j' : List Nat),
    List.Forall₂ (fun n a => AxSel.Valid n a) shape sels →
    ValidIdx (selShape sels) j → ValidIdx (selShape sels) j' →
    selIdx sels j = selIdx sels j' → j = j'
  | [], [], j, j', _, hj, hj', _ => by
      simp only [selShape] at hj hj'
      cases hj; cases hj'; rfl
  | [], _ :: _, _, _, hv, _, _, _ => by cases hv
  | _ :: _, [], _, _, hv, _, _, _ => by cases hv
  | n :: ns, .pick i :: ss, j, j', hv, hj, hj', he => by
      cases hv with
      | cons h1 h2 =>
        simp only [selIdx, List.cons.injEq, true_and] at he
        exact selIdx_inj ns ss j j' h2 (by simpa [selShape] using hj) (by simpa [selShape] using hj') he
  | n :: ns, .range s st l :: ss, [], _, hv, hj, _, _ => by
      simp [selShape, ValidIdx] at hj
  | n :: ns, .range s st l :: ss, _ :: _, [], hv, _, hj', _ => by
      simp [selShape, ValidIdx] at hj'
  | n :: ns, .range s st l :: ss, jk :: j, jk' :: j', hv, hj, hj', he => by
      cases hv with
      | cons h1 h2 =>
        simp only [selShape] at hj hj'
        obtain ⟨hjk, hjt⟩ := validIdx_cons.mp hj
        obtain ⟨hjk', hjt'⟩ := validIdx_cons.mp hj'
        simp only [selIdx, List.cons.injEq] at he
        obtain ⟨he1, he2⟩ := he
        have ht := selIdx_inj ns ss j j' h2 hjt hjt' he2
        obtain ⟨hr, hst⟩ := h1
        have e1 := Int.toNat_of_nonneg (hr jk hjk).1
        have e2 := Int.toNat_of_nonneg (hr jk' hjk').1
        have heq : (s : Int) + (jk : Int) * st = (s : Int) + (jk' : Int) * st := by
          rw [← e1, ← e2, he1]
        have hmul : ((jk : Int) - (jk' : Int)) * st = 0 := by linarith
        have : jk = jk' := by
          by_cases hl : 1 < l
          · have hst' := hst hl
            rcases Int.mul_eq_zero.mp hmul with h | h
            · omega
            · exact absurd h hst'
          · omega
        subst this; rw [ht]

theorem selShape_names_length : ∀ (sels : List AxSel) (names : List String),
    names.length = sels.length → (keepNames sels (selNames sels names)).length = (selShape sels).length
  | [], names, _ => by cases names <;> simp [keepNames, selShape]
  | _ :: _, [], h => by simp at h
  | .pick i :: ss, nm :: ns, h => by
      simp only [selNames, keepNames, selShape]
      exact selShape_names_length ss ns (by simpa using h)
  | .range s st l :: ss, nm :: ns, h => by
      simp only [selNames, keepNames, selShape, List.length_cons]
      rw [selShape_names_length ss ns (by simpa using h)]

theorem selCols_length : ∀ (sels : List AxSel) (cols : List Vec),
    cols.length = sels.length → (selCols sels cols).length = (selShape sels).length
  | [], cols, _ => by cases cols <;> simp [selCols, selShape]
  | _ :: _, [], h => by simp at h
  | .pick i :: ss, c :: cs, h => by
      simp only [selCols, selShape]
      exact selCols_length ss cs (by simpa using h)
  | .range s st l :: ss, c :: cs, h => by
      simp only [selCols, selShape, List.length_cons]
      rw [selCols_length ss cs (by simpa using h)]

/-! ## permutations of axes -/

theorem getD_lt {α : Type} (l : List α) (i : Nat) (d : α) (h : i < l.length) : l.getD i d = l[i] := by
  simp [List.getD_eq_getElem?_getD, h]

theorem isPerm_iff (n : Nat) (o : List Nat) :
    isPerm n o = true ↔ o.length = n ∧ o.Nodup ∧ ∀ k ∈ o, k < n := by
  simp [isPerm, and_assoc]

theorem isPerm_perm {n : Nat} {o : List Nat} (h : isPerm n o = true) : o.Perm (List.range n) := by
  obtain ⟨hl, hnd, hlt⟩ := (isPerm_iff n o).mp h
  have hsub : o ⊆ List.range n := fun k hk => List.mem_range.mpr (hlt k hk)
  exact (List.subperm_of_subset hnd hsub).perm_of_length_le (by simp [hl])

theorem isPerm_mem {n : Nat} {o : List Nat} (h : isPerm n o = true) {k : Nat} (hk : k < n) : k ∈ o :=
  ((isPerm_perm h).mem_iff).mpr (List.mem_range.mpr hk)

theorem isPerm_idxOf_lt {n : Nat} {o : List Nat} (h : isPerm n o = true) {k : Nat} (hk : k < n) :
    o.idxOf k < n := by
  have hl := ((isPerm_iff n o).mp h).1
  have := List.idxOf_lt_length_of_mem (isPerm_mem h hk)
  omega

theorem isPerm_getD_idxOf {n : Nat} {o : List Nat} (h : isPerm n o = true) {k : Nat} (hk : k < n) :
    o.getD (o.idxOf k) 0 = k := by
  have hl := ((isPerm_iff n o).mp h).1
  have hlt : o.idxOf k < o.length := by have := isPerm_idxOf_lt h hk; omega
  rw [getD_lt o _ 0 hlt]
  exact List.getElem_idxOf hlt

theorem isPerm_idxOf_getD {n : Nat} {o : List Nat} (h : isPerm n o = true) {m : Nat} (hm : m < n) :
    o.idxOf (o.getD m 0) = m := by
  obtain ⟨hl, hnd, _⟩ := (isPerm_iff n o).mp h
  have hlt : m < o.length := by omega
  rw [getD_lt o _ 0 hlt]
  exact hnd.idxOf_getElem m hlt

theorem isPerm_getD_lt {n : Nat} {o : List Nat} (h : isPerm n o = true) {m : Nat} (hm : m < n) :
    o.getD m 0 < n := by
  obtain ⟨hl, _, hlt⟩ := (isPerm_iff n o).mp h
  have hm' : m < o.length := by omega
  rw [getD_lt o _ 0 hm']
  exact hlt _ (List.getElem_mem hm')

theorem permute_length {α : Type} (d : α) (o : List Nat) (l : List α) :
    (permute d o l).length = o.length := by simp [permute]

theorem permute_getD {α : Type} (d : α) (o : List Nat) (l : List α) (m : Nat) (hm : m < o.length) :
    (permute d o l).getD m d = l.getD (o.getD m 0) d := by
  simp [permute, List.getD_eq_getElem?_getD, hm]

theorem unperm_length (o j : List Nat) : (unperm o j).length = o.length := by simp [unperm]

theorem unperm_getD (o j : List Nat) (k : Nat) (hk : k < o.length) :
    (unperm o j).getD k 0 = j.getD (o.idxOf k) 0 := by
  simp [unperm, List.getD_eq_getElem?_getD, hk]

theorem map_eq_range_map {β : Type} (o : List Nat) (n : Nat) (hl : o.length = n) (G : Nat → β) :
    o.map G = (List.range n).map (fun m => G (o.getD m 0)) := by
  apply List.ext_getElem
  · simp [hl]
  · intro i h1 h2
    have hi : i < o.length := by simpa using h1
    simp [List.getElem?_eq_getElem hi]

theorem validIdx_iff (shape j : List Nat) :
    ValidIdx shape j ↔ j.length = shape.length ∧ ∀ k, k < shape.length → j.getD k 0 < shape.getD k 0 := by
  unfold ValidIdx
  rw [List.forall₂_iff_get]
  constructor
  · rintro ⟨hl, h⟩
    refine ⟨hl, fun k hk => ?_⟩
    have hk' : k < j.length := by omega
    rw [getD_lt j k 0 hk', getD_lt shape k 0 hk]
    exact h k hk' hk
  · rintro ⟨hl, h⟩
    refine ⟨hl, fun i h1 h2 => ?_⟩
    have := h i h2
    rw [getD_lt j i 0 h1, getD_lt shape i 0 h2] at this
    simpa using this

theorem lin_eq_sum : ∀ (cols : List Vec) (j : List Nat) (r n : Nat), cols.length = n → j.length = n →
    lin cols j r = ((List.range n).map
      (fun k => (j.getD k 0 : Rat) * (cols.getD k (fun _ => 0)) r)).sum
  | [], [], r, n, h1, _ => by subst h1; simp [lin]
  | [], _ :: _, r, n, h1, h2 => by simp at h1 h2; omega
  | _ :: _, [], r, n, h1, h2 => by simp at h1 h2; omega
  | c :: cs, i :: is, r, n, h1, h2 => by
      cases n with
      | zero => simp at h1
      | succ n =>
        have ih := lin_eq_sum cs is r n (by simpa using h1) (by simpa using h2)
        rw [List.range_succ_eq_map]
        simp only [lin, ih, List.map_cons, List.sum_cons, List.map_map]
        congr 1

theorem lin_permute (n : Nat) (o : List Nat) (cols : List Vec) (j : List Nat) (r : Nat)
    (h : isPerm n o = true) (hc : cols.length = n) (hj : j.length = n) :
    lin (permute (fun _ => 0) o cols) j r = lin cols (unperm o j) r := by
  have hl := ((isPerm_iff n o).mp h).1
  rw [lin_eq_sum _ j r n (by rw [permute_length]; exact hl) hj,
      lin_eq_sum cols _ r n hc (by rw [unperm_length]; exact hl)]
  have hperm := isPerm_perm h
  have hR : ∀ G : Nat → Rat, ((List.range n).map G).sum
      = ((List.range n).map (fun m => G (o.getD m 0))).sum := by
    intro G
    rw [← map_eq_range_map o n hl G]
    exact ((hperm.map G).sum_eq).symm
  rw [hR (fun k => ((unperm o j).getD k 0 : Rat) * (cols.getD k (fun _ => 0)) r)]
  congr 1
  apply List.map_congr_left
  intro m hm
  have hm' : m < n := List.mem_range.mp hm
  rw [permute_getD _ o cols m (by omega), unperm_getD o j _ (by rw [hl]; exact isPerm_getD_lt h hm'),
      isPerm_idxOf_getD h hm']

theorem unperm_valid (n : Nat) (o shape j : List Nat) (h : isPerm n o = true) (hs : shape.length = n)
    (hj : ValidIdx (permute 0 o shape) j) : ValidIdx shape (unperm o j) := by
  have hl := ((isPerm_iff n o).mp h).1
  obtain ⟨hjl, hjv⟩ := (validIdx_iff _ _).mp hj
  rw [permute_length] at hjl hjv
  refine (validIdx_iff _ _).mpr ⟨by rw [unperm_length]; omega, fun k hk => ?_⟩
  have hk' : k < n := by omega
  have hi := isPerm_idxOf_lt h hk'
  have := hjv (o.idxOf k) (by omega)
  rw [permute_getD 0 o shape _ (by omega), isPerm_getD_idxOf h hk'] at this
  rw [unperm_getD o j k (by omega)]
  exact this

theorem unperm_inj (n : Nat) (o j j' : List Nat) (h : isPerm n o = true)
    (hj : j.length = n) (hj' : j'.length = n) (he : unperm o j = unperm o j') : j = j' := by
  have hl := ((isPerm_iff n o).mp h).1
  apply List.ext_getElem (by omega)
  intro m h1 h2
  have hm : m < n := by omega
  have hk := isPerm_getD_lt h hm
  have e1 := unperm_getD o j (o.getD m 0) (by omega)
  have e2 := unperm_getD o j' (o.getD m 0) (by omega)
  rw [isPerm_idxOf_getD h hm] at e1 e2
  rw [← getD_lt j m 0 h1, ← getD_lt j' m 0 h2, ← e1, ← e2, he]

theorem lin_reindex (f : Nat → Nat) : ∀ (cols : List Vec) (j : List Nat) (r : Nat),
    lin (cols.map (fun c => fun r => c (f r))) j r = lin cols j (f r)
  | [], j, r => by simp [lin]
  | c :: cs, [], r => by simp [lin]
  | c :: cs, i :: is, r => by simp [lin, lin_reindex f cs is r]

/-! ## "derived from": every value of `h` sits where it sat in `g` -/

/-- the named world coordinates of voxel `idx` -/
def namedWorld (g : ImgOf α) (idx : List Nat) : List (String × Rat) :=
  (List.range g.outNames.length).map (fun r => (g.outNames.getD r "", g.world idx r))

def relName (ρ : String → String) (p : String × Rat) : String × Rat := (ρ p.1, p.2)

/-- shape, axis names and affine columns agree in number -/
def WF (g : ImgOf α) : Prop := g.inNames.length = g.shape.length ∧ g.cols.length = g.shape.length

/-- `h` is derived from `g`: there is an injective map `σ` from the indices of `h` to the
    indices of `g` and a renaming `ρ` of the reference coordinates such that every voxel of `h`
    carries the value and — up to the order in which the named coordinates are listed and up to
    the renaming — the named world coordinates of voxel `σ j` of `g`. -/
def Embeds (g h : ImgOf α) : Prop :=
  ∃ (σ : List Nat → List Nat) (ρ : String → String),
    h.outNames.Perm (g.outNames.map ρ) ∧
    (∀ j, ValidIdx h.shape j →
      ValidIdx g.shape (σ j) ∧ h.data j = g.data (σ j) ∧
      (namedWorld h j).Perm ((namedWorld g (σ j)).map (relName ρ))) ∧
    (∀ j j', ValidIdx h.shape j → ValidIdx h.shape j' → σ j = σ j' → j = j')

theorem relName_id : relName id = id := by funext p; simp [relName]

theorem Embeds.refl (g : ImgOf α) : Embeds g g :=
  ⟨id, id, by simp, fun j hj => ⟨hj, rfl, by simp [relName_id]⟩, fun _ _ _ _ h => h⟩

theorem Embeds.trans {g h k : ImgOf α} (h1 : Embeds g h) (h2 : Embeds h k) : Embeds g k := by
  obtain ⟨σ1, ρ1, n1, v1, i1⟩ := h1
  obtain ⟨σ2, ρ2, n2, v2, i2⟩ := h2
  refine ⟨σ1 ∘ σ2, ρ2 ∘ ρ1, ?_, ?_, ?_⟩
  · have := n1.map ρ2
    rw [List.map_map] at this
    exact n2.trans this
  · intro j hj
    obtain ⟨a2, b2, c2⟩ := v2 j hj
    obtain ⟨a1, b1, c1⟩ := v1 (σ2 j) a2
    refine ⟨a1, by rw [b2, b1]; rfl, ?_⟩
    have := c1.map (relName ρ2)
    rw [List.map_map] at this
    have hcomp : relName ρ2 ∘ relName ρ1 = relName (ρ2 ∘ ρ1) := by funext p; simp [relName]
    rw [hcomp] at this
    exact c2.trans this
  · intro j j' hj hj' he
    have a2 := (v2 j hj).1
    have a2' := (v2 j' hj').1
    exact i2 j j' hj hj' (i1 _ _ a2 a2' he)

/-- index maps that keep reference names and world coordinates -/
theorem Embeds.of_index {g h : ImgOf α} (σ : List Nat → List Nat) (hn : h.outNames = g.outNames)
    (hv : ∀ j, ValidIdx h.shape j →
      ValidIdx g.shape (σ j) ∧ h.data j = g.data (σ j) ∧ ∀ r, h.world j r = g.world (σ j) r)
    (hi : ∀ j j', ValidIdx h.shape j → ValidIdx h.shape j' → σ j = σ j' → j = j') :
    Embeds g h := by
  refine ⟨σ, id, by simp [hn], fun j hj => ?_, hi⟩
  obtain ⟨a, b, c⟩ := hv j hj
  refine ⟨a, b, ?_⟩
  rw [relName_id, List.map_id]
  unfold namedWorld
  rw [hn]
  apply List.Perm.of_eq
  apply List.map_congr_left
  intro r _
  rw [c r]

/-- `h` reads `g` through the index map `σ`: same reference names, and voxel `j` of `h` has the
    value and exactly the world coordinates of voxel `σ j` of `g`; `σ` is injective. -/
def IndexEmbeds (g h : ImgOf α) (σ : List Nat → List Nat) : Prop :=
  h.outNames = g.outNames ∧
  (∀ j, ValidIdx h.shape j →
    ValidIdx g.shape (σ j) ∧ h.data j = g.data (σ j) ∧ ∀ r, h.world j r = g.world (σ j) r) ∧
  (∀ j j', ValidIdx h.shape j → ValidIdx h.shape j' → σ j = σ j' → j = j')

theorem IndexEmbeds.embeds {g h : ImgOf α} {σ : List Nat → List Nat} (hi : IndexEmbeds g h σ) : Embeds g h :=
  Embeds.of_index σ hi.1 hi.2.1 hi.2.2

/-! ### slicing -/

theorem getitem_index (g h : ImgOf α) (sl : List Slicer) (hw : WF g)
    (hres : getitem g sl = .ok (.img h)) :
    (∃ sels, (∃ ex, expand g.shape.length sl = .ok ex ∧ normAll g.shape ex = .ok sels) ∧
      IndexEmbeds g h (selIdx sels)) ∧ WF h := by
  unfold getitem at hres
  cases hE : expand g.shape.length sl with
  | error e => simp [hE] at hres
  | ok ex =>
    cases hN : normAll g.shape ex with
    | error e => simp [hE, hN] at hres
    | ok sels =>
      simp only [hE, hN] at hres
      split_ifs at hres with h1 h2 h3 <;> cases hres
      have hlen := expand_length _ _ _ hE
      have hval := normAll_valid g.shape ex sels hlen hN
      have hsl : sels.length = g.shape.length := hval.length_eq.symm
      constructor
      · refine ⟨sels, ⟨ex, rfl, hN⟩, rfl, ?_, ?_⟩
        · intro j hj
          refine ⟨selIdx_valid g.shape sels j hval hj, rfl, fun r => ?_⟩
          simp only [ImgOf.world]
          rw [lin_sel g.shape sels g.cols j r hval hj]
          ring
        · intro j j' hj hj' he
          exact selIdx_inj g.shape sels j j' hval hj hj' he
      · exact ⟨selShape_names_length sels g.inNames (by rw [hw.1, hsl]),
          selCols_length sels g.cols (by rw [hw.2, hsl])⟩

theorem getitem_img (g h : ImgOf α) (sl : List Slicer) (hw : WF g)
    (hres : getitem g sl = .ok (.img h)) : Embeds g h ∧ WF h := by
  obtain ⟨⟨_, _, hi⟩, w⟩ := getitem_index g h sl hw hres
  exact ⟨hi.embeds, w⟩

theorem getitem_val (g : ImgOf α) (v : α) (sl : List Slicer)
    (hres : getitem g sl = .ok (.val v)) : ∃ idx, ValidIdx g.shape idx ∧ v = g.data idx := by
  unfold getitem at hres
  cases hE : expand g.shape.length sl with
  | error e => simp [hE] at hres
  | ok ex =>
    cases hN : normAll g.shape ex with
    | error e => simp [hE, hN] at hres
    | ok sels =>
      simp only [hE, hN] at hres
      split_ifs at hres with h1 h2 h3 <;> cases hres
      have hlen := expand_length _ _ _ hE
      have hval := normAll_valid g.shape ex sels hlen hN
      refine ⟨selIdx sels [], selIdx_valid g.shape sels [] hval ?_, rfl⟩
      rw [h3]; exact validIdx_nil

/-! ### reordering -/

theorem resolveOrder_isPerm (n nrev : Nat) (names : List String) (ord : Order) (o : List Nat)
    (h : resolveOrder n nrev names ord = .ok o) : isPerm n o = true := by
  cases ord with
  | rev =>
      simp only [resolveOrder] at h
      split_ifs at h with h1
      cases h; exact h1
  | nats l =>
      simp only [resolveOrder] at h
      split_ifs at h with h1
      cases h; exact h1
  | ints l =>
      simp only [resolveOrder] at h
      split_ifs at h with h1
      cases h
      simp only [Bool.and_eq_true] at h1
      exact h1.2
  | names l =>
      simp only [resolveOrder] at h
      cases hm : l.mapM (nameIdx names) with
      | none => simp [hm] at h
      | some o' =>
        simp only [hm] at h
        split_ifs at h with h1
        cases h; exact h1

theorem reorderAxesP_index (g : ImgOf α) (o : List Nat) (hw : WF g)
    (hp : isPerm g.shape.length o = true) :
    IndexEmbeds g (reorderAxesP g o) (unperm o) ∧ WF (reorderAxesP g o) := by
  have hl := ((isPerm_iff _ o).mp hp).1
  constructor
  · refine ⟨rfl, ?_, ?_⟩
    · intro j hj
      have hjl : j.length = g.shape.length := by
        have := ((validIdx_iff _ _).mp hj).1
        simpa [reorderAxesP, permute_length, hl] using this
      refine ⟨unperm_valid _ o g.shape j hp rfl hj, rfl, fun r => ?_⟩
      simp only [ImgOf.world, reorderAxesP]
      rw [lin_permute _ o g.cols j r hp hw.2 hjl]
    · intro j j' hj hj' he
      have hjl : j.length = g.shape.length := by
        have := ((validIdx_iff _ _).mp hj).1
        simpa [reorderAxesP, permute_length, hl] using this
      have hjl' : j'.length = g.shape.length := by
        have := ((validIdx_iff _ _).mp hj').1
        simpa [reorderAxesP, permute_length, hl] using this
      exact unperm_inj _ o j j' hp hjl hjl' he
  · simp [WF, reorderAxesP, permute_length]

theorem reorderAxesP_embeds (g : ImgOf α) (o : List Nat) (hw : WF g)
    (hp : isPerm g.shape.length o = true) : Embeds g (reorderAxesP g o) ∧ WF (reorderAxesP g o) :=
  ⟨(reorderAxesP_index g o hw hp).1.embeds, (reorderAxesP_index g o hw hp).2⟩

/-- transposition is onto: every voxel of `g` is read by a voxel of the transposed image -/
theorem unperm_surj (n : Nat) (o shape i : List Nat) (h : isPerm n o = true) (hs : shape.length = n)
    (hi : ValidIdx shape i) :
    ValidIdx (permute 0 o shape) (permute 0 o i) ∧ unperm o (permute 0 o i) = i := by
  have hl := ((isPerm_iff n o).mp h).1
  obtain ⟨hil, hiv⟩ := (validIdx_iff _ _).mp hi
  constructor
  · refine (validIdx_iff _ _).mpr ⟨by simp [permute_length], fun k hk => ?_⟩
    rw [permute_length] at hk
    rw [permute_getD 0 o i k hk, permute_getD 0 o shape k hk]
    exact hiv _ (by rw [hs]; exact isPerm_getD_lt h (by omega))
  · apply List.ext_getElem (by rw [unperm_length]; omega)
    intro k h1 h2
    have hk : k < n := by omega
    rw [← getD_lt _ k 0 h1, unperm_getD o _ k (by omega),
        permute_getD 0 o i _ (by have := isPerm_idxOf_lt h hk; omega), isPerm_getD_idxOf h hk,
        getD_lt i k 0 h2]

theorem reorderRefP_embeds (g : ImgOf α) (o : List Nat) (hw : WF g)
    (hp : isPerm g.outNames.length o = true) : Embeds g (reorderRefP g o) ∧ WF (reorderRefP g o) := by
  have hl := ((isPerm_iff _ o).mp hp).1
  have hperm := isPerm_perm hp
  constructor
  · refine ⟨id, id, ?_, fun j hj => ⟨hj, rfl, ?_⟩, fun _ _ _ _ h => h⟩
    · -- names are permuted
      simp only [reorderRefP, List.map_id, permute]
      have h1 := hperm.map (fun k => g.outNames.getD k "")
      refine h1.trans (List.Perm.of_eq ?_)
      apply List.ext_getElem (by simp)
      intro i h1 h2
      have hi : i < g.outNames.length := by simpa using h1
      simp [List.getElem?_eq_getElem hi]
    · rw [relName_id, List.map_id]
      have hw' : ∀ r, (reorderRefP g o).world j r = g.world j (o.getD r 0) := by
        intro r
        simp only [ImgOf.world, reorderRefP]
        rw [lin_reindex (fun r => o.getD r 0) g.cols j r]
      unfold namedWorld
      have hlen : (reorderRefP g o).outNames.length = g.outNames.length := by
        simp [reorderRefP, permute_length, hl]
      rw [hlen]
      have hF := map_eq_range_map o g.outNames.length hl
        (fun k => (g.outNames.getD k "", g.world j k))
      have h2 : (List.range g.outNames.length).map
            (fun r => ((reorderRefP g o).outNames.getD r "", (reorderRefP g o).world j r))
          = o.map (fun k => (g.outNames.getD k "", g.world j k)) := by
        rw [hF]
        apply List.map_congr_left
        intro r hr
        have hr' : r < o.length := by rw [hl]; exact List.mem_range.mp hr
        rw [hw' r]
        simp only [reorderRefP]
        rw [permute_getD "" o g.outNames r hr']
      rw [h2]
      exact hperm.map _
  · exact ⟨hw.1, by simpa [reorderRefP] using hw.2⟩

theorem reorderAxes_embeds (g h : ImgOf α) (ord : Order) (hw : WF g)
    (hres : reorderAxes g ord = .ok h) : Embeds g h ∧ WF h := by
  unfold reorderAxes at hres
  cases hr : resolveOrder g.shape.length g.shape.length g.inNames ord with
  | error e => simp [hr] at hres
  | ok o =>
    simp only [hr] at hres
    cases hres
    exact reorderAxesP_embeds g o hw (resolveOrder_isPerm _ _ _ _ _ hr)

theorem reorderRef_embeds (g h : ImgOf α) (ord : Order) (hw : WF g)
    (hres : reorderRef g ord = .ok h) : Embeds g h ∧ WF h := by
  unfold reorderRef at hres
  cases hr : resolveOrder g.outNames.length g.shape.length g.outNames ord with
  | error e => simp [hr] at hres
  | ok o =>
    simp only [hr] at hres
    cases hres
    exact reorderRefP_embeds g o hw (resolveOrder_isPerm _ _ _ _ _ hr)

/-! ### renaming -/

theorem rename_length (pairs : List (String × String)) (names nn : List String)
    (h : rename pairs names = .ok nn) : nn = names.map (renameFn pairs) := by
  unfold rename at h
  split_ifs at h <;> cases h
  rfl

theorem renameAxes_embeds (g h : ImgOf α) (p : List (String × String)) (hw : WF g)
    (hres : renameAxes g p = .ok h) : Embeds g h ∧ WF h := by
  unfold renameAxes at hres
  cases hr : rename p g.inNames with
  | error e => simp [hr] at hres
  | ok nn =>
    simp only [hr] at hres
    cases hres
    have hn := rename_length _ _ _ hr
    constructor
    · exact Embeds.of_index id rfl (fun j hj => ⟨hj, rfl, fun _ => rfl⟩) (fun _ _ _ _ h => h)
    · exact ⟨by simp [hn, hw.1], hw.2⟩

theorem renameRef_embeds (g h : ImgOf α) (p : List (String × String)) (hw : WF g)
    (hres : renameRef g p = .ok h) : Embeds g h ∧ WF h := by
  unfold renameRef at hres
  cases hr : rename p g.outNames with
  | error e => simp [hr] at hres
  | ok nn =>
    simp only [hr] at hres
    cases hres
    have hn := rename_length _ _ _ hr
    subst hn
    constructor
    · refine ⟨id, renameFn p, List.Perm.refl _, fun j hj => ⟨hj, rfl, List.Perm.of_eq ?_⟩,
        fun _ _ _ _ h => h⟩
      simp only [namedWorld, List.length_map, List.map_map]
      apply List.map_congr_left
      intro r hr
      have hr' : r < g.outNames.length := List.mem_range.mp hr
      simp [relName, ImgOf.world, List.getD_eq_getElem?_getD, List.getElem?_eq_getElem hr']
    · exact hw

/-! ### operations built from the primitives -/

theorem reorderBoth_embeds (g h : ImgOf α) (o : List Nat) (hw : WF g)
    (hres : reorderBoth g o = .ok h) : Embeds g h ∧ WF h := by
  unfold reorderBoth at hres
  cases h1 : reorderAxes g (.nats o) with
  | error e => simp [h1] at hres
  | ok k =>
    simp only [h1] at hres
    obtain ⟨e1, w1⟩ := reorderAxes_embeds g k _ hw h1
    obtain ⟨e2, w2⟩ := reorderRef_embeds k h _ w1 hres
    exact ⟨e1.trans e2, w2⟩

theorem rollimg_embeds (g h : ImgOf α) (a s : AxId) (o : List (Option Nat)) (hw : WF g)
    (hres : rollimg g a s o = .ok h) : Embeds g h ∧ WF h := by
  unfold rollimg at hres
  cases h1 : inputAxisIndex g.inNames g.outNames o a with
  | error e => simp [h1] at hres
  | ok ai =>
    cases h2 : inputAxisIndex g.inNames g.outNames o s with
    | error e => simp [h1, h2] at hres
    | ok si =>
      simp only [h1, h2] at hres
      split_ifs at hres <;> first | exact reorderAxes_embeds g h _ hw hres | cases hres

theorem rollaxis_embeds (g h : ImgOf α) (a : AxId) (inv : Bool) (hw : WF g)
    (hres : rollaxis g a inv = .ok h) : Embeds g h ∧ WF h := by
  unfold rollaxis at hres
  cases inv with
  | true =>
    cases a with
    | name s => simp at hres
    | int i =>
      simp only [if_true] at hres
      exact reorderBoth_embeds g h _ hw hres
  | false =>
    simp only [Bool.false_eq_true, if_false] at hres
    cases h1 : rollaxisAxis g a with
    | error e => simp [h1] at hres
    | ok ax =>
      simp only [h1] at hres
      exact reorderBoth_embeds g h _ hw hres

theorem syncOrder_embeds (g h : ImgOf α) (ti tu : List String) (ax rf : Bool) (hw : WF g)
    (hres : syncOrder g ti tu ax rf = .ok h) : Embeds g h ∧ WF h := by
  unfold syncOrder at hres
  cases ax with
  | true =>
    simp only [if_true] at hres
    cases h1 : reorderAxes g (.names ti) with
    | error e => simp [h1] at hres
    | ok k =>
      simp only [h1] at hres
      obtain ⟨e1, w1⟩ := reorderAxes_embeds g k _ hw h1
      cases rf with
      | true =>
        simp only [if_true] at hres
        obtain ⟨e2, w2⟩ := reorderRef_embeds k h _ w1 hres
        exact ⟨e1.trans e2, w2⟩
      | false =>
        simp only [Bool.false_eq_true, if_false] at hres
        cases hres; exact ⟨e1, w1⟩
  | false =>
    simp only [Bool.false_eq_true, if_false] at hres
    cases rf with
    | true =>
      simp only [if_true] at hres
      exact reorderRef_embeds g h _ hw hres
    | false =>
      simp only [Bool.false_eq_true, if_false] at hres
      cases hres; exact ⟨Embeds.refl g, hw⟩

theorem asXyz_embeds (g h : ImgOf α) (m : List (String × Nat)) (orient : ImgOf α → Nat → List (Option Nat))
    (hw : WF g) (hres : asXyz g m orient = .ok h) : Embeds g h ∧ WF h := by
  unfold asXyz at hres
  cases h0 : xyzAffineErr g m (orient g 0) with
  | none => simp only [h0] at hres; cases hres; exact ⟨Embeds.refl g, hw⟩
  | some e0 =>
    simp only [h0] at hres
    cases h1 : xyzOrder m g.outNames with
    | error e => simp [h1] at hres
    | ok order =>
      simp only [h1] at hres
      cases h2 : reorderRef g (.nats order) with
      | error e => simp [h2] at hres
      | ok k =>
        simp only [h2] at hres
        obtain ⟨e1, w1⟩ := reorderRef_embeds g k _ hw h2
        split_ifs at hres with h3
        revert hres
        generalize hks : (argsort ((orient k 1).map (fun o => match o with
            | some k => k
            | none => (orient k 1).length + g.outNames.length + 8))) = ks
        intro hres
        cases h4 : reorderAxes k (.nats ks) with
        | error e => simp [h4] at hres
        | ok k2 =>
          simp only [h4] at hres
          obtain ⟨e2, w2⟩ := reorderAxes_embeds k k2 _ w1 h4
          cases h5 : xyzAffineErr k2 m (orient k2 2) with
          | none => simp only [h5] at hres; cases hres; exact ⟨e1.trans e2, w2⟩
          | some e => simp [h5] at hres

theorem liftImg_img (x : Except Err (ImgOf α)) (h : ImgOf α) (hres : liftImg x = .ok (.img h)) : x = .ok h := by
  cases x with
  | error e => simp [liftImg] at hres
  | ok g => simp only [liftImg] at hres; cases hres; rfl

theorem liftImg_val (x : Except Err (ImgOf α)) (v : α) : liftImg x ≠ .ok (.val v) := by
  cases x <;> simp [liftImg]

theorem iterAxis_img (g h : ImgOf α) (a : AxId) (k : Nat) (o : List (Option Nat)) (hw : WF g)
    (hres : iterAxis g a k o = .ok (.img h)) : Embeds g h ∧ WF h := by
  unfold iterAxis at hres
  cases h1 : rollimg g a (.int 0) o with
  | error e => simp [h1] at hres
  | ok r =>
    simp only [h1] at hres
    obtain ⟨e1, w1⟩ := rollimg_embeds g r _ _ _ hw h1
    obtain ⟨e2, w2⟩ := getitem_img r h _ w1 hres
    exact ⟨e1.trans e2, w2⟩

theorem iterAxis_val (g : ImgOf α) (v : α) (a : AxId) (k : Nat) (o : List (Option Nat)) (hw : WF g)
    (hres : iterAxis g a k o = .ok (.val v)) : ∃ idx, ValidIdx g.shape idx ∧ v = g.data idx := by
  unfold iterAxis at hres
  cases h1 : rollimg g a (.int 0) o with
  | error e => simp [h1] at hres
  | ok r =>
    simp only [h1] at hres
    obtain ⟨⟨σ, ρ, _, hv, _⟩, _⟩ := rollimg_embeds g r _ _ _ hw h1
    obtain ⟨idx, hi, hd⟩ := getitem_val r v _ hres
    obtain ⟨a1, b1, _⟩ := hv idx hi
    exact ⟨σ idx, a1, by rw [hd, b1]⟩

theorem step_img (g h : ImgOf α) (op : Op) (hw : WF g) (hres : step g op = .ok (.img h)) :
    Embeds g h ∧ WF h := by
  cases op with
  | getitem sl => exact getitem_img g h sl hw hres
  | reorderAxes o => exact reorderAxes_embeds g h o hw (liftImg_img _ _ hres)
  | reorderRef o => exact reorderRef_embeds g h o hw (liftImg_img _ _ hres)
  | renameAxes p => exact renameAxes_embeds g h p hw (liftImg_img _ _ hres)
  | renameRef p => exact renameRef_embeds g h p hw (liftImg_img _ _ hres)
  | rollimg a s o => exact rollimg_embeds g h a s _ hw (liftImg_img _ _ hres)
  | rollaxis a i => exact rollaxis_embeds g h a i hw (liftImg_img _ _ hres)
  | sync ti tu a r => exact syncOrder_embeds g h ti tu a r hw (liftImg_img _ _ hres)
  | iterAxis a k o arr => exact iterAxis_img g h a k _ hw hres
  | asXyz m src => exact asXyz_embeds g h m _ hw (liftImg_img _ _ hres)

theorem step_val (g : ImgOf α) (v : α) (op : Op) (hw : WF g) (hres : step g op = .ok (.val v)) :
    ∃ idx, ValidIdx g.shape idx ∧ v = g.data idx := by
  cases op with
  | getitem sl => exact getitem_val g v sl hres
  | iterAxis a k o arr => exact iterAxis_val g v a k _ hw hres
  | reorderAxes o => exact absurd hres (liftImg_val _ v)
  | reorderRef o => exact absurd hres (liftImg_val _ v)
  | renameAxes p => exact absurd hres (liftImg_val _ v)
  | renameRef p => exact absurd hres (liftImg_val _ v)
  | rollimg a s o => exact absurd hres (liftImg_val _ v)
  | rollaxis a i => exact absurd hres (liftImg_val _ v)
  | sync ti tu a r => exact absurd hres (liftImg_val _ v)
  | asXyz m src => exact absurd hres (liftImg_val _ v)

theorem runOps_img : ∀ (ops : List Op) (g h : ImgOf α), WF g → runOps g ops = .ok (.img h) →
    Embeds g h ∧ WF h
  | [], g, h, hw, hres => by
      simp only [runOps] at hres; cases hres; exact ⟨Embeds.refl g, hw⟩
  | op :: ops, g, h, hw, hres => by
      simp only [runOps] at hres
      cases h1 : step g op with
      | error e => simp [h1] at hres
      | ok r =>
        cases r with
        | val v =>
          simp only [h1] at hres
          cases ops <;> simp at hres
        | img k =>
          simp only [h1] at hres
          obtain ⟨e1, w1⟩ := step_img g k op hw h1
          obtain ⟨e2, w2⟩ := runOps_img ops k h w1 hres
          exact ⟨e1.trans e2, w2⟩

theorem runOps_val : ∀ (ops : List Op) (g : ImgOf α) (v : α), WF g → runOps g ops = .ok (.val v) →
    ∃ idx, ValidIdx g.shape idx ∧ v = g.data idx
  | [], g, v, hw, hres => by simp [runOps] at hres
  | op :: ops, g, v, hw, hres => by
      simp only [runOps] at hres
      cases h1 : step g op with
      | error e => simp [h1] at hres
      | ok r =>
        cases r with
        | val v' =>
          simp only [h1] at hres
          cases ops with
          | nil => simp only at hres; cases hres; exact step_val g v op hw h1
          | cons _ _ => simp at hres
        | img k =>
          simp only [h1] at hres
          obtain ⟨⟨σ, ρ, _, hv, _⟩, w1⟩ := step_img g k op hw h1
          obtain ⟨idx, hi, hd⟩ := runOps_val ops k v w1 hres
          obtain ⟨a1, b1, _⟩ := hv idx hi
          exact ⟨σ idx, a1, by rw [hd, b1]⟩

end NipyVerif.C02
