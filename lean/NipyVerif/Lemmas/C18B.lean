/- Helper lemmas and auxiliary definitions for the C18 extension theorems (Props/C18B). -/
import NipyVerif.Lemmas.C18
import NipyVerif.Model.C18B
import Mathlib.Algebra.Order.Field.Basic
import Mathlib.Tactic.Positivity
import Mathlib.Algebra.Order.BigOperators.Group.Finset

namespace NipyVerif.C18
open Finset

/-! ### `toList` is determined by the values on the grid -/

theorem toList_congr (s : Sh) (x y : Img)
    (h : ∀ a b c, a < s.n0 → b < s.n1 → c < s.n2 → x a b c = y a b c) : toList s x = toList s y := by
  unfold toList
  refine List.flatMap_congr fun a ha => ?_
  refine List.flatMap_congr fun b hb => ?_
  refine List.map_congr_left fun c hc => ?_
  exact h a b c (List.mem_range.mp ha) (List.mem_range.mp hb) (List.mem_range.mp hc)

/-! ### the kernel exponent as a function of a (rational) world displacement -/

/-- `½ |W · (w / σ)|²`: what `_normsq(w)/2` is for a world displacement `w` -/
def worldExp (sig : V3) (W : M3) (w : V3) : Rat := halfNormSq sig W w

/-- matrix product `A · B` (rows of `A` against columns of `B`) -/
def M3.mul (A B : M3) : M3 :=
  ⟨⟨A.r0.x * B.r0.x + A.r0.y * B.r1.x + A.r0.z * B.r2.x, A.r0.x * B.r0.y + A.r0.y * B.r1.y + A.r0.z * B.r2.y,
     A.r0.x * B.r0.z + A.r0.y * B.r1.z + A.r0.z * B.r2.z⟩,
   ⟨A.r1.x * B.r0.x + A.r1.y * B.r1.x + A.r1.z * B.r2.x, A.r1.x * B.r0.y + A.r1.y * B.r1.y + A.r1.z * B.r2.y,
     A.r1.x * B.r0.z + A.r1.y * B.r1.z + A.r1.z * B.r2.z⟩,
   ⟨A.r2.x * B.r0.x + A.r2.y * B.r1.x + A.r2.z * B.r2.x, A.r2.x * B.r0.y + A.r2.y * B.r1.y + A.r2.z * B.r2.y,
     A.r2.x * B.r0.z + A.r2.y * B.r1.z + A.r2.z * B.r2.z⟩⟩

theorem M3.mulVec_mul (A B : M3) (v : V3) : (A.mul B).mulVec v = A.mulVec (B.mulVec v) := by
  simp only [M3.mul, M3.mulVec, V3.dot, V3.mk.injEq]
  refine ⟨?_, ?_, ?_⟩ <;> ring

theorem M3.one_mulVec (v : V3) : M3.one.mulVec v = v := by
  cases v; simp [M3.one, M3.mulVec, V3.dot]

/-! ### bounding box: every hit lies between `loHit` and `hiHit` -/

theorem loHit_le (p : Nat → Bool) (n m a : Nat) (h : loHit p n = some m) (_ha : a < n) (hp : p a = true) :
    m ≤ a := by
  obtain ⟨_, _, h3⟩ := loHit_spec p n m h
  by_contra hlt
  have := h3 a (by omega)
  rw [hp] at this; exact Bool.noConfusion this

theorem le_hiHit (p : Nat → Bool) (n M a : Nat) (h : hiHit p n = some M) (ha : a < n) (hp : p a = true) :
    a ≤ M := by
  obtain ⟨_, _, h3⟩ := hiHit_spec p n M h
  by_contra hlt
  have := h3 a (by omega) ha
  rw [hp] at this; exact Bool.noConfusion this

theorem hit0_of (s : Sh) (p : Nat → Nat → Nat → Bool) (a b c : Nat) (hb : b < s.n1) (hc : c < s.n2)
    (h : p a b c = true) : hit0 s p a = true := by
  unfold hit0; rw [anyTo_true]; refine ⟨b, hb, ?_⟩; rw [anyTo_true]; exact ⟨c, hc, h⟩
theorem hit1_of (s : Sh) (p : Nat → Nat → Nat → Bool) (a b c : Nat) (ha : a < s.n0) (hc : c < s.n2)
    (h : p a b c = true) : hit1 s p b = true := by
  unfold hit1; rw [anyTo_true]; refine ⟨a, ha, ?_⟩; rw [anyTo_true]; exact ⟨c, hc, h⟩
theorem hit2_of (s : Sh) (p : Nat → Nat → Nat → Bool) (a b c : Nat) (ha : a < s.n0) (hb : b < s.n1)
    (h : p a b c = true) : hit2 s p c = true := by
  unfold hit2; rw [anyTo_true]; refine ⟨a, ha, ?_⟩; rw [anyTo_true]; exact ⟨b, hb, h⟩

theorem hit0_iff (s : Sh) (p : Nat → Nat → Nat → Bool) (a : Nat) :
    hit0 s p a = true ↔ ∃ b c, b < s.n1 ∧ c < s.n2 ∧ p a b c = true := by
  unfold hit0; rw [anyTo_true]
  constructor
  · rintro ⟨b, hb, h⟩; rw [anyTo_true] at h; obtain ⟨c, hc, h⟩ := h; exact ⟨b, c, hb, hc, h⟩
  · rintro ⟨b, c, hb, hc, h⟩; refine ⟨b, hb, ?_⟩; rw [anyTo_true]; exact ⟨c, hc, h⟩
theorem hit1_iff (s : Sh) (p : Nat → Nat → Nat → Bool) (b : Nat) :
    hit1 s p b = true ↔ ∃ a c, a < s.n0 ∧ c < s.n2 ∧ p a b c = true := by
  unfold hit1; rw [anyTo_true]
  constructor
  · rintro ⟨a, ha, h⟩; rw [anyTo_true] at h; obtain ⟨c, hc, h⟩ := h; exact ⟨a, c, ha, hc, h⟩
  · rintro ⟨a, c, ha, hc, h⟩; refine ⟨a, ha, ?_⟩; rw [anyTo_true]; exact ⟨c, hc, h⟩
theorem hit2_iff (s : Sh) (p : Nat → Nat → Nat → Bool) (c : Nat) :
    hit2 s p c = true ↔ ∃ a b, a < s.n0 ∧ b < s.n1 ∧ p a b c = true := by
  unfold hit2; rw [anyTo_true]
  constructor
  · rintro ⟨a, ha, h⟩; rw [anyTo_true] at h; obtain ⟨b, hb, h⟩ := h; exact ⟨a, b, ha, hb, h⟩
  · rintro ⟨a, b, ha, hb, h⟩; refine ⟨a, ha, ?_⟩; rw [anyTo_true]; exact ⟨b, hb, h⟩

/-- unpacking `cropBox = some` into the six extreme indices -/
theorem cropBox_some (s : Sh) (p : Nat → Nat → Nat → Bool) (bx : Box) (h : cropBox s p = some bx) :
    ∃ m0 M0 m1 M1 m2 M2,
      loHit (hit0 s p) s.n0 = some m0 ∧ hiHit (hit0 s p) s.n0 = some M0 ∧
      loHit (hit1 s p) s.n1 = some m1 ∧ hiHit (hit1 s p) s.n1 = some M1 ∧
      loHit (hit2 s p) s.n2 = some m2 ∧ hiHit (hit2 s p) s.n2 = some M2 ∧
      bx = ⟨⟨m0, m1, m2⟩, ⟨M0 - m0 + 1, M1 - m1 + 1, M2 - m2 + 1⟩⟩ := by
  unfold cropBox at h
  split at h
  · rename_i m0 M0 m1 M1 m2 M2 e0 e1 e2 e3 e4 e5
    exact ⟨m0, M0, m1, M1, m2, M2, e0, e1, e2, e3, e4, e5, (Option.some.inj h).symm⟩
  · cases h


/-! ### a kernel sum over a grid that does not cover the whole kernel -/

/-- kernel index `b` is reached from output position `t` by some grid index `j < n` (`b = t - j`) -/
def covered (n t b : Nat) : Prop := b ≤ t ∧ t < b + n

instance (n t b : Nat) : Decidable (covered n t b) := by unfold covered; infer_instance

theorem sum_axis_masked (n k t : Nat) (G : Int → Rat) (hG : ∀ z : Int, ¬(0 ≤ z ∧ z < k) → G z = 0) :
    ∑ j ∈ range n, G ((t : Int) - j) = ∑ b ∈ range k, if covered n t b then G (b : Int) else 0 := by
  have hz : ∀ j : Nat, G ((t : Int) - j) ≠ 0 → 0 ≤ (t : Int) - j ∧ (t : Int) - j < k := by
    intro j hj; by_contra h; exact hj (hG _ h)
  refine sum_bij_ne_zero (fun j _ _ => ((t : Int) - j).toNat) ?_ ?_ ?_ ?_
  · intro j _ hj
    have := hz j hj
    rw [mem_range]; omega
  · intro j _ hj j' _ hj' e
    have := hz j hj; have := hz j' hj'
    omega
  · intro b hb hne
    have hc : covered n t b := by
      by_contra hc; rw [if_neg hc] at hne; exact hne rfl
    rw [if_pos hc] at hne
    unfold covered at hc
    have e : (t : Int) - ((t - b : Nat) : Int) = b := by omega
    refine ⟨t - b, mem_range.mpr (by omega), ?_, ?_⟩
    · rw [e]; exact hne
    · rw [e]; simp
  · intro j hj hne
    have := hz j hne
    have hj' := mem_range.mp hj
    have e : ((((t : Int) - j).toNat : Nat) : Int) = (t : Int) - j := by omega
    rw [if_pos (by unfold covered; omega), e]

/-- the grid sum of the zero-extended kernel at output position `t` is the sum of the kernel entries
    that are covered -/
theorem sum3_kerZ_masked (n k : Sh) (K : Img) (t0 t1 t2 : Nat) :
    sum3 n (fun j0 j1 j2 => kerZ k K ((t0 : Int) - j0) ((t1 : Int) - j1) ((t2 : Int) - j2)) =
      sum3 k (fun b0 b1 b2 =>
        if covered n.n0 t0 b0 ∧ covered n.n1 t1 b1 ∧ covered n.n2 t2 b2 then K b0 b1 b2 else 0) := by
  simp only [sum3_eq]
  rw [sum_axis_masked n.n0 k.n0 t0
    (fun z => ∑ b ∈ range n.n1, ∑ c ∈ range n.n2, kerZ k K z ((t1 : Int) - b) ((t2 : Int) - c))
    (fun z hz => by simp [kerZ_zero0 k K z _ _ hz])]
  refine sum_congr rfl fun a ha => ?_
  by_cases c0 : covered n.n0 t0 a
  · rw [if_pos c0]
    rw [sum_axis_masked n.n1 k.n1 t1 (fun z => ∑ c ∈ range n.n2, kerZ k K a z ((t2 : Int) - c))
      (fun z hz => by simp [kerZ_zero1 k K z _ _ hz])]
    refine sum_congr rfl fun b hb => ?_
    by_cases c1 : covered n.n1 t1 b
    · rw [if_pos c1]
      rw [sum_axis_masked n.n2 k.n2 t2 (fun z => kerZ k K a b z)
        (fun z hz => by simp [kerZ_zero2 k K z _ _ hz])]
      refine sum_congr rfl fun c hc => ?_
      by_cases c2 : covered n.n2 t2 c
      · rw [if_pos c2, if_pos ⟨c0, c1, c2⟩]
        exact kerZ_cast k K a b c (mem_range.mp ha) (mem_range.mp hb) (mem_range.mp hc)
      · rw [if_neg c2, if_neg (fun h => c2 h.2.2)]
    · rw [if_neg c1]
      symm; apply sum_eq_zero; intro c _
      rw [if_neg (fun h => c1 h.2.1)]
  · rw [if_neg c0]
    symm; apply sum_eq_zero; intro b _; apply sum_eq_zero; intro c _
    rw [if_neg (fun h => c0 h.1)]

/-- a masked sum of a non-negative kernel that leaves out a positive entry is strictly below the full sum -/
theorem sum3_masked_lt (k : Sh) (K : Img) (m : Nat → Nat → Nat → Prop) [∀ a b c, Decidable (m a b c)]
    (hK : ∀ a b c, a < k.n0 → b < k.n1 → c < k.n2 → 0 ≤ K a b c)
    (q0 q1 q2 : Nat) (h0 : q0 < k.n0) (h1 : q1 < k.n1) (h2 : q2 < k.n2)
    (hq : ¬ m q0 q1 q2) (hpos : 0 < K q0 q1 q2) :
    sum3 k (fun a b c => if m a b c then K a b c else 0) < sum3 k K := by
  rw [sum3_eq_prod, sum3_eq_prod]
  apply Finset.sum_lt_sum
  · rintro ⟨a, b, c⟩ hp
    simp only [mem_product, mem_range] at hp
    by_cases hm : m a b c
    · simp [hm]
    · simp only [hm, if_false]; exact hK a b c hp.1 hp.2.1 hp.2.2
  · refine ⟨(q0, q1, q2), ?_, ?_⟩
    · simp only [mem_product, mem_range]; exact ⟨h0, h1, h2⟩
    · simp only [hq, if_false]; exact hpos

/-! ### powers -/

theorem ratPow_eq (x : Rat) (n : Nat) : ratPow x n = x ^ n := by
  induction n with
  | zero => simp [ratPow]
  | succ n ih => rw [ratPow, ih, pow_succ]

end NipyVerif.C18
