/-
C16 (part H) — the Hoare-partition selection `_pth_element` (literal model `pthLoop` / `partLoop`)
returns the order statistic and permutes the buffer: invariants and termination.
-/
import NipyVerif.Lemmas.C16Q
import Mathlib.Tactic.Linarith

namespace NipyVerif.C16

/-- `x[k]` -/
def gv (x : Array Rat) (k : Nat) : Rat := x.getD k 0

theorem getD_any (x : Array Rat) (k : Nat) (d : Rat) (h : k < x.size) : x.getD k d = gv x k := by
  unfold gv
  simp [Array.getD_eq_getD_getElem?, h]

theorem gv_eq_getElem (x : Array Rat) (k : Nat) (h : k < x.size) : gv x k = x[k] := by
  unfold gv
  simp [Array.getD_eq_getD_getElem?, h]

/-! ### swaps -/

theorem swapA_size (x : Array Rat) (i j : Nat) : (swapA x i j).size = x.size := by
  simp [swapA]

theorem gv_set (a : Array Rat) (p k : Nat) (v : Rat) :
    gv (a.setIfInBounds p v) k = if p = k ∧ p < a.size then v else gv a k := by
  unfold gv
  simp only [Array.getD_eq_getD_getElem?, Array.getElem?_setIfInBounds]
  by_cases h : p = k
  · subst h
    by_cases h2 : p < a.size
    · simp [h2]
    · simp [h2]
  · simp [h]

theorem swapA_gv (x : Array Rat) (i j k : Nat) (hi : i < x.size) (hj : j < x.size) :
    gv (swapA x i j) k = if k = j then gv x i else if k = i then gv x j else gv x k := by
  unfold swapA
  simp only
  rw [gv_set, gv_set]
  simp only [Array.size_setIfInBounds]
  by_cases h1 : k = j
  · subst h1; simp [hj, gv]
  · by_cases h2 : k = i
    · subst h2
      have : ¬ (j = k) := fun h => h1 h.symm
      simp [this, hi, h1, gv]
    · have e1 : ¬ (j = k) := fun h => h1 h.symm
      have e2 : ¬ (i = k) := fun h => h2 h.symm
      simp [e1, e2, h1, h2]

theorem swapA_perm (x : Array Rat) (i j : Nat) (hi : i < x.size) (hj : j < x.size) :
    (swapA x i j).toList.Perm x.toList := by
  unfold swapA
  simp only [Array.toList_setIfInBounds]
  have e1 : x.getD j 0 = x.toList[j]'(by simpa using hj) := by
    simp [Array.getD_eq_getD_getElem?, hj]
  have e2 : x.getD i 0 = x.toList[i]'(by simpa using hi) := by
    simp [Array.getD_eq_getD_getElem?, hi]
  rw [e1, e2]
  exact List.set_set_perm (by simpa using hi) (by simpa using hj)

/-! ### the two scans -/

theorem scanUp_spec (x : Array Rat) (a : Rat) (f i : Nat) :
    i ≤ scanUp x a f i ∧
    (∀ k, i ≤ k → k < scanUp x a f i → gv x k < a) ∧
    (∀ k, i ≤ k → k < x.size → ¬ (gv x k < a) → k ≤ i + f → scanUp x a f i ≤ k) := by
  induction f generalizing i with
  | zero =>
      refine ⟨le_refl _, ?_, ?_⟩
      · intro k hk1 hk2; simp [scanUp] at hk2; omega
      · intro k hk1 _ _ hk4; simp [scanUp]; omega
  | succ f ih =>
      simp only [scanUp]
      split_ifs with h
      · obtain ⟨h1, h2, h3⟩ := ih (i + 1)
        refine ⟨by omega, ?_, ?_⟩
        · intro k hk1 hk2
          rcases Nat.eq_or_lt_of_le hk1 with he | hl
          · subst he
            rw [← getD_any x i a h.1]; exact h.2
          · exact h2 k (by omega) hk2
        · intro k hk1 hk2 hk3 hk4
          rcases Nat.eq_or_lt_of_le hk1 with he | hl
          · subst he
            exfalso; apply hk3
            rw [← getD_any x i a h.1]; exact h.2
          · exact h3 k (by omega) hk2 hk3 (by omega)
      · refine ⟨le_refl _, ?_, ?_⟩
        · intro k hk1 hk2; omega
        · intro k hk1 _ _ _; exact hk1

theorem scanDown_spec (x : Array Rat) (a : Rat) (f j : Nat) :
    scanDown x a f j ≤ j ∧
    (∀ k, scanDown x a f j < k → k ≤ j → gv x k > a) ∧
    (∀ k, k ≤ j → j < x.size → ¬ (gv x k > a) → j ≤ k + f → k ≤ scanDown x a f j) := by
  induction f generalizing j with
  | zero =>
      refine ⟨le_refl _, ?_, ?_⟩
      · intro k hk1 hk2; simp [scanDown] at hk1; omega
      · intro k hk1 _ _ hk4; simp [scanDown]; omega
  | succ f ih =>
      simp only [scanDown]
      split_ifs with h
      · obtain ⟨h1, h2, h3⟩ := ih (j - 1)
        refine ⟨by omega, ?_, ?_⟩
        · intro k hk1 hk2
          rcases Nat.eq_or_lt_of_le hk2 with he | hl
          · subst he
            by_cases hin : k < x.size
            · rw [← getD_any x k a hin]; exact h.2
            · exfalso
              have : x.getD k a = a := by
                simp [Array.getD_eq_getD_getElem?, hin]
              have := h.2
              rw [‹x.getD k a = a›] at this
              exact lt_irrefl _ this
          · exact h2 k hk1 (by omega)
        · intro k hk1 hk2 hk3 hk4
          rcases Nat.eq_or_lt_of_le hk1 with he | hl
          · subst he
            exfalso; apply hk3
            rw [← getD_any x k a hk2]; exact h.2
          · exact h3 k (by omega) (by omega) hk3 (by omega)
      · refine ⟨le_refl _, ?_, ?_⟩
        · intro k hk1 hk2; omega
        · intro k hk1 _ _ _; exact hk1

end NipyVerif.C16

namespace NipyVerif.C16

theorem scanUp_stop (x : Array Rat) (a : Rat) (f i : Nat)
    (h : ∃ k, i ≤ k ∧ k < x.size ∧ ¬ (gv x k < a) ∧ k ≤ i + f) :
    scanUp x a f i < x.size ∧ ¬ (gv x (scanUp x a f i) < a) := by
  induction f generalizing i with
  | zero =>
      obtain ⟨k, hk1, hk2, hk3, hk4⟩ := h
      have : k = i := by omega
      subst this
      simp only [scanUp]
      exact ⟨hk2, hk3⟩
  | succ f ih =>
      obtain ⟨k, hk1, hk2, hk3, hk4⟩ := h
      simp only [scanUp]
      split_ifs with hc
      · apply ih
        rcases Nat.eq_or_lt_of_le hk1 with he | hl
        · subst he
          exfalso; apply hk3
          rw [← getD_any x i a hc.1]; exact hc.2
        · exact ⟨k, by omega, hk2, hk3, by omega⟩
      · have hin : i < x.size := by omega
        refine ⟨hin, ?_⟩
        intro hlt
        apply hc
        exact ⟨hin, by rw [getD_any x i a hin]; exact hlt⟩

theorem scanDown_stop (x : Array Rat) (a : Rat) (f j : Nat) (hj : j < x.size)
    (h : ∃ k, k ≤ j ∧ ¬ (gv x k > a) ∧ j ≤ k + f) :
    ¬ (gv x (scanDown x a f j) > a) := by
  induction f generalizing j with
  | zero =>
      obtain ⟨k, hk1, hk3, hk4⟩ := h
      have : k = j := by omega
      subst this
      simp only [scanDown]
      exact hk3
  | succ f ih =>
      obtain ⟨k, hk1, hk3, hk4⟩ := h
      show ¬ gv x (if 0 < j ∧ x.getD j a > a then scanDown x a f (j - 1) else j) > a
      by_cases hc : 0 < j ∧ x.getD j a > a
      · rw [if_pos hc]
        apply ih (j - 1) (by omega)
        rcases Nat.eq_or_lt_of_le hk1 with he | hl
        · subst he
          exfalso; apply hk3
          rw [← getD_any x k a hj]; exact hc.2
        · exact ⟨k, by omega, hk3, by omega⟩
      · rw [if_neg hc]
        intro hgt
        apply hc
        refine ⟨?_, by rw [getD_any x j a hj]; exact hgt⟩
        rcases Nat.eq_zero_or_pos j with h0 | h0
        · exfalso
          subst h0
          have : k = 0 := by omega
          subst this
          exact hk3 hgt
        · exact h0

/-! ### rearrangements by swaps inside a window -/

/-- `y` is obtained from `x` by swapping pairs of positions inside `[lo, hi]` -/
inductive Reach (lo hi : Nat) : Array Rat → Array Rat → Prop
  | refl (x : Array Rat) : Reach lo hi x x
  | step {x y : Array Rat} (i j : Nat) (h : Reach lo hi x y) (hi1 : lo ≤ i) (hi2 : i ≤ hi)
      (hj1 : lo ≤ j) (hj2 : j ≤ hi) (hs : hi < y.size) : Reach lo hi x (swapA y i j)

theorem Reach.size {lo hi : Nat} {x y : Array Rat} (h : Reach lo hi x y) : y.size = x.size := by
  induction h with
  | refl => rfl
  | step i j _ _ _ _ _ _ ih => rw [swapA_size, ih]

theorem Reach.perm {lo hi : Nat} {x y : Array Rat} (h : Reach lo hi x y) : y.toList.Perm x.toList := by
  induction h with
  | refl => exact List.Perm.refl _
  | step i j _ _ hi2 _ hj2 hs ih => exact (swapA_perm _ i j (by omega) (by omega)).trans ih

theorem Reach.outside {lo hi : Nat} {x y : Array Rat} (h : Reach lo hi x y) (k : Nat) (hk : k < lo ∨ hi < k) :
    gv y k = gv x k := by
  induction h with
  | refl => rfl
  | step i j _ hi1 hi2 hj1 hj2 hs ih =>
      rw [swapA_gv _ i j k (by omega) (by omega), if_neg (by omega), if_neg (by omega), ih]

/-- every value found in the window afterwards was in the window before -/
theorem Reach.values {lo hi : Nat} {x y : Array Rat} (h : Reach lo hi x y) (k : Nat) (hk1 : lo ≤ k) (hk2 : k ≤ hi) :
    ∃ k', lo ≤ k' ∧ k' ≤ hi ∧ gv y k = gv x k' := by
  induction h generalizing k with
  | refl => exact ⟨k, hk1, hk2, rfl⟩
  | step i j _ hi1 hi2 hj1 hj2 hs ih =>
      rw [swapA_gv _ i j k (by omega) (by omega)]
      split_ifs
      · exact ih i hi1 hi2
      · exact ih j hj1 hj2
      · exact ih k hk1 hk2

theorem Reach.mono {lo hi lo' hi' : Nat} {x y : Array Rat} (h : Reach lo hi x y) (h1 : lo' ≤ lo) (h2 : hi ≤ hi')
    (hs : hi' < x.size) : Reach lo' hi' x y := by
  induction h with
  | refl => exact Reach.refl _
  | step i j hr hi1 hi2 hj1 hj2 _ ih =>
      exact Reach.step i j ih (by omega) (by omega) (by omega) (by omega) (by rw [hr.size]; exact hs)

theorem Reach.trans {lo hi : Nat} {x y z : Array Rat} (h1 : Reach lo hi x y) (h2 : Reach lo hi y z) :
    Reach lo hi x z := by
  induction h2 with
  | refl => exact h1
  | step i j _ hi1 hi2 hj1 hj2 hs ih => exact Reach.step i j ih hi1 hi2 hj1 hj2 hs

/-- everything left of `il` is below everything from `il` on -/
def LeftDone (x : Array Rat) (il : Nat) : Prop :=
  ∀ k m, k < il → il ≤ m → m < x.size → gv x k ≤ gv x m

/-- everything right of `jr` is above everything up to `jr` -/
def RightDone (x : Array Rat) (jr : Nat) : Prop :=
  ∀ k m, jr < k → k < x.size → m ≤ jr → gv x m ≤ gv x k

theorem LeftDone.reach {lo hi il : Nat} {x y : Array Rat} (h : LeftDone x il) (hr : Reach lo hi x y) (hlo : il ≤ lo)
    (hhi : hi < x.size) : LeftDone y il := by
  intro k m hk hm hms
  rw [hr.size] at hms
  rw [hr.outside k (Or.inl (by omega))]
  by_cases hin : lo ≤ m ∧ m ≤ hi
  · obtain ⟨m', hm1, hm2, hm3⟩ := hr.values m hin.1 hin.2
    rw [hm3]
    exact h k m' hk (by omega) (by omega)
  · rw [hr.outside m (by omega)]
    exact h k m hk hm hms

theorem RightDone.reach {lo hi jr : Nat} {x y : Array Rat} (h : RightDone x jr) (hr : Reach lo hi x y) (hhi : hi ≤ jr) :
    RightDone y jr := by
  intro k m hk hks hm
  rw [hr.size] at hks
  rw [hr.outside k (Or.inr (by omega))]
  by_cases hin : lo ≤ m ∧ m ≤ hi
  · obtain ⟨m', hm1, hm2, hm3⟩ := hr.values m hin.1 hin.2
    rw [hm3]
    exact h k m' hk hks (by omega)
  · rw [hr.outside m (by omega)]
    exact h k m hk hks hm

end NipyVerif.C16

namespace NipyVerif.C16

/-! ### the partition loop -/

structure PInv (a : Rat) (il jr : Nat) (same : Bool) (x0 x : Array Rat) (i j : Nat) : Prop where
  reach : Reach il jr x0 x
  hlt : il < jr
  hi1 : il < i
  hij : i ≤ j + 1
  hj : j ≤ jr
  hjr : jr < x.size
  hl : ∀ k, il < k → k < i → gv x k ≤ a
  hr : ∀ k, j < k → k ≤ jr → a ≤ gv x k
  hil : gv x il = a
  hsent : a ≤ gv x jr
  hfirst : j = jr → i = il + 1
  hsame : same = true → j = jr → gv x jr = a
  hns : same = false → j = jr → a < gv x jr

structure PPost (a : Rat) (il jr : Nat) (x0 : Array Rat) (r : Array Rat × Nat × Nat) : Prop where
  reach : Reach il jr x0 r.1
  hj_lt : r.2.2 < jr
  hil_le : il ≤ r.2.2
  hi_gt : il < r.2.1
  hi_le : r.2.1 ≤ r.2.2 + 1
  hlow : ∀ k, il ≤ k → k ≤ r.2.2 → gv r.1 k ≤ a
  hhigh : ∀ k, r.2.2 < k → k ≤ jr → a ≤ gv r.1 k
  hlow2 : ∀ k, il ≤ k → k < r.2.1 → gv r.1 k ≤ a
  hhigh2 : ∀ k, r.2.1 ≤ k → k ≤ jr → a ≤ gv r.1 k
  hex : ∃ k, il ≤ k ∧ k ≤ r.2.2 ∧ gv r.1 k = a
  hji : r.2.2 ≤ r.2.1

theorem partLoop_unfold (a : Rat) (il jr : Nat) (same : Bool) (f : Nat) (x : Array Rat) (i j : Nat) :
    partLoop a il jr same (f + 1) x i j =
      (if scanDown x a x.size j ≤ scanUp x a x.size i then
        (if same = true ∧ scanDown x a x.size j = jr then
          (swapA x il (scanDown x a x.size j - 1), scanUp x a x.size i, scanDown x a x.size j - 1)
         else (x, scanUp x a x.size i, scanDown x a x.size j))
       else
        (if same = true ∧ scanDown x a x.size j - 1 = jr then
          (swapA (swapA x (scanUp x a x.size i) (scanDown x a x.size j)) il (scanDown x a x.size j - 1 - 1),
            scanUp x a x.size i + 1, scanDown x a x.size j - 1 - 1)
         else partLoop a il jr same f (swapA x (scanUp x a x.size i) (scanDown x a x.size j))
            (scanUp x a x.size i + 1) (scanDown x a x.size j - 1))) := by
  simp only [partLoop]
  split_ifs <;> simp_all

theorem partLoop_spec (a : Rat) (il jr : Nat) (same : Bool) (x0 : Array Rat) :
    ∀ (f : Nat) (x : Array Rat) (i j : Nat), PInv a il jr same x0 x i j → j + 2 ≤ i + f →
      PPost a il jr x0 (partLoop a il jr same f x i j) := by
  intro f
  induction f with
  | zero =>
      intro x i j inv hf
      have := inv.hij
      omega
  | succ f ih =>
      intro x i j inv hf
      rw [partLoop_unfold]
      obtain ⟨hu1, hu2, hu3⟩ := scanUp_spec x a x.size i
      obtain ⟨hd1, hd2, hd3⟩ := scanDown_spec x a x.size j
      have hjs : j < x.size := lt_of_le_of_lt inv.hj inv.hjr
      have hjrs := inv.hjr
      have hij0 := inv.hij
      have hj0 := inv.hj
      have hi0 := inv.hi1
      have hlt0 := inv.hlt
      -- sentinel for the upward scan
      have hupS : ∃ k, i ≤ k ∧ k < x.size ∧ ¬ (gv x k < a) ∧ k ≤ i + x.size ∧ k ≤ jr ∧ k ≤ j + 1 := by
        rcases Nat.lt_or_ge j jr with hlt | hge
        · exact ⟨j + 1, inv.hij, by omega, not_lt.mpr (inv.hr (j + 1) (by omega) (by omega)), by omega, by omega,
            le_refl _⟩
        · have hje : j = jr := by have := inv.hj; omega
          have hie := inv.hfirst hje
          exact ⟨jr, by have := inv.hlt; omega, inv.hjr, not_lt.mpr inv.hsent, by omega, le_refl _, by omega⟩
      obtain ⟨ks, hks1, hks2, hks3, hks4, hks5, hks6⟩ := hupS
      have hi1le : scanUp x a x.size i ≤ ks := hu3 ks hks1 hks2 hks3 hks4
      obtain ⟨hi1s, hi1ge⟩ := scanUp_stop x a x.size i ⟨ks, hks1, hks2, hks3, hks4⟩
      -- sentinel for the downward scan: position i - 1
      have hdownS : ¬ (gv x (i - 1) > a) := by
        rcases Nat.lt_or_ge il (i - 1) with h | h
        · exact not_lt.mpr (inv.hl (i - 1) h (by have := inv.hi1; omega))
        · have : i - 1 = il := by have := inv.hi1; omega
          rw [this, inv.hil]; exact lt_irrefl _
      have hj1ge : i - 1 ≤ scanDown x a x.size j :=
        hd3 (i - 1) (by have := inv.hij; omega) hjs hdownS (by omega)
      have hj1stop : ¬ (gv x (scanDown x a x.size j) > a) :=
        scanDown_stop x a x.size j hjs ⟨i - 1, by have := inv.hij; omega, hdownS, by omega⟩
      generalize hI : scanUp x a x.size i = i1 at *
      generalize hJ : scanDown x a x.size j = j1 at *
      have hi1 := inv.hi1
      have hlt := inv.hlt
      have hjle := inv.hj
      -- the updated scan facts
      have hl' : ∀ k, il < k → k < i1 → gv x k ≤ a := by
        intro k hk1 hk2
        rcases Nat.lt_or_ge k i with h | h
        · exact inv.hl k hk1 h
        · exact le_of_lt (hu2 k h hk2)
      have hr' : ∀ k, j1 < k → k ≤ jr → a ≤ gv x k := by
        intro k hk1 hk2
        rcases Nat.lt_or_ge j k with h | h
        · exact inv.hr k h hk2
        · exact le_of_lt (hd2 k hk1 h)
      by_cases hstop : j1 ≤ i1
      · rw [if_pos hstop]
        -- no position lies strictly between j1 and i1
        have hgap : i1 ≤ j1 + 1 := by
          by_contra hcon
          have hk : j1 + 1 < i1 := by omega
          -- position j1 + 1
          rcases Nat.lt_or_ge (j1 + 1) i with h | h
          · omega
          · rcases Nat.lt_or_ge j (j1 + 1) with h2 | h2
            · omega
            · have h3 := hu2 (j1 + 1) h hk
              have h4 := hd2 (j1 + 1) (by omega) h2
              exact lt_irrefl _ (lt_trans h3 h4)
        by_cases hq : same = true ∧ j1 = jr
        · rw [if_pos hq]
          obtain ⟨hs, hj1⟩ := hq
          have hje : j = jr := by omega
          have hie := inv.hfirst hje
          have hi1e : i1 = jr := by omega
          have hxjr : gv x jr = a := inv.hsame hs hje
          have hint : ∀ k, il < k → k < jr → gv x k < a := by
            intro k hk1 hk2
            exact hu2 k (by omega) (by omega)
          have hjr1 : jr - 1 < x.size := by have := inv.hjr; omega
          have hils : il < x.size := by have := inv.hjr; omega
          subst hj1
          refine ⟨?_, ?_, ?_, ?_, ?_, ?_, ?_, ?_, ?_, ?_, by show j1 - 1 ≤ i1; omega⟩
          · exact Reach.step il (j1 - 1) inv.reach (le_refl _) (by omega) (by omega) (by omega) inv.hjr
          · show j1 - 1 < j1; omega
          · show il ≤ j1 - 1; omega
          · show il < i1; omega
          · show i1 ≤ j1 - 1 + 1; omega
          · intro k hk1 hk2
            show gv (swapA x il (j1 - 1)) k ≤ a
            rw [swapA_gv x il (j1 - 1) k hils hjr1]
            have hk2' : k ≤ j1 - 1 := hk2
            split_ifs with e1 e2
            · rw [inv.hil]
            · rcases Nat.lt_or_ge il (j1 - 1) with h | h
              · exact le_of_lt (hint (j1 - 1) h (by omega))
              · have : j1 - 1 = il := by omega
                rw [this, inv.hil]
            · exact le_of_lt (hint k (by omega) (by omega))
          · intro k hk1 hk2
            show a ≤ gv (swapA x il (j1 - 1)) k
            have hk1' : j1 - 1 < k := hk1
            have hke : k = j1 := by omega
            rw [swapA_gv x il (j1 - 1) k hils hjr1, if_neg (by omega), if_neg (by omega), hke, hxjr]
          · intro k hk1 hk2
            show gv (swapA x il (j1 - 1)) k ≤ a
            have hk2' : k < i1 := hk2
            rw [swapA_gv x il (j1 - 1) k hils hjr1]
            split_ifs with e1 e2
            · rw [inv.hil]
            · rcases Nat.lt_or_ge il (j1 - 1) with h | h
              · exact le_of_lt (hint (j1 - 1) h (by omega))
              · have : j1 - 1 = il := by omega
                rw [this, inv.hil]
            · exact le_of_lt (hint k (by omega) (by omega))
          · intro k hk1 hk2
            show a ≤ gv (swapA x il (j1 - 1)) k
            have hk1' : i1 ≤ k := hk1
            have hke : k = j1 := by omega
            rw [swapA_gv x il (j1 - 1) k hils hjr1, if_neg (by omega), if_neg (by omega), hke, hxjr]
          · refine ⟨j1 - 1, by omega, le_refl _, ?_⟩
            show gv (swapA x il (j1 - 1)) (j1 - 1) = a
            rw [swapA_gv x il (j1 - 1) (j1 - 1) hils hjr1, if_pos rfl, inv.hil]
        · rw [if_neg hq]
          have hj1lt : j1 < jr := by
            by_contra hcon
            have hj1e : j1 = jr := by omega
            have hje : j = jr := by omega
            cases hsm : same with
            | true => exact hq ⟨hsm, hj1e⟩
            | false =>
                have := inv.hns hsm hje
                rw [hj1e] at hj1stop
                exact hj1stop this
          have hj1il : il ≤ j1 := by omega
          refine ⟨inv.reach, hj1lt, hj1il, by show il < i1; omega, hgap, ?_, ?_, ?_, ?_, ?_, hstop⟩
          · intro k hk1 hk2
            show gv x k ≤ a
            have hk2' : k ≤ j1 := hk2
            rcases Nat.eq_or_lt_of_le hk1 with he | hl2
            · rw [← he, inv.hil]
            · rcases Nat.lt_or_ge k i1 with h | h
              · exact hl' k hl2 h
              · have : k = j1 := by omega
                rw [this]; exact not_lt.mp hj1stop
          · intro k hk1 hk2
            exact hr' k hk1 hk2
          · intro k hk1 hk2
            show gv x k ≤ a
            have hk2' : k < i1 := hk2
            rcases Nat.eq_or_lt_of_le hk1 with he | hl2
            · rw [← he, inv.hil]
            · exact hl' k hl2 hk2'
          · intro k hk1 hk2
            show a ≤ gv x k
            have hk1' : i1 ≤ k := hk1
            rcases Nat.lt_or_ge j1 k with h | h
            · exact hr' k h hk2
            · have : k = i1 := by omega
              rw [this]; exact not_lt.mp hi1ge
          · exact ⟨il, le_refl _, hj1il, inv.hil⟩
      · rw [if_neg hstop]
        have hgt : i1 < j1 := not_le.mp hstop
        have hj1jr : j1 ≤ jr := by omega
        rw [if_neg (by intro h; omega)]
        have hj1s : j1 < x.size := by omega
        apply ih
        · refine ⟨?_, hlt, by omega, by omega, by omega, by rw [swapA_size]; exact inv.hjr, ?_, ?_, ?_, ?_, ?_, ?_, ?_⟩
          · exact Reach.step i1 j1 inv.reach (by omega) (by omega) (by omega) hj1jr inv.hjr
          · intro k hk1 hk2
            rw [swapA_gv x i1 j1 k hi1s hj1s]
            split_ifs with e1 e2
            · omega
            · exact not_lt.mp hj1stop
            · exact hl' k hk1 (by omega)
          · intro k hk1 hk2
            rw [swapA_gv x i1 j1 k hi1s hj1s]
            split_ifs with e1 e2
            · exact not_lt.mp hi1ge
            · omega
            · exact hr' k (by omega) hk2
          · rw [swapA_gv x i1 j1 il hi1s hj1s, if_neg (by omega), if_neg (by omega)]
            exact inv.hil
          · rw [swapA_gv x i1 j1 jr hi1s hj1s]
            split_ifs with e1 e2
            · exact not_lt.mp hi1ge
            · omega
            · exact inv.hsent
          · intro h; omega
          · intro _ h; omega
          · intro _ h; omega
        · omega

end NipyVerif.C16

namespace NipyVerif.C16

/-! ### the selection loop -/

/-- the partition certificate on an array -/
def Cert (y : Array Rat) (a : Rat) (p : Nat) : Prop :=
  (∀ k, k < y.size → k ≤ p → gv y k ≤ a) ∧ (∀ k, k < y.size → p < k → a ≤ gv y k) ∧
  (∃ k, k < y.size ∧ k ≤ p ∧ gv y k = a)

theorem pthLoop_unfold (p f : Nat) (x : Array Rat) (il jr : Nat) :
    pthLoop p (f + 1) x il jr =
      (let x1 := if x.getD il 0 > x.getD jr 0 then swapA x il jr else x
       let same := decide (x.getD il 0 = x.getD jr 0)
       let a := x1.getD il 0
       if il = jr then (a, x1)
       else
         let r := partLoop a il jr same (x.size + 1) x1 (il + 1) jr
         if r.2.2 > p then pthLoop p f r.1 il r.2.2
         else if r.2.2 < p then pthLoop p f r.1 r.2.1 jr
         else (a, r.1)) := by
  simp only [pthLoop]

theorem pthLoop_spec (p : Nat) :
    ∀ (f : Nat) (x : Array Rat) (il jr : Nat), il ≤ p → p ≤ jr → jr < x.size →
      LeftDone x il → RightDone x jr → jr + 1 ≤ il + f →
      Reach il jr x (pthLoop p f x il jr).2 ∧ Cert (pthLoop p f x il jr).2 (pthLoop p f x il jr).1 p := by
  intro f
  induction f with
  | zero => intro x il jr h1 h2 _ _ _ hf; omega
  | succ f ih =>
      intro x il jr h1 h2 hjr hL hR hf
      rw [pthLoop_unfold]
      simp only
      have hils : il < x.size := by omega
      -- the array after ordering the two ends
      generalize hx1 : (if x.getD il 0 > x.getD jr 0 then swapA x il jr else x) = x1
      have hreach1 : Reach il jr x x1 := by
        rw [← hx1]
        by_cases hc : x.getD il 0 > x.getD jr 0
        · rw [if_pos hc]
          exact Reach.step il jr (Reach.refl x) (le_refl _) (by omega) (by omega) (le_refl _) hjr
        · rw [if_neg hc]
          exact Reach.refl x
      have hsz1 : x1.size = x.size := hreach1.size
      have hL1 : LeftDone x1 il := hL.reach hreach1 (le_refl _) hjr
      have hR1 : RightDone x1 jr := hR.reach hreach1 (le_refl _)
      have ha : x1.getD il 0 = gv x1 il := rfl
      have hxl : x.getD il 0 = gv x il := rfl
      have hxr : x.getD jr 0 = gv x jr := rfl
      rw [ha, hxl, hxr]
      by_cases hij : il = jr
      · rw [if_pos hij]
        subst hij
        have hpe : p = il := by omega
        have hx1e : x1 = x := by
          rw [← hx1, if_neg (lt_irrefl _)]
        rw [hx1e]
        show Reach il il x x ∧ Cert x (gv x il) p
        refine ⟨Reach.refl x, ?_, ?_, ?_⟩
        · intro k hk hkp
          rcases Nat.eq_or_lt_of_le hkp with he | hl
          · rw [he, hpe]
          · exact hL k il (by omega) (le_refl _) hils
        · intro k hk hkp
          exact hR k il (by omega) hk (le_refl _)
        · exact ⟨il, hils, by omega, rfl⟩
      · rw [if_neg hij]
        have hlt : il < jr := by omega
        -- facts on the pivot
        have hsent : gv x1 il ≤ gv x1 jr ∧
            (decide (gv x il = gv x jr) = true → gv x1 jr = gv x1 il) ∧
            (decide (gv x il = gv x jr) = false → gv x1 il < gv x1 jr) := by
          rw [← hx1]
          by_cases hgt : gv x il > gv x jr
          · have hgt' : x.getD il 0 > x.getD jr 0 := hgt
            rw [if_pos hgt']
            rw [swapA_gv x il jr il hils hjr, swapA_gv x il jr jr hils hjr, if_neg (by omega), if_pos rfl, if_pos rfl]
            refine ⟨le_of_lt hgt, ?_, ?_⟩
            · intro h; exfalso
              have := of_decide_eq_true h
              rw [this] at hgt; exact lt_irrefl _ hgt
            · intro _; exact hgt
          · have hgt' : ¬ x.getD il 0 > x.getD jr 0 := hgt
            rw [if_neg hgt']
            have hle : gv x il ≤ gv x jr := not_lt.mp hgt
            refine ⟨hle, ?_, ?_⟩
            · intro h; exact (of_decide_eq_true h).symm
            · intro h
              have hne : gv x il ≠ gv x jr := of_decide_eq_false h
              exact lt_of_le_of_ne hle hne
        have inv : PInv (gv x1 il) il jr (decide (gv x il = gv x jr)) x1 x1 (il + 1) jr := by
          refine ⟨Reach.refl x1, hlt, by omega, by omega, le_refl _, by omega, ?_, ?_, rfl, hsent.1, ?_, ?_, ?_⟩
          · intro k hk1 hk2; omega
          · intro k hk1 hk2; omega
          · intro _; rfl
          · intro h _; exact hsent.2.1 h
          · intro h _; exact hsent.2.2 h
        have post := partLoop_spec (gv x1 il) il jr (decide (gv x il = gv x jr)) x1 (x.size + 1) x1 (il + 1) jr inv
          (by omega)
        generalize partLoop (gv x1 il) il jr (decide (gv x il = gv x jr)) (x.size + 1) x1 (il + 1) jr = r at post
        obtain ⟨x2, i, j⟩ := r
        obtain ⟨preach, pjlt, pille, pigt, pile, plow, phigh, plow2, phigh2, pex, _⟩ := post
        simp only at preach pjlt pille pigt pile plow phigh plow2 phigh2 pex
        have hsz2 : x2.size = x.size := by rw [preach.size, hsz1]
        have hL2 : LeftDone x2 il := hL1.reach preach (le_refl _) (by omega)
        have hR2 : RightDone x2 jr := hR1.reach preach (le_refl _)
        have hreach2 : Reach il jr x x2 := hreach1.trans preach
        obtain ⟨kk, hkk1, hkk2, hkk3⟩ := pex
        simp only
        by_cases hjp : j > p
        · rw [if_pos hjp]
          have hRj : RightDone x2 j := by
            intro k m hk hks hm
            rcases Nat.lt_or_ge jr k with h | h
            · exact hR2 k m h hks (by omega)
            · have hka := phigh k hk h
              rcases Nat.lt_or_ge m il with h2 | h2
              · exact hL2 m k h2 (by omega) hks
              · exact le_trans (plow m h2 hm) hka
          obtain ⟨r1, r2⟩ := ih x2 il j h1 (by omega) (by omega) hL2 hRj (by omega)
          exact ⟨hreach2.trans (r1.mono (le_refl _) (by omega) (by omega)), r2⟩
        · rw [if_neg hjp]
          by_cases hjp2 : j < p
          · rw [if_pos hjp2]
            have hLi : LeftDone x2 i := by
              intro k m hk hm hms
              rcases Nat.lt_or_ge k il with h | h
              · exact hL2 k m h (by omega) hms
              · have hka := plow2 k h hk
                rcases Nat.lt_or_ge jr m with h2 | h2
                · exact hR2 m k h2 hms (by omega)
                · exact le_trans hka (phigh2 m hm h2)
            obtain ⟨r1, r2⟩ := ih x2 i jr (by omega) h2 (by omega) hLi hR2 (by omega)
            exact ⟨hreach2.trans (r1.mono (by omega) (le_refl _) (by omega)), r2⟩
          · rw [if_neg hjp2]
            have hje : j = p := by omega
            show Reach il jr x x2 ∧ Cert x2 (gv x1 il) p
            refine ⟨hreach2, ?_, ?_, ?_⟩
            · intro k hk hkp
              rcases Nat.lt_or_ge k il with h | h
              · have := hL2 k kk h hkk1 (by omega)
                rw [hkk3] at this; exact this
              · exact plow k h (by omega)
            · intro k hk hkp
              rcases Nat.lt_or_ge jr k with h | h
              · have := hR2 k kk h hk (by omega)
                rw [hkk3] at this; exact this
              · exact phigh k (by omega) h
            · exact ⟨kk, by omega, by omega, hkk3⟩

/-- **the literal `_pth_element` is correct**: it returns the order statistic of rank `p` and leaves a
    rearrangement of the buffer, for every buffer and every rank. -/
theorem pthElement_correct (x : List Rat) (p : Nat) (hp : p < x.length) :
    (pthElement x p).1 = nth (sortLe x) p ∧ (pthElement x p).2.Perm x := by
  unfold pthElement
  simp only
  have hsz : x.toArray.size = x.length := by simp
  obtain ⟨hreach, hle, hge, hex⟩ := pthLoop_spec p (2 * x.length + 2) x.toArray 0 (x.length - 1) (Nat.zero_le _) (by omega)
    (by omega) (by intro k m hk; omega) (by intro k m hk hks; omega) (by omega)
  generalize pthLoop p (2 * x.length + 2) x.toArray 0 (x.length - 1) = r at hreach hle hge hex
  have hperm : r.2.toList.Perm x := by
    have := hreach.perm
    simpa using this
  have hlen : r.2.toList.length = x.length := hperm.length_eq
  have hsize : r.2.size = x.length := by simpa using hlen
  refine ⟨?_, hperm⟩
  symm
  apply pth_certificate_sound x r.2.toList r.1 p hperm (by omega)
  · intro k hk hkp
    have := hle k (by omega) hkp
    rw [gv_eq_getElem r.2 k (by omega)] at this
    simpa using this
  · intro k hk hkp
    have := hge k (by omega) hkp
    rw [gv_eq_getElem r.2 k (by omega)] at this
    simpa using this
  · obtain ⟨k, hk1, hk2, hk3⟩ := hex
    refine ⟨k, by omega, hk2, ?_⟩
    rw [gv_eq_getElem r.2 k hk1] at hk3
    simpa using hk3

end NipyVerif.C16

namespace NipyVerif.C16

/-! ### `_pth_interval`: the two neighbouring order statistics -/

theorem cert_sorted (y : Array Rat) (a : Rat) (q : Nat) (hq : q < y.size) (h : Cert y a q) :
    nth (sortLe y.toList) q = a := by
  obtain ⟨hle, hge, hex⟩ := h
  apply pth_certificate_sound y.toList y.toList a q (List.Perm.refl _) (by simpa using hq)
  · intro k hk hkp
    have hk' : k < y.size := by simpa using hk
    have := hle k hk' hkp
    rw [gv_eq_getElem y k hk'] at this
    simpa using this
  · intro k hk hkp
    have hk' : k < y.size := by simpa using hk
    have := hge k hk' hkp
    rw [gv_eq_getElem y k hk'] at this
    simpa using this
  · obtain ⟨k, hk1, hk2, hk3⟩ := hex
    refine ⟨k, by simpa using hk1, hk2, ?_⟩
    rw [gv_eq_getElem y k hk1] at hk3
    simpa using hk3

/-- ordering the two ends of the window and the invariant the partition loop starts from -/
theorem preamble_spec (x : Array Rat) (il jr : Nat) (hlt : il < jr) (hjr : jr < x.size) (x1 : Array Rat)
    (hx1 : (if x.getD il 0 > x.getD jr 0 then swapA x il jr else x) = x1) :
    Reach il jr x x1 ∧ PInv (gv x1 il) il jr (decide (gv x il = gv x jr)) x1 x1 (il + 1) jr := by
  have hils : il < x.size := by omega
  have hreach1 : Reach il jr x x1 := by
    rw [← hx1]
    by_cases hc : x.getD il 0 > x.getD jr 0
    · rw [if_pos hc]
      exact Reach.step il jr (Reach.refl x) (le_refl _) (by omega) (by omega) (le_refl _) hjr
    · rw [if_neg hc]
      exact Reach.refl x
  have hsz1 : x1.size = x.size := hreach1.size
  have hsent : gv x1 il ≤ gv x1 jr ∧
      (decide (gv x il = gv x jr) = true → gv x1 jr = gv x1 il) ∧
      (decide (gv x il = gv x jr) = false → gv x1 il < gv x1 jr) := by
    rw [← hx1]
    by_cases hgt : gv x il > gv x jr
    · have hgt' : x.getD il 0 > x.getD jr 0 := hgt
      rw [if_pos hgt']
      rw [swapA_gv x il jr il hils hjr, swapA_gv x il jr jr hils hjr, if_neg (by omega), if_pos rfl, if_pos rfl]
      refine ⟨le_of_lt hgt, ?_, ?_⟩
      · intro h; exfalso
        have := of_decide_eq_true h
        rw [this] at hgt; exact lt_irrefl _ hgt
      · intro _; exact hgt
    · have hgt' : ¬ x.getD il 0 > x.getD jr 0 := hgt
      rw [if_neg hgt']
      have hle : gv x il ≤ gv x jr := not_lt.mp hgt
      refine ⟨hle, ?_, ?_⟩
      · intro h; exact (of_decide_eq_true h).symm
      · intro h
        have hne : gv x il ≠ gv x jr := of_decide_eq_false h
        exact lt_of_le_of_ne hle hne
  refine ⟨hreach1, Reach.refl x1, hlt, by omega, by omega, le_refl _, by omega, ?_, ?_, rfl, hsent.1, ?_, ?_, ?_⟩
  · intro k hk1 hk2; omega
  · intro k hk1 hk2; omega
  · intro _; rfl
  · intro h _; exact hsent.2.1 h
  · intro h _; exact hsent.2.2 h

/-- after a partition pass ending at `j`, the pivot is the order statistic of rank `j` -/
theorem cert_of_post (x2 : Array Rat) (a : Rat) (il jr j : Nat) (hjr : jr < x2.size)
    (hL2 : LeftDone x2 il) (hR2 : RightDone x2 jr) (hj : j ≤ jr)
    (plow : ∀ k, il ≤ k → k ≤ j → gv x2 k ≤ a) (phigh : ∀ k, j < k → k ≤ jr → a ≤ gv x2 k)
    (pex : ∃ k, il ≤ k ∧ k ≤ j ∧ gv x2 k = a) : Cert x2 a j := by
  obtain ⟨kk, hkk1, hkk2, hkk3⟩ := pex
  refine ⟨?_, ?_, ?_⟩
  · intro k hk hkp
    rcases Nat.lt_or_ge k il with h | h
    · have := hL2 k kk h hkk1 (by omega)
      rw [hkk3] at this; exact this
    · exact plow k h hkp
  · intro k hk hkp
    rcases Nat.lt_or_ge jr k with h | h
    · have := hR2 k kk h hk (by omega)
      rw [hkk3] at this; exact this
    · exact phigh k hkp h
  · exact ⟨kk, by omega, hkk2, hkk3⟩

theorem pivLoop_unfold (p f : Nat) (x : Array Rat) (il jr : Nat) (s1 s2 : Bool) (am aM : Rat) :
    pivLoop p (f + 1) x il jr s1 s2 am aM =
      (if s1 = true ∧ s2 = true then (am, aM, x)
       else
        let x1 := if x.getD il 0 > x.getD jr 0 then swapA x il jr else x
        let same := decide (x.getD il 0 = x.getD jr 0)
        let a := x1.getD il 0
        if il = jr then ((if s1 = true then am else a), (if s2 = true then aM else a), x1)
        else
          let r := partLoop a il jr same (x.size + 1) x1 (il + 1) jr
          if r.2.2 > p + 1 then pivLoop p f r.1 il r.2.2 s1 s2 am aM
          else if r.2.2 < p then pivLoop p f r.1 r.2.1 jr s1 s2 am aM
          else if r.2.2 = p then pivLoop p f r.1 r.2.1 jr true s2 a aM
          else pivLoop p f r.1 il r.2.2 s1 true am a) := by
  simp only [pivLoop]

theorem pivLoop_spec (p : Nat) :
    ∀ (f : Nat) (x : Array Rat) (il jr : Nat) (s1 s2 : Bool) (am aM : Rat),
      il ≤ jr → jr < x.size → p + 1 < x.size → LeftDone x il → RightDone x jr →
      (s1 = false → il ≤ p) → (s2 = false → p + 1 ≤ jr) →
      (s1 = true → am = nth (sortLe x.toList) p ∧ p ≤ il ∧ il ≤ p + 1) →
      (s2 = true → aM = nth (sortLe x.toList) (p + 1) ∧ jr = p + 1) →
      jr + 1 ≤ il + f →
      (pivLoop p f x il jr s1 s2 am aM).1 = nth (sortLe x.toList) p ∧
      (pivLoop p f x il jr s1 s2 am aM).2.1 = nth (sortLe x.toList) (p + 1) ∧
      Reach il jr x (pivLoop p f x il jr s1 s2 am aM).2.2 := by
  intro f
  induction f with
  | zero => intro x il jr s1 s2 am aM h1 _ _ _ _ _ _ _ _ hf; omega
  | succ f ih =>
      intro x il jr s1 s2 am aM hle hjr hpp hL hR h1 h2 h3 h4 hf
      rw [pivLoop_unfold]
      by_cases hs : s1 = true ∧ s2 = true
      · rw [if_pos hs]
        exact ⟨(h3 hs.1).1, (h4 hs.2).1, Reach.refl x⟩
      · rw [if_neg hs]
        simp only
        have hils : il < x.size := by omega
        generalize hx1 : (if x.getD il 0 > x.getD jr 0 then swapA x il jr else x) = x1
        have ha : x1.getD il 0 = gv x1 il := rfl
        have hxl : x.getD il 0 = gv x il := rfl
        have hxr : x.getD jr 0 = gv x jr := rfl
        rw [ha, hxl, hxr]
        by_cases hij : il = jr
        · rw [if_pos hij]
          subst hij
          have hx1e : x1 = x := by rw [← hx1, if_neg (lt_irrefl _)]
          rw [hx1e]
          -- only the state (stop1, not stop2) with il = p + 1 can reach a one-point window
          have hs1 : s1 = true := by
            cases hs1 : s1 with
            | true => rfl
            | false =>
                exfalso
                have := h1 hs1
                cases hs2 : s2 with
                | true => have := (h4 hs2).2; omega
                | false => have := h2 hs2; omega
          have hs2 : s2 = false := by
            cases hs2 : s2 with
            | false => rfl
            | true => exact absurd ⟨hs1, hs2⟩ hs
          have hil : il = p + 1 := by
            have := (h3 hs1).2.2; have := h2 hs2; omega
          refine ⟨?_, ?_, Reach.refl x⟩
          · show (if s1 = true then am else gv x il) = _
            rw [if_pos hs1]; exact (h3 hs1).1
          · show (if s2 = true then aM else gv x il) = _
            rw [if_neg (by rw [hs2]; decide)]
            symm
            apply cert_sorted x (gv x il) (p + 1) hpp
            refine ⟨?_, ?_, ?_⟩
            · intro k hk hkp
              rcases Nat.eq_or_lt_of_le hkp with he | hl
              · rw [he, hil]
              · exact hL k il (by omega) (le_refl _) hils
            · intro k hk hkp
              exact hR k il (by omega) hk (le_refl _)
            · exact ⟨il, hils, by omega, rfl⟩
        · rw [if_neg hij]
          have hlt : il < jr := by omega
          obtain ⟨hreach1, inv⟩ := preamble_spec x il jr hlt hjr x1 hx1
          have hsz1 : x1.size = x.size := hreach1.size
          have hL1 : LeftDone x1 il := hL.reach hreach1 (le_refl _) hjr
          have hR1 : RightDone x1 jr := hR.reach hreach1 (le_refl _)
          have post := partLoop_spec (gv x1 il) il jr (decide (gv x il = gv x jr)) x1 (x.size + 1) x1 (il + 1) jr inv
            (by omega)
          generalize partLoop (gv x1 il) il jr (decide (gv x il = gv x jr)) (x.size + 1) x1 (il + 1) jr = r at post
          obtain ⟨x2, i, j⟩ := r
          obtain ⟨preach, pjlt, pille, pigt, pile, plow, phigh, plow2, phigh2, pex, pji⟩ := post
          simp only at preach pjlt pille pigt pile plow phigh plow2 phigh2 pex pji
          have hsz2 : x2.size = x.size := by rw [preach.size, hsz1]
          have hL2 : LeftDone x2 il := hL1.reach preach (le_refl _) (by omega)
          have hR2 : RightDone x2 jr := hR1.reach preach (le_refl _)
          have hreach2 : Reach il jr x x2 := hreach1.trans preach
          have hsort : sortLe x2.toList = sortLe x.toList := sortLe_eq_of_perm hreach2.perm
          have hRj : RightDone x2 j := by
            intro k m hk hks hm
            rcases Nat.lt_or_ge jr k with h | h
            · exact hR2 k m h hks (by omega)
            · have hka := phigh k hk h
              rcases Nat.lt_or_ge m il with h2' | h2'
              · exact hL2 m k h2' (by omega) hks
              · exact le_trans (plow m h2' hm) hka
          have hLi : LeftDone x2 i := by
            intro k m hk hm hms
            rcases Nat.lt_or_ge k il with h | h
            · exact hL2 k m h (by omega) hms
            · have hka := plow2 k h hk
              rcases Nat.lt_or_ge jr m with h2' | h2'
              · exact hR2 m k h2' hms (by omega)
              · exact le_trans hka (phigh2 m hm h2')
          simp only
          by_cases hb1 : j > p + 1
          · rw [if_pos hb1]
            have hs2f : s2 = false := by
              cases hs2 : s2 with
              | false => rfl
              | true => have := (h4 hs2).2; omega
            obtain ⟨r1, r2, r3⟩ := ih x2 il j s1 s2 am aM pille (by omega) (by omega) hL2 hRj h1 (fun _ => by omega)
              (fun h => by rw [hsort]; exact h3 h) (fun h => by rw [hs2f] at h; cases h) (by omega)
            rw [hsort] at r1 r2
            exact ⟨r1, r2, hreach2.trans (r3.mono (le_refl _) (by omega) (by omega))⟩
          · rw [if_neg hb1]
            by_cases hb2 : j < p
            · rw [if_pos hb2]
              have hs1f : s1 = false := by
                cases hs1 : s1 with
                | false => rfl
                | true => have := (h3 hs1).2.1; omega
              have hijr : i ≤ jr := by
                cases hs2 : s2 with
                | false => have := h2 hs2; omega
                | true => have := (h4 hs2).2; omega
              obtain ⟨r1, r2, r3⟩ := ih x2 i jr s1 s2 am aM hijr (by omega) (by omega) hLi hR2 (fun _ => by omega) h2
                (fun h => by rw [hs1f] at h; cases h) (fun h => by rw [hsort]; exact h4 h) (by omega)
              rw [hsort] at r1 r2
              exact ⟨r1, r2, hreach2.trans (r3.mono (by omega) (le_refl _) (by omega))⟩
            · rw [if_neg hb2]
              by_cases hb3 : j = p
              · rw [if_pos hb3]
                have hcert : Cert x2 (gv x1 il) j :=
                  cert_of_post x2 (gv x1 il) il jr j (by omega) hL2 hR2 (by omega) plow phigh pex
                have hval : gv x1 il = nth (sortLe x2.toList) p := by
                  rw [← hb3]; exact (cert_sorted x2 _ j (by omega) hcert).symm
                have hijr : i ≤ jr := by
                  cases hs2 : s2 with
                  | false => have := h2 hs2; omega
                  | true => have := (h4 hs2).2; omega
                obtain ⟨r1, r2, r3⟩ := ih x2 i jr true s2 (gv x1 il) aM hijr (by omega) (by omega) hLi hR2
                  (fun h => by cases h) h2 (fun _ => ⟨hval, by omega, by omega⟩)
                  (fun h => by rw [hsort]; exact h4 h) (by omega)
                rw [hsort] at r1 r2
                exact ⟨r1, r2, hreach2.trans (r3.mono (by omega) (le_refl _) (by omega))⟩
              · rw [if_neg hb3]
                have hje : j = p + 1 := by omega
                have hcert : Cert x2 (gv x1 il) j :=
                  cert_of_post x2 (gv x1 il) il jr j (by omega) hL2 hR2 (by omega) plow phigh pex
                have hval : gv x1 il = nth (sortLe x2.toList) (p + 1) := by
                  rw [← hje]; exact (cert_sorted x2 _ j (by omega) hcert).symm
                obtain ⟨r1, r2, r3⟩ := ih x2 il j s1 true am (gv x1 il) pille (by omega) (by omega) hL2 hRj h1
                  (fun h => by cases h) (fun h => by rw [hsort]; exact h3 h) (fun _ => ⟨hval, hje⟩) (by omega)
                rw [hsort] at r1 r2
                exact ⟨r1, r2, hreach2.trans (r3.mono (le_refl _) (by omega) (by omega))⟩

/-- **the literal `_pth_interval` is correct**: it returns the order statistics of ranks `p` and `p+1`
    and leaves a rearrangement of the buffer, whenever `p + 1 < n`. -/
theorem pthInterval_correct (x : List Rat) (p : Nat) (hp : p + 1 < x.length) :
    (pthInterval x p).1 = nth (sortLe x) p ∧ (pthInterval x p).2.1 = nth (sortLe x) (p + 1) ∧
    (pthInterval x p).2.2.Perm x := by
  unfold pthInterval
  simp only
  obtain ⟨r1, r2, r3⟩ := pivLoop_spec p (2 * x.length + 2) x.toArray 0 (x.length - 1) false false 0 0
    (Nat.zero_le _) (by simp; omega) (by simpa using hp) (by intro k m hk; omega)
    (by intro k m hk hks; simp at hks; omega) (fun _ => Nat.zero_le _) (fun _ => by omega)
    (fun h => by cases h) (fun h => by cases h) (by omega)
  refine ⟨by simpa using r1, by simpa using r2, ?_⟩
  have := r3.perm
  simpa using this

end NipyVerif.C16
