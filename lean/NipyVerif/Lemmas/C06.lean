/- Helper lemmas for C06: `pos_recipr`, the bridge from the `Fin`-function model to
   Mathlib matrices, invariance of the quadratic form, clipping, running minima. -/
import NipyVerif.Model.C06
import Mathlib.Algebra.Order.Field.Rat
import Mathlib.Algebra.BigOperators.Fin
import Mathlib.LinearAlgebra.Matrix.NonsingularInverse
import Mathlib.Tactic.Ring
import Mathlib.Tactic.Linarith
import Mathlib.Tactic.FieldSimp

namespace NipyVerif.C06
open Matrix

theorem posRecipr_pos {x : Rat} (h : 0 < x) : posRecipr x = 1 / x := by simp [posRecipr, h]
theorem posRecipr_nonpos {x : Rat} (h : x ≤ 0) : posRecipr x = 0 := by
  simp [posRecipr, not_lt.mpr h]

/-! ### bridge to Mathlib -/

theorem fsum_eq_sum {n : Nat} (f : Fin n → Rat) : fsum f = ∑ i, f i := by
  unfold fsum; exact List.sum_ofFn

theorem fsum_one (f : Fin 1 → Rat) : fsum f = f 0 := by
  rw [fsum_eq_sum]; simp

/-- a model matrix seen as a Mathlib matrix (definitionally the same function) -/
abbrev toM {m n : Nat} (A : Mat m n) : Matrix (Fin m) (Fin n) ℚ := A

theorem mulVec_eq {m n : Nat} (A : Mat m n) (v : Vec n) : mulVec A v = (toM A) *ᵥ v := by
  funext i; simp [mulVec, fsum_eq_sum, Matrix.mulVec, dotProduct]

theorem mmul_eq {m n k : Nat} (A : Mat m n) (B : Mat n k) : mmul A B = toM A * toM B := by
  funext i l; simp [mmul, fsum_eq_sum, Matrix.mul_apply]

theorem dotv_eq {n : Nat} (u v : Vec n) : dotv u v = u ⬝ᵥ v := by
  simp [dotv, fsum_eq_sum, dotProduct]

theorem tr_eq {m n : Nat} (A : Mat m n) : tr A = (toM A)ᵀ := rfl

theorem one_eq (n : Nat) : one n = (1 : Matrix (Fin n) (Fin n) ℚ) := by
  funext i j; simp [one, Matrix.one_apply]

/-- the quadratic form `uᵀ V⁻¹ u` is unchanged by `u ↦ G u`, `V ↦ G V Gᵀ` -/
theorem quadform_invariant {q : Nat} (V W W' G H : Matrix (Fin q) (Fin q) ℚ) (u : Fin q → ℚ)
    (hG : H * G = 1) (hW : W * V = 1) (hW' : W' * (G * V * Gᵀ) = 1) :
    (W' *ᵥ (G *ᵥ u)) ⬝ᵥ (G *ᵥ u) = (W *ᵥ u) ⬝ᵥ u := by
  have hG' : G * H = 1 := mul_eq_one_comm.mp hG
  have hB : (G * V * Gᵀ) * (Hᵀ * W * H) = 1 := by
    apply mul_eq_one_comm.mp
    calc Hᵀ * W * H * (G * V * Gᵀ) = Hᵀ * (W * ((H * G) * V)) * Gᵀ := by
            simp only [Matrix.mul_assoc]
      _ = Hᵀ * Gᵀ := by rw [hG, Matrix.one_mul, hW, Matrix.mul_one]
      _ = 1 := by rw [← Matrix.transpose_mul, hG', Matrix.transpose_one]
  have hWeq : W' = Hᵀ * W * H := by
    calc W' = W' * ((G * V * Gᵀ) * (Hᵀ * W * H)) := by rw [hB, Matrix.mul_one]
      _ = (W' * (G * V * Gᵀ)) * (Hᵀ * W * H) := (Matrix.mul_assoc _ _ _).symm
      _ = Hᵀ * W * H := by rw [hW', Matrix.one_mul]
  have h1 : W' *ᵥ (G *ᵥ u) = Hᵀ *ᵥ (W *ᵥ u) := by
    rw [hWeq, Matrix.mulVec_mulVec, Matrix.mul_assoc, Matrix.mul_assoc, hG, Matrix.mul_one,
      ← Matrix.mulVec_mulVec]
  rw [h1, Matrix.mulVec_transpose, ← Matrix.dotProduct_mulVec, Matrix.mulVec_mulVec, hG,
    Matrix.one_mulVec]

/-- `vcov` with unit dispersion as a matrix product -/
theorem vcov_one_eq {q p : Nat} (M : Mat q p) (cov : Mat p p) :
    toM (vcov M cov 1) = toM M * toM cov * (toM M)ᵀ := by
  funext i j
  show (mmul M (mmul cov (tr M))) i j * 1 = _
  rw [mul_one, mmul_eq, mmul_eq, tr_eq, Matrix.mul_assoc]

/-! ### clipping -/

theorem pLo_le_pHi : pLo ≤ pHi := by decide +kernel
theorem pLo_pos : 0 < pLo := by decide +kernel
theorem pHi_lt_one : pHi < 1 := by decide +kernel

theorem clipP_mem (p : Rat) : pLo ≤ clipP p ∧ clipP p ≤ pHi := by
  unfold clipP
  exact ⟨le_min (le_max_right _ _) pLo_le_pHi, min_le_right _ _⟩

theorem clipP_mono {p r : Rat} (h : p ≤ r) : clipP p ≤ clipP r := by
  unfold clipP
  exact min_le_min (max_le_max h le_rfl) le_rfl

theorem clipP_id {p : Rat} (h1 : pLo ≤ p) (h2 : p ≤ pHi) : clipP p = p := by
  unfold clipP; rw [max_eq_left h1, min_eq_left h2]

/-! ### running minimum -/

theorem runMin_length (l : List Rat) : (runMin l).length = l.length := by
  induction l with
  | nil => rfl
  | cons x xs ih =>
      cases xs with
      | nil => simp [runMin]
      | cons y ys =>
          unfold runMin
          split
          · next h => rw [h] at ih; simp at ih
          · next z zs h => rw [h] at ih; simp at ih ⊢; omega

theorem runMin_cons_cons (x y : Rat) (ys : List Rat) :
    runMin (x :: y :: ys) = min ((runMin (y :: ys)).getD 0 0) x :: runMin (y :: ys) := by
  have hl := runMin_length (y :: ys)
  conv_lhs => unfold runMin
  split
  · next h => rw [h] at hl; simp at hl
  · next z zs h => rw [h]; simp

/-- every later raw value bounds the running minimum from above -/
theorem runMin_le (l : List Rat) : ∀ i j, i ≤ j → j < l.length →
    (runMin l).getD i 0 ≤ l.getD j 0 := by
  induction l with
  | nil => intro i j _ h; simp at h
  | cons x xs ih =>
      cases xs with
      | nil =>
          intro i j hij hj
          have : j = 0 := by simpa using hj
          subst this
          have : i = 0 := by omega
          subst this
          simp [runMin]
      | cons y ys =>
          intro i j hij hj
          rw [runMin_cons_cons]
          cases i with
          | zero =>
              cases j with
              | zero => simp
              | succ j =>
                  have h := ih 0 j (Nat.zero_le _) (by simpa using hj)
                  simp only [List.getD_cons_zero, List.getD_cons_succ]
                  exact le_trans (min_le_left _ _) h
          | succ i =>
              cases j with
              | zero => omega
              | succ j =>
                  simpa using ih i j (by omega) (by simpa using hj)

/-- the running minimum is one of the later raw values -/
theorem runMin_attained (l : List Rat) : ∀ i, i < l.length →
    ∃ j, i ≤ j ∧ j < l.length ∧ (runMin l).getD i 0 = l.getD j 0 := by
  induction l with
  | nil => intro i h; simp at h
  | cons x xs ih =>
      cases xs with
      | nil =>
          intro i hi
          have : i = 0 := by simpa using hi
          subst this
          exact ⟨0, le_rfl, by simp, by simp [runMin]⟩
      | cons y ys =>
          intro i hi
          rw [runMin_cons_cons]
          cases i with
          | zero =>
              obtain ⟨j, _, hj, he⟩ := ih 0 (by simp)
              rcases le_total ((runMin (y :: ys)).getD 0 0) x with h | h
              · exact ⟨j + 1, Nat.zero_le _, by simpa using hj, by
                  simp only [List.getD_cons_zero, List.getD_cons_succ, min_eq_left h]; exact he⟩
              · exact ⟨0, le_rfl, by simp, by
                  simp only [List.getD_cons_zero]; exact min_eq_right h⟩
          | succ i =>
              obtain ⟨j, hij, hj, he⟩ := ih i (by simpa using hi)
              exact ⟨j + 1, by omega, by simpa using hj, by simpa using he⟩

/-- entries of `np.minimum(1, n * sp / arange(1, n + 1))` -/
theorem bhRaw_length (n : Rat) (l : List Rat) : ∀ k, (bhRaw n k l).length = l.length := by
  induction l with
  | nil => intro k; rfl
  | cons x xs ih => intro k; simp [bhRaw, ih]

theorem bhRaw_getD (n : Rat) (l : List Rat) : ∀ k j, j < l.length →
    (bhRaw n k l).getD j 0 = min 1 (n * l.getD j 0 / (((k + j : Nat) : Rat) + 1)) := by
  induction l with
  | nil => intro k j h; simp at h
  | cons x xs ih =>
      intro k j hj
      cases j with
      | zero => simp [bhRaw]
      | succ j =>
          have := ih (k + 1) j (by simpa using hj)
          simp only [bhRaw, List.getD_cons_succ, this]
          congr 3
          push_cast; ring

end NipyVerif.C06
