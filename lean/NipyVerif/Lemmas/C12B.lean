/-
Helper lemmas for C12 part B (histories on one Forest object): what the edge array
and the children cache encode, coherence of the state, permutations for `reorder`,
renumbering for `subforest`.
-/
import NipyVerif.Model.C12B
import NipyVerif.Lemmas.C12
import Batteries.Data.List.Perm
import Mathlib.Data.List.Nodup

namespace NipyVerif.C12

theorem fnOf_apply (l : List Nat) (v : Nat) : fnOf l v = l.getD v v := by
  simp [fnOf]

theorem fnOf_ge (l : List Nat) {v : Nat} (h : l.length ≤ v) : fnOf l v = v := by
  rw [fnOf_apply, List.getD_eq_getElem?_getD, List.getElem?_eq_none h]; rfl

theorem mem_nonRoots {V : Nat} {p : Nat → Nat} {i : Nat} : i ∈ nonRoots V p ↔ i < V ∧ p i ≠ i := by
  simp [nonRoots, List.mem_filter]

/-! ### what `define_graph_attributes` encodes -/

theorem isLeafE_defEdges (V : Nat) (p : Nat → Nat) (v : Nat) :
    isLeafE (defEdges V p) v = isLeaf V p v := by
  unfold isLeafE isLeaf
  congr 1
  rw [Bool.eq_iff_iff]
  simp only [defEdges, List.any_append, List.any_map, Bool.or_eq_true, List.any_eq_true,
    Function.comp, Bool.and_eq_true, decide_eq_true_eq, beq_iff_eq, bne_iff_ne, List.mem_range]
  constructor
  · rintro (⟨i, hi, _, h⟩ | ⟨i, _, h, _⟩)
    · exact ⟨i, (mem_nonRoots.1 hi).1, (mem_nonRoots.1 hi).2, h⟩
    · omega
  · rintro ⟨i, hi, hne, h⟩
    exact Or.inl ⟨i, mem_nonRoots.2 ⟨hi, hne⟩, by omega, h⟩

theorem childrenE_defEdges (V : Nat) (p : Nat → Nat) (v : Nat) :
    childrenE V (defEdges V p) v = children V p v := by
  unfold childrenE children
  apply List.filter_congr
  intro c hc
  have hc := List.mem_range.1 hc
  rw [Bool.eq_iff_iff]
  simp only [defEdges, List.any_append, List.any_map, Bool.or_eq_true, List.any_eq_true,
    Function.comp, Bool.and_eq_true, decide_eq_true_eq, beq_iff_eq, bne_iff_ne]
  constructor
  · rintro (⟨i, _, ⟨h, _⟩, _⟩ | ⟨i, hi, ⟨_, h1⟩, h2⟩)
    · omega
    · subst h2
      exact ⟨h1, fun h => (mem_nonRoots.1 hi).2 (by omega)⟩
  · rintro ⟨h1, h2⟩
    exact Or.inr ⟨c, mem_nonRoots.2 ⟨hc, by omega⟩, ⟨by omega, h1⟩, rfl⟩

theorem pOfEdges_defEdges (V : Nat) (p : Nat → Nat) (v : Nat) (hv : V ≤ v → p v = v) :
    pOfEdges (defEdges V p) v = p v := by
  unfold pOfEdges
  split
  · rename_i e he
    have hmem := List.mem_of_find?_eq_some he
    have hp := List.find?_some he
    simp only [Bool.and_eq_true, decide_eq_true_eq, beq_iff_eq] at hp
    simp only [defEdges, List.mem_append, List.mem_map] at hmem
    rcases hmem with ⟨i, _, rfl⟩ | ⟨i, _, rfl⟩
    · simp only at hp ⊢
      rw [hp.2]
    · simp only at hp
      omega
  · rename_i he
    rw [List.find?_eq_none] at he
    by_cases hlt : v < V
    · by_contra hne
      have hmem : (⟨v, p v, 1⟩ : FEdge) ∈ defEdges V p := by
        simp only [defEdges, List.mem_append, List.mem_map]
        exact Or.inl ⟨v, mem_nonRoots.2 ⟨hlt, fun h => hne h.symm⟩, rfl⟩
      have := he _ hmem
      simp at this
    · exact (hv (by omega)).symm

theorem defEdges_isEmpty (V : Nat) (p : Nat → Nat) :
    (defEdges V p).isEmpty = (nonRoots V p).isEmpty := by
  cases h : nonRoots V p <;> simp [defEdges, h]

/-! ### coherent states -/

/-- the derived fields describe the parent array -/
structure Coherent (s : FState) : Prop where
  len : s.parents.length = s.V
  inRange : ∀ v < s.V, fnOf s.parents v < s.V
  edges : s.edges = defEdges s.V (fnOf s.parents)
  cache : s.cache = none ∨ s.cache = some ((List.range s.V).map (children s.V (fnOf s.parents)))

theorem children_out_of_range {V : Nat} {p : Nat → Nat} (hr : ∀ v < V, p v < V) {v : Nat}
    (hv : V ≤ v) : children V p v = [] := by
  rw [List.eq_nil_iff_forall_not_mem]
  intro c hc
  obtain ⟨hcV, hpc, _⟩ : c < V ∧ p c = v ∧ c ≠ v := by
    simpa [children, List.mem_filter] using hc
  have := hr c hcV
  omega

theorem kidsOf_childrenAll {V : Nat} {p : Nat → Nat} (hr : ∀ v < V, p v < V) :
    kidsOf ((List.range V).map (children V p)) = children V p := by
  funext v
  unfold kidsOf
  by_cases hv : v < V
  · simp [List.getD_eq_getElem?_getD, hv]
  · rw [List.getD_eq_getElem?_getD, List.getElem?_eq_none (by simp; omega)]
    exact (children_out_of_range hr (by omega)).symm

theorem computeChildren_defEdges (V : Nat) (p : Nat → Nat) :
    computeChildren V (defEdges V p) = (List.range V).map (children V p) := by
  unfold computeChildren
  apply List.map_congr_left
  intro v _
  exact childrenE_defEdges V p v

/-- on a coherent state every method reads exactly what the parent array says -/
theorem viewOf_coherent {s : FState} (h : Coherent s) : viewOf s = specView s.V (fnOf s.parents) := by
  have hk : kidsOf (s.cache.getD (computeChildren s.V s.edges)) = children s.V (fnOf s.parents) := by
    rcases h.cache with hc | hc
    · rw [hc, Option.getD_none, h.edges, computeChildren_defEdges]
      exact kidsOf_childrenAll h.inRange
    · rw [hc, Option.getD_some]
      exact kidsOf_childrenAll h.inRange
  unfold viewOf specView
  rw [hk, h.edges]
  congr 1
  · funext v; exact isLeafE_defEdges _ _ v
  · funext v
    exact pOfEdges_defEdges _ _ v (fun hv => fnOf_ge _ (by rw [h.len]; exact hv))
  · rw [defEdges_isEmpty]

theorem descRecK_children (V : Nat) (p : Nat → Nat) (fuel : Nat) :
    descRecK (children V p) fuel = descRec V p fuel := by
  induction fuel with
  | zero => funext v; rfl
  | succ fuel ih => funext v; simp only [descRecK, descRec, ih]

theorem descK_children (V : Nat) (p : Nat → Nat) (v : Nat) :
    descK V (children V p) v = descendants V p v := by
  unfold descK descendants
  rw [descRecK_children]

/-! ### `subforest`: the renumbered parents are in range -/

theorem renumb_mono (valid : Nat → Bool) {a b : Nat} (h : a ≤ b) : renumb valid a ≤ renumb valid b := by
  induction b with
  | zero => have : a = 0 := by omega
            subst this; exact Nat.le_refl _
  | succ b ih =>
    rcases Nat.lt_or_ge a (b + 1) with h' | h'
    · have := ih (by omega)
      rw [renumb]; omega
    · have : a = b + 1 := by omega
      subst this; exact Nat.le_refl _

theorem renumb_lt (valid : Nat → Bool) {w V : Nat} (hw : w < V) (hv : valid w = true) :
    renumb valid w < renumb valid V := by
  have h1 : renumb valid (w + 1) = renumb valid w + 1 := by simp [renumb, hv]
  have h2 := renumb_mono valid (show w + 1 ≤ V by omega)
  omega

theorem renumb_eq_length (valid : Nat → Bool) (V : Nat) :
    renumb valid V = ((List.range V).filter valid).length := by
  induction V with
  | zero => rfl
  | succ V ih =>
    rw [renumb, ih, List.range_succ, List.filter_append]
    by_cases h : valid V <;> simp [h]

theorem subforestParents_inRange (V : Nat) (p : Nat → Nat) (hr : ∀ v < V, p v < V)
    (valid : Nat → Bool) :
    ∀ x ∈ subforestParents V p valid, x < (subforestParents V p valid).length := by
  intro x hx
  simp only [subforestParents, List.mem_map, List.mem_filter, List.mem_range, List.length_map] at hx ⊢
  obtain ⟨v, ⟨hv, hval⟩, rfl⟩ := hx
  rw [← renumb_eq_length]
  by_cases h : valid (p v) = true
  · simp only [h, if_true]
    exact renumb_lt valid (hr v hv) h
  · simp only [h, Bool.false_eq_true, if_false]
    exact renumb_lt valid hv hval

theorem fnOf_lt_of_all_lt {l : List Nat} (h : ∀ x ∈ l, x < l.length) : ∀ v < l.length, fnOf l v < l.length := by
  intro v hv
  rw [fnOf_apply, List.getD_eq_getElem?_getD, List.getElem?_eq_getElem hv]
  exact h _ (List.getElem_mem hv)

theorem mkForest_coherent {ps : List Nat} {s : FState} (h : mkForest ps = some s)
    (hr : ∀ x ∈ ps, x < ps.length) : Coherent s := by
  unfold mkForest at h
  split at h
  · cases h
    exact ⟨rfl, fnOf_lt_of_all_lt hr, rfl, Or.inl rfl⟩
  · cases h

/-! ### `reorder`: a valid order is a permutation of the vertices -/

theorem validOrder_unfold {V : Nat} {d : Nat → Int} {order : List Nat} (h : validOrder V d order = true) :
    order.length = V ∧ ∀ v < V, order.count v = 1 := by
  simp only [validOrder, Bool.and_eq_true, decide_eq_true_eq, List.all_eq_true, List.mem_range,
    beq_iff_eq] at h
  exact ⟨h.1.1, h.1.2⟩

/-- every entry of a valid order is a vertex: the `V` vertices already fill the `V` positions -/
theorem validOrder_entries_lt {V : Nat} {d : Nat → Int} {order : List Nat}
    (h : validOrder V d order = true) : ∀ a ∈ order, a < V := by
  obtain ⟨hlen, hcount⟩ := validOrder_unfold h
  intro a hmem
  by_contra hge
  have hsub : (List.range V).Subperm (order.erase a) := by
    apply List.subperm_of_subset List.nodup_range
    intro x hx
    have hxV := List.mem_range.1 hx
    have hxa : x ≠ a := by omega
    have hxm : x ∈ order := List.count_pos_iff.1 (by rw [hcount x hxV]; exact Nat.one_pos)
    exact (List.mem_erase_of_ne hxa).2 hxm
  have := hsub.length_le
  rw [List.length_erase_of_mem hmem, List.length_range] at this
  have hpos := List.length_pos_of_mem hmem
  omega

theorem fnOf_getElem {l : List Nat} {i : Nat} (hi : i < l.length) : fnOf l i = l[i] := by
  rw [fnOf_apply, List.getD_eq_getElem?_getD, List.getElem?_eq_getElem hi, Option.getD_some]

/-- a valid `argsort` result, as a function, is injective on the vertices and onto them -/
theorem validOrder_perm {V : Nat} {d : Nat → Int} {order : List Nat} (h : validOrder V d order = true) :
    (∀ i < V, ∀ j < V, fnOf order i = fnOf order j → i = j) ∧
      (∀ v < V, ∃ i < V, fnOf order i = v) ∧ ∀ i < V, fnOf order i < V := by
  obtain ⟨hlen, hcount⟩ := validOrder_unfold h
  have hlt := validOrder_entries_lt h
  refine ⟨?_, ?_, ?_⟩
  · have hnodup : order.Nodup := by
      rw [List.nodup_iff_count]
      intro a
      by_cases ha : a < V
      · rw [hcount a ha]
      · have : a ∉ order := fun hm => ha (hlt a hm)
        rw [List.count_eq_zero_of_not_mem this]; omega
    intro i hi j hj hij
    rw [fnOf_getElem (by omega), fnOf_getElem (by omega)] at hij
    exact (List.Nodup.getElem_inj_iff hnodup).1 hij
  · intro v hv
    have hmem : v ∈ order := List.count_pos_iff.1 (by rw [hcount v hv]; exact Nat.one_pos)
    obtain ⟨i, hi, hiv⟩ := List.getElem_of_mem hmem
    exact ⟨i, by omega, by rw [fnOf_getElem hi, hiv]⟩
  · intro i hi
    rw [fnOf_getElem (by omega)]
    exact hlt _ (List.getElem_mem _)

theorem reorder_inRange (V : Nat) (p : Nat → Nat) (hr : ∀ v < V, p v < V) {d : Nat → Int}
    {order : List Nat} (h : validOrder V d order = true) :
    ∀ x ∈ reorder V p (fnOf order), x < (reorder V p (fnOf order)).length := by
  obtain ⟨hinj, hsurj, hlt⟩ := validOrder_perm h
  intro x hx
  simp only [reorder, List.mem_map, List.mem_range, List.length_map, List.length_range] at hx ⊢
  obtain ⟨i, hi, rfl⟩ := hx
  obtain ⟨k, hk, hok⟩ := hsurj (p (fnOf order i)) (hr _ (hlt i hi))
  rw [← hok]
  show inverseOrder V (fnOf order) (fnOf order k) < V
  rw [inverseOrder, inverseOrder_prefix (fnOf order) V hinj k hk]
  exact hk

theorem fnOf_reorder (V : Nat) (p σ : Nat → Nat) {i : Nat} (hi : i < V) :
    fnOf (reorder V p σ) i = inverseOrder V σ (p (σ i)) := by
  rw [fnOf_apply]
  simp [reorder, List.getD_eq_getElem?_getD, hi]

/-- reordering conjugates the parent map: `k` parent steps in the new numbering are `k` parent
    steps in the old one, renumbered -/
theorem reorder_iterate (V : Nat) (p : Nat → Nat) (hr : ∀ v < V, p v < V) {d : Nat → Int}
    {order : List Nat} (h : validOrder V d order = true) (k i : Nat) (hi : i < V) :
    (fnOf (reorder V p (fnOf order)))^[k] i = inverseOrder V (fnOf order) (p^[k] (fnOf order i)) ∧
      (fnOf (reorder V p (fnOf order)))^[k] i < V ∧ p^[k] (fnOf order i) < V := by
  obtain ⟨hinj, hsurj, hlt⟩ := validOrder_perm h
  have hτσ : ∀ j < V, inverseOrder V (fnOf order) (fnOf order j) = j :=
    fun j hj => inverseOrder_prefix (fnOf order) V hinj j hj
  have hστ : ∀ x < V, fnOf order (inverseOrder V (fnOf order) x) = x ∧
      inverseOrder V (fnOf order) x < V := by
    intro x hx
    obtain ⟨j, hj, hjx⟩ := hsurj x hx
    rw [← hjx, hτσ j hj]
    exact ⟨rfl, hj⟩
  induction k with
  | zero => exact ⟨(hτσ i hi).symm, hi, hlt i hi⟩
  | succ k ih =>
    obtain ⟨h1, h2, h3⟩ := ih
    rw [Function.iterate_succ_apply', Function.iterate_succ_apply', h1,
      fnOf_reorder V p _ (hστ _ h3).2, (hστ _ h3).1]
    exact ⟨rfl, (hστ _ (hr _ h3)).2, hr _ h3⟩

theorem afterCache_same (s : FState) (op : FOp) :
    (afterCache s op).V = s.V ∧ (afterCache s op).parents = s.parents := by
  unfold afterCache
  cases op <;> first
    | exact ⟨rfl, rfl⟩
    | (simp only []; split <;> exact ⟨rfl, rfl⟩)

theorem mkForest_check {sp : List Nat} {s' : FState} (h : mkForest sp = some s') :
    check s'.V (fnOf s'.parents) = true := by
  unfold mkForest at h
  split at h
  · rename_i hok
    cases h
    simp only [forestOk, Bool.and_eq_true] at hok
    have hfun : (fun v => sp.getD v v) = fnOf sp := by funext v; rw [fnOf_apply]
    rw [← hfun]; exact hok.2
  · cases h

end NipyVerif.C12
