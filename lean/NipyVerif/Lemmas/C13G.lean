/-
C13 — Gaussian component densities as `GMM.unweighted_likelihood_` writes them, over Mathlib's reals:
helper lemmas (the coordinate density is Mathlib's `gaussianPDFReal`, the diagonal density is a product,
integrability).
-/
import Mathlib.Probability.Distributions.Gaussian.Real
import Mathlib.MeasureTheory.Integral.Pi

open MeasureTheory ProbabilityTheory Real
open scoped NNReal BigOperators

namespace NipyVerif.C13

/-- the value `GMM.unweighted_likelihood_` computes for one sample and one component with a diagonal
    precision `b` (as the code writes it: `w = -log(2π)·dim + Σ log b − Σ b (m − x)²; exp(w / 2)`) -/
noncomputable def diagLike {d : ℕ} (m b x : Fin d → ℝ) : ℝ :=
  Real.exp ((-(Real.log (2 * π)) * d + ∑ j, Real.log (b j) - ∑ j, (m j - x j) ^ 2 * b j) / 2)

/-- one coordinate: the Gaussian density with mean `m` and variance `1 / b` as Mathlib defines it -/
theorem like1_eq_gaussianPDF (m b x : ℝ) (hb : 0 < b) :
    Real.exp ((-(Real.log (2 * π)) + Real.log b - (m - x) ^ 2 * b) / 2) =
      gaussianPDFReal m (Real.toNNReal (1 / b)) x := by
  rw [gaussianPDFReal_def]
  have hc : ((Real.toNNReal (1 / b) : ℝ≥0) : ℝ) = 1 / b := Real.coe_toNNReal _ (by positivity)
  simp only [hc]
  have h2pi : (0 : ℝ) < 2 * π := by positivity
  have hsq : (√(2 * π * (1 / b)))⁻¹ = Real.exp ((-(Real.log (2 * π)) + Real.log b) / 2) := by
    have hpos : 0 < 2 * π * (1 / b) := by positivity
    rw [Real.sqrt_eq_rpow, ← Real.rpow_neg hpos.le, Real.rpow_def_of_pos hpos]
    congr 1
    rw [Real.log_mul h2pi.ne' (by positivity), one_div, Real.log_inv]
    ring
  rw [hsq, ← Real.exp_add]
  congr 1
  field_simp
  ring

/-- the diagonal likelihood is the product of the coordinate densities -/
theorem diagLike_eq_prod {d : ℕ} (m b x : Fin d → ℝ) (hb : ∀ j, 0 < b j) :
    diagLike m b x = ∏ j, gaussianPDFReal (m j) (Real.toNNReal (1 / b j)) (x j) := by
  unfold diagLike
  have : ∀ j, gaussianPDFReal (m j) (Real.toNNReal (1 / b j)) (x j) =
      Real.exp ((-(Real.log (2 * π)) + Real.log (b j) - (m j - x j) ^ 2 * b j) / 2) :=
    fun j => (like1_eq_gaussianPDF (m j) (b j) (x j) (hb j)).symm
  simp_rw [this]
  rw [← Real.exp_sum]
  congr 1
  rw [← Finset.sum_div]
  congr 1
  simp only [Finset.sum_sub_distrib, Finset.sum_add_distrib, Finset.sum_const, Finset.card_univ,
    Fintype.card_fin, nsmul_eq_mul]
  ring

theorem diagLike_integrable {d : ℕ} (m b : Fin d → ℝ) (hb : ∀ j, 0 < b j) :
    Integrable (fun x : Fin d → ℝ => diagLike m b x) := by
  have : (fun x : Fin d → ℝ => diagLike m b x) =
      fun x => ∏ j, gaussianPDFReal (m j) (Real.toNNReal (1 / b j)) (x j) := by
    funext x; exact diagLike_eq_prod m b x hb
  rw [this]
  exact Integrable.fintype_prod (fun j => integrable_gaussianPDFReal _ _)

end NipyVerif.C13
